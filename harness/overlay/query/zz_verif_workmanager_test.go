package query

// Replay driver for the WorkManager family (C12).  Injected into package query
// at build time with `go test -overlay -tags verif`; nothing is copied into
// /repo.  It executes paths of specs/WorkManager/WorkManager.tla against the
// REAL peerWorkManager: scripted Workers (Config.NewWorker) hand back exactly
// the result the path says, when the path says; peers are fed through the
// ConnectedPeers channel; the idle timer's wake is posted on the manager's
// own progressWakes channel (what the timer callback does); the hard
// deadline is a real time.After that the driver waits out.  The trace hooks
// of the dispatcher (query/verif_trace.go) are the step / quiescence signal.

import (
	"bufio"
	"encoding/json"
	"errors"
	"fmt"
	"os"
	"runtime"
	"sort"
	"strconv"
	"strings"
	"sync"
	"testing"
	"time"

	"github.com/btcsuite/btcd/wire/v2"
)

// ---------------------------------------------------------------------------
// JSON shapes (uniform with the model's act / Obs records)

type wmAct struct {
	Op    string `json:"op"`
	Res   string `json:"res"`
	A     int    `json:"a"`
	I     int    `json:"i"`
	B     int    `json:"b"`
	K     int    `json:"k"`
	J     int    `json:"j"`
	E     int    `json:"e"`
	N     int    `json:"n"`
	Retr  int    `json:"retr"`
	Nomax int    `json:"nomax"`
	Hard  int    `json:"hard"`
	Prog  int    `json:"prog"`
	G     int    `json:"g"`
}

type wmObs struct {
	Verd  [][]int `json:"verd"`
	Ans   [][]int `json:"ans"`
	Score []int   `json:"score"`
	Disp  int     `json:"disp"`
}

type wmStepIn struct {
	Act wmAct `json:"act"`
}

type wmPathIn struct {
	ID      int        `json:"id"`
	InitObs wmObs      `json:"init_obs"`
	Steps   []wmStepIn `json:"steps"`
}

type wmStepOut struct {
	Act  wmAct  `json:"act"`
	Obs  wmObs  `json:"obs"`
	Note string `json:"note,omitempty"`
	Dump string `json:"dump,omitempty"`
}

type wmPathOut struct {
	ID      int         `json:"id"`
	InitObs wmObs       `json:"init_obs"`
	Steps   []wmStepOut `json:"steps"`
	Error   string      `json:"error,omitempty"`
}

// ---------------------------------------------------------------------------
// Hook events

type wmEvent struct {
	ev, addr string
	err      error
	x, y, z  int64
}

var (
	wmEnvs     sync.Map // *peerWorkManager -> *wmEnv
	wmSinkOnce sync.Once
	wmRecorder func(w *peerWorkManager, e wmEvent) // free-running trace recorder
)

func wmInstallSink() {
	wmSinkOnce.Do(func() {
		verifSink = func(w *peerWorkManager, ev, addr string, err error, x, y, z int64) {
			e := wmEvent{ev, addr, err, x, y, z}
			if v, ok := wmEnvs.Load(w); ok {
				v.(*wmEnv).events <- e
				return
			}
			if r := wmRecorder; r != nil {
				r(w, e)
			}
		}
	})
}

var errWmOther = errors.New("verif: some other worker error")

func wmErrKind(err error) int {
	switch err {
	case nil:
		return 0
	case ErrQueryTimeout:
		return 1
	case ErrPeerDisconnected:
		return 2
	case ErrJobCanceled:
		return 3
	case ErrWorkManagerShuttingDown:
		return 5
	}
	if err == errWmOther {
		return 4
	}
	return 4
}

func wmVerdictKind(err error) int {
	switch err {
	case nil:
		return 0
	case ErrQueryTimeout:
		return 1
	case ErrPeerDisconnected:
		return 2
	case ErrJobCanceled:
		return 3
	case errWmOther:
		return 4
	case ErrWorkManagerShuttingDown:
		return 5
	}
	return -1
}

func wmKindErr(e int) error {
	switch e {
	case 0:
		return nil
	case 1:
		return ErrQueryTimeout
	case 2:
		return ErrPeerDisconnected
	case 3:
		return ErrJobCanceled
	}
	return errWmOther
}

// ---------------------------------------------------------------------------
// Peers, ranking, scripted workers

type wmPeer struct {
	addr string
	disc chan struct{}
}

func (p *wmPeer) QueueMessageWithEncoding(wire.Message, chan<- struct{}, wire.MessageEncoding) {}
func (p *wmPeer) SubscribeRecvMsg() (<-chan wire.Message, func()) {
	return make(chan wire.Message), func() {}
}
func (p *wmPeer) Addr() string                  { return p.addr }
func (p *wmPeer) OnDisconnect() <-chan struct{} { return p.disc }

// wmRanking delegates to the real peerRanking.  The only thing it adds: among
// peers the real ranking considers EQUAL (same score) the order is made
// deterministic (by address), because sort.Slice over a map iteration is not.
type wmRanking struct {
	mu    sync.Mutex
	inner *peerRanking
}

func (r *wmRanking) AddPeer(p string) { r.mu.Lock(); r.inner.AddPeer(p); r.mu.Unlock() }
func (r *wmRanking) Reward(p string)  { r.mu.Lock(); r.inner.Reward(p); r.mu.Unlock() }
func (r *wmRanking) Punish(p string)  { r.mu.Lock(); r.inner.Punish(p); r.mu.Unlock() }
func (r *wmRanking) ResetRanking(p string) {
	r.mu.Lock()
	r.inner.ResetRanking(p)
	r.mu.Unlock()
}
func (r *wmRanking) score(p string) int {
	s, ok := r.inner.rank[p]
	if !ok {
		return defaultScore
	}
	return int(s)
}
func (r *wmRanking) Order(peers []string) {
	r.mu.Lock()
	defer r.mu.Unlock()
	r.inner.Order(peers)
	for i := 0; i < len(peers); {
		j := i + 1
		for j < len(peers) && r.score(peers[j]) == r.score(peers[i]) {
			j++
		}
		sort.Strings(peers[i:j])
		i = j
	}
}
func (r *wmRanking) obs(addr string) int {
	r.mu.Lock()
	defer r.mu.Unlock()
	s, ok := r.inner.rank[addr]
	if !ok {
		return -1
	}
	return int(s)
}

type wmCmd struct {
	exit bool
	e    int
}

type wmTook struct {
	w   *wmWorker
	job *queryJob
}

// wmWorker is the scripted Worker.  Like the real worker it is always ready
// to take a job while idle, never takes one while busy, hands back exactly
// one result per job (on the dispatcher's results channel), and returns after
// a disconnect.  WHAT it hands back and WHEN is decided by the path.
type wmWorker struct {
	env    *wmEnv
	a, i   int
	peer   *wmPeer
	jobCh  chan *queryJob
	cmd    chan wmCmd
	exited chan struct{}
	sent   chan struct{} // one token per delivered result

	mu    sync.Mutex
	state int // 0 idle, 1 busy, -1 exited, -2 sending
	job   *queryJob
}

func (w *wmWorker) NewJob() chan<- *queryJob { return w.jobCh }

func (w *wmWorker) setState(s int, job *queryJob) {
	w.mu.Lock()
	w.state, w.job = s, job
	w.mu.Unlock()
}

func (w *wmWorker) getState() (int, *queryJob) {
	w.mu.Lock()
	defer w.mu.Unlock()
	return w.state, w.job
}

func (w *wmWorker) Run(results chan<- *jobResult, quit <-chan struct{}) {
	defer close(w.exited)
	defer w.setState(-1, nil)
	for {
		var job *queryJob
		select {
		case job = <-w.jobCh:
		case c := <-w.cmd:
			if c.exit {
				return
			}
			continue
		case <-quit:
			return
		}
		w.setState(1, job)
		w.env.took <- wmTook{w, job}

		var c wmCmd
		select {
		case c = <-w.cmd:
		case <-quit:
			return
		}
		if c.e == 0 {
			// The peer's answer satisfies the request's handler.
			job.HandleResp(job.Req, &wire.MsgPong{Nonce: 1}, w.peer.addr)
		}
		w.setState(-2, job)
		select {
		case results <- &jobResult{job: job, peer: w.peer, err: wmKindErr(c.e)}:
		case <-quit:
			return
		}
		if c.e == 2 {
			return
		}
		w.setState(0, nil)
		w.sent <- struct{}{}
	}
}

type wmBatch struct {
	n        int
	errChan  chan error
	cancel   chan struct{}
	verd     []int
	ans      []int
	ansMu    sync.Mutex
	hardT    time.Duration
	tCall    time.Time
	tCreated time.Time
	returned bool
}

type wmReqKey struct{ b, k int }

type wmEnv struct {
	wm        *peerWorkManager
	nAddr     int
	events    chan wmEvent
	took      chan wmTook
	tookStash map[int64]wmTook
	peerCh    chan Peer
	rank      *wmRanking
	workers   map[int][]*wmWorker // by address, by instance-1
	newW      chan *wmWorker
	batches   []*wmBatch
	reqOf     map[*Request]wmReqKey
	jobOf     map[int]wmReqKey // job index (1-based) -> request
	disp      int
	sig       wmEvent
	stopped   bool
	dead      bool
	hang      time.Duration
	hardT     time.Duration
	timing    bool // a hard-deadline step came too late: rerun with a larger T
	panicV    chan interface{}
}

func wmAddr(a int) string { return "p" + strconv.Itoa(a) }
func wmAddrNum(s string) int {
	n, _ := strconv.Atoi(strings.TrimPrefix(s, "p"))
	return n
}

func newWmEnv(nAddr int, hang, hardT time.Duration) *wmEnv {
	e := &wmEnv{
		nAddr:     nAddr,
		events:    make(chan wmEvent, 4096),
		took:      make(chan wmTook, 64),
		tookStash: map[int64]wmTook{},
		peerCh:    make(chan Peer),
		rank:      &wmRanking{inner: NewPeerRanking().(*peerRanking)},
		workers:   map[int][]*wmWorker{},
		newW:      make(chan *wmWorker, 16),
		reqOf:     map[*Request]wmReqKey{},
		jobOf:     map[int]wmReqKey{},
		hang:      hang,
		hardT:     hardT,
		panicV:    make(chan interface{}, 1),
	}
	cfg := &Config{
		ConnectedPeers: func() (<-chan Peer, func(), error) {
			return e.peerCh, func() {}, nil
		},
		NewWorker: func(p Peer) Worker {
			a := wmAddrNum(p.Addr())
			w := &wmWorker{env: e, a: a, peer: p.(*wmPeer),
				jobCh: make(chan *queryJob), cmd: make(chan wmCmd),
				exited: make(chan struct{}), sent: make(chan struct{}, 4)}
			e.newW <- w
			return w
		},
		Ranking: e.rank,
	}
	e.wm = NewWorkManager(cfg).(*peerWorkManager)
	wmEnvs.Store(e.wm, e)
	return e
}

// start is peerWorkManager.Start with the dispatcher's goroutine wrapped so
// that a panic of the dispatcher is an observable outcome instead of the
// death of the whole driver.
func (e *wmEnv) start() {
	e.wm.wg.Add(1)
	go func() {
		defer func() {
			if r := recover(); r != nil {
				buf := make([]byte, 1<<14)
				buf = buf[:runtime.Stack(buf, false)]
				e.panicV <- fmt.Sprintf("%v\n%s", r, buf)
				e.events <- wmEvent{ev: "Panic"}
			}
		}()
		e.wm.workDispatcher()
	}()
}

// next returns the next hook event, or ok=false after the hang bound.
func (e *wmEnv) next(d time.Duration) (wmEvent, bool) {
	select {
	case ev := <-e.events:
		return ev, true
	case <-time.After(d):
		return wmEvent{}, false
	}
}

func (e *wmEnv) curWorker(a int) *wmWorker {
	ws := e.workers[a]
	if len(ws) == 0 {
		return nil
	}
	return ws[len(ws)-1]
}

// settle consumes the signal the dispatcher emits after finishing a step:
// Wait (it is in its main select), Offer (it is in the hand-off select), Exit.
func (e *wmEnv) settle() {
	ev, ok := e.next(e.hang)
	if !ok {
		e.disp = 2
		e.sig = wmEvent{ev: "none"}
		return
	}
	e.sig = ev
	switch ev.ev {
	case "Wait":
		e.disp = 0
	case "Offer":
		w := e.curWorker(wmAddrNum(ev.addr))
		e.disp = 1
		if w != nil {
			// The worker is busy (or stuck sending): nobody will take the job.
			select {
			case <-w.exited:
			default:
				// (a worker already holding the offered job has just taken it)
				if st, job := w.getState(); (st == 1 || st == -2) && job != nil &&
					int64(job.index) != ev.x {

					e.disp = 2
				}
			}
		}
	case "Exit":
		e.disp = 3
	case "Panic":
		e.dead = true
		e.disp = 4
		// the deferred function's Exit event precedes Panic; nothing follows
	default:
		// an arm event where a signal was expected: put it back in front
		e.disp = 1
		e.unread(ev)
	}
}

func (e *wmEnv) unread(ev wmEvent) {
	// events is only consumed by this path's goroutine; rebuild with ev first.
	rest := []wmEvent{ev}
	for {
		select {
		case x := <-e.events:
			rest = append(rest, x)
			continue
		default:
		}
		break
	}
	for _, x := range rest {
		e.events <- x
	}
}

func (e *wmEnv) observe() wmObs {
	o := wmObs{Verd: [][]int{}, Ans: [][]int{}, Score: make([]int, e.nAddr), Disp: e.disp}
	for _, b := range e.batches {
		if b.errChan != nil {
			for {
				select {
				case err := <-b.errChan:
					b.verd = append(b.verd, wmVerdictKind(err))
					continue
				default:
				}
				break
			}
		}
		b.ansMu.Lock()
		o.Verd = append(o.Verd, append([]int{}, b.verd...))
		o.Ans = append(o.Ans, append([]int{}, b.ans...))
		b.ansMu.Unlock()
	}
	for a := 1; a <= e.nAddr; a++ {
		o.Score[a-1] = e.rank.obs(wmAddr(a))
	}
	return o
}

func (e *wmEnv) dump() string {
	buf := make([]byte, 1<<22)
	buf = buf[:runtime.Stack(buf, true)]
	key := fmt.Sprintf("%p", e.wm)
	var keep []string
	for _, g := range strings.Split(string(buf), "\n\n") {
		if strings.Contains(g, key) || strings.Contains(g, fmt.Sprintf("%p", e)) {
			keep = append(keep, g)
		}
	}
	s := strings.Join(keep, "\n\n")
	if len(s) > 12000 {
		s = s[:12000]
	}
	return s
}

func wmResultRes(ev wmEvent) string {
	switch ev.z {
	case 0:
		return "discard"
	case 1:
		return "cancel"
	case 2:
		return "maxtries"
	case 3:
		if ev.err == nil {
			return "progress"
		}
		return "requeue"
	case 4:
		return "done"
	case 6:
		return "hardtimeout"
	}
	return "?"
}

// actOf turns an arm event of the dispatcher into the model's action label.
func (e *wmEnv) actOf(ev wmEvent, want wmAct) wmAct {
	a := wmAct{Op: ev.ev, Res: "ok"}
	switch ev.ev {
	case "Dispatch":
		a.A = wmAddrNum(ev.addr)
		a.J = int(ev.x) + 1
		// who took it (workers report concurrently: match by job index)
		for {
			t, ok := e.tookStash[ev.x]
			if ok {
				delete(e.tookStash, ev.x)
				a.A, a.I = t.w.a, t.w.i
				if k, ok := e.reqOf[t.job.Request]; ok {
					a.B, a.K = k.b, k.k
					e.jobOf[int(t.job.index)+1] = k
				}
				break
			}
			select {
			case t := <-e.took:
				e.tookStash[int64(t.job.index)] = t
				continue
			case <-time.After(e.hang):
			}
			break
		}
	case "Gone":
		a.A = wmAddrNum(ev.addr)
	case "Connect":
		a.A = wmAddrNum(ev.addr)
		a.I = len(e.workers[a.A])
	case "Result":
		a.A = wmAddrNum(ev.addr)
		a.I = want.I
		a.J = int(ev.x) + 1
		a.E = wmErrKind(ev.err)
		if k, ok := e.jobOf[a.J]; ok {
			a.B, a.K = k.b, k.k
		}
		a.Res = wmResultRes(ev)
	case "Wake":
		a.B, a.G = int(ev.x)+1, int(ev.y)
		a.Res = [...]string{"nobatch", "stale", "timeout"}[ev.z]
	case "NewBatch":
		a.Op = "Query"
		a.B, a.N = int(ev.x)+1, int(ev.y)
		a.Retr = int(ev.z & 0xff)
		a.Nomax = 0
		if ev.z&(1<<8) != 0 {
			a.Nomax = 1
		}
		a.Hard, a.Prog = want.Hard, want.Prog
		if ev.z&(1<<10) == 0 {
			a.Prog = 0
		}
	case "Quit", "Exit":
		a.Op = "Stop"
	case "Panic":
		a = want
		a.Res = "panic"
	}
	return a
}

// awaitArm waits for the dispatcher's next arm event.  ok=false: nothing came
// within the hang bound.
func (e *wmEnv) awaitArm() (wmEvent, bool) {
	ev, ok := e.next(e.hang)
	if ok {
		return ev, true
	}
	// A dispatcher stuck on a full result channel is released by reading it.
	e.observe()
	return e.next(e.hang)
}

func (e *wmEnv) exec(p *wmPathIn, idx int) (out wmStepOut, cont bool) {
	want := p.Steps[idx].Act
	act := want
	cont = true
	hangStep := func(res string) {
		act.Res = res
		out.Dump = e.dump()
		cont = false
	}
	arm := func(pre func()) {
		ev, ok := e.awaitArm()
		if !ok {
			hangStep("blocked")
			return
		}
		if ev.ev == "Exit" {
			// the dispatcher is unwinding (panic): the Panic event follows
			if ev2, ok2 := e.next(e.hang); ok2 {
				ev = ev2
			}
		}
		act = e.actOf(ev, want)
		if ev.ev == "Panic" {
			e.dead, e.disp = true, 4
			select {
			case v := <-e.panicV:
				out.Dump = fmt.Sprint(v)
			default:
			}
			return
		}
		if pre != nil {
			pre()
		}
		e.settle()
	}

	switch want.Op {
	case "Connect":
		peer := &wmPeer{addr: wmAddr(want.A), disc: make(chan struct{})}
		select {
		case e.peerCh <- peer:
			select {
			case w := <-e.newW:
				w.i = len(e.workers[want.A]) + 1
				e.workers[want.A] = append(e.workers[want.A], w)
				arm(nil)
			case <-time.After(2 * e.hang):
				// the dispatcher took the peer but made no worker for
				// it: the peer is connected (environment fact) and
				// nobody will ever hand it a job
				hangStep("noworker")
			}
		case <-time.After(e.hang):
			hangStep("blocked")
		}

	case "WorkerExit":
		ws := e.workers[want.A]
		if want.I < 1 || want.I > len(ws) {
			out.Note = "no such worker"
			cont = false
			break
		}
		w := ws[want.I-1]
		select {
		case w.cmd <- wmCmd{exit: true}:
			<-w.exited
		case <-time.After(e.hang):
			out.Note = "worker not idle"
			cont = false
		}

	case "Query":
		b := &wmBatch{n: want.N, cancel: make(chan struct{}), ans: make([]int, want.N)}
		bi := len(e.batches) + 1
		reqs := make([]*Request, want.N)
		for k := range reqs {
			k := k
			r := &Request{Req: &wire.MsgPing{Nonce: uint64(bi*100 + k)}}
			r.HandleResp = func(req, resp wire.Message, peer string) Progress {
				if _, ok := resp.(*wire.MsgPong); !ok {
					return Progress{}
				}
				b.ansMu.Lock()
				b.ans[k] = 1
				b.ansMu.Unlock()
				return Progress{Finished: true, Progressed: true}
			}
			reqs[k] = r
			e.reqOf[r] = wmReqKey{bi, k + 1}
		}
		opts := []QueryOption{Cancel(b.cancel)}
		opts = append(opts, NumRetries(uint8(want.Retr)))
		if want.Nomax == 1 {
			opts = append(opts, NoRetryMax())
		}
		b.hardT = time.Hour
		if want.Hard == 1 {
			// The k-th deadline to expire in this path gets 3^(k-1) times
			// the base duration, so that waiting out one deadline never
			// eats into the next one.
			t := e.hardT
			for _, s := range p.Steps {
				if s.Act.Op != "HardFire" {
					continue
				}
				if s.Act.B == bi {
					b.hardT = t
					break
				}
				t *= 3
			}
		}
		opts = append(opts, Timeout(b.hardT))
		if want.Prog == 1 {
			opts = append(opts, ProgressTimeout(time.Hour))
		}
		done := make(chan chan error, 1)
		b.tCall = time.Now()
		go func() { done <- e.wm.Query(reqs, opts...) }()
		if e.stopped {
			select {
			case b.errChan = <-done:
				b.returned = true
				act.Res = "shutdown"
				e.batches = append(e.batches, b)
			case <-time.After(e.hang):
				hangStep("blocked")
			}
			break
		}
		select {
		case b.errChan = <-done:
			b.returned = true
			e.batches = append(e.batches, b)
			arm(nil)
			b.tCreated = time.Now()
		case <-time.After(e.hang):
			// the caller is blocked in Query
			for _, r := range reqs {
				delete(e.reqOf, r)
			}
			hangStep("blocked")
		}

	case "Dispatch", "Gone":
		arm(nil)

	case "Result":
		ws := e.workers[want.A]
		if want.I < 1 || want.I > len(ws) {
			out.Note = "no such worker"
			cont = false
			break
		}
		w := ws[want.I-1]
		if st, job := w.getState(); st == 1 && job != nil {
			act.J = int(job.index) + 1
			if k, ok := e.reqOf[job.Request]; ok {
				act.B, act.K = k.b, k.k
			}
			for _, bt := range e.batches {
				if bt.hardT < time.Hour && bt.tCreated.IsZero() == false &&
					!e.hardFired(p, idx, bt) && time.Since(bt.tCall) > bt.hardT*7/10 {
					e.timing = true
				}
			}
		}
		select {
		case w.cmd <- wmCmd{e: want.E}:
		case <-time.After(e.hang):
			out.Note = "worker holds no job"
			cont = false
		}
		if cont {
			arm(func() {
				// the worker is idle (or gone) again once its send completed
				if want.E == 2 {
					<-w.exited
				} else {
					select {
					case <-w.sent:
					case <-time.After(e.hang):
					}
				}
			})
			if act.Res == "blocked" {
				act.Op, act.A, act.I, act.E = "Result", want.A, want.I, want.E
			}
			// The dispatcher looked at the hard deadlines inside this step:
			// none that the path has not fired yet may have been close.
			for _, bt := range e.batches {
				if bt.hardT < time.Hour && !e.hardFired(p, idx, bt) &&
					time.Since(bt.tCall) > bt.hardT*85/100 {

					e.timing = true
				}
			}
		}

	case "Wake":
		select {
		case e.wm.progressWakes <- progressWake{batchNum: uint64(want.B - 1), gen: uint64(want.G)}:
			arm(nil)
		case <-time.After(e.hang):
			hangStep("blocked")
		}

	case "Cancel":
		if want.B >= 1 && want.B <= len(e.batches) {
			close(e.batches[want.B-1].cancel)
		}

	case "HardFire":
		if want.B >= 1 && want.B <= len(e.batches) {
			bt := e.batches[want.B-1]
			if d := time.Until(bt.tCreated.Add(bt.hardT + bt.hardT/5 + 5*time.Millisecond)); d > 0 {
				time.Sleep(d)
			}
		}

	case "Stop":
		ret := make(chan struct{})
		go func() { e.wm.Stop(); close(ret) }()
		e.stopped = true
		select {
		case <-ret:
			// drain the dispatcher's last events (Quit, Exit)
			for {
				select {
				case <-e.events:
					continue
				default:
				}
				break
			}
			e.disp = 3
		case <-time.After(e.hang * 2):
			hangStep("hang")
		}

	default:
		out.Note = "unknown op " + want.Op
		cont = false
	}
	out.Act = act
	out.Obs = e.observe()
	return
}

// hardFired: does the path fire batch bt's hard deadline before step idx?
func (e *wmEnv) hardFired(p *wmPathIn, idx int, bt *wmBatch) bool {
	bi := 0
	for x, b := range e.batches {
		if b == bt {
			bi = x + 1
		}
	}
	for _, s := range p.Steps[:idx] {
		if s.Act.Op == "HardFire" && s.Act.B == bi {
			return true
		}
	}
	return false
}

func (e *wmEnv) cleanup() {
	wmEnvs.Delete(e.wm)
	if !e.stopped {
		ret := make(chan struct{})
		go func() { e.wm.Stop(); close(ret) }()
		select {
		case <-ret:
		case <-time.After(5 * time.Second):
		}
	}
	// let late events go nowhere
	go func() {
		for {
			select {
			case <-e.events:
			case <-time.After(100 * time.Millisecond):
				return
			}
		}
	}()
}

func wmRunPath(p *wmPathIn, hang, hardT time.Duration) (out wmPathOut, timing bool) {
	out.ID = p.ID
	defer func() {
		if r := recover(); r != nil {
			buf := make([]byte, 8192)
			buf = buf[:runtime.Stack(buf, false)]
			out.Error = fmt.Sprintf("driver panic: %v\n%s", r, buf)
		}
	}()
	e := newWmEnv(len(p.InitObs.Score), hang, hardT)
	defer e.cleanup()
	e.start()
	e.settle()
	if e.sig.ev != "Wait" {
		out.Error = "dispatcher did not reach its select: " + e.sig.ev
		return
	}
	out.InitObs = e.observe()
	out.Steps = []wmStepOut{}
	for i := range p.Steps {
		so, cont := e.exec(p, i)
		out.Steps = append(out.Steps, so)
		if e.timing {
			return out, true
		}
		if !cont || so.Act != p.Steps[i].Act {
			break
		}
	}
	return
}

func wmEnvDur(name string, def time.Duration) time.Duration {
	if v := os.Getenv(name); v != "" {
		if n, err := strconv.Atoi(v); err == nil {
			return time.Duration(n) * time.Millisecond
		}
	}
	return def
}

func TestVerifWorkManagerReplay(t *testing.T) {
	in, outFn := os.Getenv("VERIF_PATHS"), os.Getenv("VERIF_OUT")
	if in == "" || outFn == "" {
		t.Skip("VERIF_PATHS / VERIF_OUT not set")
	}
	wmInstallSink()
	hang := wmEnvDur("VERIF_HANG_MS", 1500*time.Millisecond)
	hardT := wmEnvDur("VERIF_HARD_MS", 150*time.Millisecond)
	f, err := os.Open(in)
	if err != nil {
		t.Fatal(err)
	}
	defer f.Close()
	var paths []*wmPathIn
	sc := bufio.NewScanner(f)
	sc.Buffer(make([]byte, 1<<20), 1<<28)
	for sc.Scan() {
		p := &wmPathIn{}
		if err := json.Unmarshal(sc.Bytes(), p); err != nil {
			t.Fatal(err)
		}
		paths = append(paths, p)
	}
	results := make([]wmPathOut, len(paths))
	var wg sync.WaitGroup
	jobs := make(chan int)
	nw := runtime.NumCPU() * 4
	for w := 0; w < nw; w++ {
		wg.Add(1)
		go func() {
			defer wg.Done()
			for i := range jobs {
				ht := hardT
				for try := 0; ; try++ {
					r, timing := wmRunPath(paths[i], hang, ht)
					if timing && try < 4 {
						ht *= 3
						continue
					}
					if timing {
						r.Error = "hard-deadline step could not be timed (machine too slow)"
					}
					results[i] = r
					break
				}
			}
		}()
	}
	for i := range paths {
		jobs <- i
	}
	close(jobs)
	wg.Wait()
	of, err := os.Create(outFn)
	if err != nil {
		t.Fatal(err)
	}
	w := bufio.NewWriter(of)
	enc := json.NewEncoder(w)
	for i := range results {
		if err := enc.Encode(&results[i]); err != nil {
			t.Fatal(err)
		}
	}
	w.Flush()
	of.Close()
}

// ---------------------------------------------------------------------------
// Trace recording of free-running executions (the repository's own tests):
// with VERIF_TRACE_OUT set, every peerWorkManager that is not driven by the
// replay driver has the events of its dispatcher recorded, in the order the
// dispatcher goroutine takes its steps.

type wmRecEvent struct {
	Ev   string `json:"ev"`
	Addr string `json:"addr"`
	Err  int    `json:"err"`
	X    int64  `json:"x"`
	Y    int64  `json:"y"`
	Z    int64  `json:"z"`
	T    int64  `json:"t"` // time of the event in microseconds (virtual inside a synctest bubble)
}

type wmRecTrace struct {
	ID     int          `json:"id"`
	Events []wmRecEvent `json:"events"`
}

type wmRec struct {
	mu     sync.Mutex
	byWM   map[*peerWorkManager]*wmRecTrace
	traces []*wmRecTrace
}

func (r *wmRec) add(w *peerWorkManager, e wmEvent) {
	r.mu.Lock()
	defer r.mu.Unlock()
	t := r.byWM[w]
	if t == nil {
		t = &wmRecTrace{ID: len(r.traces)}
		r.byWM[w] = t
		r.traces = append(r.traces, t)
	}
	k := wmVerdictKind(e.err)
	if k < 0 {
		k = 4
	}
	t.Events = append(t.Events, wmRecEvent{e.ev, e.addr, k, e.x, e.y, e.z, time.Now().UnixMicro()})
}

func (r *wmRec) write(fn string) error {
	r.mu.Lock()
	defer r.mu.Unlock()
	f, err := os.Create(fn)
	if err != nil {
		return err
	}
	defer f.Close()
	w := bufio.NewWriter(f)
	enc := json.NewEncoder(w)
	for _, t := range r.traces {
		if err := enc.Encode(t); err != nil {
			return err
		}
	}
	return w.Flush()
}

func TestMain(m *testing.M) {
	fn := os.Getenv("VERIF_TRACE_OUT")
	if fn == "" {
		os.Exit(m.Run())
	}
	wmInstallSink()
	rec := &wmRec{byWM: map[*peerWorkManager]*wmRecTrace{}}
	wmRecorder = rec.add
	code := m.Run()
	if err := rec.write(fn); err != nil {
		fmt.Fprintln(os.Stderr, "verif: cannot write traces:", err)
		code = 3
	}
	os.Exit(code)
}
