package query

// Replay driver for the Worker part of the WorkManager family (C12): paths of
// specs/WorkManager/Worker.tla are executed against the REAL worker.Run with
// a mock Peer, millisecond job timeouts and an UNBUFFERED results channel
// that the driver reads like the dispatcher does (and stops reading in the
// QuitDuring steps, like a dispatcher that has already returned).

import (
	"bufio"
	"encoding/json"
	"os"
	"runtime"
	"strings"
	"sync"
	"sync/atomic"
	"testing"
	"time"

	"github.com/btcsuite/btcd/wire/v2"
)

type wkAct struct {
	Op  string `json:"op"`
	Res string `json:"res"`
	X   int    `json:"x"`
	Y   int    `json:"y"`
}

type wkObs struct {
	Res     []int `json:"res"`
	Queued  int   `json:"queued"`
	Handled int   `json:"handled"`
	Fin     int   `json:"fin"`
	Early   int   `json:"early"`
	Exited  int   `json:"exited"`
}

type wkPathIn struct {
	ID      int   `json:"id"`
	InitObs wkObs `json:"init_obs"`
	Steps   []struct {
		Act wkAct `json:"act"`
	} `json:"steps"`
}

type wkStepOut struct {
	Act  wkAct  `json:"act"`
	Obs  wkObs  `json:"obs"`
	Note string `json:"note,omitempty"`
	Dump string `json:"dump,omitempty"`
}

type wkPathOut struct {
	ID      int         `json:"id"`
	InitObs wkObs       `json:"init_obs"`
	Steps   []wkStepOut `json:"steps"`
	Error   string      `json:"error,omitempty"`
}

type wkPeer struct {
	msgs   chan wire.Message
	disc   chan struct{}
	queued int32
	qsig   chan struct{}
}

func (p *wkPeer) QueueMessageWithEncoding(wire.Message, chan<- struct{}, wire.MessageEncoding) {
	atomic.AddInt32(&p.queued, 1)
	p.qsig <- struct{}{}
}
func (p *wkPeer) SubscribeRecvMsg() (<-chan wire.Message, func()) { return p.msgs, func() {} }
func (p *wkPeer) Addr() string                                    { return "wk" }
func (p *wkPeer) OnDisconnect() <-chan struct{}                   { return p.disc }

type wkEnv struct {
	peer         *wkPeer
	w            *worker
	results      chan *jobResult
	quit, done   chan struct{}
	res          []int
	handled, fin int32
	hsig         chan struct{}
	early        int
	working      bool
	short        bool
	tArm         time.Time
	T, hang      time.Duration
	cancel, ic   chan struct{}
	timing       bool
	gate         chan struct{} // when set, the finishing handler waits here
}

func (e *wkEnv) observe() wkObs {
	for {
		select {
		case r := <-e.results:
			k := wmVerdictKind(r.err)
			if k > 3 {
				k = -1
			}
			e.res = append(e.res, k)
			continue
		default:
		}
		break
	}
	o := wkObs{Res: append([]int{}, e.res...), Queued: int(atomic.LoadInt32(&e.peer.queued)),
		Handled: int(atomic.LoadInt32(&e.handled)), Fin: int(atomic.LoadInt32(&e.fin)), Early: e.early}
	select {
	case <-e.done:
		o.Exited = 1
	default:
	}
	return o
}

// waitResult waits until one more result has been handed back.
func (e *wkEnv) waitResult(d time.Duration) bool {
	select {
	case r := <-e.results:
		k := wmVerdictKind(r.err)
		if k > 3 {
			k = -1
		}
		e.res = append(e.res, k)
		return true
	case <-time.After(d):
		return false
	}
}

func (e *wkEnv) lateForShort() bool {
	return e.working && e.short && time.Since(e.tArm) > e.T*6/10
}

func (e *wkEnv) exec(want wkAct) (out wkStepOut, cont bool) {
	act := want
	cont = true
	n0 := len(e.res)
	exited0 := false
	select {
	case <-e.done:
		exited0 = true
	default:
	}
	wasShort := e.working && e.short
	waitsOut := want.Op == "Timeout" || (want.Op == "QuitDuring" && want.X == 4)
	if !waitsOut && e.lateForShort() {
		e.timing = true
		return out, false
	}
	switch want.Op {
	case "Job":
		e.cancel, e.ic = make(chan struct{}), make(chan struct{})
		if want.Y == 1 {
			close(e.cancel)
		} else if want.Y == 2 {
			close(e.ic)
		}
		to := time.Hour
		if want.X == 1 {
			to = e.T
		}
		req := &Request{Req: &wire.MsgPing{}}
		req.HandleResp = func(_, resp wire.Message, _ string) Progress {
			atomic.AddInt32(&e.handled, 1)
			defer func() { e.hsig <- struct{}{} }()
			ping, _ := resp.(*wire.MsgPing)
			switch {
			case ping != nil && ping.Nonce == 2:
				if g := e.gate; g != nil {
					<-g
				}
				atomic.AddInt32(&e.fin, 1)
				return Progress{Finished: true, Progressed: true}
			case ping != nil && ping.Nonce == 1:
				return Progress{Progressed: true}
			}
			return Progress{}
		}
		job := &queryJob{index: uint64(n0), timeout: to, cancelChan: e.cancel,
			internalCancelChan: e.ic, Request: req}
		e.tArm = time.Now()
		select {
		case e.w.nextJob <- job:
		case <-time.After(e.hang):
			act.Res = "hang"
			out.Dump = "worker does not take the job"
			cont = false
		}
		if cont && want.Y == 0 {
			select {
			case <-e.peer.qsig:
				e.working, e.short = true, want.X == 1
			case <-e.results:
				out.Note = "result instead of a queued request"
				cont = false
			case <-time.After(e.hang):
				act.Res = "hang"
				cont = false
			}
		} else if cont {
			if !e.waitResult(e.hang) {
				act.Res = "hang"
				cont = false
			}
		}
	case "Msg":
		t := time.Now()
		select {
		case e.peer.msgs <- &wire.MsgPing{Nonce: uint64(want.X)}:
			if e.working {
				select {
				case <-e.hsig:
				case <-time.After(e.hang):
				}
				if want.X == 1 {
					e.tArm = t
				}
				if want.X == 2 {
					if !e.waitResult(e.hang) {
						act.Res = "hang"
						cont = false
					}
					e.working = false
				}
			}
		case r := <-e.results:
			// the worker hands back a result instead of taking the message
			k := wmVerdictKind(r.err)
			if k > 3 {
				k = -1
			}
			e.res = append(e.res, k)
			if wasShort {
				e.timing = true
				return out, false
			}
			e.working = false
		case <-time.After(e.hang):
			act.Res = "hang"
			cont = false
		}
	case "Timeout":
		if !e.waitResult(e.hang + e.T) {
			act.Res = "hang"
			cont = false
		} else if time.Since(e.tArm) < e.T {
			e.early = 1
		}
		e.working = false
	case "Disconnect":
		close(e.peer.disc)
		if e.working {
			e.waitResult(e.hang)
		}
		select {
		case <-e.done:
		case <-time.After(e.hang):
		}
		e.working = false
	case "Cancel":
		if want.X == 1 {
			close(e.cancel)
		} else {
			close(e.ic)
		}
		if !e.waitResult(e.hang) {
			act.Res = "hang"
			cont = false
		}
		e.working = false
	case "QuitDuring":
		// Nobody receives results any more.  Bring the worker to the point
		// where it has a result to hand back, close quit, expect Run to return.
		switch want.X {
		case 0:
			e.gate = make(chan struct{})
			select {
			case e.peer.msgs <- &wire.MsgPing{Nonce: 2}:
				close(e.quit) // while the handler is still running
				close(e.gate)
				<-e.hsig
			case <-time.After(e.hang):
				close(e.quit)
			}
		case 1:
			select {
			case e.peer.msgs <- &wire.MsgPing{Nonce: 2}:
				<-e.hsig
			case <-time.After(e.hang):
			}
			time.Sleep(2 * time.Millisecond)
			close(e.quit)
		case 2:
			close(e.peer.disc)
			time.Sleep(2 * time.Millisecond)
			close(e.quit)
		case 3:
			close(e.cancel)
			time.Sleep(2 * time.Millisecond)
			close(e.quit)
		case 4:
			if d := time.Until(e.tArm.Add(e.T + e.T/4 + 2*time.Millisecond)); d > 0 {
				time.Sleep(d)
			}
			close(e.quit)
		}
		select {
		case <-e.done:
		case <-time.After(e.hang):
			act.Res = "hang"
			out.Dump = wkDump()
			cont = false
		}
		e.working = false
	case "Quit":
		close(e.quit)
		select {
		case <-e.done:
		case <-time.After(e.hang):
		}
		e.working = false
	}
	// A short job timeout must not have been able to expire inside a step
	// that is not the Timeout step: otherwise this attempt is void.
	if !waitsOut && !(want.Op == "QuitDuring" && act.Res == "hang") && (wasShort || (e.working && e.short)) && time.Since(e.tArm) > e.T*8/10 {
		e.timing = true
		return out, false
	}
	out.Obs = e.observe()
	if act.Res != "hang" {
		switch {
		case len(e.res) > n0:
			act.Res = "r" + string(rune('0'+max(e.res[len(e.res)-1], 0)))
			if e.res[len(e.res)-1] < 0 {
				act.Res = "r?"
			}
		case out.Obs.Exited == 1 && !exited0:
			act.Res = "exit"
		default:
			act.Res = "none"
		}
	}
	out.Act = act
	return
}

// wkDump: the goroutines sitting in worker.Run.
func wkDump() string {
	buf := make([]byte, 1<<22)
	buf = buf[:runtime.Stack(buf, true)]
	var keep []string
	for _, g := range strings.Split(string(buf), "\n\n") {
		if strings.Contains(g, "query.(*worker).Run") {
			keep = append(keep, g)
		}
	}
	s := strings.Join(keep, "\n\n")
	if len(s) > 6000 {
		s = s[:6000]
	}
	return s
}

func wkRunPath(p *wkPathIn, T, hang time.Duration) (out wkPathOut, timing bool) {
	out.ID = p.ID
	e := &wkEnv{
		peer:    &wkPeer{msgs: make(chan wire.Message), disc: make(chan struct{}), qsig: make(chan struct{}, 8)},
		results: make(chan *jobResult), quit: make(chan struct{}), done: make(chan struct{}),
		hsig: make(chan struct{}, 8), T: T, hang: hang,
	}
	e.w = NewWorker(e.peer).(*worker)
	go func() { defer close(e.done); e.w.Run(e.results, e.quit) }()
	defer func() {
		select {
		case <-e.quit:
		default:
			close(e.quit)
		}
	}()
	out.InitObs = e.observe()
	out.Steps = []wkStepOut{}
	for _, s := range p.Steps {
		so, cont := e.exec(s.Act)
		if e.timing {
			return out, true
		}
		out.Steps = append(out.Steps, so)
		if !cont || so.Act != s.Act {
			break
		}
	}
	return
}

func TestVerifWorkerReplay(t *testing.T) {
	in, outFn := os.Getenv("VERIF_PATHS"), os.Getenv("VERIF_OUT")
	if in == "" || outFn == "" {
		t.Skip("VERIF_PATHS / VERIF_OUT not set")
	}
	hang := wmEnvDur("VERIF_HANG_MS", 1500*time.Millisecond)
	T := wmEnvDur("VERIF_WORKER_TIMEOUT_MS", 40*time.Millisecond)
	f, err := os.Open(in)
	if err != nil {
		t.Fatal(err)
	}
	defer f.Close()
	var paths []*wkPathIn
	sc := bufio.NewScanner(f)
	sc.Buffer(make([]byte, 1<<20), 1<<28)
	for sc.Scan() {
		p := &wkPathIn{}
		if err := json.Unmarshal(sc.Bytes(), p); err != nil {
			t.Fatal(err)
		}
		paths = append(paths, p)
	}
	results := make([]wkPathOut, len(paths))
	var wg sync.WaitGroup
	jobs := make(chan int)
	for w := 0; w < runtime.NumCPU()*4; w++ {
		wg.Add(1)
		go func() {
			defer wg.Done()
			for i := range jobs {
				tt := T
				for try := 0; ; try++ {
					r, timing := wkRunPath(paths[i], tt, hang)
					if timing && try < 4 {
						tt *= 3
						continue
					}
					if timing {
						r.Error = "job timeout could not be timed (machine too slow)"
					}
					results[i] = r
					break
				}
			}
		}()
	}
	for i := range paths {
		jobs <- i
	}
	close(jobs)
	wg.Wait()
	of, err := os.Create(outFn)
	if err != nil {
		t.Fatal(err)
	}
	w := bufio.NewWriter(of)
	enc := json.NewEncoder(w)
	for i := range results {
		if err := enc.Encode(&results[i]); err != nil {
			t.Fatal(err)
		}
	}
	w.Flush()
	of.Close()
}
