package query

// Replay driver for the Worker part of the WorkManager family (C12): paths of
// specs/WorkManager/Worker.tla are executed against the REAL worker.Run with
// a mock Peer and an UNBUFFERED results channel that the driver reads like
// the dispatcher does (and stops reading in the QuitDuring steps, like a
// dispatcher that has already returned).
//
// Every path runs inside its own testing/synctest bubble: time is virtual
// (it advances only when every goroutine of the bubble is durably blocked),
// so "half a job timeout passes" (Tick) is exact and nothing depends on the
// speed of the machine.  synctest.Wait() is the quiescence signal: after it
// the worker has done everything it can do without further input.

import (
	"bufio"
	"encoding/json"
	"os"
	"runtime"
	"strings"
	"sync/atomic"
	"testing"
	"testing/synctest"
	"time"

	"github.com/btcsuite/btcd/wire/v2"
)

type wkAct struct {
	Op  string `json:"op"`
	Res string `json:"res"`
	X   int    `json:"x"`
	Y   int    `json:"y"`
}

type wkObs struct {
	Res     []int `json:"res"`
	Queued  int   `json:"queued"`
	Handled int   `json:"handled"`
	Fin     int   `json:"fin"`
	Early   int   `json:"early"`
	Exited  int   `json:"exited"`
}

type wkPathIn struct {
	ID      int   `json:"id"`
	InitObs wkObs `json:"init_obs"`
	Steps   []struct {
		Act wkAct `json:"act"`
	} `json:"steps"`
}

type wkStepOut struct {
	Act  wkAct  `json:"act"`
	Obs  wkObs  `json:"obs"`
	Note string `json:"note,omitempty"`
	Dump string `json:"dump,omitempty"`
}

type wkPathOut struct {
	ID      int         `json:"id"`
	InitObs wkObs       `json:"init_obs"`
	Steps   []wkStepOut `json:"steps"`
	Error   string      `json:"error,omitempty"`
}

// wkTimeout is the (virtual) timeout of every job: the dispatcher's
// minQueryTimeout.
const wkTimeout = minQueryTimeout

type wkPeer struct {
	msgs   chan wire.Message
	disc   chan struct{}
	queued int32
}

func (p *wkPeer) QueueMessageWithEncoding(wire.Message, chan<- struct{}, wire.MessageEncoding) {
	atomic.AddInt32(&p.queued, 1)
}
func (p *wkPeer) SubscribeRecvMsg() (<-chan wire.Message, func()) { return p.msgs, func() {} }
func (p *wkPeer) Addr() string                                    { return "wk" }
func (p *wkPeer) OnDisconnect() <-chan struct{}                   { return p.disc }

type wkEnv struct {
	peer         *wkPeer
	w            *worker
	results      chan *jobResult
	quit, done   chan struct{}
	quitClosed   bool
	res          []int
	handled, fin int32
	early        int
	working      bool
	tArm         time.Time
	cancel, ic   chan struct{}
	gate         chan struct{} // when set, the finishing handler waits here
}

func (e *wkEnv) exited() bool {
	select {
	case <-e.done:
		return true
	default:
		return false
	}
}

// drain takes every result the worker is trying to hand back right now.
func (e *wkEnv) drain() {
	for {
		synctest.Wait()
		select {
		case r := <-e.results:
			k := wmVerdictKind(r.err)
			if k > 3 {
				k = -1
			}
			if k == 1 && time.Since(e.tArm) < wkTimeout {
				e.early = 1
			}
			e.res = append(e.res, k)
			e.working = false
			continue
		default:
		}
		return
	}
}

func (e *wkEnv) observe() wkObs {
	synctest.Wait()
	o := wkObs{Res: append([]int{}, e.res...), Queued: int(atomic.LoadInt32(&e.peer.queued)),
		Handled: int(atomic.LoadInt32(&e.handled)), Fin: int(atomic.LoadInt32(&e.fin)), Early: e.early}
	if e.exited() {
		o.Exited = 1
	}
	return o
}

// offer hands m to the worker if it is waiting for a message right now.
func (e *wkEnv) offer(m wire.Message) bool {
	synctest.Wait()
	select {
	case e.peer.msgs <- m:
		return true
	default:
		return false
	}
}

func (e *wkEnv) closeQuit() {
	if !e.quitClosed {
		e.quitClosed = true
		close(e.quit)
	}
}

func (e *wkEnv) exec(want wkAct) (out wkStepOut, cont bool) {
	act := want
	cont = true
	n0 := len(e.res)
	exited0 := e.exited()
	hang := func(why string) {
		act.Res = "hang"
		out.Dump = why + "\n" + wkDump()
		cont = false
	}
	switch want.Op {
	case "Job":
		e.cancel, e.ic = make(chan struct{}), make(chan struct{})
		if want.Y == 1 {
			close(e.cancel)
		} else if want.Y == 2 {
			close(e.ic)
		}
		req := &Request{Req: &wire.MsgPing{}}
		req.HandleResp = func(_, resp wire.Message, _ string) Progress {
			atomic.AddInt32(&e.handled, 1)
			ping, _ := resp.(*wire.MsgPing)
			switch {
			case ping != nil && ping.Nonce == 2:
				if g := e.gate; g != nil {
					<-g
				}
				atomic.AddInt32(&e.fin, 1)
				return Progress{Finished: true, Progressed: true}
			case ping != nil && ping.Nonce == 1:
				return Progress{Progressed: true}
			}
			return Progress{}
		}
		job := &queryJob{index: uint64(n0), timeout: wkTimeout, cancelChan: e.cancel,
			internalCancelChan: e.ic, Request: req}
		synctest.Wait()
		e.tArm = time.Now()
		select {
		case e.w.nextJob <- job:
			e.working = true
		default:
			hang("worker does not take the job")
		}
	case "Msg":
		if !e.offer(&wire.MsgPing{Nonce: uint64(want.X)}) {
			// the worker is not waiting for messages: it may be trying to
			// hand back a result, which the drain below records
			out.Note = "message not taken"
		} else if e.working && want.X == 1 {
			e.tArm = time.Now()
		}
	case "Tick":
		time.Sleep(wkTimeout / 2)
	case "Disconnect":
		close(e.peer.disc)
	case "Cancel":
		if want.X == 1 {
			close(e.cancel)
		} else {
			close(e.ic)
		}
	case "QuitDuring":
		// Nobody receives results any more.  Bring the worker to the point
		// where it has a result to hand back, close quit, expect Run to return.
		switch want.X {
		case 0:
			e.gate = make(chan struct{})
			if e.offer(&wire.MsgPing{Nonce: 2}) {
				synctest.Wait() // the handler is running (waiting at the gate)
				e.closeQuit()
				close(e.gate)
			}
		case 1:
			e.offer(&wire.MsgPing{Nonce: 2})
		case 2:
			close(e.peer.disc)
		case 3:
			close(e.cancel)
		case 4:
			if d := time.Until(e.tArm.Add(wkTimeout)); d > 0 {
				time.Sleep(d)
			}
		}
		synctest.Wait()
		e.closeQuit()
		synctest.Wait()
		if !e.exited() {
			hang("Run has not returned although quit is closed")
		}
	case "Quit":
		e.closeQuit()
		synctest.Wait()
		if !e.exited() {
			hang("Run has not returned although quit is closed")
		}
	}
	e.drain() // (after QuitDuring this only releases a worker that hangs in the send)
	out.Obs = e.observe()
	if act.Res == "hang" && (want.Op == "Quit" || want.Op == "QuitDuring") {
		// what was observed: Run had not returned (the drain above released it)
		out.Obs.Exited = 0
	}
	if act.Res != "hang" {
		switch {
		case len(e.res) > n0:
			if k := e.res[len(e.res)-1]; k >= 0 {
				act.Res = "r" + string(rune('0'+k))
			} else {
				act.Res = "r?"
			}
		case out.Obs.Exited == 1 && !exited0:
			act.Res = "exit"
		default:
			act.Res = "none"
		}
	}
	out.Act = act
	return
}

// wkDump: the goroutines sitting in worker.Run.
func wkDump() string {
	buf := make([]byte, 1<<22)
	buf = buf[:runtime.Stack(buf, true)]
	var keep []string
	for _, g := range strings.Split(string(buf), "\n\n") {
		if strings.Contains(g, "query.(*worker).Run") {
			keep = append(keep, g)
		}
	}
	s := strings.Join(keep, "\n\n")
	if len(s) > 6000 {
		s = s[:6000]
	}
	return s
}

// wkRunPath must be called inside a synctest bubble.
func wkRunPath(p *wkPathIn) (out wkPathOut) {
	out.ID = p.ID
	e := &wkEnv{
		peer:    &wkPeer{msgs: make(chan wire.Message), disc: make(chan struct{})},
		results: make(chan *jobResult), quit: make(chan struct{}), done: make(chan struct{}),
	}
	e.w = NewWorker(e.peer).(*worker)
	go func() { defer close(e.done); e.w.Run(e.results, e.quit) }()
	defer func() {
		// let every goroutine of the bubble end
		e.closeQuit()
		if e.gate != nil {
			select {
			case <-e.gate:
			default:
				close(e.gate)
			}
		}
		for i := 0; i < 8 && !e.exited(); i++ {
			e.drain()
		}
	}()
	out.InitObs = e.observe()
	out.Steps = []wkStepOut{}
	for _, s := range p.Steps {
		so, cont := e.exec(s.Act)
		out.Steps = append(out.Steps, so)
		if !cont || so.Act != s.Act {
			break
		}
	}
	return
}

func TestVerifWorkerReplay(t *testing.T) {
	in, outFn := os.Getenv("VERIF_PATHS"), os.Getenv("VERIF_OUT")
	if in == "" || outFn == "" {
		t.Skip("VERIF_PATHS / VERIF_OUT not set")
	}
	f, err := os.Open(in)
	if err != nil {
		t.Fatal(err)
	}
	defer f.Close()
	var paths []*wkPathIn
	sc := bufio.NewScanner(f)
	sc.Buffer(make([]byte, 1<<20), 1<<28)
	for sc.Scan() {
		p := &wkPathIn{}
		if err := json.Unmarshal(sc.Bytes(), p); err != nil {
			t.Fatal(err)
		}
		paths = append(paths, p)
	}
	results := make([]wkPathOut, len(paths))
	for i := range paths {
		i := i
		synctest.Test(t, func(t *testing.T) {
			results[i] = wkRunPath(paths[i])
		})
	}
	of, err := os.Create(outFn)
	if err != nil {
		t.Fatal(err)
	}
	w := bufio.NewWriter(of)
	enc := json.NewEncoder(w)
	for i := range results {
		if err := enc.Encode(&results[i]); err != nil {
			t.Fatal(err)
		}
	}
	w.Flush()
	of.Close()
}
