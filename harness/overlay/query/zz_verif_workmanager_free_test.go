package query

// Free-running executions for the WorkManager family (C12): the REAL
// dispatcher with the REAL worker.Run, mock peers that answer, stall,
// disconnect and reconnect under the same address, real idle / hard timers,
// caller cancellations and Stop, all under the Go scheduler.  Nothing is
// asserted here: the dispatcher's hook events (plus what the handlers
// returned and what the callers finally read from their channels) are
// recorded, and the python side has TLC judge every recorded execution with
// WorkManagerProps.tla and validate it against TraceWorkManager.tla.

import (
	"fmt"
	"math/rand"
	"os"
	"strconv"
	"sync"
	"testing"
	"time"

	"github.com/btcsuite/btcd/wire/v2"
)

type frPeer struct {
	addr string
	mu   sync.Mutex
	subs []chan wire.Message
	disc chan struct{}
	rng  *rand.Rand
	once sync.Once
}

func (p *frPeer) Addr() string                  { return p.addr }
func (p *frPeer) OnDisconnect() <-chan struct{} { return p.disc }
func (p *frPeer) disconnect()                   { p.once.Do(func() { close(p.disc) }) }

func (p *frPeer) SubscribeRecvMsg() (<-chan wire.Message, func()) {
	c := make(chan wire.Message)
	p.mu.Lock()
	p.subs = append(p.subs, c)
	p.mu.Unlock()
	return c, func() {}
}

func (p *frPeer) deliver(m wire.Message) {
	p.mu.Lock()
	subs := append([]chan wire.Message{}, p.subs...)
	p.mu.Unlock()
	for _, c := range subs {
		select {
		case c <- m:
		case <-p.disc:
			return
		case <-time.After(200 * time.Millisecond):
		}
	}
}

// QueueMessageWithEncoding: the peer "receives" the request and reacts: it
// answers (possibly after partial progress or unrelated chatter), stalls and
// then drops the connection, or answers with something unrelated only.
func (p *frPeer) QueueMessageWithEncoding(msg wire.Message, _ chan<- struct{}, _ wire.MessageEncoding) {
	ping, ok := msg.(*wire.MsgPing)
	if !ok {
		return
	}
	p.mu.Lock()
	mode := p.rng.Intn(10)
	d := time.Duration(p.rng.Intn(3000)) * time.Microsecond
	p.mu.Unlock()
	go func() {
		time.Sleep(d)
		switch {
		case mode < 6:
			p.deliver(&wire.MsgPong{Nonce: ping.Nonce})
		case mode < 8:
			p.deliver(&wire.MsgPing{Nonce: ping.Nonce}) // partial progress
			time.Sleep(d)
			p.deliver(&wire.MsgPong{Nonce: ping.Nonce + 1000000}) // unrelated
			p.deliver(&wire.MsgPong{Nonce: ping.Nonce})
		case mode < 9:
			p.deliver(&wire.MsgPong{Nonce: ping.Nonce + 1000000})
			time.Sleep(3 * d)
			p.disconnect()
		default:
			p.disconnect()
		}
	}()
}

func wmFreeRun(seed int64) {
	rng := rand.New(rand.NewSource(seed))
	peerCh := make(chan Peer)
	wm := NewWorkManager(&Config{
		ConnectedPeers: func() (<-chan Peer, func(), error) { return peerCh, func() {}, nil },
		NewWorker:      NewWorker,
		Ranking:        NewPeerRanking(),
	}).(*peerWorkManager)
	rec := func(ev string, x, y, z int64) {
		if r := wmRecorder; r != nil {
			r(wm, wmEvent{ev: ev, x: x, y: y, z: z})
		}
	}
	rec("Free", seed, 0, 0)
	wm.Start()

	nAddr := 1 + rng.Intn(2)
	var peers []*frPeer
	connect := func(a int) {
		p := &frPeer{addr: "p" + strconv.Itoa(a), disc: make(chan struct{}),
			rng: rand.New(rand.NewSource(rng.Int63()))}
		peers = append(peers, p)
		select {
		case peerCh <- p:
		case <-time.After(2 * time.Second):
		}
	}
	type fb struct {
		errChan chan error
		cancel  chan struct{}
	}
	var batches []*fb
	query := func() {
		bi := len(batches)
		n := 1 + rng.Intn(3)
		reqs := make([]*Request, n)
		for k := range reqs {
			k := k
			nonce := uint64(bi*100 + k)
			reqs[k] = &Request{Req: &wire.MsgPing{Nonce: nonce}}
			reqs[k].HandleResp = func(_, resp wire.Message, _ string) Progress {
				switch m := resp.(type) {
				case *wire.MsgPong:
					if m.Nonce == nonce {
						rec("Answered", int64(bi), int64(k), 0)
						return Progress{Finished: true, Progressed: true}
					}
				case *wire.MsgPing:
					if m.Nonce == nonce {
						return Progress{Progressed: true}
					}
				}
				return Progress{}
			}
		}
		b := &fb{cancel: make(chan struct{})}
		opts := []QueryOption{Cancel(b.cancel)}
		// retry cap 0..3 (or the default), with or without NoRetryMax
		if rng.Intn(4) != 0 {
			opts = append(opts, NumRetries(uint8(rng.Intn(4))))
		}
		if rng.Intn(3) == 0 {
			opts = append(opts, NoRetryMax())
		}
		if rng.Intn(3) == 0 {
			opts = append(opts, Timeout(time.Duration(5+rng.Intn(40))*time.Millisecond))
		} else {
			opts = append(opts, Timeout(time.Hour))
		}
		if rng.Intn(3) == 0 {
			opts = append(opts, ProgressTimeout(time.Duration(3+rng.Intn(30))*time.Millisecond))
		}
		done := make(chan chan error, 1)
		go func() { done <- wm.Query(reqs, opts...) }()
		select {
		case b.errChan = <-done:
			batches = append(batches, b)
			if rng.Intn(4) == 0 {
				d := time.Duration(rng.Intn(8000)) * time.Microsecond
				go func() { time.Sleep(d); close(b.cancel) }()
			}
		case <-time.After(3 * time.Second):
			rec("QueryBlocked", int64(bi), 0, 0)
		}
	}

	steps := 6 + rng.Intn(10)
	for s := 0; s < steps; s++ {
		switch r := rng.Intn(10); {
		case r < 3 || len(peers) == 0:
			connect(1 + rng.Intn(nAddr))
		case r < 7 && len(batches) < 4:
			query()
		case r < 8:
			peers[rng.Intn(len(peers))].disconnect()
		default:
			// reconnect under the same address, with or without the old
			// connection having gone away first
			p := peers[rng.Intn(len(peers))]
			if rng.Intn(2) == 0 {
				p.disconnect()
			}
			connect(wmAddrNum(p.addr))
		}
		time.Sleep(time.Duration(rng.Intn(4000)) * time.Microsecond)
	}
	if len(batches) == 0 {
		query()
	}
	// Give the batches a chance to finish on their own, then shut down; in a
	// third of the runs Stop comes right away, while workers are still waiting
	// for answers, running handlers or handing back results.
	wait := time.Duration(20+rng.Intn(150)) * time.Millisecond
	if rng.Intn(3) == 0 {
		wait = time.Duration(rng.Intn(3000)) * time.Microsecond
	}
	deadline := time.After(wait)
	got := make([][]int, len(batches))
wait:
	for bi, b := range batches {
		select {
		case err := <-b.errChan:
			got[bi] = append(got[bi], wmVerdictKind(err))
		case <-deadline:
			break wait
		}
	}
	stopped := make(chan struct{})
	go func() { wm.Stop(); close(stopped) }()
	select {
	case <-stopped:
	case <-time.After(5 * time.Second):
		rec("StopHang", 0, 0, 0)
	}
	for _, p := range peers {
		p.disconnect()
	}
	for bi, b := range batches {
		for {
			select {
			case err := <-b.errChan:
				got[bi] = append(got[bi], wmVerdictKind(err))
				continue
			default:
			}
			break
		}
		z := int64(0)
		for x, v := range got[bi] {
			if x < 3 {
				z = z*10 + int64(v+1)
			}
		}
		rec("Final", int64(bi), int64(len(got[bi])), z)
	}
}

func TestVerifWorkManagerFree(t *testing.T) {
	n, _ := strconv.Atoi(os.Getenv("VERIF_FREE_N"))
	if n == 0 || wmRecorder == nil {
		t.Skip("VERIF_FREE_N / VERIF_TRACE_OUT not set")
	}
	seed, _ := strconv.ParseInt(os.Getenv("VERIF_SEED"), 10, 64)
	var wg sync.WaitGroup
	sem := make(chan struct{}, 8)
	for i := 0; i < n; i++ {
		wg.Add(1)
		sem <- struct{}{}
		go func(i int) {
			defer wg.Done()
			defer func() { <-sem }()
			wmFreeRun(seed*1000003 + int64(i))
		}(i)
	}
	wg.Wait()
	fmt.Println("free runs:", n)
}
