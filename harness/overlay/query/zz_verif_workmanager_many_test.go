package query

// "Many batches" executions for the WorkManager family (C12): the REAL
// dispatcher with 1..40 batches in flight at once, real idle (AfterFunc) and
// hard (time.After) timers, inside a testing/synctest bubble, i.e. under
// VIRTUAL time: many timers with the same deadline expire in the same instant,
// timers expire while the dispatcher is busy outside its main select (handing a
// job to a worker that is slow to take it, inside the OnMaxTries callback), and
// "this batch's idle window has fully elapsed" is an exact statement.
//
// The environment is scripted from a seed: scripted Workers (Config.NewWorker)
// that take a job late / answer / fail / stall / disconnect and honour the
// cancel channels like query/worker.go does, batches with shared, staggered and
// mixed idle deadlines, hard deadlines, retry caps, mass cancellation, peers
// connecting and disconnecting while timers expire, Stop with many batches
// pending.  Nothing is asserted here.  The dispatcher's hook events are
// recorded (with the virtual time of each), together with
//   Many      first event of such an execution
//   BatchOpt  x = batch, y = ProgressTimeout in ms (0 none), z = Timeout in ms
//   Quiet     every goroutine of the bubble is durably blocked (synctest.Wait);
//             x = 1: the dispatcher is inside a callback of its Config
//   Got       x = batch, y = kind of a value the caller read from its channel
//   Final     as in the free-running executions
// and the python side turns "window g of batch b has elapsed by this quiet
// point" into IdleElapsed steps, has TLC judge the execution with
// WorkManagerProps.tla and validates it against TraceWorkManager.tla.

import (
	"fmt"
	"math/rand"
	"os"
	"strconv"
	"sync"
	"sync/atomic"
	"testing"
	"testing/synctest"
	"time"
)

type mnPeer struct {
	wmPeer
	once sync.Once
}

func (p *mnPeer) disconnect() { p.once.Do(func() { close(p.disc) }) }

// mnWorker is a scripted Worker.  It follows the contract of worker.Run (one
// result per job, ErrJobCanceled for a job whose caller / batch cancelled it,
// returns after a disconnect and on quit) but may be slow to take a job.
type mnWorker struct {
	peer      *mnPeer
	jobCh     chan *queryJob
	rng       *rand.Rand
	pickDelay time.Duration // before it reads NewJob() for the first time
	pickEvery bool          // ... and again before every further job
	mode      int           // 0 mixed, 1 always answers, 2 always stalls, 3 always fails
	lat       time.Duration // upper bound of the time a job takes
	align     time.Duration // if set: half of the jobs take exactly this long, give or take 1 ms
}

func (w *mnWorker) NewJob() chan<- *queryJob { return w.jobCh }

func (w *mnWorker) Run(results chan<- *jobResult, quit <-chan struct{}) {
	first := true
	for {
		if w.pickDelay > 0 && (first || w.pickEvery) {
			select {
			case <-time.After(w.pickDelay):
			case <-w.peer.disc:
				return
			case <-quit:
				return
			}
		}
		first = false
		var job *queryJob
		select {
		case job = <-w.jobCh:
		case <-w.peer.disc:
			return
		case <-quit:
			return
		}
		// what happens to this job
		kind := w.mode
		if kind == 0 {
			switch r := w.rng.Intn(10); {
			case r < 5:
				kind = 1
			case r < 7:
				kind = 3
			case r < 8:
				kind = 4 // disconnects
			default:
				kind = 2
			}
		}
		var err error
		switch kind {
		case 3:
			err = ErrQueryTimeout
			if w.rng.Intn(2) == 0 {
				err = errWmOther
			}
		case 4:
			err = ErrPeerDisconnected
		}
		d := time.Duration(w.rng.Int63n(int64(w.lat) + 1))
		if w.align > 0 && w.rng.Intn(2) == 0 {
			// results that come in the very instant an idle window runs out
			d = w.align + time.Duration(w.rng.Intn(3)-1)*time.Millisecond
		}
		canceled := false
		select {
		case <-job.cancelChan:
			canceled = true
		case <-job.internalCancelChan:
			canceled = true
		default:
		}
		if !canceled {
			var tm <-chan time.Time
			if kind != 2 {
				tm = time.After(d)
			}
			select {
			case <-tm:
				if kind == 4 {
					w.peer.disconnect()
				}
			case <-job.cancelChan:
				canceled = true
			case <-job.internalCancelChan:
				canceled = true
			case <-w.peer.disc:
				err = ErrPeerDisconnected
			case <-quit:
				return
			}
		}
		if canceled {
			err = ErrJobCanceled
		}
		select {
		case results <- &jobResult{job: job, peer: w.peer, err: err}:
		case <-quit:
			return
		}
		if err == ErrPeerDisconnected {
			return
		}
	}
}

// forced (batches, deadline class, busy class) combinations that every run of
// the check contains; further executions draw all three.
// deadline class: 0 all batches share one idle deadline, 1 staggered, 2 mixed
// busy class: 0 nobody connected while the timers expire, 1 a worker that takes
// the offered job late, 2 OnMaxTries callback with latency, 3 working peers
var mnForced = [][3]int{
	{40, 0, 1}, {40, 0, 0}, {40, 1, 1}, {24, 2, 2}, {17, 0, 1}, {33, 1, 0}, {18, 2, 3}, {40, 0, 3},
	{40, 2, 1}, {16, 0, 1}, {3, 2, 3}, {1, 0, 0},
}

const mnLong = time.Hour // virtual

func wmManyRun(idx int, seed int64) {
	rng := rand.New(rand.NewSource(seed))
	var nBatch, dl, busy int
	if idx < len(mnForced) {
		nBatch, dl, busy = mnForced[idx][0], mnForced[idx][1], mnForced[idx][2]
	} else {
		nBatch, dl, busy = 1+rng.Intn(40), rng.Intn(3), rng.Intn(4)
	}
	P := time.Duration(100+rng.Intn(400)) * time.Millisecond // the idle timeout
	maxTriesLat := time.Duration(0)
	if busy == 2 {
		maxTriesLat = P + time.Duration(rng.Intn(300))*time.Millisecond
	}

	peerCh := make(chan Peer)
	var inCallback atomic.Int32 // the dispatcher is inside a callback of its Config
	var workers []*mnWorker
	var pending *mnWorker
	cfg := &Config{
		ConnectedPeers: func() (<-chan Peer, func(), error) { return peerCh, func() {}, nil },
		NewWorker: func(p Peer) Worker {
			w := pending
			return w
		},
		Ranking: NewPeerRanking(),
	}
	if maxTriesLat > 0 {
		cfg.OnMaxTries = func(Peer) {
			inCallback.Add(1)
			time.Sleep(maxTriesLat)
			inCallback.Add(-1)
		}
	}
	wm := NewWorkManager(cfg).(*peerWorkManager)
	rec := func(ev string, x, y, z int64) {
		if r := wmRecorder; r != nil {
			r(wm, wmEvent{ev: ev, x: x, y: y, z: z})
		}
	}
	rec("Many", seed, int64(nBatch), int64(dl*10+busy))
	wm.Start()

	connect := func(addr, mode int, pick time.Duration, every bool, lat time.Duration) {
		w := &mnWorker{
			peer:  &mnPeer{wmPeer: wmPeer{addr: wmAddr(addr), disc: make(chan struct{})}},
			jobCh: make(chan *queryJob), rng: rand.New(rand.NewSource(rng.Int63())),
			pickDelay: pick, pickEvery: every, mode: mode, lat: lat,
		}
		if busy == 3 && rng.Intn(2) == 0 {
			w.align = P
		}
		pending = w
		select {
		case peerCh <- w.peer:
			workers = append(workers, w)
		case <-time.After(mnLong):
		}
	}

	type mb struct {
		errChan chan error
		cancel  chan struct{}
		closed  bool
	}
	var batches []*mb
	var got [][]int
	quiet := func() {
		synctest.Wait()
		for bi, b := range batches {
			for {
				select {
				case err := <-b.errChan:
					k := wmVerdictKind(err)
					got[bi] = append(got[bi], k)
					rec("Got", int64(bi), int64(k), 0)
					continue
				default:
				}
				break
			}
		}
		rec("Quiet", int64(inCallback.Load()), 0, 0)
	}
	query := func(n int, prog, hard time.Duration, opts ...QueryOption) {
		bi := len(batches)
		reqs := make([]*Request, n)
		for k := range reqs {
			reqs[k] = &Request{}
		}
		b := &mb{cancel: make(chan struct{})}
		opts = append(opts, Cancel(b.cancel))
		switch {
		case hard > 0:
			opts = append(opts, Timeout(hard))
		case prog > 0 && rng.Intn(2) == 0:
			opts = append(opts, Timeout(0)) // no hard deadline at all
		default:
			opts = append(opts, Timeout(mnLong*1000))
		}
		if prog > 0 {
			opts = append(opts, ProgressTimeout(prog))
		}
		done := make(chan chan error, 1)
		go func() { done <- wm.Query(reqs, opts...) }()
		select {
		case b.errChan = <-done:
			batches = append(batches, b)
			got = append(got, nil)
			rec("BatchOpt", int64(bi), int64(prog/time.Millisecond), int64(hard/time.Millisecond))
		case <-time.After(mnLong):
			rec("QueryBlocked", int64(bi), 0, 0)
			// the goroutine stays blocked in Query until Stop
		}
	}
	retryOpts := func() []QueryOption {
		var o []QueryOption
		if busy == 2 {
			// a cap that the first failure reaches (OnMaxTries runs)
			if rng.Intn(3) != 0 {
				return []QueryOption{NumRetries(1)}
			}
		}
		if rng.Intn(3) == 0 {
			o = append(o, NumRetries(uint8(rng.Intn(4))))
		}
		if rng.Intn(4) == 0 {
			o = append(o, NoRetryMax())
		}
		return o
	}

	// peers that are there before the batches
	switch busy {
	case 2:
		// its jobs fail quickly: the retry cap is reached while the other
		// batches' idle windows are running
		connect(1, 3, 0, false, P/4)
	case 3:
		for a := 1; a <= 1+rng.Intn(3); a++ {
			connect(a, 0, 0, false, time.Duration(1+rng.Intn(int(2*P/time.Millisecond)))*time.Millisecond)
		}
	}
	quiet()

	// the batches
	for b := 0; b < nBatch; b++ {
		n := 1 + rng.Intn(2)
		if busy == 3 {
			n = 1 + rng.Intn(4)
		}
		prog, hard := P, time.Duration(0)
		switch dl {
		case 1:
			if rng.Intn(2) == 0 {
				time.Sleep(time.Duration(1+rng.Intn(5)) * time.Millisecond)
			} else {
				prog = P + time.Duration(b*7)*time.Millisecond
			}
		case 2:
			switch b % 4 {
			case 1:
				prog = P + time.Duration(rng.Intn(200))*time.Millisecond
			case 2:
				prog, hard = 0, P+time.Duration(rng.Intn(400))*time.Millisecond
			case 3:
				hard = P / 2
			}
		}
		query(n, prog, hard, retryOpts()...)
	}
	quiet()

	stopEarly := rng.Intn(5) == 0
	cancelMany := func() {
		k := 1 + rng.Intn(len(batches)+1)
		for _, bi := range rng.Perm(len(batches)) {
			if k == 0 {
				break
			}
			if b := batches[bi]; !b.closed {
				b.closed = true
				close(b.cancel)
				k--
			}
		}
	}
	if len(batches) > 0 && !stopEarly {
		// a worker that is slow to take the job the dispatcher offers it: the
		// dispatcher sits in its hand-off select while the idle windows run out
		if busy == 1 {
			connect(1, rng.Intn(3), P+time.Duration(rng.Intn(int(P/time.Millisecond)))*time.Millisecond,
				rng.Intn(2) == 0, P/2)
		}
		// things that happen while the idle windows run
		for s, ns := 0, rng.Intn(4); s < ns; s++ {
			time.Sleep(time.Duration(rng.Intn(int(P/time.Millisecond)/2+1)) * time.Millisecond)
			switch rng.Intn(5) {
			case 0:
				cancelMany()
			case 1:
				connect(2+rng.Intn(2), rng.Intn(4), 0, false, P)
			case 2:
				if len(workers) > 0 {
					workers[rng.Intn(len(workers))].peer.disconnect()
				}
			case 3:
				// reconnect under an address that is in use
				if len(workers) > 0 {
					w := workers[rng.Intn(len(workers))]
					if rng.Intn(2) == 0 {
						w.peer.disconnect()
					}
					connect(wmAddrNum(w.peer.addr), rng.Intn(4), 0, false, P/2)
				}
			default:
			}
			quiet()
		}
		// time passes: just before, exactly at and after the deadlines
		for _, d := range []time.Duration{P / 2, P/2 - time.Millisecond, time.Millisecond, P / 2, 2 * P} {
			time.Sleep(d)
			quiet()
		}
		if rng.Intn(3) != 0 {
			// a peer that answers everything, and a later batch without timeouts:
			// whatever happened before must not stand in its way
			connect(4, 1, 0, false, time.Millisecond)
			time.Sleep(P)
			quiet()
			query(1+rng.Intn(2), 0, 0)
			time.Sleep(4 * P)
			quiet()
			if rng.Intn(2) == 0 {
				cancelMany()
				time.Sleep(time.Millisecond)
				quiet()
			}
		}
	} else if len(batches) > 0 {
		// Stop with many batches pending, some of them being cancelled / timing
		// out at that moment
		time.Sleep(time.Duration(rng.Intn(int(P/time.Millisecond)+50)) * time.Millisecond)
		if rng.Intn(2) == 0 {
			cancelMany()
		}
		if rng.Intn(2) == 0 {
			quiet()
		}
	}

	stopped := make(chan struct{})
	go func() { wm.Stop(); close(stopped) }()
	select {
	case <-stopped:
	case <-time.After(mnLong):
		rec("StopHang", 0, 0, 0)
	}
	for _, w := range workers {
		w.peer.disconnect()
	}
	synctest.Wait()
	for bi, b := range batches {
		for {
			select {
			case err := <-b.errChan:
				got[bi] = append(got[bi], wmVerdictKind(err))
				continue
			default:
			}
			break
		}
		z := int64(0)
		for x, v := range got[bi] {
			if x < 3 {
				z = z*10 + int64(v+1)
			}
		}
		rec("Final", int64(bi), int64(len(got[bi])), z)
	}
}

func TestVerifWorkManagerMany(t *testing.T) {
	n, _ := strconv.Atoi(os.Getenv("VERIF_MANY_N"))
	if n == 0 || wmRecorder == nil {
		t.Skip("VERIF_MANY_N / VERIF_TRACE_OUT not set")
	}
	seed, _ := strconv.ParseInt(os.Getenv("VERIF_SEED"), 10, 64)
	for i := 0; i < n; i++ {
		i := i
		synctest.Test(t, func(t *testing.T) {
			wmManyRun(i, seed*7000003+int64(i))
		})
	}
	fmt.Println("many-batch runs:", n)
}
