//go:build verif

// Adapter of the ConcQueue driver for chanutils.ConcurrentQueue[any]
// (chanutils/queue.go), the queue inside chanutils.BatchWriter.
package chanutils

const vcqImpl = "chanutils.ConcurrentQueue"

func vcqNew(buf int) vcqQ { return NewConcurrentQueue[any](buf) }

// vcqOverflow returns the items parked in the overflow list, oldest first.
func vcqOverflow(q vcqQ) []int {
	out := []int{}
	for e := q.(*ConcurrentQueue[any]).overflow.Front(); e != nil; e = e.Next() {
		out = append(out, e.Value.(int))
	}
	return out
}

// vcqChans returns both channels with both directions (used only to release
// parked parties when a path is over).
func vcqChans(q vcqQ) (chan any, chan any) {
	cq := q.(*ConcurrentQueue[any])
	return cq.chanIn, cq.chanOut
}
