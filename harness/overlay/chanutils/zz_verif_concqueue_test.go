//go:build verif

// Driver of the ConcQueue slice (properties C11 / C17): runs the settled steps
// derived from specs/ConcQueue/ConcQueue.tla against a REAL ConcurrentQueue.
//
// The queue's select loop cannot be scheduled from outside, so the binding is
// by outcome: a step names what the producer, the consumer and the owner do
// "at once" (the driver starts them in a random order WITHOUT waiting for one
// another, so the loop really sees several ready arms), then synctest.Wait()
// returns once every goroutine of the bubble is durably blocked.  What is
// observed then is exact: a send that has not completed will not complete, a
// consumer that is parked stays parked, Stop has returned or never will -
// unless the environment acts again.  The observed steps are judged by
// ConcQueueProps.tla and checked against the model's set of possible outcomes
// by the python side.
//
// This file is shared by two packages (the python side rewrites the package
// clause): in package chanutils it drives chanutils.ConcurrentQueue[any], in
// package blockntfns it drives lnd/queue.ConcurrentQueue, the queue behind
// every block subscription.  The adapter (vcqNew, vcqOverflow, vcqChans) lives
// in zz_verif_concqueue_impl_test.go of the respective overlay directory.
package chanutils

import (
	"bufio"
	"encoding/json"
	"fmt"
	"math/rand"
	"os"
	"runtime"
	"strconv"
	"strings"
	"sync"
	"sync/atomic"
	"testing"
	"testing/synctest"
)

// vcqQ is what both implementations offer.
type vcqQ interface {
	ChanIn() chan<- any
	ChanOut() <-chan any
	Start()
	Stop()
}

type vcqAct struct {
	Op string `json:"op"`
	P  string `json:"p"`
	C  string `json:"c"`
	S  string `json:"s"`
}

type vcqObs struct {
	Buf      int   `json:"buf"`
	Started  int   `json:"started"`
	InClosed int   `json:"inclosed"`
	Pend     int   `json:"pend"`
	NSent    int   `json:"nsent"`
	Got      []int `json:"got"`
	CPark    int   `json:"cpark"`
	EOF      int   `json:"eof"`
	Stop     int   `json:"stop"`
	NOut     int   `json:"nout"`
	Ovf      []int `json:"ovf"`
	Settled  int   `json:"settled"`
}

type vcqPathIn struct {
	ID      int     `json:"id"`
	InitObs *vcqObs `json:"init_obs"`
	Steps   []struct {
		Act vcqAct `json:"act"`
	} `json:"steps"`
}

type vcqStepOut struct {
	Act vcqAct `json:"act"`
	Obs vcqObs `json:"obs"`
}

type vcqPathOut struct {
	ID      int          `json:"id"`
	Impl    string       `json:"impl"`
	InitObs vcqObs       `json:"init_obs"`
	Steps   []vcqStepOut `json:"steps"`
	Cut     string       `json:"cut,omitempty"`
	Leaked  bool         `json:"leaked,omitempty"`
	Error   string       `json:"error,omitempty"`
}

type vcqSentinel struct{}

type vcqSUT struct {
	q   vcqQ
	buf int

	mu  sync.Mutex
	got []int
	eof bool

	prodBusy atomic.Int32 // item of the send in progress
	consBusy atomic.Int32
	stop     atomic.Int32
	started  int
	inclosed int
	nsent    int

	prodCmd chan int // item > 0: send it; 0: close ChanIn
	consCmd chan struct{}
	wg      sync.WaitGroup
}

func vcqStart(buf int) *vcqSUT {
	s := &vcqSUT{q: vcqNew(buf), buf: buf, prodCmd: make(chan int, 1), consCmd: make(chan struct{}, 1)}
	s.wg.Add(2)
	go func() {
		defer s.wg.Done()
		for it := range s.prodCmd {
			if it == 0 {
				close(s.q.ChanIn())
			} else {
				s.q.ChanIn() <- it
			}
			s.prodBusy.Store(0)
		}
	}()
	go func() {
		defer s.wg.Done()
		for range s.consCmd {
			v, ok := <-s.q.ChanOut()
			if _, rel := v.(vcqSentinel); !rel {
				s.mu.Lock()
				if ok {
					s.got = append(s.got, v.(int))
				} else {
					s.eof = true
				}
				s.mu.Unlock()
			}
			s.consBusy.Store(0)
		}
	}()
	return s
}

func (s *vcqSUT) obs() vcqObs {
	synctest.Wait()
	s.mu.Lock()
	got := append([]int{}, s.got...)
	eof := 0
	if s.eof {
		eof = 1
	}
	s.mu.Unlock()
	return vcqObs{Buf: s.buf, Started: s.started, InClosed: s.inclosed, Pend: int(s.prodBusy.Load()),
		NSent: s.nsent, Got: got, CPark: int(s.consBusy.Load()), EOF: eof, Stop: int(s.stop.Load()),
		NOut: len(s.q.ChanOut()), Ovf: vcqOverflow(s.q), Settled: 1}
}

// applicable: can the parties named by the step act at all in the state the
// real run is in (a path may have left the model's prediction).
func (s *vcqSUT) applicable(a vcqAct) string {
	switch a.P {
	case "Send", "CloseIn":
		if s.prodBusy.Load() != 0 || s.inclosed == 1 {
			return "producer is not free"
		}
	}
	if a.C == "Recv" && (s.consBusy.Load() != 0 || s.eof) {
		return "consumer is not free"
	}
	switch a.S {
	case "Start":
		if s.started == 1 || s.stop.Load() != 0 {
			return "Start not possible"
		}
	case "Stop":
		if s.stop.Load() != 0 {
			return "Stop already called"
		}
	}
	return ""
}

func (s *vcqSUT) step(a vcqAct, rng *rand.Rand) {
	var cmds []func()
	switch a.P {
	case "Send":
		s.nsent++
		it := s.nsent
		cmds = append(cmds, func() { s.prodBusy.Store(int32(it)); s.prodCmd <- it })
	case "CloseIn":
		s.inclosed = 1
		cmds = append(cmds, func() { s.prodBusy.Store(-1); s.prodCmd <- 0 })
	}
	if a.C == "Recv" {
		cmds = append(cmds, func() { s.consBusy.Store(1); s.consCmd <- struct{}{} })
	}
	switch a.S {
	case "Start":
		s.started = 1
		cmds = append(cmds, func() { s.wg.Add(1); go func() { defer s.wg.Done(); s.q.Start() }() })
	case "Stop":
		cmds = append(cmds, func() {
			s.stop.Store(1)
			s.wg.Add(1)
			go func() { defer s.wg.Done(); s.q.Stop(); s.stop.Store(2) }()
		})
	}
	rng.Shuffle(len(cmds), func(i, j int) { cmds[i], cmds[j] = cmds[j], cmds[i] })
	for _, c := range cmds {
		c()
		switch rng.Intn(3) {
		case 0:
			runtime.Gosched()
		case 1:
			for i := 0; i < rng.Intn(200); i++ {
				runtime.Gosched()
			}
		}
	}
}

// close brings every goroutine of the path to an end (the bubble cannot be
// left while one of them is blocked).  Returns false if that was not possible:
// the code under test left a goroutine blocked for good (observed and recorded
// as such before); the goroutines of this path are then abandoned.
func (s *vcqSUT) close() bool {
	synctest.Wait()
	if s.stop.Load() == 0 {
		s.stop.Store(1)
		s.wg.Add(1)
		go func() { defer s.wg.Done(); s.q.Stop(); s.stop.Store(2) }()
	}
	in, out := vcqChans(s.q)
	for i := 0; i < 256; i++ {
		synctest.Wait()
		progress := false
		if s.prodBusy.Load() > 0 {
			select {
			case <-in:
				progress = true
			default:
			}
		}
		if s.consBusy.Load() != 0 {
			func() {
				defer func() { _ = recover() }()
				select {
				case out <- vcqSentinel{}:
					progress = true
				default:
				}
			}()
		}
		if s.stop.Load() == 1 {
			// Stop has not returned although nothing moves: give the loop
			// room (empty the output channel) so that it may reach a point
			// where it looks at quit.
			select {
			case <-out:
				progress = true
			default:
			}
		}
		if !progress {
			break
		}
	}
	close(s.prodCmd)
	close(s.consCmd)
	if s.prodBusy.Load() != 0 || s.consBusy.Load() != 0 || s.stop.Load() != 2 {
		return false
	}
	s.wg.Wait()
	return true
}

func vcqRunPath(t *testing.T, p vcqPathIn, seed int64) (out vcqPathOut) {
	out.ID, out.Impl = p.ID, vcqImpl
	out.Steps = []vcqStepOut{}
	complete := false
	defer func() {
		if r := recover(); r != nil {
			if complete && strings.Contains(fmt.Sprint(r), "deadlock") {
				// synctest refusing to leave a bubble in which the code
				// under test left a goroutine blocked for good (the
				// driver's own goroutines were released by close)
				out.Leaked = true
				return
			}
			out.Error = fmt.Sprintf("driver: %v", r)
		}
	}()
	rng := rand.New(rand.NewSource(seed*1000003 + int64(p.ID)))
	synctest.Test(t, func(*testing.T) {
		buf := 0
		if p.InitObs != nil {
			buf = p.InitObs.Buf
		}
		s := vcqStart(buf)
		out.InitObs = s.obs()
		for _, st := range p.Steps {
			if why := s.applicable(st.Act); why != "" {
				out.Cut = why
				break
			}
			s.step(st.Act, rng)
			out.Steps = append(out.Steps, vcqStepOut{Act: st.Act, Obs: s.obs()})
		}
		complete = true
		out.Leaked = !s.close()
	})
	return out
}

func TestVerifConcQueueReplay(t *testing.T) {
	in, outFn := os.Getenv("VERIF_PATHS"), os.Getenv("VERIF_OUT")
	if in == "" || outFn == "" {
		t.Skip("VERIF_PATHS / VERIF_OUT not set")
	}
	seed, _ := strconv.ParseInt(os.Getenv("VERIF_SEED"), 10, 64)
	f, err := os.Open(in)
	if err != nil {
		t.Fatal(err)
	}
	defer f.Close()
	var paths []vcqPathIn
	sc := bufio.NewScanner(f)
	sc.Buffer(make([]byte, 1<<20), 1<<28)
	for sc.Scan() {
		var p vcqPathIn
		if err := json.Unmarshal(sc.Bytes(), &p); err != nil {
			t.Fatal(err)
		}
		paths = append(paths, p)
	}
	results := make([]vcqPathOut, len(paths))
	nw := runtime.NumCPU()
	if nw > 4 {
		nw = 4
	}
	if v, err := strconv.Atoi(os.Getenv("VERIF_WORKERS")); err == nil && v > 0 {
		nw = v
	}
	var wg sync.WaitGroup
	jobs := make(chan int)
	for w := 0; w < nw; w++ {
		wg.Add(1)
		go func() {
			defer wg.Done()
			for i := range jobs {
				results[i] = vcqRunPath(t, paths[i], seed)
			}
		}()
	}
	for i := range paths {
		jobs <- i
	}
	close(jobs)
	wg.Wait()
	of, err := os.Create(outFn)
	if err != nil {
		t.Fatal(err)
	}
	w := bufio.NewWriter(of)
	enc := json.NewEncoder(w)
	for i := range results {
		if err := enc.Encode(&results[i]); err != nil {
			t.Fatal(err)
		}
	}
	w.Flush()
	of.Close()
}
