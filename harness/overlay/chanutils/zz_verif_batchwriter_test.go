//go:build verif

// Driver of the BatchWriter slice (properties C17 / C05): runs the settled
// steps derived from specs/BatchWriter/BatchWriter.tla against the REAL
// chanutils.BatchWriter[int] inside testing/synctest bubbles.
//
//   - cfg.PutItems is the driver's: it records every batch it is called with
//     and returns an error while the path says so (Fail / Heal);
//   - the ticker runs on the bubble's fake clock: Tick is one time.Sleep of a
//     full DBWritesTickerDuration, so an armed ticker fires exactly then;
//   - AddItem, Start and Stop are started without waiting for one another when
//     a step names several of them; synctest.Wait() then returns once every
//     goroutine is durably blocked: "AddItem has not returned" and "Stop has
//     not returned" are exact observations, not timeouts.
package chanutils

import (
	"bufio"
	"encoding/json"
	"errors"
	"fmt"
	"math/rand"
	"os"
	"runtime"
	"strconv"
	"strings"
	"sync"
	"sync/atomic"
	"testing"
	"testing/synctest"
	"time"
)

const vbwPeriod = 500 * time.Millisecond

type vbwAct struct {
	Op string `json:"op"`
	A  string `json:"a"`
	T  string `json:"t"`
	S  string `json:"s"`
	D  string `json:"d"`
}

type vbwObs struct {
	MaxB    int     `json:"maxb"`
	QB      int     `json:"qb"`
	Started int     `json:"started"`
	NAdd    int     `json:"nadd"`
	Pend    int     `json:"pend"`
	Put     [][]int `json:"put"`
	Oks     []int   `json:"oks"`
	Stop    int     `json:"stop"`
	Failing int     `json:"failing"`
	NQ      int     `json:"nq"`
	Settled int     `json:"settled"`
}

type vbwPathIn struct {
	ID      int     `json:"id"`
	InitObs *vbwObs `json:"init_obs"`
	Steps   []struct {
		Act vbwAct `json:"act"`
	} `json:"steps"`
}

type vbwStepOut struct {
	Act vbwAct `json:"act"`
	Obs vbwObs `json:"obs"`
}

type vbwPathOut struct {
	ID      int          `json:"id"`
	InitObs vbwObs       `json:"init_obs"`
	Steps   []vbwStepOut `json:"steps"`
	Cut     string       `json:"cut,omitempty"`
	Leaked  bool         `json:"leaked,omitempty"`
	Error   string       `json:"error,omitempty"`
}

type vbwSUT struct {
	b        *BatchWriter[int]
	maxb, qb int

	mu  sync.Mutex
	put [][]int
	oks []int

	failing atomic.Int32
	addBusy atomic.Int32
	stop    atomic.Int32
	started int
	nadd    int

	addCmd chan int
	wg     sync.WaitGroup
}

func vbwStart(maxb, qb int) *vbwSUT {
	s := &vbwSUT{maxb: maxb, qb: qb, addCmd: make(chan int, 1)}
	s.b = NewBatchWriter[int](&BatchWriterConfig[int]{
		QueueBufferSize:        qb,
		MaxBatch:               maxb,
		DBWritesTickerDuration: vbwPeriod,
		PutItems: func(items ...int) error {
			s.mu.Lock()
			defer s.mu.Unlock()
			s.put = append(s.put, append([]int{}, items...))
			if s.failing.Load() != 0 {
				s.oks = append(s.oks, 0)
				return errors.New("verif: injected PutItems failure")
			}
			s.oks = append(s.oks, 1)
			return nil
		},
	})
	s.wg.Add(1)
	go func() {
		defer s.wg.Done()
		for it := range s.addCmd {
			s.b.AddItem(it)
			s.addBusy.Store(0)
		}
	}()
	return s
}

func (s *vbwSUT) obs() vbwObs {
	synctest.Wait()
	s.mu.Lock()
	put := make([][]int, len(s.put))
	for i := range s.put {
		put[i] = append([]int{}, s.put[i]...)
	}
	oks := append([]int{}, s.oks...)
	s.mu.Unlock()
	return vbwObs{MaxB: s.maxb, QB: s.qb, Started: s.started, NAdd: s.nadd, Pend: int(s.addBusy.Load()),
		Put: put, Oks: oks, Stop: int(s.stop.Load()), Failing: int(s.failing.Load()),
		NQ: len(s.b.queue.chanOut) + s.b.queue.overflow.Len(), Settled: 1}
}

func (s *vbwSUT) applicable(a vbwAct) string {
	if a.A == "Add" && s.addBusy.Load() != 0 {
		return "the adder is not free"
	}
	switch a.S {
	case "Start":
		if s.started == 1 || s.stop.Load() != 0 {
			return "Start not possible"
		}
	case "Stop":
		if s.stop.Load() != 0 {
			return "Stop already called"
		}
	}
	if (a.D == "Fail") == (s.failing.Load() != 0) && a.D != "none" {
		return "PutItems already in that mode"
	}
	return ""
}

func (s *vbwSUT) step(a vbwAct, rng *rand.Rand) {
	switch a.D {
	case "Fail":
		s.failing.Store(1)
	case "Heal":
		s.failing.Store(0)
	}
	var cmds []func()
	if a.A == "Add" {
		s.nadd++
		it := s.nadd
		cmds = append(cmds, func() { s.addBusy.Store(int32(it)); s.addCmd <- it })
	}
	switch a.S {
	case "Start":
		s.started = 1
		cmds = append(cmds, func() { s.wg.Add(1); go func() { defer s.wg.Done(); s.b.Start() }() })
	case "Stop":
		cmds = append(cmds, func() {
			s.stop.Store(1)
			s.wg.Add(1)
			go func() { defer s.wg.Done(); s.b.Stop(); s.stop.Store(2) }()
		})
	}
	rng.Shuffle(len(cmds), func(i, j int) { cmds[i], cmds[j] = cmds[j], cmds[i] })
	for _, c := range cmds {
		c()
		switch rng.Intn(3) {
		case 0:
			runtime.Gosched()
		case 1:
			for i := 0; i < rng.Intn(200); i++ {
				runtime.Gosched()
			}
		}
	}
	if a.T == "Tick" {
		synctest.Wait()
		time.Sleep(vbwPeriod)
	}
}

// close brings every goroutine of the path to an end; false if the code under
// test left one blocked for good (recorded as such before).
func (s *vbwSUT) close() bool {
	synctest.Wait()
	if s.stop.Load() == 0 {
		s.stop.Store(1)
		s.wg.Add(1)
		go func() { defer s.wg.Done(); s.b.Stop(); s.stop.Store(2) }()
	}
	for i := 0; i < 64; i++ {
		synctest.Wait()
		progress := false
		if s.addBusy.Load() != 0 {
			// AddItem parked in its send on the queue's input channel with
			// nobody left to receive: take the item so that the caller ends.
			select {
			case <-s.b.queue.chanIn:
				progress = true
			default:
			}
		}
		if s.stop.Load() == 1 {
			select {
			case <-s.b.queue.chanOut:
				progress = true
			default:
			}
		}
		if !progress {
			break
		}
	}
	close(s.addCmd)
	if s.addBusy.Load() != 0 || s.stop.Load() != 2 {
		return false
	}
	s.wg.Wait()
	return true
}

func vbwRunPath(t *testing.T, p vbwPathIn, seed int64) (out vbwPathOut) {
	out.ID = p.ID
	out.Steps = []vbwStepOut{}
	complete := false
	defer func() {
		if r := recover(); r != nil {
			if complete && strings.Contains(fmt.Sprint(r), "deadlock") {
				out.Leaked = true
				return
			}
			out.Error = fmt.Sprintf("driver: %v", r)
		}
	}()
	rng := rand.New(rand.NewSource(seed*1000003 + int64(p.ID)))
	synctest.Test(t, func(*testing.T) {
		maxb, qb := 1, 0
		if p.InitObs != nil {
			maxb, qb = p.InitObs.MaxB, p.InitObs.QB
		}
		s := vbwStart(maxb, qb)
		out.InitObs = s.obs()
		for _, st := range p.Steps {
			if why := s.applicable(st.Act); why != "" {
				out.Cut = why
				break
			}
			s.step(st.Act, rng)
			out.Steps = append(out.Steps, vbwStepOut{Act: st.Act, Obs: s.obs()})
		}
		complete = true
		out.Leaked = !s.close()
	})
	return out
}

func TestVerifBatchWriterReplay(t *testing.T) {
	in, outFn := os.Getenv("VERIF_PATHS"), os.Getenv("VERIF_OUT")
	if in == "" || outFn == "" {
		t.Skip("VERIF_PATHS / VERIF_OUT not set")
	}
	seed, _ := strconv.ParseInt(os.Getenv("VERIF_SEED"), 10, 64)
	f, err := os.Open(in)
	if err != nil {
		t.Fatal(err)
	}
	defer f.Close()
	var paths []vbwPathIn
	sc := bufio.NewScanner(f)
	sc.Buffer(make([]byte, 1<<20), 1<<28)
	for sc.Scan() {
		var p vbwPathIn
		if err := json.Unmarshal(sc.Bytes(), &p); err != nil {
			t.Fatal(err)
		}
		paths = append(paths, p)
	}
	results := make([]vbwPathOut, len(paths))
	nw := runtime.NumCPU()
	if nw > 4 {
		nw = 4
	}
	if v, err := strconv.Atoi(os.Getenv("VERIF_WORKERS")); err == nil && v > 0 {
		nw = v
	}
	var wg sync.WaitGroup
	jobs := make(chan int)
	for w := 0; w < nw; w++ {
		wg.Add(1)
		go func() {
			defer wg.Done()
			for i := range jobs {
				results[i] = vbwRunPath(t, paths[i], seed)
			}
		}()
	}
	for i := range paths {
		jobs <- i
	}
	close(jobs)
	wg.Wait()
	of, err := os.Create(outFn)
	if err != nil {
		t.Fatal(err)
	}
	w := bufio.NewWriter(of)
	enc := json.NewEncoder(w)
	for i := range results {
		if err := enc.Encode(&results[i]); err != nil {
			t.Fatal(err)
		}
	}
	w.Flush()
	of.Close()
}
