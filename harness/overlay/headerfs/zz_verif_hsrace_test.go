package headerfs

// Replay driver of the "reader against writer" slice of the HeaderStore family
// (specs/HeaderStore/HSRace.tla; properties C01 sentence 2 and C07 sentence 1
// under concurrency).  Injected into package headerfs with `go test -overlay`.
//
// Two REAL goroutines work on REAL stores (real flat files, real bbolt): W
// performs the block-/filter-store operations of a scenario, R performs read
// calls.  The stores reach their media only through the File and walletdb.DB
// interfaces; both are wrapped, and every primitive called by one of the two
// goroutines (View, Update, ReadAt, Write, Truncate) parks the goroutine in
// front of it ("pre.x") and right behind it ("post.x") until the path releases
// that goroutine.  A goroutine that is neither at a gate nor back from its
// call waits for a store mutex: that is recognised from a goroutine dump
// (wait reason sync.RWMutex.RLock / sync.RWMutex.Lock / sync.Mutex.Lock and
// the function that called into package sync is a method of a headerfs store),
// confirmed by a second dump, never by sleeping.  After every step the raw
// content of both files and of the index is read (own descriptors, unwrapped
// database) and the value a finished read returned is projected to header ids.
//
// Own identifier prefix: hr.

import (
	"bufio"
	"bytes"
	"crypto/sha256"
	"encoding/binary"
	"encoding/json"
	"fmt"
	"io"
	"os"
	"path/filepath"
	"runtime"
	"strconv"
	"strings"
	"sync"
	"testing"
	"time"

	"github.com/btcsuite/btcd/chaincfg/v2"
	"github.com/btcsuite/btcd/chainhash/v2"
	"github.com/btcsuite/btcd/wire/v2"
	"github.com/btcsuite/btcwallet/walletdb"
)

const (
	hrNF  = -1
	hrG   = -2
	hrERR = -3
)

type hrAct struct {
	Op    string `json:"op"`
	Ph    string `json:"ph"`
	Call  string `json:"call"`
	Arg   int    `json:"arg"`
	N     int    `json:"n"`
	Batch []int  `json:"batch"`
	Pc    string `json:"pc"`
	Res   string `json:"res"`
	Val   []int  `json:"val"`
}

type hrObs struct {
	Sc  int    `json:"sc"`
	L0  []int  `json:"l0"`
	FB  []int  `json:"fB"`
	FF  []int  `json:"fF"`
	Hof []int  `json:"hof"`
	TB  int    `json:"tB"`
	TF  int    `json:"tF"`
	Rp  string `json:"rp"`
	Wp  string `json:"wp"`
}

type hrStepIn struct {
	Act hrAct `json:"act"`
}

type hrPathIn struct {
	ID      int        `json:"id"`
	InitObs hrObs      `json:"init_obs"`
	Steps   []hrStepIn `json:"steps"`
	Sched   bool       `json:"sched"`
}

type hrStepOut struct {
	Act  hrAct  `json:"act"`
	Obs  hrObs  `json:"obs"`
	Note string `json:"note,omitempty"`
}

type hrPathOut struct {
	ID      int         `json:"id"`
	InitObs hrObs       `json:"init_obs"`
	Steps   []hrStepOut `json:"steps"`
	Stuck   string      `json:"stuck,omitempty"`
	Dumps   int         `json:"dumps"`
	Error   string      `json:"error,omitempty"`
}

type hrOp struct {
	Call  string `json:"call"`
	N     int    `json:"n"`
	Batch []int  `json:"batch"`
}

type hrScen struct {
	Lb   int    `json:"lb"`
	Lf   int    `json:"lf"`
	Prog []hrOp `json:"prog"`
}

type hrConfig struct {
	N    int      `json:"N"`
	Scen []hrScen `json:"scen"`
}

// ---- the header universe -------------------------------------------------------

type hrWorld struct {
	n    int
	hdr  []*wire.BlockHeader
	hash []chainhash.Hash
	fh   []chainhash.Hash
	byBH map[chainhash.Hash]int
	byFH map[chainhash.Hash]int
}

func hrNewWorld(n int) *hrWorld {
	w := &hrWorld{n: n, byBH: map[chainhash.Hash]int{}, byFH: map[chainhash.Hash]int{}}
	w.hdr = make([]*wire.BlockHeader, n)
	w.hash = make([]chainhash.Hash, n)
	w.fh = make([]chainhash.Hash, n)
	for i := 0; i < n; i++ {
		var buf [4]byte
		binary.BigEndian.PutUint32(buf[:], uint32(i))
		if i == 0 {
			w.hdr[0] = &chaincfg.SimNetParams.GenesisBlock.Header
		} else {
			w.hdr[i] = &wire.BlockHeader{
				Version:    1,
				PrevBlock:  sha256.Sum256(append([]byte("hr-prev"), buf[:]...)),
				MerkleRoot: sha256.Sum256(append([]byte("hr-mr"), buf[:]...)),
				Timestamp:  time.Unix(1600000000+int64(i)*600, 0),
				Bits:       0x207fffff,
				Nonce:      uint32(i),
			}
			w.fh[i] = sha256.Sum256(append([]byte("hr-fh"), buf[:]...))
			w.byFH[w.fh[i]] = i
		}
		w.hash[i] = w.hdr[i].BlockHash()
		w.byBH[w.hash[i]] = i
	}
	return w
}

func (w *hrWorld) idOfHeader(h *wire.BlockHeader) int {
	if id, ok := w.byBH[h.BlockHash()]; ok {
		return id
	}
	return hrG
}

func (w *hrWorld) idOfFH(h *chainhash.Hash) int {
	if id, ok := w.byFH[*h]; ok {
		return id
	}
	return hrG
}

// ---- gates -------------------------------------------------------------------------

type hrEv struct {
	proc string
	kind string // gate | ret
	name string // gate name
	res  string
	val  []int
}

type hrGates struct {
	mu    sync.Mutex
	procs map[string]string // goroutine id -> R | W
	ev    chan hrEv
	rel   map[string]chan struct{}
}

func hrGid() string {
	var buf [64]byte
	n := runtime.Stack(buf[:], false)
	f := bytes.Fields(buf[:n])
	if len(f) < 2 {
		return ""
	}
	return string(f[1])
}

func (g *hrGates) who() string {
	id := hrGid()
	g.mu.Lock()
	defer g.mu.Unlock()
	return g.procs[id]
}

// at parks the calling goroutine if it is one of the two scheduled ones.
func (g *hrGates) at(p, name string) {
	if p == "" {
		return
	}
	g.ev <- hrEv{proc: p, kind: "gate", name: name}
	<-g.rel[p]
}

type hrFile struct {
	File
	g *hrGates
	s string // B | F
}

func (f *hrFile) ReadAt(b []byte, off int64) (int, error) {
	p := f.g.who()
	f.g.at(p, "pre.r"+f.s)
	n, err := f.File.ReadAt(b, off)
	f.g.at(p, "post.r"+f.s)
	return n, err
}

func (f *hrFile) Write(b []byte) (int, error) {
	p := f.g.who()
	f.g.at(p, "pre.w"+f.s)
	n, err := f.File.Write(b)
	f.g.at(p, "post.w"+f.s)
	return n, err
}

func (f *hrFile) Truncate(sz int64) error {
	p := f.g.who()
	f.g.at(p, "pre.t"+f.s)
	err := f.File.Truncate(sz)
	f.g.at(p, "post.t"+f.s)
	return err
}

type hrDB struct {
	walletdb.DB
	g *hrGates
}

func (d *hrDB) View(f func(tx walletdb.ReadTx) error, reset func()) error {
	p := d.g.who()
	d.g.at(p, "pre.v")
	err := d.DB.View(f, reset)
	d.g.at(p, "post.v")
	return err
}

func (d *hrDB) Update(f func(tx walletdb.ReadWriteTx) error, reset func()) error {
	p := d.g.who()
	d.g.at(p, "pre.u")
	err := d.DB.Update(f, reset)
	d.g.at(p, "post.u")
	return err
}

// ---- one worker: one database, stores rebuilt for every path ---------------------------

const (
	hrBFile = "block_headers.bin"
	hrFFile = "reg_filter_headers.bin"
)

type hrWorker struct {
	dir    string
	db     walletdb.DB
	w      *hrWorld
	cfg    *hrConfig
	buf    []byte
	env    *hrEnv // stores and goroutines of the previous path, if it left them reusable
	builds int
}

func hrCopy(src, dst string) error {
	in, err := os.Open(src)
	if err != nil {
		return err
	}
	defer in.Close()
	out, err := os.Create(dst)
	if err != nil {
		return err
	}
	if _, err := io.Copy(out, in); err != nil {
		out.Close()
		return err
	}
	return out.Close()
}

// hrMakeTemplate creates a directory with an initialised index database (the
// 65 536 sub-buckets cost 0.3 s) and genesis-only stores.
func hrMakeTemplate(dir string) error {
	db, err := walletdb.Create("bdb", filepath.Join(dir, "neutrino.db"), false, 10*time.Second, false)
	if err != nil {
		return err
	}
	defer db.Close()
	b, err := NewBlockHeaderStore(dir, db, &chaincfg.SimNetParams)
	if err != nil {
		return err
	}
	f, err := NewFilterHeaderStore(dir, db, RegularFilter, &chaincfg.SimNetParams, nil)
	if err != nil {
		return err
	}
	b.(*blockHeaderStore).file.Close()
	f.(*filterHeaderStore).file.Close()
	return nil
}

func hrNewWorker(tmpl, scratch string, w *hrWorld, cfg *hrConfig) (*hrWorker, error) {
	dir, err := os.MkdirTemp(scratch, "w")
	if err != nil {
		return nil, err
	}
	if err := hrCopy(filepath.Join(tmpl, "neutrino.db"), filepath.Join(dir, "neutrino.db")); err != nil {
		return nil, err
	}
	// persisted free list: opening costs 2 ms instead of 40 ms
	db, err := walletdb.Open("bdb", filepath.Join(dir, "neutrino.db"), false, 10*time.Second, false)
	if err != nil {
		return nil, err
	}
	return &hrWorker{dir: dir, db: db, w: w, cfg: cfg, buf: make([]byte, 1<<18)}, nil
}

func (k *hrWorker) close() {
	if k.env != nil {
		k.env.discard()
	}
	if k.db != nil {
		k.db.Close()
	}
	os.RemoveAll(k.dir)
}

type hrEnv struct {
	k     *hrWorker
	sc    int
	scen  *hrScen
	g     *hrGates
	b     *blockHeaderStore
	f     *filterHeaderStore
	state map[string]string // idle | run | blk | gate name
	gid   map[string]string
	cmd   map[string]chan hrAct
	cur   map[string]hrAct // the call each goroutine is in
	last  map[string]hrEv  // its last return
	wi    int              // operations of the scenario started
	dumps int
}

// build makes fresh stores holding the scenario's initial lists: block ids
// 0..lb-1 and filter headers 0..lf-1, written through the real API.
func (k *hrWorker) build(sc int) (*hrEnv, error) {
	if sc < 1 || sc > len(k.cfg.Scen) {
		return nil, fmt.Errorf("unknown scenario %d", sc)
	}
	scen := &k.cfg.Scen[sc-1]
	os.Remove(filepath.Join(k.dir, hrBFile))
	os.Remove(filepath.Join(k.dir, hrFFile))
	err := walletdb.Update(k.db, func(tx walletdb.ReadWriteTx) error {
		root := tx.ReadWriteBucket(indexBucket)
		hs := make([]*chainhash.Hash, k.w.n)
		for i := range hs {
			hs[i] = &k.w.hash[i]
		}
		if err := deleteHeaderEntries(root, hs); err != nil {
			return err
		}
		if err := root.Delete(bitcoinTip); err != nil {
			return err
		}
		return root.Delete(regFilterTip)
	})
	if err != nil {
		return nil, fmt.Errorf("index reset: %w", err)
	}
	g := &hrGates{procs: map[string]string{}, ev: make(chan hrEv, 16),
		rel: map[string]chan struct{}{"R": make(chan struct{}), "W": make(chan struct{})}}
	pdb := &hrDB{DB: k.db, g: g}
	bs, err := NewBlockHeaderStore(k.dir, pdb, &chaincfg.SimNetParams)
	if err != nil {
		return nil, fmt.Errorf("block store: %w", err)
	}
	fs, err := NewFilterHeaderStore(k.dir, pdb, RegularFilter, &chaincfg.SimNetParams, nil)
	if err != nil {
		bs.(*blockHeaderStore).file.Close()
		return nil, fmt.Errorf("filter store: %w", err)
	}
	e := &hrEnv{k: k, sc: sc, scen: scen, g: g, b: bs.(*blockHeaderStore), f: fs.(*filterHeaderStore),
		state: map[string]string{"R": "idle", "W": "idle"}, gid: map[string]string{},
		cmd: map[string]chan hrAct{"R": make(chan hrAct), "W": make(chan hrAct)},
		cur: map[string]hrAct{}, last: map[string]hrEv{}}
	var bh []BlockHeader
	for i := 1; i < scen.Lb; i++ {
		bh = append(bh, BlockHeader{BlockHeader: k.w.hdr[i], Height: uint32(i)})
	}
	if len(bh) > 0 {
		if err := e.b.WriteHeaders(bh...); err != nil {
			e.closeFiles()
			return nil, err
		}
	}
	var fh []FilterHeader
	for i := 1; i < scen.Lf; i++ {
		fh = append(fh, FilterHeader{HeaderHash: k.w.hash[i], FilterHash: k.w.fh[i], Height: uint32(i)})
	}
	if len(fh) > 0 {
		if err := e.f.WriteHeaders(fh...); err != nil {
			e.closeFiles()
			return nil, err
		}
	}
	e.b.file = &hrFile{File: e.b.file, g: g, s: "B"}
	e.f.file = &hrFile{File: e.f.file, g: g, s: "F"}
	return e, nil
}

func (e *hrEnv) closeFiles() {
	e.b.file.Close()
	e.f.file.Close()
}

// discard ends the goroutines that are between two calls and closes the
// files.  Goroutines parked for ever on a mutex of these (now abandoned) store
// objects are left behind.
func (e *hrEnv) discard() {
	for _, q := range hrProcs {
		if _, ok := e.gid[q]; ok && e.state[q] == "idle" {
			close(e.cmd[q])
		}
	}
	e.closeFiles()
}

// expected raw content of fresh stores of scenario sc
func (k *hrWorker) initial(sc int) hrObs {
	scen := &k.cfg.Scen[sc-1]
	o := hrObs{Sc: sc, L0: []int{scen.Lb, scen.Lf}, FB: []int{}, FF: []int{}, Hof: make([]int, k.w.n),
		TB: scen.Lb - 1, TF: scen.Lf - 1, Rp: "idle", Wp: "idle"}
	for i := 0; i < scen.Lb; i++ {
		o.FB = append(o.FB, i)
	}
	for i := 0; i < scen.Lf; i++ {
		o.FF = append(o.FF, i)
	}
	for i := range o.Hof {
		o.Hof[i] = hrNF
		if i < scen.Lb {
			o.Hof[i] = i
		}
	}
	return o
}

func hrObsEq(a, b *hrObs) bool {
	x, _ := json.Marshal(a)
	y, _ := json.Marshal(b)
	return bytes.Equal(x, y)
}

// reset puts the scenario's initial lists into stores that were left idle by
// the previous path, writing the media directly (one index transaction
// instead of seven): both flat files are rewritten, every header of the
// universe is removed from the index, the initial ones and the two tip keys
// are put.  The stores keep no state of their own besides the media.
func (e *hrEnv) reset(sc int) error {
	k, w := e.k, e.k.w
	scen := &k.cfg.Scen[sc-1]
	var bb, fb bytes.Buffer
	for i := 0; i < scen.Lb; i++ {
		if err := w.hdr[i].Serialize(&bb); err != nil {
			return err
		}
	}
	fb.Write(hrGenFH[:])
	for i := 1; i < scen.Lf; i++ {
		fb.Write(w.fh[i][:])
	}
	if err := os.WriteFile(filepath.Join(k.dir, hrBFile), bb.Bytes(), 0o644); err != nil {
		return err
	}
	if err := os.WriteFile(filepath.Join(k.dir, hrFFile), fb.Bytes(), 0o644); err != nil {
		return err
	}
	err := walletdb.Update(k.db, func(tx walletdb.ReadWriteTx) error {
		root := tx.ReadWriteBucket(indexBucket)
		hs := make([]*chainhash.Hash, w.n)
		for i := range hs {
			hs[i] = &w.hash[i]
		}
		if err := deleteHeaderEntries(root, hs); err != nil {
			return err
		}
		for i := 0; i < scen.Lb; i++ {
			if err := putHeaderEntry(root, headerEntry{hash: w.hash[i], height: uint32(i)}); err != nil {
				return err
			}
		}
		if err := root.Put(bitcoinTip, w.hash[scen.Lb-1][:]); err != nil {
			return err
		}
		return root.Put(regFilterTip, w.hash[scen.Lf-1][:])
	})
	if err != nil {
		return err
	}
	e.sc, e.scen, e.wi, e.dumps = sc, scen, 0, 0
	e.cur, e.last = map[string]hrAct{}, map[string]hrEv{}
	return nil
}

// acquire hands out stores holding the initial lists of scenario sc: the
// previous path's if they are idle and read back right after a reset, freshly
// built ones otherwise.
func (k *hrWorker) acquire(sc int) (*hrEnv, error) {
	if sc < 1 || sc > len(k.cfg.Scen) {
		return nil, fmt.Errorf("unknown scenario %d", sc)
	}
	if e := k.env; e != nil {
		k.env = nil
		if e.state["R"] == "idle" && e.state["W"] == "idle" && e.reset(sc) == nil {
			o, want := e.observe(), k.initial(sc)
			if hrObsEq(&o, &want) {
				return e, nil
			}
		}
		e.discard()
	}
	k.builds++
	return k.build(sc)
}

// observe reads the media directly: own descriptors, unwrapped database.
func (e *hrEnv) observe() hrObs {
	w := e.k.w
	o := hrObs{Sc: e.sc, L0: []int{e.scen.Lb, e.scen.Lf}, FB: []int{}, FF: []int{}, Hof: make([]int, w.n),
		TB: hrNF, TF: hrNF, Rp: e.state["R"], Wp: e.state["W"]}
	if raw, err := os.ReadFile(filepath.Join(e.k.dir, hrBFile)); err == nil {
		for off := 0; off+80 <= len(raw); off += 80 {
			var h wire.BlockHeader
			if err := h.Deserialize(bytes.NewReader(raw[off : off+80])); err != nil {
				o.FB = append(o.FB, hrG)
			} else {
				o.FB = append(o.FB, w.idOfHeader(&h))
			}
		}
		if len(raw)%80 != 0 {
			o.FB = append(o.FB, hrG)
		}
	}
	if raw, err := os.ReadFile(filepath.Join(e.k.dir, hrFFile)); err == nil {
		for off := 0; off+32 <= len(raw); off += 32 {
			var h chainhash.Hash
			copy(h[:], raw[off:off+32])
			o.FF = append(o.FF, e.idOfFilter(&h))
		}
		if len(raw)%32 != 0 {
			o.FF = append(o.FF, hrG)
		}
	}
	_ = walletdb.View(e.k.db, func(tx walletdb.ReadTx) error {
		root := tx.ReadBucket(indexBucket)
		for i := 0; i < w.n; i++ {
			h, err := getHeaderEntry(root, w.hash[i][:])
			if err != nil {
				o.Hof[i] = hrNF
			} else {
				o.Hof[i] = int(h)
			}
		}
		tip := func(key []byte) int {
			v := root.Get(key)
			if v == nil {
				return hrNF
			}
			var h chainhash.Hash
			copy(h[:], v)
			if id, ok := w.byBH[h]; ok {
				return id
			}
			return hrG
		}
		o.TB, o.TF = tip(bitcoinTip), tip(regFilterTip)
		return nil
	})
	return o
}

var (
	hrGenFH     chainhash.Hash
	hrGenFHOnce sync.Once
)

// idOfFilter: the genesis filter header is whatever the store computed.
func (e *hrEnv) idOfFilter(h *chainhash.Hash) int {
	if *h == hrGenFH {
		return 0
	}
	return e.k.w.idOfFH(h)
}

// ---- the two goroutines -------------------------------------------------------------

func (e *hrEnv) doCall(c hrAct) (res string, val []int) {
	w := e.k.w
	res = "ok"
	defer func() {
		if r := recover(); r != nil {
			res, val = "panic", []int{hrERR}
		}
	}()
	blk := func(hs []wire.BlockHeader) []int {
		out := make([]int, len(hs))
		for i := range hs {
			out[i] = w.idOfHeader(&hs[i])
		}
		return out
	}
	switch c.Call {
	// ---- reads, block store
	case "FetchHeader":
		hd, ht, err := e.b.FetchHeader(&w.hash[c.Arg])
		if err != nil {
			return res, []int{hrNF, hrNF}
		}
		return res, []int{w.idOfHeader(hd), int(ht)}
	case "ByHeight":
		hd, err := e.b.FetchHeaderByHeight(uint32(c.Arg))
		if err != nil {
			return res, []int{hrNF}
		}
		return res, []int{w.idOfHeader(hd)}
	case "ChainTip":
		hd, ht, err := e.b.ChainTip()
		if err != nil {
			return res, []int{hrERR, hrERR}
		}
		return res, []int{w.idOfHeader(hd), int(ht)}
	case "HeightFromHash":
		ht, err := e.b.HeightFromHash(&w.hash[c.Arg])
		if err != nil {
			return res, []int{hrNF}
		}
		return res, []int{int(ht)}
	case "Ancestors":
		hs, start, err := e.b.FetchHeaderAncestors(uint32(c.N), &w.hash[c.Arg])
		if err != nil {
			return res, []int{hrERR}
		}
		return res, append([]int{int(start)}, blk(hs)...)
	case "Locator":
		loc, err := e.b.LatestBlockLocator()
		if err != nil {
			return res, []int{hrERR}
		}
		out := make([]int, len(loc))
		for i, h := range loc {
			if id, ok := w.byBH[*h]; ok {
				out[i] = id
			} else {
				out[i] = hrG
			}
		}
		return res, out
	// ---- reads, filter store
	case "FFetchHeader":
		fh, err := e.f.FetchHeader(&w.hash[c.Arg])
		if err != nil {
			return res, []int{hrNF}
		}
		return res, []int{e.idOfFilter(fh)}
	case "FByHeight":
		fh, err := e.f.FetchHeaderByHeight(uint32(c.Arg))
		if err != nil {
			return res, []int{hrNF}
		}
		return res, []int{e.idOfFilter(fh)}
	case "FChainTip":
		fh, ht, err := e.f.ChainTip()
		if err != nil {
			return res, []int{hrERR, hrERR}
		}
		return res, []int{e.idOfFilter(fh), int(ht)}
	case "FAncestors":
		hs, start, err := e.f.FetchHeaderAncestors(uint32(c.N), &w.hash[c.Arg])
		if err != nil {
			return res, []int{hrERR}
		}
		out := []int{int(start)}
		for i := range hs {
			out = append(out, e.idOfFilter(&hs[i]))
		}
		return res, out
	// ---- operations
	case "AppendB":
		hs := make([]BlockHeader, len(c.Batch))
		for j, id := range c.Batch {
			hs[j] = BlockHeader{BlockHeader: w.hdr[id], Height: uint32(c.N + j)}
		}
		if err := e.b.WriteHeaders(hs...); err != nil {
			res = "err"
		}
	case "RollbackB":
		if _, err := e.b.RollbackBlockHeaders(uint32(c.N)); err != nil {
			res = "err"
		}
	case "AppendF":
		hs := make([]FilterHeader, len(c.Batch))
		for j, id := range c.Batch {
			hs[j] = FilterHeader{HeaderHash: w.hash[id], FilterHash: w.fh[id], Height: uint32(c.N + j)}
		}
		if err := e.f.WriteHeaders(hs...); err != nil {
			res = "err"
		}
	case "RollbackF":
		if _, err := e.f.RollbackLastBlock(&w.hash[c.N]); err != nil {
			res = "err"
		}
	default:
		panic("unknown call " + c.Call)
	}
	return res, []int{}
}

func (e *hrEnv) start(p string) {
	gidc := make(chan string, 1)
	cmds := e.cmd[p]
	go func() {
		id := hrGid()
		e.g.mu.Lock()
		e.g.procs[id] = p
		e.g.mu.Unlock()
		gidc <- id
		for c := range cmds {
			res, val := e.doCall(c)
			e.g.ev <- hrEv{proc: p, kind: "ret", res: res, val: val}
		}
	}()
	e.gid[p] = <-gidc
}

// ---- where is a goroutine that is not at a gate? ------------------------------------

func (e *hrEnv) dump() []byte {
	e.dumps++
	k := e.k
	for {
		n := runtime.Stack(k.buf, true)
		if n < len(k.buf) {
			return k.buf[:n]
		}
		k.buf = make([]byte, 2*len(k.buf))
	}
}

func hrStackOf(dump []byte, gid string) []byte {
	tag := []byte("goroutine " + gid + " [")
	i := 0
	if !bytes.HasPrefix(dump, tag) {
		j := bytes.Index(dump, append([]byte("\n"), tag...))
		if j < 0 {
			return nil
		}
		i = j + 1
	}
	rest := dump[i:]
	if end := bytes.Index(rest, []byte("\n\n")); end >= 0 {
		rest = rest[:end]
	}
	return rest
}

// hrOnStoreMutex: the goroutine waits for a mutex and the function that called
// into package sync is a method of a headerfs store (not bbolt, not the driver).
func hrOnStoreMutex(stack []byte) bool {
	if stack == nil {
		return false
	}
	lines := strings.Split(string(stack), "\n")
	hd := lines[0]
	i, j := strings.IndexByte(hd, '['), strings.IndexByte(hd, ']')
	if i < 0 || j < i {
		return false
	}
	st := hd[i+1 : j]
	if !(strings.HasPrefix(st, "sync.RWMutex.RLock") || strings.HasPrefix(st, "sync.RWMutex.Lock") ||
		strings.HasPrefix(st, "sync.Mutex.Lock")) {
		return false
	}
	for _, ln := range lines[1:] {
		if ln == "" || ln[0] == '\t' {
			continue
		}
		if strings.HasPrefix(ln, "runtime.") || strings.HasPrefix(ln, "internal/") ||
			strings.HasPrefix(ln, "sync.") {
			continue
		}
		return strings.Contains(ln, "/headerfs.(*blockHeaderStore).") ||
			strings.Contains(ln, "/headerfs.(*filterHeaderStore).") ||
			strings.Contains(ln, "/headerfs.(*headerStore).")
	}
	return false
}

// parked: two consecutive dumps agree that the goroutine sits on a store mutex.
func (e *hrEnv) parked(p string) bool {
	for n := 0; n < 2; n++ {
		if !hrOnStoreMutex(hrStackOf(e.dump(), e.gid[p])) {
			return false
		}
	}
	return true
}

func (e *hrEnv) handle(ev hrEv) {
	if ev.kind == "gate" {
		e.state[ev.proc] = ev.name
	} else {
		e.state[ev.proc] = "idle"
		e.last[ev.proc] = ev
	}
}

var hrProcs = []string{"R", "W"}

// settle returns when every goroutine is at a gate, on a store mutex, or
// between two calls.
func (e *hrEnv) settle() error {
	recheck := map[string]bool{}
	for _, p := range hrProcs {
		if e.state[p] == "blk" {
			recheck[p] = true
		}
	}
	wait := 50 * time.Microsecond
	deadline := time.Now().Add(120 * time.Second)
	tm := time.NewTimer(time.Hour)
	defer tm.Stop()
	for {
		for drained := false; !drained; {
			select {
			case ev := <-e.g.ev:
				e.handle(ev)
			default:
				drained = true
			}
		}
		var running []string
		for _, p := range hrProcs {
			if e.state[p] == "run" {
				running = append(running, p)
			}
		}
		if len(running) > 0 {
			tm.Reset(wait)
			select {
			case ev := <-e.g.ev:
				e.handle(ev)
				continue
			case <-tm.C:
			}
			for _, p := range running {
				if e.parked(p) {
					select {
					case ev := <-e.g.ev: // raced with the dumps
						e.handle(ev)
					default:
						e.state[p] = "blk"
					}
				}
			}
			if wait < 2*time.Millisecond {
				wait *= 2
			}
			if time.Now().After(deadline) {
				return fmt.Errorf("goroutines did not settle: %v\n%s", e.state, e.dump())
			}
			continue
		}
		// nobody is running; a goroutine that sat on a mutex before may have
		// been let in by what the other one just did
		again := false
		for p := range recheck {
			delete(recheck, p)
			if e.state[p] == "blk" && !e.parked(p) {
				e.state[p] = "run"
				again = true
			}
		}
		if !again {
			return nil
		}
	}
}

// step releases goroutine p once.  want is the model's step (only its "start"
// information is used: which read to call).
func (e *hrEnv) step(p string, want hrAct, allowStart bool) (hrAct, error) {
	out := hrAct{Op: p, Ph: "step", Batch: []int{}, Val: []int{}}
	s := e.state[p]
	switch {
	case s == "blk":
		out.Pc = "skip"
		c := e.cur[p]
		out.Call, out.Arg, out.N, out.Batch = c.Call, c.Arg, c.N, c.Batch
		return out, nil
	case s == "idle":
		var c hrAct
		if p == "W" {
			if !allowStart || e.wi >= len(e.scen.Prog) {
				out.Pc = "skip"
				return out, nil
			}
			op := e.scen.Prog[e.wi]
			e.wi++
			c = hrAct{Call: op.Call, N: op.N, Batch: append([]int{}, op.Batch...)}
		} else {
			if !allowStart || want.Ph != "start" || want.Op != "R" {
				out.Pc = "skip"
				return out, nil
			}
			c = hrAct{Call: want.Call, Arg: want.Arg, N: want.N, Batch: []int{}}
		}
		if _, ok := e.gid[p]; !ok {
			e.start(p)
		}
		e.cur[p] = c
		out.Ph = "start"
		e.state[p] = "run"
		e.cmd[p] <- c
	default:
		e.state[p] = "run"
		e.g.rel[p] <- struct{}{}
	}
	if err := e.settle(); err != nil {
		return out, err
	}
	c := e.cur[p]
	out.Call, out.Arg, out.N, out.Batch = c.Call, c.Arg, c.N, c.Batch
	if out.Batch == nil {
		out.Batch = []int{}
	}
	switch ns := e.state[p]; ns {
	case "idle":
		out.Pc = "ret"
		out.Res = e.last[p].res
		if p == "R" {
			out.Val = e.last[p].val
		}
	default:
		out.Pc = ns
	}
	return out, nil
}

// untangle is clean-up after a path that ended in the recursive-read-lock
// deadlock (R inside LatestBlockLocator -> FetchHeaderByHeight waits in RLock
// behind the writer, the writer waits in Lock for R's outer read lock): so
// that the two goroutines are not left behind (every goroutine makes the
// dumps slower), the driver lends R's outer read lock to the writer
// (RUnlock), lets the writer finish its operation, takes the read lock back
// (RLock) and lets the read finish, whose two RUnlocks then balance.  Nothing
// of this is recorded or judged.  Anything unexpected: the goroutines stay.
func (e *hrEnv) untangle() {
	d := e.dump()
	rs, ws := string(hrStackOf(d, e.gid["R"])), string(hrStackOf(d, e.gid["W"]))
	if e.cur["R"].Call != "Locator" || !strings.Contains(rs, "[sync.RWMutex.RLock") ||
		!strings.Contains(rs, ").blockLocatorFromHash(") || !strings.Contains(rs, ").LatestBlockLocator(") ||
		!strings.Contains(ws, "[sync.RWMutex.Lock") || !strings.Contains(ws, "/headerfs.(*blockHeaderStore).") {
		return
	}
	e.b.mtx.RUnlock()
	e.state["W"] = "run"
	if e.settle() != nil {
		return
	}
	for n := 0; n < 64 && e.state["W"] != "idle" && e.state["W"] != "blk"; n++ {
		if _, err := e.step("W", hrAct{}, false); err != nil {
			return
		}
	}
	if e.state["W"] != "idle" || e.state["R"] == "blk" || e.state["R"] == "idle" {
		return
	}
	e.b.mtx.RLock()
	for n := 0; n < 64 && e.state["R"] != "idle" && e.state["R"] != "blk"; n++ {
		if _, err := e.step("R", hrAct{}, false); err != nil {
			return
		}
	}
}

func (e *hrEnv) stacks() string {
	d := e.dump()
	var sb strings.Builder
	for _, p := range hrProcs {
		if id, ok := e.gid[p]; ok && e.state[p] != "idle" {
			fmt.Fprintf(&sb, "%s (%s):\n%s\n", p, e.state[p], hrStackOf(d, id))
		}
	}
	return sb.String()
}

func hrRunPath(k *hrWorker, p hrPathIn) (out hrPathOut) {
	out.ID = p.ID
	out.Steps = []hrStepOut{}
	defer func() {
		if r := recover(); r != nil {
			buf := make([]byte, 8192)
			buf = buf[:runtime.Stack(buf, false)]
			out.Error = fmt.Sprintf("driver panic: %v\n%s", r, buf)
		}
	}()
	e, err := k.acquire(p.InitObs.Sc)
	if err != nil {
		out.Error = "build: " + err.Error()
		return
	}
	defer func() {
		out.Dumps = e.dumps
		if e.state["R"] == "blk" && e.state["W"] == "blk" {
			e.untangle()
		}
		if out.Error == "" && e.state["R"] == "idle" && e.state["W"] == "idle" {
			k.env = e // reusable
		} else {
			e.discard()
		}
	}()
	out.InitObs = e.observe()
	for i, s := range p.Steps {
		a, err := e.step(s.Act.Op, s.Act, true)
		if err != nil {
			out.Error = fmt.Sprintf("step %d: %v", i+1, err)
			return
		}
		out.Steps = append(out.Steps, hrStepOut{Act: a, Obs: e.observe()})
	}
	// The path is over: let the operation and the read that are under way run
	// to their end, the writer first; while a read is under way the writer
	// goes on with its program, so that what the schedule led to is seen.
	for n := 0; n < 256; n++ {
		progressed := false
		for _, q := range []string{"W", "R"} {
			if e.state[q] == "blk" {
				continue
			}
			if e.state[q] == "idle" &&
				(q == "R" || e.state["R"] == "idle" || e.wi >= len(e.scen.Prog)) {
				continue
			}
			a, err := e.step(q, hrAct{}, q == "W")
			if err != nil {
				out.Error = "drain: " + err.Error()
				return
			}
			out.Steps = append(out.Steps, hrStepOut{Act: a, Obs: e.observe(),
				Note: "path over, call run to its end"})
			progressed = true
			break
		}
		if !progressed {
			break
		}
	}
	if e.state["R"] != "idle" || e.state["W"] != "idle" {
		out.Stuck = fmt.Sprintf("R=%s W=%s\n%s", e.state["R"], e.state["W"], e.stacks())
	}
	return
}

func TestVerifHSRaceReplay(t *testing.T) {
	in, outFn := os.Getenv("VERIF_PATHS"), os.Getenv("VERIF_OUT")
	if in == "" || outFn == "" {
		t.Skip("VERIF_PATHS / VERIF_OUT not set")
	}
	scratch := os.Getenv("VERIF_SCRATCH")
	if scratch == "" {
		scratch = t.TempDir()
	}
	var cfg hrConfig
	raw, err := os.ReadFile(os.Getenv("VERIF_HSR_CONFIG"))
	if err != nil {
		t.Fatal(err)
	}
	if err := json.Unmarshal(raw, &cfg); err != nil {
		t.Fatal(err)
	}
	tmpl := filepath.Join(scratch, "hr-template")
	if err := os.MkdirAll(tmpl, 0o755); err != nil {
		t.Fatal(err)
	}
	if err := hrMakeTemplate(tmpl); err != nil {
		t.Fatal(err)
	}
	hrGenFHOnce.Do(func() {
		raw, err := os.ReadFile(filepath.Join(tmpl, hrFFile))
		if err != nil || len(raw) != 32 {
			t.Fatalf("template filter file: %v (%d bytes)", err, len(raw))
		}
		copy(hrGenFH[:], raw)
	})
	f, err := os.Open(in)
	if err != nil {
		t.Fatal(err)
	}
	defer f.Close()
	var paths []hrPathIn
	sc := bufio.NewScanner(f)
	sc.Buffer(make([]byte, 1<<20), 1<<28)
	for sc.Scan() {
		var p hrPathIn
		if err := json.Unmarshal(sc.Bytes(), &p); err != nil {
			t.Fatal(err)
		}
		paths = append(paths, p)
	}
	world := hrNewWorld(cfg.N)
	nw := 4
	if v, err := strconv.Atoi(os.Getenv("VERIF_HSR_WORKERS")); err == nil && v > 0 {
		nw = v
	}
	results := make([]hrPathOut, len(paths))
	var wg sync.WaitGroup
	jobs := make(chan int)
	errs := make(chan error, nw)
	for w := 0; w < nw; w++ {
		wg.Add(1)
		go func() {
			defer wg.Done()
			k, err := hrNewWorker(tmpl, scratch, world, &cfg)
			if err != nil {
				errs <- err
				for range jobs {
				}
				return
			}
			defer k.close()
			for i := range jobs {
				results[i] = hrRunPath(k, paths[i])
			}
		}()
	}
	for i := range paths {
		jobs <- i
	}
	close(jobs)
	wg.Wait()
	select {
	case err := <-errs:
		t.Fatal(err)
	default:
	}
	of, err := os.Create(outFn)
	if err != nil {
		t.Fatal(err)
	}
	bw := bufio.NewWriter(of)
	enc := json.NewEncoder(bw)
	for i := range results {
		if err := enc.Encode(&results[i]); err != nil {
			t.Fatal(err)
		}
	}
	bw.Flush()
	of.Close()
}
