package headerfs

// Replay driver for the HeaderStore family (C07, C08).  Injected into package
// headerfs at build time with `go test -overlay`; nothing is copied into
// /repo.  It executes paths of specs/HeaderStore/HeaderStore.tla against the
// real stores (real files, real bbolt) and records, after every step, what
// the public read API answers.  Faults and crashes are injected through the
// File and walletdb.DB interfaces the stores already use.

import (
	"bufio"
	"crypto/sha256"
	"encoding/binary"
	"encoding/json"
	"errors"
	"fmt"
	"io"
	"os"
	"path/filepath"
	"runtime"
	"sync"
	"testing"
	"time"

	"github.com/btcsuite/btcd/chaincfg/v2"
	"github.com/btcsuite/btcd/chainhash/v2"
	"github.com/btcsuite/btcd/wire/v2"
	"github.com/btcsuite/btcd/btcutil/v2/gcs/builder"
	"github.com/btcsuite/btcwallet/walletdb"
)

const (
	vNF  = -1
	vG   = -2
	vERR = -3
)

var errVfInjected = errors.New("verif: injected I/O error")

type vfCrash struct{}

// vfPlan says where the current store call stops.
type vfPlan struct {
	kind    string // none | w | idx | cw | c2
	sn      int
	fired   bool
	durable int
	updates int
}

func (p *vfPlan) arm(kind string, sn int) {
	p.kind, p.sn, p.fired, p.durable, p.updates = kind, sn, false, 0, 0
}

func (p *vfPlan) step() {
	p.durable++
	if p.kind == "c2" && p.durable == 2 && !p.fired {
		p.fired = true
		panic(vfCrash{})
	}
}

type vfFile struct {
	File
	p    *vfPlan
	half int
}

func (f *vfFile) Write(b []byte) (int, error) {
	f.p.step()
	if (f.p.kind == "w" || f.p.kind == "cw") && !f.p.fired {
		f.p.fired = true
		n := f.p.sn * f.half
		if n > len(b) {
			n = len(b)
		}
		if n > 0 {
			if _, err := f.File.Write(b[:n]); err != nil {
				panic(err)
			}
		}
		if f.p.kind == "cw" {
			panic(vfCrash{})
		}
		return n, errVfInjected
	}
	return f.File.Write(b)
}

func (f *vfFile) Truncate(sz int64) error {
	f.p.step()
	return f.File.Truncate(sz)
}

type vfDB struct {
	walletdb.DB
	p *vfPlan
}

func (d *vfDB) Update(f func(tx walletdb.ReadWriteTx) error, reset func()) error {
	d.p.step()
	if d.p.kind == "idx" && !d.p.fired {
		// sn = how many database updates of this call succeed first
		if d.p.updates < d.p.sn {
			d.p.updates++
			return d.DB.Update(f, reset)
		}
		d.p.fired = true
		return errVfInjected
	}
	return d.DB.Update(f, reset)
}

type vfAct struct {
	Op    string `json:"op"`
	Batch []int  `json:"batch"`
	N     int    `json:"n"`
	Stop  string `json:"stop"`
	Sn    int    `json:"sn"`
	Res   string `json:"res"`
}

type vfBObs struct {
	Tip    []int `json:"tip"`
	ByH    []int `json:"byH"`
	HOf    []int `json:"hOf"`
	ByHash []int `json:"byHash"`
	Anc    []int `json:"anc"`
	Loc    []int `json:"loc"`
	LocOf  [][]int `json:"locOf"`
}

type vfAux struct {
	Conn int `json:"conn"`
}

type vfFObs struct {
	Tip    []int `json:"tip"`
	ByH    []int `json:"byH"`
	ByHash []int `json:"byHash"`
	Anc    []int `json:"anc"`
}

type vfObs struct {
	Up int    `json:"up"`
	B  vfBObs `json:"B"`
	F  vfFObs `json:"F"`
	Aux vfAux `json:"aux"`
}

type vfStepIn struct {
	Act vfAct `json:"act"`
}

type vfPathIn struct {
	ID      int        `json:"id"`
	InitObs vfObs      `json:"init_obs"`
	Steps   []vfStepIn `json:"steps"`
}

type vfStepOut struct {
	Act  vfAct  `json:"act"`
	Obs  vfObs  `json:"obs"`
	Note string `json:"note,omitempty"`
}

type vfPathOut struct {
	ID      int         `json:"id"`
	InitObs vfObs       `json:"init_obs"`
	Steps   []vfStepOut `json:"steps"`
	Error   string      `json:"error,omitempty"`
}

type vfEnv struct {
	dir   string
	plan  *vfPlan
	db    walletdb.DB
	b     *blockHeaderStore
	f     *filterHeaderStore
	up    bool
	assertNext int
	n, h  int
	hdr   []*wire.BlockHeader
	hash  []chainhash.Hash
	fh    []chainhash.Hash
	byBH  map[chainhash.Hash]int
	byFH  map[chainhash.Hash]int
	absB  []int
	absF  []int
}

func vfCopy(src, dst string) error {
	in, err := os.Open(src)
	if err != nil {
		return err
	}
	defer in.Close()
	out, err := os.Create(dst)
	if err != nil {
		return err
	}
	if _, err := io.Copy(out, in); err != nil {
		out.Close()
		return err
	}
	return out.Close()
}

func vfMakeTemplate(dir string) error {
	db, err := walletdb.Create("bdb", filepath.Join(dir, "neutrino.db"), false, 10*time.Second, false)
	if err != nil {
		return err
	}
	defer db.Close()
	b, err := NewBlockHeaderStore(dir, db, &chaincfg.SimNetParams)
	if err != nil {
		return err
	}
	f, err := NewFilterHeaderStore(dir, db, RegularFilter, &chaincfg.SimNetParams, nil)
	if err != nil {
		return err
	}
	b.(*blockHeaderStore).file.Close()
	f.(*filterHeaderStore).file.Close()
	return nil
}

func (e *vfEnv) open() error {
	db, err := walletdb.Open("bdb", filepath.Join(e.dir, "neutrino.db"), false, 10*time.Second, false)
	if err != nil {
		return fmt.Errorf("db open: %w", err)
	}
	e.db = db
	pdb := &vfDB{DB: db, p: e.plan}
	e.plan.arm("none", 0)
	b, err := NewBlockHeaderStore(e.dir, pdb, &chaincfg.SimNetParams)
	if err != nil {
		e.closeAll()
		return fmt.Errorf("block store: %w", err)
	}
	e.b = b.(*blockHeaderStore)
	var assertion *FilterHeader
	switch e.assertNext {
	case 1:
		// a header state assertion that matches the stored genesis filter
		// header: start-up must behave exactly as without it
		assertion = &FilterHeader{Height: 0, FilterHash: e.fh[0]}
	case 2:
		// another filter header at the caller's filter tip height: the
		// filter store is reset
		assertion = &FilterHeader{Height: uint32(len(e.absF) - 1), FilterHash: sha256.Sum256([]byte("not stored"))}
	case 3:
		// a height the store does not have
		assertion = &FilterHeader{Height: uint32(len(e.absF)), FilterHash: sha256.Sum256([]byte("not stored"))}
	}
	e.assertNext = 0
	f, err := NewFilterHeaderStore(e.dir, pdb, RegularFilter, &chaincfg.SimNetParams, assertion)
	if err != nil {
		e.closeAll()
		return fmt.Errorf("filter store: %w", err)
	}
	e.f = f.(*filterHeaderStore)
	e.b.file = &vfFile{File: e.b.file, p: e.plan, half: 40}
	e.f.file = &vfFile{File: e.f.file, p: e.plan, half: 16}
	e.up = true
	return nil
}

func (e *vfEnv) closeAll() {
	if e.b != nil {
		e.b.file.Close()
		e.b = nil
	}
	if e.f != nil {
		e.f.file.Close()
		e.f = nil
	}
	if e.db != nil {
		e.db.Close()
		e.db = nil
	}
	e.up = false
}

// vfKeyPrefixes are the boundary classes of the index's hash-prefix
// sub-buckets (index.go: the first two hash bytes select one of 65536
// pre-created buckets): the non-genesis header ids get them in turn, so every
// model behaviour also exercises the first and the last sub-bucket.
var vfKeyPrefixes = [][2]byte{{0xff, 0xff}, {0x00, 0x00}, {0x00, 0xff}, {0xff, 0x00}, {0xff, 0xfe}, {0x80, 0x00}}

var vfNonceCache sync.Map

// vfGrindPrefix sets the nonce of header id so that its hash starts with the
// id's key prefix class.
func vfGrindPrefix(id int, h *wire.BlockHeader) {
	want := vfKeyPrefixes[(id-1)%len(vfKeyPrefixes)]
	if n, ok := vfNonceCache.Load(id); ok {
		h.Nonce = n.(uint32)
		return
	}
	for n := uint32(0); ; n++ {
		h.Nonce = n
		hash := h.BlockHash()
		if hash[0] == want[0] && hash[1] == want[1] {
			vfNonceCache.Store(id, n)
			return
		}
	}
}

func (e *vfEnv) mkIDs() {
	e.hdr = make([]*wire.BlockHeader, e.n)
	e.hash = make([]chainhash.Hash, e.n)
	e.fh = make([]chainhash.Hash, e.n)
	e.byBH = map[chainhash.Hash]int{}
	e.byFH = map[chainhash.Hash]int{}
	for i := 0; i < e.n; i++ {
		if i == 0 {
			e.hdr[0] = &chaincfg.SimNetParams.GenesisBlock.Header
		} else {
			var buf [4]byte
			binary.BigEndian.PutUint32(buf[:], uint32(i))
			e.hdr[i] = &wire.BlockHeader{
				Version:    1,
				PrevBlock:  e.hdr[i-1].BlockHash(), // id i is built on id i-1 (CheckConnectivity)
				MerkleRoot: sha256.Sum256(append([]byte("mr"), buf[:]...)),
				Timestamp:  time.Unix(1600000000+int64(i)*600, 0),
				Bits:       0x207fffff,
				Nonce:      uint32(i),
			}
			vfGrindPrefix(i, e.hdr[i])
			e.fh[i] = sha256.Sum256(append([]byte("fh"), buf[:]...))
		}
		e.hash[i] = e.hdr[i].BlockHash()
		e.byBH[e.hash[i]] = i
	}
	gf, err := builder.BuildBasicFilter(chaincfg.SimNetParams.GenesisBlock, nil)
	if err != nil {
		panic(err)
	}
	e.fh[0], err = builder.MakeHeaderForFilter(gf, chaincfg.SimNetParams.GenesisBlock.Header.PrevBlock)
	if err != nil {
		panic(err)
	}
	for i := range e.fh {
		e.byFH[e.fh[i]] = i
	}
}

// toLegacyLayout rewrites the index the way a version before the hash-prefix
// sub-buckets left it: every hash -> height entry directly in the root bucket.
func (e *vfEnv) toLegacyLayout() error {
	return walletdb.Update(e.db, func(tx walletdb.ReadWriteTx) error {
		root := tx.ReadWriteBucket(indexBucket)
		for i := range e.hash {
			h := e.hash[i]
			sub := root.NestedReadWriteBucket(h[0:numSubBucketBytes])
			if sub == nil {
				continue
			}
			v := sub.Get(h[:])
			if v == nil {
				continue
			}
			hv := append([]byte(nil), v...)
			if err := sub.Delete(h[:]); err != nil {
				return err
			}
			if err := root.Put(h[:], hv); err != nil {
				return err
			}
		}
		return nil
	})
}

func (e *vfEnv) idOfHeader(h *wire.BlockHeader) int {
	if id, ok := e.byBH[h.BlockHash()]; ok {
		return id
	}
	return vG
}

func (e *vfEnv) idOfFH(h *chainhash.Hash) int {
	if id, ok := e.byFH[*h]; ok {
		return id
	}
	return vG
}

func vfFill(n, v int) []int {
	s := make([]int, n)
	for i := range s {
		s[i] = v
	}
	return s
}

func (e *vfEnv) observe() vfObs {
	var o vfObs
	if !e.up {
		o.Up = 0
		o.B = vfBObs{Tip: []int{vERR, vERR}, ByH: vfFill(e.h, vERR), HOf: vfFill(e.n, vERR),
			ByHash: vfFill(e.n, vERR), Anc: []int{vERR}, Loc: []int{vERR}}
		o.B.LocOf = make([][]int, e.n)
		for i := range o.B.LocOf {
			o.B.LocOf[i] = []int{vERR}
		}
		o.F = vfFObs{Tip: []int{vERR, vERR}, ByH: vfFill(e.h, vERR), ByHash: vfFill(e.n, vERR),
			Anc: []int{vERR}}
		o.Aux.Conn = vERR
		return o
	}
	o.Up = 1
	// block store
	tipHdr, tipH, err := e.b.ChainTip()
	if err != nil {
		o.B.Tip = []int{vERR, vERR}
	} else {
		o.B.Tip = []int{e.idOfHeader(tipHdr), int(tipH)}
	}
	o.B.ByH = make([]int, e.h)
	for h := 0; h < e.h; h++ {
		hd, err := e.b.FetchHeaderByHeight(uint32(h))
		if err != nil {
			o.B.ByH[h] = vNF
		} else {
			o.B.ByH[h] = e.idOfHeader(hd)
		}
	}
	o.B.HOf = make([]int, e.n)
	o.B.ByHash = make([]int, e.n)
	for i := 0; i < e.n; i++ {
		ht, err := e.b.HeightFromHash(&e.hash[i])
		if err != nil {
			o.B.HOf[i] = vNF
		} else {
			o.B.HOf[i] = int(ht)
		}
		hd, _, err := e.b.FetchHeader(&e.hash[i])
		if err != nil {
			o.B.ByHash[i] = vNF
		} else {
			o.B.ByHash[i] = e.idOfHeader(hd)
		}
	}
	o.B.Anc = []int{vERR}
	if err == nil && tipHdr != nil {
		th := tipHdr.BlockHash()
		if hs, start, err := e.b.FetchHeaderAncestors(tipH, &th); err == nil && start == 0 {
			o.B.Anc = make([]int, len(hs))
			for i := range hs {
				o.B.Anc[i] = e.idOfHeader(&hs[i])
			}
		}
	}
	if tipHdr == nil {
		o.B.Anc = []int{vERR}
	}
	o.B.Loc = []int{vERR}
	if loc, err := e.b.LatestBlockLocator(); err == nil {
		o.B.Loc = make([]int, len(loc))
		for i, h := range loc {
			if id, ok := e.byBH[*h]; ok {
				o.B.Loc[i] = id
			} else {
				o.B.Loc[i] = vG
			}
		}
	}

	o.B.LocOf = make([][]int, e.n)
	for i := 0; i < e.n; i++ {
		o.B.LocOf[i] = []int{vERR}
		if loc, err := e.b.BlockLocatorFromHash(&e.hash[i]); err == nil {
			o.B.LocOf[i] = make([]int, len(loc))
			for k, h := range loc {
				if id, ok := e.byBH[*h]; ok {
					o.B.LocOf[i][k] = id
				} else {
					o.B.LocOf[i][k] = vG
				}
			}
		}
	}
	o.Aux.Conn = 0
	if err := e.b.CheckConnectivity(); err != nil {
		o.Aux.Conn = vERR
	}

	// filter store
	ftip, ftipH, ferr := e.f.ChainTip()
	if ferr != nil {
		o.F.Tip = []int{vERR, vERR}
	} else {
		o.F.Tip = []int{e.idOfFH(ftip), int(ftipH)}
	}
	o.F.ByH = make([]int, e.h)
	for h := 0; h < e.h; h++ {
		fh, err := e.f.FetchHeaderByHeight(uint32(h))
		if err != nil {
			o.F.ByH[h] = vNF
		} else {
			o.F.ByH[h] = e.idOfFH(fh)
		}
	}
	o.F.ByHash = make([]int, e.n)
	for i := 0; i < e.n; i++ {
		fh, err := e.f.FetchHeader(&e.hash[i])
		if err != nil {
			o.F.ByHash[i] = vNF
		} else {
			o.F.ByHash[i] = e.idOfFH(fh)
		}
	}
	o.F.Anc = []int{vERR}
	if ferr == nil && o.F.Tip[0] >= 0 {
		stop := e.hash[o.F.Tip[0]]
		if hs, start, err := e.f.FetchHeaderAncestors(ftipH, &stop); err == nil && start == 0 {
			o.F.Anc = make([]int, len(hs))
			for i := range hs {
				o.F.Anc[i] = e.idOfFH(&hs[i])
			}
		}
	}
	return o
}

// resync sets the caller's view of the two lists from what the stores report
// (what a restarting client does).
func (e *vfEnv) resync(o vfObs) {
	if o.Up != 1 {
		return
	}
	if o.B.Tip[1] >= 0 {
		e.absB = append([]int(nil), o.B.ByH[:min(o.B.Tip[1]+1, len(o.B.ByH))]...)
	}
	if o.F.Tip[1] >= 0 {
		e.absF = append([]int(nil), o.F.ByH[:min(o.F.Tip[1]+1, len(o.F.ByH))]...)
	}
}

// call runs one store call with the plan armed; returns ok/err/crash.
func (e *vfEnv) call(kind string, sn int, fn func() error) (res string) {
	e.plan.arm(kind, sn)
	defer func() {
		if r := recover(); r != nil {
			if _, ok := r.(vfCrash); ok {
				res = "crash"
				return
			}
			panic(r)
		}
	}()
	if err := fn(); err != nil {
		return "err"
	}
	return "ok"
}

func (e *vfEnv) exec(a vfAct) (vfAct, []vfStepOut) {
	kind := a.Stop
	switch a.Stop {
	case "cfile", "c1":
		kind = "c2"
	}
	var extra []vfStepOut
	out := a
	switch a.Op {
	case "AppendB":
		hs := make([]BlockHeader, len(a.Batch))
		for j, id := range a.Batch {
			hs[j] = BlockHeader{BlockHeader: e.hdr[id], Height: uint32(len(e.absB) + j)}
		}
		out.Res = e.call(kind, a.Sn, func() error { return e.b.WriteHeaders(hs...) })
		if out.Res == "ok" {
			e.absB = append(e.absB, a.Batch...)
		}
	case "AppendF":
		hs := make([]FilterHeader, len(a.Batch))
		for j, id := range a.Batch {
			hs[j] = FilterHeader{HeaderHash: e.hash[id], FilterHash: e.fh[id], Height: uint32(len(e.absF) + j)}
		}
		out.Res = e.call(kind, a.Sn, func() error { return e.f.WriteHeaders(hs...) })
		if out.Res == "ok" {
			e.absF = append(e.absF, a.Batch...)
		}
	case "RollbackB":
		out.Res = e.call(kind, a.Sn, func() error {
			_, err := e.b.RollbackBlockHeaders(uint32(a.N))
			return err
		})
		if out.Res == "ok" && a.N <= len(e.absB) {
			e.absB = e.absB[:len(e.absB)-a.N]
		}
	case "RollbackF":
		var newTip chainhash.Hash
		if len(e.absF) >= 2 && len(e.absB) >= len(e.absF)-1 {
			id := e.absB[len(e.absF)-2]
			if id >= 0 && id < e.n {
				newTip = e.hash[id]
			}
		}
		out.Res = e.call(kind, a.Sn, func() error {
			_, err := e.f.RollbackLastBlock(&newTip)
			return err
		})
		if out.Res == "ok" && len(e.absF) > 0 {
			e.absF = e.absF[:len(e.absF)-1]
		}
	case "Reopen", "Recover":
		e.closeAll()
		e.assertNext = a.N
		if err := e.open(); err != nil {
			out.Res = "err"
		} else {
			out.Res = "ok"
		}
	case "Legacy":
		if err := e.toLegacyLayout(); err != nil {
			panic(err)
		}
		out.Res = "ok"
	case "Crash":
		out.Res = "crash"
	default:
		panic("unknown op " + a.Op)
	}
	if out.Res == "crash" {
		// process death: descriptors vanish, nothing else is written
		e.closeAll()
	} else if a.Res == "crash" {
		// The planned crash point was not reached: the call ran to
		// completion. Dying right after it is a legitimate crash too.
		extra = append(extra, vfStepOut{Act: vfAct{Op: "Crash", Batch: []int{}, Stop: "none", Res: "crash"},
			Note: "planned stop " + a.Stop + " not reached"})
		e.closeAll()
	}
	return out, extra
}

func vfRunPath(tmpl string, p vfPathIn, scratch string) (out vfPathOut) {
	out.ID = p.ID
	dir, err := os.MkdirTemp(scratch, "p")
	if err != nil {
		out.Error = err.Error()
		return
	}
	defer os.RemoveAll(dir)
	for _, fn := range []string{"neutrino.db", "block_headers.bin", "reg_filter_headers.bin"} {
		if err := vfCopy(filepath.Join(tmpl, fn), filepath.Join(dir, fn)); err != nil {
			out.Error = err.Error()
			return
		}
	}
	e := &vfEnv{dir: dir, plan: &vfPlan{}, n: len(p.InitObs.B.HOf), h: len(p.InitObs.B.ByH),
		absB: []int{0}, absF: []int{0}}
	e.mkIDs()
	defer e.closeAll()
	defer func() {
		if r := recover(); r != nil {
			buf := make([]byte, 4096)
			buf = buf[:runtime.Stack(buf, false)]
			out.Error = fmt.Sprintf("driver panic: %v\n%s", r, buf)
		}
	}()
	if err := e.open(); err != nil {
		out.Error = "initial open: " + err.Error()
		return
	}
	out.InitObs = e.observe()
	for _, s := range p.Steps {
		if !e.up && s.Act.Op != "Recover" && s.Act.Op != "Reopen" {
			break // the model would not continue either (dead store)
		}
		a, extra := e.exec(s.Act)
		o := e.observe()
		if a.Batch == nil {
			a.Batch = []int{}
		}
		out.Steps = append(out.Steps, vfStepOut{Act: a, Obs: o})
		for _, x := range extra {
			x.Obs = o
			out.Steps = append(out.Steps, x)
		}
		if a.Op == "Recover" || a.Op == "Reopen" {
			e.resync(o)
		}
	}
	return
}

func (o *vfPathOut) lastObs() vfObs {
	if len(o.Steps) == 0 {
		return o.InitObs
	}
	return o.Steps[len(o.Steps)-1].Obs
}

func TestVerifHeaderStoreReplay(t *testing.T) {
	in, outFn := os.Getenv("VERIF_PATHS"), os.Getenv("VERIF_OUT")
	if in == "" || outFn == "" {
		t.Skip("VERIF_PATHS / VERIF_OUT not set")
	}
	scratch := os.Getenv("VERIF_SCRATCH")
	if scratch == "" {
		scratch = t.TempDir()
	}
	tmpl := filepath.Join(scratch, "template")
	if err := os.MkdirAll(tmpl, 0o755); err != nil {
		t.Fatal(err)
	}
	if err := vfMakeTemplate(tmpl); err != nil {
		t.Fatal(err)
	}
	f, err := os.Open(in)
	if err != nil {
		t.Fatal(err)
	}
	defer f.Close()
	var paths []vfPathIn
	sc := bufio.NewScanner(f)
	sc.Buffer(make([]byte, 1<<20), 1<<28)
	for sc.Scan() {
		var p vfPathIn
		if err := json.Unmarshal(sc.Bytes(), &p); err != nil {
			t.Fatal(err)
		}
		paths = append(paths, p)
	}
	results := make([]vfPathOut, len(paths))
	var wg sync.WaitGroup
	jobs := make(chan int)
	nw := runtime.NumCPU()
	for w := 0; w < nw; w++ {
		wg.Add(1)
		go func() {
			defer wg.Done()
			for i := range jobs {
				results[i] = vfRunPath(tmpl, paths[i], scratch)
			}
		}()
	}
	for i := range paths {
		jobs <- i
	}
	close(jobs)
	wg.Wait()
	of, err := os.Create(outFn)
	if err != nil {
		t.Fatal(err)
	}
	w := bufio.NewWriter(of)
	enc := json.NewEncoder(w)
	for i := range results {
		if err := enc.Encode(&results[i]); err != nil {
			t.Fatal(err)
		}
	}
	w.Flush()
	of.Close()
}
