package headerfs

// Replay driver for the HeaderStore family (C07, C08).  Injected into package
// headerfs at build time with `go test -overlay`; nothing is copied into
// /repo.  It executes paths of specs/HeaderStore/HeaderStore.tla against the
// real stores (real files, real bbolt) and records, after every step, what
// the public read API answers.  Faults and crashes are injected through the
// File and walletdb.DB interfaces the stores already use.

import (
	"bufio"
	"crypto/sha256"
	"encoding/binary"
	"encoding/json"
	"errors"
	"fmt"
	"io"
	"os"
	"path/filepath"
	"runtime"
	"sync"
	"testing"
	"time"

	"github.com/btcsuite/btcd/chaincfg/v2"
	"github.com/btcsuite/btcd/chainhash/v2"
	"github.com/btcsuite/btcd/wire/v2"
	"github.com/btcsuite/btcd/btcutil/v2/gcs/builder"
	"github.com/btcsuite/btcwallet/walletdb"
)

const (
	vNF  = -1
	vG   = -2
	vERR = -3
)

var errVfInjected = errors.New("verif: injected I/O error")

type vfCrash struct{}

// vfPlan says where the current store call stops.
type vfPlan struct {
	kind    string // none | w | idx | cw | c2 | cdb
	sn      int
	fired   bool
	durable int
	updates int
	commits int // database transactions COMMITTED by the current call
}

func (p *vfPlan) arm(kind string, sn int) {
	p.kind, p.sn, p.fired, p.durable, p.updates, p.commits = kind, sn, false, 0, 0, 0
}

func (p *vfPlan) step() {
	p.durable++
	if p.kind == "c2" && p.durable == 2 && !p.fired {
		p.fired = true
		panic(vfCrash{})
	}
}

type vfFile struct {
	File
	p    *vfPlan
	half int
}

func (f *vfFile) Write(b []byte) (int, error) {
	f.p.step()
	if (f.p.kind == "w" || f.p.kind == "cw") && !f.p.fired {
		f.p.fired = true
		n := f.p.sn * f.half
		if n > len(b) {
			n = len(b)
		}
		if n > 0 {
			if _, err := f.File.Write(b[:n]); err != nil {
				panic(err)
			}
		}
		if f.p.kind == "cw" {
			panic(vfCrash{})
		}
		return n, errVfInjected
	}
	return f.File.Write(b)
}

func (f *vfFile) Truncate(sz int64) error {
	f.p.step()
	return f.File.Truncate(sz)
}

type vfDB struct {
	walletdb.DB
	p *vfPlan
}

func (d *vfDB) Update(f func(tx walletdb.ReadWriteTx) error, reset func()) error {
	d.p.step()
	if d.p.kind == "idx" && !d.p.fired {
		// sn = how many database updates of this call succeed first
		if d.p.updates < d.p.sn {
			d.p.updates++
			return d.commit(f, reset)
		}
		d.p.fired = true
		return errVfInjected
	}
	return d.commit(f, reset)
}

// commit runs the transaction for real and counts it; with the plan "cdb sn"
// the process dies right after the sn-th commit of the call became durable.
func (d *vfDB) commit(f func(tx walletdb.ReadWriteTx) error, reset func()) error {
	err := d.DB.Update(f, reset)
	if err == nil {
		d.p.commits++
		if d.p.kind == "cdb" && !d.p.fired && d.p.commits == d.p.sn {
			d.p.fired = true
			panic(vfCrash{})
		}
	}
	return err
}

type vfAct struct {
	Op    string `json:"op"`
	Batch []int  `json:"batch"`
	N     int    `json:"n"`
	Stop  string `json:"stop"`
	Sn    int    `json:"sn"`
	Res   string `json:"res"`
	Nc    int    `json:"nc"` // database commits made by the call
	Sc    int    `json:"sc"` // batch-size class: real headers per header id (0 = 1)
}

type vfBObs struct {
	Tip    []int `json:"tip"`
	ByH    []int `json:"byH"`
	HOf    []int `json:"hOf"`
	ByHash []int `json:"byHash"`
	Anc    []int `json:"anc"`
	Loc    []int `json:"loc"`
	LocOf  [][]int `json:"locOf"`
}

type vfAux struct {
	Conn int `json:"conn"`
}

type vfFObs struct {
	Tip    []int `json:"tip"`
	ByH    []int `json:"byH"`
	ByHash []int `json:"byHash"`
	Anc    []int `json:"anc"`
}

type vfObs struct {
	Up int    `json:"up"`
	B  vfBObs `json:"B"`
	F  vfFObs `json:"F"`
	Aux vfAux `json:"aux"`
}

type vfStepIn struct {
	Act vfAct `json:"act"`
}

type vfPathIn struct {
	ID      int        `json:"id"`
	InitObs vfObs      `json:"init_obs"`
	Steps   []vfStepIn `json:"steps"`
}

type vfStepOut struct {
	Act  vfAct  `json:"act"`
	Obs  vfObs  `json:"obs"`
	Note string `json:"note,omitempty"`
}

type vfPathOut struct {
	ID      int         `json:"id"`
	InitObs vfObs       `json:"init_obs"`
	Steps   []vfStepOut `json:"steps"`
	Error   string      `json:"error,omitempty"`
}

type vfEnv struct {
	dir   string
	plan  *vfPlan
	db    walletdb.DB
	b     *blockHeaderStore
	f     *filterHeaderStore
	up    bool
	assertNext int
	n, h  int
	s     int // real headers per header id >= 1 (spec constant Scale)
	u     *vfUni
	absB  []int
	absF  []int
}

func vfCopy(src, dst string) error {
	in, err := os.Open(src)
	if err != nil {
		return err
	}
	defer in.Close()
	out, err := os.Create(dst)
	if err != nil {
		return err
	}
	if _, err := io.Copy(out, in); err != nil {
		out.Close()
		return err
	}
	return out.Close()
}

func vfMakeTemplate(dir string) error {
	db, err := walletdb.Create("bdb", filepath.Join(dir, "neutrino.db"), false, 10*time.Second, false)
	if err != nil {
		return err
	}
	defer db.Close()
	b, err := NewBlockHeaderStore(dir, db, &chaincfg.SimNetParams)
	if err != nil {
		return err
	}
	f, err := NewFilterHeaderStore(dir, db, RegularFilter, &chaincfg.SimNetParams, nil)
	if err != nil {
		return err
	}
	b.(*blockHeaderStore).file.Close()
	f.(*filterHeaderStore).file.Close()
	return nil
}

func (e *vfEnv) open() error {
	db, err := walletdb.Open("bdb", filepath.Join(e.dir, "neutrino.db"), false, 10*time.Second, false)
	if err != nil {
		return fmt.Errorf("db open: %w", err)
	}
	e.db = db
	pdb := &vfDB{DB: db, p: e.plan}
	e.plan.arm("none", 0)
	b, err := NewBlockHeaderStore(e.dir, pdb, &chaincfg.SimNetParams)
	if err != nil {
		e.closeAll()
		return fmt.Errorf("block store: %w", err)
	}
	e.b = b.(*blockHeaderStore)
	var assertion *FilterHeader
	switch e.assertNext {
	case 1:
		// a header state assertion that matches the stored genesis filter
		// header: start-up must behave exactly as without it
		assertion = &FilterHeader{Height: 0, FilterHash: e.u.fh[0][0]}
	case 2:
		// another filter header at the caller's filter tip height: the
		// filter store is reset
		assertion = &FilterHeader{Height: uint32(e.realLen(len(e.absF)) - 1), FilterHash: sha256.Sum256([]byte("not stored"))}
	case 3:
		// a height the store does not have
		assertion = &FilterHeader{Height: uint32(e.realLen(len(e.absF))), FilterHash: sha256.Sum256([]byte("not stored"))}
	}
	e.assertNext = 0
	f, err := NewFilterHeaderStore(e.dir, pdb, RegularFilter, &chaincfg.SimNetParams, assertion)
	if err != nil {
		e.closeAll()
		return fmt.Errorf("filter store: %w", err)
	}
	e.f = f.(*filterHeaderStore)
	e.b.file = &vfFile{File: e.b.file, p: e.plan, half: 40 * e.s}
	e.f.file = &vfFile{File: e.f.file, p: e.plan, half: 16 * e.s}
	e.up = true
	return nil
}

func (e *vfEnv) closeAll() {
	if e.b != nil {
		e.b.file.Close()
		e.b = nil
	}
	if e.f != nil {
		e.f.file.Close()
		e.f = nil
	}
	if e.db != nil {
		e.db.Close()
		e.db = nil
	}
	e.up = false
}

// vfKeyPrefixes are the boundary classes of the index's hash-prefix
// sub-buckets (index.go: the first two hash bytes select one of 65536
// pre-created buckets): the non-genesis header ids get them in turn, so every
// model behaviour also exercises the first and the last sub-bucket.
var vfKeyPrefixes = [][2]byte{{0xff, 0xff}, {0x00, 0x00}, {0x00, 0xff}, {0xff, 0x00}, {0xff, 0xfe}, {0x80, 0x00}}

var vfNonceCache sync.Map

// vfGrindPrefix sets the nonce of the first header of id so that its hash
// starts with the id's key prefix class.
func vfGrindPrefix(scale, id int, h *wire.BlockHeader) {
	want := vfKeyPrefixes[(id-1)%len(vfKeyPrefixes)]
	key := [2]int{scale, id}
	if n, ok := vfNonceCache.Load(key); ok {
		h.Nonce = n.(uint32)
		return
	}
	for n := uint32(0); ; n++ {
		h.Nonce = n
		hash := h.BlockHash()
		if hash[0] == want[0] && hash[1] == want[1] {
			vfNonceCache.Store(key, n)
			return
		}
	}
}

// vfUni is the universe of headers: header id 0 is the genesis header; every
// id i >= 1 stands for a RUN of s consecutive real headers (spec constant
// Scale; s = 1: one header).  The first header of run i is built on the last
// one of run i-1.  headerfs does not validate proof of work, so the members of
// a run need no mining (only the first one is ground into its key prefix
// class).  Universes are built once and shared read-only by all paths.
type vfUni struct {
	n, s int
	hdr  [][]*wire.BlockHeader
	hash [][]chainhash.Hash
	fh   [][]chainhash.Hash
	byBH map[chainhash.Hash][2]int // block hash -> (id, member)
	byFH map[chainhash.Hash][2]int // filter header -> (id, member)
}

var (
	vfUniMu sync.Mutex
	vfUnis  = map[[2]int]*vfUni{}
)

func vfUniverse(n, s int) *vfUni {
	vfUniMu.Lock()
	defer vfUniMu.Unlock()
	if u, ok := vfUnis[[2]int{n, s}]; ok {
		return u
	}
	u := &vfUni{n: n, s: s, hdr: make([][]*wire.BlockHeader, n), hash: make([][]chainhash.Hash, n),
		fh: make([][]chainhash.Hash, n), byBH: map[chainhash.Hash][2]int{}, byFH: map[chainhash.Hash][2]int{}}
	u.hdr[0] = []*wire.BlockHeader{&chaincfg.SimNetParams.GenesisBlock.Header}
	u.hash[0] = []chainhash.Hash{u.hdr[0][0].BlockHash()}
	gf, err := builder.BuildBasicFilter(chaincfg.SimNetParams.GenesisBlock, nil)
	if err != nil {
		panic(err)
	}
	gfh, err := builder.MakeHeaderForFilter(gf, chaincfg.SimNetParams.GenesisBlock.Header.PrevBlock)
	if err != nil {
		panic(err)
	}
	u.fh[0] = []chainhash.Hash{gfh}
	prev := u.hash[0][0]
	for i := 1; i < n; i++ {
		u.hdr[i] = make([]*wire.BlockHeader, s)
		u.hash[i] = make([]chainhash.Hash, s)
		u.fh[i] = make([]chainhash.Hash, s)
		for j := 0; j < s; j++ {
			var buf [4]byte
			binary.BigEndian.PutUint32(buf[:], uint32(i))
			seed := buf[:]
			if j > 0 {
				var jb [4]byte
				binary.BigEndian.PutUint32(jb[:], uint32(j))
				seed = append(append([]byte(nil), buf[:]...), jb[:]...)
			}
			h := &wire.BlockHeader{
				Version:    1,
				PrevBlock:  prev, // built on the previous header (CheckConnectivity)
				MerkleRoot: sha256.Sum256(append([]byte("mr"), seed...)),
				Timestamp:  time.Unix(1600000000+int64((i-1)*s+j+1)*600, 0),
				Bits:       0x207fffff,
				Nonce:      uint32(i + j),
			}
			if j == 0 {
				vfGrindPrefix(s, i, h)
			}
			u.hdr[i][j] = h
			u.hash[i][j] = h.BlockHash()
			u.fh[i][j] = sha256.Sum256(append([]byte("fh"), seed...))
			prev = u.hash[i][j]
		}
	}
	for i := range u.hash {
		for j := range u.hash[i] {
			u.byBH[u.hash[i][j]] = [2]int{i, j}
			u.byFH[u.fh[i][j]] = [2]int{i, j}
		}
	}
	vfUnis[[2]int{n, s}] = u
	return u
}

// sz is the number of real headers header id stands for.
func (e *vfEnv) sz(id int) int {
	if id == 0 {
		return 1
	}
	return e.s
}

// runLen is the number of real heights model height m stands for.
func (e *vfEnv) runLen(m int) int {
	if m == 0 {
		return 1
	}
	return e.s
}

// realH is the real height of member j of the run stored at model height m.
func (e *vfEnv) realH(m, j int) int {
	if m == 0 {
		return 0
	}
	return (m-1)*e.s + 1 + j
}

// posOf is the model height and the position within its run of a real height.
func (e *vfEnv) posOf(r int) (int, int) {
	if r <= 0 {
		return 0, 0
	}
	return (r-1)/e.s + 1, (r - 1) % e.s
}

// realLen is the number of real entries of a list of modelLen ids.
func (e *vfEnv) realLen(modelLen int) int {
	if modelLen <= 0 {
		return 0
	}
	return 1 + (modelLen-1)*e.s
}

// toLegacyLayout rewrites the index the way a version before the hash-prefix
// sub-buckets left it: every hash -> height entry directly in the root bucket.
func (e *vfEnv) toLegacyLayout() error {
	return walletdb.Update(e.db, func(tx walletdb.ReadWriteTx) error {
		root := tx.ReadWriteBucket(indexBucket)
		for i := range e.u.hash {
			for j := range e.u.hash[i] {
				h := e.u.hash[i][j]
				sub := root.NestedReadWriteBucket(h[0:numSubBucketBytes])
				if sub == nil {
					continue
				}
				v := sub.Get(h[:])
				if v == nil {
					continue
				}
				hv := append([]byte(nil), v...)
				if err := sub.Delete(h[:]); err != nil {
					return err
				}
				if err := root.Put(h[:], hv); err != nil {
					return err
				}
			}
		}
		return nil
	})
}

// vfAns is what one member of a run answered: nothing (not found / error), or
// a value (header id or model height) and the position within its run.
type vfAns struct {
	found bool
	v, j  int
}

func (e *vfEnv) ansB(h *wire.BlockHeader) vfAns {
	if x, ok := e.u.byBH[h.BlockHash()]; ok {
		return vfAns{true, x[0], x[1]}
	}
	return vfAns{true, vG, 0}
}

func (e *vfEnv) ansF(h *chainhash.Hash) vfAns {
	if x, ok := e.u.byFH[*h]; ok {
		return vfAns{true, x[0], x[1]}
	}
	return vfAns{true, vG, 0}
}

// vfAbsRun is the abstraction of the answers of all members of a run: not
// found if none of them is, the common value if member k answered (v, k) for
// every k, else G (the members do not answer alike: no model value stands for
// it).  With runs of one header this is the answer itself.
func vfAbsRun(a []vfAns) int {
	nf := 0
	for _, x := range a {
		if !x.found {
			nf++
		}
	}
	if nf == len(a) {
		return vNF
	}
	if nf > 0 {
		return vG
	}
	for k, x := range a {
		if x.v != a[0].v || x.v < 0 || x.j != k {
			return vG
		}
	}
	return a[0].v
}

// absSeq abstracts a sequence of per-real-height answers starting at height 0.
func (e *vfEnv) absSeq(a []vfAns) []int {
	if len(a) == 0 {
		return []int{}
	}
	if (len(a)-1)%e.s != 0 {
		return []int{vG}
	}
	out := []int{vfAbsRun(a[:1])}
	for k := 1; k < len(a); k += e.s {
		out = append(out, vfAbsRun(a[k:k+e.s]))
	}
	return out
}

func vfFill(n, v int) []int {
	s := make([]int, n)
	for i := range s {
		s[i] = v
	}
	return s
}

// vfLocHeights are the heights below start a block locator names (the standard
// algorithm: ten single steps, then doubling steps, genesis last).
func vfLocHeights(start int) []int {
	var hs []int
	h, dec, n := start, 1, 1
	for h > 0 && n < wire.MaxBlockLocatorsPerMsg {
		if n > 10 {
			dec *= 2
		}
		if dec > h {
			h = 0
		} else {
			h -= dec
		}
		hs = append(hs, h)
		n++
	}
	return hs
}

// locIDs projects a locator hash by hash (runs of one header).
func (e *vfEnv) locIDs(loc []*chainhash.Hash) []int {
	out := make([]int, len(loc))
	for i, h := range loc {
		if x, ok := e.u.byBH[*h]; ok {
			out[i] = x[0]
		} else {
			out[i] = vG
		}
	}
	return out
}

// absLoc abstracts a locator that starts at real height start (known = the
// index has the first hash) to run level: the id of its first hash followed by
// the ids stored below the start's model height, provided every hash of the
// locator is the header the by-height reads return at the height the locator
// algorithm names; G otherwise.
func (e *vfEnv) absLoc(loc []*chainhash.Hash, known bool, start int, byH []int) []int {
	if e.s == 1 {
		return e.locIDs(loc)
	}
	if len(loc) == 0 {
		return []int{}
	}
	x0 := vG
	if x, ok := e.u.byBH[*loc[0]]; ok {
		x0 = x[0]
	}
	if !known || start == 0 {
		if len(loc) == 1 {
			return []int{x0}
		}
		return []int{vG}
	}
	hs := vfLocHeights(start)
	if len(loc)-1 != len(hs) {
		return []int{vG}
	}
	for k, r := range hs {
		x, ok := e.u.byBH[*loc[k+1]]
		m, pj := e.posOf(r)
		if !ok || x[1] != pj || m >= len(byH) || byH[m] != x[0] {
			return []int{vG}
		}
	}
	m0, _ := e.posOf(start)
	out := []int{x0}
	for m := m0 - 1; m >= 0; m-- {
		if m >= len(byH) {
			return []int{vG}
		}
		out = append(out, byH[m])
	}
	return out
}

// locMembers: the members of a run whose locators are read (all of them for
// runs of one header; first, last and the ones around the 2000th for runs).
func (e *vfEnv) locMembers(id int) []int {
	n := e.sz(id)
	var ms []int
	for _, j := range []int{0, 1999, 2000, n - 1} {
		if j >= 0 && j < n && (len(ms) == 0 || ms[len(ms)-1] < j) {
			ms = append(ms, j)
		}
	}
	return ms
}

func vfSameInts(a, b []int) bool {
	if len(a) != len(b) {
		return false
	}
	for i := range a {
		if a[i] != b[i] {
			return false
		}
	}
	return true
}

func (e *vfEnv) observe() vfObs {
	var o vfObs
	if !e.up {
		o.Up = 0
		o.B = vfBObs{Tip: []int{vERR, vERR}, ByH: vfFill(e.h, vERR), HOf: vfFill(e.n, vERR),
			ByHash: vfFill(e.n, vERR), Anc: []int{vERR}, Loc: []int{vERR}}
		o.B.LocOf = make([][]int, e.n)
		for i := range o.B.LocOf {
			o.B.LocOf[i] = []int{vERR}
		}
		o.F = vfFObs{Tip: []int{vERR, vERR}, ByH: vfFill(e.h, vERR), ByHash: vfFill(e.n, vERR),
			Anc: []int{vERR}}
		o.Aux.Conn = vERR
		return o
	}
	o.Up = 1
	// block store
	tipHdr, tipH, err := e.b.ChainTip()
	if err != nil {
		o.B.Tip = []int{vERR, vERR}
	} else {
		// the tip of a list of runs is the LAST header of a run, at the last
		// height of a run
		idp, hp := vG, vG
		if x, ok := e.u.byBH[tipHdr.BlockHash()]; ok && x[1] == e.sz(x[0])-1 {
			idp = x[0]
		}
		if m, pj := e.posOf(int(tipH)); pj == e.runLen(m)-1 {
			hp = m
		}
		o.B.Tip = []int{idp, hp}
	}
	o.B.ByH = make([]int, e.h)
	for m := 0; m < e.h; m++ {
		a := make([]vfAns, e.runLen(m))
		for j := range a {
			if hd, err := e.b.FetchHeaderByHeight(uint32(e.realH(m, j))); err == nil {
				a[j] = e.ansB(hd)
			}
		}
		o.B.ByH[m] = vfAbsRun(a)
	}
	// hash lookups of EVERY real hash of the universe
	o.B.HOf = make([]int, e.n)
	o.B.ByHash = make([]int, e.n)
	for i := 0; i < e.n; i++ {
		ah := make([]vfAns, e.sz(i))
		ab := make([]vfAns, e.sz(i))
		for j := range ah {
			if ht, err := e.b.HeightFromHash(&e.u.hash[i][j]); err == nil {
				m, pj := e.posOf(int(ht))
				ah[j] = vfAns{true, m, pj}
			}
			if hd, _, err := e.b.FetchHeader(&e.u.hash[i][j]); err == nil {
				ab[j] = e.ansB(hd)
			}
		}
		o.B.HOf[i] = vfAbsRun(ah)
		o.B.ByHash[i] = vfAbsRun(ab)
	}
	o.B.Anc = []int{vERR}
	if err == nil && tipHdr != nil {
		th := tipHdr.BlockHash()
		if hs, start, err := e.b.FetchHeaderAncestors(tipH, &th); err == nil && start == 0 {
			a := make([]vfAns, len(hs))
			for i := range hs {
				a[i] = e.ansB(&hs[i])
			}
			o.B.Anc = e.absSeq(a)
		}
	}
	if tipHdr == nil {
		o.B.Anc = []int{vERR}
	}
	o.B.Loc = []int{vERR}
	if loc, lerr := e.b.LatestBlockLocator(); lerr == nil {
		o.B.Loc = e.absLoc(loc, err == nil, int(tipH), o.B.ByH)
	}

	o.B.LocOf = make([][]int, e.n)
	for i := 0; i < e.n; i++ {
		o.B.LocOf[i] = nil
		for _, j := range e.locMembers(i) {
			l := []int{vERR}
			if loc, lerr := e.b.BlockLocatorFromHash(&e.u.hash[i][j]); lerr == nil {
				ht, herr := e.b.HeightFromHash(&e.u.hash[i][j])
				l = e.absLoc(loc, herr == nil, int(ht), o.B.ByH)
			}
			if o.B.LocOf[i] == nil {
				o.B.LocOf[i] = l
			} else if !vfSameInts(o.B.LocOf[i], l) {
				o.B.LocOf[i] = []int{vG}
			}
		}
	}
	o.Aux.Conn = 0
	if err := e.b.CheckConnectivity(); err != nil {
		o.Aux.Conn = vERR
	}

	// filter store
	ftip, ftipH, ferr := e.f.ChainTip()
	ftipID := -1
	if ferr != nil {
		o.F.Tip = []int{vERR, vERR}
	} else {
		idp, hp := vG, vG
		if x, ok := e.u.byFH[*ftip]; ok && x[1] == e.sz(x[0])-1 {
			idp, ftipID = x[0], x[0]
		}
		if m, pj := e.posOf(int(ftipH)); pj == e.runLen(m)-1 {
			hp = m
		}
		o.F.Tip = []int{idp, hp}
	}
	o.F.ByH = make([]int, e.h)
	for m := 0; m < e.h; m++ {
		a := make([]vfAns, e.runLen(m))
		for j := range a {
			if fh, err := e.f.FetchHeaderByHeight(uint32(e.realH(m, j))); err == nil {
				a[j] = e.ansF(fh)
			}
		}
		o.F.ByH[m] = vfAbsRun(a)
	}
	o.F.ByHash = make([]int, e.n)
	for i := 0; i < e.n; i++ {
		a := make([]vfAns, e.sz(i))
		for j := range a {
			if fh, err := e.f.FetchHeader(&e.u.hash[i][j]); err == nil {
				a[j] = e.ansF(fh)
			}
		}
		o.F.ByHash[i] = vfAbsRun(a)
	}
	o.F.Anc = []int{vERR}
	if ferr == nil && ftipID >= 0 {
		stop := e.u.hash[ftipID][e.sz(ftipID)-1]
		if hs, start, err := e.f.FetchHeaderAncestors(ftipH, &stop); err == nil && start == 0 {
			a := make([]vfAns, len(hs))
			for i := range hs {
				a[i] = e.ansF(&hs[i])
			}
			o.F.Anc = e.absSeq(a)
		}
	}
	return o
}

// resync sets the caller's view of the two lists from what the stores report
// (what a restarting client does).
func (e *vfEnv) resync(o vfObs) {
	if o.Up != 1 {
		return
	}
	if o.B.Tip[1] >= 0 {
		e.absB = append([]int(nil), o.B.ByH[:min(o.B.Tip[1]+1, len(o.B.ByH))]...)
	}
	if o.F.Tip[1] >= 0 {
		e.absF = append([]int(nil), o.F.ByH[:min(o.F.Tip[1]+1, len(o.F.ByH))]...)
	}
}

// call runs one store call with the plan armed; returns ok/err/crash.
func (e *vfEnv) call(kind string, sn int, fn func() error) (res string) {
	e.plan.arm(kind, sn)
	defer func() {
		if r := recover(); r != nil {
			if _, ok := r.(vfCrash); ok {
				res = "crash"
				return
			}
			panic(r)
		}
	}()
	if err := fn(); err != nil {
		return "err"
	}
	return "ok"
}

func (e *vfEnv) exec(a vfAct) (vfAct, []vfStepOut) {
	kind := a.Stop
	switch a.Stop {
	case "cfile", "c1":
		kind = "c2"
	}
	var extra []vfStepOut
	out := a
	out.Nc = 0
	switch a.Op {
	case "AppendB":
		// ONE WriteHeaders call with every real header of every id of the batch
		var hs []BlockHeader
		base := e.realLen(len(e.absB))
		for _, id := range a.Batch {
			for j := 0; j < e.sz(id); j++ {
				hs = append(hs, BlockHeader{BlockHeader: e.u.hdr[id][j], Height: uint32(base + len(hs))})
			}
		}
		out.Res = e.call(kind, a.Sn, func() error { return e.b.WriteHeaders(hs...) })
		out.Nc = e.plan.commits
		if out.Res == "ok" {
			e.absB = append(e.absB, a.Batch...)
		}
	case "AppendF":
		var hs []FilterHeader
		base := e.realLen(len(e.absF))
		for _, id := range a.Batch {
			for j := 0; j < e.sz(id); j++ {
				hs = append(hs, FilterHeader{HeaderHash: e.u.hash[id][j], FilterHash: e.u.fh[id][j],
					Height: uint32(base + len(hs))})
			}
		}
		out.Res = e.call(kind, a.Sn, func() error { return e.f.WriteHeaders(hs...) })
		out.Nc = e.plan.commits
		if out.Res == "ok" {
			e.absF = append(e.absF, a.Batch...)
		}
	case "RollbackB":
		out.Res = e.call(kind, a.Sn, func() error {
			_, err := e.b.RollbackBlockHeaders(uint32(a.N * e.s))
			return err
		})
		out.Nc = e.plan.commits
		if out.Res == "ok" && a.N <= len(e.absB) {
			e.absB = e.absB[:len(e.absB)-a.N]
		}
	case "RollbackF":
		if e.s != 1 {
			panic("RollbackF removes one real filter header: not a step of a model with Scale > 1")
		}
		var newTip chainhash.Hash
		if len(e.absF) >= 2 && len(e.absB) >= len(e.absF)-1 {
			id := e.absB[len(e.absF)-2]
			if id >= 0 && id < e.n {
				newTip = e.u.hash[id][0]
			}
		}
		out.Res = e.call(kind, a.Sn, func() error {
			_, err := e.f.RollbackLastBlock(&newTip)
			return err
		})
		out.Nc = e.plan.commits
		if out.Res == "ok" && len(e.absF) > 0 {
			e.absF = e.absF[:len(e.absF)-1]
		}
	case "Reopen", "Recover":
		e.closeAll()
		e.assertNext = a.N
		if err := e.open(); err != nil {
			out.Res = "err"
		} else {
			out.Res = "ok"
		}
	case "Legacy":
		if err := e.toLegacyLayout(); err != nil {
			panic(err)
		}
		out.Res = "ok"
	case "Crash":
		out.Res = "crash"
	default:
		panic("unknown op " + a.Op)
	}
	if out.Res == "crash" {
		// process death: descriptors vanish, nothing else is written
		e.closeAll()
	} else if a.Res == "crash" {
		// The planned crash point was not reached: the call ran to
		// completion. Dying right after it is a legitimate crash too.
		extra = append(extra, vfStepOut{Act: vfAct{Op: "Crash", Batch: []int{}, Stop: "none", Res: "crash"},
			Note: "planned stop " + a.Stop + " not reached"})
		e.closeAll()
	}
	return out, extra
}

func vfRunPath(tmpl string, p vfPathIn, scratch string) (out vfPathOut) {
	out.ID = p.ID
	dir, err := os.MkdirTemp(scratch, "p")
	if err != nil {
		out.Error = err.Error()
		return
	}
	defer os.RemoveAll(dir)
	for _, fn := range []string{"neutrino.db", "block_headers.bin", "reg_filter_headers.bin"} {
		if err := vfCopy(filepath.Join(tmpl, fn), filepath.Join(dir, fn)); err != nil {
			out.Error = err.Error()
			return
		}
	}
	e := &vfEnv{dir: dir, plan: &vfPlan{}, n: len(p.InitObs.B.HOf), h: len(p.InitObs.B.ByH),
		absB: []int{0}, absF: []int{0}, s: 1}
	if len(p.Steps) > 0 && p.Steps[0].Act.Sc > 1 {
		e.s = p.Steps[0].Act.Sc
	}
	e.u = vfUniverse(e.n, e.s)
	defer e.closeAll()
	defer func() {
		if r := recover(); r != nil {
			buf := make([]byte, 4096)
			buf = buf[:runtime.Stack(buf, false)]
			out.Error = fmt.Sprintf("driver panic: %v\n%s", r, buf)
		}
	}()
	if err := e.open(); err != nil {
		out.Error = "initial open: " + err.Error()
		return
	}
	out.InitObs = e.observe()
	for _, s := range p.Steps {
		if !e.up && s.Act.Op != "Recover" && s.Act.Op != "Reopen" {
			break // the model would not continue either (dead store)
		}
		a, extra := e.exec(s.Act)
		o := e.observe()
		if a.Batch == nil {
			a.Batch = []int{}
		}
		out.Steps = append(out.Steps, vfStepOut{Act: a, Obs: o})
		for _, x := range extra {
			x.Obs = o
			out.Steps = append(out.Steps, x)
		}
		if a.Op == "Recover" || a.Op == "Reopen" {
			e.resync(o)
		}
	}
	return
}

func (o *vfPathOut) lastObs() vfObs {
	if len(o.Steps) == 0 {
		return o.InitObs
	}
	return o.Steps[len(o.Steps)-1].Obs
}

func TestVerifHeaderStoreReplay(t *testing.T) {
	in, outFn := os.Getenv("VERIF_PATHS"), os.Getenv("VERIF_OUT")
	if in == "" || outFn == "" {
		t.Skip("VERIF_PATHS / VERIF_OUT not set")
	}
	scratch := os.Getenv("VERIF_SCRATCH")
	if scratch == "" {
		scratch = t.TempDir()
	}
	tmpl := filepath.Join(scratch, "template")
	if err := os.MkdirAll(tmpl, 0o755); err != nil {
		t.Fatal(err)
	}
	if err := vfMakeTemplate(tmpl); err != nil {
		t.Fatal(err)
	}
	f, err := os.Open(in)
	if err != nil {
		t.Fatal(err)
	}
	defer f.Close()
	var paths []vfPathIn
	sc := bufio.NewScanner(f)
	sc.Buffer(make([]byte, 1<<20), 1<<28)
	for sc.Scan() {
		var p vfPathIn
		if err := json.Unmarshal(sc.Bytes(), &p); err != nil {
			t.Fatal(err)
		}
		paths = append(paths, p)
	}
	results := make([]vfPathOut, len(paths))
	var wg sync.WaitGroup
	jobs := make(chan int)
	nw := runtime.NumCPU()
	for w := 0; w < nw; w++ {
		wg.Add(1)
		go func() {
			defer wg.Done()
			for i := range jobs {
				results[i] = vfRunPath(tmpl, paths[i], scratch)
			}
		}()
	}
	for i := range paths {
		jobs <- i
	}
	close(jobs)
	wg.Wait()
	of, err := os.Create(outFn)
	if err != nil {
		t.Fatal(err)
	}
	w := bufio.NewWriter(of)
	enc := json.NewEncoder(w)
	for i := range results {
		if err := enc.Encode(&results[i]); err != nil {
			t.Fatal(err)
		}
	}
	w.Flush()
	of.Close()
}
