//go:build verif

// Adaptive replay of a TLC-exported state graph against real code whose
// scheduling cannot be forced completely (Go map iteration order, select
// between ready arms).  Shared by the Broadcaster and SendTx drivers of the
// C15 family: vlib/families/broadcaster.py overlays this file into package
// pushtx as it is and into package neutrino with the package clause
// rewritten.
//
// The graph is the labelled transition system TLC explored.  An edge carries
// the action label (the part the driver controls - vwFamily.ctlKey - and the
// part the code decides: act.res and the observables after the step).  The
// walker drives the real object along planned paths; after every input it
// looks for the model edge (same control part) whose label and observables
// equal what the real code did:
//
//	planned edge matches        follow it
//	another edge matches        the code resolved a nondeterministic choice
//	                            differently: follow that edge, re-plan
//	no edge matches             conformance drift: the step is recorded with a
//	                            note and the path ends (Props still judge it)
//
// Observed traces go to VERIF_OUT (judged by TLC with the Props operators
// afterwards), statistics to VERIF_STATS.  A trace every step of which EQUALS
// a model transition (label and observables) that TLC found free of property
// violations has already been judged by TLC with the very same operator
// arguments (the abstract state of Props is part of the model state), so of
// those only every VERIF_KEEP-th is written out and judged again as a cross
// check; every trace with drift, with a step on which the model itself
// violates a property, or with a driver error is always written.
package pushtx

import (
	"bufio"
	"encoding/json"
	"fmt"
	"math/rand"
	"os"
	"runtime"
	"strconv"
	"sync"
	"sync/atomic"
	"testing"
	"time"
)

// vwSUT is one fresh instance of the system under test, living inside one
// synctest bubble.
type vwSUT interface {
	// Start builds the real object for the given initial observables.
	Start(initObs json.RawMessage) error
	// InitObs is the projection of the real object right after Start.
	InitObs() interface{}
	// Step applies the controllable part of act and returns the complete
	// label (with the actual result), the observables afterwards and
	// optional extra fields for the trace (goroutine dumps).
	Step(act map[string]interface{}) (map[string]interface{}, interface{}, map[string]interface{})
	Close()
}

// vwEpilogue is implemented by a SUT that can bring a path that left the
// model to a natural end (all gates released); the extra steps are judged by
// Props alone.
type vwEpilogue interface {
	Epilogue() []vwStep
}

type vwFamily struct {
	name   string
	ctlKey func(act map[string]interface{}) string
	// bubble runs body in a fresh synctest bubble and returns when every
	// goroutine started by body is gone.
	bubble func(t *testing.T, body func())
	newSUT func(rng *rand.Rand) vwSUT
}

type vwEdge struct {
	from, to int32
	act      map[string]interface{}
	actS     string
	obsS     string
	ctl      string
	viol     bool
}

type vwGraph struct {
	inits   []int32
	initObs map[int32]json.RawMessage
	edges   []vwEdge
	out     [][]int32
}

func vwCanon(v interface{}) string {
	b, err := json.Marshal(v)
	if err != nil {
		panic(err)
	}
	var x interface{}
	if err := json.Unmarshal(b, &x); err != nil {
		panic(err)
	}
	b, _ = json.Marshal(x)
	return string(b)
}

func vwLoadGraph(fn string, fam *vwFamily) (*vwGraph, error) {
	f, err := os.Open(fn)
	if err != nil {
		return nil, err
	}
	defer f.Close()
	g := &vwGraph{initObs: map[int32]json.RawMessage{}}
	intern := map[string]string{}
	in := func(s string) string {
		if v, ok := intern[s]; ok {
			return v
		}
		intern[s] = s
		return s
	}
	sc := bufio.NewScanner(f)
	sc.Buffer(make([]byte, 1<<20), 1<<26)
	maxNode := int32(-1)
	for sc.Scan() {
		var l struct {
			Init *int32                 `json:"init"`
			Obs  json.RawMessage        `json:"obs"`
			F    int32                  `json:"f"`
			T    int32                  `json:"t"`
			A    map[string]interface{} `json:"a"`
			O    interface{}            `json:"o"`
			V    bool                   `json:"v"`
		}
		if err := json.Unmarshal(sc.Bytes(), &l); err != nil {
			return nil, err
		}
		if l.Init != nil {
			g.inits = append(g.inits, *l.Init)
			g.initObs[*l.Init] = append(json.RawMessage(nil), l.Obs...)
			if *l.Init > maxNode {
				maxNode = *l.Init
			}
			continue
		}
		e := vwEdge{from: l.F, to: l.T, act: l.A, actS: in(vwCanon(l.A)), obsS: in(vwCanon(l.O)),
			ctl: in(fam.ctlKey(l.A)), viol: l.V}
		g.edges = append(g.edges, e)
		if l.F > maxNode {
			maxNode = l.F
		}
		if l.T > maxNode {
			maxNode = l.T
		}
	}
	if err := sc.Err(); err != nil {
		return nil, err
	}
	g.out = make([][]int32, maxNode+1)
	for i, e := range g.edges {
		g.out[e.from] = append(g.out[e.from], int32(i))
	}
	return g, nil
}

type vwStep struct {
	Act  map[string]interface{} `json:"act"`
	Obs  interface{}            `json:"obs"`
	Note string                 `json:"note,omitempty"`
	Dump string                 `json:"dump,omitempty"`
}

type vwTrace struct {
	ID      int         `json:"id"`
	Fam     string      `json:"fam"`
	InitObs interface{} `json:"init_obs"`
	Steps   []vwStep    `json:"steps"`
	Error   string      `json:"error,omitempty"`
}

type vwStats struct {
	Edges        int  `json:"edges"`
	Covered      int  `json:"covered"`
	UnreachModel int  `json:"unreachable_without_model_violation_or_drift"`
	NotHit       int  `json:"not_hit_scheduling"`
	Paths        int  `json:"paths"`
	Steps        int  `json:"steps"`
	Resolved     int  `json:"choices_resolved_by_code"`
	Drift        int  `json:"drift_paths"`
	Walks        int  `json:"random_walks"`
	Written      int  `json:"traces_written"`
	DriftEdges   int  `json:"edges_where_code_left_model"`
	Abandoned    int  `json:"abandoned_bubbles"`
	Aborted      bool `json:"aborted"`
}

type vwWalker struct {
	t   *testing.T
	fam *vwFamily
	g   *vwGraph

	mu      sync.Mutex
	covered []bool
	tries   []int
	claimed []bool
	bad     []bool  // edges at which the code left the model: not planned through again
	parent  []int32 // BFS tree: edge leading to the node, -1 for inits, -2 unreached
	order   []int32
	out     *bufio.Writer
	nextID  int
	keep    int
	st      vwStats
	abort   atomic.Bool
}

// inBubble runs body in a bubble of its own.  If the code under test leaves a
// goroutine blocked for good while a timer of the component keeps running,
// the bubble can neither end nor be declared deadlocked; the trace has been
// written by then (body is over), so the bubble is abandoned after a grace
// period of real time, and after a few of those the whole walk is cut short
// (an abandoned bubble keeps a CPU busy).
func (w *vwWalker) inBubble(body func()) {
	done := make(chan struct{})
	var over atomic.Bool
	go func() {
		defer close(done)
		w.fam.bubble(w.t, func() {
			defer over.Store(true)
			body()
		})
	}()
	grace := 0
	for {
		select {
		case <-done:
			return
		case <-time.After(20 * time.Millisecond):
			if over.Load() {
				grace++
			}
			if grace > 500 {
				w.mu.Lock()
				w.st.Abandoned++
				if w.st.Abandoned >= 3 {
					w.st.Aborted = true
					w.abort.Store(true)
				}
				w.mu.Unlock()
				return
			}
		}
	}
}

const vwMaxLen = 48

// attempts per transition that lies behind a choice the code makes
var vwMaxTries = 24

func (w *vwWalker) bfs() {
	g := w.g
	w.parent = make([]int32, len(g.out))
	for i := range w.parent {
		w.parent[i] = -2
	}
	w.order = w.order[:0]
	var q []int32
	for _, n := range g.inits {
		if w.parent[n] == -2 {
			w.parent[n] = -1
			q = append(q, n)
		}
	}
	for len(q) > 0 {
		n := q[0]
		q = q[1:]
		w.order = append(w.order, n)
		for _, ei := range g.out[n] {
			e := &g.edges[ei]
			if e.viol || w.bad[ei] {
				continue
			}
			if w.parent[e.to] == -2 {
				w.parent[e.to] = ei
				q = append(q, e.to)
			}
		}
	}
}

func (w *vwWalker) prefix(n int32) []int32 {
	var p []int32
	for w.parent[n] >= 0 {
		ei := w.parent[n]
		p = append(p, ei)
		n = w.g.edges[ei].from
	}
	for i, j := 0, len(p)-1; i < j; i, j = i+1, j-1 {
		p[i], p[j] = p[j], p[i]
	}
	return p
}

// match finds the model edges out of the candidate nodes with the given
// control part whose label and observables equal what the code did.  Several
// nodes are candidates when the code made a choice that the observables do not
// reveal at once (e.g. which of two waiting parties the handler served first):
// all of them are followed until the observables tell them apart.
func (w *vwWalker) match(curs []int32, ctl, actS, obsS string) []int32 {
	var m []int32
	for _, c := range curs {
		for _, ei := range w.g.out[c] {
			e := &w.g.edges[ei]
			if e.ctl == ctl && e.actS == actS && e.obsS == obsS {
				m = append(m, ei)
			}
		}
	}
	return m
}

func (w *vwWalker) write(tr *vwTrace, always bool) {
	w.mu.Lock()
	defer w.mu.Unlock()
	tr.ID = w.nextID
	w.nextID++
	w.st.Paths++
	w.st.Steps += len(tr.Steps)
	if !always && w.keep > 1 && tr.ID%w.keep != 0 {
		return
	}
	b, err := json.Marshal(tr)
	if err != nil {
		panic(err)
	}
	w.out.Write(b)
	w.out.WriteByte('\n')
	w.st.Written++
}

// pickUncovered returns an uncovered edge out of n (random among them), or -1.
func (w *vwWalker) pickUncovered(n int32, rng *rand.Rand) int32 {
	w.mu.Lock()
	defer w.mu.Unlock()
	var c []int32
	for _, ei := range w.g.out[n] {
		if !w.covered[ei] && !w.bad[ei] {
			c = append(c, ei)
		}
	}
	if len(c) == 0 {
		return -1
	}
	return c[rng.Intn(len(c))]
}

func (w *vwWalker) mark(ei int32) {
	w.mu.Lock()
	if !w.covered[ei] {
		w.covered[ei] = true
		w.st.Covered++
	}
	w.mu.Unlock()
}

// run executes one path: the plan first, then greedy extension over uncovered
// edges (mode 0) or a random walk (mode 1, length = depth).
func (w *vwWalker) run(start int32, plan []int32, rng *rand.Rand, mode, depth int) {
	if w.abort.Load() {
		return
	}
	w.inBubble(func() {
		sut := w.fam.newSUT(rng)
		tr := &vwTrace{Fam: w.fam.name, Steps: []vwStep{}}
		always := false
		defer func() {
			sut.Close()
			w.write(tr, always)
		}()
		if err := sut.Start(w.g.initObs[start]); err != nil {
			tr.Error = "start: " + err.Error()
			always = true
			return
		}
		tr.InitObs = sut.InitObs()
		curs := []int32{start}
		pi := 0
		for len(tr.Steps) < vwMaxLen {
			var pe int32 = -1
			if pi < len(plan) {
				pe = plan[pi]
				pi++
			} else if mode == 0 {
				for _, c := range curs {
					if pe = w.pickUncovered(c, rng); pe >= 0 {
						break
					}
				}
			} else if len(tr.Steps) < depth && len(w.g.out[curs[0]]) > 0 {
				pe = w.g.out[curs[0]][rng.Intn(len(w.g.out[curs[0]]))]
			}
			if pe < 0 {
				return
			}
			e := &w.g.edges[pe]
			act, obs, extra := sut.Step(e.act)
			st := vwStep{Act: act, Obs: obs}
			if d, ok := extra["dump"].(string); ok {
				st.Dump = d
			}
			m := w.match(curs, e.ctl, vwCanon(act), vwCanon(obs))
			if len(m) == 0 {
				st.Note = fmt.Sprintf("no model transition for what the code did; the model's (first) prediction was act=%s obs=%s",
					e.actS, e.obsS)
				tr.Steps = append(tr.Steps, st)
				always = true
				w.mu.Lock()
				w.st.Drift++
				w.bad[pe] = true
				w.mu.Unlock()
				if ep, ok := sut.(vwEpilogue); ok {
					tr.Steps = append(tr.Steps, ep.Epilogue()...)
				}
				return
			}
			tr.Steps = append(tr.Steps, st)
			got := m[0]
			for _, x := range m {
				if x == pe {
					got = pe
				}
			}
			w.mark(got)
			if got != pe {
				w.mu.Lock()
				w.st.Resolved++
				w.mu.Unlock()
				pi = len(plan) // the plan no longer applies
			}
			if w.g.edges[got].viol {
				always = true
				return
			}
			// the planned successor first, then the other candidates
			curs = curs[:0]
			curs = append(curs, w.g.edges[got].to)
			for _, x := range m {
				to := w.g.edges[x].to
				dup := false
				for _, c := range curs {
					if c == to {
						dup = true
					}
				}
				if !dup {
					curs = append(curs, to)
				}
			}
		}
	})
}

// claim hands out the next uncovered, reachable edge (in BFS order of its
// source) that has attempts left.
func (w *vwWalker) claim(cursor *int) (int32, bool) {
	if w.abort.Load() {
		return -1, false
	}
	w.mu.Lock()
	defer w.mu.Unlock()
	for *cursor < len(w.order) {
		n := w.order[*cursor]
		for _, ei := range w.g.out[n] {
			if !w.covered[ei] && !w.claimed[ei] && !w.bad[ei] && w.tries[ei] < vwMaxTries {
				w.claimed[ei] = true
				w.tries[ei]++
				return ei, true
			}
		}
		*cursor++
	}
	return -1, false
}

func vwRun(t *testing.T, fam *vwFamily) {
	outFn := os.Getenv("VERIF_OUT")
	if outFn == "" {
		t.Skip("VERIF_OUT not set")
	}
	seed, _ := strconv.ParseInt(os.Getenv("VERIF_SEED"), 10, 64)
	of, err := os.Create(outFn)
	if err != nil {
		t.Fatal(err)
	}
	defer of.Close()
	w := &vwWalker{t: t, fam: fam, out: bufio.NewWriterSize(of, 1<<20)}
	w.keep, _ = strconv.Atoi(os.Getenv("VERIF_KEEP"))
	if v, err := strconv.Atoi(os.Getenv("VERIF_TRIES")); err == nil && v > 0 {
		vwMaxTries = v
	}
	defer w.out.Flush()
	workers := runtime.NumCPU()
	if workers > 16 {
		workers = 16
	}
	if v, err := strconv.Atoi(os.Getenv("VERIF_WORKERS")); err == nil && v > 0 {
		workers = v
	}

	if pf := os.Getenv("VERIF_PATHS"); pf != "" {
		vwStrict(t, w, pf, seed)
		return
	}

	g, err := vwLoadGraph(os.Getenv("VERIF_GRAPH"), fam)
	if err != nil {
		t.Fatalf("graph: %v", err)
	}
	w.g = g
	w.covered = make([]bool, len(g.edges))
	w.tries = make([]int, len(g.edges))
	w.claimed = make([]bool, len(g.edges))
	w.bad = make([]bool, len(g.edges))
	w.st.Edges = len(g.edges)

	// Edge cover, in rounds: an edge behind a choice the code makes may need
	// several attempts.
	for round := 0; round < vwMaxTries; round++ {
		w.bfs() // without the edges at which the code left the model so far
		cursor := 0
		var wg sync.WaitGroup
		progress := false
		var pm sync.Mutex
		for i := 0; i < workers; i++ {
			wg.Add(1)
			go func(i int) {
				defer wg.Done()
				rng := rand.New(rand.NewSource(seed*1000003 + int64(round)*131 + int64(i)))
				for {
					ei, ok := w.claim(&cursor)
					if !ok {
						return
					}
					pm.Lock()
					progress = true
					pm.Unlock()
					e := &g.edges[ei]
					plan := append(w.prefix(e.from), ei)
					start := e.from
					if len(plan) > 1 {
						start = g.edges[plan[0]].from
					}
					w.run(start, plan, rng, 0, 0)
				}
			}(i)
		}
		wg.Wait()
		for i := range w.claimed {
			w.claimed[i] = false
		}
		if !progress {
			break
		}
	}
	for i, e := range g.edges {
		if w.covered[i] {
			continue
		}
		if w.bad[i] {
			w.st.DriftEdges++
		} else if w.parent[e.from] == -2 {
			w.st.UnreachModel++
		} else {
			w.st.NotHit++
		}
	}

	// Random walks on top (thorough tier).
	nw, _ := strconv.Atoi(os.Getenv("VERIF_WALKS"))
	depth, _ := strconv.Atoi(os.Getenv("VERIF_DEPTH"))
	if nw > 0 && depth > 0 {
		var wg sync.WaitGroup
		per := (nw + workers - 1) / workers
		for i := 0; i < workers; i++ {
			wg.Add(1)
			go func(i int) {
				defer wg.Done()
				rng := rand.New(rand.NewSource(seed*7919 + 17 + int64(i)))
				for k := 0; k < per; k++ {
					start := g.inits[rng.Intn(len(g.inits))]
					w.run(start, nil, rng, 1, depth)
				}
			}(i)
		}
		wg.Wait()
		w.st.Walks = per * workers
	}

	if sf := os.Getenv("VERIF_STATS"); sf != "" {
		b, _ := json.Marshal(w.st)
		if err := os.WriteFile(sf, b, 0o644); err != nil {
			t.Fatal(err)
		}
	}
}

// vwStrict re-executes recorded paths input by input (vcheck --replay): the
// controllable part of every logged action is applied, whatever the code
// answers is recorded.
func vwStrict(t *testing.T, w *vwWalker, pf string, seed int64) {
	f, err := os.Open(pf)
	if err != nil {
		t.Fatal(err)
	}
	defer f.Close()
	sc := bufio.NewScanner(f)
	sc.Buffer(make([]byte, 1<<20), 1<<26)
	for sc.Scan() {
		var p struct {
			ID      int             `json:"id"`
			InitObs json.RawMessage `json:"init_obs"`
			Steps   []struct {
				Act map[string]interface{} `json:"act"`
			} `json:"steps"`
		}
		if err := json.Unmarshal(sc.Bytes(), &p); err != nil {
			t.Fatal(err)
		}
		rng := rand.New(rand.NewSource(seed + int64(p.ID)))
		w.inBubble(func() {
			sut := w.fam.newSUT(rng)
			tr := &vwTrace{Fam: w.fam.name, Steps: []vwStep{}}
			defer func() {
				sut.Close()
				w.write(tr, true)
			}()
			if err := sut.Start(p.InitObs); err != nil {
				tr.Error = "start: " + err.Error()
				return
			}
			tr.InitObs = sut.InitObs()
			for _, s := range p.Steps {
				act, obs, extra := sut.Step(s.Act)
				st := vwStep{Act: act, Obs: obs}
				if d, ok := extra["dump"].(string); ok {
					st.Dump = d
				}
				tr.Steps = append(tr.Steps, st)
			}
		})
	}
}
