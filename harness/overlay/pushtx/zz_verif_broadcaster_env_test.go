//go:build verif

// Package-specific part of the Broadcaster driver for package pushtx (the
// driver itself, zz_verif_broadcaster_test.go, is also built into package
// neutrino with the package clause rewritten, where the rescan-to-broadcaster
// slice lives - see harness/overlay/neutrino/zz_verif_broadcaster_env_test.go).
package pushtx

type (
	vbBroadcaster    = Broadcaster
	vbConfig         = Config
	vbBroadcastError = BroadcastError
	vbErrCode        = BroadcastErrorCode
)

const (
	vbMempool   = Mempool
	vbConfirmed = Confirmed
)

var (
	vbNewBroadcaster      = NewBroadcaster
	vbParseBroadcastError = ParseBroadcastError
	vbErrStopped          = ErrBroadcasterStopped
	vbUseLogger           = UseLogger
)

// vbDrain releases a caller that is stuck in a plain send to the handler.
func vbDrain(b *Broadcaster) bool {
	select {
	case <-b.confChan:
		return true
	case r := <-b.broadcastReqs:
		r.errChan <- ErrBroadcasterStopped
		return true
	default:
		return false
	}
}

// vbEnv: no rescan in this package.
type vbEnv struct{}

func vbNewEnv() vbEnv { return vbEnv{} }

func (vbEnv) canMine() bool { return false }

func (vbEnv) mined(*vbSUT, int, string) func() (bool, error) { return nil }
