//go:build verif

// Driver of the Broadcaster family (property C15): replays the state graph of
// specs/Broadcaster/Broadcaster.tla against the REAL pushtx.Broadcaster.
//
// Determinism comes from gates, not sleeps:
//   - Config.Broadcast is a gate: every invocation parks until the path
//     releases it with an outcome; the caller (request handler or rebroadcast
//     goroutine) is read off the call stack;
//   - the block subscription channel is fed by the driver (non-blocking send:
//     a notification is "delivered" exactly when the handler sits in its
//     select);
//   - every path runs in its own testing/synctest bubble: synctest.Wait()
//     returns when every goroutine of the broadcaster and every API caller is
//     blocked, so "a callback is waiting", "no callback came", "the call has
//     not returned" are exact observations; the rebroadcast ticker runs on
//     the bubble's fake clock, a Tick is one time.Sleep across exactly one
//     tick boundary (interval 1h, the driver keeps half an interval away from
//     the boundaries);
//   - the package logger is a gate as well: the only warning of the package
//     is the one the handler logs when it finds the block subscription's
//     channel closed (broadcaster.go:207) - an arm that is ready for ever after,
//     so the handler goes round its loop without ever blocking; the Warn call
//     parks until the driver releases it, and the driver releases it up to
//     vbPolls times per quiescence (Go's select picks uniformly among the
//     ready arms: an arm that is ready is missed vbPolls times in a row with
//     probability (5/6)^256 < 1e-20), without any fake time passing;
//   - a call that has not returned although no gate is held is probed: the
//     fake clock is advanced by 5 minutes (normal duration: 0) and all
//     goroutines are dumped; only then it is reported as hung.
package pushtx

import (
	"encoding/json"
	"errors"
	"fmt"
	"math/rand"
	"runtime"
	"strings"
	"sync"
	"sync/atomic"
	"testing"
	"testing/synctest"
	"time"

	"github.com/btcsuite/btcd/chainhash/v2"
	"github.com/btcsuite/btcd/wire/v2"
	"github.com/btcsuite/btclog"
	"github.com/lightninglabs/neutrino/blockntfns"
)

const (
	vbInterval = time.Hour
	vbProbe    = 5 * time.Minute
	vbPolls    = 256
)

// vbGateLogger is installed as the logger of package pushtx: Warn / Warnf
// called from a goroutine of a path's bubble park at that path's gate.
type vbGateLogger struct{ btclog.Logger }

func (vbGateLogger) Warn(...interface{})          { vbWarnGate() }
func (vbGateLogger) Warnf(string, ...interface{}) { vbWarnGate() }

var (
	vbSUTs     sync.Map // bubble id -> *vbSUT
	vbLogOnce  sync.Once
	vbBubbleRe = "synctest bubble "
)

// vbBubbleID returns the id of the synctest bubble the calling goroutine
// belongs to ("" outside a bubble), read off the goroutine's stack header.
func vbBubbleID() string {
	var buf [96]byte
	h := string(buf[:runtime.Stack(buf[:], false)])
	if i := strings.IndexByte(h, '\n'); i >= 0 {
		h = h[:i]
	}
	i := strings.Index(h, vbBubbleRe)
	if i < 0 {
		return ""
	}
	h = h[i+len(vbBubbleRe):]
	if j := strings.IndexAny(h, "],"); j >= 0 {
		h = h[:j]
	}
	return h
}

func vbWarnGate() {
	id := vbBubbleID()
	if id == "" {
		return
	}
	v, ok := vbSUTs.Load(id)
	if !ok {
		return
	}
	s := v.(*vbSUT)
	s.warn <- struct{}{}
	<-s.warnRel
}

var vbDumps int32

type vbCall struct {
	tx   int
	src  byte
	resp chan error
}

// vbCustomErr is a backend-specific error that only MapCustomBroadcastError
// turns into a BroadcastError.
type vbCustomErr struct{ code vbErrCode }

func (e *vbCustomErr) Error() string { return fmt.Sprintf("backend error %d", e.code) }

type vbObs struct {
	Par   [][]int `json:"par"`
	Hcb   int     `json:"hcb"`
	Rcb   int     `json:"rcb"`
	Rn    int     `json:"rn"`
	Wn    int     `json:"wn"`
	Bc    int     `json:"bc"`
	BcRes int     `json:"bcRes"`
	Mk    int     `json:"mk"`
	Stp   int     `json:"stp"`
}

type vbSUT struct {
	rng    *rand.Rand
	par    [][]int
	txs    []*wire.MsgTx
	hashes []chainhash.Hash
	ext    []wire.OutPoint // ext[i-1]: the input of tx i that spends nothing of ours
	idx    map[chainhash.Hash]int

	b     *vbBroadcaster
	env   vbEnv // package-specific part (rescan slice in package neutrino)
	calls chan *vbCall
	ntf   chan blockntfns.BlockNtfn
	// the block subscription's channel has been closed by the driver
	closed  bool
	bubble  string
	warn    chan struct{} // one token per Warn call parked at the gate
	warnRel chan struct{}
	warned  bool // a Warn call is parked (token taken by the driver)
	pendH []*vbCall
	pendR []*vbCall
	rn    int

	bcOut  bool
	bcHung bool
	bcRes  int
	bcDone chan int
	mkOut  bool
	mkHung bool
	mkDone chan struct{}
	stp    int // 0 not called, 1 outstanding, 3 returned
	stHung bool
	stDone chan struct{}
	relBad atomic.Bool // extractBlockMatches disagreed with the relevance class

	t0     time.Time
	dumped bool
}

func vbOrigin() byte {
	pcs := make([]uintptr, 24)
	n := runtime.Callers(2, pcs)
	fr := runtime.CallersFrames(pcs[:n])
	for {
		f, more := fr.Next()
		if strings.HasSuffix(f.Function, ".rebroadcast") {
			return 'R'
		}
		if strings.HasSuffix(f.Function, ".broadcastHandler") {
			return 'H'
		}
		if !more {
			return '?'
		}
	}
}

func (s *vbSUT) Start(initObs json.RawMessage) error {
	var o struct {
		Par [][]int `json:"par"`
	}
	if err := json.Unmarshal(initObs, &o); err != nil {
		return err
	}
	s.par = make([][]int, len(o.Par))
	for i, p := range o.Par {
		s.par[i] = append([]int{}, p...)
	}
	n := len(s.par)
	s.txs = make([]*wire.MsgTx, n+1)
	s.hashes = make([]chainhash.Hash, n+1)
	s.idx = map[chainhash.Hash]int{}
	for i := 1; i <= n; i++ {
		tx := wire.NewMsgTx(2)
		// one input of our own (makes the tx unique) ...
		var ext chainhash.Hash
		s.rng.Read(ext[:])
		ins := []*wire.TxIn{wire.NewTxIn(wire.NewOutPoint(&ext, uint32(i)), nil, nil)}
		// ... and one per parent, in random position.
		for _, p := range s.par[i-1] {
			ins = append(ins, wire.NewTxIn(wire.NewOutPoint(&s.hashes[p], 0), nil, nil))
		}
		s.rng.Shuffle(len(ins), func(a, b int) { ins[a], ins[b] = ins[b], ins[a] })
		for _, in := range ins {
			// segwit spends: the witness hash of a transaction then differs
			// from its id (the id is what confirmations, inputs of children
			// and the peers' messages name)
			sig := make([]byte, 71)
			s.rng.Read(sig)
			in.Witness = wire.TxWitness{sig, make([]byte, 33)}
			tx.AddTxIn(in)
		}
		// a P2WPKH script (the rescan slice watches it as an address)
		pk := make([]byte, 22)
		s.rng.Read(pk)
		pk[0], pk[1] = 0x00, 0x14
		tx.AddTxOut(wire.NewTxOut(int64(1000+s.rng.Intn(100000)), pk))
		s.ext = append(s.ext, *wire.NewOutPoint(&ext, uint32(i)))
		s.txs[i] = tx
		s.hashes[i] = tx.TxHash()
		s.idx[s.hashes[i]] = i
	}

	s.calls = make(chan *vbCall, 256)
	s.warn = make(chan struct{}, 16)
	s.warnRel = make(chan struct{})
	s.bubble = vbBubbleID()
	if s.bubble != "" {
		vbSUTs.Store(s.bubble, s)
	}
	s.ntf = make(chan blockntfns.BlockNtfn)
	s.bcDone = make(chan int, 4)
	s.mkDone = make(chan struct{}, 4)
	s.stDone = make(chan struct{}, 4)
	s.b = vbNewBroadcaster(&vbConfig{
		Broadcast: func(tx *wire.MsgTx) error {
			c := &vbCall{tx: s.idx[tx.TxHash()], src: vbOrigin(), resp: make(chan error)}
			s.calls <- c
			return <-c.resp
		},
		SubscribeBlocks: func() (*blockntfns.Subscription, error) {
			return &blockntfns.Subscription{Notifications: s.ntf, Cancel: func() {}}, nil
		},
		RebroadcastInterval: vbInterval,
		MapCustomBroadcastError: func(err error) error {
			if ce, ok := err.(*vbCustomErr); ok {
				return &vbBroadcastError{Code: ce.code, Reason: ce.Error()}
			}
			return err
		},
	})
	s.t0 = time.Now()
	if err := s.b.Start(); err != nil {
		return err
	}
	// Stay half an interval away from the tick boundaries.
	time.Sleep(vbInterval / 2)
	s.settle(nil)
	return nil
}

// drain collects what has happened since the last look.
func (s *vbSUT) drain() {
	for {
		select {
		case c := <-s.calls:
			if c.src == 'R' {
				s.pendR = append(s.pendR, c)
				s.rn++
			} else {
				s.pendH = append(s.pendH, c)
			}
			continue
		case r := <-s.bcDone:
			s.bcOut = false
			s.bcRes = r
			continue
		case <-s.mkDone:
			s.mkOut = false
			continue
		case <-s.stDone:
			s.stp = 3
			continue
		default:
		}
		return
	}
}

func (s *vbSUT) untilTick() time.Duration {
	el := time.Since(s.t0)
	return vbInterval - el%vbInterval
}

// pump lets a handler that is parked in the warning of its closed-channel arm
// go round its loop, until it no longer comes back to the warning (it is
// inside a callback, or has returned) or vbPolls rounds are over.
func (s *vbSUT) pump() bool {
	any := false
	for i := 0; i < vbPolls; i++ {
		if !s.warned {
			select {
			case <-s.warn:
				s.warned = true
			default:
			}
		}
		if !s.warned {
			break
		}
		s.warned = false
		s.warnRel <- struct{}{}
		any = true
		synctest.Wait()
	}
	if !s.warned {
		select {
		case <-s.warn:
			s.warned = true
		default:
		}
	}
	return any
}

func (s *vbSUT) settle(extra map[string]interface{}) {
	synctest.Wait()
	s.pump()
	s.drain()
	outstanding := func() bool {
		return (s.bcOut && !s.bcHung) || (s.mkOut && !s.mkHung) || (s.stp == 1 && !s.stHung)
	}
	if outstanding() && len(s.pendH) == 0 && len(s.pendR) == 0 {
		// Nothing the environment holds back can be what the call waits
		// for.  Give it (fake) time, then look again.
		if s.untilTick() > vbProbe+time.Minute {
			time.Sleep(vbProbe)
			synctest.Wait()
			s.pump()
			s.drain()
		}
		if len(s.pendH) == 0 && len(s.pendR) == 0 {
			if s.bcOut {
				s.bcHung = true
			}
			if s.mkOut {
				s.mkHung = true
			}
			if s.stp == 1 {
				s.stHung = true
			}
			// A dump of all goroutines stops the world: only the first
			// hung paths of a run carry one.
			if hung := s.bcHung || s.mkHung || s.stHung; hung && !s.dumped && extra != nil {
				s.dumped = true
				if atomic.AddInt32(&vbDumps, 1) <= 12 {
					extra["dump"] = vbDump()
				}
			}
		}
	}
}

// vbDump returns the stacks of the goroutines of this path's bubble that are
// inside package pushtx.
func vbDump() string {
	self := make([]byte, 256)
	self = self[:runtime.Stack(self, false)]
	bubble := ""
	if i := strings.Index(string(self), "synctest bubble "); i >= 0 {
		bubble = string(self[i:])
		if j := strings.IndexAny(bubble, "],"); j >= 0 {
			bubble = bubble[:j]
		}
	}
	buf := make([]byte, 4<<20)
	n := runtime.Stack(buf, true)
	var keep []string
	for _, g := range strings.Split(string(buf[:n]), "\n\n") {
		head := g
		if i := strings.Index(g, "\n"); i >= 0 {
			head = g[:i]
		}
		if bubble != "" && !strings.Contains(head, bubble+"]") && !strings.Contains(head, bubble+",") {
			continue
		}
		if strings.Contains(g, "pushtx.(*Broadcaster)") && !strings.Contains(g, "vbDump") {
			lines := strings.Split(g, "\n")
			if len(lines) > 9 {
				lines = lines[:9]
			}
			keep = append(keep, strings.Join(lines, "\n"))
		}
		if len(keep) >= 8 {
			break
		}
	}
	return strings.Join(keep, "\n\n")
}

func (s *vbSUT) obs() vbObs {
	o := vbObs{Par: s.par, Rn: s.rn % 2, BcRes: s.bcRes, Stp: s.stp}
	if len(s.pendH) > 0 {
		o.Hcb = s.pendH[0].tx
	}
	if len(s.pendR) > 0 {
		o.Rcb = s.pendR[0].tx
	}
	if s.warned {
		o.Wn = 1
	}
	st := func(out, hung bool) int {
		if !out {
			return 0
		}
		if hung {
			return 2
		}
		return 1
	}
	o.Bc = st(s.bcOut, s.bcHung)
	o.Mk = st(s.mkOut, s.mkHung)
	if s.stp == 1 && s.stHung {
		o.Stp = 2
	}
	return o
}

func (s *vbSUT) InitObs() interface{} { return s.obs() }

var vbSpellings = map[string][]wire.MsgReject{
	"invalid": {
		{Code: wire.RejectInvalid, Reason: "bad-txns-inputs-missingorspent"},
		{Code: wire.RejectNonstandard, Reason: "dust"},
		{Code: wire.RejectDuplicate, Reason: "txn-mempool-conflict"},
		{Code: wire.RejectDuplicate, Reason: "output already spent by transaction in the memory pool"},
	},
	"fee": {{Code: wire.RejectInsufficientFee, Reason: "min relay fee not met"}},
	"mempool": {
		{Code: wire.RejectDuplicate, Reason: "txn-already-in-mempool"},
		{Code: wire.RejectDuplicate, Reason: "already have transaction 00ff"},
	},
	"confirmed": {
		{Code: wire.RejectDuplicate, Reason: "txn-already-known"},
		{Code: wire.RejectDuplicate, Reason: "transaction already exists"},
	},
	"unknown": {
		{Code: wire.RejectMalformed, Reason: "malformed"},
		{Code: wire.RejectObsolete, Reason: "obsolete"},
		{Code: wire.RejectDuplicate, Reason: "some other duplicate"},
		{Code: wire.RejectCheckpoint, Reason: "checkpoint"},
	},
}

// outcome manufactures the error the gate returns for an abstract outcome;
// classes that come from peers go through the real ParseBroadcastError.
func (s *vbSUT) outcome(out string) error {
	switch out {
	case "ok":
		return nil
	case "plain":
		return errors.New("connection reset by peer")
	case "xmempool":
		return &vbCustomErr{code: vbMempool}
	case "xconfirmed":
		return &vbCustomErr{code: vbConfirmed}
	}
	sp, ok := vbSpellings[out]
	if !ok {
		panic("unknown outcome " + out)
	}
	m := sp[s.rng.Intn(len(sp))]
	return vbParseBroadcastError(&m, "10.0.0.1:8333")
}

func vbInt(v interface{}) int {
	switch x := v.(type) {
	case float64:
		return int(x)
	case int:
		return x
	}
	return 0
}

func (s *vbSUT) Step(act map[string]interface{}) (map[string]interface{}, interface{}, map[string]interface{}) {
	op, _ := act["op"].(string)
	tx := vbInt(act["tx"])
	out, _ := act["out"].(string)
	extra := map[string]interface{}{}
	s.bcRes = 0
	skipped := false
	switch op {
	case "BcastCall":
		if s.bcOut || tx < 1 || tx >= len(s.txs) {
			skipped = true
			break
		}
		s.bcOut, s.bcHung = true, false
		t := s.txs[tx]
		done := s.bcDone
		go func() {
			err := s.b.Broadcast(t)
			switch {
			case err == nil:
				done <- 1
			case err == vbErrStopped:
				done <- 3
			default:
				done <- 2
			}
		}()
	case "HRelease":
		if len(s.pendH) == 0 {
			skipped = true
			break
		}
		c := s.pendH[0]
		s.pendH = s.pendH[1:]
		tx = c.tx
		c.resp <- s.outcome(out)
	case "RbRelease":
		if len(s.pendR) == 0 {
			skipped = true
			break
		}
		c := s.pendR[0]
		s.pendR = s.pendR[1:]
		tx = c.tx
		c.resp <- s.outcome(out)
	case "MarkCall":
		if s.mkOut || tx < 1 || tx >= len(s.txs) {
			skipped = true
			break
		}
		s.mkOut, s.mkHung = true, false
		h := s.hashes[tx]
		done := s.mkDone
		go func() {
			s.b.MarkAsConfirmed(h)
			done <- struct{}{}
		}()
	case "Mined":
		// The rescan finds tx in a block; out = why the tx is relevant to
		// it (spend / pay / both / neither).  Real extractBlockMatches.
		if s.mkOut || tx < 1 || tx >= len(s.txs) || !s.env.canMine() {
			skipped = true
			break
		}
		s.mkOut, s.mkHung = true, false
		done := s.mkDone
		call := s.env.mined(s, tx, out)
		want := out != "neither"
		go func() {
			if got, err := call(); err != nil || got != want {
				s.relBad.Store(true)
			}
			done <- struct{}{}
		}()
	case "Block":
		var n blockntfns.BlockNtfn = blockntfns.NewBlockConnected(wire.BlockHeader{}, 7)
		if s.rng.Intn(2) == 0 {
			n = blockntfns.NewBlockDisconnected(wire.BlockHeader{}, 7, wire.BlockHeader{})
		}
		if s.closed {
			skipped = true
			break
		}
		select {
		case s.ntf <- n:
		default:
			skipped = true
		}
	case "CloseSub":
		// the producer of the subscription closes the channel (subscription
		// cancelled / subscription manager stopped before the Broadcaster)
		if s.closed {
			skipped = true
			break
		}
		s.closed = true
		close(s.ntf)
	case "Tick":
		time.Sleep(s.untilTick() + vbInterval/2)
	case "Stop":
		if s.stp != 0 {
			skipped = true
			break
		}
		s.stp = 1
		done := s.stDone
		go func() {
			s.b.Stop()
			done <- struct{}{}
		}()
	default:
		skipped = true
	}
	s.settle(extra)
	o := s.obs()
	res := "ok"
	switch {
	case skipped && op == "Block":
		res = "undelivered"
	case skipped:
		res = "skipped"
	case op == "BcastCall":
		switch {
		case o.Bc == 1:
			res = "pending"
		case o.Bc == 2:
			res = "hung"
		case o.BcRes == 3:
			res = "stopped"
		case o.BcRes == 1:
			res = "ok"
		default:
			res = "err"
		}
	case op == "MarkCall" || op == "Mined":
		res = [...]string{"ok", "pending", "hung"}[o.Mk]
		if s.relBad.Load() {
			res = "relevance-mismatch"
		}
	case op == "Stop":
		res = map[int]string{3: "ok", 1: "pending", 2: "hung", 0: "skipped"}[o.Stp]
	case op == "Block":
		res = "delivered"
	}
	return map[string]interface{}{"op": op, "tx": tx, "out": out, "res": res}, o, extra
}

// Epilogue releases every gate with "accepted" until the code is quiet.
func (s *vbSUT) Epilogue() []vwStep {
	var out []vwStep
	for i := 0; i < 8 && (len(s.pendH) > 0 || len(s.pendR) > 0); i++ {
		op := "RbRelease"
		if len(s.pendH) > 0 {
			op = "HRelease"
		}
		act, obs, extra := s.Step(map[string]interface{}{"op": op, "tx": 0, "out": "ok"})
		st := vwStep{Act: act, Obs: obs, Note: "after the code left the model: gate released"}
		if d, ok := extra["dump"].(string); ok {
			st.Dump = d
		}
		out = append(out, st)
	}
	return out
}

// Close brings every goroutine of the path to an end, whatever state the code
// is in (the bubble cannot be left while one of them is blocked).
func (s *vbSUT) Close() {
	if s.b == nil {
		return
	}
	if s.stp == 0 {
		s.stp = 1
		done := s.stDone
		go func() {
			s.b.Stop()
			done <- struct{}{}
		}()
	}
	for i := 0; i < 64; i++ {
		synctest.Wait()
		s.drain()
		progress := false
		for _, c := range append(s.pendH, s.pendR...) {
			c.resp <- nil
			progress = true
		}
		s.pendH, s.pendR = nil, nil
		// A caller stuck in a plain send on confChan / broadcastReqs
		// can only be released by taking its message (in-package only).
		if vbDrain(s.b) {
			progress = true
		}
		if s.pump() {
			progress = true
		}
		if !progress && !s.bcOut && !s.mkOut && s.stp == 3 {
			break
		}
		if !progress && i > 8 {
			break
		}
	}
	if s.bubble != "" {
		vbSUTs.Delete(s.bubble)
	}
}

func vbCtl(act map[string]interface{}) string {
	op, _ := act["op"].(string)
	out, _ := act["out"].(string)
	switch op {
	case "BcastCall", "MarkCall":
		return fmt.Sprintf("%s/%d", op, vbInt(act["tx"]))
	case "Mined":
		return fmt.Sprintf("%s/%d/%s", op, vbInt(act["tx"]), out)
	case "HRelease", "RbRelease":
		return op + "/" + out
	}
	return op
}

func TestVerifBroadcasterReplay(t *testing.T) {
	vbLogOnce.Do(func() { vbUseLogger(vbGateLogger{btclog.Disabled}) })
	vwRun(t, &vwFamily{
		name:   "broadcaster",
		ctlKey: vbCtl,
		bubble: func(t *testing.T, body func()) {
			// If the code under test leaves a goroutine blocked for good
			// (already recorded as a hung call by then) the bubble cannot
			// end; synctest reports that by a panic in this goroutine.
			defer func() {
				if r := recover(); r != nil && !strings.Contains(fmt.Sprint(r), "deadlock") {
					panic(r)
				}
			}()
			synctest.Test(t, func(*testing.T) { body() })
		},
		newSUT: func(rng *rand.Rand) vwSUT { return &vbSUT{rng: rng, env: vbNewEnv()} },
	})
}
