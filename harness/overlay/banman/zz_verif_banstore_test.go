package banman

// Replay driver for the BanStore family (C13, store part).  Injected into
// package banman at build time with `go test -overlay`; nothing is copied into
// /repo.  It executes paths of specs/BanStore/BanStore.tla against the real
// ban store (banman.NewStore on a real bbolt file through walletdb/bdb) and
// records, after every step, what Store.Status answers for every address
// class through one concrete spelling of every spelling group.
//
// Observation never disturbs the store under test: Status deletes lapsed
// records as a side effect, so the sweep is run on a snapshot of the database
// (walletdb.DB.Copy -> new file -> walletdb.Open -> banman.NewStore), i.e. on
// the real code over byte-identical data.  Explicit Status actions of a path
// run on the store under test itself.
//
// Time.  banman takes time.Now() itself and persists expiries in whole Unix
// seconds.  ASSUMPTION (recorded in the evidence): a query issued in the
// wall-clock second that contains the nominal expiry of a ban is not judged.
// The driver is built so that it never issues such a query:
//   - "lapsed" bans get a duration <= -2s (or one that lapses within ~1s, after
//     which the driver waits for the end of that second before it observes);
//   - "long" bans get hours;
//   - "short" bans (d ticks, thorough tier only) are placed on a time grid of
//     vfU per tick anchored at the first short ban: the nominal expiry is put
//     vfDelta before grid point L+d, every action of logical time L runs
//     inside [grid(L), grid(L)+vfW], Tick sleeps to the next grid point.  With
//     vfU-vfW > 2s+vfEps the whole second of the nominal expiry lies strictly
//     between the last action of tick L+d-1 and the first of tick L+d.  A path
//     whose actions miss their window (slow machine) is re-run, never judged.

import (
	"bufio"
	"bytes"
	"encoding/json"
	"fmt"
	"math"
	"math/rand"
	"net"
	"os"
	"path/filepath"
	"reflect"
	"runtime"
	"strconv"
	"strings"
	"sync"
	"testing"
	"time"

	"github.com/btcsuite/btcwallet/walletdb"
	_ "github.com/btcsuite/btcwallet/walletdb/bdb"
)

const (
	vfERR = -3
	vfG   = -2

	vfU     = 3000 * time.Millisecond // real time per logical tick while short bans are pending
	vfW     = 800 * time.Millisecond  // window after a grid point in which the actions of that tick run
	vfDelta = 1100 * time.Millisecond // nominal expiry = grid(L+d) - vfDelta
	vfEps   = 100 * time.Millisecond  // bound on the latency of one BanIPNet call
)

var vfKeepSweeps = os.Getenv("VERIF_KEEP_SWEEPS") == "1"

type vfAct struct {
	Op  string `json:"op"`
	C   int    `json:"c"`
	G   int    `json:"g"`
	D   int    `json:"d"`
	R   int    `json:"r"`
	Now int    `json:"now"`
	Res string `json:"res"`
	B   int    `json:"b"`
	RR  int    `json:"rr"`
	// two concurrent callers (K >= 0): the second caller's call and its outcome
	K    int    `json:"k"`
	Op2  string `json:"op2"`
	C2   int    `json:"c2"`
	G2   int    `json:"g2"`
	D2   int    `json:"d2"`
	R2   int    `json:"r2"`
	Res2 string `json:"res2"`
	B2   int    `json:"b2"`
	RR2  int    `json:"rr2"`
}

type vfObs struct {
	Q     [][][]int `json:"q"`
	Raw   [][][]int `json:"raw"`
	Other int       `json:"other"`
}

type vfStepIn struct {
	Act vfAct `json:"act"`
	Obs vfObs `json:"obs"`
}

type vfPathIn struct {
	ID      int        `json:"id"`
	PSeed   *int64     `json:"pseed,omitempty"`
	InitObs vfObs      `json:"init_obs"`
	Steps   []vfStepIn `json:"steps"`
}

type vfConc struct {
	Spelling string   `json:"spelling,omitempty"`
	Duration string   `json:"duration,omitempty"`
	Reason   *int     `json:"reason,omitempty"`
	Second   string   `json:"second,omitempty"` // concrete inputs of the second caller's call
	TxOfA    int      `json:"first_call_tx_before_second,omitempty"`
	Sweep    []string `json:"sweep,omitempty"`
}

type vfStepOut struct {
	Act  vfAct   `json:"act"`
	Obs  vfObs   `json:"obs"`
	Conc *vfConc `json:"conc,omitempty"`
	Note string  `json:"note,omitempty"`
}

type vfPathOut struct {
	ID      int         `json:"id"`
	PSeed   int64       `json:"pseed"`
	Addrs   []string    `json:"addrs,omitempty"`
	InitObs vfObs       `json:"init_obs"`
	Steps   []vfStepOut `json:"steps"`
	Retries int         `json:"retries,omitempty"`
	Soon    bool        `json:"soon,omitempty"`
	Error   string      `json:"error,omitempty"`
}

// ---------------------------------------------------------------------------
// Address classes and their spellings.

type vfClass struct {
	kind string // a4 | a6 | n4 | n6
	ip   net.IP // 4 or 16 bytes, already masked for networks
	ones int    // prefix length for networks
}

// A spelling is "P|text|ones/bits" (banman.ParseIPNet(text, CIDRMask) with an
// empty mask field meaning nil), "C|cidr|" (net.ParseCIDR, the *net.IPNet is
// handed to the store as is) or "N|text|ones/bits" (the literal
// &net.IPNet{IP: net.ParseIP(text).Mask(m), Mask: m}; net.ParseIP yields the
// 16-byte form also for IPv4 text).
func vfIPNetOf(sp string) (*net.IPNet, error) {
	f := strings.Split(sp, "|")
	if len(f) != 3 {
		return nil, fmt.Errorf("bad spelling %q", sp)
	}
	switch f[0] {
	case "P":
		var mask net.IPMask
		if f[2] != "" {
			ob := strings.Split(f[2], "/")
			o, _ := strconv.Atoi(ob[0])
			b, _ := strconv.Atoi(ob[1])
			mask = net.CIDRMask(o, b)
		}
		return ParseIPNet(f[1], mask)
	case "C":
		_, n, err := net.ParseCIDR(f[1])
		return n, err
	case "N":
		ob := strings.Split(f[2], "/")
		o, _ := strconv.Atoi(ob[0])
		b, _ := strconv.Atoi(ob[1])
		m := net.CIDRMask(o, b)
		ip := net.ParseIP(f[1])
		if ip == nil || m == nil {
			return nil, fmt.Errorf("bad spelling %q", sp)
		}
		if b == 128 {
			return &net.IPNet{IP: ip.To16().Mask(m), Mask: m}, nil
		}
		// 16-byte IP representation with a 4-byte mask
		masked := ip.Mask(m)
		if masked == nil {
			return nil, fmt.Errorf("bad spelling %q", sp)
		}
		return &net.IPNet{IP: masked.To16(), Mask: m}, nil
	}
	return nil, fmt.Errorf("bad spelling %q", sp)
}

func vfMappedTexts(ip4 net.IP) []string {
	a, b, c, d := ip4[0], ip4[1], ip4[2], ip4[3]
	dq := fmt.Sprintf("%d.%d.%d.%d", a, b, c, d)
	hi, lo := int(a)<<8|int(b), int(c)<<8|int(d)
	return []string{
		"::ffff:" + dq,
		"::FFFF:" + dq,
		fmt.Sprintf("::ffff:%x:%x", hi, lo),
		fmt.Sprintf("::FFFF:%X:%X", hi, lo),
		"0:0:0:0:0:ffff:" + dq,
		fmt.Sprintf("0000:0000:0000:0000:0000:ffff:%04x:%04x", hi, lo),
		fmt.Sprintf("0:0:0:0:0:FFFF:%X:%X", hi, lo),
		"0::ffff:" + dq,
	}
}

func vfV6Texts(ip net.IP) (comp string, others []string) {
	comp = ip.String()
	g := make([]int, 8)
	for i := range g {
		g[i] = int(ip[2*i])<<8 | int(ip[2*i+1])
	}
	full := make([]string, 8)
	nolead := make([]string, 8)
	for i := range g {
		full[i] = fmt.Sprintf("%04x", g[i])
		nolead[i] = fmt.Sprintf("%x", g[i])
	}
	f, n := strings.Join(full, ":"), strings.Join(nolead, ":")
	dotted := strings.Join(nolead[:6], ":") + fmt.Sprintf(":%d.%d.%d.%d", ip[12], ip[13], ip[14], ip[15])
	others = []string{strings.ToUpper(comp), f, strings.ToUpper(f), n, strings.ToUpper(n), dotted}
	return
}

func vfDQ(ip4 net.IP) string {
	return fmt.Sprintf("%d.%d.%d.%d", ip4[0], ip4[1], ip4[2], ip4[3])
}

func vfPick(rng *rand.Rand, xs []string) string { return xs[rng.Intn(len(xs))] }

func vfPort(rng *rand.Rand) string { return strconv.Itoa(1 + rng.Intn(65535)) }

// spelling manufactures one concrete spelling of group g of the class.
func (c *vfClass) spelling(g int, rng *rand.Rand) string {
	switch c.kind {
	case "a4":
		dq := vfDQ(c.ip)
		m := vfMappedTexts(c.ip)
		switch g {
		case 1:
			return vfPick(rng, []string{
				"P|" + dq + "|", "P|" + dq + ":" + vfPort(rng) + "|", "P|" + dq + "|32/32",
				"P|" + dq + ":" + vfPort(rng) + "|32/32", "C|" + dq + "/32|", "N|" + dq + "|32/32",
			})
		case 2:
			x := vfPick(rng, m)
			return vfPick(rng, []string{
				"P|" + x + "|", "P|[" + x + "]:" + vfPort(rng) + "|", "P|" + x + "|32/32",
			})
		default:
			x := vfPick(rng, m)
			return vfPick(rng, []string{
				"C|" + m[0] + "/128|", "C|" + m[2] + "/128|", "C|" + m[5] + "/128|",
				"P|" + dq + "|128/128", "P|" + x + "|128/128",
				"P|[" + x + "]:" + vfPort(rng) + "|128/128", "P|" + dq + ":" + vfPort(rng) + "|128/128",
				"N|" + dq + "|128/128", "N|" + x + "|128/128",
			})
		}
	case "a6":
		comp, others := vfV6Texts(c.ip)
		switch g {
		case 1:
			return vfPick(rng, []string{"P|" + comp + "|", "P|[" + comp + "]:" + vfPort(rng) + "|"})
		case 2:
			x := vfPick(rng, others)
			return vfPick(rng, []string{"P|" + x + "|", "P|[" + x + "]:" + vfPort(rng) + "|"})
		default:
			x := vfPick(rng, append(others, comp))
			return vfPick(rng, []string{
				"P|" + x + "|128/128", "P|[" + x + "]:" + vfPort(rng) + "|128/128", "C|" + x + "/128|",
			})
		}
	case "n4":
		dq := vfDQ(c.ip)
		m := vfMappedTexts(c.ip)
		mk := fmt.Sprintf("%d/32", c.ones)
		wide := fmt.Sprintf("%d/128", 96+c.ones) // the same network, mask in IPv4-mapped (16-byte) form
		cidr := fmt.Sprintf("C|%s/%d|", dq, c.ones)
		switch g {
		case 1:
			return vfPick(rng, []string{"P|" + dq + "|" + mk, "P|" + dq + ":" + vfPort(rng) + "|" + mk, cidr,
				"N|" + dq + "|" + mk})
		case 2:
			x := vfPick(rng, m)
			return vfPick(rng, []string{"P|" + x + "|" + mk, "P|[" + x + "]:" + vfPort(rng) + "|" + mk,
				"N|" + x + "|" + mk})
		default:
			x := vfPick(rng, m)
			return vfPick(rng, []string{
				fmt.Sprintf("C|%s/%d|", m[0], 96+c.ones), fmt.Sprintf("C|%s/%d|", m[2], 96+c.ones),
				fmt.Sprintf("C|%s/%d|", m[5], 96+c.ones),
				"P|" + dq + "|" + wide, "P|" + x + "|" + wide, "P|[" + x + "]:" + vfPort(rng) + "|" + wide,
				"N|" + dq + "|" + wide, "N|" + x + "|" + wide,
			})
		}
	case "n6":
		comp, others := vfV6Texts(c.ip)
		mk := fmt.Sprintf("%d/128", c.ones)
		switch g {
		case 1:
			return vfPick(rng, []string{
				"P|" + comp + "|" + mk, "P|[" + comp + "]:" + vfPort(rng) + "|" + mk,
				fmt.Sprintf("C|%s/%d|", comp, c.ones),
			})
		case 2:
			x := vfPick(rng, others)
			return vfPick(rng, []string{"P|" + x + "|" + mk, "P|[" + x + "]:" + vfPort(rng) + "|" + mk})
		default:
			x := vfPick(rng, append(others, comp))
			return fmt.Sprintf("C|%s/%d|", x, c.ones)
		}
	}
	panic("unknown class kind " + c.kind)
}

// keys returns the canonical serialisation (key form 1) and, for IPv4
// addresses and networks, the serialisation with a 16-byte mask (key form 2).
func (c *vfClass) keys() (k1, k2 []byte) {
	switch c.kind {
	case "a4", "n4":
		k1 = append([]byte{ipv4}, c.ip.To4()...)
		ones := 32
		if c.kind == "n4" {
			ones = c.ones
		}
		k1 = append(k1, net.CIDRMask(ones, 32)...)
		k2 = append([]byte{ipv4}, c.ip.To4()...)
		k2 = append(k2, net.CIDRMask(96+ones, 128)...)
	default:
		k1 = append([]byte{ipv6}, c.ip.To16()...)
		ones := 128
		if c.kind == "n6" {
			ones = c.ones
		}
		k1 = append(k1, net.CIDRMask(ones, 128)...)
	}
	return
}

func (c *vfClass) String() string {
	switch c.kind {
	case "n4", "n6":
		return fmt.Sprintf("%s/%d", c.ip, c.ones)
	}
	return c.ip.String()
}

// vfMakeClasses: 1 A4, 2 A6, 3 N4 (contains A4 and B4), 4 B4, 5 N6 (contains A6).
func vfMakeClasses(rng *rand.Rand, nc int) []*vfClass {
	p4 := []int{8, 16, 20, 24, 28, 30}[rng.Intn(6)]
	a4 := net.IP{byte(1 + rng.Intn(223)), byte(rng.Intn(256)), byte(rng.Intn(256)), byte(rng.Intn(256))}
	if a4[0] == 127 {
		a4[0] = 128
	}
	b4 := append(net.IP(nil), a4...)
	bit := rng.Intn(32 - p4) // a host bit
	b4[3-bit/8] ^= 1 << (bit % 8)
	n4 := a4.Mask(net.CIDRMask(p4, 32))

	p6 := []int{32, 48, 56, 64, 96, 112, 120}[rng.Intn(7)]
	a6 := make(net.IP, 16)
	a6[0], a6[1], a6[2], a6[3] = 0x20, 0x01, 0x0d, 0xb8
	for i := 4; i < 16; i += 2 {
		switch rng.Intn(3) {
		case 0: // zero group (so that compression has something to do)
		case 1:
			a6[i+1] = byte(1 + rng.Intn(255))
		default:
			a6[i], a6[i+1] = byte(rng.Intn(256)), byte(rng.Intn(256))
		}
	}
	a6[15] |= 1
	n6 := a6.Mask(net.CIDRMask(p6, 128))

	all := []*vfClass{
		{kind: "a4", ip: a4}, {kind: "a6", ip: a6}, {kind: "n4", ip: n4, ones: p4},
		{kind: "a4", ip: b4}, {kind: "n6", ip: n6, ones: p6},
	}
	return all[:nc]
}

// ---------------------------------------------------------------------------

// ---------------------------------------------------------------------------
// Two callers.  The store under test sits on vfGateDB, a walletdb.DB proxy
// through which every database transaction of the store passes.  During a
// two-caller step the proxy is the scheduler: when the first caller's call is
// about to begin its (k+1)-th transaction (its k-th has committed), it is held
// there, the second caller's call runs to completion in a goroutine of its
// own, then the first call resumes.  If the first call returns having made
// fewer transactions, the second call runs right after it.  On code where
// every call is one transaction this only ever yields "second call entirely
// before" (k = 0) or "entirely after" (k >= 1) the first.

type vfPairPlan struct {
	k       int
	started int // transactions the first call has begun
	fired   bool
	second  func()
	done    chan struct{} // closed when the second call has returned
}

type vfGateDB struct {
	walletdb.DB
	mu   sync.Mutex
	plan *vfPairPlan
}

func (d *vfGateDB) gate() {
	d.mu.Lock()
	p := d.plan
	if p == nil || p.fired {
		d.mu.Unlock()
		return
	}
	if p.started < p.k {
		p.started++
		d.mu.Unlock()
		return
	}
	p.fired = true
	d.mu.Unlock()
	done := vfRunSecond(p.second)
	d.mu.Lock()
	p.done = done
	d.mu.Unlock()
}

// vfRunSecond runs the second caller's call in its own goroutine and waits for
// it.  Should it not finish (it could be waiting for something the held first
// call owns) the first call is let go after a bound and the second call simply
// finishes later; the step is then still two overlapping calls.
func vfRunSecond(f func()) (done chan struct{}) {
	done = make(chan struct{})
	go func() {
		defer close(done)
		f()
	}()
	select {
	case <-done:
	case <-time.After(2 * time.Second):
	}
	return done
}

func (d *vfGateDB) Update(f func(tx walletdb.ReadWriteTx) error, reset func()) error {
	d.gate()
	return d.DB.Update(f, reset)
}

func (d *vfGateDB) View(f func(tx walletdb.ReadTx) error, reset func()) error {
	d.gate()
	return d.DB.View(f, reset)
}

func (d *vfGateDB) BeginReadTx() (walletdb.ReadTx, error) {
	d.gate()
	return d.DB.BeginReadTx()
}

func (d *vfGateDB) BeginReadWriteTx() (walletdb.ReadWriteTx, error) {
	d.gate()
	return d.DB.BeginReadWriteTx()
}

type vfPending struct {
	lexp int
}

type vfEnv struct {
	dir     string
	dbPath  string
	db      walletdb.DB
	gate    *vfGateDB
	store   Store
	rng     *rand.Rand
	classes []*vfClass
	reasons []Reason // abstract reason id (1-based) -> concrete
	soon    bool     // may use durations that lapse within about a second

	clock    int // logical time
	anchored bool
	anchorL  int
	anchorT  time.Time
	pending  []vfPending
	miss     string // set when an action ran outside its time window
	broken   string // set when the driver's own machinery (snapshot copy) failed
}

func (e *vfEnv) open(create bool) error {
	var err error
	if create {
		e.db, err = walletdb.Create("bdb", e.dbPath, true, 10*time.Second, false)
	} else {
		e.db, err = walletdb.Open("bdb", e.dbPath, true, 10*time.Second, false)
	}
	if err != nil {
		e.db = nil
		return err
	}
	e.gate = &vfGateDB{DB: e.db}
	e.store, err = NewStore(e.gate)
	if err != nil {
		e.db.Close()
		e.db, e.store = nil, nil
	}
	return err
}

func (e *vfEnv) close() {
	if e.db != nil {
		e.db.Close()
		e.db, e.store = nil, nil
	}
}

func (e *vfEnv) absReason(r Reason) int {
	for i, x := range e.reasons {
		if x == r {
			return i + 1
		}
	}
	return vfG
}

func vfWall() time.Time { return time.Unix(0, time.Now().UnixNano()) } // wall clock, no monotonic part

func vfSleepUntil(t time.Time) {
	for {
		d := t.Sub(vfWall())
		if d <= 0 {
			return
		}
		if d > 50*time.Millisecond {
			d = 50 * time.Millisecond
		}
		time.Sleep(d)
	}
}

func (e *vfEnv) grid(l int) time.Time {
	return e.anchorT.Add(time.Duration(l-e.anchorL) * vfU)
}

// checkWindow is called after every action and observation of logical time
// e.clock.
func (e *vfEnv) checkWindow() {
	if e.anchored && e.miss == "" {
		if late := vfWall().Sub(e.grid(e.clock).Add(vfW)); late > 0 {
			e.miss = fmt.Sprintf("actions of tick %d ran %v past their window", e.clock, late)
		}
	}
}

// safely runs a store call, turning a panic of the code under test into the
// outcome "panic".
func vfSafely(fn func() error) (res string) {
	defer func() {
		if r := recover(); r != nil {
			res = "panic"
		}
	}()
	if err := fn(); err != nil {
		return "err"
	}
	return "ok"
}

// vfCall is one prepared store call of a two-caller step.
type vfCall struct {
	op     string
	ipNet  *net.IPNet
	reason Reason
	dur    time.Duration
	desc   string
	perr   error
}

func (e *vfEnv) prepare(op string, c, g, d, r int) *vfCall {
	k := &vfCall{op: op}
	sp := e.classes[c-1].spelling(g, e.rng)
	k.ipNet, k.perr = vfIPNetOf(sp)
	k.desc = op + " " + sp
	if op == "Ban" {
		k.reason = e.reasons[r-1]
		if d < 0 {
			k.dur = []time.Duration{-2 * time.Second, -time.Minute, -time.Hour, -24 * time.Hour,
				math.MinInt64}[e.rng.Intn(5)]
		} else {
			k.dur = []time.Duration{15 * time.Minute, time.Hour, 24 * time.Hour, 1000 * time.Hour,
				2190000 * time.Hour, math.MaxInt64}[e.rng.Intn(6)]
		}
		k.desc += fmt.Sprintf(" reason=%d duration=%v", k.reason, k.dur)
	}
	return k
}

func (e *vfEnv) perform(k *vfCall) (res string, b, rr int) {
	b, rr = -1, -1
	if k.perr != nil {
		if k.op == "Status" {
			return "err", vfERR, vfERR
		}
		return "err", b, rr
	}
	switch k.op {
	case "Ban":
		res = vfSafely(func() error { return e.store.BanIPNet(k.ipNet, k.reason, k.dur) })
	case "Unban":
		res = vfSafely(func() error { return e.store.UnbanIPNet(k.ipNet) })
	case "Status":
		var st Status
		res = vfSafely(func() error {
			var err error
			st, err = e.store.Status(k.ipNet)
			return err
		})
		switch {
		case res != "ok":
			b, rr = vfERR, vfERR
		case st.Banned:
			b, rr = 1, e.absReason(st.Reason)
		default:
			b, rr = 0, 0
		}
	default:
		panic("unknown op " + k.op)
	}
	return
}

// execPair runs a two-caller step (only lapsed / long durations occur here).
func (e *vfEnv) execPair(a vfAct) (vfAct, *vfConc) {
	out := a
	out.Now = e.clock
	first := e.prepare(a.Op, a.C, a.G, a.D, a.R)
	second := e.prepare(a.Op2, a.C2, a.G2, a.D2, a.R2)
	var res2 string
	var b2, rr2 int
	runSecond := func() {
		res2, b2, rr2 = e.perform(second)
	}
	plan := &vfPairPlan{k: a.K, second: runSecond}
	e.gate.mu.Lock()
	e.gate.plan = plan
	e.gate.mu.Unlock()
	out.Res, out.B, out.RR = e.perform(first)
	e.gate.mu.Lock()
	fired := plan.fired
	plan.fired = true // nothing is gated any more
	started := plan.started
	done := plan.done
	e.gate.plan = nil
	e.gate.mu.Unlock()
	if !fired {
		done = vfRunSecond(runSecond)
	}
	// the second call must be over before anything is observed
	select {
	case <-done:
	case <-time.After(30 * time.Second):
		e.broken = "the second caller's call did not return"
		out.Res2, out.B2, out.RR2 = "hang", vfERR, vfERR
		return out, &vfConc{Spelling: first.desc, Second: second.desc, TxOfA: started}
	}
	out.Res2, out.B2, out.RR2 = res2, b2, rr2
	return out, &vfConc{Spelling: first.desc, Second: second.desc, TxOfA: started}
}

func (e *vfEnv) exec(a vfAct) (vfAct, *vfConc) {
	if a.K >= 0 {
		return e.execPair(a)
	}
	out := a
	out.Now = e.clock
	conc := &vfConc{}
	var ipNet *net.IPNet
	if a.Op == "Ban" || a.Op == "Unban" || a.Op == "Status" {
		conc.Spelling = e.classes[a.C-1].spelling(a.G, e.rng)
		var err error
		ipNet, err = vfIPNetOf(conc.Spelling)
		if err != nil {
			out.Res = "err"
			if a.Op == "Status" {
				out.B, out.RR = vfERR, vfERR
			}
			return out, conc
		}
	}
	switch a.Op {
	case "Ban":
		reason := e.reasons[a.R-1]
		ri := int(reason)
		conc.Reason = &ri
		var dur time.Duration
		var waitTo time.Time
		t0 := vfWall()
		switch {
		case a.D < 0:
			choices := []time.Duration{-2 * time.Second, -2500 * time.Millisecond, -time.Minute, -time.Hour,
				-24 * time.Hour, -1000000 * time.Hour, math.MinInt64}
			// both draws are always made, so that the random stream (and with
			// it every later spelling) does not depend on the soon flag
			x, y := e.rng.Intn(64), e.rng.Intn(42)
			if e.soon && !e.anchored && x == 0 {
				dur = []time.Duration{0, 1, -1, 300 * time.Millisecond, -300 * time.Millisecond,
					-999 * time.Millisecond}[y%6]
			} else {
				dur = choices[y%len(choices)]
			}
		case a.D >= 50:
			// incl. bans that end after the year 2262 (the end of the int64
			// nanosecond range) and the longest duration there is ("for ever")
			dur = []time.Duration{time.Hour, 24 * time.Hour, 1000 * time.Hour, 2000000 * time.Hour,
				15 * time.Minute, 2190000 * time.Hour, math.MaxInt64}[e.rng.Intn(7)]
		default:
			if !e.anchored {
				e.anchored, e.anchorL, e.anchorT = true, e.clock, t0
			}
			dur = e.grid(e.clock + a.D).Add(-vfDelta).Sub(t0)
			e.pending = append(e.pending, vfPending{lexp: e.clock + a.D})
		}
		conc.Duration = dur.String()
		out.Res = vfSafely(func() error { return e.store.BanIPNet(ipNet, reason, dur) })
		t1 := vfWall()
		if a.D > 0 && a.D < 50 && t1.Sub(t0) > vfEps && e.miss == "" {
			e.miss = fmt.Sprintf("BanIPNet took %v", t1.Sub(t0))
		}
		if a.D < 0 && dur > -1500*time.Millisecond {
			// lapses within about a second: leave the second of the nominal
			// expiry before anything is observed
			nominal := t1
			if dur > 0 {
				nominal = t1.Add(dur)
			}
			waitTo = time.Unix(nominal.Unix()+1, 0)
			vfSleepUntil(waitTo)
		}
	case "Unban":
		out.Res = vfSafely(func() error { return e.store.UnbanIPNet(ipNet) })
	case "Status":
		var st Status
		out.Res = vfSafely(func() error {
			var err error
			st, err = e.store.Status(ipNet)
			return err
		})
		if out.Res != "ok" {
			out.B, out.RR = vfERR, vfERR
		} else if st.Banned {
			out.B, out.RR = 1, e.absReason(st.Reason)
		} else {
			out.B, out.RR = 0, 0
		}
	case "Reopen":
		e.close()
		if err := e.open(false); err != nil {
			out.Res = "err"
		} else {
			out.Res = "ok"
		}
	case "Tick":
		if e.anchored {
			vfSleepUntil(e.grid(e.clock + 1))
		}
		e.clock++
		out.Now = e.clock
		if e.anchored {
			keep := e.pending[:0]
			for _, p := range e.pending {
				if p.lexp > e.clock {
					keep = append(keep, p)
				}
			}
			e.pending = keep
			if len(e.pending) == 0 {
				e.anchored = false
			}
		}
		out.Res = "ok"
	default:
		panic("unknown op " + a.Op)
	}
	if conc.Spelling == "" && conc.Duration == "" {
		conc = nil
	}
	return out, conc
}

// observe answers: what does Status say for every class through every
// spelling group (on a snapshot), and what is in the buckets.
func (e *vfEnv) observe(conc **vfConc) vfObs {
	nc := len(e.classes)
	o := vfObs{Q: make([][][]int, nc), Raw: make([][][]int, nc)}
	for c := range o.Q {
		o.Q[c] = [][]int{{vfERR, vfERR}, {vfERR, vfERR}, {vfERR, vfERR}}
		o.Raw[c] = [][]int{{vfERR, vfERR}, {vfERR, vfERR}}
	}
	if e.db == nil {
		return o
	}
	// raw buckets of the store under test
	known := map[string]bool{}
	err := walletdb.View(e.db, func(tx walletdb.ReadTx) error {
		top := tx.ReadBucket(banStoreBucket)
		if top == nil {
			return ErrCorruptedStore
		}
		bi, ri := top.NestedReadBucket(banBucket), top.NestedReadBucket(reasonBucket)
		if bi == nil || ri == nil {
			return ErrCorruptedStore
		}
		now := time.Now()
		for c, cl := range e.classes {
			k1, k2 := cl.keys()
			for f, k := range [][]byte{k1, k2} {
				o.Raw[c][f] = []int{0, 0}
				if k == nil {
					continue
				}
				known[string(k)] = true
				v, r := bi.Get(k), ri.Get(k)
				if v == nil && r == nil {
					continue
				}
				if v == nil || r == nil || len(v) != 8 || len(r) != 1 {
					o.Other++
					continue
				}
				exp := time.Unix(int64(byteOrder.Uint64(v)), 0)
				st := 1
				if now.Before(exp) {
					st = 2
				}
				o.Raw[c][f] = []int{st, e.absReason(Reason(r[0]))}
			}
		}
		count := func(b walletdb.ReadBucket) error {
			return b.ForEach(func(k, _ []byte) error {
				if !known[string(k)] {
					o.Other++
				}
				return nil
			})
		}
		if err := count(bi); err != nil {
			return err
		}
		return count(ri)
	})
	if err != nil {
		o.Other = vfERR
	}

	// Status sweep on a snapshot
	snap := filepath.Join(e.dir, "snap.db")
	defer os.Remove(snap)
	var buf bytes.Buffer
	if err := e.db.Copy(&buf); err != nil {
		e.broken = "snapshot copy: " + err.Error()
		return o
	}
	if err := os.WriteFile(snap, buf.Bytes(), 0o600); err != nil {
		e.broken = "snapshot write: " + err.Error()
		return o
	}
	sdb, err := walletdb.Open("bdb", snap, true, 10*time.Second, false)
	if err != nil {
		e.broken = "snapshot open: " + err.Error()
		return o
	}
	defer sdb.Close()
	var sweep []string
	var ss Store
	if vfSafely(func() error { var err error; ss, err = NewStore(sdb); return err }) != "ok" {
		return o
	}
	for c, cl := range e.classes {
		for g := 1; g <= 3; g++ {
			sp := cl.spelling(g, e.rng)
			sweep = append(sweep, sp)
			res := vfSafely(func() error {
				n, err := vfIPNetOf(sp)
				if err != nil {
					return err
				}
				st, err := ss.Status(n)
				if err != nil {
					return err
				}
				if st.Banned {
					o.Q[c][g-1] = []int{1, e.absReason(st.Reason)}
				} else {
					o.Q[c][g-1] = []int{0, 0}
				}
				return nil
			})
			if res != "ok" {
				o.Q[c][g-1] = []int{vfERR, vfERR}
			}
		}
	}
	if conc != nil {
		if *conc == nil {
			*conc = &vfConc{}
		}
		(*conc).Sweep = sweep
	}
	return o
}

func vfRunOnce(p vfPathIn, scratch string, seed int64, soon bool) (out vfPathOut, miss string) {
	out.ID = p.ID
	out.PSeed = seed
	out.Soon = soon
	dir, err := os.MkdirTemp(scratch, "p")
	if err != nil {
		out.Error = err.Error()
		return
	}
	defer os.RemoveAll(dir)
	rng := rand.New(rand.NewSource(seed))
	e := &vfEnv{dir: dir, dbPath: filepath.Join(dir, "ban.db"), rng: rng, soon: soon}
	e.classes = vfMakeClasses(rng, len(p.InitObs.Q))
	for _, c := range e.classes {
		out.Addrs = append(out.Addrs, c.String())
	}
	pool := []Reason{ExceededBanThreshold, NoCompactFilters, InvalidFilterHeader, InvalidFilterHeaderCheckpoint,
		InvalidBlock, 0, 77, 255}
	rng.Shuffle(len(pool), func(i, j int) { pool[i], pool[j] = pool[j], pool[i] })
	e.reasons = pool[:4]
	defer e.close()
	defer func() {
		if r := recover(); r != nil {
			buf := make([]byte, 8192)
			buf = buf[:runtime.Stack(buf, false)]
			out.Error = fmt.Sprintf("driver panic: %v\n%s", r, buf)
		}
	}()
	if err := e.open(true); err != nil {
		out.Error = "initial open: " + err.Error()
		return
	}
	out.InitObs = e.observe(nil)
	if e.broken != "" {
		out.Error = e.broken
		return
	}
	for _, s := range p.Steps {
		if e.db == nil && s.Act.Op != "Reopen" {
			break
		}
		a, conc := e.exec(s.Act)
		o := e.observe(&conc)
		if conc != nil && !vfKeepSweeps && reflect.DeepEqual(o, s.Obs) {
			// the spellings of an unremarkable sweep can be re-derived from
			// pseed; they are kept where code and model differ
			conc.Sweep = nil
			if conc.Spelling == "" && conc.Duration == "" {
				conc = nil
			}
		}
		e.checkWindow()
		if e.broken != "" {
			out.Error = e.broken
			return
		}
		if e.miss != "" {
			return out, e.miss
		}
		out.Steps = append(out.Steps, vfStepOut{Act: a, Obs: o, Conc: conc})
	}
	return
}

func vfRunPath(p vfPathIn, scratch string, seed int64, soon bool) vfPathOut {
	pseed := seed*1000003 + int64(p.ID)
	if p.PSeed != nil {
		pseed = *p.PSeed
	}
	var out vfPathOut
	for try := 0; try < 5; try++ {
		var miss string
		out, miss = vfRunOnce(p, scratch, pseed, soon)
		out.Retries = try
		if miss == "" {
			return out
		}
		out.Error = "timing: " + miss
	}
	return out
}

func TestVerifBanStoreReplay(t *testing.T) {
	in, outFn := os.Getenv("VERIF_PATHS"), os.Getenv("VERIF_OUT")
	if in == "" || outFn == "" {
		t.Skip("VERIF_PATHS / VERIF_OUT not set")
	}
	scratch := os.Getenv("VERIF_SCRATCH")
	if scratch == "" {
		scratch = t.TempDir()
	}
	seed, _ := strconv.ParseInt(os.Getenv("VERIF_SEED"), 10, 64)
	soon := os.Getenv("VERIF_SOON") == "1"
	nw := runtime.NumCPU()
	if v, err := strconv.Atoi(os.Getenv("VERIF_PAR")); err == nil && v > 0 {
		nw = v
	}
	f, err := os.Open(in)
	if err != nil {
		t.Fatal(err)
	}
	defer f.Close()
	var paths []vfPathIn
	sc := bufio.NewScanner(f)
	sc.Buffer(make([]byte, 1<<20), 1<<28)
	for sc.Scan() {
		var p vfPathIn
		if err := json.Unmarshal(sc.Bytes(), &p); err != nil {
			t.Fatal(err)
		}
		paths = append(paths, p)
	}
	of, err := os.Create(outFn)
	if err != nil {
		t.Fatal(err)
	}
	w := bufio.NewWriter(of)
	enc := json.NewEncoder(w)
	var outMu sync.Mutex
	var encErr error
	var wg sync.WaitGroup
	jobs := make(chan int)
	for k := 0; k < nw; k++ {
		wg.Add(1)
		go func() {
			defer wg.Done()
			for i := range jobs {
				r := vfRunPath(paths[i], scratch, seed, soon)
				outMu.Lock()
				if err := enc.Encode(&r); err != nil && encErr == nil {
					encErr = err
				}
				outMu.Unlock()
			}
		}()
	}
	for i := range paths {
		jobs <- i
	}
	close(jobs)
	wg.Wait()
	if encErr != nil {
		t.Fatal(encErr)
	}
	w.Flush()
	of.Close()
}
