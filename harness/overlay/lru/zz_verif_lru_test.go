//go:build verif

package lru

// Driver for the LRU family (C16).  Injected into package lru (module
// /repo/cache) at build time with `go test -overlay -tags verif`; nothing is
// copied into /repo.
//
// TestVerifLRUReplay executes paths of specs/LRU/LRU.tla against the real
// Cache[int, *vfVal].  Every model thread is a real goroutine calling the real
// Put / Get / LoadAndDelete / Len / Size / Range.  The goroutines park at the
// verifYield hooks of lru.go; a scheduler releases exactly ONE goroutine per
// model step and waits until it parks at its next hook or returns, so every
// interleaving TLC enumerates (at yield-point granularity) is reproduced on
// the real cache.  After every step the public observables (Len, Size, Range,
// RangeFILO, "does the cache still answer") and the internal ll / index /
// size are projected.
//
// A goroutine that does not reach a hook is looked up in a goroutine dump: if
// it is parked on the cache mutex and no parked goroutine holds that mutex,
// the call can never return (res = BLOCKED) - this is how a leaked mutex is
// detected, not by waiting.
//
// TestVerifLRUFree runs real goroutines with no scheduling at all (the hooks
// only yield the processor at random) and logs call / return events; the
// histories are judged for linearizability by TLC (LRUProps).

import (
	"bufio"
	"bytes"
	"encoding/json"
	"errors"
	"fmt"
	"math/bits"
	"math/rand"
	"os"
	"runtime"
	"strconv"
	"strings"
	"sync"
	"sync/atomic"
	"testing"
	"time"

	"github.com/lightninglabs/neutrino/cache"
)

const (
	vfNF      = -1
	vfERR     = -3
	vfBLOCKED = -7
	vfWAIT    = -5
	vfPANIC   = -9
	vfNA      = -999
	vfNOTMULT = -888
)

var errVfSize = errors.New("verif: size of this value cannot be computed")

// vfVal is the cache.Value used by the driver: value id, nominal size, and a
// switch that makes Size() fail from some point on.
type vfVal struct {
	id   int
	size uint64
	bad  atomic.Bool
}

func (v *vfVal) Size() (uint64, error) {
	if v.bad.Load() {
		return 0, errVfSize
	}
	return v.size, nil
}

type vfAct struct {
	Op   string          `json:"op"`
	T    int             `json:"t"`
	K    int             `json:"k"`
	V    int             `json:"v"`
	Step string          `json:"step"`
	Call int             `json:"call"`
	Ret  int             `json:"ret"`
	Res  int64           `json:"res"`
	RR   json.RawMessage `json:"rr"`
	W    int             `json:"w"`
	WRet int             `json:"wret"`
	WRes int64           `json:"wres"`
}

type vfObs struct {
	Cap   int      `json:"cap"`
	Sizes []int    `json:"sizes"`
	Scale string   `json:"scale"`
	Cb    int      `json:"cb"`
	Free  int      `json:"free"`
	Len   int      `json:"len"`
	Size  int64    `json:"size"`
	Range []int    `json:"range"`
	Filo  [][2]int `json:"filo"`
	Isz   int64    `json:"isz"`
	Idx   []int    `json:"idx"`
}

type vfStepIn struct {
	Act vfAct `json:"act"`
	Obs vfObs `json:"obs"`
}

type vfPathIn struct {
	ID      int        `json:"id"`
	InitObs vfObs      `json:"init_obs"`
	Steps   []vfStepIn `json:"steps"`
}

type vfStepOut struct {
	Act  vfAct  `json:"act"`
	Obs  vfObs  `json:"obs"`
	Pt   string `json:"pt,omitempty"`
	Note string `json:"note,omitempty"`
	Dump string `json:"dump,omitempty"`
}

type vfPathOut struct {
	ID      int         `json:"id"`
	InitObs vfObs       `json:"init_obs"`
	Steps   []vfStepOut `json:"steps"`
	Error   string      `json:"error,omitempty"`
}

// ---------------------------------------------------------------------------
// goroutine identity and states

func vfGoID() int64 {
	var buf [64]byte
	n := runtime.Stack(buf[:], false)
	// "goroutine 123 [running]:"
	f := bytes.Fields(buf[:n])
	id, _ := strconv.ParseInt(string(f[1]), 10, 64)
	return id
}

// vfGoState returns the wait status of goroutine id ("" if it does not
// exist), its stack, and the complete dump.
var vfDumpPool = sync.Pool{New: func() any { b := make([]byte, 256<<10); return &b }}

func vfGoState(id int64) (status, stack, dump string) {
	bp := vfDumpPool.Get().(*[]byte)
	buf := *bp
	for {
		n := runtime.Stack(buf, true)
		if n < len(buf) {
			dump = string(buf[:n])
			break
		}
		buf = make([]byte, 2*len(buf))
	}
	*bp = buf
	vfDumpPool.Put(bp)
	hdr := fmt.Sprintf("goroutine %d [", id)
	for _, g := range strings.Split(dump, "\n\n") {
		if strings.HasPrefix(g, hdr) {
			rest := g[len(hdr):]
			if i := strings.Index(rest, "]"); i >= 0 {
				status = rest[:i]
			}
			return status, g, dump
		}
	}
	return "", "", dump
}

// vfOnMutex: is the goroutine parked in Lock / RLock of a mutex that was
// called directly by a method of the cache? (Transient waits on other locks,
// e.g. inside sync.Map or in the driver, do not count.)
func vfOnMutex(status, stack string) bool {
	if !(strings.Contains(status, "Mutex") || strings.HasPrefix(status, "semacquire")) {
		return false
	}
	lines := strings.Split(stack, "\n")
	for _, ln := range lines[1:] {
		if ln == "" || ln[0] == '\t' {
			continue
		}
		if strings.HasPrefix(ln, "runtime.") || strings.HasPrefix(ln, "internal/") ||
			strings.HasPrefix(ln, "sync.runtime_") ||
			strings.HasPrefix(ln, "sync.(*Mutex).") || strings.HasPrefix(ln, "sync.(*RWMutex).") {
			continue
		}
		return strings.Contains(ln, "cache/lru.(*Cache[")
	}
	return false
}

// ---------------------------------------------------------------------------
// hook dispatch: goroutine id -> worker

var vfWorkers sync.Map // int64 -> *vfWorker

func vfHook(point string) {
	w, ok := vfWorkers.Load(vfGoID())
	if !ok {
		return
	}
	w.(*vfWorker).atHook(point)
}

func init() {
	verifHook.Store(func(p string) { vfHook(p) })
}

type vfEvent struct {
	kind  string // "hook" | "ret"
	point string
	res   int64
	rr    []int
}

type vfOp struct {
	op   string
	k, v int
}

type vfWorker struct {
	env     *vfEnv
	t       int
	gid     int64
	cmd     chan vfOp
	ev      chan vfEvent
	release chan struct{}
	busy    bool   // an operation is running (parked at a hook or blocked)
	at      string // hook it is parked at
	blocked bool   // parked on a mutex nobody will release
	waiting bool   // parked on the mutex, which a parked worker holds

	// free-running mode
	free bool
	rng  *rand.Rand
}

type vfEnv struct {
	c      *Cache[int, *vfVal]
	cap    int
	sizes  []int
	scale  uint64 // every size and the capacity are multiplied by it for the real cache
	scaleS string
	cb     int // 1: the cache has an onDelete callback, which is a yield point ("cb")
	nk     int
	vals   []*vfVal // index v-1
	ws     []*vfWorker
	abort  atomic.Bool
	holder int // 0 mutex free, t > 0 held by parked worker t, -1 held by nobody (leaked)
}

func (w *vfWorker) atHook(point string) {
	if w.free {
		if point == "cb" {
			// a user callback takes its time
			runtime.Gosched()
			if w.rng.Intn(2) == 0 {
				time.Sleep(time.Duration(w.rng.Intn(50)) * time.Microsecond)
			}
			return
		}
		if w.rng.Intn(3) == 0 {
			runtime.Gosched()
		}
		return
	}
	if w.env.abort.Load() || point == "put.stored" {
		return
	}
	w.ev <- vfEvent{kind: "hook", point: point}
	<-w.release
}

func (e *vfEnv) exec(o vfOp) (res int64, rr []int) {
	defer func() {
		if r := recover(); r != nil {
			res, rr = vfPANIC, nil
		}
	}()
	switch o.op {
	case "Put":
		ev, err := e.c.Put(o.k, e.vals[o.v-1])
		if err != nil {
			return vfERR, nil
		}
		if ev {
			return 1, nil
		}
		return 0, nil
	case "Get":
		v, err := e.c.Get(o.k)
		if err == cache.ErrElementNotFound {
			return vfNF, nil
		}
		if err != nil {
			return vfERR, nil
		}
		return int64(v.id), nil
	case "Del":
		v, ok := e.c.LoadAndDelete(o.k)
		if !ok {
			return vfNF, nil
		}
		return int64(v.id), nil
	case "Len":
		return int64(e.c.Len()), nil
	case "Size":
		return e.units(e.c.Size()), nil
	case "Range":
		return 0, e.rangeMap()
	}
	panic("verif driver: unknown op " + o.op)
}

func (e *vfEnv) rangeMap() []int {
	m := make([]int, e.nk)
	e.c.Range(func(k int, v *vfVal) bool {
		if k >= 1 && k <= e.nk {
			m[k-1] = v.id
		}
		return true
	})
	return m
}

func (w *vfWorker) loop(ready chan struct{}) {
	w.gid = vfGoID()
	vfWorkers.Store(w.gid, w)
	defer vfWorkers.Delete(w.gid)
	close(ready)
	for o := range w.cmd {
		res, rr := w.env.exec(o)
		w.ev <- vfEvent{kind: "ret", res: res, rr: rr}
	}
}

// units converts a size of the real cache to model units: with scale 1 the
// int64 reading (a wrapped total is negative), otherwise the quotient, or
// NOTMULT when it is not a multiple of the scale.
func (e *vfEnv) units(v uint64) int64 {
	if e.scale <= 1 {
		return int64(v)
	}
	if v%e.scale != 0 {
		return vfNOTMULT
	}
	return int64(v / e.scale)
}

func vfInitEnv(cap int, sizes []int, nk int, scale string, cb int) (*vfEnv, error) {
	e := &vfEnv{cap: cap, sizes: sizes, nk: nk, scale: 1, scaleS: scale, cb: cb}
	if scale != "" {
		u, err := strconv.ParseUint(scale, 10, 64)
		if err != nil || u == 0 {
			return nil, fmt.Errorf("bad scale %q", scale)
		}
		e.scale = u
	}
	hi, lo := bits.Mul64(uint64(cap), e.scale)
	if hi != 0 {
		return nil, fmt.Errorf("capacity %d x scale %s does not fit uint64", cap, scale)
	}
	if cb == 1 {
		// The user callback is a gate of the schedule: the calling
		// goroutine parks in it like at a verifYield hook.
		e.c = NewCache[int, *vfVal](lo, WithDeleteCallback(func(int, *vfVal) {
			vfHook("cb")
		}))
	} else {
		e.c = NewCache[int, *vfVal](lo)
	}
	for i, s := range sizes {
		e.vals = append(e.vals, &vfVal{id: i + 1, size: uint64(s) * e.scale})
	}
	return e, nil
}

func vfNewEnv(cap int, sizes []int, nk, nt int, scale string, cb int) (*vfEnv, error) {
	e, err := vfInitEnv(cap, sizes, nk, scale, cb)
	if err != nil {
		return nil, err
	}
	for t := 1; t <= nt; t++ {
		w := &vfWorker{env: e, t: t, cmd: make(chan vfOp), ev: make(chan vfEvent, 1),
			release: make(chan struct{})}
		e.ws = append(e.ws, w)
		ready := make(chan struct{})
		go w.loop(ready)
		<-ready
	}
	return e, nil
}

// shutdown lets every goroutine of this environment run to completion.
func (e *vfEnv) shutdown() {
	e.abort.Store(true)
	if e.holder == -1 {
		// The mutex was leaked by a call that returned: release it so that
		// the goroutines parked on it can finish.
		e.c.mtx.Unlock()
		e.holder = 0
	}
	for _, w := range e.ws {
		if w.busy && !w.blocked && !w.waiting {
			w.release <- struct{}{}
		}
	}
	for _, w := range e.ws {
		if w.busy {
			select {
			case <-w.ev:
			case <-time.After(3 * time.Second):
			}
		}
		close(w.cmd)
	}
}

// ---------------------------------------------------------------------------
// projection

func (e *vfEnv) probe() bool {
	if e.c.mtx.TryLock() {
		e.c.mtx.Unlock()
		return true
	}
	return false
}

func (e *vfEnv) observe() vfObs {
	o := vfObs{Cap: e.cap, Sizes: e.sizes, Scale: e.scaleS, Cb: e.cb, Len: vfNA, Size: vfNA, Filo: [][2]int{}}
	if e.probe() {
		o.Free = 1
		o.Len = e.c.Len()
		o.Size = e.units(e.c.Size())
	}
	o.Range = e.rangeMap()
	e.c.RangeFILO(func(k int, v *vfVal) bool {
		o.Filo = append(o.Filo, [2]int{k, v.id})
		return true
	})
	// internal (drift only)
	o.Isz = e.units(e.c.size)
	o.Idx = make([]int, e.nk)
	for k := 1; k <= e.nk; k++ {
		el, ok := e.c.cache.Load(k)
		if !ok {
			continue
		}
		o.Idx[k-1] = -1
		pos := 1
		for x := e.c.ll.Front(); x != nil; x = x.Next() {
			if x == el {
				o.Idx[k-1] = pos
				break
			}
			pos++
		}
	}
	return o
}

// confirmUnusable calls Len() from a fresh goroutine and shows, by the
// goroutine dump, that it is parked on the cache mutex.
func (e *vfEnv) confirmUnusable() (bool, string) {
	idc := make(chan int64, 1)
	done := make(chan struct{})
	go func() {
		idc <- vfGoID()
		e.c.Len()
		close(done)
	}()
	id := <-idc
	deadline := time.Now().Add(20 * time.Second)
	for time.Now().Before(deadline) {
		select {
		case <-done:
			return false, ""
		case <-time.After(200 * time.Microsecond):
		}
		st, stack, _ := vfGoState(id)
		if vfOnMutex(st, stack) {
			return true, stack
		}
	}
	return false, "verif driver: Len() neither returned nor parked on the mutex"
}

// ---------------------------------------------------------------------------
// the scheduler: one model step

type vfDriftErr struct{ msg string }

// await waits until worker w parks at a hook, returns, or is found parked on
// the cache mutex.
func (e *vfEnv) await(w *vfWorker) (ev vfEvent, blockedStack string, err error) {
	wait := 200 * time.Microsecond
	deadline := time.Now().Add(30 * time.Second)
	for {
		select {
		case ev = <-w.ev:
			return ev, "", nil
		case <-time.After(wait):
		}
		st, stack, dump := vfGoState(w.gid)
		if vfOnMutex(st, stack) {
			// Parked on the mutex. It may still be about to be woken only
			// if somebody can unlock: nobody runs but w.
			select {
			case ev = <-w.ev:
				return ev, "", nil
			default:
			}
			return vfEvent{}, stack, nil
		}
		if time.Now().After(deadline) {
			return vfEvent{}, "", fmt.Errorf("worker %d neither parked nor returned (status %q)\n%s",
				w.t, st, dump)
		}
		if wait < 5*time.Millisecond {
			wait *= 2
		}
	}
}

// step executes one model action. It returns the action with the ACTUAL
// outcome. stop = true: the path cannot be continued (note says why).
// settle: after a goroutine moved, a goroutine that was parked on the mutex
// either got it (and is now at a hook or has returned) or is still parked.
func (e *vfEnv) settle(x *vfWorker, out *vfStepOut) error {
	deadline := time.Now().Add(30 * time.Second)
	for {
		select {
		case ev := <-x.ev:
			x.waiting = false
			out.Act.W = x.t
			if ev.kind == "ret" {
				x.busy, x.at = false, ""
				out.Act.WRet, out.Act.WRes = 1, ev.res
			} else {
				x.at = ev.point
			}
			return nil
		default:
		}
		st, stack, dump := vfGoState(x.gid)
		if vfOnMutex(st, stack) {
			return nil
		}
		if time.Now().After(deadline) {
			return fmt.Errorf("waiting worker %d neither parked nor progressed (status %q)\n%s", x.t, st, dump)
		}
		time.Sleep(50 * time.Microsecond)
	}
}

// stepOne executes one model action. It returns the action with the ACTUAL
// outcome. stop = true: the path cannot be continued (note says why);
// skip = true: nothing was executed and nothing is to be recorded.
func (e *vfEnv) stepOne(a vfAct) (out vfStepOut, stop, skip bool, err error) {
	out.Act = a
	out.Act.W, out.Act.WRet, out.Act.WRes = 0, 0, 0
	switch a.Op {
	case "Setup":
		var l [][2]int
		if err := json.Unmarshal(a.RR, &l); err != nil {
			return out, true, false, err
		}
		for i := len(l) - 1; i >= 0; i-- {
			if _, err := e.c.Put(l[i][0], e.vals[l[i][1]-1]); err != nil {
				// the code under test refused a Put the model takes
				// for granted: recorded, judged by the snapshot
				out.Act.Res = vfERR
			}
		}
		out.Obs = e.observe()
		return out, false, false, nil
	case "Poison":
		e.vals[a.V-1].bad.Store(true)
		out.Obs = e.observe()
		return out, false, false, nil
	}
	if a.T < 1 || a.T > len(e.ws) {
		return out, true, false, fmt.Errorf("no worker %d", a.T)
	}
	w := e.ws[a.T-1]
	if w.blocked || w.waiting {
		out.Note = "drift: worker is parked on the mutex, step not executed"
		out.Obs = e.observe()
		return out, true, false, nil
	}
	if a.Call == 1 {
		if w.busy {
			out.Note = "drift: model starts an operation while the previous one of this thread has not returned"
			out.Obs = e.observe()
			return out, true, false, nil
		}
		w.busy = true
		w.cmd <- vfOp{op: a.Op, k: a.K, v: a.V}
	} else {
		if !w.busy {
			// the operation has already returned in the code (it was
			// run to completion after a deviation, see step)
			return out, false, true, nil
		}
		w.release <- struct{}{}
	}
	ev, bstack, err := e.await(w)
	if err != nil {
		return out, true, false, err
	}
	if bstack != "" {
		if e.holder > 0 {
			// A parked goroutine holds the mutex: the call waits for
			// it. Not a hang; it goes on when the holder unlocks.
			w.waiting = true
			out.Act.Ret, out.Act.Res = 0, vfWAIT
			out.Obs = e.observe()
			return out, false, false, nil
		}
		w.blocked = true
		out.Act.Ret, out.Act.Res = 0, vfBLOCKED
		out.Dump = bstack
		out.Obs = e.observe()
		return out, false, false, nil
	}
	wasFree := e.holder == 0
	switch ev.kind {
	case "hook":
		w.at = ev.point
		out.Pt = ev.point
		out.Act.Ret, out.Act.Res = 0, 0
	case "ret":
		w.busy, w.at = false, ""
		out.Act.Ret, out.Act.Res = 1, ev.res
		if a.Op == "Range" {
			b, _ := json.Marshal(ev.rr)
			out.Act.RR = b
		}
	}
	// goroutines that were waiting for the mutex may have got it (only
	// if the goroutine that moved is the one that held it)
	for _, x := range e.ws {
		if x != w && x.waiting && (e.holder == w.t || e.holder <= 0) {
			if err := e.settle(x, &out); err != nil {
				return out, true, false, err
			}
		}
	}
	// who holds the mutex now?
	if e.probe() {
		e.holder = 0
	} else if out.Act.W != 0 && out.Act.WRet == 0 {
		e.holder = out.Act.W
	} else if wasFree || e.holder == w.t {
		if ev.kind == "ret" {
			e.holder = -1
		} else {
			e.holder = w.t
		}
	}
	out.Obs = e.observe()
	if e.holder == -1 {
		quiet := true
		for _, x := range e.ws {
			if x.busy {
				quiet = false
			}
		}
		if quiet {
			ok, stack := e.confirmUnusable()
			if ok {
				out.Dump = stack
			} else {
				return out, true, false, fmt.Errorf("mutex probe says held, but Len() is not parked on it: %s", stack)
			}
		}
	}
	return out, false, false, nil
}

// step executes one model action and returns the recorded step(s). When the
// model expects the call to wait for the mutex (res = WAIT) but the code lets
// it in, the call is run to completion right away (extra steps "auto", marked
// as drift): that is the schedule in which a missing exclusion does its
// damage, and Props judges what the code did.
func (e *vfEnv) step(a vfAct) (outs []vfStepOut, stop bool, err error) {
	out, stop, skip, err := e.stepOne(a)
	if err != nil || skip {
		return nil, stop, err
	}
	outs = append(outs, out)
	if stop || a.Op == "Setup" || a.Op == "Poison" {
		return outs, stop, nil
	}
	if a.Res == vfWAIT && out.Act.Res != vfWAIT && out.Act.Ret == 0 && out.Act.Res == 0 {
		for i := 0; i < 16; i++ {
			aa := vfAct{Op: a.Op, T: a.T, K: a.K, V: a.V, Step: "auto", RR: json.RawMessage("[]")}
			o2, stop2, _, err := e.stepOne(aa)
			if err != nil {
				return outs, true, err
			}
			o2.Note = "drift: the call was not held back by the mutex; run to completion"
			outs = append(outs, o2)
			if stop2 {
				return outs, true, nil
			}
			if o2.Act.Ret == 1 || o2.Act.Res == vfWAIT || o2.Act.Res == vfBLOCKED {
				break
			}
		}
	}
	return outs, false, nil
}

func vfMaxT(p vfPathIn) int {
	m := 1
	for _, s := range p.Steps {
		if s.Act.T > m {
			m = s.Act.T
		}
	}
	return m
}

func vfRunPath(p vfPathIn) (out vfPathOut) {
	out.ID = p.ID
	out.Steps = []vfStepOut{}
	e, err := vfNewEnv(p.InitObs.Cap, p.InitObs.Sizes, len(p.InitObs.Range), vfMaxT(p), p.InitObs.Scale, p.InitObs.Cb)
	if err != nil {
		out.Error = err.Error()
		return
	}
	defer e.shutdown()
	defer func() {
		if r := recover(); r != nil {
			buf := make([]byte, 8192)
			buf = buf[:runtime.Stack(buf, false)]
			out.Error = fmt.Sprintf("driver panic: %v\n%s", r, buf)
		}
	}()
	out.InitObs = e.observe()
	for _, s := range p.Steps {
		sos, stop, err := e.step(s.Act)
		if err != nil {
			out.Error = err.Error()
			return
		}
		for _, so := range sos {
			if so.Act.RR == nil {
				so.Act.RR = json.RawMessage("[]")
			}
			out.Steps = append(out.Steps, so)
		}
		if stop {
			return
		}
	}
	return
}

func vfReadPaths(t *testing.T, fn string) []vfPathIn {
	f, err := os.Open(fn)
	if err != nil {
		t.Fatal(err)
	}
	defer f.Close()
	var paths []vfPathIn
	sc := bufio.NewScanner(f)
	sc.Buffer(make([]byte, 1<<20), 1<<28)
	for sc.Scan() {
		var p vfPathIn
		if err := json.Unmarshal(sc.Bytes(), &p); err != nil {
			t.Fatal(err)
		}
		paths = append(paths, p)
	}
	return paths
}

func vfWriteOut(t *testing.T, fn string, results []vfPathOut) {
	of, err := os.Create(fn)
	if err != nil {
		t.Fatal(err)
	}
	w := bufio.NewWriterSize(of, 1<<20)
	enc := json.NewEncoder(w)
	for i := range results {
		if err := enc.Encode(&results[i]); err != nil {
			t.Fatal(err)
		}
	}
	w.Flush()
	of.Close()
}

func TestVerifLRUReplay(t *testing.T) {
	in, outFn := os.Getenv("VERIF_PATHS"), os.Getenv("VERIF_OUT")
	if in == "" || outFn == "" {
		t.Skip("VERIF_PATHS / VERIF_OUT not set")
	}
	paths := vfReadPaths(t, in)
	results := make([]vfPathOut, len(paths))
	var wg sync.WaitGroup
	jobs := make(chan int)
	nw := runtime.NumCPU()
	if s := os.Getenv("VERIF_WORKERS"); s != "" {
		nw, _ = strconv.Atoi(s)
	}
	for w := 0; w < nw; w++ {
		wg.Add(1)
		go func() {
			defer wg.Done()
			for i := range jobs {
				results[i] = vfRunPath(paths[i])
			}
		}()
	}
	for i := range paths {
		jobs <- i
	}
	close(jobs)
	wg.Wait()
	vfWriteOut(t, outFn, results)
}

// ---------------------------------------------------------------------------
// free-running histories (no scheduling): call / return events of real
// goroutines, judged for linearizability by TLC.

type vfFreeCfg struct {
	Seed    int64    `json:"seed"`
	Traces  int      `json:"traces"`
	NT      int      `json:"nt"`
	Ops     int      `json:"ops"`
	Rounds  int      `json:"rounds"`
	Cap     int      `json:"cap"`
	Sizes   []int    `json:"sizes"`
	NK      int      `json:"nk"`
	Scale   string   `json:"scale"`
	Cb      int      `json:"cb"`
	Poison  bool     `json:"poison"`
	Kinds   []string `json:"kinds"`
	FirstID int      `json:"first_id"`
}

type vfLog struct {
	mu    sync.Mutex
	steps []vfStepOut
	blank vfObs
}

func (l *vfLog) add(a vfAct) {
	if a.RR == nil {
		a.RR = json.RawMessage("[]")
	}
	l.mu.Lock()
	l.steps = append(l.steps, vfStepOut{Act: a, Obs: l.blank})
	l.mu.Unlock()
}

func vfRandOp(rng *rand.Rand, c vfFreeCfg) vfOp {
	kind := c.Kinds[rng.Intn(len(c.Kinds))]
	switch kind {
	case "Put":
		return vfOp{op: "Put", k: 1 + rng.Intn(c.NK), v: 1 + rng.Intn(len(c.Sizes))}
	case "Get", "Del":
		return vfOp{op: kind, k: 1 + rng.Intn(c.NK)}
	}
	return vfOp{op: kind}
}

func vfFreeTrace(c vfFreeCfg, id int) (out vfPathOut) {
	out.ID = id
	out.Steps = []vfStepOut{}
	rng := rand.New(rand.NewSource(c.Seed*1000003 + int64(id)))
	e, err := vfInitEnv(c.Cap, c.Sizes, c.NK, c.Scale, c.Cb)
	if err != nil {
		out.Error = err.Error()
		return
	}
	defer func() {
		if r := recover(); r != nil {
			buf := make([]byte, 8192)
			buf = buf[:runtime.Stack(buf, false)]
			out.Error = fmt.Sprintf("driver panic: %v\n%s", r, buf)
		}
	}()
	lg := &vfLog{blank: vfObs{Cap: c.Cap, Sizes: c.Sizes, Scale: c.Scale, Cb: c.Cb, Free: 2, Len: vfNA, Size: vfNA,
		Range: make([]int, c.NK), Filo: [][2]int{}, Idx: make([]int, c.NK)}}
	out.InitObs = e.observe()

	// random pre-loaded content (most recent first)
	var l [][2]int
	left := c.Cap
	for _, k := range rng.Perm(c.NK) {
		v := 1 + rng.Intn(len(c.Sizes))
		if rng.Intn(2) == 0 && c.Sizes[v-1] <= left {
			l = append(l, [2]int{k + 1, v})
			left -= c.Sizes[v-1]
		}
	}
	if l == nil {
		l = [][2]int{}
	}
	rr, _ := json.Marshal(l)
	sos, _, err := e.step(vfAct{Op: "Setup", Step: "env", RR: rr})
	if err != nil {
		out.Error = err.Error()
		return
	}
	out.Steps = append(out.Steps, sos...)

	for round := 0; round < c.Rounds; round++ {
		if c.Poison && rng.Intn(3) == 0 {
			v := 1 + rng.Intn(len(c.Sizes))
			if !e.vals[v-1].bad.Load() {
				sos, _, _ := e.step(vfAct{Op: "Poison", V: v, Step: "env", RR: json.RawMessage("[]")})
				out.Steps = append(out.Steps, sos...)
			}
		}
		lg.steps = nil
		start := make(chan struct{})
		type runner struct {
			gid  atomic.Int64
			done atomic.Bool
			cur  atomic.Pointer[vfOp]
		}
		rs := make([]*runner, c.NT)
		var wg sync.WaitGroup
		for t := 1; t <= c.NT; t++ {
			n := 1 + rng.Intn(c.Ops)
			prog := make([]vfOp, n)
			for i := range prog {
				prog[i] = vfRandOp(rng, c)
			}
			r := &runner{}
			rs[t-1] = r
			w := &vfWorker{env: e, t: t, free: true, rng: rand.New(rand.NewSource(rng.Int63()))}
			wg.Add(1)
			ready := make(chan struct{})
			go func(t int, prog []vfOp) {
				defer wg.Done()
				gid := vfGoID()
				r.gid.Store(gid)
				vfWorkers.Store(gid, w)
				defer vfWorkers.Delete(gid)
				close(ready)
				<-start
				for i := range prog {
					o := prog[i]
					r.cur.Store(&o)
					lg.add(vfAct{Op: o.op, T: t, K: o.k, V: o.v, Step: "call", Call: 1})
					res, rrv := e.exec(o)
					a := vfAct{Op: o.op, T: t, K: o.k, V: o.v, Step: "ret", Ret: 1, Res: res}
					if o.op == "Range" {
						b, _ := json.Marshal(rrv)
						a.RR = b
					}
					lg.add(a)
				}
				r.done.Store(true)
			}(t, prog)
			<-ready
		}
		close(start)
		fin := make(chan struct{})
		go func() { wg.Wait(); close(fin) }()
		leaked := false
		deadline := time.Now().Add(60 * time.Second)
	wait:
		for {
			select {
			case <-fin:
				break wait
			case <-time.After(2 * time.Millisecond):
			}
			// Are all unfinished goroutines parked on the cache mutex?
			stuck, running := 0, 0
			var stacks []string
			for _, r := range rs {
				if r.done.Load() {
					continue
				}
				st, stack, _ := vfGoState(r.gid.Load())
				if vfOnMutex(st, stack) {
					stuck++
					stacks = append(stacks, stack)
				} else {
					running++
				}
			}
			if stuck > 0 && running == 0 {
				// re-check once: nobody is running, so nobody can unlock
				select {
				case <-fin:
					break wait
				case <-time.After(5 * time.Millisecond):
				}
				still := 0
				for _, r := range rs {
					if !r.done.Load() {
						st, stack, _ := vfGoState(r.gid.Load())
						if vfOnMutex(st, stack) {
							still++
						}
					}
				}
				if still == stuck {
					for i, r := range rs {
						if !r.done.Load() {
							o := *r.cur.Load()
							lg.mu.Lock()
							lg.steps = append(lg.steps, vfStepOut{
								Act: vfAct{Op: o.op, T: i + 1, K: o.k, V: o.v, Step: "ret",
									Res: vfBLOCKED, RR: json.RawMessage("[]")},
								Obs: lg.blank, Dump: strings.Join(stacks, "\n\n")})
							lg.mu.Unlock()
						}
					}
					leaked = true
					break wait
				}
			}
			if time.Now().After(deadline) {
				_, _, dump := vfGoState(0)
				out.Error = "free-running round did not finish\n" + dump
				return
			}
		}
		out.Steps = append(out.Steps, lg.steps...)
		snap := vfStepOut{Act: vfAct{Op: "Snap", Step: "env", RR: json.RawMessage("[]")}, Obs: e.observe()}
		out.Steps = append(out.Steps, snap)
		if leaked {
			// let the parked goroutines go (nobody else will); the trace ends here
			e.abort.Store(true)
			for i := 0; i < 8; i++ {
				if !e.probe() {
					e.c.mtx.Unlock()
				}
				select {
				case <-fin:
					i = 8
				case <-time.After(50 * time.Millisecond):
				}
			}
			return
		}
	}
	return
}

func TestVerifLRUFree(t *testing.T) {
	cfgs, outFn := os.Getenv("VERIF_LRU_FREE"), os.Getenv("VERIF_OUT")
	if cfgs == "" || outFn == "" {
		t.Skip("VERIF_LRU_FREE / VERIF_OUT not set")
	}
	var c vfFreeCfg
	if err := json.Unmarshal([]byte(cfgs), &c); err != nil {
		t.Fatal(err)
	}
	results := make([]vfPathOut, c.Traces)
	var wg sync.WaitGroup
	jobs := make(chan int)
	nw := runtime.NumCPU() / 2
	if nw < 1 {
		nw = 1
	}
	for w := 0; w < nw; w++ {
		wg.Add(1)
		go func() {
			defer wg.Done()
			for i := range jobs {
				results[i] = vfFreeTrace(c, c.FirstID+i)
			}
		}()
	}
	for i := 0; i < c.Traces; i++ {
		jobs <- i
	}
	close(jobs)
	wg.Wait()
	vfWriteOut(t, outFn, results)
}
