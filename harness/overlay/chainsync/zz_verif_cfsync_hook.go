package chainsync

// Injected into package chainsync at build time with `go test -overlay` by the
// CFSync family (vlib/families/cfsync.py); nothing is copied into /repo.  The
// table of hard-coded filter-header checkpoints is unexported and keyed by
// network; the replay driver needs an entry for its own (easy proof-of-work)
// test network so that the ValidateCFHeader call of resolveConflict is
// exercised inside a 2-3.5k block chain.

import (
	"github.com/btcsuite/btcd/chainhash/v2"
	"github.com/btcsuite/btcd/wire/v2"
)

// VerifSetFilterHeaderCheckpoints installs the checkpoints of one network.
// It must be called before any concurrent use of ValidateCFHeader.
func VerifSetFilterHeaderCheckpoints(net wire.BitcoinNet,
	cps map[uint32]*chainhash.Hash) {

	filterHeaderCheckpoints[net] = cps
}
