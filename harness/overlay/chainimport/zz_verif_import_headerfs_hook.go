//go:build verif

package headerfs

// Overlay-only helper for the Import family's replay driver (package
// chainimport). It is injected into package headerfs at build time with
// `go test -overlay`; it is never part of /repo. The driver uses it to put a
// crash-injecting wrapper around the flat files of the two stores (a process
// death in the middle of a store call of the importer) and to close the files.

// VerifImportWrapFile replaces the flat file of a header store by
// wrap(current file). It returns false if store is not one of this package's
// stores.
func VerifImportWrapFile(store interface{}, wrap func(File) File) bool {
	switch s := store.(type) {
	case *blockHeaderStore:
		s.file = wrap(s.file)
		return true
	case *filterHeaderStore:
		s.file = wrap(s.file)
		return true
	}
	return false
}
