package chainimport

// Replay driver for the Import family (C14, and the import crash points of
// C08).  Injected into package chainimport at build time with
// `go test -overlay`; nothing is copied into /repo.
//
// Every path of specs/Import/Import.tla is one configuration (file start
// height, length, batch size, store heights, deviation of the file, file-level
// damage) plus the store call at which an error / a crash is injected.  The
// driver builds that configuration for real - real headerfs stores on disk
// (cloned from a template directory), real import files written the way the
// package's tooling writes them (raw headers + AddHeadersImportMetadata),
// block headers MINED for a regtest-like chaincfg.Params so that the
// importer's validation really runs - executes the public
// NewHeadersImport(...).Import, and reports the run at the granularity of the
// model: one step per stage of Import (derived from where it failed), one
// step per store call (observed through wrappers around the store INTERFACES
// handed to the importer, which also inject the faults), the result, then a
// second import / a probe append / crash recovery.  After every step it
// records what the public read API of both stores answers.

import (
	"bufio"
	"bytes"
	"context"
	"crypto/sha256"
	"encoding/binary"
	"encoding/json"
	"errors"
	"fmt"
	"io"
	"math/big"
	"os"
	"path/filepath"
	"runtime"
	"strconv"
	"strings"
	"sync"
	"sync/atomic"
	"testing"
	"time"

	"github.com/btcsuite/btcd/blockchain"
	"github.com/btcsuite/btcd/btcutil/v2/gcs/builder"
	"github.com/btcsuite/btcd/chaincfg/v2"
	"github.com/btcsuite/btcd/chainhash/v2"
	"github.com/btcsuite/btcd/wire/v2"
	"github.com/btcsuite/btcwallet/walletdb"
	_ "github.com/btcsuite/btcwallet/walletdb/bdb"
	"github.com/lightninglabs/neutrino/chainsync"
	"github.com/lightninglabs/neutrino/headerfs"
)

const (
	viNF  = -1
	viG   = -2
	viERR = -3

	viMaxCalls = 64

	viT0       = int64(1600000000)
	viBadBits  = uint32(0x207ffffe)
	viWrongNet = wire.MainNet

	// viCkNetBase + h is the magic of the test network whose only
	// hard-coded filter-header checkpoint is the reference filter header
	// at height h (installed once, before any import runs, through the
	// overlay hook chainsync.VerifSetFilterHeaderCheckpoints).
	viCkNetBase = wire.BitcoinNet(0x5ec00000)
)

var errViInjected = errors.New("verif: injected store error")

type viCrash struct{}

// ---------------------------------------------------------------------------
// JSON shapes (identical to what TLC exports for Import.tla)

type viCfg struct {
	S    int    `json:"s"`
	N    int    `json:"n"`
	Bs   int    `json:"bs"`
	HB   int    `json:"hB"`
	HF   int    `json:"hF"`
	X    int    `json:"x"`
	Kind string `json:"kind"`
	Fy   int    `json:"fy"`
	Fk   string `json:"fk"`
	Ck   int    `json:"ck"`
	Cx   int    `json:"cx"`
	Rsrc string `json:"rsrc"`
	Rk   int    `json:"rk"`
	Rknd string `json:"rkind"`
	// chain-parameter set: Lt = -1, Ln = 0 regtest-like; Lt >= 1 testnet-like
	// rules with Ln consecutive late minimum-difficulty blocks from height Lt
	Lt int `json:"lt"`
	Ln int `json:"ln"`
}

type viAct struct {
	Op  string  `json:"op"`
	Run int     `json:"run"`
	Res string  `json:"res"`
	Inj string  `json:"inj"`
	Sn  int     `json:"sn"`
	N   int     `json:"n"`
	T   int     `json:"t"`
	Hs  [][]int `json:"hs"`
	Cfg viCfg   `json:"cfg"`
}

type viBObs struct {
	Tip []int `json:"tip"`
	ByH []int `json:"byH"`
	Hh  []int `json:"hh"`
}

type viFObs struct {
	Tip []int `json:"tip"`
	ByH []int `json:"byH"`
}

type viObs struct {
	Up int    `json:"up"`
	B  viBObs `json:"B"`
	F  viFObs `json:"F"`
}

type viStepIn struct {
	Act viAct `json:"act"`
}

type viPathIn struct {
	ID      int        `json:"id"`
	InitObs viObs      `json:"init_obs"`
	Steps   []viStepIn `json:"steps"`
}

type viStepOut struct {
	Act  viAct  `json:"act"`
	Obs  viObs  `json:"obs"`
	Note string `json:"note,omitempty"`
}

type viPathOut struct {
	ID      int         `json:"id"`
	InitObs viObs       `json:"init_obs"`
	Steps   []viStepOut `json:"steps"`
	Error   string      `json:"error,omitempty"`
	Detail  []string    `json:"detail,omitempty"`
}

// ---------------------------------------------------------------------------
// Chain generation and independent ground truth

var viParams = func() chaincfg.Params {
	p := chaincfg.RegressionNetParams // PowLimit 2^255-1, no retargeting
	p.Checkpoints = nil
	return p
}()

// Testnet-like chain parameters (second parameter set of the family): the
// limit of the regtest-like set, but ReduceMinDifficulty applies and
// PoWNoRetargeting is off; the retarget interval (2016 blocks) is far longer
// than the universe, so no retarget happens.  A header more than
// MinDiffReductionTime (20 min = 2 x TargetTimePerBlock) after its parent must
// carry the limit bits, any other header the bits of the last ancestor that
// is not a minimum-difficulty block.  The genesis block carries "hard" bits
// (256 times the work of the limit: a real search of a few hundred hashes per
// header) and the time of the universe, so that block 1 is on time.
const viHardBits = uint32(0x1f7fffff)

var viTestnetParams = func() chaincfg.Params {
	p := chaincfg.RegressionNetParams
	p.Checkpoints = nil
	p.PoWNoRetargeting = false
	p.ReduceMinDifficulty = true
	p.MinDiffReductionTime = 20 * time.Minute
	p.TargetTimePerBlock = 10 * time.Minute
	p.TargetTimespan = 14 * 24 * time.Hour
	gen := *chaincfg.RegressionNetParams.GenesisBlock
	gen.Header.Timestamp = time.Unix(viT0, 0)
	gen.Header.Bits = viHardBits
	gen.Header.Nonce = 0
	viMine(&gen.Header, true)
	hash := gen.Header.BlockHash()
	p.GenesisBlock, p.GenesisHash = &gen, &hash
	return p
}()

// viLateGap is how much later than the regular spacing a late block is
// (600 + 1800 s after its parent: beyond MinDiffReductionTime).
const viLateGap = 1800

// viReqBits is the generator's OWN statement of the difficulty rule for
// chain[i] given its timestamp (cross-checked against btcd by viTruth for every
// header the generator builds): no retargeting => the limit; testnet-like =>
// the limit if the header is late, otherwise the bits of the last ancestor
// that is not a minimum-difficulty block (genesis ends the search).
func viReqBits(p *chaincfg.Params, chain []*wire.BlockHeader, i int) uint32 {
	if p.PoWNoRetargeting || !p.ReduceMinDifficulty {
		return p.PowLimitBits
	}
	gap := chain[i].Timestamp.Unix() - chain[i-1].Timestamp.Unix()
	if gap > int64(p.MinDiffReductionTime/time.Second) {
		return p.PowLimitBits
	}
	j := i - 1
	for j > 0 && chain[j].Bits == p.PowLimitBits {
		j--
	}
	return chain[j].Bits
}

func viSum(parts ...string) chainhash.Hash {
	return sha256.Sum256([]byte(strings.Join(parts, "|")))
}

// viMine searches a nonce so that the header's hash is at most (valid) or
// above (invalid PoW) the target its bits claim.
func viMine(h *wire.BlockHeader, valid bool) {
	target := blockchain.CompactToBig(h.Bits)
	for n := h.Nonce; ; n++ {
		h.Nonce = n
		hash := h.BlockHash()
		ok := blockchain.HashToBig(&hash).Cmp(target) <= 0
		if ok == valid {
			return
		}
	}
}

type viSliceCtx struct {
	chain []*wire.BlockHeader
	h     int
}

func (c *viSliceCtx) Height() int32    { return int32(c.h) }
func (c *viSliceCtx) Bits() uint32     { return c.chain[c.h].Bits }
func (c *viSliceCtx) Timestamp() int64 { return c.chain[c.h].Timestamp.Unix() }
func (c *viSliceCtx) Parent() blockchain.HeaderCtx {
	return c.RelativeAncestorCtx(1)
}
func (c *viSliceCtx) RelativeAncestorCtx(d int32) blockchain.HeaderCtx {
	if c.h-int(d) < 0 {
		return nil
	}
	return &viSliceCtx{chain: c.chain, h: c.h - int(d)}
}

type viChainCtx struct{ p *chaincfg.Params }

func (c *viChainCtx) ChainParams() *chaincfg.Params { return c.p }
func (c *viChainCtx) BlocksPerRetarget() int32 {
	return int32(c.p.TargetTimespan / c.p.TargetTimePerBlock)
}
func (c *viChainCtx) MinRetargetTimespan() int64 {
	return int64(c.p.TargetTimespan/time.Second) / c.p.RetargetAdjustmentFactor
}
func (c *viChainCtx) MaxRetargetTimespan() int64 {
	return int64(c.p.TargetTimespan/time.Second) * c.p.RetargetAdjustmentFactor
}
func (c *viChainCtx) VerifyCheckpoint(int32, *chainhash.Hash) bool { return true }
func (c *viChainCtx) FindPreviousCheckpoint() (blockchain.HeaderCtx, error) {
	return nil, nil
}

// viTruth says whether chain[i] is a fully valid child of chain[i-1]: btcd's
// own header rules evaluated over the complete slice of ancestors (not the
// importer's light context) plus the link.
func viTruth(params *chaincfg.Params, chain []*wire.BlockHeader, i int) error {
	prevHash := chain[i-1].BlockHash()
	if chain[i].PrevBlock != prevHash {
		return errors.New("does not connect")
	}
	p := *params
	if err := blockchain.CheckBlockHeaderSanity(
		chain[i], p.PowLimit, blockchain.NewMedianTime(), blockchain.BFNone,
	); err != nil {
		return err
	}
	return blockchain.CheckBlockHeaderContext(
		chain[i], &viSliceCtx{chain: chain, h: i - 1}, blockchain.BFNone,
		&viChainCtx{p: &p}, true,
	)
}

// viWorld is everything concrete that stands behind the abstract ids.
type viWorld struct {
	seed   string
	hh     int // heights 0..hh-1 exist
	params chaincfg.Params
	class  string // "R" regtest-like, "T" testnet-like (another genesis block)
	lt, ln int    // testnet-like: ln late blocks from height lt on; lt = -1 otherwise
	main   []*wire.BlockHeader
	mainF  []chainhash.Hash
	mu     sync.Mutex
	branch map[string]*viBranch
}

// viBranch is the file's own chain from height x on: ids 200+x / 100+x at x,
// 100+h above.
type viBranch struct {
	x    int
	kind string
	hdr  []*wire.BlockHeader // index h-x
	fh   []chainhash.Hash    // filter headers 100+h, index h-x
}

// refTime is the timestamp of the reference header at height h: regular
// spacing, plus viLateGap for every late block at or below h.
func (w *viWorld) refTime(h int) int64 {
	t := viT0 + 600*int64(h)
	for l := w.lt; w.lt >= 0 && l < w.lt+w.ln && l <= h; l++ {
		t += viLateGap
	}
	return t
}

// viNewWorld builds the reference chain.  lt < 0: the regtest-like universe.
// lt >= 1: the testnet-like universe with ln late blocks from height lt on.
func viNewWorld(seed string, hh, lt, ln int) (*viWorld, error) {
	w := &viWorld{seed: seed, hh: hh, branch: map[string]*viBranch{}, params: viParams, class: "R", lt: -1}
	if lt >= 0 {
		if lt < 1 || ln < 1 {
			return nil, fmt.Errorf("generator: bad late blocks lt=%d ln=%d", lt, ln)
		}
		w.params, w.class, w.lt, w.ln = viTestnetParams, "T", lt, ln
	}
	w.main = make([]*wire.BlockHeader, hh)
	w.mainF = make([]chainhash.Hash, hh)
	gen := w.params.GenesisBlock.Header
	w.main[0] = &gen
	for h := 1; h < hh; h++ {
		hd := &wire.BlockHeader{
			Version:    4,
			PrevBlock:  w.main[h-1].BlockHash(),
			MerkleRoot: viSum("main", seed, strconv.Itoa(h)),
			Timestamp:  time.Unix(w.refTime(h), 0),
		}
		w.main[h] = hd
		hd.Bits = viReqBits(&w.params, w.main, h)
		viMine(hd, true)
		w.mainF[h] = viSum("mainF", seed, strconv.Itoa(h))
	}
	gf, err := builder.BuildBasicFilter(w.params.GenesisBlock, nil)
	if err != nil {
		return nil, err
	}
	w.mainF[0], err = builder.MakeHeaderForFilter(gf, w.params.GenesisBlock.Header.PrevBlock)
	if err != nil {
		return nil, err
	}
	for h := 1; h < hh; h++ {
		if err := viTruth(&w.params, w.main, h); err != nil {
			return nil, fmt.Errorf("generator: reference header %d is not valid: %v", h, err)
		}
	}
	if w.class == "T" {
		// the universe is what it claims to be: hard bits everywhere but at
		// the late blocks, which carry the limit
		for h := 0; h < hh; h++ {
			late := h >= lt && h < lt+ln
			if late != (w.main[h].Bits == w.params.PowLimitBits) || (!late && w.main[h].Bits != viHardBits) {
				return nil, fmt.Errorf("generator: testnet-like reference header %d has bits %08x", h, w.main[h].Bits)
			}
		}
	}
	return w, nil
}

// getBranch builds (once) the file's own chain for (x, kind) and checks the
// generator against the ground truth: exactly the header at x breaks a rule
// (none for "fork"), everything above it is a valid child.
func (w *viWorld) getBranch(x int, kind string) (*viBranch, error) {
	key := kind + "/" + strconv.Itoa(x)
	w.mu.Lock()
	defer w.mu.Unlock()
	if b, ok := w.branch[key]; ok {
		return b, nil
	}
	b := &viBranch{x: x, kind: kind}
	var prev chainhash.Hash
	if x > 0 {
		prev = w.main[x-1].BlockHash()
	}
	for h := x; h < w.hh; h++ {
		hd := &wire.BlockHeader{
			Version:    4,
			PrevBlock:  prev,
			MerkleRoot: viSum("alt", w.seed, kind, strconv.Itoa(x), strconv.Itoa(h)),
			Timestamp:  time.Unix(w.refTime(h)+1, 0),
			Bits:       w.params.PowLimitBits,
		}
		if x > 0 {
			// the bits the rule demands at this place of this branch
			chain := append(append(append([]*wire.BlockHeader{}, w.main[:x]...), b.hdr...), hd)
			hd.Bits = viReqBits(&w.params, chain, h)
		}
		valid := true
		if h == x {
			switch kind {
			case "pow":
				valid = false
			case "bits":
				hd.Bits = viBadBits
			case "time":
				hd.Timestamp = time.Unix(w.params.GenesisBlock.Header.Timestamp.Unix()-600, 0)
			case "link":
				hd.PrevBlock = viSum("nowhere", w.seed, strconv.Itoa(x))
			case "easybits":
				// stays at minimum difficulty although it is on time and an
				// ancestor below the late block(s) carries hard bits
				if hd.Bits == w.params.PowLimitBits {
					return nil, fmt.Errorf("generator: easybits at %d: the rule demands the limit bits there", x)
				}
				hd.Bits = w.params.PowLimitBits
			}
		}
		viMine(hd, valid)
		b.hdr = append(b.hdr, hd)
		b.fh = append(b.fh, viSum("altF", w.seed, kind, strconv.Itoa(x), strconv.Itoa(h)))
		prev = hd.BlockHash()
	}
	// ground truth
	if x > 0 {
		chain := append(append([]*wire.BlockHeader{}, w.main[:x]...), b.hdr...)
		for h := x; h < w.hh; h++ {
			err := viTruth(&w.params, chain, h)
			wantBad := h == x && kind != "fork"
			if wantBad && err == nil {
				return nil, fmt.Errorf("generator: %s header at %d passes the ground-truth rules", kind, h)
			}
			if wantBad && kind == "easybits" {
				// exactly the contextual difficulty rule rejects it: its
				// proof of work is valid for the bits it carries
				var re blockchain.RuleError
				if !errors.As(err, &re) || re.ErrorCode != blockchain.ErrUnexpectedDifficulty {
					return nil, fmt.Errorf("generator: easybits header at %d rejected for another reason: %v", h, err)
				}
				if serr := blockchain.CheckBlockHeaderSanity(chain[h], w.params.PowLimit,
					blockchain.NewMedianTime(), blockchain.BFNone); serr != nil {
					return nil, fmt.Errorf("generator: easybits header at %d is not sane: %v", h, serr)
				}
			}
			if !wantBad && err != nil {
				return nil, fmt.Errorf("generator: branch %s header at %d should be valid: %v", key, h, err)
			}
		}
	}
	w.branch[key] = b
	return b, nil
}

// ---------------------------------------------------------------------------
// One configuration on disk

type viEnv struct {
	w       *viWorld
	cfg     viCfg
	dir     string
	hh      int
	db      walletdb.DB
	b       headerfs.BlockHeaderStore
	f       headerfs.FilterHeaderStore
	up      bool
	br      *viBranch
	byBH    map[chainhash.Hash]int
	byFH    map[chainhash.Hash]int
	hdrOf   map[int]*wire.BlockHeader
	bPath   string
	fPath   string
	plan    *viPlan
	params  chaincfg.Params // the world's parameters, Net chosen by the checkpoint of cfg
	crashed bool
	detail  []string
}

func viCopy(src, dst string) error {
	in, err := os.Open(src)
	if err != nil {
		return err
	}
	defer in.Close()
	out, err := os.Create(dst)
	if err != nil {
		return err
	}
	if _, err := io.Copy(out, in); err != nil {
		out.Close()
		return err
	}
	return out.Close()
}

var viStoreFiles = []string{"neutrino.db", "block_headers.bin", "reg_filter_headers.bin"}

func viCloneDir(src, dst string) error {
	for _, fn := range viStoreFiles {
		if err := viCopy(filepath.Join(src, fn), filepath.Join(dst, fn)); err != nil {
			return err
		}
	}
	return nil
}

func viOpenStores(params *chaincfg.Params, dir string, create bool, plan *viPlan) (walletdb.DB,
	headerfs.BlockHeaderStore, headerfs.FilterHeaderStore, error) {

	var (
		db  walletdb.DB
		err error
	)
	dbPath := filepath.Join(dir, "neutrino.db")
	if create {
		db, err = walletdb.Create("bdb", dbPath, false, 10*time.Second, false)
	} else {
		db, err = walletdb.Open("bdb", dbPath, false, 10*time.Second, false)
	}
	if err != nil {
		return nil, nil, nil, fmt.Errorf("db: %w", err)
	}
	var sdb walletdb.DB = db
	if plan != nil {
		sdb = &viDB{DB: db, p: plan}
	}
	p := *params
	b, err := headerfs.NewBlockHeaderStore(dir, sdb, &p)
	if err != nil {
		db.Close()
		return nil, nil, nil, fmt.Errorf("block store: %w", err)
	}
	f, err := headerfs.NewFilterHeaderStore(dir, sdb, headerfs.RegularFilter, &p, nil)
	if err != nil {
		viCloseFiles(b)
		db.Close()
		return nil, nil, nil, fmt.Errorf("filter store: %w", err)
	}
	if plan != nil {
		headerfs.VerifImportWrapFile(b, func(fl headerfs.File) headerfs.File {
			return &viFile{File: fl, p: plan, half: 40}
		})
		headerfs.VerifImportWrapFile(f, func(fl headerfs.File) headerfs.File {
			return &viFile{File: fl, p: plan, half: 16}
		})
	}
	return db, b, f, nil
}

// viCloseFiles closes the flat files of the given stores (no write happens).
func viCloseFiles(stores ...interface{}) {
	for _, st := range stores {
		if st == nil {
			continue
		}
		headerfs.VerifImportWrapFile(st, func(fl headerfs.File) headerfs.File {
			fl.Close()
			return fl
		})
	}
}

// templates: one directory per (hB, hF) holding the stores before the import.
type viTemplates struct {
	root string
	w    *viWorld // the regtest-like world
	mu   sync.Mutex
	dirs map[string]*viTmpl

	// testnet-like worlds, one per (lt, ln), built on first use
	wmu    sync.Mutex
	worlds map[[2]int]*viWorldOnce
}

type viWorldOnce struct {
	once sync.Once
	w    *viWorld
	err  error
}

// world returns the universe a configuration lives in.
func (t *viTemplates) world(lt, ln int) (*viWorld, error) {
	if lt < 0 {
		return t.w, nil
	}
	t.wmu.Lock()
	if t.worlds == nil {
		t.worlds = map[[2]int]*viWorldOnce{}
	}
	e := t.worlds[[2]int{lt, ln}]
	if e == nil {
		e = &viWorldOnce{}
		t.worlds[[2]int{lt, ln}] = e
	}
	t.wmu.Unlock()
	e.once.Do(func() { e.w, e.err = viNewWorld(t.w.seed, t.w.hh, lt, ln) })
	return e.w, e.err
}

type viTmpl struct {
	once sync.Once
	dir  string
	err  error
}

func (t *viTemplates) base(w *viWorld) (string, error) {
	return t.get("base-"+w.class, func(dir string) error {
		db, b, f, err := viOpenStores(&w.params, dir, true, nil)
		if err != nil {
			return err
		}
		viCloseFiles(b, f)
		return db.Close()
	})
}

func (t *viTemplates) get(key string, build func(dir string) error) (string, error) {
	t.mu.Lock()
	e, ok := t.dirs[key]
	if !ok {
		e = &viTmpl{dir: filepath.Join(t.root, "tmpl-"+key)}
		t.dirs[key] = e
	}
	t.mu.Unlock()
	e.once.Do(func() {
		if e.err = os.MkdirAll(e.dir, 0o755); e.err != nil {
			return
		}
		e.err = build(e.dir)
	})
	return e.dir, e.err
}

// forHeights: block store at hB, filter store at hF <= hB.
func (t *viTemplates) forHeights(w *viWorld, hB, hF int) (string, error) {
	base, err := t.base(w)
	if err != nil {
		return "", err
	}
	return t.get(fmt.Sprintf("%s%d.%d-%d-%d", w.class, w.lt, w.ln, hB, hF), func(dir string) error {
		if err := viCloneDir(base, dir); err != nil {
			return err
		}
		db, b, f, err := viOpenStores(&w.params, dir, false, nil)
		if err != nil {
			return err
		}
		defer db.Close()
		defer viCloseFiles(b, f)
		top := hB
		if hF > top {
			top = hF
		}
		var bh []headerfs.BlockHeader
		for h := 1; h <= top; h++ {
			bh = append(bh, headerfs.BlockHeader{BlockHeader: w.main[h], Height: uint32(h)})
		}
		if len(bh) > 0 {
			if err := b.WriteHeaders(bh...); err != nil {
				return err
			}
		}
		var fh []headerfs.FilterHeader
		for h := 1; h <= hF; h++ {
			fh = append(fh, headerfs.FilterHeader{
				HeaderHash: w.main[h].BlockHash(), FilterHash: w.mainF[h], Height: uint32(h),
			})
		}
		if len(fh) > 0 {
			if err := f.WriteHeaders(fh...); err != nil {
				return err
			}
		}
		return nil
	})
}

func (e *viEnv) open() error {
	if e.plan == nil {
		e.plan = &viPlan{}
	}
	e.plan.arm("", 0)
	db, b, f, err := viOpenStores(&e.w.params, e.dir, false, e.plan)
	if err != nil {
		e.up = false
		return err
	}
	e.db, e.b, e.f, e.up = db, b, f, true
	return nil
}

// kill drops everything volatile without writing anything (process death).
func (e *viEnv) kill() {
	if e.b != nil {
		viCloseFiles(e.b)
	}
	if e.f != nil {
		viCloseFiles(e.f)
	}
	if e.db != nil {
		e.db.Close()
	}
	e.db, e.b, e.f, e.up = nil, nil, nil, false
}

func (e *viEnv) fileB(h int) (int, *wire.BlockHeader) {
	c := e.cfg
	if c.Kind == "none" || h < c.X {
		return h, e.w.main[h]
	}
	hd := e.br.hdr[h-c.X]
	if h == c.X && c.Kind != "fork" {
		return 200 + h, hd
	}
	return 100 + h, hd
}

func (e *viEnv) fileF(h int) (int, chainhash.Hash) {
	c := e.cfg
	if c.Kind != "none" && h >= c.X {
		return 100 + h, e.br.fh[h-c.X]
	}
	if c.Fy >= 0 && h >= c.Fy {
		return 100 + h, viSum("fromF", e.w.seed, strconv.Itoa(c.Fy), strconv.Itoa(h))
	}
	return h, e.w.mainF[h]
}

func (e *viEnv) register() {
	e.byBH = map[chainhash.Hash]int{}
	e.byFH = map[chainhash.Hash]int{}
	e.hdrOf = map[int]*wire.BlockHeader{}
	for h := 0; h < e.hh; h++ {
		e.byBH[e.w.main[h].BlockHash()] = h
		e.byFH[e.w.mainF[h]] = h
		e.hdrOf[h] = e.w.main[h]
	}
	c := e.cfg
	for h := c.S; h < c.S+c.N; h++ {
		id, hd := e.fileB(h)
		e.byBH[hd.BlockHash()] = id
		e.hdrOf[id] = hd
		fid, fh := e.fileF(h)
		e.byFH[fh] = fid
	}
}

func (e *viEnv) idOfHeader(h *wire.BlockHeader) int {
	if id, ok := e.byBH[h.BlockHash()]; ok {
		return id
	}
	return viG
}

func (e *viEnv) idOfBlockHash(h chainhash.Hash) int {
	if h == (chainhash.Hash{}) {
		return -9
	}
	if id, ok := e.byBH[h]; ok {
		return id
	}
	return viG
}

func (e *viEnv) idOfFH(h *chainhash.Hash) int {
	if id, ok := e.byFH[*h]; ok {
		return id
	}
	return viG
}

func viFill(n, v int) []int {
	s := make([]int, n)
	for i := range s {
		s[i] = v
	}
	return s
}

func (e *viEnv) observe() viObs {
	var o viObs
	if !e.up {
		o.B = viBObs{Tip: []int{viERR, viERR}, ByH: viFill(e.hh, viERR), Hh: viFill(e.hh, viERR)}
		o.F = viFObs{Tip: []int{viERR, viERR}, ByH: viFill(e.hh, viERR)}
		return o
	}
	o.Up = 1
	if hd, ht, err := e.b.ChainTip(); err != nil {
		o.B.Tip = []int{viERR, viERR}
	} else {
		o.B.Tip = []int{e.idOfHeader(hd), int(ht)}
	}
	o.B.ByH = make([]int, e.hh)
	o.B.Hh = make([]int, e.hh)
	for h := 0; h < e.hh; h++ {
		hd, err := e.b.FetchHeaderByHeight(uint32(h))
		if err != nil {
			o.B.ByH[h], o.B.Hh[h] = viNF, viNF
			continue
		}
		o.B.ByH[h] = e.idOfHeader(hd)
		hash := hd.BlockHash()
		if ht, err := e.b.HeightFromHash(&hash); err != nil {
			o.B.Hh[h] = viNF
		} else {
			o.B.Hh[h] = int(ht)
		}
	}
	if fh, ht, err := e.f.ChainTip(); err != nil {
		o.F.Tip = []int{viERR, viERR}
	} else {
		o.F.Tip = []int{e.idOfFH(fh), int(ht)}
	}
	o.F.ByH = make([]int, e.hh)
	for h := 0; h < e.hh; h++ {
		fh, err := e.f.FetchHeaderByHeight(uint32(h))
		if err != nil {
			o.F.ByH[h] = viNF
		} else {
			o.F.ByH[h] = e.idOfFH(fh)
		}
	}
	return o
}

func viUsable(o viObs) bool {
	return o.Up == 1 && o.B.Tip[0] >= 0 && o.B.Tip[1] >= 0 && o.F.Tip[0] >= 0 && o.F.Tip[1] >= 0
}

// writeFiles writes the two import files: raw headers first, then the
// metadata is prepended with the package's own AddHeadersImportMetadata.
func (e *viEnv) writeFiles() error {
	c := e.cfg
	var bb, fb bytes.Buffer
	for h := c.S; h < c.S+c.N; h++ {
		_, hd := e.fileB(h)
		if err := hd.Serialize(&bb); err != nil {
			return err
		}
		_, fh := e.fileF(h)
		fb.Write(fh[:])
	}
	braw, fraw := bb.Bytes(), fb.Bytes()
	bNet, fNet := e.params.Net, e.params.Net
	fStart := uint32(c.S)
	switch c.Fk {
	case "magic":
		bNet, fNet = viWrongNet, viWrongNet
	case "magicF":
		fNet = viWrongNet
	case "truncB":
		braw = braw[:len(braw)-40]
	case "truncF":
		fraw = fraw[:len(fraw)-16]
	case "emptyB":
		braw = nil
	case "shortF":
		fraw = fraw[:len(fraw)-32]
	case "startF":
		fStart++
	}
	e.bPath = filepath.Join(e.dir, "import_block_headers.bin")
	e.fPath = filepath.Join(e.dir, "import_filter_headers.bin")
	if err := os.WriteFile(e.bPath, braw, 0o644); err != nil {
		return err
	}
	if err := os.WriteFile(e.fPath, fraw, 0o644); err != nil {
		return err
	}
	if err := AddHeadersImportMetadata(e.bPath, bNet, 0, headerfs.Block, uint32(c.S)); err != nil {
		return err
	}
	return AddHeadersImportMetadata(e.fPath, fNet, 0, headerfs.RegularFilter, fStart)
}

// ---------------------------------------------------------------------------
// Crash points INSIDE a store call: the flat files (through the overlay hook
// headerfs.VerifImportWrapFile) and the walletdb.DB handed to the stores are
// wrapped; the armed plan says where the current call dies.

type viPlan struct {
	kind    string // "" | cw | c2
	sn      int
	durable int
	fired   bool
}

func (p *viPlan) arm(kind string, sn int) { p.kind, p.sn, p.durable, p.fired = kind, sn, 0, false }

// step is called at the entry of every durable step (file write, file
// truncate, index transaction).
func (p *viPlan) step() {
	p.durable++
	if p.kind == "c2" && p.durable == 2 && !p.fired {
		p.fired = true
		panic(viCrash{})
	}
}

type viFile struct {
	headerfs.File
	p    *viPlan
	half int
}

func (f *viFile) Write(b []byte) (int, error) {
	f.p.step()
	if f.p.kind == "cw" && !f.p.fired {
		f.p.fired = true
		n := f.p.sn * f.half
		if n > len(b) {
			n = len(b)
		}
		if n > 0 {
			if _, err := f.File.Write(b[:n]); err != nil {
				panic(err)
			}
		}
		panic(viCrash{})
	}
	return f.File.Write(b)
}

func (f *viFile) Truncate(sz int64) error {
	f.p.step()
	return f.File.Truncate(sz)
}

type viDB struct {
	walletdb.DB
	p *viPlan
}

func (d *viDB) Update(f func(tx walletdb.ReadWriteTx) error, reset func()) error {
	d.p.step()
	return d.DB.Update(f, reset)
}

// ---------------------------------------------------------------------------
// An import source that becomes unreadable in the WRITE pass. The importer
// reads each source twice: once through the iterator of the validation pass,
// then through the iterators appendNewHeaders creates. The fault is armed when
// the source hands out its second iterator and makes every ReadAt at or
// beyond the header of height cfg.rk fail - with io.EOF (a short read: the
// tail of the file is gone) or with another I/O error. It is injected at the
// ImportHeadersFile interface the file source reads through.

var errViSourceRead = errors.New("verif: injected import source read error")

type viFlakyFile struct {
	ImportHeadersFile
	armed bool
	from  int64
	err   error
}

func (f *viFlakyFile) ReadAt(p []byte, off int64) (int, error) {
	if f.armed && off >= f.from {
		return 0, f.err
	}
	return f.ImportHeadersFile.ReadAt(p, off)
}

type viFlakySource struct {
	*fileHeaderImportSource
	flaky     *viFlakyFile
	iterators int
	index     int64
	hdrSize   int64
	err       error
}

func (s *viFlakySource) Open() error {
	if err := s.fileHeaderImportSource.Open(); err != nil {
		return err
	}
	s.flaky = &viFlakyFile{
		ImportHeadersFile: s.fileHeaderImportSource.file,
		from:              int64(ImportMetadataSize) + s.index*s.hdrSize,
		err:               s.err,
	}
	s.fileHeaderImportSource.file = s.flaky
	return nil
}

func (s *viFlakySource) Iterator(start, end, batchSize uint32) HeaderIterator {
	s.iterators++
	if s.iterators == 2 && s.flaky != nil {
		s.flaky.armed = true
	}
	return s.fileHeaderImportSource.Iterator(start, end, batchSize)
}

func viMakeFlaky(imp *headersImport, c viCfg) error {
	rerr := io.EOF
	if c.Rknd == "io" {
		rerr = errViSourceRead
	}
	switch c.Rsrc {
	case "B":
		inner, ok := imp.blockHeadersImportSource.(*fileHeaderImportSource)
		if !ok {
			return errors.New("block header source is not a file source")
		}
		imp.blockHeadersImportSource = &viFlakySource{
			fileHeaderImportSource: inner, index: int64(c.Rk - c.S),
			hdrSize: headerfs.BlockHeaderSize, err: rerr,
		}
	case "F":
		inner, ok := imp.filterHeadersImportSource.(*fileHeaderImportSource)
		if !ok {
			return errors.New("filter header source is not a file source")
		}
		imp.filterHeadersImportSource = &viFlakySource{
			fileHeaderImportSource: inner, index: int64(c.Rk - c.S),
			hdrSize: headerfs.RegularFilterHeaderSize, err: rerr,
		}
	default:
		return errors.New("unknown source " + c.Rsrc)
	}
	return nil
}

// ---------------------------------------------------------------------------
// Store wrappers: observe every mutating store call of the importer, inject.

type viCall struct {
	act viAct
	obs viObs
}

type viInj struct {
	kind string // err | cb | ca | cw | c2
	sn   int
}

type viTap struct {
	e     *viEnv
	run   int
	n     int           // mutating calls so far
	plan  map[int]viInj // call number -> what to inject
	calls []viCall
}

func (t *viTap) do(a viAct, fn func() error) error {
	t.n++
	inj := t.plan[t.n].kind
	a.Run, a.Cfg, a.Inj, a.Sn = t.run, t.e.cfg, "none", 0
	if inj != "" {
		a.Inj, a.Sn = inj, t.plan[t.n].sn
	}
	if t.n > viMaxCalls {
		// The import keeps writing far beyond anything the configuration
		// can need (a loop that does not advance): stop it with an I/O
		// error instead of letting it fill the disk; what it did to the
		// stores until here is judged like any other failed import.
		inj, a.Inj = "err", "runaway"
	}
	switch inj {
	case "err":
		a.Res = "err"
		t.calls = append(t.calls, viCall{act: a, obs: t.e.observe()})
		return errViInjected
	case "cb":
		a.Res = "crash"
		t.calls = append(t.calls, viCall{act: a})
		panic(viCrash{})
	case "cw", "c2":
		t.e.plan.arm(inj, a.Sn)
		var err error
		func() {
			defer func() {
				t.e.plan.arm("", 0)
				if r := recover(); r != nil {
					if _, ok := r.(viCrash); ok {
						a.Res = "crash"
						t.calls = append(t.calls, viCall{act: a})
					}
					panic(r)
				}
			}()
			err = fn()
		}()
		// the crash point was not reached: the call ran to completion
		a.Res = "ok"
		if err != nil {
			a.Res = "err"
		}
		t.e.detail = append(t.e.detail, "planned crash point "+inj+" not reached in "+a.Op)
		t.calls = append(t.calls, viCall{act: a, obs: t.e.observe()})
		return err
	case "ca":
		err := fn()
		a.Res = "crash"
		c := viCall{act: a}
		if err != nil {
			t.e.detail = append(t.e.detail, "store call before a crash-after failed: "+err.Error())
		}
		t.calls = append(t.calls, c)
		panic(viCrash{})
	}
	err := fn()
	a.Res = "ok"
	if err != nil {
		a.Res = "err"
		t.e.detail = append(t.e.detail, a.Op+": "+err.Error())
	}
	t.calls = append(t.calls, viCall{act: a, obs: t.e.observe()})
	return err
}

type viBStore struct {
	headerfs.BlockHeaderStore
	t *viTap
}

func (s *viBStore) WriteHeaders(hdrs ...headerfs.BlockHeader) error {
	hs := make([][]int, len(hdrs))
	for i, h := range hdrs {
		hs[i] = []int{s.t.e.idOfHeader(h.BlockHeader), int(h.Height)}
	}
	return s.t.do(viAct{Op: "WriteB", N: len(hdrs), T: viNF, Hs: hs}, func() error {
		return s.BlockHeaderStore.WriteHeaders(hdrs...)
	})
}

func (s *viBStore) RollbackBlockHeaders(n uint32) (*headerfs.BlockStamp, error) {
	var bs *headerfs.BlockStamp
	err := s.t.do(viAct{Op: "RollbackB", N: int(n), T: viNF, Hs: [][]int{}}, func() error {
		var err error
		bs, err = s.BlockHeaderStore.RollbackBlockHeaders(n)
		return err
	})
	return bs, err
}

func (s *viBStore) RollbackLastBlock() (*headerfs.BlockStamp, error) {
	return s.RollbackBlockHeaders(1)
}

type viFStore struct {
	headerfs.FilterHeaderStore
	t *viTap
}

func (s *viFStore) WriteHeaders(hdrs ...headerfs.FilterHeader) error {
	hs := make([][]int, len(hdrs))
	tip := viNF
	for i, h := range hdrs {
		fh := h.FilterHash
		hs[i] = []int{s.t.e.idOfFH(&fh), int(h.Height)}
		tip = s.t.e.idOfBlockHash(h.HeaderHash)
	}
	return s.t.do(viAct{Op: "WriteF", N: len(hdrs), T: tip, Hs: hs}, func() error {
		return s.FilterHeaderStore.WriteHeaders(hdrs...)
	})
}

func (s *viFStore) RollbackLastBlock(newTip *chainhash.Hash) (*headerfs.BlockStamp, error) {
	var bs *headerfs.BlockStamp
	err := s.t.do(viAct{Op: "RollbackF", N: 1, T: viNF, Hs: [][]int{}}, func() error {
		var err error
		bs, err = s.FilterHeaderStore.RollbackLastBlock(newTip)
		return err
	})
	return bs, err
}

// ---------------------------------------------------------------------------
// Running one import and turning it into model steps

var viStages = []string{"Open", "Compat", "Cont", "ValB", "ValF", "Regions", "DivVerify"}

// viFailedStage maps the error Import returned to the stage that produced it
// (len(viStages) = one of the batches / later).
func viFailedStage(err error) int {
	m := err.Error()
	switch {
	case strings.HasPrefix(m, "failed to open sources"):
		return 0
	case strings.HasPrefix(m, "failed to validate compatibility"):
		return 1
	case strings.HasPrefix(m, "failed to validate continuity"):
		return 2
	case strings.HasPrefix(m, "failed to validate block headers"):
		return 3
	case strings.HasPrefix(m, "failed to validate filter headers"):
		return 4
	case strings.HasPrefix(m, "failed to determine processing regions"):
		return 5
	case strings.Contains(m, "divergence headers processing failed") &&
		strings.Contains(m, "failed to verify headers at target height"):
		return 6
	}
	return len(viStages)
}

// runImport executes Import once and appends its steps. Returns "ok", "err",
// "panic" or "crash".
func (e *viEnv) runImport(run int, plan map[int]viInj, out *[]viStepOut) string {
	tap := &viTap{e: e, run: run, plan: plan}
	before := e.observe()
	opts := &ImportOptions{
		TargetChainParams:       e.params,
		TargetBlockHeaderStore:  &viBStore{BlockHeaderStore: e.b, t: tap},
		TargetFilterHeaderStore: &viFStore{FilterHeaderStore: e.f, t: tap},
		BlockHeadersSource:      e.bPath,
		FilterHeadersSource:     e.fPath,
		WriteBatchSizePerRegion: e.cfg.Bs,
		ValidationFlags:         blockchain.BFNone,
	}
	var (
		res    string
		impErr error
	)
	func() {
		defer func() {
			if r := recover(); r != nil {
				if _, ok := r.(viCrash); ok {
					res = "crash"
					return
				}
				buf := make([]byte, 8192)
				buf = buf[:runtime.Stack(buf, false)]
				res = "panic"
				e.detail = append(e.detail, fmt.Sprintf("Import panicked: %v\n%s", r, buf))
			}
		}()
		imp, err := NewHeadersImport(opts)
		if err != nil {
			res, impErr = "err", err
			return
		}
		if run == 1 && e.cfg.Rsrc != "none" && e.cfg.Rsrc != "" {
			if err := viMakeFlaky(imp, e.cfg); err != nil {
				panic("verif: " + err.Error())
			}
		}
		ctx, cancel := context.WithCancel(context.Background())
		defer cancel()
		if e.cfg.Cx == 1 {
			cancel() // the caller gave up before the import started
		}
		if _, err := imp.Import(ctx); err != nil {
			res, impErr = "err", err
			return
		}
		res = "ok"
	}()
	failed := len(viStages) + 1
	if impErr != nil {
		failed = viFailedStage(impErr)
		e.detail = append(e.detail, fmt.Sprintf("import %d: %v", run, impErr))
	}
	mk := func(op, r string) viAct {
		return viAct{Op: op, Run: run, Res: r, Inj: "none", T: viNF, Hs: [][]int{}, Cfg: e.cfg}
	}
	for i, st := range viStages {
		if i == failed {
			*out = append(*out, viStepOut{Act: mk(st, "err"), Obs: before})
			break
		}
		*out = append(*out, viStepOut{Act: mk(st, "ok"), Obs: before})
	}
	last := before
	for _, c := range tap.calls {
		if c.act.Res == "crash" {
			// nothing is observable between the crash and the restart
			dead := *e
			dead.up = false
			*out = append(*out, viStepOut{Act: c.act, Obs: dead.observe()})
			continue
		}
		last = c.obs
		*out = append(*out, viStepOut{Act: c.act, Obs: c.obs})
	}
	_ = last
	if res != "crash" {
		*out = append(*out, viStepOut{Act: mk("Return", res), Obs: e.observe()})
	}
	return res
}

// probe appends one fresh valid block header above the block tip and one
// filter header above the filter tip, the way the block manager would.
func (e *viEnv) probe(run int, out *[]viStepOut) {
	a := viAct{Op: "Probe", Run: run, Res: "ok", Inj: "none", T: viNF, Hs: [][]int{}, Cfg: e.cfg}
	err := func() error {
		tip, ht, err := e.b.ChainTip()
		if err != nil {
			return err
		}
		hb := int(ht) + 1
		hd := &wire.BlockHeader{
			Version:    4,
			PrevBlock:  tip.BlockHash(),
			MerkleRoot: viSum("probe", e.w.seed, strconv.Itoa(hb)),
			Timestamp:  time.Unix(viT0+600*int64(hb)+2, 0),
			Bits:       e.w.params.PowLimitBits,
		}
		viMine(hd, true)
		e.byBH[hd.BlockHash()] = 300 + hb
		if err := e.b.WriteHeaders(headerfs.BlockHeader{BlockHeader: hd, Height: uint32(hb)}); err != nil {
			return err
		}
		_, fht, err := e.f.ChainTip()
		if err != nil {
			return err
		}
		hf := int(fht) + 1
		blk, err := e.b.FetchHeaderByHeight(uint32(hf))
		if err != nil {
			return err
		}
		pf := viSum("probeF", e.w.seed, strconv.Itoa(hf))
		e.byFH[pf] = 300 + hf
		return e.f.WriteHeaders(headerfs.FilterHeader{
			HeaderHash: blk.BlockHash(), FilterHash: pf, Height: uint32(hf),
		})
	}()
	if err != nil {
		a.Res = "err"
		e.detail = append(e.detail, "probe: "+err.Error())
	}
	*out = append(*out, viStepOut{Act: a, Obs: e.observe()})
}

// viSlot is a worker's store directory. Cloning the template (an 8 MB bbolt
// file) for every path dominates the run time, so a directory whose stores are
// still open is reused: both stores are rolled back to the longest prefix of
// the reference chain they hold, extended with reference headers to the
// heights the next configuration wants, and the result is CHECKED through the
// read API against the expected initial state. Anything else (closed stores,
// a reset step failing, a mismatch) discards the directory and clones afresh.
type viSlot struct {
	dir  string
	// class of the world whose genesis block the directory was created
	// with; a directory is never reused across classes
	class string
	db   walletdb.DB
	b    headerfs.BlockHeaderStore
	f    headerfs.FilterHeaderStore
	plan *viPlan
}

func (s *viSlot) discard() {
	if s.db != nil {
		viCloseFiles(s.b, s.f)
		s.db.Close()
	}
	if s.dir != "" {
		os.RemoveAll(s.dir)
	}
	*s = viSlot{}
}

var viClones atomic.Int64

func viInitialObs(hh, top, hF int) viObs {
	o := viObs{Up: 1}
	o.B = viBObs{Tip: []int{top, top}, ByH: viFill(hh, viNF), Hh: viFill(hh, viNF)}
	o.F = viFObs{Tip: []int{hF, hF}, ByH: viFill(hh, viNF)}
	for h := 0; h <= top; h++ {
		o.B.ByH[h], o.B.Hh[h] = h, h
	}
	for h := 0; h <= hF; h++ {
		o.F.ByH[h] = h
	}
	return o
}

func viSameObs(a, b viObs) bool {
	x, _ := json.Marshal(a)
	y, _ := json.Marshal(b)
	return bytes.Equal(x, y)
}

// reset brings open, healthy stores to block height top / filter height hF
// holding reference headers only. Returns false if that is not possible.
func (s *viSlot) reset(e *viEnv, top, hF int) bool {
	e.dir, e.db, e.b, e.f, e.plan, e.up = s.dir, s.db, s.b, s.f, s.plan, true
	e.plan.arm("", 0)
	o := e.observe()
	if o.Up == 1 && o.B.Tip[1] >= 0 && o.F.Tip[1] < 0 {
		// Filter store ahead of a rolled-back block store (its tip no
		// longer resolves): put the reference block headers back.
		fl := 0
		for fl < e.hh && o.F.ByH[fl] >= 0 {
			fl++
		}
		var bh []headerfs.BlockHeader
		for h := o.B.Tip[1] + 1; h < fl; h++ {
			bh = append(bh, headerfs.BlockHeader{BlockHeader: e.w.main[h], Height: uint32(h)})
		}
		if o.B.Tip[0] == o.B.Tip[1] && len(bh) > 0 && e.b.WriteHeaders(bh...) == nil {
			o = e.observe()
		}
	}
	// (tip ids may be unknown here: headers of the previous configuration)
	if o.Up != 1 || o.B.Tip[1] < 0 || o.F.Tip[1] < 0 || o.B.Tip[1] >= e.hh ||
		o.F.Tip[1] > o.B.Tip[1] {

		return viResetFail(1)
	}
	kb := 0
	for kb+1 <= o.B.Tip[1] && o.B.ByH[kb+1] == kb+1 && o.B.Hh[kb+1] == kb+1 {
		kb++
	}
	if kb > top {
		kb = top
	}
	kf := 0
	for kf+1 <= o.F.Tip[1] && o.F.ByH[kf+1] == kf+1 {
		kf++
	}
	if kf > hF {
		kf = hF
	}
	if kf > kb {
		kf = kb
	}
	for h := o.F.Tip[1]; h > kf; h-- {
		blk, err := e.b.FetchHeaderByHeight(uint32(h - 1))
		if err != nil {
			return viResetFail(2)
		}
		hash := blk.BlockHash()
		if _, err := e.f.RollbackLastBlock(&hash); err != nil {
			return viResetFail(3)
		}
	}
	if o.B.Tip[1] > kb {
		if _, err := e.b.RollbackBlockHeaders(uint32(o.B.Tip[1] - kb)); err != nil {
			return viResetFail(4)
		}
	}
	var bh []headerfs.BlockHeader
	for h := kb + 1; h <= top; h++ {
		bh = append(bh, headerfs.BlockHeader{BlockHeader: e.w.main[h], Height: uint32(h)})
	}
	if len(bh) > 0 {
		if err := e.b.WriteHeaders(bh...); err != nil {
			return viResetFail(5)
		}
	}
	var fh []headerfs.FilterHeader
	for h := kf + 1; h <= hF; h++ {
		fh = append(fh, headerfs.FilterHeader{
			HeaderHash: e.w.main[h].BlockHash(), FilterHash: e.w.mainF[h], Height: uint32(h),
		})
	}
	if len(fh) > 0 {
		if err := e.f.WriteHeaders(fh...); err != nil {
			return viResetFail(6)
		}
	}
	if !viSameObs(e.observe(), viInitialObs(e.hh, top, hF)) {
		return viResetFail(99)
	}
	// nothing hidden behind the read API either: the flat files are exactly
	// as long as the entries they should hold
	if !viFileSize(filepath.Join(e.dir, "block_headers.bin"), int64(top+1)*80) ||
		!viFileSize(filepath.Join(e.dir, "reg_filter_headers.bin"), int64(hF+1)*32) {
		return viResetFail(98)
	}
	return true
}

var viResetFails sync.Map

func viResetFail(n int) bool {
	c, _ := viResetFails.LoadOrStore(n, new(atomic.Int64))
	c.(*atomic.Int64).Add(1)
	return false
}

func viFileSize(path string, want int64) bool {
	st, err := os.Stat(path)
	return err == nil && st.Size() == want
}

// acquire gives e open stores at block height top / filter height hF.
func (s *viSlot) acquire(t *viTemplates, e *viEnv, top, hF int, scratch string) error {
	if s.dir != "" && s.db != nil && s.class == e.w.class && os.Getenv("VERIF_NOREUSE") == "" {
		if s.reset(e, top, hF) {
			return nil
		}
	}
	s.discard()
	viClones.Add(1)
	e.db, e.b, e.f, e.plan, e.up = nil, nil, nil, nil, false
	tmpl, err := t.forHeights(e.w, top, hF)
	if err != nil {
		return fmt.Errorf("template: %w", err)
	}
	dir, err := os.MkdirTemp(scratch, "p")
	if err != nil {
		return err
	}
	s.dir, e.dir, s.class = dir, dir, e.w.class
	if err := viCloneDir(tmpl, dir); err != nil {
		return err
	}
	if err := e.open(); err != nil {
		return fmt.Errorf("initial open: %w", err)
	}
	if !viSameObs(e.observe(), viInitialObs(e.hh, top, hF)) {
		return errors.New("template does not hold the expected initial state")
	}
	return nil
}

// release hands the stores back to the slot if they are still open.
func (s *viSlot) release(e *viEnv) {
	if e.up && e.db != nil && e.dir == s.dir {
		s.db, s.b, s.f, s.plan = e.db, e.b, e.f, e.plan
		return
	}
	e.kill()
	s.db, s.b, s.f, s.plan = nil, nil, nil, nil
	s.discard()
}

func viRunPath(t *viTemplates, slot *viSlot, p viPathIn, scratch string) (out viPathOut) {
	out.ID = p.ID
	out.Steps = []viStepOut{}
	if len(p.Steps) == 0 {
		out.Error = "empty path"
		return
	}
	cfg := p.Steps[0].Act.Cfg
	e := &viEnv{w: t.w, cfg: cfg, hh: len(p.InitObs.B.ByH), params: viParams}
	if w, err := t.world(cfg.Lt, cfg.Ln); err != nil {
		out.Error = err.Error()
		return
	} else {
		e.w, e.params = w, w.params
	}
	if cfg.Ck >= 0 {
		e.params.Net = viCkNetBase + wire.BitcoinNet(cfg.Ck)
	}
	defer func() {
		out.Detail = e.detail
		if r := recover(); r != nil {
			buf := make([]byte, 8192)
			buf = buf[:runtime.Stack(buf, false)]
			out.Error = fmt.Sprintf("driver panic: %v\n%s", r, buf)
		}
		if out.Error != "" || e.crashed {
			// never hand a directory that went through a crash (or a
			// driver error) to the next configuration
			e.up = false
		}
		slot.release(e)
	}()
	if e.hh > e.w.hh || cfg.S+cfg.N > e.w.hh {
		out.Error = "configuration exceeds the generated universe"
		return
	}
	if cfg.Kind != "none" {
		br, err := e.w.getBranch(cfg.X, cfg.Kind)
		if err != nil {
			out.Error = err.Error()
			return
		}
		e.br = br
	}
	e.register()
	top := cfg.HB
	if cfg.HF > top {
		top = cfg.HF
	}
	if err := slot.acquire(t, e, top, cfg.HF, scratch); err != nil {
		out.Error = err.Error()
		return
	}
	if err := e.writeFiles(); err != nil {
		out.Error = "writing import files: " + err.Error()
		return
	}
	if top > cfg.HB {
		// The filter store ahead of the block store: the only way real
		// stores get there is a block-store rollback while both are open
		// (such a directory cannot even be opened again).
		if _, err := e.b.RollbackBlockHeaders(uint32(top - cfg.HB)); err != nil {
			out.Error = "initial rollback: " + err.Error()
			return
		}
	}
	out.InitObs = e.observe()

	// where does the path inject?
	plan := map[int]viInj{}
	k := 0
	for _, s := range p.Steps {
		switch s.Act.Op {
		case "WriteB", "WriteF", "RollbackB":
			if s.Act.Run == 1 {
				k++
				if s.Act.Inj != "none" && s.Act.Inj != "" {
					plan[k] = viInj{kind: s.Act.Inj, sn: s.Act.Sn}
				}
			}
		}
	}

	begin := viAct{Op: "Begin", Run: 1, Res: "ok", Inj: "none", T: viNF, Hs: [][]int{}, Cfg: cfg}
	out.Steps = append(out.Steps, viStepOut{Act: begin, Obs: out.InitObs})
	res := e.runImport(1, plan, &out.Steps)
	switch res {
	case "ok":
		e.runImport(2, nil, &out.Steps)
	case "crash":
		e.crashed = true
		e.kill()
		a := viAct{Op: "Recover", Run: 1, Res: "ok", Inj: "none", T: viNF, Hs: [][]int{}, Cfg: cfg}
		if err := e.open(); err != nil {
			a.Res = "err"
			e.detail = append(e.detail, "recover: "+err.Error())
		}
		o := e.observe()
		out.Steps = append(out.Steps, viStepOut{Act: a, Obs: o})
		if viUsable(o) {
			e.probe(1, &out.Steps)
		}
	default:
		if viUsable(out.Steps[len(out.Steps)-1].Obs) {
			e.probe(1, &out.Steps)
		}
	}
	return
}

func TestVerifImportReplay(t *testing.T) {
	in, outFn := os.Getenv("VERIF_PATHS"), os.Getenv("VERIF_OUT")
	if in == "" || outFn == "" {
		t.Skip("VERIF_PATHS / VERIF_OUT not set")
	}
	scratch := os.Getenv("VERIF_SCRATCH")
	if scratch == "" {
		scratch = t.TempDir()
	}
	f, err := os.Open(in)
	if err != nil {
		t.Fatal(err)
	}
	defer f.Close()
	var paths []viPathIn
	sc := bufio.NewScanner(f)
	sc.Buffer(make([]byte, 1<<20), 1<<28)
	hh := 0
	for sc.Scan() {
		var p viPathIn
		if err := json.Unmarshal(sc.Bytes(), &p); err != nil {
			t.Fatal(err)
		}
		if n := len(p.InitObs.B.ByH); n > hh {
			hh = n
		}
		paths = append(paths, p)
	}
	seed := os.Getenv("VERIF_SEED")
	if seed == "" {
		seed = "1"
	}
	world, err := viNewWorld(seed, hh+1, -1, 0)
	if err != nil {
		t.Fatal(err)
	}
	for h := 0; h < world.hh; h++ {
		cp := world.mainF[h]
		chainsync.VerifSetFilterHeaderCheckpoints(
			viCkNetBase+wire.BitcoinNet(h), map[uint32]*chainhash.Hash{uint32(h): &cp},
		)
	}
	troot, err := os.MkdirTemp(scratch, "templates")
	if err != nil {
		t.Fatal(err)
	}
	defer os.RemoveAll(troot)
	tm := &viTemplates{root: troot, w: world, dirs: map[string]*viTmpl{}}

	results := make([]viPathOut, len(paths))
	var wg sync.WaitGroup
	jobs := make(chan int)
	nw := runtime.NumCPU()
	if v, err := strconv.Atoi(os.Getenv("VERIF_WORKERS")); err == nil && v > 0 {
		nw = v
	}
	for w := 0; w < nw; w++ {
		wg.Add(1)
		go func() {
			defer wg.Done()
			slot := &viSlot{}
			defer slot.discard()
			for i := range jobs {
				results[i] = viRunPath(tm, slot, paths[i], scratch)
			}
		}()
	}
	for i := range paths {
		jobs <- i
		if i%256 == 255 {
			runtime.GC() // releases the header files' descriptors of finished paths
		}
	}
	close(jobs)
	wg.Wait()
	t.Logf("verif: %d paths, %d store directories cloned", len(paths), viClones.Load())
	viResetFails.Range(func(k, v any) bool {
		t.Logf("verif: reset gave up at point %v: %d times", k, v.(*atomic.Int64).Load())
		return true
	})
	of, err := os.Create(outFn)
	if err != nil {
		t.Fatal(err)
	}
	w := bufio.NewWriter(of)
	enc := json.NewEncoder(w)
	for i := range results {
		if err := enc.Encode(&results[i]); err != nil {
			t.Fatal(err)
		}
	}
	w.Flush()
	of.Close()
}

var _ = binary.LittleEndian
var _ = big.NewInt
