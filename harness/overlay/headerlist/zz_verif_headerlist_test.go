//go:build verif

// Driver of the HeaderList slice (properties C01 / C02): replays paths of
// specs/HeaderList/HeaderList.tla against the REAL headerlist.BoundedMemoryChain
// and records, after every call, what Back(), Front(), the Prev() chain and
// Node.Ancestor answer (the projection HeaderList.tla calls Obs), plus the
// structure's own bookkeeping for the drift comparison.
//
// The structure is single-threaded, so there are no gates.  A call that does
// not return (Ancestor and buildAncestor contain an unbounded loop) is
// recorded as the outcome HANG after vhHangAfter (>= 10^5 x the normal
// duration of a whole path); the spinning goroutine is abandoned.
package headerlist

import (
	"bufio"
	"encoding/json"
	"os"
	"runtime"
	"strconv"
	"sync"
	"sync/atomic"
	"testing"
	"time"
)

const (
	vhNil    = -1
	vhLoop   = -7
	vhHang   = -9
	vhNotObs = -8

	vhHangAfter = 3 * time.Second
	vhMaxHangs  = 6
)

type vhAct struct {
	Op  string `json:"op"`
	ID  int    `json:"id"`
	H   int    `json:"h"`
	Res int    `json:"res"`
}

type vhObs struct {
	Cap       int     `json:"cap"`
	Back      int     `json:"back"`
	BackH     int     `json:"backH"`
	Front     int     `json:"front"`
	FrontH    int     `json:"frontH"`
	FrontPrev int     `json:"frontPrev"`
	Chain     []int   `json:"chain"`
	Heights   []int   `json:"heights"`
	Anc       []int   `json:"anc"`
	RetBack   int     `json:"retBack"`
	Ptrs      []int   `json:"ptrs"`
	Slots     [][]int `json:"slots"`
}

type vhStepIn struct {
	Act vhAct `json:"act"`
}

type vhPathIn struct {
	ID   int `json:"id"`
	Init struct {
		Cap int `json:"cap"`
	} `json:"init"`
	InitObs *vhObs     `json:"init_obs"`
	Steps   []vhStepIn `json:"steps"`
}

type vhStepOut struct {
	Act vhAct `json:"act"`
	Obs vhObs `json:"obs"`
}

type vhPathOut struct {
	ID      int         `json:"id"`
	InitObs vhObs       `json:"init_obs"`
	Steps   []vhStepOut `json:"steps"`
	Hung    string      `json:"hung,omitempty"`
	Error   string      `json:"error,omitempty"`
}

var vhHangs int32

func vhID(n *Node) int {
	if n == nil {
		return vhNil
	}
	return int(n.Header.Nonce)
}

func vhSlot(b *BoundedMemoryChain, n *Node) int {
	if n == nil {
		return 0
	}
	for i := range b.chain {
		if n == &b.chain[i] {
			return i + 1
		}
	}
	return -2 // a pointer to something that is not a slot of this chain
}

// vhRun is the state of one path; the runner reads it under mu when the path
// goroutine stopped making progress.
type vhRun struct {
	mu      sync.Mutex
	out     vhPathOut
	phase   string // "op" or "obs"
	curAct  vhAct
	curObs  vhObs // under construction while phase == "obs"
	curT    int   // Ancestor target being asked
	lastObs vhObs
	done    bool
}

func (r *vhRun) observe(b *BoundedMemoryChain, ret *Node, withAnc bool) vhObs {
	o := vhObs{Cap: int(b.maxSize), Back: vhNil, BackH: vhNil, Front: vhNil, FrontH: vhNil,
		FrontPrev: vhNil, Chain: []int{}, Heights: []int{}, Anc: []int{}, RetBack: 1}
	back, front := b.Back(), b.Front()
	if back != nil {
		o.Back, o.BackH = vhID(back), int(back.Height)
	}
	if front != nil {
		o.Front, o.FrontH, o.FrontPrev = vhID(front), int(front.Height), vhID(front.Prev())
	}
	if ret != nil && ret != back {
		o.RetBack = 0
	}
	n := back
	for i := 0; n != nil; i++ {
		if i == int(b.maxSize)+2 {
			o.Chain = append(o.Chain, vhLoop)
			o.Heights = append(o.Heights, vhLoop)
			break
		}
		o.Chain = append(o.Chain, vhID(n))
		o.Heights = append(o.Heights, int(n.Height))
		n = n.Prev()
	}
	o.Ptrs = []int{int(b.headPtr), int(b.tailPtr), int(b.len)}
	o.Slots = make([][]int, len(b.chain))
	for i := range b.chain {
		s := &b.chain[i]
		o.Slots[i] = []int{int(s.Header.Nonce), int(s.Height), vhSlot(b, s.prev), vhSlot(b, s.ancestor)}
	}
	if back != nil {
		o.Anc = make([]int, back.Height+2)
		for t := range o.Anc {
			o.Anc[t] = vhNotObs
		}
		r.mu.Lock()
		r.curObs = o
		r.phase = "obs"
		r.mu.Unlock()
		if withAnc {
			for t := range o.Anc {
				r.mu.Lock()
				r.curT = t
				r.mu.Unlock()
				a := vhID(back.Ancestor(int32(t)))
				r.mu.Lock()
				o.Anc[t] = a
				r.mu.Unlock()
			}
		}
	}
	return o
}

func (r *vhRun) run(p vhPathIn, withAnc bool) {
	k := p.Init.Cap
	if k == 0 && p.InitObs != nil {
		k = p.InitObs.Cap
	}
	b := NewBoundedMemoryChain(uint32(k))
	o := r.observe(b, nil, withAnc)
	r.mu.Lock()
	r.out.InitObs, r.lastObs = o, o
	r.mu.Unlock()
	for _, st := range p.Steps {
		a := st.Act
		a.Res = 0
		r.mu.Lock()
		r.phase, r.curAct = "op", a
		r.mu.Unlock()
		n := Node{Height: int32(a.H)}
		n.Header.Nonce = uint32(a.ID)
		var ret *Node
		switch a.Op {
		case "PushBack":
			ret = b.PushBack(n)
			a.Res = vhID(ret)
		case "Reset":
			b.ResetHeaderState(n)
		}
		r.mu.Lock()
		r.curAct = a
		r.mu.Unlock()
		o := r.observe(b, ret, withAnc)
		r.mu.Lock()
		r.out.Steps = append(r.out.Steps, vhStepOut{Act: a, Obs: o})
		r.lastObs = o
		r.phase = ""
		r.mu.Unlock()
	}
	r.mu.Lock()
	r.done = true
	r.mu.Unlock()
}

func vhRunPath(p vhPathIn) vhPathOut {
	hangs := atomic.LoadInt32(&vhHangs)
	if hangs >= vhMaxHangs {
		return vhPathOut{ID: p.ID, Steps: []vhStepOut{}, Hung: "not run: too many hung calls in this process already"}
	}
	r := &vhRun{}
	r.out.ID = p.ID
	r.out.Steps = []vhStepOut{}
	fin := make(chan struct{})
	go func() {
		defer func() {
			if x := recover(); x != nil {
				r.mu.Lock()
				// A panic of the code under test is the outcome of that call.
				a := r.curAct
				a.Res = vhHang - 1
				o := r.lastObs
				r.out.Steps = append(r.out.Steps, vhStepOut{Act: a, Obs: o})
				r.out.Hung = "panic: " + toStr(x)
				r.mu.Unlock()
			}
			close(fin)
		}()
		r.run(p, true)
	}()
	select {
	case <-fin:
	case <-time.After(vhHangAfter):
		atomic.AddInt32(&vhHangs, 1)
		r.mu.Lock()
		defer r.mu.Unlock()
		if r.done {
			return r.out
		}
		switch r.phase {
		case "obs":
			o := r.curObs
			o.Anc = append([]int(nil), o.Anc...)
			o.Anc[r.curT] = vhHang
			r.out.Steps = append(r.out.Steps, vhStepOut{Act: r.curAct, Obs: o})
			r.out.Hung = "Back().Ancestor(" + strconv.Itoa(r.curT) + ") did not return"
		default:
			a := r.curAct
			a.Res = vhHang
			r.out.Steps = append(r.out.Steps, vhStepOut{Act: a, Obs: r.lastObs})
			r.out.Hung = a.Op + " did not return"
		}
		out := r.out
		out.Steps = append([]vhStepOut(nil), out.Steps...)
		return out
	}
	r.mu.Lock()
	defer r.mu.Unlock()
	return r.out
}

func toStr(x interface{}) string {
	if e, ok := x.(error); ok {
		return e.Error()
	}
	if s, ok := x.(string); ok {
		return s
	}
	return "panic"
}

func TestVerifHeaderListReplay(t *testing.T) {
	in, outFn := os.Getenv("VERIF_PATHS"), os.Getenv("VERIF_OUT")
	if in == "" || outFn == "" {
		t.Skip("VERIF_PATHS / VERIF_OUT not set")
	}
	f, err := os.Open(in)
	if err != nil {
		t.Fatal(err)
	}
	defer f.Close()
	var paths []vhPathIn
	sc := bufio.NewScanner(f)
	sc.Buffer(make([]byte, 1<<20), 1<<28)
	for sc.Scan() {
		var p vhPathIn
		if err := json.Unmarshal(sc.Bytes(), &p); err != nil {
			t.Fatal(err)
		}
		paths = append(paths, p)
	}
	results := make([]vhPathOut, len(paths))
	nw := runtime.NumCPU()
	if nw > 4 {
		nw = 4
	}
	if v, err := strconv.Atoi(os.Getenv("VERIF_WORKERS")); err == nil && v > 0 {
		nw = v
	}
	var wg sync.WaitGroup
	jobs := make(chan int)
	for w := 0; w < nw; w++ {
		wg.Add(1)
		go func() {
			defer wg.Done()
			for i := range jobs {
				results[i] = vhRunPath(paths[i])
			}
		}()
	}
	for i := range paths {
		jobs <- i
	}
	close(jobs)
	wg.Wait()
	of, err := os.Create(outFn)
	if err != nil {
		t.Fatal(err)
	}
	w := bufio.NewWriter(of)
	enc := json.NewEncoder(w)
	for i := range results {
		if err := enc.Encode(&results[i]); err != nil {
			t.Fatal(err)
		}
	}
	w.Flush()
	of.Close()
}
