//go:build verif

// Package-specific part of the Broadcaster driver for package neutrino: the
// rescan-to-broadcaster slice of property C15.  The driver's action
// Mined(tx, class) puts the broadcast transaction into a block and runs the
// REAL extractBlockMatches (rescan.go) on it, with a RescanChainSource whose
// ChainService owns the REAL pushtx.Broadcaster under test; the relevance
// class says why the rescan cares about the transaction:
//
//	spend    one of its inputs is a watched outpoint
//	pay      one of its outputs pays a watched address (no watched input)
//	both     both of the above
//	neither  the rescan watches nothing of it
//
// GetBlock is answered from the real BlockCache (the block is put there), the
// header lookup by a one-block header store, the filter is the real basic
// filter of the block, so VerifyBasicBlockFilter passes.
package neutrino

import (
	"fmt"
	"time"

	"github.com/btcsuite/btcd/address/v2"
	"github.com/btcsuite/btcd/btcutil/v2"
	"github.com/btcsuite/btcd/btcutil/v2/gcs/builder"
	"github.com/btcsuite/btcd/chaincfg/v2"
	"github.com/btcsuite/btcd/chainhash/v2"
	"github.com/btcsuite/btcd/wire/v2"
	"github.com/lightninglabs/neutrino/cache/lru"
	"github.com/lightninglabs/neutrino/headerfs"
	"github.com/lightninglabs/neutrino/pushtx"
)

type (
	vbBroadcaster    = pushtx.Broadcaster
	vbConfig         = pushtx.Config
	vbBroadcastError = pushtx.BroadcastError
	vbErrCode        = pushtx.BroadcastErrorCode
)

const (
	vbMempool   = pushtx.Mempool
	vbConfirmed = pushtx.Confirmed
)

var (
	vbNewBroadcaster      = pushtx.NewBroadcaster
	vbParseBroadcastError = pushtx.ParseBroadcastError
	vbErrStopped          = pushtx.ErrBroadcasterStopped
	vbUseLogger           = pushtx.UseLogger
)

// No access to the broadcaster's channels from here.
func vbDrain(*pushtx.Broadcaster) bool { return false }

// vbHeaders is a block header store that knows the blocks the driver mined.
type vbHeaders struct {
	headerfs.BlockHeaderStore
	byHash map[chainhash.Hash]vbHeader
}

type vbHeader struct {
	h      wire.BlockHeader
	height uint32
}

func (m *vbHeaders) FetchHeader(h *chainhash.Hash) (*wire.BlockHeader, uint32, error) {
	e, ok := m.byHash[*h]
	if !ok {
		return nil, 0, fmt.Errorf("unknown header %v", h)
	}
	hdr := e.h
	return &hdr, e.height, nil
}

type vbEnv struct {
	cs     *ChainService
	hdrs   *vbHeaders
	height uint32
}

func vbNewEnv() vbEnv { return vbEnv{} }

func (vbEnv) canMine() bool { return true }

func vbP2WPKH(rnd func([]byte)) []byte {
	pk := make([]byte, 22)
	rnd(pk)
	pk[0], pk[1] = 0x00, 0x14
	return pk
}

// mined prepares the block and the rescan options and returns the call of the
// real extractBlockMatches; the result says whether the rescan returned the
// transaction as relevant.
func (vbEnv) mined(s *vbSUT, tx int, rel string) func() (bool, error) {
	e := &s.env
	if e.cs == nil {
		e.hdrs = &vbHeaders{byHash: map[chainhash.Hash]vbHeader{}}
		e.cs = &ChainService{
			BlockHeaders: e.hdrs,
			BlockCache:   lru.NewCache[wire.InvVect, *CacheableBlock](1 << 30),
			broadcaster:  s.b,
			quit:         make(chan struct{}),
		}
		e.height = 100
	}
	rnd := func(b []byte) { s.rng.Read(b) }
	target := s.txs[tx]

	// The block: coinbase, sometimes an unrelated transaction before or
	// after, and the broadcast transaction.
	blk := wire.NewMsgBlock(&wire.BlockHeader{
		Version:   4,
		Timestamp: time.Unix(1700000000+int64(s.rng.Intn(1000000)), 0),
		Bits:      0x207fffff,
		Nonce:     s.rng.Uint32(),
	})
	rnd(blk.Header.PrevBlock[:])
	rnd(blk.Header.MerkleRoot[:])
	cb := wire.NewMsgTx(2)
	cb.AddTxIn(wire.NewTxIn(wire.NewOutPoint(&chainhash.Hash{}, 0xffffffff), []byte{0x01, byte(e.height)}, nil))
	cb.AddTxOut(wire.NewTxOut(5000000000, vbP2WPKH(rnd)))
	_ = blk.AddTransaction(cb)
	other := func() *wire.MsgTx {
		o := wire.NewMsgTx(2)
		var h chainhash.Hash
		rnd(h[:])
		o.AddTxIn(wire.NewTxIn(wire.NewOutPoint(&h, 1), nil, nil))
		o.AddTxOut(wire.NewTxOut(12345, vbP2WPKH(rnd)))
		return o
	}
	var decoy *wire.MsgTx
	if s.rng.Intn(2) == 0 {
		decoy = other()
		_ = blk.AddTransaction(decoy)
	}
	_ = blk.AddTransaction(target.Copy())
	if s.rng.Intn(2) == 0 {
		_ = blk.AddTransaction(other())
	}

	e.height++
	block := btcutil.NewBlock(blk)
	block.SetHeight(int32(e.height))
	hash := blk.BlockHash()
	e.hdrs.byHash[hash] = vbHeader{h: blk.Header, height: e.height}
	inv := wire.NewInvVect(wire.InvTypeWitnessBlock, &hash)
	if _, err := e.cs.BlockCache.Put(*inv, &CacheableBlock{Block: block}); err != nil {
		return func() (bool, error) { return false, err }
	}
	filter, err := builder.BuildBasicFilter(blk, nil)
	if err != nil {
		return func() (bool, error) { return false, err }
	}

	// What the rescan watches: always something unrelated, plus what the
	// relevance class says.
	ro := defaultRescanOptions()
	var h chainhash.Hash
	rnd(h[:])
	ro.watchInputs = append(ro.watchInputs, InputWithScript{
		OutPoint: *wire.NewOutPoint(&h, 0), PkScript: vbP2WPKH(rnd),
	})
	if a, err := address.NewAddressWitnessPubKeyHash(vbP2WPKH(rnd)[2:], &chaincfg.RegressionNetParams); err == nil {
		ro.watchAddrs = append(ro.watchAddrs, a)
	}
	if rel == "spend" || rel == "both" {
		ro.watchInputs = append(ro.watchInputs, InputWithScript{
			OutPoint: s.ext[tx-1], PkScript: vbP2WPKH(rnd),
		})
	}
	if rel == "pay" || rel == "both" {
		a, err := address.NewAddressWitnessPubKeyHash(
			target.TxOut[0].PkScript[2:], &chaincfg.RegressionNetParams,
		)
		if err != nil {
			return func() (bool, error) { return false, err }
		}
		ro.watchAddrs = append(ro.watchAddrs, a)
	}

	stamp := &headerfs.BlockStamp{Hash: hash, Height: int32(e.height)}
	chain := &RescanChainSource{ChainService: e.cs}
	want := target.TxHash()
	return func() (bool, error) {
		txs, err := extractBlockMatches(chain, ro, stamp, filter)
		if err != nil {
			return false, err
		}
		for _, t := range txs {
			if *t.Hash() == want {
				return true, nil
			}
		}
		return false, nil
	}
}
