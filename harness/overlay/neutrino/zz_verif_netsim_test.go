package neutrino

// netsim: an in-process Bitcoin P2P network for driving the REAL ChainService.
// Injected into package neutrino with `go test -overlay` (nothing is copied
// into /repo).  All identifiers are prefixed vn.  Used by the Client family
// (C04, zz_verif_client_test.go) and meant to be reused by other families
// (Shutdown, C17) from their own overlay files in this package.
//
// API (everything else in this file is an implementation detail)
//
//	vnShortenTimeouts()                       shorten the exported package timeouts (idempotent, process wide)
//	n := vnStartNetwork(seed, initialLen)     chain parameters + an honest chain of initialLen blocks above genesis
//	nd := n.AddNode(vnBehaviour{Kind: ...})   a mock full node with address 10.0.0.k:18555 (k = 1, 2, ...), initially DOWN
//	nd.SetUp(true|false)                      accept connections / crash (drops the connection, refuses dials)
//	nd.Drop()                                 close the live connection(s) only
//	nd.SetBehaviour(b)                        change the behaviour while running
//	nd.Hold(pred) / nd.Release()              park the answers to matching requests / answer them now (gates)
//	nd.Flush(), nd.MaxHold                    answer the parked requests pred no longer matches; bound on parking time
//	nd.Stats()                                counters: requests seen by command, connections, held requests
//	n.Extend(k)                               the honest chain grows by k blocks (followers announce the tip by inv)
//	n.Reorg(depth, newLen)                    the honest chain drops `depth` blocks and grows `newLen` (> depth) new ones
//	n.ExtendSilent(k); nd.Announce()          the same growth without announcements; one node announces its tip by inv now
//	nd.FailNext(stage...)                     per-attempt script: the next connection attempts of the client to this node fail
//	                                          at the given handshake stage (vnHsRefuse: dial refused, vnHsPreVersion: accepted,
//	                                          closed after the client's version without an answer, vnHsPreVerack: version sent,
//	                                          closed before verack, vnHsPostVerack: version + verack sent, closed as soon as the
//	                                          client's verack arrives); attempts after the script are served normally.
//	nd.ScriptLen(), nd.Attempts()             script entries not yet consumed / connection attempts seen so far
//	n.Tip(), n.Honest()                       current honest tip reference / chain view
//	n.Dial, n.Resolve                         for Config.Dialer / Config.NameResolver (vnStartClient wires them)
//	c, err := vnStartClient(n, dir, nodes)    NewChainService(temp data dir cloned from a template, n.Params,
//	                                          ConnectPeers = node addresses, Dialer/NameResolver = netsim) + Start
//	s := c.Sample()                           BestBlock, filter header at best, store tips, GetBlockHash(sparse),
//	                                          IsCurrent, IsBanned / connected per node - all projected to
//	                                          (owner branch, height) references of the universe
//	c.Stop()                                  ChainService.Stop (duration returned), closes the database
//	n.Close()                                 drops every connection
//
// Universe.  Every block ever mined in a network has the identity
// vnRef{O: branch that mined it, H: height}.  Branch 1 is the initial honest
// chain (it also owns genesis), every Reorg and every liar fork creates a new
// branch.  All blocks are REAL: a coinbase with a witness commitment plus one
// transaction with a P2WPKH-style witness input and two outputs; every block
// has its REAL BIP158 basic filter, so honest filter headers, filters and
// blocks can be served for every height.  The chain parameters are regtest
// with an own network magic, the easiest proof-of-work limit and no
// retargeting (one work class: more blocks = more work); timestamps are 1 s
// apart and end a little before "now".
//
// Behaviours (vnBehaviour.Kind), K is a block height:
//
//	honest    follows the honest chain, answers everything truthfully
//	lighter   serves its own valid fork of the honest chain (forks K blocks below the tip at creation, has
//	          Len blocks above the fork point, fewer than the honest chain) and never follows the honest chain
//	lighterq  like lighter, but silent on getcfcheckpt / getcfheaders / getcfilters
//	invalid   serves the honest chain up to the height it had at creation and then Len own blocks of which the
//	          first fails its proof of work; claims that height in its version message
//	cplie     honest headers and cfheaders, but its cfcheckpt answers are false from height K on
//	cfhlie    lies about the filter hash of height K in cfheaders (and consistently in cfcheckpt); the filter it
//	          serves for K: Style "omit" = hash-consistent filter that omits the output scripts, "mismatch" = the
//	          true filter (does not hash to the advertised value), "none" = not served
//	cpprev    false cfcheckpt from height K on AND an unrelated PrevFilterHeader in every cfheaders answer
//	garbage   after the handshake answers the first request with bytes that are no Bitcoin message
//	silent    completes the handshake, answers pings, ignores every request
//	mute      accepts the connection and never sends a byte
//	midmsg    answers getheaders with half a headers message and closes the connection
//	nocf      honest, but does not advertise the compact-filter service bit
//	nonet     honest, but does not advertise NODE_NETWORK (witness and compact-filter bits kept: the client accepts
//	          it as a query peer, blockmanager.go isSyncCandidate refuses it as a sync candidate); follows the honest
//	          chain, announces new tips by inv, serves everything truthfully
//
// Orthogonal to the kind: Dup = the node sends every cfcheckpt and cfheaders answer twice (a well-formed
// duplicate; the all-peers queries must not hand a peer's second answer to their callback).  NoNetwork = the
// version message does not advertise NODE_NETWORK (any kind; kind nonet implies it).
//
// getheaders is answered the way a full node does (btcd locateInventory / Bitcoin Core FindForkInGlobalIndex): the
// FIRST locator entry that is on the node's own chain is the start (stale or unknown entries are skipped), no such
// entry = start at genesis; at most 2000 headers after the start, ending with the stop hash if it comes earlier; an
// empty locator = only the stop hash's header.  Stats() counts "getheaders:skipped" (answers whose start was not the
// first locator entry) and "getheaders:nomatch" (answers from genesis because no entry was on the chain).

import (
	"bytes"
	"context"
	"encoding/binary"
	"errors"
	"fmt"
	"io"
	"math/big"
	"net"
	"os"
	"path/filepath"
	"sort"
	"strings"
	"sync"
	"sync/atomic"
	"time"

	"github.com/btcsuite/btcd/address/v2"
	"github.com/btcsuite/btcd/blockchain"
	"github.com/btcsuite/btcd/btcutil/v2"
	"github.com/btcsuite/btcd/btcutil/v2/gcs"
	"github.com/btcsuite/btcd/btcutil/v2/gcs/builder"
	"github.com/btcsuite/btcd/chaincfg/v2"
	"github.com/btcsuite/btcd/chainhash/v2"
	"github.com/btcsuite/btcd/wire/v2"
	"github.com/btcsuite/btclog"
	"github.com/btcsuite/btcwallet/walletdb"
	"github.com/lightninglabs/neutrino/pushtx"
)

const (
	vnUnknown = -2 // a hash the universe does not know
	vnErr     = -3 // the API call returned an error
	vnPort    = 18555
)

// ---------------------------------------------------------------------------
// Timeouts.

var vnTimeoutsOnce sync.Once

// vnShortenTimeouts shortens the exported timeouts of package neutrino. The
// unexported ones (retryTimeout 3 s, minQueryTimeout 2 s, btcd's 30/90 s stall
// and negotiation timeouts) are left alone and cost wall time.
func vnShortenTimeouts() {
	vnTimeoutsOnce.Do(func() {
		QueryTimeout = 2 * time.Second
		QueryBatchTimeout = 6 * time.Second
		QueryPeerCooldown = 200 * time.Millisecond
		QueryPeerConnectTimeout = 3 * time.Second
		ConnectionRetryInterval = 150 * time.Millisecond
		DisableDNSSeed = true
	})
}

// ---------------------------------------------------------------------------
// Universe: blocks, filters, chains.

type vnRef struct {
	O int `json:"o"`
	H int `json:"h"`
}

// vnChain is one immutable full view from genesis; index = height.
type vnChain struct {
	hdr   []*wire.BlockHeader
	hash  []chainhash.Hash
	fhash []chainhash.Hash // true filter hash
	fhdr  []chainhash.Hash // true filter header
	own   []int            // branch that mined the block
	blk   []*wire.MsgBlock
	flt   []*gcs.Filter
}

func (c *vnChain) tip() int { return len(c.hdr) - 1 }

func (c *vnChain) clone(upTo int) *vnChain {
	n := &vnChain{}
	n.hdr = append(n.hdr, c.hdr[:upTo+1]...)
	n.hash = append(n.hash, c.hash[:upTo+1]...)
	n.fhash = append(n.fhash, c.fhash[:upTo+1]...)
	n.fhdr = append(n.fhdr, c.fhdr[:upTo+1]...)
	n.own = append(n.own, c.own[:upTo+1]...)
	n.blk = append(n.blk, c.blk[:upTo+1]...)
	n.flt = append(n.flt, c.flt[:upTo+1]...)
	return n
}

func (c *vnChain) ref(h int) vnRef { return vnRef{O: c.own[h], H: h} }

var vnPowLimit = new(big.Int).Sub(new(big.Int).Lsh(big.NewInt(1), 255), big.NewInt(1))

const vnBits = uint32(0x207fffff)

func vnParams() *chaincfg.Params {
	p := chaincfg.RegressionNetParams
	p.Name = "verifnetsim"
	p.Net = wire.BitcoinNet(0x766e7331)
	p.DefaultPort = fmt.Sprint(vnPort)
	p.DNSSeeds = nil
	p.Checkpoints = nil
	p.PowLimit = vnPowLimit
	p.PowLimitBits = vnBits
	p.PoWNoRetargeting = true
	return &p
}

func vnU32(v int) []byte {
	var b [4]byte
	binary.BigEndian.PutUint32(b[:], uint32(v))
	return b[:]
}

func vnTag(tag string, parts ...[]byte) chainhash.Hash {
	var buf bytes.Buffer
	buf.WriteString(tag)
	for _, p := range parts {
		buf.Write(p)
	}
	return chainhash.DoubleHashH(buf.Bytes())
}

func vnP2WKH(h chainhash.Hash) []byte { return append([]byte{0x00, 0x14}, h[:20]...) }

func vnMine(h *wire.BlockHeader, wantValid bool) {
	target := blockchain.CompactToBig(h.Bits)
	for n := uint32(0); ; n++ {
		h.Nonce = n
		hash := h.BlockHash()
		ok := blockchain.HashToBig(&hash).Cmp(target) <= 0
		if ok == wantValid {
			return
		}
	}
}

// vnBlock builds a real block: coinbase with a witness commitment and one
// transaction that spends a synthetic P2WPKH output (witness = signature-sized
// blob + 33 byte key, so the spent script can be derived from the witness the
// way VerifyBasicBlockFilter does) and pays to two P2WPKH scripts.  Returned
// with the previous-output scripts the BIP158 filter has to contain.
func vnBlock(seed int64, branch, height int, prev chainhash.Hash, ts int64, validPoW bool) (*wire.MsgBlock, [][]byte) {
	id := append(append(vnU32(int(seed)), vnU32(branch)...), vnU32(height)...)
	cb := wire.NewMsgTx(2)
	cb.AddTxIn(&wire.TxIn{
		PreviousOutPoint: *wire.NewOutPoint(&chainhash.Hash{}, wire.MaxPrevOutIndex),
		SignatureScript:  append([]byte{0x04}, vnU32(height)...),
		Sequence:         wire.MaxTxInSequenceNum,
		Witness:          wire.TxWitness{make([]byte, blockchain.CoinbaseWitnessDataLen)},
	})
	cb.AddTxOut(wire.NewTxOut(50_0000_0000, vnP2WKH(vnTag("cb", id))))

	tx := wire.NewMsgTx(2)
	kh := vnTag("key", id)
	key := append([]byte{0x02}, kh[:]...)
	sig := bytes.Repeat([]byte{0x30}, 71)
	inHash := vnTag("in", id)
	tx.AddTxIn(&wire.TxIn{
		PreviousOutPoint: *wire.NewOutPoint(&inHash, 0),
		Sequence:         wire.MaxTxInSequenceNum,
		Witness:          wire.TxWitness{sig, key},
	})
	tx.AddTxOut(wire.NewTxOut(1000, vnP2WKH(vnTag("o0", id))))
	tx.AddTxOut(wire.NewTxOut(2000, vnP2WKH(vnTag("o1", id))))
	spent := append([]byte{0x00, 0x14}, address.Hash160(key)...)

	// witness commitment
	utx := []*btcutil.Tx{btcutil.NewTx(cb), btcutil.NewTx(tx)}
	wroot := blockchain.CalcMerkleRoot(utx, true)
	var pre [64]byte
	copy(pre[:32], wroot[:])
	commit := chainhash.DoubleHashB(pre[:])
	cb.AddTxOut(wire.NewTxOut(0, append(append([]byte{}, blockchain.WitnessMagicBytes...), commit...)))

	utx = []*btcutil.Tx{btcutil.NewTx(cb), btcutil.NewTx(tx)}
	blk := &wire.MsgBlock{
		Header: wire.BlockHeader{
			Version:    4,
			PrevBlock:  prev,
			MerkleRoot: blockchain.CalcMerkleRoot(utx, false),
			Timestamp:  time.Unix(ts, 0),
			Bits:       vnBits,
		},
		Transactions: []*wire.MsgTx{cb, tx},
	}
	vnMine(&blk.Header, validPoW)
	return blk, [][]byte{spent}
}

// vnMedianTimePast: median of the timestamps of block h and its (up to) 10
// ancestors, the way btcd's CalcPastMedianTime does it.
func vnMedianTimePast(c *vnChain, h int) int64 {
	var ts []int64
	for i := h; i >= 0 && len(ts) < 11; i-- {
		ts = append(ts, c.hdr[i].Timestamp.Unix())
	}
	sort.Slice(ts, func(a, b int) bool { return ts[a] < ts[b] })
	return ts[len(ts)/2]
}

func vnChainFH(fh, prev chainhash.Hash) chainhash.Hash {
	var buf [64]byte
	copy(buf[:32], fh[:])
	copy(buf[32:], prev[:])
	return chainhash.DoubleHashH(buf[:])
}

// ---------------------------------------------------------------------------
// Network.

type vnBranch struct {
	Par  int `json:"par"`  // branch it forked from (0 for branch 1)
	Fork int `json:"fork"` // height of the last shared block (-1 for branch 1)
	Tip  int `json:"tip"`  // highest own block
	Bad  int `json:"bad"`  // first own height whose block is invalid (0 = none)
}

type vnNet struct {
	Params *chaincfg.Params
	Seed   int64
	// TSJitter: non-monotonic (valid) block timestamps, see grow. On by default.
	TSJitter bool

	mu       sync.Mutex
	honest   *vnChain
	hb       int // honest branch
	branches []vnBranch
	blocks   map[chainhash.Hash]vnRef
	chainOf  map[chainhash.Hash]*vnChain // a view that contains the block
	fhdrs    map[chainhash.Hash]vnRef    // true filter header -> block
	nodes    []*vnNode
	baseTS   int64
	closed   bool
	stopDial chan struct{}
	dialWait time.Duration
}

// vnStartNetwork creates the parameters and an honest chain of initialLen
// blocks above genesis.
func vnStartNetwork(seed int64, initialLen int) (*vnNet, error) {
	n := &vnNet{Params: vnParams(), Seed: seed, blocks: map[chainhash.Hash]vnRef{},
		chainOf: map[chainhash.Hash]*vnChain{}, fhdrs: map[chainhash.Hash]vnRef{},
		stopDial: make(chan struct{}), dialWait: 20 * time.Second, TSJitter: true}
	n.baseTS = time.Now().Unix() - 6000
	gen := n.Params.GenesisBlock
	gf, err := builder.BuildBasicFilter(gen, nil)
	if err != nil {
		return nil, err
	}
	gfh, err := builder.GetFilterHash(gf)
	if err != nil {
		return nil, err
	}
	ghdr, err := builder.MakeHeaderForFilter(gf, gen.Header.PrevBlock)
	if err != nil {
		return nil, err
	}
	c := &vnChain{}
	c.hdr = []*wire.BlockHeader{&gen.Header}
	c.hash = []chainhash.Hash{gen.Header.BlockHash()}
	c.fhash = []chainhash.Hash{gfh}
	c.fhdr = []chainhash.Hash{ghdr}
	c.own = []int{1}
	c.blk = []*wire.MsgBlock{gen}
	c.flt = []*gcs.Filter{gf}
	n.branches = []vnBranch{{Par: 0, Fork: -1, Tip: 0}}
	n.hb = 1
	n.register(c, 0)
	if err := n.grow(c, 1, initialLen, 0, false); err != nil {
		return nil, err
	}
	n.branches[0].Tip = c.tip()
	n.honest = c
	return n, nil
}

// register records block h of view c (caller holds mu or is single threaded).
func (n *vnNet) register(c *vnChain, h int) {
	n.blocks[c.hash[h]] = c.ref(h)
	n.chainOf[c.hash[h]] = c
	if _, ok := n.fhdrs[c.fhdr[h]]; !ok {
		n.fhdrs[c.fhdr[h]] = c.ref(h)
	}
}

// grow appends k blocks mined by branch to c (mutates c: only for views not
// yet published). badAt > 0: the block at that height fails its PoW.
func (n *vnNet) grow(c *vnChain, branch, k, badAt int, backdateLast bool) error {
	for i := 0; i < k; i++ {
		h := c.tip() + 1
		ts := c.hdr[h-1].Timestamp.Unix() + 1
		if h == 1 {
			ts = n.baseTS
		} else if n.TSJitter {
			// Timestamps of an honest chain are not monotonic: only the
			// median of the previous 11 binds. -3..+5 s around the
			// parent (mean +1); the last block of a branch of >= 4
			// blocks (a reorganisation) is dated before its parent.
			x := vnTag("ts", vnU32(int(n.Seed)), vnU32(branch), vnU32(h))
			ts = c.hdr[h-1].Timestamp.Unix() + int64(x[0]%9) - 3
			if backdateLast && k >= 4 && i == k-1 {
				ts = c.hdr[h-1].Timestamp.Unix() - 2
			}
			if mtp := vnMedianTimePast(c, h-1); ts <= mtp {
				ts = mtp + 1
			}
		}
		blk, prevs := vnBlock(n.Seed, branch, h, c.hash[h-1], ts, h != badAt)
		f, err := builder.BuildBasicFilter(blk, prevs)
		if err != nil {
			return err
		}
		fh, err := builder.GetFilterHash(f)
		if err != nil {
			return err
		}
		c.hdr = append(c.hdr, &blk.Header)
		c.hash = append(c.hash, blk.Header.BlockHash())
		c.fhash = append(c.fhash, fh)
		c.fhdr = append(c.fhdr, vnChainFH(fh, c.fhdr[h-1]))
		c.own = append(c.own, branch)
		c.blk = append(c.blk, blk)
		c.flt = append(c.flt, f)
		n.register(c, h)
	}
	return nil
}

func (n *vnNet) Honest() *vnChain {
	n.mu.Lock()
	defer n.mu.Unlock()
	return n.honest
}

func (n *vnNet) Tip() vnRef {
	c := n.Honest()
	return c.ref(c.tip())
}

func (n *vnNet) Branches() []vnBranch {
	n.mu.Lock()
	defer n.mu.Unlock()
	return append([]vnBranch(nil), n.branches...)
}

// Extend grows the honest chain by k blocks; nodes that follow it announce
// the new tip with an inv.
func (n *vnNet) Extend(k int) vnRef {
	n.mu.Lock()
	c := n.honest.clone(n.honest.tip())
	if err := n.grow(c, n.hb, k, 0, false); err != nil {
		n.mu.Unlock()
		panic(err)
	}
	n.branches[n.hb-1].Tip = c.tip()
	n.honest = c
	nodes := append([]*vnNode(nil), n.nodes...)
	n.mu.Unlock()
	for _, nd := range nodes {
		nd.announce()
	}
	return c.ref(c.tip())
}

// ExtendSilent grows the honest chain by k blocks without any announcement (the caller lets the nodes announce
// one by one with Announce).
func (n *vnNet) ExtendSilent(k int) vnRef {
	n.mu.Lock()
	defer n.mu.Unlock()
	c := n.honest.clone(n.honest.tip())
	if err := n.grow(c, n.hb, k, 0, false); err != nil {
		panic(err)
	}
	n.branches[n.hb-1].Tip = c.tip()
	n.honest = c
	return c.ref(c.tip())
}

// Announce makes the node send an inv for the tip of its view on its live connections (kinds that announce only).
func (nd *vnNode) Announce() { nd.announce() }

// Reorg replaces the last depth blocks of the honest chain by newLen new
// ones (newLen > depth: strictly more work). Returns the new branch.
func (n *vnNet) Reorg(depth, newLen int) (int, vnRef) {
	n.mu.Lock()
	if depth > n.honest.tip() {
		depth = n.honest.tip()
	}
	if newLen <= depth {
		newLen = depth + 1
	}
	fork := n.honest.tip() - depth
	c := n.honest.clone(fork)
	n.branches = append(n.branches, vnBranch{Par: n.hb, Fork: fork, Tip: fork})
	b := len(n.branches)
	if err := n.grow(c, b, newLen, 0, true); err != nil {
		n.mu.Unlock()
		panic(err)
	}
	n.branches[b-1].Tip = c.tip()
	n.hb = b
	n.honest = c
	nodes := append([]*vnNode(nil), n.nodes...)
	n.mu.Unlock()
	for _, nd := range nodes {
		nd.announce()
	}
	return b, c.ref(c.tip())
}

// forkView creates a static side branch for a liar: forks `below` blocks
// under the honest tip, has length own blocks; badFirst: its first block fails PoW.
func (n *vnNet) forkView(below, length int, badFirst bool) (*vnChain, int) {
	n.mu.Lock()
	defer n.mu.Unlock()
	if below > n.honest.tip() {
		below = n.honest.tip()
	}
	fork := n.honest.tip() - below
	c := n.honest.clone(fork)
	bad := 0
	if badFirst {
		bad = fork + 1
	}
	n.branches = append(n.branches, vnBranch{Par: n.hb, Fork: fork, Tip: fork, Bad: bad})
	b := len(n.branches)
	if err := n.grow(c, b, length, bad, false); err != nil {
		panic(err)
	}
	n.branches[b-1].Tip = c.tip()
	return c, b
}

func (n *vnNet) lookup(h chainhash.Hash) (vnRef, *vnChain, bool) {
	n.mu.Lock()
	defer n.mu.Unlock()
	r, ok := n.blocks[h]
	return r, n.chainOf[h], ok
}

func (n *vnNet) refOfHash(h *chainhash.Hash) vnRef {
	n.mu.Lock()
	defer n.mu.Unlock()
	if r, ok := n.blocks[*h]; ok {
		return r
	}
	return vnRef{O: vnUnknown, H: vnUnknown}
}

func (n *vnNet) refOfFilterHeader(h *chainhash.Hash) vnRef {
	n.mu.Lock()
	defer n.mu.Unlock()
	if r, ok := n.fhdrs[*h]; ok {
		return r
	}
	return vnRef{O: vnUnknown, H: vnUnknown}
}

func (n *vnNet) Close() {
	n.mu.Lock()
	if n.closed {
		n.mu.Unlock()
		return
	}
	n.closed = true
	close(n.stopDial)
	nodes := append([]*vnNode(nil), n.nodes...)
	n.mu.Unlock()
	for _, nd := range nodes {
		nd.SetUp(false)
	}
}

// Resolve is Config.NameResolver.
func (n *vnNet) Resolve(host string) ([]net.IP, error) {
	ip := net.ParseIP(host)
	if ip == nil {
		return nil, fmt.Errorf("netsim: unknown host %q", host)
	}
	return []net.IP{ip}, nil
}

// Dial is Config.Dialer: an address of a node that is up yields a buffered
// in-memory connection served by that node; a node that was never up yet
// behaves like a black hole (the dial blocks until it comes up, the network
// is closed or dialWait passes); a node that went down refuses.
func (n *vnNet) Dial(addr net.Addr) (net.Conn, error) {
	ta, ok := addr.(*net.TCPAddr)
	if !ok {
		return nil, fmt.Errorf("netsim: cannot dial %v", addr)
	}
	n.mu.Lock()
	var nd *vnNode
	for _, x := range n.nodes {
		if x.Addr.IP.Equal(ta.IP) && x.Addr.Port == ta.Port {
			nd = x
		}
	}
	n.mu.Unlock()
	if nd == nil {
		return nil, fmt.Errorf("netsim: no route to %v", addr)
	}
	deadline := time.After(n.dialWait)
	for {
		nd.mu.Lock()
		up, ever, ch := nd.up, nd.everUp, nd.upCh
		nd.mu.Unlock()
		if up {
			break
		}
		if ever {
			return nil, fmt.Errorf("netsim: connection refused by %v", addr)
		}
		select {
		case <-ch:
		case <-n.stopDial:
			return nil, errors.New("netsim: network closed")
		case <-deadline:
			return nil, fmt.Errorf("netsim: dial %v timed out", addr)
		}
	}
	st := nd.nextStage()
	if st == vnHsRefuse {
		return nil, fmt.Errorf("netsim: connection refused by %v (scripted)", addr)
	}
	local := &net.TCPAddr{IP: net.IPv4(10, 9, 9, 9), Port: 40000 + int(atomic.AddInt32(&vnPortSeq, 1))%20000}
	a, b := vnPipe(local, nd.Addr)
	nd.acceptStage(b, st)
	return a, nil
}

var vnPortSeq int32

// ---------------------------------------------------------------------------
// Buffered in-memory connection.

type vnHalf struct {
	mu     sync.Mutex
	cond   *sync.Cond
	buf    []byte
	wclose bool // writer closed: reader gets EOF after draining
	rclose bool // reader closed: writes fail
}

func newVnHalf() *vnHalf {
	h := &vnHalf{}
	h.cond = sync.NewCond(&h.mu)
	return h
}

type vnConn struct {
	r, w   *vnHalf
	la, ra net.Addr
}

func vnPipe(a, b net.Addr) (*vnConn, *vnConn) {
	x, y := newVnHalf(), newVnHalf()
	return &vnConn{r: x, w: y, la: a, ra: b}, &vnConn{r: y, w: x, la: b, ra: a}
}

func (c *vnConn) Read(p []byte) (int, error) {
	h := c.r
	h.mu.Lock()
	defer h.mu.Unlock()
	for len(h.buf) == 0 {
		if h.rclose {
			return 0, io.ErrClosedPipe
		}
		if h.wclose {
			return 0, io.EOF
		}
		h.cond.Wait()
	}
	k := copy(p, h.buf)
	h.buf = h.buf[k:]
	return k, nil
}

func (c *vnConn) Write(p []byte) (int, error) {
	h := c.w
	h.mu.Lock()
	defer h.mu.Unlock()
	if h.wclose || h.rclose {
		return 0, io.ErrClosedPipe
	}
	h.buf = append(h.buf, p...)
	h.cond.Broadcast()
	return len(p), nil
}

func (c *vnConn) Close() error {
	c.r.mu.Lock()
	c.r.rclose = true
	c.r.buf = nil
	c.r.cond.Broadcast()
	c.r.mu.Unlock()
	c.w.mu.Lock()
	c.w.wclose = true
	c.w.cond.Broadcast()
	c.w.mu.Unlock()
	return nil
}

func (c *vnConn) LocalAddr() net.Addr                { return c.la }
func (c *vnConn) RemoteAddr() net.Addr               { return c.ra }
func (c *vnConn) SetDeadline(t time.Time) error      { return nil }
func (c *vnConn) SetReadDeadline(t time.Time) error  { return nil }
func (c *vnConn) SetWriteDeadline(t time.Time) error { return nil }

// ---------------------------------------------------------------------------
// Mock full node.

type vnBehaviour struct {
	Kind  string `json:"kind"`
	K     int    `json:"k"`     // height of the lie / depth of the fork below the tip (lighter)
	Len   int    `json:"len"`   // own blocks of a lighter / invalid branch
	Style string `json:"style"` // cfhlie: omit | mismatch | none
	Claim int    `json:"claim"` // added to the height announced in the version message
	Dup   bool   `json:"dup"`   // every cfcheckpt / cfheaders answer is sent twice (any kind that answers)
	// NoNetwork: the version message does not advertise NODE_NETWORK (kind "nonet" implies it)
	NoNetwork bool `json:"nonetwork,omitempty"`
}

type vnHeld struct {
	c   *vnNodeConn
	msg wire.Message
	at  time.Time
}

type vnNode struct {
	net  *vnNet
	Idx  int // 1-based
	Addr *net.TCPAddr

	mu     sync.Mutex
	beh    vnBehaviour
	view   *vnChain // nil = follow the honest chain
	branch int      // own branch (lighter/invalid), 0 otherwise
	up     bool
	everUp bool
	upCh   chan struct{}
	conns  map[*vnNodeConn]struct{}
	hold   func(wire.Message) bool
	held   []vnHeld
	// MaxHold bounds how long an answer stays parked (0 = until Release /
	// Flush): a gate may delay an honest node, it must never make it look
	// unresponsive (QueryTimeout).
	MaxHold time.Duration
	stats   map[string]int
	nconn   int
	// script: handshake stage at which the next connection attempts fail (consumed one per attempt)
	script   []int
	nattempt int
}

// Handshake stages at which a scripted connection attempt fails (FailNext).
const (
	vnHsRefuse      = 1 // the dial is refused
	vnHsPreVersion  = 2 // accepted; closed after the client's version message, nothing sent
	vnHsPreVerack   = 3 // version sent, closed before the verack
	vnHsPostVerack  = 4 // version and verack sent, closed as soon as the client's verack arrives
	vnHsStageMin    = vnHsRefuse
	vnHsStageMax    = vnHsPostVerack
	vnHsStageNormal = 0
)

// FailNext appends to the node's per-attempt script: the next connection attempts fail at the given stages, in
// order; later attempts are served normally.
func (nd *vnNode) FailNext(stages ...int) {
	nd.mu.Lock()
	nd.script = append(nd.script, stages...)
	nd.mu.Unlock()
}

// ScriptLen returns the number of scripted failures not yet consumed by a connection attempt.
func (nd *vnNode) ScriptLen() int {
	nd.mu.Lock()
	defer nd.mu.Unlock()
	return len(nd.script)
}

// Attempts returns the number of connection attempts (dials that reached the node while it was up) so far.
func (nd *vnNode) Attempts() int {
	nd.mu.Lock()
	defer nd.mu.Unlock()
	return nd.nattempt
}

// nextStage consumes one script entry for a connection attempt (0 = serve normally).
func (nd *vnNode) nextStage() int {
	nd.mu.Lock()
	defer nd.mu.Unlock()
	nd.nattempt++
	if len(nd.script) == 0 {
		return vnHsStageNormal
	}
	st := nd.script[0]
	nd.script = nd.script[1:]
	nd.stats[fmt.Sprintf("hsfail:%d", st)]++
	return st
}

type vnNodeConn struct {
	nd      *vnNode
	c       *vnConn
	wmu     sync.Mutex
	ready   int32 // handshake complete
	garbled bool
	lastAnn chainhash.Hash
	failAt  int // scripted handshake failure of this connection (0 = none)
}

// AddNode adds a node (down until SetUp(true)). For the kinds lighter and
// invalid the side branch is mined now, relative to the current honest chain.
func (n *vnNet) AddNode(b vnBehaviour) *vnNode {
	n.mu.Lock()
	idx := len(n.nodes) + 1
	nd := &vnNode{net: n, Idx: idx, Addr: &net.TCPAddr{IP: net.IPv4(10, 0, 0, byte(idx)), Port: vnPort},
		upCh: make(chan struct{}), conns: map[*vnNodeConn]struct{}{}, stats: map[string]int{}}
	n.nodes = append(n.nodes, nd)
	n.mu.Unlock()
	nd.SetBehaviour(b)
	return nd
}

func (nd *vnNode) AddrString() string { return nd.Addr.String() }

func (nd *vnNode) SetBehaviour(b vnBehaviour) {
	var view *vnChain
	branch := 0
	switch b.Kind {
	case "lighter", "lighterq":
		l := b.Len
		if l < 0 {
			l = 0
		}
		view, branch = nd.net.forkView(b.K, l, false)
	case "invalid":
		l := b.Len
		if l < 1 {
			l = 1
		}
		view, branch = nd.net.forkView(0, l, true)
	}
	nd.mu.Lock()
	nd.beh = b
	nd.view = view
	nd.branch = branch
	nd.mu.Unlock()
}

func (nd *vnNode) Behaviour() vnBehaviour {
	nd.mu.Lock()
	defer nd.mu.Unlock()
	return nd.beh
}

// Branch returns the side branch of a lighter / invalid node (0 otherwise).
func (nd *vnNode) Branch() int {
	nd.mu.Lock()
	defer nd.mu.Unlock()
	return nd.branch
}

func (nd *vnNode) chain() *vnChain {
	nd.mu.Lock()
	v := nd.view
	nd.mu.Unlock()
	if v != nil {
		return v
	}
	return nd.net.Honest()
}

func (nd *vnNode) SetUp(up bool) {
	nd.mu.Lock()
	was := nd.up
	nd.up = up
	var drop []*vnNodeConn
	if up {
		if !nd.everUp {
			nd.everUp = true
		}
		if !was {
			close(nd.upCh)
			nd.upCh = make(chan struct{})
		}
	} else {
		for c := range nd.conns {
			drop = append(drop, c)
		}
	}
	nd.mu.Unlock()
	for _, c := range drop {
		c.c.Close()
	}
}

func (nd *vnNode) IsUp() bool {
	nd.mu.Lock()
	defer nd.mu.Unlock()
	return nd.up
}

// Drop closes the live connections; the node keeps accepting new ones.
func (nd *vnNode) Drop() int {
	nd.mu.Lock()
	var drop []*vnNodeConn
	for c := range nd.conns {
		drop = append(drop, c)
	}
	nd.mu.Unlock()
	for _, c := range drop {
		c.c.Close()
	}
	return len(drop)
}

// Connected reports whether a connection with a completed handshake exists.
func (nd *vnNode) Connected() bool {
	nd.mu.Lock()
	defer nd.mu.Unlock()
	for c := range nd.conns {
		if atomic.LoadInt32(&c.ready) != 0 {
			return true
		}
	}
	return false
}

// Hold parks the answers to requests for which pred is true until Release.
func (nd *vnNode) Hold(pred func(wire.Message) bool) {
	nd.mu.Lock()
	nd.hold = pred
	nd.mu.Unlock()
}

// Release answers the parked requests (in arrival order) and stops holding.
func (nd *vnNode) Release() int {
	nd.mu.Lock()
	held := nd.held
	nd.held = nil
	nd.hold = nil
	nd.mu.Unlock()
	for _, h := range held {
		h.c.handle(h.msg, true)
	}
	return len(held)
}

// Flush answers the parked requests that no longer match the predicate (or
// are older than MaxHold) and keeps the others parked.
func (nd *vnNode) Flush() int {
	nd.mu.Lock()
	var out, keep []vnHeld
	for _, h := range nd.held {
		if nd.hold == nil || !nd.hold(h.msg) || (nd.MaxHold > 0 && time.Since(h.at) >= nd.MaxHold) {
			out = append(out, h)
		} else {
			keep = append(keep, h)
		}
	}
	nd.held = keep
	nd.mu.Unlock()
	for _, h := range out {
		h.c.handle(h.msg, true)
	}
	return len(out)
}

// HeldCommands lists the wire commands of the parked requests.
func (nd *vnNode) HeldCommands() []string {
	nd.mu.Lock()
	defer nd.mu.Unlock()
	var out []string
	for _, h := range nd.held {
		out = append(out, h.msg.Command())
	}
	return out
}

func (nd *vnNode) HeldCount() int {
	nd.mu.Lock()
	defer nd.mu.Unlock()
	return len(nd.held)
}

func (nd *vnNode) Stats() map[string]int {
	nd.mu.Lock()
	defer nd.mu.Unlock()
	out := map[string]int{"conns": nd.nconn, "held": len(nd.held)}
	for k, v := range nd.stats {
		out[k] = v
	}
	return out
}

func (nd *vnNode) count(k string) {
	nd.mu.Lock()
	nd.stats[k]++
	nd.mu.Unlock()
}

func (nd *vnNode) accept(c *vnConn) { nd.acceptStage(c, vnHsStageNormal) }

func (nd *vnNode) acceptStage(c *vnConn, failAt int) {
	nc := &vnNodeConn{nd: nd, c: c, failAt: failAt}
	nd.mu.Lock()
	nd.conns[nc] = struct{}{}
	nd.nconn++
	nd.mu.Unlock()
	go nc.serve()
}

// announce sends an inv for the tip of the node's view if it changed.
func (nd *vnNode) announce() {
	b := nd.Behaviour()
	switch b.Kind {
	case "honest", "cplie", "cfhlie", "cpprev", "nocf", "nonet":
	default:
		return
	}
	c := nd.chain()
	tip := c.hash[c.tip()]
	nd.mu.Lock()
	var cs []*vnNodeConn
	for x := range nd.conns {
		cs = append(cs, x)
	}
	nd.mu.Unlock()
	for _, x := range cs {
		if atomic.LoadInt32(&x.ready) == 0 {
			continue
		}
		inv := wire.NewMsgInv()
		_ = inv.AddInvVect(wire.NewInvVect(wire.InvTypeBlock, &tip))
		x.send(inv)
	}
}

func (nc *vnNodeConn) send(m wire.Message) error {
	nc.wmu.Lock()
	defer nc.wmu.Unlock()
	_, err := wire.WriteMessageWithEncodingN(nc.c, m, wire.ProtocolVersion, nc.nd.net.Params.Net,
		wire.LatestEncoding)
	return err
}

func (nc *vnNodeConn) sendRaw(b []byte) {
	nc.wmu.Lock()
	defer nc.wmu.Unlock()
	_, _ = nc.c.Write(b)
}

func (nc *vnNodeConn) close() {
	nc.c.Close()
}

func (nc *vnNodeConn) serve() {
	nd := nc.nd
	defer func() {
		nc.c.Close()
		nd.mu.Lock()
		delete(nd.conns, nc)
		nd.mu.Unlock()
	}()
	b := nd.Behaviour()
	if b.Kind == "mute" {
		// read and discard until the other side gives up
		_, _ = io.Copy(io.Discard, nc.c)
		return
	}
	for {
		_, msg, _, err := wire.ReadMessageWithEncodingN(nc.c, wire.ProtocolVersion, nd.net.Params.Net,
			wire.LatestEncoding)
		if err != nil {
			if err == io.EOF || err == io.ErrClosedPipe || errors.Is(err, io.ErrUnexpectedEOF) {
				return
			}
			// unknown / malformed message: ignore it like a node would
			if _, ok := err.(*wire.MessageError); ok {
				continue
			}
			return
		}
		nd.count(msg.Command())
		nc.handle(msg, false)
	}
}

func (nc *vnNodeConn) handle(msg wire.Message, released bool) {
	nd := nc.nd
	b := nd.Behaviour()
	switch m := msg.(type) {
	case *wire.MsgVersion:
		if nc.failAt == vnHsPreVersion {
			nc.close()
			return
		}
		c := nd.chain()
		svc := wire.SFNodeNetwork | wire.SFNodeWitness | wire.SFNodeCF
		if b.Kind == "nocf" {
			svc = wire.SFNodeNetwork | wire.SFNodeWitness
		}
		if b.Kind == "nonet" || b.NoNetwork {
			svc &^= wire.SFNodeNetwork
		}
		me := wire.NewNetAddressIPPort(nd.Addr.IP, uint16(nd.Addr.Port), svc)
		you := wire.NewNetAddressIPPort(net.IPv4(10, 9, 9, 9), 0, 0)
		nonce := uint64(time.Now().UnixNano())<<8 | uint64(nd.Idx)
		v := wire.NewMsgVersion(me, you, nonce, int32(c.tip()+b.Claim))
		v.Services = svc
		v.UserAgent = "/netsim:" + b.Kind + "/"
		_ = nc.send(v)
		if nc.failAt == vnHsPreVerack {
			nc.close()
			return
		}
		_ = nc.send(wire.NewMsgVerAck())
		return
	case *wire.MsgVerAck:
		if nc.failAt == vnHsPostVerack {
			nc.close()
			return
		}
		atomic.StoreInt32(&nc.ready, 1)
		return
	case *wire.MsgPing:
		_ = nc.send(wire.NewMsgPong(m.Nonce))
		return
	case *wire.MsgSendAddrV2, *wire.MsgSendHeaders, *wire.MsgFeeFilter, *wire.MsgGetAddr, *wire.MsgPong,
		*wire.MsgAddr, *wire.MsgAddrV2, *wire.MsgReject:
		return
	}
	// requests
	if b.Kind == "silent" {
		return
	}
	if b.Kind == "lighterq" {
		switch msg.(type) {
		case *wire.MsgGetCFCheckpt, *wire.MsgGetCFHeaders, *wire.MsgGetCFilters:
			return
		}
	}
	if b.Kind == "garbage" {
		junk := make([]byte, 300)
		for i := range junk {
			junk[i] = byte(i*7 + 3)
		}
		nc.sendRaw(junk)
		return
	}
	if !released {
		nd.mu.Lock()
		if nd.hold != nil && nd.hold(msg) {
			nd.held = append(nd.held, vnHeld{c: nc, msg: msg, at: time.Now()})
			mh := nd.MaxHold
			nd.mu.Unlock()
			if mh > 0 {
				time.AfterFunc(mh+5*time.Millisecond, func() { nd.Flush() })
			}
			return
		}
		nd.mu.Unlock()
	}
	switch m := msg.(type) {
	case *wire.MsgGetHeaders:
		nc.onGetHeaders(m, b)
	case *wire.MsgGetCFCheckpt:
		nc.onGetCFCheckpt(m, b)
	case *wire.MsgGetCFHeaders:
		nc.onGetCFHeaders(m, b)
	case *wire.MsgGetCFilters:
		nc.onGetCFilters(m, b)
	case *wire.MsgGetData:
		nc.onGetData(m, b)
	case *wire.MsgInv:
		// a transaction announcement of the client: ask for it
		gd := wire.NewMsgGetData()
		for _, iv := range m.InvList {
			if iv.Type == wire.InvTypeTx || iv.Type == wire.InvTypeWitnessTx {
				_ = gd.AddInvVect(iv)
			}
		}
		if len(gd.InvList) > 0 {
			_ = nc.send(gd)
		}
	case *wire.MsgTx:
		// accepted silently
	}
}

// view returns the chain that contains the hash from this node's point of
// view: its own view if the block is on it, for honest-chain followers also
// any stale honest branch (a full node keeps stale blocks).
func (nc *vnNodeConn) viewOf(h chainhash.Hash) (*vnChain, int, bool) {
	c := nc.nd.chain()
	r, cv, ok := nc.nd.net.lookup(h)
	if !ok {
		return nil, 0, false
	}
	if r.H <= c.tip() && c.hash[r.H] == h {
		return c, r.H, true
	}
	nc.nd.mu.Lock()
	own := nc.nd.view != nil
	nc.nd.mu.Unlock()
	if own {
		return nil, 0, false
	}
	// stale block of the honest history: known unless it belongs to a liar's side branch
	br := nc.nd.net.Branches()
	if br[r.O-1].Bad != 0 {
		return nil, 0, false
	}
	for _, x := range nc.nd.net.nodesSnapshot() {
		if x.Branch() == r.O {
			return nil, 0, false
		}
	}
	return cv, r.H, true
}

func (n *vnNet) nodesSnapshot() []*vnNode {
	n.mu.Lock()
	defer n.mu.Unlock()
	return append([]*vnNode(nil), n.nodes...)
}

func (nc *vnNodeConn) onGetHeaders(m *wire.MsgGetHeaders, b vnBehaviour) {
	c := nc.nd.chain()
	start := -1
	for i, lh := range m.BlockLocatorHashes {
		r, _, ok := nc.nd.net.lookup(*lh)
		if ok && r.H <= c.tip() && c.hash[r.H] == *lh {
			start = r.H
			if i > 0 {
				nc.nd.count("getheaders:skipped")
			}
			break
		}
	}
	if start < 0 && len(m.BlockLocatorHashes) > 0 {
		nc.nd.count("getheaders:nomatch")
	}
	out := wire.NewMsgHeaders()
	if len(m.BlockLocatorHashes) == 0 {
		// only the stop hash
		if r, _, ok := nc.nd.net.lookup(m.HashStop); ok && r.H <= c.tip() && c.hash[r.H] == m.HashStop {
			_ = out.AddBlockHeader(c.hdr[r.H])
		}
	} else {
		if start < 0 {
			start = 0
		}
		for h := start + 1; h <= c.tip() && len(out.Headers) < wire.MaxBlockHeadersPerMsg; h++ {
			_ = out.AddBlockHeader(c.hdr[h])
			if c.hash[h] == m.HashStop {
				break
			}
		}
	}
	if b.Kind == "midmsg" && len(out.Headers) > 0 {
		var buf bytes.Buffer
		_, _ = wire.WriteMessageWithEncodingN(&buf, out, wire.ProtocolVersion, nc.nd.net.Params.Net,
			wire.LatestEncoding)
		nc.sendRaw(buf.Bytes()[:buf.Len()/2])
		nc.close()
		return
	}
	_ = nc.send(out)
}

// lineage returns the filter header this node claims for height h of view c.
func vnLineage(c *vnChain, b vnBehaviour, h int, lieHash func(int) chainhash.Hash) chainhash.Hash {
	if h < 0 {
		return chainhash.Hash{}
	}
	k := b.K
	if k <= 0 || h < k || k > c.tip() {
		return c.fhdr[h]
	}
	prev := chainhash.Hash{}
	if k > 0 {
		prev = c.fhdr[k-1]
	}
	cur := vnChainFH(lieHash(k), prev)
	for x := k + 1; x <= h; x++ {
		cur = vnChainFH(c.fhash[x], cur)
	}
	return cur
}

// lieFilter is the filter a cfhlie node serves for its lie height: built
// like the true one but without the output scripts of the block's payment.
func vnLieFilter(c *vnChain, h int) *gcs.Filter {
	blk := c.blk[h]
	bh := blk.Header.BlockHash()
	bld := builder.WithKeyHash(&bh)
	bld.AddEntry(blk.Transactions[0].TxOut[0].PkScript)
	f, err := bld.Build()
	if err != nil {
		panic(err)
	}
	return f
}

func (nc *vnNodeConn) lieHash(c *vnChain, b vnBehaviour) func(int) chainhash.Hash {
	return func(h int) chainhash.Hash {
		if b.Kind == "cfhlie" && (b.Style == "omit" || b.Style == "") {
			fh, err := builder.GetFilterHash(vnLieFilter(c, h))
			if err != nil {
				panic(err)
			}
			return fh
		}
		return vnTag("fakefh", c.hash[h][:], vnU32(nc.nd.Idx))
	}
}

func (nc *vnNodeConn) onGetCFCheckpt(m *wire.MsgGetCFCheckpt, b vnBehaviour) {
	c, stop, ok := nc.viewOf(m.StopHash)
	if !ok {
		return
	}
	lies := b.Kind == "cplie" || b.Kind == "cfhlie" || b.Kind == "cpprev"
	out := wire.NewMsgCFCheckpt(m.FilterType, &m.StopHash, stop/wire.CFCheckptInterval)
	for h := wire.CFCheckptInterval; h <= stop; h += wire.CFCheckptInterval {
		v := c.fhdr[h]
		if lies {
			v = vnLineage(c, b, h, nc.lieHash(c, b))
		}
		_ = out.AddCFHeader(&v)
	}
	_ = nc.send(out)
	if b.Dup {
		_ = nc.send(out)
	}
}

func (nc *vnNodeConn) onGetCFHeaders(m *wire.MsgGetCFHeaders, b vnBehaviour) {
	c, stop, ok := nc.viewOf(m.StopHash)
	if !ok || int(m.StartHeight) > stop {
		return
	}
	start := int(m.StartHeight)
	if stop-start+1 > wire.MaxCFHeadersPerMsg {
		return
	}
	out := wire.NewMsgCFHeaders()
	out.FilterType = m.FilterType
	out.StopHash = m.StopHash
	lh := nc.lieHash(c, b)
	switch b.Kind {
	case "cfhlie":
		out.PrevFilterHeader = vnLineage(c, b, start-1, lh)
	case "cpprev":
		out.PrevFilterHeader = vnTag("fakeprev", m.StopHash[:], vnU32(nc.nd.Idx))
	default:
		if start > 0 {
			out.PrevFilterHeader = c.fhdr[start-1]
		}
	}
	for h := start; h <= stop; h++ {
		v := c.fhash[h]
		if b.Kind == "cfhlie" && h == b.K {
			v = lh(h)
		}
		_ = out.AddCFHash(&v)
	}
	_ = nc.send(out)
	if b.Dup {
		_ = nc.send(out)
	}
}

func (nc *vnNodeConn) onGetCFilters(m *wire.MsgGetCFilters, b vnBehaviour) {
	c, stop, ok := nc.viewOf(m.StopHash)
	if !ok || int(m.StartHeight) > stop || stop-int(m.StartHeight) >= wire.MaxGetCFiltersReqRange {
		return
	}
	for h := int(m.StartHeight); h <= stop; h++ {
		f := c.flt[h]
		if b.Kind == "cfhlie" && h == b.K {
			switch b.Style {
			case "none":
				continue
			case "mismatch":
			default:
				f = vnLieFilter(c, h)
			}
		}
		data, err := f.NBytes()
		if err != nil {
			panic(err)
		}
		_ = nc.send(wire.NewMsgCFilter(m.FilterType, &c.hash[h], data))
	}
}

func (nc *vnNodeConn) onGetData(m *wire.MsgGetData, b vnBehaviour) {
	nf := wire.NewMsgNotFound()
	for _, iv := range m.InvList {
		switch iv.Type {
		case wire.InvTypeBlock, wire.InvTypeWitnessBlock:
			c, h, ok := nc.viewOf(iv.Hash)
			if !ok {
				_ = nf.AddInvVect(iv)
				continue
			}
			_ = nc.send(c.blk[h])
		default:
			_ = nf.AddInvVect(iv)
		}
	}
	if len(nf.InvList) > 0 {
		_ = nc.send(nf)
	}
}

// ---------------------------------------------------------------------------
// The real client.

type vnClient struct {
	Net   *vnNet
	Svc   *ChainService
	Dir   string
	DB    walletdb.DB
	Nodes []*vnNode
	Start time.Time
	stop  sync.Once
}

// vnStartClient starts a real ChainService on dir (created; a fresh data
// directory) connected to the given nodes only.
func vnStartClient(n *vnNet, dir string, nodes []*vnNode) (*vnClient, error) {
	vnShortenTimeouts()
	if lv := os.Getenv("VN_LOG"); lv != "" {
		// debugging aid: the client's own log on stdout (VN_LOG=debug|info|trace)
		out := os.Stdout
		if fn := os.Getenv("VN_LOG_FILE"); fn != "" {
			if f, err := os.Create(fn + "." + fmt.Sprint(os.Getpid())); err == nil {
				out = f
			}
		}
		lg := btclog.NewBackend(out).Logger("NTRN")
		l, _ := btclog.LevelFromString(lv)
		lg.SetLevel(l)
		UseLogger(lg)
	}
	if err := os.MkdirAll(dir, 0o755); err != nil {
		return nil, err
	}
	db, err := walletdb.Create("bdb", filepath.Join(dir, "neutrino.db"), true, 10*time.Second, false)
	if err != nil {
		return nil, err
	}
	var peers []string
	for _, nd := range nodes {
		peers = append(peers, nd.AddrString())
	}
	svc, err := NewChainService(Config{
		DataDir:          dir,
		Database:         db,
		ChainParams:      *n.Params,
		ConnectPeers:     peers,
		Dialer:           n.Dial,
		NameResolver:     n.Resolve,
		BroadcastTimeout: pushtx.DefaultBroadcastTimeout,
	})
	if err != nil {
		db.Close()
		return nil, err
	}
	c := &vnClient{Net: n, Svc: svc, Dir: dir, DB: db, Nodes: nodes, Start: time.Now()}
	if err := svc.Start(context.Background()); err != nil {
		db.Close()
		return nil, err
	}
	return c, nil
}

// Stop stops the service (releasing blocked dials first) and closes the
// database. Returns how long ChainService.Stop took.
func (c *vnClient) Stop() (time.Duration, error) {
	var d time.Duration
	var err error
	c.stop.Do(func() {
		c.Net.Close()
		t0 := time.Now()
		err = c.Svc.Stop()
		d = time.Since(t0)
		c.DB.Close()
	})
	return d, err
}

type vnSample struct {
	T    int64   `json:"-"`
	Best []int   `json:"best"` // [owner, height] of BestBlock (vnUnknown owner: hash not in the universe; vnErr: error)
	FH   []int   `json:"fh"`   // block whose TRUE filter header is committed at Best's height
	HTip []int   `json:"htip"` // block header store tip
	FTip []int   `json:"ftip"` // [owner of the block whose true filter header is the filter store tip, its height, store height]
	ByH  [][]int `json:"byh"`  // [height, owner] from GetBlockHash for a sparse set of heights <= Best's height
	St   int     `json:"st"`   // 1 = BestBlock answered the same before and after the reads above
	Cur  int     `json:"cur"`
	Ban  []int   `json:"ban"`
	Conn []int   `json:"conn"`
}

func vnHeights(best int) []int {
	if best <= 40 {
		out := make([]int, 0, best+1)
		for h := 0; h <= best; h++ {
			out = append(out, h)
		}
		return out
	}
	set := map[int]bool{0: true}
	for h := best - 12; h <= best; h++ {
		set[h] = true
	}
	for i := 1; i <= 24; i++ {
		set[best*i/25] = true
	}
	for h := 990; h < best; h += 500 {
		for d := 0; d < 3 && h+d*10 <= best; d++ {
			set[h+d*10] = true
		}
	}
	out := make([]int, 0, len(set))
	for h := range set {
		out = append(out, h)
	}
	sort.Ints(out)
	return out
}

// Sample reads the public API. BestBlock is read before and after the other
// reads and the sample is retried when it moved (the chain work of the
// stored chain never decreases, so equal answers bracket a stable interval).
func (c *vnClient) Sample() vnSample {
	var s vnSample
	s.T = time.Since(c.Start).Milliseconds()
	for attempt := 0; attempt < 8; attempt++ {
		s.ByH = nil
		bs, err := c.Svc.BestBlock()
		if err != nil {
			s.Best = []int{vnErr, vnErr}
			s.FH = []int{vnErr, vnErr}
			break
		}
		r := c.Net.refOfHash(&bs.Hash)
		s.Best = []int{r.O, int(bs.Height)}
		fh, err := c.Svc.RegFilterHeaders.FetchHeaderByHeight(uint32(bs.Height))
		if err != nil {
			s.FH = []int{vnErr, vnErr}
		} else {
			fr := c.Net.refOfFilterHeader(fh)
			s.FH = []int{fr.O, fr.H}
		}
		for _, h := range vnHeights(int(bs.Height)) {
			hash, err := c.Svc.GetBlockHash(int64(h))
			if err != nil {
				s.ByH = append(s.ByH, []int{h, vnErr})
				continue
			}
			hr := c.Net.refOfHash(hash)
			o := hr.O
			if hr.H != h {
				o = vnUnknown
			}
			s.ByH = append(s.ByH, []int{h, o})
		}
		bs2, err := c.Svc.BestBlock()
		if err == nil && bs2.Hash == bs.Hash && bs2.Height == bs.Height {
			s.St = 1
			break
		}
	}
	if hd, hh, err := c.Svc.BlockHeaders.ChainTip(); err != nil {
		s.HTip = []int{vnErr, vnErr}
	} else {
		bh := hd.BlockHash()
		s.HTip = []int{c.Net.refOfHash(&bh).O, int(hh)}
	}
	if ft, fth, err := c.Svc.RegFilterHeaders.ChainTip(); err != nil {
		s.FTip = []int{vnErr, vnErr, vnErr}
	} else {
		fr := c.Net.refOfFilterHeader(ft)
		s.FTip = []int{fr.O, fr.H, int(fth)}
	}
	if c.Svc.IsCurrent() {
		s.Cur = 1
	}
	s.Ban = make([]int, len(c.Nodes))
	s.Conn = make([]int, len(c.Nodes))
	for i, nd := range c.Nodes {
		if c.Svc.IsBanned(nd.AddrString()) {
			s.Ban[i] = 1
		}
	}
	done := make(chan []*ServerPeer, 1)
	go func() { done <- c.Svc.Peers() }()
	select {
	case ps := <-done:
		for _, p := range ps {
			for i, nd := range c.Nodes {
				if p.Addr() == nd.AddrString() {
					s.Conn[i] = 1
				}
			}
		}
	case <-time.After(5 * time.Second):
		for i := range s.Conn {
			s.Conn[i] = vnErr
		}
	}
	return s
}

// vnConverged: best block = honest tip with its true filter header committed
// and both store tips there.
func (c *vnClient) Converged(s *vnSample) bool {
	t := c.Net.Tip()
	return len(s.Best) == 2 && s.Best[0] == t.O && s.Best[1] == t.H &&
		s.FH[0] == t.O && s.FH[1] == t.H && s.HTip[0] == t.O && s.HTip[1] == t.H &&
		s.FTip[0] == t.O && s.FTip[1] == t.H && s.FTip[2] == t.H
}

func vnDescribe(s *vnSample) string {
	return strings.TrimSpace(fmt.Sprintf("best=%v fh=%v htip=%v ftip=%v cur=%d ban=%v conn=%v",
		s.Best, s.FH, s.HTip, s.FTip, s.Cur, s.Ban, s.Conn))
}
