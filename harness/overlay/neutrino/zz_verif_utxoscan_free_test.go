package neutrino

// Free-running executions of the real UtxoScanner for the UtxoScan family
// (C10): the implementation -> specification direction.
//
// Nothing blocks here: the scanner's batch manager runs freely, one to three
// caller goroutines Enqueue at random moments, a goroutine lets blocks arrive,
// the config callbacks answer at once (with seeded failures / filter false
// positives and small random delays).  Every execution is recorded at its
// linearisation points and turned into a sequence of actions of
// specs/UtxoScan/UtxoScan.tla with the observable state after each:
//
//   - Enqueue is recorded inside the scanner's critical section (by the
//     Unlock of the sync.Locker under s.cv, while the lock is still held);
//   - the batch manager records every environment call (arrival, with which
//     requests have an answer in their channel; release, with the answer it
//     was given) and the end of each of its critical sections (dequeue, loop
//     top/Peek, cv.Wait);
//   - a block arrival is recorded under the recorder's lock, the same lock
//     under which BestSnapshot reads the height.
//
// A model action of the batch manager is the stretch from one release to the
// next arrival.  The only shared data it reads in that stretch are pq /
// nextBatch, in at most one critical section; so an Enqueue recorded inside
// the stretch belongs BEFORE the action if it precedes that section's end
// marker and AFTER it otherwise; block arrivals commute with the stretch and
// are placed after it.  The python side checks that the resulting action
// sequence is a path of the TLC state graph with equal observables
// (conformance) and TLC evaluates UtxoScanProps on it (verdict).

import (
	"bufio"
	"encoding/json"
	"fmt"
	"math/rand"
	"os"
	"runtime"
	"sync"
	"sync/atomic"
	"testing"
	"time"

	"github.com/btcsuite/btcd/btcutil/v2"
	"github.com/btcsuite/btcd/chainhash/v2"
	"github.com/lightninglabs/neutrino/headerfs"
)

type uxfCfg struct {
	N        int     `json:"n"`
	Seed     int64   `json:"seed"`
	Cid      int     `json:"cid"`
	Cat      [][]int `json:"cat"`
	Best0s   []int   `json:"best0s"`
	MaxReq   int     `json:"max_req"`
	MaxFail  int     `json:"max_fail"`
	FalsePos bool    `json:"false_pos"`
	MaxGates int     `json:"max_gates"`
}

const (
	uxfEnq = iota
	uxfNewBlock
	uxfArrive  // batch manager enters an environment call (kind, h) + answered snapshot
	uxfRelease // ... and gets its answer (res, best)
	uxfSection // end of a critical section of the batch manager that read pq (dequeue / Peek)
	uxfIdle    // batch manager parks in cv.Wait (+ answered snapshot)
	uxfRelock  // batch manager re-took the lock after cv.Wait
	uxfPanic   // batch manager died in a panic (+ answered snapshot)
)

type uxfEntry struct {
	typ      int
	kind, h  int // arrive / release: gate
	res      string
	best     int
	fp       int    // release of a filter gate: 1 = match only through the injected false positive
	req      int    // enq: index into env.reqs
	answered []bool // arrive / idle
}

type uxfEnv struct {
	cd    *uxChainData
	cfg   *uxfCfg
	s     *UtxoScanner
	rng   *rand.Rand // batch manager's decisions
	lmu   sync.Mutex // recorder
	log   []uxfEntry
	best  int
	reqs  []*uxReqSt
	known map[*GetUtxoRequest]bool

	loopTop int32
	fails   int
	failAt  map[int]bool
	gates   int32
	curCat  []int // the request being enqueued (callers are serialised among themselves)
	dead    bool  // the batch manager panicked
}

func (e *uxfEnv) snapshot() []bool {
	a := make([]bool, len(e.reqs))
	for i, r := range e.reqs {
		a[i] = r.req != nil && len(r.req.resultChan) > 0
	}
	return a
}

type uxfLocker struct {
	mu sync.Mutex
	e  *uxfEnv
}

func uxfJitter(r *rand.Rand) {
	switch r.Intn(4) {
	case 0:
	case 1:
		runtime.Gosched()
	case 2:
		for i := r.Intn(200); i > 0; i-- {
			runtime.Gosched()
		}
	default:
		time.Sleep(time.Duration(r.Intn(60)) * time.Microsecond)
	}
}

func (l *uxfLocker) Lock() {
	c := uxCallerOf("uxfLocker")
	l.mu.Lock()
	switch c {
	case "wait":
		atomic.StoreInt32(&l.e.loopTop, 1)
		l.e.lmu.Lock()
		l.e.log = append(l.e.log, uxfEntry{typ: uxfRelock})
		l.e.lmu.Unlock()
	case "loop":
		atomic.StoreInt32(&l.e.loopTop, 1)
	}
}

func (l *uxfLocker) Unlock() {
	e := l.e
	switch uxCallerOf("uxfLocker") {
	case "other": // Enqueue: still inside the scanner's critical section
		e.lmu.Lock()
		var nr *GetUtxoRequest
		for _, q := range e.s.pq {
			if !e.known[q] {
				nr = q
			}
		}
		if nr != nil {
			e.known[nr] = true
			e.reqs = append(e.reqs, &uxReqSt{tx: e.curCat[0], idx: e.curCat[1], start: e.curCat[2], req: nr})
			e.log = append(e.log, uxfEntry{typ: uxfEnq, req: len(e.reqs) - 1})
		}
		e.lmu.Unlock()
	case "dequeue", "loop":
		e.lmu.Lock()
		e.log = append(e.log, uxfEntry{typ: uxfSection})
		e.lmu.Unlock()
	case "wait":
		e.lmu.Lock()
		e.log = append(e.log, uxfEntry{typ: uxfIdle, answered: e.snapshot()})
		e.lmu.Unlock()
	}
	l.mu.Unlock()
}

// uxCallerOf is uxCaller for a locker type of the given name.
func uxCallerOf(locker string) string {
	var pcs [12]uintptr
	n := runtime.Callers(3, pcs[:])
	frames := runtime.CallersFrames(pcs[:n])
	for {
		f, more := frames.Next()
		fn := f.Function
		switch {
		case containsStr(fn, locker):
		case hasSuffixStr(fn, "sync.(*Cond).Wait"):
			return "wait"
		case hasSuffixStr(fn, ".dequeueAtHeight"):
			return "dequeue"
		case hasSuffixStr(fn, ".batchManager"):
			return "loop"
		case len(fn) >= 8 && fn[:8] == "runtime.":
		default:
			return "other"
		}
		if !more {
			return "other"
		}
	}
}

func containsStr(s, sub string) bool {
	for i := 0; i+len(sub) <= len(s); i++ {
		if s[i:i+len(sub)] == sub {
			return true
		}
	}
	return false
}

func hasSuffixStr(s, suf string) bool {
	return len(s) >= len(suf) && s[len(s)-len(suf):] == suf
}

// arrive / release around every environment call of the batch manager
func (e *uxfEnv) arrive(kind, h int) (fail bool) {
	n := int(atomic.AddInt32(&e.gates, 1))
	e.lmu.Lock()
	e.log = append(e.log, uxfEntry{typ: uxfArrive, kind: kind, h: h, answered: e.snapshot()})
	if e.failAt[n] && e.fails < e.cfg.MaxFail {
		e.fails++
		fail = true
	}
	e.lmu.Unlock()
	uxfJitter(e.rng)
	return fail
}

func (e *uxfEnv) release(kind, h int, res string) int {
	return e.releaseFp(kind, h, res, 0)
}

func (e *uxfEnv) releaseFp(kind, h int, res string, fp int) int {
	e.lmu.Lock()
	b := e.best
	e.log = append(e.log, uxfEntry{typ: uxfRelease, kind: kind, h: h, res: res, best: b, fp: fp})
	e.lmu.Unlock()
	return b
}

func (e *uxfEnv) bestSnapshot() (*headerfs.BlockStamp, error) {
	kind := uxTail
	if atomic.SwapInt32(&e.loopTop, 0) == 1 {
		kind = uxBest0
	}
	if e.arrive(kind, 0) {
		e.release(kind, 0, "fail")
		return nil, errUxInjected
	}
	b := e.release(kind, 0, "ok")
	return &headerfs.BlockStamp{Hash: e.cd.hashes[b], Height: int32(b)}, nil
}

func (e *uxfEnv) getBlockHash(height int64) (*chainhash.Hash, error) {
	if e.arrive(uxHash, int(height)) {
		e.release(uxHash, int(height), "fail")
		return nil, errUxInjected
	}
	e.release(uxHash, int(height), "ok")
	if height < 0 || int(height) > e.cd.h {
		return nil, fmt.Errorf("verif: no block at height %d", height)
	}
	h := e.cd.hashes[height]
	return &h, nil
}

// filterMatches: the repository's blockFilterMatches over a ChainSource whose
// GetCFilter answers at once (see uxChainSrc in the replay driver).
func (e *uxfEnv) filterMatches(ro *rescanOptions, hash *chainhash.Hash) (bool, error) {
	h := e.cd.height[*hash]
	var rel uxRelease
	src := &uxChainSrc{cd: e.cd,
		gate: func(int) uxRelease {
			if e.arrive(uxFilter, h) {
				if e.rng.Intn(2) == 0 {
					rel.stale = true
				} else {
					rel.fail = true
				}
			} else if e.cfg.FalsePos && e.rng.Intn(4) == 0 {
				rel.match = true
			}
			return rel
		},
		watch: func() [][]byte {
			e.lmu.Lock()
			defer e.lmu.Unlock()
			var w [][]byte
			for _, r := range e.reqs {
				w = append(w, e.cd.scriptOf(r.tx, r.idx))
			}
			return w
		}}
	m, _, err := blockFilterMatches(src, ro, hash)
	switch {
	case rel.fail:
		e.release(uxFilter, h, "fail")
	case rel.stale:
		e.release(uxFilter, h, "stale")
	case m:
		// a false positive (act.b = 1) if the filter served was the padded one
		// and the block's true filter does not match the watch list the code
		// handed in
		fp := 0
		if rel.match {
			tm, terr := matchBlockFilter(ro, e.cd.filters[h], hash)
			if terr != nil || !tm {
				fp = 1
			}
		}
		e.releaseFp(uxFilter, h, "match", fp)
	default:
		e.release(uxFilter, h, "nomatch")
	}
	return m, err
}

func (e *uxfEnv) getBlock(hash chainhash.Hash, _ ...QueryOption) (*btcutil.Block, error) {
	h := e.cd.height[hash]
	if e.arrive(uxBlock, h) {
		e.release(uxBlock, h, "fail")
		return nil, errUxInjected
	}
	e.release(uxBlock, h, "ok")
	return btcutil.NewBlock(e.cd.blocks[h]), nil
}

// linearise turns the log into model actions with the observables after each.
func (e *uxfEnv) linearise(cid, best0 int, final [][]int) (uxObs, []uxStepOut) {
	type reqv struct {
		in  bool
		ans bool
	}
	best := best0
	pc, h := uxIdle, 0
	vis := make([]reqv, len(e.reqs)) // which requests exist / are answered in the linearised state
	obs := func() uxObs {
		o := uxObs{Cid: cid, Best: best, Pc: pc, H: h, Reqs: []uxReqObs{}}
		// requests appear in the order of their Enqueue entries = index order
		for i, r := range e.reqs {
			if !vis[i].in {
				continue
			}
			a := [][]int{}
			if vis[i].ans && final[i] != nil {
				a = append(a, final[i])
			}
			o.Reqs = append(o.Reqs, uxReqObs{Tx: r.tx, Idx: r.idx, Start: r.start, Ans: a})
		}
		return o
	}
	above := func() int {
		n := 0
		for i, r := range e.reqs {
			if vis[i].in && !vis[i].ans && r.start > best {
				n++
			}
		}
		return n
	}
	init := obs()
	var steps []uxStepOut
	emit := func(a uxAct) { steps = append(steps, uxStepOut{Act: a, Obs: obs()}) }
	external := func(x uxfEntry) {
		switch x.typ {
		case uxfEnq:
			r := e.reqs[x.req]
			vis[x.req].in = true
			if pc == uxIdle {
				pc = uxWake
			}
			emit(uxAct{Op: "Enqueue", A: r.tx, B: r.idx, C: r.start, Res: "ok"})
		case uxfNewBlock:
			best = x.best
			emit(uxAct{Op: "NewBlock", A: best, Res: "ok"})
		}
	}
	log := e.log
	i := 0
	for i < len(log) {
		x := log[i]
		switch x.typ {
		case uxfEnq, uxfNewBlock:
			external(x)
			i++
		case uxfArrive, uxfIdle, uxfSection, uxfPanic:
			// arrival/idle markers are consumed by the action that ends in
			// them; a section marker outside a stretch is the initial loop top
			i++
		case uxfRelease, uxfRelock:
			// one model action: from here to the next arrival / idle marker
			j := i + 1
			sec := -1
			for j < len(log) && log[j].typ != uxfArrive && log[j].typ != uxfIdle && log[j].typ != uxfPanic {
				if log[j].typ == uxfSection && sec < 0 {
					sec = j
				}
				j++
			}
			if j == len(log) {
				return init, steps // execution cut off inside a stretch: ignore the incomplete action
			}
			var after []uxfEntry
			for k := i + 1; k < j; k++ {
				if log[k].typ == uxfEnq && k < sec {
					external(log[k]) // before the section that read pq => before the action
				} else if log[k].typ == uxfEnq || log[k].typ == uxfNewBlock {
					after = append(after, log[k])
				}
			}
			a := uxAct{Res: x.res}
			if x.typ == uxfRelock {
				if pc == uxIdle {
					// woken although nothing was enqueued since it parked: the
					// late Signal of an earlier Enqueue
					pc = uxWake
					emit(uxAct{Op: "Signal", Res: "ok"})
				}
				a.Op, a.Res = "Wake", "ok"
			} else {
				a.Op = uxPcOp[x.kind]
				switch x.kind {
				case uxHash, uxBlock:
					a.A = x.h
				case uxFilter:
					a.A = x.h
					a.B = x.fp
				case uxBest0:
					a.B = x.best
				case uxTail:
					a.B = x.best
					a.C = above()
				}
			}
			end := log[j]
			if end.typ == uxfIdle {
				pc, h = uxIdle, 0
			} else if end.typ == uxfPanic {
				pc, h = uxPanic, 0
				a.Res = "panic"
			} else {
				pc, h = end.kind, end.h
				if pc == uxBest0 || pc == uxTail {
					h = 0
				}
			}
			if x.typ == uxfRelease && x.kind == uxTail && x.res == "ok" && pc != uxPanic {
				if pc == uxHash {
					a.Res = "more"
				} else {
					a.Res = "done"
				}
			}
			for k := range vis {
				if k < len(end.answered) && end.answered[k] {
					vis[k].ans = true
				}
			}
			emit(a)
			for _, y := range after {
				external(y)
			}
			i = j
		}
	}
	return init, steps
}

// waitParked waits until the batch manager is parked in cv.Wait with nothing
// on its way to wake it (no Enqueue recorded after it parked), or until it
// has made maxGates environment calls (maxGates > 0).
func (e *uxfEnv) waitParked(maxGates int) bool {
	deadline := time.Now().Add(uxBound())
	for {
		e.lmu.Lock()
		parked := e.dead
		for i := len(e.log) - 1; i >= 0 && !parked; i-- {
			t := e.log[i].typ
			if t == uxfIdle || t == uxfPanic {
				parked = true
				break
			}
			if t != uxfNewBlock {
				break
			}
		}
		e.lmu.Unlock()
		if parked || (maxGates > 0 && int(atomic.LoadInt32(&e.gates)) >= maxGates) {
			return true
		}
		if time.Now().After(deadline) {
			return false
		}
		time.Sleep(20 * time.Microsecond)
	}
}

func uxfRun(cd *uxChainData, cfg *uxfCfg, id int) (out uxPathOut) {
	out.ID = json.RawMessage(fmt.Sprintf("%d", id))
	out.Chains = uxTable
	r := rand.New(rand.NewSource(cfg.Seed*1000003 + int64(id)))
	best0 := cfg.Best0s[r.Intn(len(cfg.Best0s))]
	e := &uxfEnv{cd: cd, cfg: cfg, rng: rand.New(rand.NewSource(r.Int63())), best: best0,
		known: map[*GetUtxoRequest]bool{}, failAt: map[int]bool{}}
	for k := 0; k < cfg.MaxFail; k++ {
		if r.Intn(2) == 0 {
			e.failAt[1+r.Intn(14)] = true
		}
	}
	e.s = NewUtxoScanner(&UtxoScannerConfig{
		BestSnapshot:       e.bestSnapshot,
		GetBlockHash:       e.getBlockHash,
		BlockFilterMatches: e.filterMatches,
		GetBlock:           e.getBlock,
	})
	e.s.cv = sync.NewCond(&uxfLocker{e: e})
	// UtxoScanner.Start, with the goroutine wrapped so that a panic of the
	// batch manager is an observation instead of the death of the driver
	atomic.StoreUint32(&e.s.started, 1)
	e.s.wg.Add(1)
	go func() {
		defer func() {
			if r := recover(); r != nil {
				e.lmu.Lock()
				e.log = append(e.log, uxfEntry{typ: uxfPanic, answered: e.snapshot()})
				e.dead = true
				e.lmu.Unlock()
			}
		}()
		e.s.batchManager()
	}()
	// the model starts with the batch manager parked
	if !e.waitParked(0) {
		out.Error = "free run: batch manager did not park after Start\n" + uxDump()
		return out
	}
	nreq := 1 + r.Intn(cfg.MaxReq)
	var wg sync.WaitGroup
	var enqMu sync.Mutex
	for k := 0; k < nreq; k++ {
		c := cfg.Cat[r.Intn(len(cfg.Cat))]
		rr := rand.New(rand.NewSource(r.Int63()))
		wg.Add(1)
		go func() {
			defer wg.Done()
			for n := rr.Intn(6); n > 0; n-- {
				uxfJitter(rr)
			}
			in, err := cd.input(c[0], c[1])
			if err != nil {
				return
			}
			enqMu.Lock()
			e.lmu.Lock()
			e.curCat = c
			e.lmu.Unlock()
			e.s.Enqueue(in, uint32(c[2]), func(uint32) {})
			enqMu.Unlock()
		}()
	}
	grow := 0
	if best0 < cd.h {
		grow = r.Intn(cd.h - best0 + 1)
	}
	rg := rand.New(rand.NewSource(r.Int63()))
	wg.Add(1)
	go func() {
		defer wg.Done()
		for k := 0; k < grow; k++ {
			for n := rg.Intn(8); n > 0; n-- {
				uxfJitter(rg)
			}
			e.lmu.Lock()
			e.best++
			e.log = append(e.log, uxfEntry{typ: uxfNewBlock, best: e.best})
			e.lmu.Unlock()
		}
	}()
	// now and then a cv.Signal out of the blue, as the late Signal of an
	// Enqueue that has already returned would be (rare with real timing)
	if r.Intn(3) == 0 {
		rs := rand.New(rand.NewSource(r.Int63()))
		wg.Add(1)
		go func() {
			defer wg.Done()
			for n := rs.Intn(10); n > 0; n-- {
				uxfJitter(rs)
			}
			e.lmu.Lock()
			ok := len(e.reqs) > 0
			e.lmu.Unlock()
			if ok {
				e.s.cv.Signal()
			}
		}()
	}
	wg.Wait()
	// quiescence: the last thing that happened is the batch manager parking
	if !e.waitParked(cfg.MaxGates) {
		out.Error = "free run: batch manager neither parked nor made environment calls\n" + uxDump()
	}
	// freeze the log, then read what every caller would get
	e.lmu.Lock()
	e.log = append([]uxfEntry(nil), e.log...)
	frozen := e.log
	reqs := append([]*uxReqSt(nil), e.reqs...)
	e.lmu.Unlock()
	final := make([][]int, len(reqs))
	for i, q := range reqs {
		if len(q.req.resultChan) > 0 {
			x := <-q.req.resultChan
			final[i] = cd.project(x.report, x.err)
		}
	}
	done := make(chan struct{})
	go func() { e.s.Stop(); close(done) }()
	select {
	case <-done:
	case <-time.After(uxBound()):
		if out.Error == "" {
			out.Error = "free run: Stop did not return\n" + uxDump()
		}
	}
	fe := &uxfEnv{cd: cd, cfg: cfg, log: frozen, reqs: reqs}
	// an answer that arrived after the log was frozen is not in any snapshot; drop it
	out.InitObs, out.Steps = fe.linearise(cfg.Cid, best0, final)
	return out
}

func TestVerifUtxoScanFree(t *testing.T) {
	of := os.Getenv("VERIF_OUT")
	if of == "" || os.Getenv("VERIF_UX_FREE") == "" {
		t.Skip("VERIF_OUT / VERIF_UX_FREE not set")
	}
	var cfg uxfCfg
	if err := json.Unmarshal([]byte(os.Getenv("VERIF_UX_FREE")), &cfg); err != nil {
		t.Fatal(err)
	}
	if err := json.Unmarshal([]byte(os.Getenv("VERIF_UX_CHAINS")), &uxTable); err != nil {
		t.Fatal(err)
	}
	cd, err := uxBuildChain(uxTable[cfg.Cid-1])
	if err != nil {
		t.Fatal(err)
	}
	outf, err := os.Create(of)
	if err != nil {
		t.Fatal(err)
	}
	defer outf.Close()
	w := bufio.NewWriterSize(outf, 1<<20)
	defer w.Flush()
	var mu sync.Mutex
	var wg sync.WaitGroup
	ids := make(chan int, 64)
	for k := 0; k < runtime.NumCPU(); k++ {
		wg.Add(1)
		go func() {
			defer wg.Done()
			for id := range ids {
				o := uxfRun(cd, &cfg, id)
				b, _ := json.Marshal(&o)
				mu.Lock()
				w.Write(b)
				w.WriteByte('\n')
				mu.Unlock()
			}
		}()
	}
	for id := 0; id < cfg.N; id++ {
		ids <- id
	}
	close(ids)
	wg.Wait()
}
