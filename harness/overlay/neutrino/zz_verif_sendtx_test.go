//go:build verif

// Driver of the SendTx part of the Broadcaster family (property C15): replays
// the state graph of specs/Broadcaster/SendTx.tla against the REAL
// ChainService.sendTransaction / queryAllPeers.
//
// A minimal ChainService literal is used (query channel answered by the
// driver with fake peers, quit channel, broadcast timeout); the peers are
// real ServerPeers around unconnected btcd peers, so QueueMessage is a no-op
// and the peers' replies are fed through ServerPeer.OnRead exactly as the
// peer's read loop would.  Every path runs in its own testing/synctest
// bubble: after every delivered message synctest.Wait() lets the response
// handler finish, and the two timeouts of the code (reject timeout, broadcast
// timeout) are passed by sleeping on the bubble's fake clock.
package neutrino

import (
	"encoding/json"
	"fmt"
	"math/rand"
	"reflect"
	"strings"
	"sync/atomic"
	"testing"
	"testing/synctest"
	"time"
	"unsafe"

	"github.com/btcsuite/btcd/chainhash/v2"
	"github.com/btcsuite/btcd/peer"
	"github.com/btcsuite/btcd/wire/v2"
	"github.com/lightninglabs/neutrino/pushtx"
)

const (
	vsBroadcastTimeout = 10 * time.Second
	vsRejectTimeout    = time.Second
)

type vsObs struct {
	Np      int `json:"np"`
	Thr     int `json:"thr"`
	Verdict int `json:"verdict"`
}

type vsSUT struct {
	rng     *rand.Rand
	np, thr int
	s       *ChainService
	peers   []*ServerPeer
	tx      *wire.MsgTx
	hash    chainhash.Hash
	done    chan int
	verdict int
	stop    chan struct{}
}

// reject spellings per class (1 Invalid, 2 InsufficientFee, 3 Mempool,
// 4 Confirmed, 5 Unknown), as bitcoind and btcd phrase them.
var vsSpellings = map[int][]wire.MsgReject{
	1: {
		{Code: wire.RejectInvalid, Reason: "bad-txns-inputs-missingorspent"},
		{Code: wire.RejectNonstandard, Reason: "dust"},
		{Code: wire.RejectDuplicate, Reason: "txn-mempool-conflict"},
		{Code: wire.RejectDuplicate, Reason: "output already spent by transaction in the memory pool"},
	},
	2: {{Code: wire.RejectInsufficientFee, Reason: "min relay fee not met"}},
	3: {
		{Code: wire.RejectDuplicate, Reason: "txn-already-in-mempool"},
		{Code: wire.RejectDuplicate, Reason: "already have transaction 00ff"},
	},
	4: {
		{Code: wire.RejectDuplicate, Reason: "txn-already-known"},
		{Code: wire.RejectDuplicate, Reason: "transaction already exists"},
	},
	5: {
		{Code: wire.RejectMalformed, Reason: "malformed"},
		{Code: wire.RejectObsolete, Reason: "obsolete"},
		{Code: wire.RejectDuplicate, Reason: "some other duplicate"},
		{Code: wire.RejectCheckpoint, Reason: "checkpoint"},
	},
}

// Reject messages given as (wire reject code class, reason class) pairs,
// m = (wc-1)*8 + rs (see SendTxProps.tla): the product of every code class
// with every reason string pushtx/error.go lists, an unlisted and the empty
// reason.
var vsWireCodes = [][]wire.RejectCode{
	{wire.RejectInvalid},
	{wire.RejectNonstandard},
	{wire.RejectInsufficientFee},
	{wire.RejectDuplicate},
	{wire.RejectMalformed, wire.RejectObsolete, wire.RejectDust, wire.RejectCheckpoint},
}

var vsReasons = [][]string{
	{"txn-mempool-conflict", "18: txn-mempool-conflict"},
	{"txn-already-in-mempool", "18: txn-already-in-mempool"},
	{"txn-already-known", "18: txn-already-known"},
	{"output 00ff:1 already spent by transaction 11ee in the memory pool", "already spent"},
	{"already have transaction 00ff", "already have transaction in mempool 00ff"},
	{"transaction already exists", "transaction already exists in blockchain"},
	{"txn-same-nonwitness-data-in-mempool", "duplicate", "bad-txns-inputs-missingorspent", "min relay fee not met",
		"dust", "non-final", "insufficient priority"},
	{""},
}

func (s *vsSUT) rejectMsg(m int) *wire.MsgReject {
	wc, rs := (m-1)/8, (m-1)%8
	codes, reasons := vsWireCodes[wc], vsReasons[rs]
	return &wire.MsgReject{
		Code:   codes[s.rng.Intn(len(codes))],
		Reason: reasons[s.rng.Intn(len(reasons))],
	}
}

var vsNextID int32

// vsSetPeerID gives an unconnected btcd peer the id it would get from the
// version handshake (sendTransaction keys its bookkeeping by peer id).
func vsSetPeerID(p *peer.Peer) error {
	f := reflect.ValueOf(p).Elem().FieldByName("id")
	if !f.IsValid() || f.Kind() != reflect.Int32 {
		return fmt.Errorf("btcd peer.Peer has no int32 field id")
	}
	*(*int32)(unsafe.Pointer(f.UnsafeAddr())) = atomic.AddInt32(&vsNextID, 1)
	return nil
}

func vsClassify(err error) int {
	if err == nil {
		return 1
	}
	be, ok := err.(*pushtx.BroadcastError)
	if !ok {
		return 19
	}
	switch be.Code {
	case pushtx.Invalid:
		return 11
	case pushtx.InsufficientFee:
		return 12
	case pushtx.Mempool:
		return 13
	case pushtx.Confirmed:
		return 14
	default:
		return 15
	}
}

func (s *vsSUT) Start(initObs json.RawMessage) error {
	var o vsObs
	if err := json.Unmarshal(initObs, &o); err != nil {
		return err
	}
	s.np, s.thr = o.Np, o.Thr
	s.s = &ChainService{
		query:            make(chan interface{}),
		quit:             make(chan struct{}),
		broadcastTimeout: vsBroadcastTimeout,
	}
	for i := 0; i < s.np; i++ {
		p, err := peer.NewOutboundPeer(&peer.Config{}, fmt.Sprintf("10.0.%d.%d:8333", s.rng.Intn(200), i+1))
		if err != nil {
			return err
		}
		if err := vsSetPeerID(p); err != nil {
			return err
		}
		sp := NewServerPeer(s.s, false)
		sp.Peer = p
		s.peers = append(s.peers, sp)
	}
	s.stop = make(chan struct{})
	go func() {
		for {
			select {
			case m := <-s.s.query:
				if g, ok := m.(getPeersMsg); ok {
					g.reply <- append([]*ServerPeer{}, s.peers...)
				}
			case <-s.stop:
				return
			}
		}
	}()

	s.tx = wire.NewMsgTx(2)
	var prev chainhash.Hash
	s.rng.Read(prev[:])
	s.tx.AddTxIn(wire.NewTxIn(wire.NewOutPoint(&prev, 0), nil, nil))
	pk := make([]byte, 22)
	s.rng.Read(pk)
	s.tx.AddTxOut(wire.NewTxOut(int64(1000+s.rng.Intn(100000)), pk))
	s.hash = s.tx.TxHash()

	s.done = make(chan int, 1)
	go func() {
		defer func() {
			if r := recover(); r != nil {
				s.done <- 18
			}
		}()
		// 60 % is the package default: leave the option away so that the
		// real default value (a float32 constant) is what gets compared.
		opts := []QueryOption{RejectTimeout(vsRejectTimeout)}
		if s.thr != 60 {
			opts = append(opts, InvalidTxThreshold(float32(s.thr)/100))
		}
		err := s.s.sendTransaction(s.tx, opts...)
		s.done <- vsClassify(err)
	}()
	s.settle()
	return nil
}

func (s *vsSUT) settle() {
	synctest.Wait()
	select {
	case v := <-s.done:
		s.verdict = v
	default:
	}
}

func (s *vsSUT) obs() vsObs { return vsObs{Np: s.np, Thr: s.thr, Verdict: s.verdict} }

func (s *vsSUT) InitObs() interface{} { return s.obs() }

func vsInt(v interface{}) int {
	switch x := v.(type) {
	case float64:
		return int(x)
	case int:
		return x
	}
	return 0
}

func (s *vsSUT) Step(act map[string]interface{}) (map[string]interface{}, interface{}, map[string]interface{}) {
	op, _ := act["op"].(string)
	p := vsInt(act["p"])
	kind, _ := act["kind"].(string)
	code := vsInt(act["code"])
	msg := vsInt(act["m"])
	res := "ok"
	switch op {
	case "Msg":
		if p < 1 || p > len(s.peers) {
			res = "skipped"
			break
		}
		sp := s.peers[p-1]
		var m wire.Message
		switch kind {
		case "G":
			gd := wire.NewMsgGetData()
			it := wire.InvTypeWitnessTx
			if s.rng.Intn(2) == 0 {
				it = wire.InvTypeTx
			}
			_ = gd.AddInvVect(wire.NewInvVect(it, &s.hash))
			m = gd
		case "R":
			var r wire.MsgReject
			if msg >= 1 && msg <= 40 {
				r = *s.rejectMsg(msg)
			} else {
				sp := vsSpellings[code]
				r = sp[s.rng.Intn(len(sp))]
			}
			r.Cmd = wire.CmdTx
			r.Hash = s.hash
			m = &r
		case "Y":
			// getdata for something else (e.g. a transaction another,
			// overlapping broadcast announced to the same peer)
			gd := wire.NewMsgGetData()
			for n := 1 + s.rng.Intn(2); n > 0; n-- {
				var h chainhash.Hash
				s.rng.Read(h[:])
				it := wire.InvTypeWitnessTx
				if s.rng.Intn(3) == 0 {
					it = wire.InvTypeWitnessBlock
				}
				_ = gd.AddInvVect(wire.NewInvVect(it, &h))
			}
			m = gd
		case "X":
			sp := vsSpellings[1+s.rng.Intn(5)]
			r := sp[s.rng.Intn(len(sp))]
			r.Cmd = wire.CmdTx
			s.rng.Read(r.Hash[:])
			m = &r
		default:
			res = "skipped"
		}
		if m != nil {
			sp.OnRead(nil, 0, m, nil)
		}
	case "Delay":
		time.Sleep(vsRejectTimeout + time.Millisecond)
	case "Finish":
		time.Sleep(vsBroadcastTimeout)
	default:
		res = "skipped"
	}
	s.settle()
	return map[string]interface{}{"op": op, "p": p, "kind": kind, "code": code, "m": msg, "res": res}, s.obs(), nil
}

func (s *vsSUT) Close() {
	if s.s == nil {
		return
	}
	close(s.s.quit)
	synctest.Wait()
	close(s.stop)
	synctest.Wait()
}

func vsCtl(act map[string]interface{}) string {
	op, _ := act["op"].(string)
	kind, _ := act["kind"].(string)
	if m := vsInt(act["m"]); m != 0 {
		// a reject given as a concrete message: the class is the code's answer
		return fmt.Sprintf("%s/%d/%s/m%d", op, vsInt(act["p"]), kind, m)
	}
	return fmt.Sprintf("%s/%d/%s/%d", op, vsInt(act["p"]), kind, vsInt(act["code"]))
}

func TestVerifSendTxReplay(t *testing.T) {
	vwRun(t, &vwFamily{
		name:   "sendtx",
		ctlKey: vsCtl,
		bubble: func(t *testing.T, body func()) {
			defer func() {
				if r := recover(); r != nil && !strings.Contains(fmt.Sprint(r), "deadlock") {
					panic(r)
				}
			}()
			synctest.Test(t, func(*testing.T) { body() })
		},
		newSUT: func(rng *rand.Rand) vwSUT { return &vsSUT{rng: rng} },
	})
}
