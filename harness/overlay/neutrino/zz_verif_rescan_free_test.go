package neutrino

// Free-running executions of the real rescan for the Rescan family (C09),
// code -> specification direction.  A seeded random scheduler interleaves
// chain growth / reorganisation, fetch failures, updates and the rescan's own
// steps on a universe larger than the exhaustively explored ones, for many
// more steps than the bounded model reaches; the 100 ms retry timer runs for
// real and fires whenever it likes.  Every execution is logged in the format
// of the replay driver (one step per chain-source interaction, with the
// callbacks delivered) and then (a) judged by RescanProps.tla and (b) checked
// to be a behaviour of Rescan.tla (TraceRescan.tla).

import (
	"bufio"
	"encoding/json"
	"fmt"
	"math/rand"
	"os"
	"runtime"
	"sync"
	"testing"
	"time"

	"github.com/lightninglabs/neutrino/blockntfns"
)

type vrFreeCfg struct {
	Seed    int64 `json:"seed"`
	Runs    int   `json:"runs"`
	Steps   int   `json:"steps"`
	MaxUpd  int   `json:"max_upd"`
	StaleOK bool  `json:"stale_ok"`
}

func (x *vrRun) step(out *vrPathOut, a vrAct) {
	if a.Add == nil {
		a.Add = []int{}
	}
	out.Steps = append(out.Steps, vrStepOut{Act: a, Obs: x.obs()})
}

func vrFreeRun(w *vrWorld, cfg vrFreeCfg, id int) (out vrPathOut) {
	out.ID = id
	out.Steps = []vrStepOut{}
	rng := rand.New(rand.NewSource(cfg.Seed*1000003 + int64(id)))
	x := &vrRun{w: w}
	defer func() {
		if r := recover(); r != nil {
			out.Error = fmt.Sprintf("driver panic: %v\n%s", r, vrDump())
		}
		x.teardown()
	}()
	out.InitObs = x.obs()
	if err := x.start(); err != nil {
		out.Error = "start: " + err.Error() + "\n" + vrDump()
		return
	}
	x.step(&out, vrAct{Op: "Start", Res: "ok", B: w.u.StartB})
	const tmo = 10 * time.Second
	retry := vrAct{Op: "Retry", Res: "ok", B: -1}
	nUpd := 0
	for len(out.Steps) < cfg.Steps && x.st == 0 {
		// the retry timer may have moved the goroutine out of its select
		if x.gate == nil {
			select {
			case g := <-x.c.ev:
				x.gate = g
				x.step(&out, retry)
				continue
			default:
			}
		}
		type choice struct {
			kind string
			b    int
			wt   float64
		}
		var cs []choice
		c := x.c
		c.mu.Lock()
		tip := c.chain[len(c.chain)-1]
		nchain, fh := len(c.chain), c.fh
		held := c.held != nil
		c.mu.Unlock()
		if held {
			// the block manager is blocked in its send: no further chain event
			cs = append(cs, choice{"Emit", -1, 3})
		} else {
			for b := 1; b < w.u.NB; b++ {
				if w.u.Parent[b] == tip {
					cs = append(cs, choice{"Extend", b, 1.2})
				}
			}
			if w.u.Lag && fh < nchain-1 {
				cs = append(cs, choice{"AddFH", -1, 2.5})
			}
			if nchain > 1 {
				cs = append(cs, choice{"Rollback", -1, 0.8})
			}
		}
		// Updates are sent while the goroutine is inside a chain-source call
		// (they wait in the channel): sent into a select they would race
		// with the real retry timer, and the log could not tell which of
		// the two the select took first.
		if x.gate != nil && nUpd < cfg.MaxUpd && !x.updOut && len(x.r.updateChan) == 0 &&
			len(w.u.Updates) > 0 {

			cs = append(cs, choice{"SendUpd", rng.Intn(len(w.u.Updates)), 0.4})
		}
		var sub *vrSub
		if x.gate != nil {
			cs = append(cs, choice{"rel", -1, 7})
		} else {
			sub = c.liveSub()
			if sub != nil {
				sub.waitArrived(tmo)
				sub.mu.Lock()
				np := len(sub.pending)
				sub.mu.Unlock()
				if np > 0 {
					cs = append(cs, choice{"Ntfn", -1, 6})
				}
			}
			cs = append(cs, choice{"idle", -1, 0.7})
			if len(out.Steps) > cfg.Steps*3/4 {
				cs = append(cs, choice{"Quit", -1, 0.3})
			}
		}
		tot := 0.0
		for _, ch := range cs {
			tot += ch.wt
		}
		r := rng.Float64() * tot
		pick := cs[len(cs)-1]
		for _, ch := range cs {
			if r < ch.wt {
				pick = ch
				break
			}
			r -= ch.wt
		}
		switch pick.kind {
		case "Extend", "AddFH", "Rollback":
			a := vrAct{Op: pick.kind, Res: "ok", B: pick.b}
			if err := x.envAct(&a); err != nil {
				out.Error = err.Error()
				return
			}
			x.step(&out, a)

		case "Emit":
			a := vrAct{Op: "Emit", Res: "conn", B: -1}
			if err := x.emitHeld(&a); err != nil {
				out.Error = err.Error()
				return
			}
			x.step(&out, a)

		case "rel":
			g := x.gate
			rep := vrReply{}
			switch g.at {
			case "CF":
				c.mu.Lock()
				_, on := c.onChain(g.arg)
				c.mu.Unlock()
				if on {
					rep.fail = rng.Float64() < 0.06
				} else {
					rep.fail = !cfg.StaleOK || rng.Float64() < 0.5
				}
			case "Blk":
				rep.fail = rng.Float64() < 0.06
			case "IsCur":
				rep.ans = rng.Float64() < 0.8
			}
			x.release(rep)
			if err := x.settle(true, tmo); err != nil {
				out.Error = "after " + g.at + ": hang\n" + vrDump()
				return
			}
			a := vrAct{Op: g.at, Res: g.res, B: g.arg}
			switch g.at {
			case "Best", "HdrH":
				a.B = g.resB
			case "IsCur":
				a.B = -1
			}
			x.step(&out, a)

		case "Ntfn":
			sub.mu.Lock()
			n := sub.pending[0]
			sub.mu.Unlock()
			hd := n.Header()
			a := vrAct{Op: "Ntfn", Res: "conn", B: w.idOf(hd.BlockHash())}
			if _, ok := n.(*blockntfns.Disconnected); ok {
				a.Res = "disc"
			}
			select {
			case sub.out <- n:
				sub.mu.Lock()
				sub.pending = sub.pending[1:]
				sub.mu.Unlock()
			case g := <-x.c.ev:
				// the timer won; the notification stays queued
				x.gate = g
				x.step(&out, retry)
				continue
			case <-time.After(tmo):
				out.Error = "notification not taken\n" + vrDump()
				return
			}
			if err := x.settle(true, tmo); err != nil {
				out.Error = "after Ntfn: hang\n" + vrDump()
				return
			}
			x.step(&out, a)

		case "idle":
			// give the retry timer (if any) time to fire
			if err := x.settle(false, 130*time.Millisecond); err == nil && x.gate != nil {
				x.step(&out, retry)
			}
			if x.st != 0 {
				// the rescan ended while idle: not a step of the specification
				out.Error = "rescan goroutine ended while idle"
				return
			}

		case "SendUpd":
			u := w.u.Updates[pick.b]
			a := vrAct{Op: "SendUpd", Res: "ok", B: -1, Add: append([]int{}, u.Add...), Rw: u.Rw}
			if err := x.sendUpdate(a); err != nil {
				out.Error = "Update: " + err.Error()
				return
			}
			nUpd++
			x.updOut = true
			x.step(&out, a)

		case "Quit":
			close(x.quit)
			x.quitCl = true
			if err := x.settle(false, tmo); err != nil {
				out.Error = "after Quit: hang\n" + vrDump()
				return
			}
			if x.st == 0 {
				// the timer won the select; the trace ends here
				return
			}
			x.step(&out, vrAct{Op: "Quit", Res: "ok", B: -1})
		}
	}
	return
}

func TestVerifRescanFree(t *testing.T) {
	cf, outFn := os.Getenv("VERIF_FREE"), os.Getenv("VERIF_OUT")
	if cf == "" || outFn == "" {
		t.Skip("VERIF_FREE / VERIF_OUT not set")
	}
	var cfg vrFreeCfg
	if err := json.Unmarshal([]byte(cf), &cfg); err != nil {
		t.Fatal(err)
	}
	ub, err := os.ReadFile(os.Getenv("VERIF_UNIVERSE"))
	if err != nil {
		t.Fatal(err)
	}
	var u vrUniverse
	if err := json.Unmarshal(ub, &u); err != nil {
		t.Fatal(err)
	}
	w, err := vrBuildWorld(&u)
	if err != nil {
		t.Fatal(err)
	}
	results := make([]vrPathOut, cfg.Runs)
	var wg sync.WaitGroup
	jobs := make(chan int)
	for k := 0; k < runtime.NumCPU(); k++ {
		wg.Add(1)
		go func() {
			defer wg.Done()
			for i := range jobs {
				results[i] = vrFreeRun(w, cfg, i)
			}
		}()
	}
	for i := range results {
		jobs <- i
	}
	close(jobs)
	wg.Wait()
	of, err := os.Create(outFn)
	if err != nil {
		t.Fatal(err)
	}
	bw := bufio.NewWriter(of)
	enc := json.NewEncoder(bw)
	for i := range results {
		if err := enc.Encode(&results[i]); err != nil {
			t.Fatal(err)
		}
	}
	bw.Flush()
	of.Close()
}
