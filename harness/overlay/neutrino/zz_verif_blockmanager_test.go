package neutrino

// Replay driver for the BlockManager family (C01, C02, C19). Injected into
// package neutrino with `go test -overlay`. It mines a concrete header tree
// for the abstract universe the TLA+ model explores (custom easy-PoW chain
// parameters with the testnet min-difficulty rule so that valid headers of
// two different work classes exist), runs the REAL block manager handlers on
// REAL headerfs stores, and records after every step what the stores, the
// notification channel and NotificationsSinceHeight answer.

import (
	"bufio"
	"container/list"
	"encoding/json"
	"fmt"
	"io"
	"math/big"
	"os"
	"path/filepath"
	"reflect"
	"runtime"
	"strconv"
	"sync"
	"sync/atomic"
	"testing"
	"time"
	"unsafe"

	"github.com/btcsuite/btcd/blockchain"
	"github.com/btcsuite/btcd/chaincfg/v2"
	"github.com/btcsuite/btcd/chainhash/v2"
	"github.com/btcsuite/btcd/peer"
	"github.com/btcsuite/btcd/wire/v2"
	"github.com/btcsuite/btcwallet/walletdb"
	"github.com/lightninglabs/neutrino/banman"
	"github.com/lightninglabs/neutrino/blockntfns"
	"github.com/lightninglabs/neutrino/headerfs"
	"github.com/lightninglabs/neutrino/headerlist"
)

const (
	vbNF  = -1
	vbG   = -2
	vbERR = -3
)

type vbHeaderSpec struct {
	ID     int    `json:"id"`
	Parent int    `json:"parent"`
	Work   int    `json:"work"`
	Kind   string `json:"kind"`
	Height int    `json:"height"`
	Gap    int    `json:"gap"` // minutes after the parent; 0 = derive from Work (1: 21 min, 2: 10 min)
	Recent *bool  `json:"recent,omitempty"` // false: dated more than 24 h ago (absent = recent)
	// Run > 1: the id stands for a run of that many consecutive real headers
	// (its own header is the last one of the run); 0 / 1 = a single header.
	Run int `json:"run"`
}

type vbUniverse struct {
	Headers     []vbHeaderSpec `json:"headers"`
	Checkpoints map[string]int `json:"checkpoints"`
	NPeers      int            `json:"npeers"`
	MaxBatch    int            `json:"max_batch_len"`
	BaseHours   int            `json:"base_hours_ago"` // age of the genesis header (0 = 12 h)
	AutoWork    bool           `json:"auto_work"`
	Batches     [][]int        `json:"batches"`
	RunGapS     int            `json:"run_gap_s"` // seconds between the headers of a run
	Params      struct {
		RetargetBlocks      int  `json:"retarget_blocks"`
		ReduceMinDifficulty bool `json:"reduce_min_difficulty"`
	} `json:"params"`
}

type vbChain struct {
	u      *vbUniverse
	params chaincfg.Params
	hdr    []*wire.BlockHeader
	hash   []chainhash.Hash
	byHash map[chainhash.Hash]int
	maxH   int
	work   []int64 // blockchain.CalcWork of every header's bits

	// Universes with runs ("long chain" class): the model and the Props count
	// in ids, the stores hold real headers. inner[i] are the run-1 headers
	// that precede hdr[i] in its run (oldest first), realH[i] the real height
	// of hdr[i], rOf[m] the real height of every id of model height m (the
	// same for all of them, checked), first maps the hash of a run's first
	// header to its id.
	long      bool
	run       []int
	inner     [][]*wire.BlockHeader
	innerHash [][]chainhash.Hash
	realH     []int
	rOf       []int
	first     map[chainhash.Hash]int
}

// R: real height of model height m. M: model height of real height r, vbG if
// r lies inside a run (not a height the model knows). MFloor: the greatest
// model height whose real height is <= r (order-preserving, for tips that are
// only compared).
func (c *vbChain) R(m int) int {
	if !c.long {
		return m
	}
	if m < len(c.rOf) {
		return c.rOf[m]
	}
	return c.rOf[len(c.rOf)-1] + m - (len(c.rOf) - 1)
}

func (c *vbChain) MFloor(r int) int {
	if !c.long || r < 0 {
		return r
	}
	last := len(c.rOf) - 1
	if r >= c.rOf[last] {
		return last + r - c.rOf[last]
	}
	m := 0
	for m+1 <= last && c.rOf[m+1] <= r {
		m++
	}
	return m
}

func (c *vbChain) M(r int) int {
	if !c.long || r < 0 {
		return r
	}
	m := c.MFloor(r)
	if c.R(m) != r {
		return vbG
	}
	return m
}

// vbRequiredBits is the harness's own implementation of the difficulty rules
// (retarget every `interval` blocks with the timespan clamped to [T/4, 4T],
// optional testnet minimum-difficulty rule). anc[i] is the ancestor at height i,
// the new header has height len(anc). btcd's CheckBlockHeaderContext is run on
// every generated header afterwards; a disagreement aborts the run.
func vbRequiredBits(p *chaincfg.Params, interval int, anc []*wire.BlockHeader, ts time.Time) uint32 {
	last := anc[len(anc)-1]
	lastH := len(anc) - 1
	if (lastH+1)%interval != 0 {
		if p.ReduceMinDifficulty {
			if ts.Unix() > last.Timestamp.Unix()+int64(p.MinDiffReductionTime/time.Second) {
				return p.PowLimitBits
			}
			i := lastH
			for i >= 0 && i%interval != 0 && anc[i].Bits == p.PowLimitBits {
				i--
			}
			if i < 0 {
				return p.PowLimitBits
			}
			return anc[i].Bits
		}
		return last.Bits
	}
	first := anc[lastH-(interval-1)]
	T := int64(p.TargetTimespan / time.Second)
	actual := last.Timestamp.Unix() - first.Timestamp.Unix()
	if actual < T/p.RetargetAdjustmentFactor {
		actual = T / p.RetargetAdjustmentFactor
	} else if actual > T*p.RetargetAdjustmentFactor {
		actual = T * p.RetargetAdjustmentFactor
	}
	nt := new(big.Int).Mul(blockchain.CompactToBig(last.Bits), big.NewInt(actual))
	nt.Div(nt, big.NewInt(T))
	if nt.Cmp(p.PowLimit) > 0 {
		nt.Set(p.PowLimit)
	}
	return blockchain.BigToCompact(nt)
}

var (
	vbHardBits = uint32(0x203fffff) // half the pow limit target: work class 2
	vbEasyBits = uint32(0x207fffff) // pow limit: work class 1
)

func vbMine(h *wire.BlockHeader, wantValid bool) {
	target := blockchain.CompactToBig(h.Bits)
	for n := uint32(0); ; n++ {
		h.Nonce = n
		hash := h.BlockHash()
		ok := blockchain.HashToBig(&hash).Cmp(target) <= 0
		if ok == wantValid {
			return
		}
	}
}

// sliceCtx is an independent, trivially correct header context (full slice of
// ancestors) used to cross-check the generator against btcd's own rules.
type vbSliceCtx struct {
	chain []*wire.BlockHeader // chain[i] is at height i
	i     int
}

func (c *vbSliceCtx) Height() int32    { return int32(c.i) }
func (c *vbSliceCtx) Bits() uint32     { return c.chain[c.i].Bits }
func (c *vbSliceCtx) Timestamp() int64 { return c.chain[c.i].Timestamp.Unix() }
func (c *vbSliceCtx) Parent() blockchain.HeaderCtx {
	return c.RelativeAncestorCtx(1)
}
func (c *vbSliceCtx) RelativeAncestorCtx(d int32) blockchain.HeaderCtx {
	j := c.i - int(d)
	if j < 0 {
		return nil
	}
	return &vbSliceCtx{chain: c.chain, i: j}
}

func vbBuildChain(u *vbUniverse, now time.Time) (*vbChain, error) {
	c := &vbChain{u: u, byHash: map[chainhash.Hash]int{}}
	p := chaincfg.RegressionNetParams
	p.Name = "verifnet"
	p.Net = wire.BitcoinNet(0x76657266)
	p.PowLimit = new(big.Int).Sub(new(big.Int).Lsh(big.NewInt(1), 255), big.NewInt(1))
	p.PowLimitBits = vbEasyBits
	p.PoWNoRetargeting = false
	p.ReduceMinDifficulty = u.Params.ReduceMinDifficulty
	p.MinDiffReductionTime = 20 * time.Minute
	p.TargetTimePerBlock = 10 * time.Minute
	p.TargetTimespan = time.Duration(u.Params.RetargetBlocks) * p.TargetTimePerBlock
	p.RetargetAdjustmentFactor = 4
	p.BIP0034Height, p.BIP0065Height, p.BIP0066Height = 0, 0, 0
	p.EnforceBIP94 = false
	n := len(u.Headers)
	c.hdr = make([]*wire.BlockHeader, n)
	c.hash = make([]chainhash.Hash, n)
	baseHours := 12
	if u.BaseHours > 0 {
		baseHours = u.BaseHours
	}
	base := now.Add(-time.Duration(baseHours) * time.Hour).Truncate(time.Second)

	// genesis
	gen := *chaincfg.RegressionNetParams.GenesisBlock
	gh := gen.Header
	gh.Version = 4
	gh.Timestamp = base
	gh.Bits = vbHardBits
	vbMine(&gh, true)
	gen.Header = gh
	ghash := gh.BlockHash()
	p.GenesisBlock = &gen
	p.GenesisHash = &ghash
	c.hdr[0] = &gh
	c.hash[0] = ghash
	c.byHash[ghash] = 0

	// full[i]: the real chain from genesis up to and including hdr[i]
	full := make([][]*wire.BlockHeader, n)
	full[0] = []*wire.BlockHeader{&gh}
	c.run = make([]int, n)
	c.inner = make([][]*wire.BlockHeader, n)
	c.innerHash = make([][]chainhash.Hash, n)
	c.realH = make([]int, n)
	c.first = map[chainhash.Hash]int{}
	c.run[0] = 1
	runGap := time.Duration(u.RunGapS) * time.Second
	if runGap == 0 {
		runGap = 5 * time.Second
	}

	// ids are topologically ordered (parent id < child id)
	for i := 1; i < n; i++ {
		s := u.Headers[i]
		if s.ID != i || s.Parent >= i {
			return nil, fmt.Errorf("universe not topologically ordered at %d", i)
		}
		anc := append([]*wire.BlockHeader(nil), full[s.Parent]...)
		c.run[i] = 1
		if s.Run > 1 {
			// the run's inner headers: valid main-chain headers a few seconds
			// apart (never easier than their parent: no 20-minute gap)
			c.run[i] = s.Run
			c.long = true
			for j := 0; j < s.Run-1; j++ {
				prev := anc[len(anc)-1]
				ih := &wire.BlockHeader{Version: 4, PrevBlock: prev.BlockHash()}
				var mr [32]byte
				mr[0], mr[1], mr[2], mr[3] = byte(i), 0xCD, byte(j), byte(j>>8)
				ih.MerkleRoot = mr
				ih.Timestamp = prev.Timestamp.Add(runGap)
				ih.Bits = vbRequiredBits(&p, u.Params.RetargetBlocks, anc, ih.Timestamp)
				vbMine(ih, true)
				c.inner[i] = append(c.inner[i], ih)
				c.innerHash[i] = append(c.innerHash[i], ih.BlockHash())
				anc = append(anc, ih)
			}
			c.first[c.innerHash[i][0]] = i
		}
		c.realH[i] = c.realH[s.Parent] + c.run[i]
		par := anc[len(anc)-1]
		h := &wire.BlockHeader{Version: 4, PrevBlock: par.BlockHash()}
		var mr [32]byte
		mr[0], mr[1] = byte(i), 0xAB
		h.MerkleRoot = mr
		gap := time.Duration(s.Gap) * time.Minute
		if s.Gap == 0 {
			gap = 10 * time.Minute
			if s.Work == 1 {
				gap = 21 * time.Minute
			}
			if s.Run > 1 {
				gap = runGap
			}
		}
		h.Timestamp = par.Timestamp.Add(gap)
		valid := true
		switch s.Kind {
		case "ok", "badpow", "badbits":
		case "badtime":
			// the tightest violation: exactly the median time of the
			// (up to) 11 true ancestors, where "after" is required
			var tss []int64
			for k := len(anc) - 1; k >= 0 && len(tss) < 11; k-- {
				tss = append(tss, anc[k].Timestamp.Unix())
			}
			for a := range tss {
				for b := a + 1; b < len(tss); b++ {
					if tss[b] < tss[a] {
						tss[a], tss[b] = tss[b], tss[a]
					}
				}
			}
			h.Timestamp = time.Unix(tss[len(tss)/2], 0)
		case "future":
			h.Timestamp = now.Add(3 * time.Hour).Truncate(time.Second)
		default:
			return nil, fmt.Errorf("unknown kind %q", s.Kind)
		}
		h.Bits = vbRequiredBits(&p, u.Params.RetargetBlocks, anc, h.Timestamp)
		switch s.Kind {
		case "badpow":
			valid = false
		case "badbits":
			// a difficulty the rules do not ask for at this position:
			// the parent's (a skipped retarget) if that differs
			if par.Bits != h.Bits {
				h.Bits = par.Bits
			} else if h.Bits == vbEasyBits {
				h.Bits = vbHardBits
			} else {
				h.Bits = vbEasyBits
			}
		}
		if !u.AutoWork && s.Kind == "ok" {
			if (s.Work == 1) != (h.Bits == vbEasyBits) || (s.Work == 2) != (h.Bits == vbHardBits) {
				return nil, fmt.Errorf("header %d: universe says work class %d but the rules require bits %08x",
					i, s.Work, h.Bits)
			}
		}
		// the universe's statement about which headers are younger than
		// 24 h (BlockHeadersSynced) must be true of the mined header, with
		// an hour to spare on either side
		wantRecent := s.Recent == nil || *s.Recent
		age := now.Sub(h.Timestamp)
		if s.Kind != "future" && (wantRecent != (age < 24*time.Hour) || (age > 23*time.Hour && age < 25*time.Hour)) {
			return nil, fmt.Errorf("header %d: universe says recent=%v but it is dated %s ago", i, wantRecent, age)
		}
		vbMine(h, valid)
		c.hdr[i] = h
		c.hash[i] = h.BlockHash()
		c.byHash[c.hash[i]] = i
		full[i] = append(anc, h)
		if s.Height > c.maxH {
			c.maxH = s.Height
		}
	}
	if c.long {
		// one real height per model height, and messages carry single headers
		c.rOf = make([]int, c.maxH+1)
		for i := range c.rOf {
			c.rOf[i] = -1
		}
		for i := 0; i < n; i++ {
			m := u.Headers[i].Height
			if c.rOf[m] >= 0 && c.rOf[m] != c.realH[i] {
				return nil, fmt.Errorf("universe with runs: ids of model height %d have different real heights", m)
			}
			c.rOf[m] = c.realH[i]
		}
		for _, b := range u.Batches {
			for _, id := range b {
				if c.run[id] > 1 {
					return nil, fmt.Errorf("universe with runs: batch %v carries the run id %d", b, id)
				}
			}
		}
	}
	for hs, id := range u.Checkpoints {
		var ht int
		fmt.Sscanf(hs, "%d", &ht)
		hh := c.hash[id]
		p.Checkpoints = append(p.Checkpoints, chaincfg.Checkpoint{Height: int32(ht), Hash: &hh})
	}
	// checkpoints must be sorted by height
	for i := range p.Checkpoints {
		for j := i + 1; j < len(p.Checkpoints); j++ {
			if p.Checkpoints[j].Height < p.Checkpoints[i].Height {
				p.Checkpoints[i], p.Checkpoints[j] = p.Checkpoints[j], p.Checkpoints[i]
			}
		}
	}
	c.params = p
	c.work = make([]int64, n)
	for i := 0; i < n; i++ {
		c.work[i] = blockchain.CalcWork(c.hdr[i].Bits).Int64()
	}

	// cross-check every header against btcd's rules with a full-slice context
	cctx := newLightChainCtx(&c.params, int32(u.Params.RetargetBlocks),
		int64(p.TargetTimespan/time.Second)/p.RetargetAdjustmentFactor,
		int64(p.TargetTimespan/time.Second)*p.RetargetAdjustmentFactor)
	ts := blockchain.NewMedianTime()
	for i := 1; i < n; i++ {
		chain := full[i]
		// the inner headers of a run first (all valid), then the id's own header
		for k := len(chain) - c.run[i]; k < len(chain); k++ {
			pc := &vbSliceCtx{chain: chain, i: k - 1}
			err := blockchain.CheckBlockHeaderContext(chain[k], pc, 0, cctx, true)
			if err == nil {
				err = blockchain.CheckBlockHeaderSanity(chain[k], c.params.PowLimit, ts, 0)
			}
			want := k < len(chain)-1 || u.Headers[i].Kind == "ok"
			if (err == nil) != want {
				return nil, fmt.Errorf("generator/oracle disagreement on header %d (%s; header %d of its run): %v",
					i, u.Headers[i].Kind, k-(len(chain)-c.run[i]), err)
			}
		}
	}
	return c, nil
}

type vbAct struct {
	Op    string `json:"op"`
	P     int    `json:"p"`
	Batch []int  `json:"batch"`
	K     int    `json:"k"`
	Res   string `json:"res"`
	// NF = 1: NewPeer of a peer that does not advertise SFNodeNetwork (not a
	// sync candidate); absent in older replay files = 0 = full node.
	NF int `json:"nf"`
}

type vbStoreObs struct {
	Tip    []int `json:"tip"`
	ByH    []int `json:"byH"`
	HOf    []int `json:"hOf,omitempty"`
	ByHash []int `json:"byHash,omitempty"`
}

type vbFObs struct {
	Tip []int `json:"tip"`
	ByH []int `json:"byH"`
}

type vbObs struct {
	B    vbStoreObs `json:"b"`
	F    vbFObs     `json:"f"`
	Ev   [][]int    `json:"ev"`
	Bl   [][]int    `json:"bl"`
	// Gh[i]: the getheaders request pushed to peer i+1 by the last step: empty
	// (none) or {first locator hash, stop hash} as header ids (-1 = zero hash)
	Gh [][]int `json:"gh"`
	Sync int        `json:"sync"`
	Cur  int        `json:"cur"`
	Disc []int      `json:"disc"`
}

type vbStepIn struct {
	Act vbAct `json:"act"`
}
type vbPathIn struct {
	ID   int `json:"id"`
	Init struct {
		BFile []int `json:"bfile"`
		FFile []int `json:"ffile"`
	} `json:"init"`
	Steps []vbStepIn `json:"steps"`
	// ListCap: capacity of the in-memory header list for this path (0: the
	// code's own 10000); absent in generated paths, present in replay files.
	ListCap *int `json:"list_cap,omitempty"`
}

// vbListCaps are the capacity classes of the block manager's bounded in-memory
// header list (headerlist.BoundedMemoryChain). The list is a cache of the
// store's tail: nothing the property observes may depend on its size, so the
// model has no such parameter and every path is run with one of these: the
// code's own 10000, and L+1 / L+2 slots where L is the longest headers message
// of the universe. The ring then wraps from one message to the next, and
// context lookups (median time, retarget ancestors, fork points) fall through
// to the store after a few headers. Fewer than L+1 slots would not be a
// scaled-down client but a different one: headers of the message being
// validated live only in this list until the batch is written (the code keeps
// 10000 slots for at most 2000 headers per message).
func vbListCap(u *vbUniverse, id int) int {
	switch id % 3 {
	case 1:
		return u.MaxBatch + 1
	case 2:
		return u.MaxBatch + 2
	}
	return 0
}

// vbFaultStore lets one batch write of the block manager fail the way a full
// disk would. The single-header write of a reorganisation (always preceded by
// rollbacks in the same message) is let through; the model injects the fault
// into the final batch write only.
type vbFaultStore struct {
	headerfs.BlockHeaderStore
	armed       bool
	sawRollback bool
	crash       *vbCrashPlan
	rb          *vbRollbackFault
	rd          *vbReadFault
}

// vbReadFault makes the fail-th FetchHeader / FetchHeaderAncestors call the
// block manager makes on the block-header store during the current step
// return an I/O error (0 = none). Only these two are counted: the observer of
// the notification channel asks for backlogs while the step is still running
// and those go through FetchHeaderByHeight.
type vbReadFault struct {
	mu      sync.Mutex
	fail, n int
	fired   bool
}

func (f *vbReadFault) arm(fail int) {
	f.mu.Lock()
	f.fail, f.n, f.fired = fail, 0, false
	f.mu.Unlock()
}

func (f *vbReadFault) call() error {
	if f == nil {
		return nil
	}
	f.mu.Lock()
	defer f.mu.Unlock()
	if f.fail == 0 {
		return nil
	}
	f.n++
	if f.n == f.fail {
		f.fired = true
		return fmt.Errorf("verif: injected failure of block-store read call %d", f.n)
	}
	return nil
}

func (s *vbFaultStore) FetchHeader(h *chainhash.Hash) (*wire.BlockHeader, uint32, error) {
	if err := s.rd.call(); err != nil {
		return nil, 0, err
	}
	return s.BlockHeaderStore.FetchHeader(h)
}

func (s *vbFaultStore) FetchHeaderAncestors(n uint32, stop *chainhash.Hash) ([]wire.BlockHeader, uint32, error) {
	if err := s.rd.call(); err != nil {
		return nil, 0, err
	}
	return s.BlockHeaderStore.FetchHeaderAncestors(n, stop)
}

// vbRollbackFault makes the k-th RollbackLastBlock call of the current headers
// message on the block-header store (failB) or on the filter-header store
// (failF) return an I/O error without touching the store; 0 = none. nB / nF
// count the calls of this message, fired says the error was delivered.
type vbRollbackFault struct {
	failB, failF int
	nB, nF       int
	fired        bool
}

func (f *vbRollbackFault) arm(failB, failF int) {
	*f = vbRollbackFault{failB: failB, failF: failF}
}

func (f *vbRollbackFault) blockCall() error {
	if f == nil {
		return nil
	}
	f.nB++
	if f.failB != 0 && f.nB == f.failB {
		f.fired = true
		return fmt.Errorf("verif: injected failure of block-store rollback call %d", f.nB)
	}
	return nil
}

func (f *vbRollbackFault) filterCall() error {
	if f == nil {
		return nil
	}
	f.nF++
	if f.failF != 0 && f.nF == f.failF {
		f.fired = true
		return fmt.Errorf("verif: injected failure of filter-store rollback call %d", f.nF)
	}
	return nil
}

// vbCrashPlan kills the process (panic, recovered by the driver, the block
// manager is then discarded) when store mutation number budget+1 of the
// current message is about to start: a crash BETWEEN two store calls.
type vbCrashPlan struct {
	armed  bool
	budget int
	fired  bool
}

type vbCrashed struct{}

func (c *vbCrashPlan) mutation() {
	if c == nil || !c.armed {
		return
	}
	if c.budget == 0 {
		c.fired = true
		c.armed = false
		panic(vbCrashed{})
	}
	c.budget--
}

type vbFaultFStore struct {
	headerfs.FilterHeaderStore
	crash *vbCrashPlan
	rb    *vbRollbackFault
}

func (s *vbFaultFStore) WriteHeaders(hdrs ...headerfs.FilterHeader) error {
	if len(hdrs) > 0 {
		s.crash.mutation()
	}
	return s.FilterHeaderStore.WriteHeaders(hdrs...)
}

func (s *vbFaultFStore) RollbackLastBlock(newTip *chainhash.Hash) (*headerfs.BlockStamp, error) {
	if err := s.rb.filterCall(); err != nil {
		return nil, err
	}
	s.crash.mutation()
	return s.FilterHeaderStore.RollbackLastBlock(newTip)
}

func (s *vbFaultStore) RollbackBlockHeaders(n uint32) (*headerfs.BlockStamp, error) {
	s.crash.mutation()
	return s.BlockHeaderStore.RollbackBlockHeaders(n)
}

func (s *vbFaultStore) RollbackLastBlock() (*headerfs.BlockStamp, error) {
	if err := s.rb.blockCall(); err != nil {
		return nil, err
	}
	s.crash.mutation()
	s.sawRollback = true
	return s.BlockHeaderStore.RollbackLastBlock()
}

func (s *vbFaultStore) WriteHeaders(hdrs ...headerfs.BlockHeader) error {
	if len(hdrs) > 0 {
		s.crash.mutation()
	}
	if s.sawRollback {
		s.sawRollback = false
		return s.BlockHeaderStore.WriteHeaders(hdrs...)
	}
	if s.armed && len(hdrs) > 0 {
		s.armed = false
		return fmt.Errorf("verif: injected write failure")
	}
	return s.BlockHeaderStore.WriteHeaders(hdrs...)
}
type vbStepOut struct {
	Act  vbAct  `json:"act"`
	Obs  vbObs  `json:"obs"`
	Note string `json:"note,omitempty"`
	Dump string `json:"dump,omitempty"`
}
type vbPathOut struct {
	ID      int         `json:"id"`
	InitObs vbObs       `json:"init_obs"`
	Steps   []vbStepOut `json:"steps"`
	Error   string      `json:"error,omitempty"`
	ListCap int         `json:"list_cap"`
}

type vbEnv struct {
	listCap int
	c     *vbChain
	dir   string
	db    walletdb.DB
	bs    headerfs.BlockHeaderStore
	fst   *vbFaultStore
	ffst  *vbFaultFStore
	crash *vbCrashPlan
	rb    *vbRollbackFault
	rd    *vbReadFault
	fs    headerfs.FilterHeaderStore
	bm    *blockManager
	cands *list.List
	peers []*ServerPeer
	// gone[i]: the peer objects that were connected as peer i+1 of this manager
	// and have left (DonePeer): a sync peer that is one of them is reported as
	// 100+i+1, so that it can never be mistaken for the peer now in that slot
	gone [][]*ServerPeer
	fhCache map[int]chainhash.Hash // true chained filter header per block id
	runFHCache map[int][]chainhash.Hash
	fhID    map[chainhash.Hash]int
	hmax    int
	flush   chan chan struct{}

	evMu   sync.Mutex
	ev     [][]int
	evStop chan struct{}
	evDone chan struct{}
}

func vbSetField(obj interface{}, name string, val int64) {
	v := reflect.ValueOf(obj).Elem().FieldByName(name)
	reflect.NewAt(v.Type(), unsafe.Pointer(v.UnsafeAddr())).Elem().SetInt(val)
}

func vbSetUintField(obj interface{}, name string, val uint64) {
	v := reflect.ValueOf(obj).Elem().FieldByName(name)
	reflect.NewAt(v.Type(), unsafe.Pointer(v.UnsafeAddr())).Elem().SetUint(val)
}

func vbGetIntField(obj interface{}, name string) int64 {
	return reflect.ValueOf(obj).Elem().FieldByName(name).Int()
}

// filter header of block id: a deterministic fake "filter hash" chained the
// way BIP157 chains them; only used through writeCFHeadersMsg.
func vbFilterHash(id int) chainhash.Hash {
	return chainhash.DoubleHashH([]byte(fmt.Sprintf("verif-filter-%d", id)))
}

func (e *vbEnv) openStores() error {
	db, err := walletdb.Open("bdb", filepath.Join(e.dir, "neutrino.db"), true, 10*time.Second, false)
	if err != nil {
		return err
	}
	e.db = db
	e.bs, err = headerfs.NewBlockHeaderStore(e.dir, db, &e.c.params)
	if err != nil {
		return fmt.Errorf("block store: %w", err)
	}
	e.fs, err = headerfs.NewFilterHeaderStore(e.dir, db, headerfs.RegularFilter, &e.c.params, nil)
	if err != nil {
		return fmt.Errorf("filter store: %w", err)
	}
	return nil
}

func (e *vbEnv) reopenStores() error {
	vbCloseStoreFile(e.bs)
	vbCloseStoreFile(e.fs)
	var err error
	e.bs, err = headerfs.NewBlockHeaderStore(e.dir, e.db, &e.c.params)
	if err != nil {
		return fmt.Errorf("block store: %w", err)
	}
	e.fs, err = headerfs.NewFilterHeaderStore(e.dir, e.db, headerfs.RegularFilter, &e.c.params, nil)
	if err != nil {
		return fmt.Errorf("filter store: %w", err)
	}
	return nil
}

func (e *vbEnv) startManager() error {
	e.crash = &vbCrashPlan{}
	e.rb = &vbRollbackFault{}
	e.rd = &vbReadFault{}
	e.fst = &vbFaultStore{BlockHeaderStore: e.bs, crash: e.crash, rb: e.rb, rd: e.rd}
	e.ffst = &vbFaultFStore{FilterHeaderStore: e.fs, crash: e.crash, rb: e.rb}
	bm, err := newBlockManager(&blockManagerCfg{
		ChainParams:      e.c.params,
		BlockHeaders:     e.fst,
		RegFilterHeaders: e.ffst,
		QueryDispatcher:  nil,
		TimeSource:       blockchain.NewMedianTime(),
		BanPeer:          func(string, banman.Reason) error { return nil },
	})
	if err != nil {
		return err
	}
	if e.listCap > 0 {
		back := *bm.headerList.Back()
		bm.headerList = headerlist.NewBoundedMemoryChain(uint32(e.listCap))
		bm.headerList.ResetHeaderState(headerlist.Node{Header: back.Header, Height: back.Height})
	}
	e.bm = bm
	e.cands = list.New()
	e.peers = make([]*ServerPeer, e.c.u.NPeers)
	e.gone = make([][]*ServerPeer, e.c.u.NPeers)
	e.evStop = make(chan struct{})
	e.evDone = make(chan struct{})
	e.flush = make(chan chan struct{})
	go func(bm *blockManager, stop, done chan struct{}) {
		defer close(done)
		for {
			select {
			case ack := <-e.flush:
				close(ack)
			case n := <-bm.blockNtfnChan:
				_, fh, ferr := e.fs.ChainTip()
				seen := int(fh)
				if ferr != nil {
					seen = vbERR
				}
				// what a subscriber registering right now would be
				// given as the upper end of its backlog
				_, bestNow, berr := bm.NotificationsSinceHeight(0)
				best := int(bestNow)
				if berr != nil {
					best = vbERR
				}
				// ... and a subscriber registering right now from a non-zero
				// height below the tip (the subscription handler asks on the
				// goroutine that takes the events, like this observer): the
				// request must be answered while the batch / the rollback is
				// still being announced. During a rollback the range may be
				// changing under the read, so only the return is needed there.
				if berr == nil && bestNow >= 2 {
					_, _, nerr := bm.NotificationsSinceHeight(bestNow - 1)
					if _, isConn := n.(*blockntfns.Connected); isConn && nerr != nil {
						best = vbERR
					}
				}
				var rec []int
				switch m := n.(type) {
				case *blockntfns.Connected:
					hd := m.Header()
					rec = []int{1, e.idOf(&hd), e.c.M(int(m.Height())), -1, e.c.MFloor(seen), e.c.MFloor(best)}
				case *blockntfns.Disconnected:
					hd := m.Header()
					nt := m.ChainTip()
					rec = []int{2, e.idOf(&hd), e.c.M(int(m.Height())), e.idOf(&nt), -1, -1}
				}
				e.evMu.Lock()
				e.ev = append(e.ev, rec)
				e.evMu.Unlock()
			case <-stop:
				return
			}
		}
	}(bm, e.evStop, e.evDone)
	return nil
}

func (e *vbEnv) stopManager() {
	if e.evStop != nil {
		close(e.evStop)
		<-e.evDone
		e.evStop = nil
	}
	e.bm = nil
}

// vbCloseStoreFile closes the flat file of a headerfs store (the stores have
// no Close method; a process would simply exit).
func vbCloseStoreFile(store interface{}) {
	defer func() { _ = recover() }()
	v := reflect.ValueOf(store).Elem().Field(0).Elem().FieldByName("headerFile").Elem().FieldByName("file")
	f := reflect.NewAt(v.Type(), unsafe.Pointer(v.UnsafeAddr())).Elem().Interface()
	if c, ok := f.(io.Closer); ok {
		c.Close()
	}
}

func (e *vbEnv) closeStores() {
	if e.bs != nil {
		vbCloseStoreFile(e.bs)
		e.bs = nil
	}
	if e.fs != nil {
		vbCloseStoreFile(e.fs)
		e.fs = nil
	}
	if e.db != nil {
		e.db.Close()
		e.db = nil
	}
}

// The getheaders requests of the block manager go through
// peer.PushGetHeadersMsg, which remembers the last request (first locator hash
// and stop hash) in the peer object to drop exact repetitions, and queues the
// message (dropped here: the fake peers have no connection). The driver clears
// that memory before every step and reads it afterwards: what the step asked
// this peer for last, repetitions of an earlier step's request included.
func vbPrevGetHdrs(p *peer.Peer, name string) **chainhash.Hash {
	v := reflect.ValueOf(p).Elem().FieldByName(name)
	return (**chainhash.Hash)(unsafe.Pointer(v.UnsafeAddr()))
}

func (e *vbEnv) clearGetHeaders() {
	for _, sp := range e.peers {
		if sp != nil {
			*vbPrevGetHdrs(sp.Peer, "prevGetHdrsBegin") = nil
			*vbPrevGetHdrs(sp.Peer, "prevGetHdrsStop") = nil
		}
	}
}

func (e *vbEnv) hashID(h *chainhash.Hash) int {
	if h == nil || *h == (chainhash.Hash{}) {
		return vbNF
	}
	if id, ok := e.c.byHash[*h]; ok {
		return id
	}
	return vbG
}

func (e *vbEnv) getHeadersObs() [][]int {
	out := make([][]int, len(e.peers))
	for i, sp := range e.peers {
		out[i] = []int{}
		if sp == nil {
			continue
		}
		begin := *vbPrevGetHdrs(sp.Peer, "prevGetHdrsBegin")
		stop := *vbPrevGetHdrs(sp.Peer, "prevGetHdrsStop")
		if begin != nil || stop != nil {
			out[i] = []int{e.hashID(begin), e.hashID(stop)}
		}
	}
	return out
}

func (e *vbEnv) idOf(h *wire.BlockHeader) int {
	if id, ok := e.c.byHash[h.BlockHash()]; ok {
		return id
	}
	return vbG
}

func (e *vbEnv) observe() vbObs {
	var o vbObs
	n := len(e.c.hdr)
	tip, th, err := e.bs.ChainTip()
	if err != nil {
		o.B.Tip = []int{vbERR, vbERR}
	} else {
		o.B.Tip = []int{e.idOf(tip), e.c.M(int(th))}
	}
	// heights: the model's (in ids); with runs the store is read at the real
	// height of each model height and real heights read back are translated
	// (a real height inside a run = vbG)
	o.B.ByH = make([]int, e.hmax)
	for h := 0; h < e.hmax; h++ {
		hd, err := e.bs.FetchHeaderByHeight(uint32(e.c.R(h)))
		if err != nil {
			o.B.ByH[h] = vbNF
		} else {
			o.B.ByH[h] = e.idOf(hd)
		}
	}
	o.B.HOf = make([]int, n)
	o.B.ByHash = make([]int, n)
	for i := 0; i < n; i++ {
		// FetchHeader = index lookup + file read; when it succeeds it
		// also tells the indexed height (one bbolt lookup instead of two)
		hd, ht, err := e.bs.FetchHeader(&e.c.hash[i])
		if err == nil {
			o.B.ByHash[i] = e.idOf(hd)
			o.B.HOf[i] = e.c.M(int(ht))
			continue
		}
		o.B.ByHash[i] = vbNF
		ht, err = e.bs.HeightFromHash(&e.c.hash[i])
		if err != nil {
			o.B.HOf[i] = vbNF
		} else {
			o.B.HOf[i] = e.c.M(int(ht))
		}
	}
	// filter store: identity of a filter header = the block id whose true
	// chained filter header it is
	ft, fth, ferr := e.fs.ChainTip()
	if ferr != nil {
		o.F.Tip = []int{vbERR, vbERR}
	} else {
		o.F.Tip = []int{e.fhIDOf(ft), e.c.M(int(fth))}
	}
	o.F.ByH = make([]int, e.hmax)
	for h := 0; h < e.hmax; h++ {
		fh, err := e.fs.FetchHeaderByHeight(uint32(e.c.R(h)))
		if err != nil {
			o.F.ByH[h] = vbNF
		} else {
			o.F.ByH[h] = e.fhIDOf(fh)
		}
	}
	// every send of the handler has been received (the channel is
	// unbuffered); wait until the receiver has also recorded them
	ack := make(chan struct{})
	e.flush <- ack
	<-ack
	e.evMu.Lock()
	o.Ev = e.ev
	e.ev = nil
	e.evMu.Unlock()
	if o.Ev == nil {
		o.Ev = [][]int{}
	}
	o.Bl = make([][]int, e.hmax-1)
	for k := 1; k <= e.hmax-1; k++ {
		ntfns, _, err := e.bm.NotificationsSinceHeight(uint32(e.c.R(k)))
		if err != nil {
			o.Bl[k-1] = []int{vbERR}
			continue
		}
		if e.c.long {
			o.Bl[k-1] = e.foldBacklog(ntfns)
			continue
		}
		ids := make([]int, 0, len(ntfns))
		for _, x := range ntfns {
			hd := x.Header()
			ids = append(ids, e.idOf(&hd))
		}
		o.Bl[k-1] = ids
	}
	// the sync peer the client reports: 0 none, i = the peer now connected as
	// peer i, 100+i = a peer object that was peer i and has left, vbG = unknown
	if sp := e.bm.SyncPeer(); sp != nil {
		o.Sync = vbG
		for i, gs := range e.gone {
			for _, p := range gs {
				if p == sp {
					o.Sync = 100 + i + 1
				}
			}
		}
		for i, p := range e.peers {
			if p != nil && p == sp {
				o.Sync = i + 1
			}
		}
	}
	if e.bm.BlockHeadersSynced() {
		o.Cur = 1
	}
	o.Gh = e.getHeadersObs()
	o.Disc = make([]int, len(e.peers))
	for i, p := range e.peers {
		if p != nil && vbGetIntField(p.Peer, "disconnect") != 0 {
			o.Disc[i] = 1
		}
	}
	return o
}

// foldBacklog turns a backlog of real blocks into the model's ids: a single
// header is its id; the headers of a run fold into the run's id only if ALL of
// them are there, in the run's order, one after the other; anything else (a
// header of a run without its neighbours, a header twice, an unknown one) is
// vbG, one entry per block (at most three in a row are kept: the verdict only
// needs the backlog to differ from the committed ids, the trace stays small).
func (e *vbEnv) foldBacklog(ntfns []blockntfns.BlockNtfn) []int {
	c := e.c
	hashes := make([]chainhash.Hash, len(ntfns))
	for j, x := range ntfns {
		hd := x.Header()
		hashes[j] = hd.BlockHash()
	}
	ids := make([]int, 0, 16)
	garbage := 0
	for j := 0; j < len(hashes); {
		if id, ok := c.byHash[hashes[j]]; ok && c.run[id] == 1 {
			ids = append(ids, id)
			garbage = 0
			j++
			continue
		}
		if id, ok := c.first[hashes[j]]; ok && j+c.run[id] <= len(hashes) {
			r := c.run[id]
			whole := hashes[j+r-1] == c.hash[id]
			for k := 1; whole && k < r-1; k++ {
				whole = hashes[j+k] == c.innerHash[id][k]
			}
			if whole {
				ids = append(ids, id)
				garbage = 0
				j += r
				continue
			}
		}
		if garbage < 3 {
			ids = append(ids, vbG)
		}
		garbage++
		j++
	}
	return ids
}

// runFH: the true chained filter headers of the real headers id stands for
// (the run's inner headers, then its own).
func (e *vbEnv) runFH(id int) []chainhash.Hash {
	if fhs, ok := e.runFHCache[id]; ok {
		return fhs
	}
	prev := e.trueFH(e.c.u.Headers[id].Parent)
	r := e.c.run[id]
	out := make([]chainhash.Hash, 0, r)
	for j := 0; j < r; j++ {
		fhash := vbFilterHash(id)
		if j < r-1 {
			fhash = chainhash.DoubleHashH([]byte(fmt.Sprintf("verif-filter-%d-inner-%d", id, j)))
		}
		prev = chainhash.DoubleHashH(append(fhash[:], prev[:]...))
		out = append(out, prev)
	}
	if e.runFHCache == nil {
		e.runFHCache = map[int][]chainhash.Hash{}
	}
	e.runFHCache[id] = out
	return out
}

// expand: the store entries for the ids, written above real height `after`.
func (e *vbEnv) expand(ids []int, after uint32) ([]headerfs.BlockHeader, []headerfs.FilterHeader) {
	var hs []headerfs.BlockHeader
	var fhs []headerfs.FilterHeader
	h := after
	for _, id := range ids {
		if e.c.run[id] > 1 {
			rf := e.runFH(id)
			for j, ih := range e.c.inner[id] {
				h++
				hs = append(hs, headerfs.BlockHeader{BlockHeader: ih, Height: h})
				fhs = append(fhs, headerfs.FilterHeader{HeaderHash: e.c.innerHash[id][j], FilterHash: rf[j], Height: h})
			}
		}
		h++
		hs = append(hs, headerfs.BlockHeader{BlockHeader: e.c.hdr[id], Height: h})
		fhs = append(fhs, headerfs.FilterHeader{HeaderHash: e.c.hash[id], FilterHash: e.trueFH(id), Height: h})
	}
	return hs, fhs
}

// The filter header written for a block is derived by the code under test
// from PrevFilterHeader and the filter hash; identify it by recomputing the
// true chain along the block's ancestry.
func (e *vbEnv) trueFH(id int) chainhash.Hash {
	if fh, ok := e.fhCache[id]; ok {
		return fh
	}
	var out chainhash.Hash
	if id == 0 {
		g, err := e.fs.FetchHeaderByHeight(0)
		if err != nil {
			panic(err)
		}
		out = *g
	} else if e.c.run[id] > 1 {
		rf := e.runFH(id)
		out = rf[len(rf)-1]
	} else {
		prev := e.trueFH(e.c.u.Headers[id].Parent)
		fhash := vbFilterHash(id)
		out = chainhash.DoubleHashH(append(fhash[:], prev[:]...))
	}
	e.fhCache[id] = out
	e.fhID[out] = id
	return out
}

func (e *vbEnv) fhIDOf(h *chainhash.Hash) int {
	for i := range e.c.hdr {
		e.trueFH(i)
	}
	if id, ok := e.fhID[*h]; ok {
		return id
	}
	return vbG
}

// vbHangs counts steps that did not return within vbStepBound. After a few of
// them the remaining paths are skipped (a handler that spins keeps its CPU).
var vbHangs int32

const vbMaxHangs = 4

func vbStepBound() time.Duration {
	if v, err := strconv.Atoi(os.Getenv("VERIF_STEP_BOUND_S")); err == nil && v > 0 {
		return time.Duration(v) * time.Second
	}
	return 30 * time.Second
}

// execBounded runs one step on its own goroutine: a handler of the block
// manager that never returns (e.g. a cycle in the in-memory header list) must
// not hang the check. hung = the step did not return in time; the
// environment is then abandoned, never touched again.
func (e *vbEnv) execBounded(a vbAct) (out vbAct, hung bool) {
	done := make(chan vbAct, 1)
	go func() { done <- e.exec(a) }()
	select {
	case out = <-done:
		return out, false
	case <-time.After(vbStepBound()):
		out = a
		out.Res = "hang"
		return out, true
	}
}

func (e *vbEnv) exec(a vbAct) (out vbAct) {
	out = a
	out.Res = "ok"
	defer func() {
		if r := recover(); r != nil {
			if _, ok := r.(vbCrashed); ok {
				out.Res = "crash"
				return
			}
			out.Res = "panic"
		}
	}()
	e.clearGetHeaders()
	switch a.Op {
	case "NewPeer":
		p, err := peer.NewOutboundPeer(&peer.Config{}, fmt.Sprintf("10.0.0.%d:18555", a.P))
		if err != nil {
			panic(err)
		}
		vbSetField(p, "startingHeight", int64(e.c.R(a.K)))
		vbSetField(p, "lastBlock", int64(e.c.R(a.K)))
		svc := wire.SFNodeNetwork | wire.SFNodeWitness | wire.SFNodeCF
		if a.NF == 1 {
			// not a full node: isSyncCandidate turns it down
			svc = wire.SFNodeWitness | wire.SFNodeCF
		}
		vbSetUintField(p, "services", uint64(svc))
		sp := &ServerPeer{Peer: p}
		e.peers[a.P-1] = sp
		e.bm.handleNewPeerMsg(e.cands, sp)
	case "DonePeer":
		sp := e.peers[a.P-1]
		e.bm.handleDonePeerMsg(e.cands, sp)
		e.gone[a.P-1] = append(e.gone[a.P-1], sp)
		e.peers[a.P-1] = nil
	case "Inv":
		inv := wire.NewMsgInv()
		h := e.c.hash[a.Batch[0]]
		inv.AddInvVect(wire.NewInvVect(wire.InvTypeBlock, &h))
		e.bm.handleInvMsg(&invMsg{inv: inv, peer: e.peers[a.P-1]})
	case "Headers":
		m := wire.NewMsgHeaders()
		for _, id := range a.Batch {
			m.Headers = append(m.Headers, e.c.hdr[id])
		}
		e.fst.armed = a.K == 1
		e.fst.sawRollback = false
		if a.K >= 10 && a.K < 20 {
			e.crash.armed, e.crash.budget, e.crash.fired = true, a.K-10, false
		}
		// 20+j / 30+j: the j-th rollback call of this message on the block /
		// filter store fails
		switch {
		case a.K > 20 && a.K < 30:
			e.rb.arm(a.K-20, 0)
		case a.K > 30 && a.K < 40:
			e.rb.arm(0, a.K-30)
		default:
			e.rb.arm(0, 0)
		}
		defer func() {
			e.crash.armed = false
			e.fst.armed = false
			if a.K >= 20 && !e.rb.fired {
				// the code never made the call that was to fail: no store
				// call failed in this step, it is an ordinary one
				out.K = 0
			}
			e.rb.arm(0, 0)
		}()
		e.bm.handleHeadersMsg(&headersMsg{headers: m, peer: e.peers[a.P-1]})
	case "WriteCF":
		ft, fth, err := e.fs.ChainTip()
		if err != nil {
			out.Res = "err"
			return
		}
		msg := &wire.MsgCFHeaders{FilterType: wire.GCSFilterRegular, PrevFilterHeader: *ft}
		var stop chainhash.Hash
		for j := 1; j <= a.K; j++ {
			hd, err := e.bs.FetchHeaderByHeight(fth + uint32(j))
			if err != nil {
				out.Res = "err"
				return
			}
			id := e.idOf(hd)
			if id < 0 {
				out.Res = "err"
				return
			}
			fh := vbFilterHash(id)
			msg.FilterHashes = append(msg.FilterHashes, &fh)
			stop = hd.BlockHash()
		}
		msg.StopHash = stop
		// P = 40+j: the j-th FetchHeader / FetchHeaderAncestors call of this
		// step on the block-header store fails, if the step makes it
		if a.P > 40 {
			e.rd.arm(a.P - 40)
			defer e.rd.arm(0)
		}
		if _, _, err := e.bm.writeCFHeadersMsg(msg, e.ffst); err != nil {
			out.Res = "err"
		}
	case "ImportReset":
		// headers imported from outside the block manager, then the
		// manager is told to re-read its state (ChainService.Start)
		_, th, err := e.bs.ChainTip()
		if err != nil {
			out.Res = "err"
			return
		}
		hs, fhs := e.expand(a.Batch, th)
		if err := e.bs.WriteHeaders(hs...); err != nil {
			out.Res = "err"
			return
		}
		if err := e.fs.WriteHeaders(fhs...); err != nil {
			out.Res = "err"
			return
		}
		if err := e.bm.ResetHeaderState(); err != nil {
			out.Res = "err"
		}
	case "Recover":
		// restart after a crash: the dead manager is dropped, stores are
		// opened anew on the files as they are
		e.stopManager()
		if err := e.reopenStores(); err != nil {
			out.Res = "err"
			return
		}
		if err := e.startManager(); err != nil {
			out.Res = "err"
		}
	case "Restart":
		// new store objects and a new block manager on the persisted
		// files; the bbolt handle stays open (reopening it costs more
		// than a whole path and bbolt itself is not under test here)
		e.stopManager()
		if err := e.reopenStores(); err != nil {
			out.Res = "err"
			return
		}
		if err := e.startManager(); err != nil {
			out.Res = "err"
		}
	default:
		panic("unknown op " + a.Op)
	}
	return
}

func vbCopyFile(src, dst string) error {
	in, err := os.Open(src)
	if err != nil {
		return err
	}
	defer in.Close()
	o, err := os.Create(dst)
	if err != nil {
		return err
	}
	if _, err := io.Copy(o, in); err != nil {
		o.Close()
		return err
	}
	return o.Close()
}

// vbWorker keeps one store directory and one open database per worker: bbolt
// rebuilds its free list on every open (the index has 65 536 sub-buckets), which
// costs far more than a whole path. Between paths the stores are rolled back to
// genesis through their own API; only if that fails (a path that ended in a
// broken store) is the directory cloned afresh.
type vbWorker struct {
	c       *vbChain
	tmpl    string
	scratch string
	e       *vbEnv
}

func (w *vbWorker) fresh() error {
	if w.e != nil {
		w.e.stopManager()
		w.e.closeStores()
		os.RemoveAll(w.e.dir)
		w.e = nil
	}
	dir, err := os.MkdirTemp(w.scratch, "bm")
	if err != nil {
		return err
	}
	for _, fn := range []string{"neutrino.db", "block_headers.bin", "reg_filter_headers.bin"} {
		if err := vbCopyFile(filepath.Join(w.tmpl, fn), filepath.Join(dir, fn)); err != nil {
			return err
		}
	}
	e := &vbEnv{c: w.c, dir: dir, hmax: w.c.maxH + 2, fhID: map[chainhash.Hash]int{},
		fhCache: map[int]chainhash.Hash{}}
	if err := e.openStores(); err != nil {
		return err
	}
	w.e = e
	return nil
}

// reset brings the worker's stores back to genesis; returns false if they
// must be re-created.
func (w *vbWorker) reset() (ok bool) {
	e := w.e
	if e == nil || e.db == nil || e.bs == nil || e.fs == nil {
		return false
	}
	if w.c.long {
		// thousands of filter headers to take back one at a time: a fresh
		// copy of the template is cheaper
		return false
	}
	defer func() {
		if r := recover(); r != nil {
			ok = false
		}
	}()
	e.stopManager()
	for {
		_, fh, err := e.fs.ChainTip()
		if err != nil {
			return false
		}
		if fh == 0 {
			break
		}
		bh, err := e.bs.FetchHeaderByHeight(fh - 1)
		if err != nil {
			return false
		}
		nt := bh.BlockHash()
		if _, err := e.fs.RollbackLastBlock(&nt); err != nil {
			return false
		}
	}
	_, th, err := e.bs.ChainTip()
	if err != nil {
		return false
	}
	if th > 0 {
		if _, err := e.bs.RollbackBlockHeaders(th); err != nil {
			return false
		}
	}
	// sanity: both at genesis, nothing else indexed
	if _, h, err := e.bs.ChainTip(); err != nil || h != 0 {
		return false
	}
	for i := 1; i < len(e.c.hash); i++ {
		if _, err := e.bs.HeightFromHash(&e.c.hash[i]); err == nil {
			return false
		}
	}
	if _, err := e.bs.FetchHeaderByHeight(1); err == nil {
		return false
	}
	if _, err := e.fs.FetchHeaderByHeight(1); err == nil {
		return false
	}
	return true
}

func (w *vbWorker) close() {
	if w.e != nil {
		w.e.stopManager()
		w.e.closeStores()
		os.RemoveAll(w.e.dir)
		w.e = nil
	}
}

func (w *vbWorker) runPath(p vbPathIn) (out vbPathOut) {
	c := w.c
	out.ID = p.ID
	if !w.reset() {
		if err := w.fresh(); err != nil {
			out.Error = "fresh stores: " + err.Error()
			return
		}
	}
	if atomic.LoadInt32(&vbHangs) >= vbMaxHangs {
		out.Error = "skipped: the driver gave up after repeated steps that never returned"
		out.Steps = []vbStepOut{}
		return
	}
	e := w.e
	hung := false
	e.listCap = vbListCap(c.u, p.ID)
	if p.ListCap != nil {
		e.listCap = *p.ListCap
	}
	out.ListCap = e.listCap
	defer func() {
		if r := recover(); r != nil {
			buf := make([]byte, 8192)
			buf = buf[:runtime.Stack(buf, false)]
			out.Error = fmt.Sprintf("driver panic: %v\n%s", r, buf)
		}
		if hung {
			// the stuck goroutine may hold the manager's locks and the
			// stores: leave everything to it
			w.e = nil
			return
		}
		e.stopManager()
	}()
	// pre-synced initial state of this path: block headers and the first
	// filter headers are written the way an earlier run of the client left them
	if n := len(p.Init.BFile); n > 1 {
		hs, _ := e.expand(p.Init.BFile[1:], 0)
		if err := e.bs.WriteHeaders(hs...); err != nil {
			out.Error = "preload: " + err.Error()
			return
		}
	}
	if n := len(p.Init.FFile); n > 1 {
		_, fhs := e.expand(p.Init.FFile[1:], 0)
		if err := e.fs.WriteHeaders(fhs...); err != nil {
			out.Error = "preload filters: " + err.Error()
			return
		}
	}
	if err := e.startManager(); err != nil {
		out.Error = "newBlockManager: " + err.Error()
		return
	}
	out.InitObs = e.observe()
	for _, s := range p.Steps {
		if e.bm == nil {
			break
		}
		a, h := e.execBounded(s.Act)
		if a.Batch == nil {
			a.Batch = []int{}
		}
		if h {
			hung = true
			atomic.AddInt32(&vbHangs, 1)
			buf := make([]byte, 1<<16)
			buf = buf[:runtime.Stack(buf, true)]
			out.Steps = append(out.Steps, vbStepOut{Act: a, Obs: out.lastObs(), Dump: "step did not return within " +
				vbStepBound().String() + "; goroutines:\n" + string(buf)})
			break
		}
		if e.bm == nil {
			out.Steps = append(out.Steps, vbStepOut{Act: a, Obs: out.lastObs(), Note: "manager could not be restarted"})
			break
		}
		o := e.observe()
		// "Rollback failed" panic of the reorganisation path on the injected
		// store error: in the client this ends the process (the path goes on
		// with Recover); the events delivered before the panic were delivered
		panicDead := a.Res == "panic" && a.Op == "Headers" && a.K >= 20
		if a.Res == "crash" || panicDead {
			// only the stores survive the death of the process
			if !panicDead {
				o.Ev = [][]int{}
			}
			for k := range o.Bl {
				o.Bl[k] = []int{vbERR}
			}
			o.Sync, o.Cur = 0, 0
			for k := range o.Disc {
				o.Disc[k] = 0
				o.Gh[k] = []int{}
			}
		}
		out.Steps = append(out.Steps, vbStepOut{Act: a, Obs: o})
	}
	return
}

func (o *vbPathOut) lastObs() vbObs {
	if len(o.Steps) == 0 {
		return o.InitObs
	}
	return o.Steps[len(o.Steps)-1].Obs
}

func TestVerifBlockManagerReplay(t *testing.T) {
	in, outFn, uf := os.Getenv("VERIF_PATHS"), os.Getenv("VERIF_OUT"), os.Getenv("VERIF_UNIVERSE")
	if in == "" || outFn == "" || uf == "" {
		t.Skip("VERIF_PATHS / VERIF_OUT / VERIF_UNIVERSE not set")
	}
	scratch := os.Getenv("VERIF_SCRATCH")
	if scratch == "" {
		scratch = t.TempDir()
	}
	var u vbUniverse
	ub, err := os.ReadFile(uf)
	if err != nil {
		t.Fatal(err)
	}
	if err := json.Unmarshal(ub, &u); err != nil {
		t.Fatal(err)
	}
	c, err := vbBuildChain(&u, time.Now())
	if err != nil {
		t.Fatal(err)
	}
	tmpl := filepath.Join(scratch, "bmtemplate")
	if err := os.MkdirAll(tmpl, 0o755); err != nil {
		t.Fatal(err)
	}
	{
		db, err := walletdb.Create("bdb", filepath.Join(tmpl, "neutrino.db"), true, 10*time.Second, false)
		if err != nil {
			t.Fatal(err)
		}
		tb, err := headerfs.NewBlockHeaderStore(tmpl, db, &c.params)
		if err != nil {
			t.Fatal(err)
		}
		tf, err := headerfs.NewFilterHeaderStore(tmpl, db, headerfs.RegularFilter, &c.params, nil)
		if err != nil {
			t.Fatal(err)
		}
		vbCloseStoreFile(tb)
		vbCloseStoreFile(tf)
		db.Close()
	}
	f, err := os.Open(in)
	if err != nil {
		t.Fatal(err)
	}
	defer f.Close()
	var paths []vbPathIn
	sc := bufio.NewScanner(f)
	sc.Buffer(make([]byte, 1<<20), 1<<28)
	for sc.Scan() {
		var p vbPathIn
		if err := json.Unmarshal(sc.Bytes(), &p); err != nil {
			t.Fatal(err)
		}
		paths = append(paths, p)
	}
	results := make([]vbPathOut, len(paths))
	var wg sync.WaitGroup
	jobs := make(chan int)
	for w := 0; w < runtime.NumCPU(); w++ {
		wg.Add(1)
		go func() {
			defer wg.Done()
			w := &vbWorker{c: c, tmpl: tmpl, scratch: scratch}
			defer w.close()
			for i := range jobs {
				results[i] = w.runPath(paths[i])
			}
		}()
	}
	for i := range paths {
		jobs <- i
	}
	close(jobs)
	wg.Wait()
	of, err := os.Create(outFn)
	if err != nil {
		t.Fatal(err)
	}
	w := bufio.NewWriter(of)
	enc := json.NewEncoder(w)
	for i := range results {
		if err := enc.Encode(&results[i]); err != nil {
			t.Fatal(err)
		}
	}
	w.Flush()
	of.Close()
}


// TestVerifBlockManagerGen mines the universe and reports the work of every
// header's difficulty bits, for universes whose difficulties follow from the
// retarget rules rather than from a work class chosen up front.
func TestVerifBlockManagerGen(t *testing.T) {
	outFn, uf := os.Getenv("VERIF_OUT"), os.Getenv("VERIF_UNIVERSE")
	if outFn == "" || uf == "" || os.Getenv("VERIF_PATHS") != "" {
		t.Skip("not a generator run")
	}
	var u vbUniverse
	ub, err := os.ReadFile(uf)
	if err != nil {
		t.Fatal(err)
	}
	if err := json.Unmarshal(ub, &u); err != nil {
		t.Fatal(err)
	}
	c, err := vbBuildChain(&u, time.Now())
	if err != nil {
		t.Fatal(err)
	}
	bits := make([]uint32, len(c.hdr))
	for i, h := range c.hdr {
		bits[i] = h.Bits
	}
	ob, _ := json.Marshal(map[string]interface{}{"work": c.work, "bits": bits})
	if err := os.WriteFile(outFn, ob, 0o644); err != nil {
		t.Fatal(err)
	}
}
