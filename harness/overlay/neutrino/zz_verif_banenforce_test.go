package neutrino

// Replay driver for the enforcement part of the BanStore family (C13).
// Injected into package neutrino at build time with `go test -overlay`;
// nothing is copied into /repo.  It executes paths of
// specs/BanStore/BanEnforce.tla against the real connection-handling code of
// the client WITHOUT a network:
//
//   * a ChainService value with a real banman store (real bbolt), a real
//     addrmgr, a real btcd connmgr whose Dial hands out scripted in-memory
//     connections, and the real peerHandler goroutine;
//   * "Connect" goes connmgr.Connect -> Dial -> ChainService.outboundPeerConnected;
//   * "Version"/"VerAck" write real wire messages into the connection, so
//     btcd's peer runs its real handshake and calls ServerPeer.OnVersion /
//     OnVerAck -> AddPeer -> handleAddPeerMsg;
//   * "BanBegin"/"BanCommit" take one BanPeer call in two steps: the call runs
//     in a goroutine of its own and its ban write is HELD (the ChainService's
//     ban store is a proxy that can hold one BanIPNet before it reaches the
//     real store); everything else goes on meanwhile; BanCommit lets it go;
//   * "Misbehave" calls ChainService.BanPeer(addr, reason) the way the
//     validation sites in query.go / blockmanager.go do (the detection logic
//     itself belongs to the C03/C05/C06 families);
//   * observation: ChainService.IsBanned / Store.Status per IP,
//     ChainService.Peers() (the set of peers the client keeps connected) and
//     whether the client has closed its end of every scripted connection.
//
// Not driven: NewChainService's wiring, the block manager (a stub that only
// drains its peer channel), DNS seeding / GetNewAddress (dev network).

import (
	"bufio"
	"bytes"
	"encoding/binary"
	"encoding/json"
	"fmt"
	"io"
	"math"
	"math/rand"
	"net"
	"os"
	"path/filepath"
	"reflect"
	"runtime"
	"strconv"
	"strings"
	"sync"
	"sync/atomic"
	"testing"
	"time"

	"github.com/btcsuite/btcd/addrmgr"
	"github.com/btcsuite/btcd/blockchain"
	"github.com/btcsuite/btcd/chaincfg/v2"
	"github.com/btcsuite/btcd/connmgr"
	"github.com/btcsuite/btcd/wire/v2"
	"github.com/btcsuite/btcwallet/walletdb"
	_ "github.com/btcsuite/btcwallet/walletdb/bdb"
	"github.com/lightninglabs/neutrino/banman"
	"github.com/lightninglabs/neutrino/headerfs"
)

const (
	vfeWait   = 2 * time.Second        // bound on every asynchronous consequence (normal: < 5 ms)
	vfeSettle = 1500 * time.Millisecond // time a kept connection to a banned address is given to go away
)

// ---------------------------------------------------------------------------
// scripted in-memory connection

type vfeConn struct {
	slot          int
	i, j          int
	local, remote *net.TCPAddr

	mu            sync.Mutex
	cond          *sync.Cond
	in            bytes.Buffer // remote -> client
	out           []byte       // client -> remote, not yet parsed
	cmds          []string     // commands of the messages the client wrote
	clientClosed  bool
	remoteClosed  bool
	fedVersion    bool // the remote version has been written into the connection
	fedVerAck     bool
}

func vfeNewConn(slot, i, j int, remote *net.TCPAddr) *vfeConn {
	c := &vfeConn{slot: slot, i: i, j: j, remote: remote,
		local: &net.TCPAddr{IP: net.IPv4(127, 0, 0, 1), Port: 40000 + slot}}
	c.cond = sync.NewCond(&c.mu)
	return c
}

func (c *vfeConn) Read(b []byte) (int, error) {
	c.mu.Lock()
	defer c.mu.Unlock()
	for {
		if c.clientClosed {
			return 0, net.ErrClosed
		}
		if c.in.Len() > 0 {
			return c.in.Read(b)
		}
		if c.remoteClosed {
			return 0, io.EOF
		}
		c.cond.Wait()
	}
}

func (c *vfeConn) Write(b []byte) (int, error) {
	c.mu.Lock()
	defer c.mu.Unlock()
	if c.clientClosed {
		return 0, net.ErrClosed
	}
	if c.remoteClosed {
		return 0, io.ErrClosedPipe
	}
	c.out = append(c.out, b...)
	for len(c.out) >= 24 {
		n := int(binary.LittleEndian.Uint32(c.out[16:20]))
		if len(c.out) < 24+n {
			break
		}
		c.cmds = append(c.cmds, strings.TrimRight(string(c.out[4:16]), "\x00"))
		c.out = c.out[24+n:]
	}
	c.cond.Broadcast()
	return len(b), nil
}

func (c *vfeConn) Close() error {
	c.mu.Lock()
	c.clientClosed = true
	c.cond.Broadcast()
	c.mu.Unlock()
	return nil
}

func (c *vfeConn) LocalAddr() net.Addr                { return c.local }
func (c *vfeConn) RemoteAddr() net.Addr               { return c.remote }
func (c *vfeConn) SetDeadline(t time.Time) error      { return nil }
func (c *vfeConn) SetReadDeadline(t time.Time) error  { return nil }
func (c *vfeConn) SetWriteDeadline(t time.Time) error { return nil }

func (c *vfeConn) feed(b []byte) {
	c.mu.Lock()
	c.in.Write(b)
	c.cond.Broadcast()
	c.mu.Unlock()
}

func (c *vfeConn) remoteClose() {
	c.mu.Lock()
	c.remoteClosed = true
	c.cond.Broadcast()
	c.mu.Unlock()
}

func (c *vfeConn) remoteClosedNow() bool {
	c.mu.Lock()
	defer c.mu.Unlock()
	return c.remoteClosed
}

func (c *vfeConn) closedByClient() bool {
	c.mu.Lock()
	defer c.mu.Unlock()
	return c.clientClosed
}

func (c *vfeConn) wrote(cmd string) bool {
	c.mu.Lock()
	defer c.mu.Unlock()
	for _, x := range c.cmds {
		if x == cmd {
			return true
		}
	}
	return false
}

// ---------------------------------------------------------------------------

// vfeHoldStore is the ChainService's ban store: the real banman store, except
// that ONE BanIPNet call can be held before it reaches the real store (its
// write transaction has then not begun).  Status / Unban and other BanIPNet
// calls pass.
type vfeHoldStore struct {
	banman.Store
	mu      sync.Mutex
	armed   bool
	held    chan struct{} // closed when the armed call has arrived
	release chan struct{} // closed to let it go
}

func (h *vfeHoldStore) arm() {
	h.mu.Lock()
	h.armed, h.held, h.release = true, make(chan struct{}), make(chan struct{})
	h.mu.Unlock()
}

func (h *vfeHoldStore) BanIPNet(n *net.IPNet, r banman.Reason, d time.Duration) error {
	h.mu.Lock()
	if h.armed {
		h.armed = false
		held, release := h.held, h.release
		h.mu.Unlock()
		close(held)
		<-release
	} else {
		h.mu.Unlock()
	}
	return h.Store.BanIPNet(n, r, d)
}

type vfePendingBan struct {
	i, j, k int
	done    chan error
	hold    *vfeHoldStore
}

type vfeHeaders struct {
	headerfs.BlockHeaderStore
}

func (vfeHeaders) ChainTip() (*wire.BlockHeader, uint32, error) {
	return &chaincfg.SimNetParams.GenesisBlock.Header, 0, nil
}

type vfeAct struct {
	Op  string `json:"op"`
	P   int    `json:"p"`
	I   int    `json:"i"`
	J   int    `json:"j"`
	F   int    `json:"f"`
	K   int    `json:"k"`
	Res string `json:"res"`
}

type vfeObs struct {
	Ban  [][]int `json:"ban"`
	Ad   [][]int `json:"ad"`
	Conn []int   `json:"conn"`
	Kept []int   `json:"kept"`
	Off  int     `json:"off"` // ChainService.timeSource.Offset() in whole hours
}

type vfeStepIn struct {
	Act  vfeAct   `json:"act"`
	Obs  vfeObs   `json:"obs"`
	Viol []string `json:"viol"`
}

type vfePathIn struct {
	ID      int         `json:"id"`
	PSeed   *int64      `json:"pseed,omitempty"`
	InitObs vfeObs      `json:"init_obs"`
	Steps   []vfeStepIn `json:"steps"`
}

type vfeStepOut struct {
	Act  vfeAct `json:"act"`
	Obs  vfeObs `json:"obs"`
	Conc string `json:"conc,omitempty"`
	Note string `json:"note,omitempty"`
}

type vfePathOut struct {
	ID      int          `json:"id"`
	PSeed   int64        `json:"pseed"`
	Addrs   []string     `json:"addrs,omitempty"`
	InitObs vfeObs       `json:"init_obs"`
	Steps   []vfeStepOut `json:"steps"`
	Error   string       `json:"error,omitempty"`
}

type vfeEnv struct {
	s           *ChainService // what the code under test sees
	inner       *ChainService // what the real peerHandler runs on (same channels and stores)
	foreignGets int64         // getPeersMsg requests answered that did not come from the driver
	connGets    int64         // ... of which made by outboundPeerConnected during a Connect step
	wantBanGets int64         // BanPeer calls whose PeerByAddr look-up must have been answered by now
	hold        *vfeHoldStore
	pend        *vfePendingBan
	diverged    bool
	db    walletdb.DB
	np    int
	ips   []net.IP
	ports [][]int
	rng   *rand.Rand
	off   int // hours the clocks of the peers (and so the client's adjusted clock) are off by

	mu       sync.Mutex
	slots    []*vfeConn
	dialSlot int
	dialI    int
	dialJ    int
	waited   string // kept-and-banned set already given its settle time
}

func (e *vfeEnv) addr(i, j int) *net.TCPAddr {
	return &net.TCPAddr{IP: e.ips[i-1], Port: e.ports[i-1][j-1]}
}

func (e *vfeEnv) dial(a net.Addr) (net.Conn, error) {
	e.mu.Lock()
	defer e.mu.Unlock()
	if e.dialSlot == 0 {
		return nil, fmt.Errorf("verif: unexpected dial of %v", a)
	}
	ta, ok := a.(*net.TCPAddr)
	if !ok {
		return nil, fmt.Errorf("verif: unexpected address type %T", a)
	}
	c := vfeNewConn(e.dialSlot, e.dialI, e.dialJ, ta)
	e.slots[e.dialSlot-1] = c
	e.dialSlot = 0
	return c, nil
}

func vfeStart(dir string, np, ni, nj, off int, rng *rand.Rand) (*vfeEnv, error) {
	db, err := walletdb.Create("bdb", filepath.Join(dir, "neutrino.db"), true, 10*time.Second, false)
	if err != nil {
		return nil, err
	}
	store, err := banman.NewStore(db)
	if err != nil {
		db.Close()
		return nil, err
	}
	hold := &vfeHoldStore{Store: store}
	e := &vfeEnv{db: db, np: np, rng: rng, off: off, slots: make([]*vfeConn, np), hold: hold}
	seen := map[string]bool{}
	for len(e.ips) < ni {
		var ip net.IP
		if rng.Intn(2) == 0 {
			ip = net.IPv4(byte(11+rng.Intn(100)), byte(rng.Intn(256)), byte(rng.Intn(256)), byte(1+rng.Intn(254)))
		} else {
			ip = make(net.IP, 16)
			copy(ip, []byte{0x20, 0x01, 0x0d, 0xb8})
			for k := 4; k < 16; k++ {
				if rng.Intn(2) == 0 {
					ip[k] = byte(rng.Intn(256))
				}
			}
			ip[15] |= 1
		}
		if seen[ip.String()] {
			continue
		}
		seen[ip.String()] = true
		e.ips = append(e.ips, ip)
		var ps []int
		for len(ps) < nj {
			p := 1024 + rng.Intn(60000)
			dup := false
			for _, q := range ps {
				dup = dup || q == p
			}
			if !dup {
				ps = append(ps, p)
			}
		}
		e.ports = append(e.ports, ps)
	}
	// Two ChainService values over the SAME channels, stores and managers,
	// differing only in the query channel: `s` is what the code under test
	// (BanPeer, outboundPeerConnected, ServerPeer callbacks) sees, `inner` is
	// the receiver the real peerHandler goroutine runs on.  A forwarder moves
	// every query from s.query to inner.query and counts the answered
	// getPeersMsg requests: that is how the driver knows that the goroutine
	// BanPeer spawns (PeerByAddr -> Peers()) has looked at the peer set, so
	// that it cannot fire later, in the middle of a following step.
	shared := ChainService{
		chainParams:       chaincfg.SimNetParams,
		BlockHeaders:      vfeHeaders{},
		addrManager:       addrmgr.New(dir, nil),
		newPeers:          make(chan *ServerPeer, MaxPeers),
		donePeers:         make(chan *ServerPeer, MaxPeers),
		peerHeightsUpdate: make(chan updatePeerHeightsMsg),
		quit:              make(chan struct{}),
		timeSource:        blockchain.NewMedianTime(),
		services:          0,
		banStore:          hold,
		userAgentName:     "verif",
		userAgentVersion:  "0.0.1",
	}
	bm := &blockManager{peerChan: make(chan interface{}, MaxPeers*3), quit: make(chan struct{})}
	mk := func(q chan interface{}) *ChainService {
		return &ChainService{
			chainParams: shared.chainParams, BlockHeaders: shared.BlockHeaders,
			addrManager: shared.addrManager, newPeers: shared.newPeers, donePeers: shared.donePeers,
			peerHeightsUpdate: shared.peerHeightsUpdate, quit: shared.quit, timeSource: shared.timeSource,
			services: shared.services, banStore: shared.banStore, userAgentName: shared.userAgentName,
			userAgentVersion: shared.userAgentVersion, blockManager: bm, query: q,
		}
	}
	s, inner := mk(make(chan interface{})), mk(make(chan interface{}))
	go func() { // stub block manager: accepts and forgets peer notifications
		for {
			select {
			case <-bm.peerChan:
			case <-bm.quit:
				return
			}
		}
	}()
	cm, err := connmgr.New(&connmgr.Config{
		RetryDuration:  time.Hour,
		TargetOutbound: 8,
		OnConnection:   s.outboundPeerConnected,
		Dial:           e.dial,
	})
	if err != nil {
		db.Close()
		return nil, err
	}
	s.connManager, inner.connManager = cm, cm
	cm.Start()
	inner.wg.Add(1)
	go inner.peerHandler()
	go func() { // query forwarder
		for {
			select {
			case m := <-s.query:
				gp, isGet := m.(getPeersMsg)
				if !isGet {
					select {
					case inner.query <- m:
					case <-s.quit:
						return
					}
					continue
				}
				reply := make(chan []*ServerPeer, 1) // buffered: peerHandler never waits for the forwarder
				select {
				case inner.query <- getPeersMsg{reply: reply}:
				case <-s.quit:
					return
				}
				var r []*ServerPeer
				select {
				case r = <-reply:
				case <-s.quit:
					return
				}
				select {
				case gp.reply <- r:
				case <-s.quit:
					return
				}
				atomic.AddInt64(&e.foreignGets, 1)
			case <-s.quit:
				return
			}
		}
	}()
	e.inner = inner
	e.s = s
	if off != 0 {
		// Before the history starts, peers whose clocks are off by `off` hours
		// have completed their handshakes: what ServerPeer.OnVersion does with
		// every version message is timeSource.AddTimeSample(addr, msg.Timestamp).
		// btcd's median time source applies the median of its samples once it
		// has >= 5 (and an odd number) of them; 21-29 samples from distinct
		// addresses here, so that the <= 8 peers of a history cannot move the
		// median.
		n := 21 + 2*rng.Intn(5)
		for k := 0; k < n; k++ {
			src := fmt.Sprintf("198.51.%d.%d:%d", rng.Intn(256), k+1, 1024+rng.Intn(60000))
			jitter := time.Duration(rng.Intn(240)-120) * time.Second
			s.timeSource.AddTimeSample(src, time.Now().Add(time.Duration(off)*time.Hour+jitter))
		}
	}
	return e, nil
}

func (e *vfeEnv) stop() {
	if e.pend != nil { // a path may end inside the window
		close(e.pend.hold.release)
		select {
		case <-e.pend.done:
		case <-time.After(vfeWait):
		}
		atomic.AddInt64(&e.wantBanGets, 1)
		e.banLookupsDone()
		e.pend = nil
	}
	atomic.StoreInt32(&e.s.shutdown, 1)
	atomic.StoreInt32(&e.inner.shutdown, 1)
	close(e.s.quit)
	e.s.connManager.Stop()
	e.mu.Lock()
	for _, c := range e.slots {
		if c != nil {
			c.remoteClose()
		}
	}
	e.mu.Unlock()
	e.inner.wg.Wait()
	close(e.s.blockManager.quit)
	// stragglers (peer goroutines unwinding) may still touch the store
	time.Sleep(2 * time.Millisecond)
	e.db.Close()
}

// vfeOverloaded reports whether the process currently gets so little CPU
// that starting a goroutine and a 1 ms sleep take more than 50 ms.
func vfeOverloaded() bool {
	t0 := time.Now()
	done := make(chan struct{})
	go func() { close(done) }()
	<-done
	time.Sleep(time.Millisecond)
	return time.Since(t0) > 50*time.Millisecond
}

// vfeUntil polls cond for at most limit.  A time-out only counts while the
// machine is responsive: if it is evidently starved the wait is extended (up
// to 6x), so that a slow machine is not mistaken for code that does not act.
func vfeUntil(limit time.Duration, cond func() bool) bool {
	for ext := 0; ; ext++ {
		t0 := time.Now()
		d := 20 * time.Microsecond
		for {
			if cond() {
				return true
			}
			if time.Since(t0) > limit {
				break
			}
			time.Sleep(d)
			if d < 2*time.Millisecond {
				d *= 2
			}
		}
		if ext >= 5 || !vfeOverloaded() {
			return false
		}
	}
}

func (e *vfeEnv) conn(p int) *vfeConn {
	e.mu.Lock()
	defer e.mu.Unlock()
	return e.slots[p-1]
}

func (e *vfeEnv) keptSlots() map[int]bool {
	kept := map[int]bool{}
	for _, sp := range e.inner.Peers() { // the driver's own query: not counted
		if la, ok := sp.LocalAddr().(*net.TCPAddr); ok && la != nil {
			kept[la.Port-40000] = true
		}
	}
	return kept
}

func (e *vfeEnv) observe() vfeObs {
	o := vfeObs{}
	for i := range e.ips {
		a := e.addr(i+1, 1).String()
		b, r := 0, 0
		if e.s.IsBanned(a) {
			b = 1
			if n, err := banman.ParseIPNet(a, nil); err == nil {
				if st, err := e.s.banStore.Status(n); err == nil && st.Banned {
					r = int(st.Reason)
				} else {
					r = -3
				}
			}
		}
		o.Ban = append(o.Ban, []int{b, r})
	}
	o.Off = int(math.Round(e.s.timeSource.Offset().Hours()))
	kept := e.keptSlots()
	for p := 1; p <= e.np; p++ {
		c := e.conn(p)
		open := c != nil && !c.closedByClient()
		if open {
			o.Ad = append(o.Ad, []int{c.i, c.j})
			o.Conn = append(o.Conn, 1)
		} else {
			o.Ad = append(o.Ad, []int{0, 0})
			o.Conn = append(o.Conn, 0)
		}
		if kept[p] {
			o.Kept = append(o.Kept, 1)
		} else {
			o.Kept = append(o.Kept, 0)
		}
	}
	return o
}

func (o vfeObs) keptBanned() string {
	var s []string
	for p := range o.Kept {
		if o.Kept[p] == 1 && o.Ad[p][0] >= 1 && o.Ad[p][0] <= len(o.Ban) && o.Ban[o.Ad[p][0]-1][0] == 1 {
			s = append(s, strconv.Itoa(p+1))
		}
	}
	return strings.Join(s, ",")
}

func (e *vfeEnv) message(msg wire.Message) []byte {
	var buf bytes.Buffer
	if err := wire.WriteMessage(&buf, msg, wire.ProtocolVersion, chaincfg.SimNetParams.Net); err != nil {
		panic(err)
	}
	return buf.Bytes()
}

// banLookupsDone waits until every BanPeer call made so far has had its
// PeerByAddr look-up answered (BanPeer does that in a goroutine of its own).
func (e *vfeEnv) banLookupsDone() bool {
	return vfeUntil(vfeWait, func() bool {
		return atomic.LoadInt64(&e.foreignGets)-atomic.LoadInt64(&e.connGets) >= atomic.LoadInt64(&e.wantBanGets)
	})
}

// applicable says whether the environment can perform the action at all in
// the state the real system is in (it always can while the code follows the
// model).
func (e *vfeEnv) applicable(a vfeAct) bool {
	var c *vfeConn
	if a.P >= 1 && a.P <= e.np {
		c = e.conn(a.P)
	}
	open := c != nil && !c.closedByClient() && !c.remoteClosedNow()
	switch a.Op {
	case "Connect":
		return !open
	case "Version":
		return open && c.wrote("version") && !c.fedVersion
	case "VerAck":
		return open && c.fedVersion && c.wrote("verack") && !c.fedVerAck
	case "Drop":
		return open
	case "BanBegin":
		return e.pend == nil
	case "BanCommit":
		return e.pend != nil
	}
	return true
}

func (e *vfeEnv) exec(a vfeAct) (out vfeAct, conc string) {
	out = a
	defer func() {
		if a.Op == "Misbehave" || a.Op == "BanCommit" || (a.Op == "Version" && out.Res == "dropped") {
			atomic.AddInt64(&e.wantBanGets, 1)
		}
		e.banLookupsDone()
	}()
	switch a.Op {
	case "Connect":
		ta := e.addr(a.I, a.J)
		// persistent or ordinary outbound peer: same observable contract,
		// different disconnect path in outboundPeerConnected / peerState map
		perm := e.rng.Intn(3) == 0
		conc = fmt.Sprintf("%s permanent=%v", ta, perm)
		e.mu.Lock()
		e.slots[a.P-1] = nil
		e.dialSlot, e.dialI, e.dialJ = a.P, a.I, a.J
		e.mu.Unlock()
		g0 := atomic.LoadInt64(&e.foreignGets)
		defer func() { atomic.AddInt64(&e.connGets, atomic.LoadInt64(&e.foreignGets)-g0) }()
		e.s.connManager.Connect(&connmgr.ConnReq{Addr: ta, Permanent: perm})
		c := e.conn(a.P)
		if c == nil {
			out.Res = "nodial"
			return
		}
		ok := vfeUntil(vfeWait, func() bool { return c.closedByClient() || c.wrote("version") })
		switch {
		case !ok:
			out.Res = "hang"
		case c.closedByClient():
			out.Res = "refused"
		default:
			out.Res = "accepted"
		}
	case "Version":
		c := e.conn(a.P)
		if c == nil {
			out.Res = "noconn"
			return
		}
		var sv wire.ServiceFlag = wire.SFNodeNetwork
		if a.F&1 != 0 {
			sv |= wire.SFNodeWitness
		}
		if a.F&2 != 0 {
			sv |= wire.SFNodeCF
		}
		if e.rng.Intn(2) == 0 {
			sv |= wire.SFNodeBloom
		}
		me := wire.NewNetAddressIPPort(c.remote.IP, uint16(c.remote.Port), sv)
		you := wire.NewNetAddressIPPort(c.local.IP, uint16(c.local.Port), 0)
		mv := wire.NewMsgVersion(me, you, e.rng.Uint64()|1<<63, 0)
		mv.Services = sv
		mv.ProtocolVersion = int32(wire.ProtocolVersion)
		// the peer's own clock (OnVersion hands it to the time source)
		mv.Timestamp = time.Unix(time.Now().Add(time.Duration(e.off)*time.Hour).Unix()+int64(e.rng.Intn(120)-60), 0)
		conc = fmt.Sprintf("services=%v", sv)
		c.fedVersion = true
		c.feed(e.message(mv))
		ok := vfeUntil(vfeWait, func() bool { return c.closedByClient() || c.wrote("verack") })
		switch {
		case !ok:
			out.Res = "hang"
		case c.closedByClient():
			out.Res = "dropped"
		default:
			out.Res = "ok"
		}
	case "VerAck":
		c := e.conn(a.P)
		if c == nil {
			out.Res = "noconn"
			return
		}
		c.fedVerAck = true
		c.feed(e.message(wire.NewMsgVerAck()))
		ok := vfeUntil(vfeWait, func() bool { return c.closedByClient() || e.keptSlots()[a.P] })
		switch {
		case !ok:
			out.Res = "hang"
		case c.closedByClient():
			out.Res = "dropped"
		default:
			out.Res = "active"
		}
	case "Misbehave":
		addr := e.addr(a.I, a.J).String()
		conc = addr
		if err := e.s.BanPeer(addr, banman.Reason(a.K)); err != nil {
			out.Res = "err"
		} else {
			out.Res = "ok"
		}
	case "BanBegin":
		addr := e.addr(a.I, a.J).String()
		conc = addr
		e.hold.arm()
		pb := &vfePendingBan{i: a.I, j: a.J, k: a.K, done: make(chan error, 1), hold: e.hold}
		held := e.hold.held
		go func() { pb.done <- e.s.BanPeer(addr, banman.Reason(a.K)) }()
		returned := false
		ok := vfeUntil(vfeWait, func() bool {
			select {
			case <-held:
				return true
			case err := <-pb.done:
				pb.done <- err
				returned = true
				return true
			default:
				return false
			}
		})
		switch {
		case !ok:
			out.Res = "hang"
		case returned:
			out.Res = "returned" // BanPeer came back without writing a ban
			atomic.AddInt64(&e.wantBanGets, 1)
		default:
			out.Res = "held"
			e.pend = pb
		}
		// nothing should happen while the write is held; give whatever the
		// call may have set off already a moment to show
		g := atomic.LoadInt64(&e.foreignGets)
		time.Sleep(2 * time.Millisecond)
		vfeUntil(20*time.Millisecond, func() bool {
			g2 := atomic.LoadInt64(&e.foreignGets)
			same := g2 == g
			g = g2
			return same
		})
	case "BanCommit":
		pb := e.pend
		if pb == nil {
			out.Res = "nopending"
			return
		}
		conc = e.addr(pb.i, pb.j).String()
		close(pb.hold.release)
		e.pend = nil
		select {
		case err := <-pb.done:
			if err != nil {
				out.Res = "err"
			} else {
				out.Res = "ok"
			}
		case <-time.After(vfeWait):
			out.Res = "hang"
		}
	case "Unban":
		n, err := banman.ParseIPNet(e.addr(a.I, 1).String(), nil)
		if err == nil {
			err = e.s.banStore.UnbanIPNet(n)
		}
		if err != nil {
			out.Res = "err"
		} else {
			out.Res = "ok"
		}
	case "StoreBan":
		// a record in the persistent ban store that no BanPeer call of this
		// history wrote: lapsed half an hour ago / half an hour left / a day left
		d := map[int]time.Duration{1: -30 * time.Minute, 2: 30 * time.Minute, 3: 24 * time.Hour}[a.F]
		d += time.Duration(e.rng.Intn(240)-120) * time.Second
		addr := e.addr(a.I, 1+e.rng.Intn(len(e.ports[a.I-1]))).String()
		conc = fmt.Sprintf("%s for %v", addr, d)
		n, err := banman.ParseIPNet(addr, nil)
		if err == nil {
			err = e.s.banStore.BanIPNet(n, banman.Reason(a.K), d)
		}
		if err != nil {
			out.Res = "err"
		} else {
			out.Res = "ok"
		}
	case "Drop":
		c := e.conn(a.P)
		if c == nil {
			out.Res = "noconn"
			return
		}
		c.remoteClose()
		if vfeUntil(vfeWait, c.closedByClient) {
			out.Res = "ok"
		} else {
			out.Res = "hang"
		}
	default:
		panic("unknown op " + a.Op)
	}
	return
}

// vfeRunPath runs a path; a path on which some step did not complete within
// the bounds ("hang") is re-run, and if that persists it is reported as a
// machinery error: C13 is not a termination property, so a hang is never a
// verdict here (the goroutine dump is kept in the step).
func vfeRunPath(p vfePathIn, scratch string, seed int64) (out vfePathOut) {
	for try := 0; try < 3; try++ {
		out = vfeRunOnce(p, scratch, seed)
		hung := false
		for _, st := range out.Steps {
			hung = hung || st.Act.Res == "hang"
		}
		if !hung {
			return out
		}
	}
	if out.Error == "" {
		out.Error = "a step did not complete within its bound on 3 attempts (see the goroutine dump in the trace)"
	}
	return out
}

func vfeRunOnce(p vfePathIn, scratch string, seed int64) (out vfePathOut) {
	out.ID = p.ID
	pseed := seed*1000003 + int64(p.ID)
	if p.PSeed != nil {
		pseed = *p.PSeed
	}
	out.PSeed = pseed
	dir, err := os.MkdirTemp(scratch, "e")
	if err != nil {
		out.Error = err.Error()
		return
	}
	defer os.RemoveAll(dir)
	rng := rand.New(rand.NewSource(pseed))
	nj := 1
	for _, s := range p.Steps {
		if s.Act.J > nj {
			nj = s.Act.J
		}
	}
	if nj < 2 {
		nj = 2
	}
	e, err := vfeStart(dir, len(p.InitObs.Conn), len(p.InitObs.Ban), nj, p.InitObs.Off, rng)
	if err != nil {
		out.Error = "start: " + err.Error()
		return
	}
	defer e.stop()
	defer func() {
		if r := recover(); r != nil {
			buf := make([]byte, 1<<16)
			buf = buf[:runtime.Stack(buf, true)]
			out.Error = fmt.Sprintf("driver panic: %v\n%s", r, buf)
		}
	}()
	for i := range e.ips {
		for j := range e.ports[i] {
			out.Addrs = append(out.Addrs, e.addr(i+1, j+1).String())
		}
	}
	out.InitObs = e.observe()
	record := func(a vfeAct, o vfeObs, conc, note string) {
		st := vfeStepOut{Act: a, Obs: o, Conc: conc, Note: note}
		if a.Res == "hang" {
			buf := make([]byte, 1<<16)
			buf = buf[:runtime.Stack(buf, true)]
			st.Conc += " goroutines: " + string(buf)
		}
		out.Steps = append(out.Steps, st)
	}
	// settle: the state after all asynchronous consequences, when there is
	// no prediction to wait for: unchanged over 3 ms, ban look-ups answered
	settle := func() vfeObs {
		var o vfeObs
		e.banLookupsDone()
		vfeUntil(vfeWait, func() bool {
			o1 := e.observe()
			time.Sleep(3 * time.Millisecond)
			o = e.observe()
			return reflect.DeepEqual(o1, o)
		})
		return o
	}
	heal := func(o vfeObs) vfeObs {
		// a connection to a banned address that is still kept gets extra
		// time to go away before it is recorded (once per such set)
		if kb := o.keptBanned(); kb != "" && kb != e.waited {
			vfeUntil(vfeSettle, func() bool {
				o = e.observe()
				return o.keptBanned() == ""
			})
			e.waited = o.keptBanned()
		}
		return o
	}
	for _, s := range p.Steps {
		if !e.applicable(s.Act) {
			// only possible once the code has left the model's prediction:
			// the environment cannot make this move in the real state
			e.diverged = true
			continue
		}
		a, conc := e.exec(s.Act)
		var o vfeObs
		if !e.diverged {
			// let the asynchronous consequences finish: wait (bounded) for
			// the state the model predicts; whatever is there afterwards is
			// recorded
			vfeUntil(vfeWait, func() bool {
				o = e.observe()
				return reflect.DeepEqual(o, s.Obs)
			})
		} else {
			o = settle()
		}
		o = heal(o)
		record(a, o, conc, "")
		if a != s.Act || !reflect.DeepEqual(o, s.Obs) {
			// The code left the path the model predicted.  The remaining
			// inputs of the path are still fed to the code where the
			// environment can make them, and judged by Props alone.
			e.diverged = true
		}
	}
	if e.diverged {
		// Quiescence after a divergence: the environment finishes what it has
		// begun - every handshake in progress is completed by a remote that
		// offers all services, a held ban write commits (which of the two comes
		// first is drawn from the seed) - and the final state is judged.
		finishHandshakes := func() {
			for p := 1; p <= e.np; p++ {
				for _, op := range []string{"Version", "VerAck"} {
					c := e.conn(p)
					a := vfeAct{Op: op, P: p, Res: "?"}
					if c != nil {
						a.I, a.J = c.i, c.j
					}
					if op == "Version" {
						a.F = 3
					}
					if !e.applicable(a) {
						continue
					}
					a2, conc := e.exec(a)
					record(a2, heal(settle()), conc, "closure after divergence")
				}
			}
		}
		commit := func() {
			if e.pend == nil {
				return
			}
			a := vfeAct{Op: "BanCommit", I: e.pend.i, J: e.pend.j, K: e.pend.k, Res: "?"}
			a2, conc := e.exec(a)
			record(a2, heal(settle()), conc, "closure after divergence")
		}
		if e.rng.Intn(2) == 0 {
			finishHandshakes()
			commit()
		} else {
			commit()
			finishHandshakes()
		}
	}
	return
}

func TestVerifBanEnforceReplay(t *testing.T) {
	in, outFn := os.Getenv("VERIF_PATHS"), os.Getenv("VERIF_OUT")
	if in == "" || outFn == "" {
		t.Skip("VERIF_PATHS / VERIF_OUT not set")
	}
	scratch := os.Getenv("VERIF_SCRATCH")
	if scratch == "" {
		scratch = t.TempDir()
	}
	seed, _ := strconv.ParseInt(os.Getenv("VERIF_SEED"), 10, 64)
	if v, err := strconv.Atoi(os.Getenv("VERIF_BAN_MINUTES")); err == nil && v > 0 {
		// neutrino.BanDuration is a package-level setting ("can be changed"):
		// one value per driver process
		BanDuration = time.Duration(v) * time.Minute
	}
	nw := 2 * runtime.NumCPU()
	if v, err := strconv.Atoi(os.Getenv("VERIF_PAR")); err == nil && v > 0 {
		nw = v
	}
	f, err := os.Open(in)
	if err != nil {
		t.Fatal(err)
	}
	defer f.Close()
	var paths []vfePathIn
	sc := bufio.NewScanner(f)
	sc.Buffer(make([]byte, 1<<20), 1<<28)
	for sc.Scan() {
		var p vfePathIn
		if err := json.Unmarshal(sc.Bytes(), &p); err != nil {
			t.Fatal(err)
		}
		paths = append(paths, p)
	}
	of, err := os.Create(outFn)
	if err != nil {
		t.Fatal(err)
	}
	w := bufio.NewWriter(of)
	enc := json.NewEncoder(w)
	var outMu sync.Mutex
	var encErr error
	var wg sync.WaitGroup
	jobs := make(chan int)
	for k := 0; k < nw; k++ {
		wg.Add(1)
		go func() {
			defer wg.Done()
			for i := range jobs {
				r := vfeRunPath(paths[i], scratch, seed)
				outMu.Lock()
				if err := enc.Encode(&r); err != nil && encErr == nil {
					encErr = err
				}
				outMu.Unlock()
			}
		}()
	}
	for i := range paths {
		jobs <- i
	}
	close(jobs)
	wg.Wait()
	if encErr != nil {
		t.Fatal(encErr)
	}
	w.Flush()
	of.Close()
}
