package neutrino

// Replay drivers for the FilterQuery (C05) and BlockQuery (C06) families.
// Injected into package neutrino at build time with `go test -overlay`;
// nothing is copied into /repo.
//
// Both drivers execute paths of the TLA+ specifications
// (specs/FilterQuery/FilterQuery.tla, specs/BlockQuery/BlockQuery.tla)
// against the REAL ChainService.GetCFilter / GetBlock code: a ChainService
// literal with real headerfs stores (block + filter headers of a real chain
// of real blocks), real lru caches, the real filterdb, the real
// chanutils.BatchWriter, the real banman store.  Only the work manager is
// replaced: a capturing dispatcher hands the real HandleResp closure the
// responses the path prescribes (real blocks / real GCS filters and
// mutations of them) and then delivers the verdict on the error channel.
// After every step the observable state is projected (return value class,
// FilterCache.Range, FilterDB.FetchFilter for every block, batch-writer
// hand-offs, BlockCache.Range, ban store status, Progress values).
//
// Callers are goroutines parked at gates (interfaces the code already uses:
// filterdb.FilterDatabase, headerfs.BlockHeaderStore, query.WorkManager);
// exactly one goroutine of the code under test runs at any time.

import (
	"bufio"
	"bytes"
	"encoding/json"
	"errors"
	"fmt"
	"math/big"
	"math/rand"
	"net"
	"os"
	"path/filepath"
	"reflect"
	"runtime"
	"strconv"
	"sync"
	"sync/atomic"
	"testing"
	"time"

	"github.com/btcsuite/btcd/blockchain"
	"github.com/btcsuite/btcd/btcutil/v2"
	"github.com/btcsuite/btcd/btcutil/v2/gcs"
	"github.com/btcsuite/btcd/btcutil/v2/gcs/builder"
	"github.com/btcsuite/btcd/chaincfg/v2"
	"github.com/btcsuite/btcd/chainhash/v2"
	"github.com/btcsuite/btcd/wire/v2"
	"github.com/btcsuite/btcwallet/walletdb"
	_ "github.com/btcsuite/btcwallet/walletdb/bdb"
	"github.com/lightninglabs/neutrino/banman"
	"github.com/lightninglabs/neutrino/cache/lru"
	"github.com/lightninglabs/neutrino/chanutils"
	"github.com/lightninglabs/neutrino/filterdb"
	"github.com/lightninglabs/neutrino/headerfs"
	"github.com/lightninglabs/neutrino/query"
)

const (
	vqRUN = -9
	vqERR = -3
	vqG   = -2

	vqChainLen    = 8 // universe blocks 0..7
	vqStepTimeout = 30 * time.Second // >= 10 000 x the normal duration of a replay step

	// after this many hung paths the remaining paths of the run are skipped:
	// a tree on which calls do not return must not make the check run for hours
	vqMaxHangs = 8
)

// --------------------------------------------------------------------------
// Universe: a real chain of real blocks with real filters.
// --------------------------------------------------------------------------

type vqUniverse struct {
	params  chaincfg.Params
	blocks  []*wire.MsgBlock
	hashes  []chainhash.Hash
	prevScr [][][]byte
	fbytes  [][]byte
	fh      []chainhash.Hash
	byHash  map[chainhash.Hash]int

	// siblings[b][f]: header of block b with only field f changed (0 version,
	// 1 previous block, 2 merkle root, 3 timestamp, 4 bits, 5 nonce) such
	// that the proof of work still holds
	siblings [][6]wire.BlockHeader

	// fut[h] (h >= 1): an alternative block at height h, child of blocks[h-1],
	// internally valid, whose header is dated far more than two hours ahead
	// of any clock this check will ever run on (BlockQuery target class "the
	// stored header is future-dated"); futSib[h][f] as siblings.
	fut     []*wire.MsgBlock
	futHash []chainhash.Hash
	futSib  [][6]wire.BlockHeader
	fstores map[int]*vqStores

	foreign      *wire.MsgBlock // a valid block that is in no store
	foreignHash  chainhash.Hash
	foreignBytes []byte

	mu     sync.Mutex
	stores map[[2]int]*vqStores
	dir    string
}

type vqStores struct {
	once sync.Once
	err  error
	b    headerfs.BlockHeaderStore
	f    headerfs.FilterHeaderStore
	db   walletdb.DB
}

type vqGen struct{ r *rand.Rand }

func (g *vqGen) bytes(n int) []byte {
	b := make([]byte, n)
	g.r.Read(b)
	return b
}

func (g *vqGen) p2wpkh() []byte { return append([]byte{0x00, 0x14}, g.bytes(20)...) }

func (g *vqGen) p2pkh() []byte {
	s := append([]byte{0x76, 0xa9, 0x14}, g.bytes(20)...)
	return append(s, 0x88, 0xac)
}

func (g *vqGen) outpoint() wire.OutPoint {
	var h chainhash.Hash
	copy(h[:], g.bytes(32))
	return wire.OutPoint{Hash: h, Index: uint32(g.r.Intn(4))}
}

func (g *vqGen) segwitTx(nOut int) *wire.MsgTx {
	tx := wire.NewMsgTx(2)
	tx.AddTxIn(&wire.TxIn{
		PreviousOutPoint: g.outpoint(),
		Witness:          wire.TxWitness{g.bytes(71), g.bytes(33)},
		Sequence:         wire.MaxTxInSequenceNum,
	})
	for i := 0; i < nOut; i++ {
		tx.AddTxOut(&wire.TxOut{Value: int64(10000 + g.r.Intn(100000)), PkScript: g.p2wpkh()})
	}
	return tx
}

func (g *vqGen) legacyTx() *wire.MsgTx {
	tx := wire.NewMsgTx(1)
	ss := append([]byte{0x47}, g.bytes(71)...)
	ss = append(ss, 0x21)
	ss = append(ss, g.bytes(33)...)
	tx.AddTxIn(&wire.TxIn{
		PreviousOutPoint: g.outpoint(),
		SignatureScript:  ss,
		Sequence:         wire.MaxTxInSequenceNum,
	})
	tx.AddTxOut(&wire.TxOut{Value: int64(20000 + g.r.Intn(100000)), PkScript: g.p2pkh()})
	tx.AddTxOut(&wire.TxOut{Value: int64(20000 + g.r.Intn(100000)), PkScript: g.p2wpkh()})
	return tx
}

// vqMerkle is the harness' own merkle root (not btcd's).
func vqMerkle(hs []chainhash.Hash) chainhash.Hash {
	if len(hs) == 0 {
		return chainhash.Hash{}
	}
	cur := append([]chainhash.Hash(nil), hs...)
	for len(cur) > 1 {
		if len(cur)%2 == 1 {
			cur = append(cur, cur[len(cur)-1])
		}
		nxt := make([]chainhash.Hash, 0, len(cur)/2)
		for i := 0; i < len(cur); i += 2 {
			var buf [64]byte
			copy(buf[:32], cur[i][:])
			copy(buf[32:], cur[i+1][:])
			nxt = append(nxt, chainhash.DoubleHashH(buf[:]))
		}
		cur = nxt
	}
	return cur[0]
}

func vqTxidRoot(txs []*wire.MsgTx) chainhash.Hash {
	hs := make([]chainhash.Hash, len(txs))
	for i, tx := range txs {
		hs[i] = tx.TxHash()
	}
	return vqMerkle(hs)
}

func vqWitnessRoot(txs []*wire.MsgTx) chainhash.Hash {
	hs := make([]chainhash.Hash, len(txs))
	for i, tx := range txs {
		if i == 0 {
			continue // coinbase wtxid is all zero
		}
		hs[i] = tx.WitnessHash()
	}
	return vqMerkle(hs)
}

var vqSiblingField = [6]string{"version", "prev-block", "merkle-root", "timestamp", "bits", "nonce"}

// vqSibling returns h with exactly one field changed, trying successive
// values of that field until the proof of work holds for the new header (the
// nonce, and every other field, stays as it is).
func vqSibling(h wire.BlockHeader, field int, powLimit *big.Int) wire.BlockHeader {
	for i := uint32(1); ; i++ {
		c := h
		switch field {
		case 0:
			c.Version = h.Version ^ int32(i)
		case 1:
			c.PrevBlock[int(i)%32] ^= byte(i>>5) + 1
		case 2:
			c.MerkleRoot[int(i)%32] ^= byte(i>>5) + 1
		case 3:
			c.Timestamp = h.Timestamp.Add(time.Duration(i) * time.Second)
		case 4:
			c.Bits = h.Bits - i
		case 5:
			c.Nonce = h.Nonce + i
		}
		hash := c.BlockHash()
		target := blockchain.CompactToBig(c.Bits)
		if target.Sign() > 0 && target.Cmp(powLimit) <= 0 && blockchain.HashToBig(&hash).Cmp(target) <= 0 {
			return c
		}
	}
}

var vqCommitPrefix = []byte{0x6a, 0x24, 0xaa, 0x21, 0xa9, 0xed}

func vqCommitScript(root chainhash.Hash, nonce []byte) []byte {
	var buf [64]byte
	copy(buf[:32], root[:])
	copy(buf[32:], nonce)
	c := chainhash.DoubleHashH(buf[:])
	return append(append([]byte(nil), vqCommitPrefix...), c[:]...)
}

// vqBlockOK is the harness' own statement of "has exactly the header hash
// want, a transaction list that reproduces the header's merkle root, and a
// valid witness commitment".
func vqBlockOK(blk *wire.MsgBlock, want chainhash.Hash) bool {
	if blk == nil || blk.BlockHash() != want {
		return false
	}
	if len(blk.Transactions) == 0 {
		return false
	}
	if vqTxidRoot(blk.Transactions) != blk.Header.MerkleRoot {
		return false
	}
	seen := map[chainhash.Hash]bool{}
	for _, tx := range blk.Transactions {
		h := tx.TxHash()
		if seen[h] {
			return false // a duplicated transaction reproduces the root only by the CVE-2012-2459 ambiguity
		}
		seen[h] = true
	}
	cb := blk.Transactions[0]
	var commit []byte
	for _, o := range cb.TxOut {
		if len(o.PkScript) >= 38 && bytes.Equal(o.PkScript[:6], vqCommitPrefix) {
			commit = o.PkScript[6:38]
		}
	}
	if commit == nil {
		for _, tx := range blk.Transactions {
			if tx.HasWitness() {
				return false
			}
		}
		return true
	}
	if len(cb.TxIn) != 1 || len(cb.TxIn[0].Witness) != 1 || len(cb.TxIn[0].Witness[0]) != 32 {
		return false
	}
	exp := vqCommitScript(vqWitnessRoot(blk.Transactions), cb.TxIn[0].Witness[0])
	return bytes.Equal(exp[6:], commit)
}

func vqFilterHeader(fbytes []byte, prev chainhash.Hash) chainhash.Hash {
	fhash := chainhash.DoubleHashH(fbytes)
	var buf [64]byte
	copy(buf[:32], fhash[:])
	copy(buf[32:], prev[:])
	return chainhash.DoubleHashH(buf[:])
}

func (g *vqGen) block(params *chaincfg.Params, prev chainhash.Hash, height int, ts time.Time) (*wire.MsgBlock, [][]byte) {
	cb := wire.NewMsgTx(2)
	cb.AddTxIn(&wire.TxIn{
		PreviousOutPoint: wire.OutPoint{Index: wire.MaxPrevOutIndex},
		SignatureScript:  []byte{0x02, byte(height), byte(height >> 8), 0x00, 0x51},
		Witness:          wire.TxWitness{make([]byte, 32)},
		Sequence:         wire.MaxTxInSequenceNum,
	})
	cb.AddTxOut(&wire.TxOut{Value: 50 * 1e8, PkScript: g.p2wpkh()})
	txs := []*wire.MsgTx{cb, g.segwitTx(2), g.legacyTx(), g.segwitTx(1), g.legacyTx()}
	if height == 2 || height == 3 {
		// filters with more than 252 elements: the element count is then
		// stored as a multi-byte varint (filterdb, wire encoding)
		txs[1] = g.segwitTx(260 + 50*(height-2))
	}
	cb.AddTxOut(&wire.TxOut{Value: 0, PkScript: vqCommitScript(vqWitnessRoot(txs), cb.TxIn[0].Witness[0])})
	var prevScr [][]byte
	for _, tx := range txs[1:] {
		for range tx.TxIn {
			prevScr = append(prevScr, g.p2wpkh())
		}
	}
	blk := &wire.MsgBlock{
		Header: wire.BlockHeader{
			Version:    0x20000000,
			PrevBlock:  prev,
			MerkleRoot: vqTxidRoot(txs),
			Timestamp:  ts,
			Bits:       params.PowLimitBits,
		},
		Transactions: txs,
	}
	target := blockchain.CompactToBig(blk.Header.Bits)
	for {
		h := blk.Header.BlockHash()
		if blockchain.HashToBig(&h).Cmp(target) <= 0 {
			break
		}
		blk.Header.Nonce++
	}
	return blk, prevScr
}

func vqNewUniverse(seed int64, dir string) (*vqUniverse, error) {
	u := &vqUniverse{params: chaincfg.RegressionNetParams, byHash: map[chainhash.Hash]int{},
		stores: map[[2]int]*vqStores{}, dir: dir}
	g := &vqGen{r: rand.New(rand.NewSource(seed))}
	gen := u.params.GenesisBlock
	u.blocks = append(u.blocks, gen)
	u.prevScr = append(u.prevScr, nil)
	for i := 1; i < vqChainLen; i++ {
		prev := u.blocks[i-1].BlockHash()
		blk, ps := g.block(&u.params, prev, i, gen.Header.Timestamp.Add(time.Duration(i)*10*time.Minute))
		u.blocks = append(u.blocks, blk)
		u.prevScr = append(u.prevScr, ps)
	}
	var ps [][]byte
	u.foreign, ps = g.block(&u.params, u.blocks[1].BlockHash(), 2,
		gen.Header.Timestamp.Add(time.Duration(99)*10*time.Minute))
	u.foreignHash = u.foreign.BlockHash()
	ff, err := builder.BuildBasicFilter(u.foreign, ps)
	if err != nil {
		return nil, err
	}
	if u.foreignBytes, err = ff.NBytes(); err != nil {
		return nil, err
	}
	prevFH := chainhash.Hash{}
	for i, blk := range u.blocks {
		h := blk.BlockHash()
		u.hashes = append(u.hashes, h)
		u.byHash[h] = i
		var sib [6]wire.BlockHeader
		for f := range sib {
			sib[f] = vqSibling(blk.Header, f, u.params.PowLimit)
		}
		u.siblings = append(u.siblings, sib)
		f, err := builder.BuildBasicFilter(blk, u.prevScr[i])
		if err != nil {
			return nil, err
		}
		nb, err := f.NBytes()
		if err != nil {
			return nil, err
		}
		if i > 0 && f.N() == 0 {
			return nil, fmt.Errorf("empty filter for block %d", i)
		}
		u.fbytes = append(u.fbytes, nb)
		fh := vqFilterHeader(nb, prevFH)
		lib, err := builder.MakeHeaderForFilter(f, prevFH)
		if err != nil || lib != fh {
			return nil, fmt.Errorf("harness filter header computation disagrees with btcd for block %d", i)
		}
		u.fh = append(u.fh, fh)
		prevFH = fh
		if i > 0 {
			// The generator is not trusted either: every block must pass
			// the harness' own checks and btcd's.
			if !vqBlockOK(blk, h) {
				return nil, fmt.Errorf("generated block %d fails the harness' own checks", i)
			}
			ub := btcutil.NewBlock(blk.Copy())
			if err := blockchain.CheckBlockSanity(ub, u.params.PowLimit, blockchain.NewMedianTime()); err != nil {
				return nil, fmt.Errorf("generated block %d: %v", i, err)
			}
			if err := blockchain.ValidateWitnessCommitment(ub); err != nil {
				return nil, fmt.Errorf("generated block %d: %v", i, err)
			}
		}
	}
	if err := u.addFutureBlocks(seed); err != nil {
		return nil, err
	}
	return u, nil
}

// vqFutureTime is the timestamp of the future-dated headers: a fixed date
// (so that a saved replay meets the same blocks) decades ahead of the clock.
var vqFutureTime = time.Date(2100, 1, 1, 0, 0, 0, 0, time.UTC)

// vqClock is a blockchain.MedianTimeSource that reads a fixed time: the clock
// of the node on which a future-dated header was within the two-hour limit.
type vqClock struct{ t time.Time }

func (c vqClock) AdjustedTime() time.Time { return c.t }
func (c vqClock) AddTimeSample(string, time.Time) {}
func (c vqClock) Offset() time.Duration { return 0 }

// addFutureBlocks generates, with a random stream of its own (the blocks of
// the main chain stay what they were), one future-dated alternative block per
// height.  The generator is not trusted: each block must pass the harness'
// own three checks, must pass btcd's CheckBlockSanity + ValidateWitnessCommitment
// on a clock that is not behind the header, and must fail CheckBlockSanity on
// the real clock with exactly ErrTimeTooNew.
func (u *vqUniverse) addFutureBlocks(seed int64) error {
	g := &vqGen{r: rand.New(rand.NewSource(seed ^ 0x6675747572650a))}
	u.fstores = map[int]*vqStores{}
	u.fut = make([]*wire.MsgBlock, vqChainLen)
	u.futHash = make([]chainhash.Hash, vqChainLen)
	u.futSib = make([][6]wire.BlockHeader, vqChainLen)
	for h := 1; h < vqChainLen; h++ {
		var blk *wire.MsgBlock
		for {
			blk, _ = g.block(&u.params, u.hashes[h-1], h, vqFutureTime.Add(time.Duration(h)*10*time.Minute))
			if _, clash := u.byHash[blk.BlockHash()]; !clash {
				break
			}
		}
		hash := blk.BlockHash()
		if !vqBlockOK(blk, hash) {
			return fmt.Errorf("future-dated block %d fails the harness' own checks", h)
		}
		ub := btcutil.NewBlock(blk.Copy())
		if err := blockchain.CheckBlockSanity(ub, u.params.PowLimit, vqClock{blk.Header.Timestamp}); err != nil {
			return fmt.Errorf("future-dated block %d on a clock at its own time: %v", h, err)
		}
		if err := blockchain.ValidateWitnessCommitment(ub); err != nil {
			return fmt.Errorf("future-dated block %d: %v", h, err)
		}
		err := blockchain.CheckBlockSanity(btcutil.NewBlock(blk.Copy()), u.params.PowLimit, blockchain.NewMedianTime())
		var re blockchain.RuleError
		if !errors.As(err, &re) || re.ErrorCode != blockchain.ErrTimeTooNew {
			return fmt.Errorf("future-dated block %d on the real clock: want ErrTimeTooNew, got %v", h, err)
		}
		u.fut[h], u.futHash[h] = blk, hash
		for f := range u.futSib[h] {
			u.futSib[h][f] = vqSibling(blk.Header, f, u.params.PowLimit)
		}
	}
	return nil
}

// storesForFut opens (creating on first use) real header stores holding
// blocks 0..btip-1 of the chain and, at height btip, the future-dated block
// fut[btip] (headerfs stores whatever it is given; the block manager accepted
// the header when its timestamp was within the limit of the clock of that
// time).  Read-only afterwards, shared by all workers.
func (u *vqUniverse) storesForFut(btip int) (*vqStores, error) {
	if btip < 1 || btip >= vqChainLen {
		return nil, fmt.Errorf("bad tip %d", btip)
	}
	u.mu.Lock()
	s := u.fstores[btip]
	if s == nil {
		s = &vqStores{}
		u.fstores[btip] = s
	}
	u.mu.Unlock()
	s.once.Do(func() {
		dir := filepath.Join(u.dir, fmt.Sprintf("stores-fut-%d", btip))
		if s.err = os.MkdirAll(dir, 0o755); s.err != nil {
			return
		}
		s.db, s.err = walletdb.Create("bdb", filepath.Join(dir, "neutrino.db"), true, 10*time.Second, false)
		if s.err != nil {
			return
		}
		sdb := &vqStrictDB{DB: s.db}
		if s.b, s.err = headerfs.NewBlockHeaderStore(dir, sdb, &u.params); s.err != nil {
			return
		}
		var bh []headerfs.BlockHeader
		for i := 1; i < btip; i++ {
			bh = append(bh, headerfs.BlockHeader{BlockHeader: &u.blocks[i].Header, Height: uint32(i)})
		}
		bh = append(bh, headerfs.BlockHeader{BlockHeader: &u.fut[btip].Header, Height: uint32(btip)})
		if s.err = s.b.WriteHeaders(bh...); s.err != nil {
			return
		}
		// what the store hands back for the future-dated hash is that header
		hd, ht, err := s.b.FetchHeader(&u.futHash[btip])
		if err != nil || ht != uint32(btip) || hd.BlockHash() != u.futHash[btip] ||
			!hd.Timestamp.Equal(u.fut[btip].Header.Timestamp) {
			s.err = fmt.Errorf("future-dated header not read back from the store (%v)", err)
		}
	})
	return s, s.err
}

func (u *vqUniverse) idOf(h chainhash.Hash, btip int) int {
	if id, ok := u.byHash[h]; ok && id <= btip {
		return id
	}
	return -1
}

// hashOf maps a model block id to a hash: 0..btip are chain blocks, btip+1 is
// a hash the header store does not know.
func (u *vqUniverse) hashOf(b, btip int) chainhash.Hash {
	if b >= 0 && b <= btip {
		return u.hashes[b]
	}
	return u.foreignHash
}

func (u *vqUniverse) blockOf(b, btip int) *wire.MsgBlock {
	if b >= 0 && b <= btip {
		return u.blocks[b]
	}
	return u.foreign
}

// storesFor opens (creating on first use) real header stores holding blocks
// 0..btip and filter headers 0..ftip.  They are only read afterwards and are
// shared by all workers.
func (u *vqUniverse) storesFor(btip, ftip int) (*vqStores, error) {
	if btip < 0 || btip >= vqChainLen || ftip < 0 || ftip > btip {
		return nil, fmt.Errorf("bad tips %d/%d", btip, ftip)
	}
	u.mu.Lock()
	s := u.stores[[2]int{btip, ftip}]
	if s == nil {
		s = &vqStores{}
		u.stores[[2]int{btip, ftip}] = s
	}
	u.mu.Unlock()
	s.once.Do(func() {
		dir := filepath.Join(u.dir, fmt.Sprintf("stores-%d-%d", btip, ftip))
		if s.err = os.MkdirAll(dir, 0o755); s.err != nil {
			return
		}
		s.db, s.err = walletdb.Create("bdb", filepath.Join(dir, "neutrino.db"), true, 10*time.Second, false)
		if s.err != nil {
			return
		}
		sdb := &vqStrictDB{DB: s.db}
		if s.b, s.err = headerfs.NewBlockHeaderStore(dir, sdb, &u.params); s.err != nil {
			return
		}
		s.f, s.err = headerfs.NewFilterHeaderStore(dir, sdb, headerfs.RegularFilter, &u.params, nil)
		if s.err != nil {
			return
		}
		var bh []headerfs.BlockHeader
		for i := 1; i <= btip; i++ {
			bh = append(bh, headerfs.BlockHeader{BlockHeader: &u.blocks[i].Header, Height: uint32(i)})
		}
		if s.err = s.b.WriteHeaders(bh...); s.err != nil {
			return
		}
		var fhs []headerfs.FilterHeader
		for i := 1; i <= ftip; i++ {
			fhs = append(fhs, headerfs.FilterHeader{HeaderHash: u.hashes[i], FilterHash: u.fh[i], Height: uint32(i)})
		}
		if len(fhs) > 0 {
			if s.err = s.f.WriteHeaders(fhs...); s.err != nil {
				return
			}
		}
		g, err := s.f.FetchHeaderByHeight(0)
		if err != nil || *g != u.fh[0] {
			s.err = fmt.Errorf("genesis filter header of the store differs from the harness' (%v)", err)
		}
	})
	return s, s.err
}

func (u *vqUniverse) closeStores() {
	for _, s := range u.stores {
		if s.db != nil {
			s.db.Close()
		}
	}
	for _, s := range u.fstores {
		if s.db != nil {
			s.db.Close()
		}
	}
}

// --------------------------------------------------------------------------
// Gates: callers of the code under test are goroutines that park at the
// interfaces the code uses.
// --------------------------------------------------------------------------

type vqEvent struct {
	c    int
	gate string // name of the gate reached, or "returned"
}

type vqCaller struct {
	id      int
	release chan struct{}
	at      string // "", gate name, "query", "returned"
	tgt     int
	mode    string
	cap     int
	reqs    []*query.Request
	errChan chan error

	// result of the call
	filter *gcs.Filter
	block  *btcutil.Block
	err    error
	panicV interface{}
}

type vqSched struct {
	ev      chan vqEvent
	cur     *vqCaller
	stopped bool
	free    func(gate string) // free-running mode: gates only log
}

// park is called on the goroutine of the code under test.
func (s *vqSched) park(gate string) {
	if s.free != nil {
		s.free(gate)
		return
	}
	c := s.cur
	if c == nil || s.stopped {
		return
	}
	s.ev <- vqEvent{c.id, gate}
	<-c.release
}

// vqHang is returned when the code under test neither reaches its next gate
// nor returns within the bound.  It is not a machinery error: it is recorded
// as the outcome "hang" of the step (with the goroutine dump) and judged.
type vqHang struct{ msg string }

func (h *vqHang) Error() string { return h.msg }

var vqHangs atomic.Int32

func vqDump() string {
	buf := make([]byte, 1<<20)
	return string(buf[:runtime.Stack(buf, true)])
}

// wait blocks the driver until the running caller parks or returns.
func (s *vqSched) wait(c *vqCaller) error {
	select {
	case e := <-s.ev:
		if e.c != c.id {
			return fmt.Errorf("event from caller %d while caller %d runs", e.c, c.id)
		}
		c.at = e.gate
		return nil
	case <-time.After(vqStepTimeout):
		return &vqHang{fmt.Sprintf("caller %d neither reached its next gate nor returned within %v (was at %q); "+
			"goroutines:\n%s", c.id, vqStepTimeout, c.at, vqDump())}
	}
}

func (s *vqSched) resume(c *vqCaller) error {
	s.cur = c
	c.release <- struct{}{}
	return s.wait(c)
}

// capturing dispatcher
type vqDispatcher struct{ s *vqSched }

func (d *vqDispatcher) Start() error { return nil }
func (d *vqDispatcher) Stop() error  { return nil }
func (d *vqDispatcher) Query(reqs []*query.Request, _ ...query.QueryOption) chan error {
	c := d.s.cur
	ch := make(chan error, 1)
	if c != nil {
		c.reqs = reqs
		c.errChan = ch
	}
	d.s.park("submit")
	return ch
}

// header store with a gate in front of FetchHeader (the first store access of
// prepareCFiltersQuery and of GetBlock)
type vqHeaders struct {
	headerfs.BlockHeaderStore
	s    *vqSched
	gate bool
}

func (h *vqHeaders) FetchHeader(hash *chainhash.Hash) (*wire.BlockHeader, uint32, error) {
	if h.gate {
		h.s.park("prep")
	}
	return h.BlockHeaderStore.FetchHeader(hash)
}

// filter database with gates around FetchFilter
type vqFilterDB struct {
	filterdb.FilterDatabase
	s     *vqSched
	dirty *bool
}

func (d *vqFilterDB) PutFilters(items ...*filterdb.FilterData) error {
	*d.dirty = true
	return d.FilterDatabase.PutFilters(items...)
}

func (d *vqFilterDB) PurgeFilters(t filterdb.FilterType) error {
	*d.dirty = true
	return d.FilterDatabase.PurgeFilters(t)
}

func (d *vqFilterDB) FetchFilter(h *chainhash.Hash, t filterdb.FilterType) (*gcs.Filter, error) {
	d.s.park("db-in")
	f, err := d.FilterDatabase.FetchFilter(h, t)
	if !(err == nil && f != nil) {
		d.s.park("db-out")
	}
	return f, err
}

// --------------------------------------------------------------------------
// vqStrictDB: a walletdb.DB proxy around the real bdb database that enforces
// the documented transaction lifetime.  walletdb: "The value returned by
// [Get] is only valid during a transaction.  Attempting to access it after a
// transaction has ended results in undefined behavior" - with bbolt the slice
// points into the memory-mapped file, whose pages the next write transaction
// (e.g. the filter batch writer) may recycle.  The proxy hands out copies of
// every key / value slice and overwrites them when the transaction ends,
// which is a behaviour bbolt is allowed to show.  Code that respects the
// contract sees no difference.
// --------------------------------------------------------------------------

type vqStrictDB struct {
	walletdb.DB
}

type vqTxMem struct {
	out [][]byte
}

func (m *vqTxMem) own(v []byte) []byte {
	if v == nil {
		return nil
	}
	c := make([]byte, len(v))
	copy(c, v)
	m.out = append(m.out, c)
	return c
}

// recycle: the transaction is over, its pages belong to somebody else.
func (m *vqTxMem) recycle() {
	for _, v := range m.out {
		for i := range v {
			v[i] = 0xa5
		}
	}
	m.out = nil
}

func (d *vqStrictDB) View(f func(tx walletdb.ReadTx) error, reset func()) error {
	return d.DB.View(func(tx walletdb.ReadTx) error {
		m := &vqTxMem{}
		defer m.recycle()
		return f(&vqStrictRTx{ReadTx: tx, m: m})
	}, reset)
}

func (d *vqStrictDB) Update(f func(tx walletdb.ReadWriteTx) error, reset func()) error {
	return d.DB.Update(func(tx walletdb.ReadWriteTx) error {
		m := &vqTxMem{}
		defer m.recycle()
		return f(&vqStrictRWTx{ReadWriteTx: tx, m: m})
	}, reset)
}

// Batch keeps filterdb on the code path it takes with the real bdb backend.
func (d *vqStrictDB) Batch(f func(tx walletdb.ReadWriteTx) error) error {
	b, ok := d.DB.(walletdb.BatchDB)
	if !ok {
		return d.Update(f, func() {})
	}
	return b.Batch(func(tx walletdb.ReadWriteTx) error {
		m := &vqTxMem{}
		defer m.recycle()
		return f(&vqStrictRWTx{ReadWriteTx: tx, m: m})
	})
}

func (d *vqStrictDB) BeginReadTx() (walletdb.ReadTx, error) {
	tx, err := d.DB.BeginReadTx()
	if err != nil {
		return nil, err
	}
	return &vqStrictRTx{ReadTx: tx, m: &vqTxMem{}, manual: true}, nil
}

func (d *vqStrictDB) BeginReadWriteTx() (walletdb.ReadWriteTx, error) {
	tx, err := d.DB.BeginReadWriteTx()
	if err != nil {
		return nil, err
	}
	return &vqStrictRWTx{ReadWriteTx: tx, m: &vqTxMem{}, manual: true}, nil
}

type vqStrictRTx struct {
	walletdb.ReadTx
	m      *vqTxMem
	manual bool
}

func (t *vqStrictRTx) ReadBucket(key []byte) walletdb.ReadBucket {
	b := t.ReadTx.ReadBucket(key)
	if b == nil {
		return nil
	}
	return &vqStrictRB{ReadBucket: b, m: t.m}
}

func (t *vqStrictRTx) ForEachBucket(f func(key []byte) error) error {
	return t.ReadTx.ForEachBucket(func(k []byte) error { return f(t.m.own(k)) })
}

func (t *vqStrictRTx) Rollback() error {
	err := t.ReadTx.Rollback()
	if t.manual {
		t.m.recycle()
	}
	return err
}

type vqStrictRWTx struct {
	walletdb.ReadWriteTx
	m      *vqTxMem
	manual bool
}

func (t *vqStrictRWTx) ReadBucket(key []byte) walletdb.ReadBucket {
	b := t.ReadWriteTx.ReadBucket(key)
	if b == nil {
		return nil
	}
	return &vqStrictRB{ReadBucket: b, m: t.m}
}

func (t *vqStrictRWTx) ForEachBucket(f func(key []byte) error) error {
	return t.ReadWriteTx.ForEachBucket(func(k []byte) error { return f(t.m.own(k)) })
}

func (t *vqStrictRWTx) wrap(b walletdb.ReadWriteBucket) walletdb.ReadWriteBucket {
	if b == nil {
		return nil
	}
	return &vqStrictRWB{ReadWriteBucket: b, tx: t}
}

func (t *vqStrictRWTx) ReadWriteBucket(key []byte) walletdb.ReadWriteBucket {
	return t.wrap(t.ReadWriteTx.ReadWriteBucket(key))
}

func (t *vqStrictRWTx) CreateTopLevelBucket(key []byte) (walletdb.ReadWriteBucket, error) {
	b, err := t.ReadWriteTx.CreateTopLevelBucket(key)
	if err != nil {
		return nil, err
	}
	return t.wrap(b), nil
}

func (t *vqStrictRWTx) Commit() error {
	err := t.ReadWriteTx.Commit()
	if t.manual {
		t.m.recycle()
	}
	return err
}

func (t *vqStrictRWTx) Rollback() error {
	err := t.ReadWriteTx.Rollback()
	if t.manual {
		t.m.recycle()
	}
	return err
}

type vqStrictRB struct {
	walletdb.ReadBucket
	m *vqTxMem
}

func (b *vqStrictRB) NestedReadBucket(key []byte) walletdb.ReadBucket {
	n := b.ReadBucket.NestedReadBucket(key)
	if n == nil {
		return nil
	}
	return &vqStrictRB{ReadBucket: n, m: b.m}
}

func (b *vqStrictRB) ForEach(f func(k, v []byte) error) error {
	return b.ReadBucket.ForEach(func(k, v []byte) error { return f(b.m.own(k), b.m.own(v)) })
}

func (b *vqStrictRB) Get(key []byte) []byte { return b.m.own(b.ReadBucket.Get(key)) }

func (b *vqStrictRB) ReadCursor() walletdb.ReadCursor {
	return &vqStrictCur{ReadCursor: b.ReadBucket.ReadCursor(), m: b.m}
}

type vqStrictRWB struct {
	walletdb.ReadWriteBucket
	tx *vqStrictRWTx
}

func (b *vqStrictRWB) NestedReadBucket(key []byte) walletdb.ReadBucket {
	n := b.ReadWriteBucket.NestedReadBucket(key)
	if n == nil {
		return nil
	}
	return &vqStrictRB{ReadBucket: n, m: b.tx.m}
}

func (b *vqStrictRWB) NestedReadWriteBucket(key []byte) walletdb.ReadWriteBucket {
	return b.tx.wrap(b.ReadWriteBucket.NestedReadWriteBucket(key))
}

func (b *vqStrictRWB) CreateBucket(key []byte) (walletdb.ReadWriteBucket, error) {
	n, err := b.ReadWriteBucket.CreateBucket(key)
	if err != nil {
		return nil, err
	}
	return b.tx.wrap(n), nil
}

func (b *vqStrictRWB) CreateBucketIfNotExists(key []byte) (walletdb.ReadWriteBucket, error) {
	n, err := b.ReadWriteBucket.CreateBucketIfNotExists(key)
	if err != nil {
		return nil, err
	}
	return b.tx.wrap(n), nil
}

func (b *vqStrictRWB) ForEach(f func(k, v []byte) error) error {
	return b.ReadWriteBucket.ForEach(func(k, v []byte) error { return f(b.tx.m.own(k), b.tx.m.own(v)) })
}

func (b *vqStrictRWB) Get(key []byte) []byte { return b.tx.m.own(b.ReadWriteBucket.Get(key)) }

func (b *vqStrictRWB) ReadCursor() walletdb.ReadCursor {
	return &vqStrictCur{ReadCursor: b.ReadWriteBucket.ReadCursor(), m: b.tx.m}
}

func (b *vqStrictRWB) ReadWriteCursor() walletdb.ReadWriteCursor {
	c := b.ReadWriteBucket.ReadWriteCursor()
	return &vqStrictRWCur{vqStrictCur: vqStrictCur{ReadCursor: c, m: b.tx.m}, rw: c}
}

func (b *vqStrictRWB) Tx() walletdb.ReadWriteTx { return b.tx }

type vqStrictCur struct {
	walletdb.ReadCursor
	m *vqTxMem
}

func (c *vqStrictCur) kv(k, v []byte) ([]byte, []byte) { return c.m.own(k), c.m.own(v) }
func (c *vqStrictCur) First() ([]byte, []byte)         { return c.kv(c.ReadCursor.First()) }
func (c *vqStrictCur) Last() ([]byte, []byte)          { return c.kv(c.ReadCursor.Last()) }
func (c *vqStrictCur) Next() ([]byte, []byte)          { return c.kv(c.ReadCursor.Next()) }
func (c *vqStrictCur) Prev() ([]byte, []byte)          { return c.kv(c.ReadCursor.Prev()) }
func (c *vqStrictCur) Seek(s []byte) ([]byte, []byte)  { return c.kv(c.ReadCursor.Seek(s)) }

type vqStrictRWCur struct {
	vqStrictCur
	rw walletdb.ReadWriteCursor
}

func (c *vqStrictRWCur) Delete() error { return c.rw.Delete() }

var (
	_ walletdb.BatchDB         = (*vqStrictDB)(nil)
	_ walletdb.ReadWriteTx     = (*vqStrictRWTx)(nil)
	_ walletdb.ReadWriteBucket = (*vqStrictRWB)(nil)
	_ walletdb.ReadWriteCursor = (*vqStrictRWCur)(nil)
)

// --------------------------------------------------------------------------
// Path I/O
// --------------------------------------------------------------------------

func vqReadLines(fn string, each func([]byte) error) error {
	f, err := os.Open(fn)
	if err != nil {
		return err
	}
	defer f.Close()
	rd := bufio.NewReaderSize(f, 1<<20)
	for {
		line, err := rd.ReadBytes('\n')
		if len(bytes.TrimSpace(line)) > 0 {
			if e := each(line); e != nil {
				return e
			}
		}
		if err != nil {
			return nil
		}
	}
}

func vqSeed() int64 {
	s, err := strconv.ParseInt(os.Getenv("VERIF_SEED"), 10, 64)
	if err != nil {
		return 1
	}
	return s
}

func vqFill(n, v int) []int {
	a := make([]int, n)
	for i := range a {
		a[i] = v
	}
	return a
}

func vqProgress(p query.Progress) string {
	switch {
	case p.Finished && p.Progressed:
		return "fin"
	case p.Finished:
		return "finnp"
	case p.Progressed:
		return "prog"
	}
	return "none"
}

// ==========================================================================
// FilterQuery (C05)
// ==========================================================================

type fqAct struct {
	Op  string `json:"op"`
	C   int    `json:"c"`
	Tgt int    `json:"tgt"`
	M   string `json:"m"`
	Cap int    `json:"cap"`
	K   string `json:"k"`
	B   int    `json:"b"`
	Lo  int    `json:"lo"`
	Hi  int    `json:"hi"`
	Res string `json:"res"`
}

type fqObs struct {
	Ret     []int `json:"ret"`
	Cache   []int `json:"cache"`
	Db      []int `json:"db"`
	Wq      []int `json:"wq"`
	Cx      int   `json:"cx"`
	Dx      int   `json:"dx"`
	Wx      int   `json:"wx"`
	Btip    int   `json:"btip"`
	Ftip    int   `json:"ftip"`
	Persist int   `json:"persist"`
}

type fqStepIn struct {
	Act fqAct `json:"act"`
	Vn  *int  `json:"vn,omitempty"` // replay: the message variant to use
}

type fqPathIn struct {
	ID      int        `json:"id"`
	InitObs *fqObs     `json:"init_obs"`
	Steps   []fqStepIn `json:"steps"`
	Free    *vqFree    `json:"free,omitempty"`
}

type fqStepOut struct {
	Act  fqAct  `json:"act"`
	Obs  fqObs  `json:"obs"`
	Var  string `json:"var,omitempty"`
	Vn   int    `json:"vn"`
	Note string `json:"note,omitempty"`
}

type fqPathOut struct {
	ID      int         `json:"id"`
	InitObs fqObs       `json:"init_obs"`
	Steps   []fqStepOut `json:"steps"`
	Error   string      `json:"error,omitempty"`
}

// per worker: databases that are reset between paths
type vqWorker struct {
	dir      string
	fdb      walletdb.DB
	fs       *filterdb.FilterStore
	bandb    walletdb.DB
	ban      banman.Store
	banDirty bool // the previous path left bans behind
	fdbDirty bool // the previous path wrote to the filter database
}

// vqBanStore is the real ban store plus a note that a ban was written, so
// that the (write-transaction) Status query is only repeated when needed.
type vqBanStore struct {
	banman.Store
	dirty *bool
}

func (b *vqBanStore) BanIPNet(n *net.IPNet, r banman.Reason, d time.Duration) error {
	*b.dirty = true
	return b.Store.BanIPNet(n, r, d)
}

var (
	vqFilterBucket = []byte("filter-store")
	vqRegBucket    = []byte("regular")
)

type fqEnv struct {
	u       *vqUniverse
	st      *vqStores
	w       *vqWorker
	btip    int
	ftip    int
	persist bool
	sched   *vqSched
	cs      *ChainService
	writer  *chanutils.BatchWriter[*filterdb.FilterData]
	callers map[int]*vqCaller
	ret     []int
	rng     *rand.Rand

	mu      sync.Mutex
	staged  []*filterdb.FilterData
	sent    chan struct{}
	ranCode bool // code under test ran since the last barrier
	wg      sync.WaitGroup
	quit1   sync.Once
	vn      *int // variant forced by a replay file
	lastVn  int
}

const fqSentinelType = filterdb.FilterType(255)

func (e *fqEnv) putItems(items ...*filterdb.FilterData) error {
	e.mu.Lock()
	defer e.mu.Unlock()
	for _, it := range items {
		if it != nil && it.Type == fqSentinelType {
			select {
			case e.sent <- struct{}{}:
			default:
			}
			continue
		}
		e.staged = append(e.staged, it)
	}
	return nil
}

// barrier waits until everything the code handed to the batch writer so far
// has come out of its PutItems callback.
func (e *fqEnv) barrier() error {
	if e.writer == nil {
		return nil
	}
	e.writer.AddItem(&filterdb.FilterData{Type: fqSentinelType})
	select {
	case <-e.sent:
		return nil
	case <-time.After(vqStepTimeout):
		return fmt.Errorf("batch writer did not deliver within %v; goroutines:\n%s", vqStepTimeout, vqDump())
	}
}

func newFqEnv(u *vqUniverse, w *vqWorker, init *fqObs, seed int64) (*fqEnv, error) {
	st, err := u.storesFor(init.Btip, init.Ftip)
	if err != nil {
		return nil, err
	}
	e := &fqEnv{u: u, st: st, w: w, btip: init.Btip, ftip: init.Ftip, persist: init.Persist == 1,
		sched: &vqSched{ev: make(chan vqEvent, 4)}, callers: map[int]*vqCaller{},
		ret: []int{vqRUN, vqRUN}, rng: rand.New(rand.NewSource(seed)), sent: make(chan struct{}, 1)}
	// reset the filter database to what filterdb.New leaves behind (the
	// genesis filter only)
	if w.fdbDirty {
		err := walletdb.Update(w.fdb, func(tx walletdb.ReadWriteTx) error {
			top := tx.ReadWriteBucket(vqFilterBucket)
			if top == nil {
				return errors.New("no filter bucket")
			}
			if err := top.DeleteNestedBucket(vqRegBucket); err != nil {
				return err
			}
			reg, err := top.CreateBucket(vqRegBucket)
			if err != nil {
				return err
			}
			return reg.Put(u.hashes[0][:], u.fbytes[0])
		})
		if err != nil {
			return nil, err
		}
		w.fdbDirty = false
	}
	// initial database state class "placeholder entry": written through the
	// real exported API (PutFilters with a nil Filter)
	for b, v := range init.Db {
		if v == 2 && b <= init.Btip {
			w.fdbDirty = true
			err := w.fs.PutFilters(&filterdb.FilterData{Filter: nil, BlockHash: &u.hashes[b],
				Type: filterdb.RegularFilter})
			if err != nil {
				return nil, err
			}
		}
	}
	e.cs = &ChainService{
		FilterDB:         &vqFilterDB{FilterDatabase: w.fs, s: e.sched, dirty: &w.fdbDirty},
		BlockHeaders:     &vqHeaders{BlockHeaderStore: st.b, s: e.sched, gate: true},
		RegFilterHeaders: st.f,
		persistToDisk:    e.persist,
		FilterCache:      lru.NewCache[FilterCacheKey, *CacheableFilter](DefaultFilterCacheSize),
		BlockCache:       lru.NewCache[wire.InvVect, *CacheableBlock](DefaultBlockCacheSize),
		chainParams:      u.params,
		timeSource:       blockchain.NewMedianTime(),
		workManager:      &vqDispatcher{s: e.sched},
		quit:             make(chan struct{}),
	}
	if e.persist {
		e.writer = chanutils.NewBatchWriter[*filterdb.FilterData](&chanutils.BatchWriterConfig[*filterdb.FilterData]{
			QueueBufferSize:        chanutils.DefaultQueueSize,
			MaxBatch:               10,
			DBWritesTickerDuration: 100 * time.Microsecond,
			PutItems:               e.putItems,
		})
		e.cs.filterBatchWriter = e.writer
		e.writer.Start()
	}
	return e, nil
}

func (e *fqEnv) close() {
	e.sched.stopped = true
	// let parked callers run to completion so that no goroutine leaks
	for _, c := range e.callers {
		if c.at != "returned" && c.at != "" {
			if c.at == "query" {
				select {
				case c.errChan <- errors.New("verif: path ended"):
				default:
				}
			} else {
				select {
				case c.release <- struct{}{}:
				case <-time.After(time.Second):
				}
			}
		}
	}
	e.quit1.Do(func() { close(e.cs.quit) })
	done := make(chan struct{})
	go func() { e.wg.Wait(); close(done) }()
	select {
	case <-done:
	case <-time.After(10 * time.Second):
	}
	if e.writer != nil {
		e.writer.Stop()
	}
}

// classify returns the block id whose true filter f is (and whose committed
// filter header it reproduces), or vqG.
func (e *fqEnv) classify(f *gcs.Filter, want int) int {
	if f == nil {
		return vqG
	}
	nb, err := f.NBytes()
	if err != nil {
		return vqG
	}
	check := func(b int) bool {
		if b < 0 || b > e.btip || !bytes.Equal(nb, e.u.fbytes[b]) {
			return false
		}
		// recompute against what the REAL filter header store has committed
		if b > e.ftip {
			return false
		}
		cur, err := e.st.f.FetchHeaderByHeight(uint32(b))
		if err != nil {
			return false
		}
		prev := chainhash.Hash{}
		if b > 0 {
			p, err := e.st.f.FetchHeaderByHeight(uint32(b - 1))
			if err != nil {
				return false
			}
			prev = *p
		}
		return vqFilterHeader(nb, prev) == *cur
	}
	if check(want) {
		return want
	}
	for b := 0; b <= e.btip; b++ {
		if check(b) {
			return b
		}
	}
	return vqG
}

func (e *fqEnv) observe() (fqObs, error) {
	n := e.btip + 1
	o := fqObs{Ret: append([]int(nil), e.ret...), Cache: vqFill(n, 0), Db: vqFill(n, 0), Wq: vqFill(n, 0),
		Btip: -1, Ftip: -1}
	if e.persist {
		o.Persist = 1
	}
	if e.ranCode {
		if err := e.barrier(); err != nil {
			return o, err
		}
		e.ranCode = false
	}
	if _, h, err := e.st.b.ChainTip(); err == nil {
		o.Btip = int(h)
	}
	if _, h, err := e.st.f.ChainTip(); err == nil {
		o.Ftip = int(h)
	}
	mark := func(arr []int, id int, f *gcs.Filter, count bool) {
		ok := f != nil
		var nb []byte
		if ok {
			var err error
			nb, err = f.NBytes()
			ok = err == nil && bytes.Equal(nb, e.u.fbytes[id])
		}
		switch {
		case !ok:
			arr[id] = vqG
		case arr[id] == vqG:
		case count:
			arr[id]++
		default:
			arr[id] = 1
		}
	}
	e.cs.FilterCache.Range(func(k FilterCacheKey, v *CacheableFilter) bool {
		id := e.u.idOf(k.BlockHash, e.btip)
		if id < 0 || k.FilterType != filterdb.RegularFilter {
			o.Cx++
			return true
		}
		var f *gcs.Filter
		if v != nil {
			f = v.Filter
		}
		mark(o.Cache, id, f, false)
		return true
	})
	// The database CONTENTS are read straight from the bucket (inside the
	// read transaction) so that the projection does not depend on the read
	// path under test; FilterStore.FetchFilter itself is judged where the
	// client uses it (DbLookup -> Return).
	err := walletdb.View(e.w.fdb, func(tx walletdb.ReadTx) error {
		top := tx.ReadBucket(vqFilterBucket)
		if top == nil {
			return errors.New("no filter bucket")
		}
		return top.ForEach(func(k, v []byte) error {
			sub := top.NestedReadBucket(k)
			if sub == nil || !bytes.Equal(k, vqRegBucket) {
				o.Dx++
				return nil
			}
			return sub.ForEach(func(k, v []byte) error {
				var h chainhash.Hash
				if len(k) != 32 {
					o.Dx++
					return nil
				}
				copy(h[:], k)
				id := e.u.idOf(h, e.btip)
				switch {
				case id < 0:
					o.Dx++
				case len(v) == 0:
					o.Db[id] = 2 // placeholder: block known, no filter stored
				case bytes.Equal(v, e.u.fbytes[id]):
					o.Db[id] = 1
				default:
					o.Db[id] = vqG
				}
				return nil
			})
		})
	})
	if err != nil {
		return o, err
	}
	e.mu.Lock()
	for _, it := range e.staged {
		if it == nil || it.BlockHash == nil || it.Type != filterdb.RegularFilter {
			o.Wx++
			continue
		}
		id := e.u.idOf(*it.BlockHash, e.btip)
		if id < 0 {
			o.Wx++
			continue
		}
		mark(o.Wq, id, it.Filter, true)
	}
	e.mu.Unlock()
	return o, nil
}

// message builds the peer response of class k about block b.
func (e *fqEnv) message(k string, b int) (wire.Message, string) {
	u := e.u
	v := e.rng.Intn(1 << 20)
	if e.vn != nil {
		v = *e.vn
	}
	e.lastVn = v
	hash := u.hashOf(b, e.btip)
	tb := u.foreignBytes
	if b >= 0 && b <= e.btip {
		tb = u.fbytes[b]
	}
	cf := func(data []byte) *wire.MsgCFilter {
		return &wire.MsgCFilter{FilterType: wire.GCSFilterRegular, BlockHash: hash,
			Data: append([]byte(nil), data...)}
	}
	switch k {
	case "true", "dup":
		return cf(tb), k
	case "wrongtype":
		m := cf(tb)
		m.FilterType = wire.FilterType(1 + v%3)
		return m, fmt.Sprintf("wrongtype/%d", m.FilterType)
	case "wrong":
		switch v % 5 {
		case 0: // the true filter of another block under b's hash
			o := (b % e.btip) + 1
			if o == b {
				o = 0
			}
			return cf(u.fbytes[o]), fmt.Sprintf("wrong/other-block-%d", o)
		case 1: // b's filter with one script left out
			ps := u.prevScr[b]
			f, err := builder.BuildBasicFilter(u.blocks[b], ps[:len(ps)-1])
			if err == nil {
				nb, _ := f.NBytes()
				return cf(nb), "wrong/script-omitted"
			}
		case 2: // b's filter with one extra element
			ps := append(append([][]byte(nil), u.prevScr[b]...), []byte{0x51, byte(v)})
			f, err := builder.BuildBasicFilter(u.blocks[b], ps)
			if err == nil {
				nb, _ := f.NBytes()
				return cf(nb), "wrong/extra-element"
			}
		case 3: // an empty filter
			return cf([]byte{0x00}), "wrong/empty-filter"
		}
		nb := append([]byte(nil), tb...)
		nb[len(nb)-1] ^= 0x01
		return cf(nb), "wrong/bit-flipped"
	case "malformed":
		switch v % 6 {
		case 0:
			return cf(nil), "malformed/no-data"
		case 1:
			return cf([]byte{0xfd}), "malformed/truncated-varint"
		case 2:
			return cf(append([]byte{0xff, 0, 0, 0, 0, 1, 0, 0, 0}, tb[1:]...)), "malformed/N-too-big"
		case 3:
			return cf(tb[:len(tb)/2]), "malformed/truncated"
		case 4:
			return cf(append([]byte{0xfd, tb[0], 0x00}, tb[1:]...)), "malformed/non-canonical-varint"
		}
		return cf(append(append([]byte(nil), tb...), 0x00, 0x00)), "malformed/trailing-bytes"
	case "noncf":
		switch v % 4 {
		case 0:
			return &wire.MsgCFHeaders{FilterType: wire.GCSFilterRegular, StopHash: hash}, "noncf/cfheaders"
		case 1:
			return u.blocks[1].Copy(), "noncf/block"
		case 2:
			return wire.NewMsgCFCheckpt(wire.GCSFilterRegular, &hash, 0), "noncf/cfcheckpt"
		}
		return wire.NewMsgNotFound(), "noncf/notfound"
	}
	return wire.NewMsgNotFound(), "unknown-class"
}

func (e *fqEnv) reqRange(c *vqCaller) (int, int) {
	if c == nil || len(c.reqs) != 1 {
		return vqRUN, vqRUN
	}
	m, ok := c.reqs[0].Req.(*wire.MsgGetCFilters)
	if !ok {
		return vqG, vqG
	}
	hi := e.u.idOf(m.StopHash, e.btip)
	if hi < 0 {
		hi = vqG
	}
	return int(m.StartHeight), hi
}

func (e *fqEnv) startCall(c *vqCaller) error {
	var opts []QueryOption
	switch c.mode {
	case "fwd":
		opts = append(opts, OptimisticBatch())
	case "rev":
		opts = append(opts, OptimisticReverseBatch())
	}
	if c.cap > 0 {
		opts = append(opts, MaxBatchSize(int64(c.cap)))
	}
	hash := e.u.hashOf(c.tgt, e.btip)
	e.sched.cur = c
	e.wg.Add(1)
	go func() {
		defer e.wg.Done()
		defer func() {
			if r := recover(); r != nil {
				c.panicV = fmt.Sprintf("%v\n%s", r, vqDump())
			}
			e.sched.ev <- vqEvent{c.id, "returned"}
		}()
		c.filter, c.err = e.cs.GetCFilter(hash, wire.GCSFilterRegular, opts...)
	}()
	return e.sched.wait(c)
}

// exec applies one model step to the real code.  The returned error is a
// machinery error.
func (e *fqEnv) exec(a fqAct) (fqAct, string, error) {
	e.ranCode = true
	out := a
	out.Lo, out.Hi = vqRUN, vqRUN
	variant := ""
	if a.Op == "Flush" {
		if err := e.barrier(); err != nil {
			return out, "", err
		}
		e.mu.Lock()
		items := e.staged
		e.staged = nil
		e.mu.Unlock()
		out.Res = "ok"
		if len(items) > 0 {
			e.w.fdbDirty = true
			if err := e.w.fs.PutFilters(items...); err != nil {
				out.Res = "err"
			}
		}
		return out, "", nil
	}
	c := e.callers[a.C]
	if a.Op == "CacheLookup" {
		if c != nil {
			out.Res = "na"
			return out, "", nil
		}
		c = &vqCaller{id: a.C, release: make(chan struct{}), tgt: a.Tgt, mode: a.M, cap: a.Cap}
		e.callers[a.C] = c
		if err := e.startCall(c); err != nil {
			return out, "", err
		}
		switch {
		case c.at == "db-in":
			out.Res = "miss"
		case c.at == "returned" && c.panicV != nil:
			out.Res = "panic"
		case c.at == "returned" && c.err == nil:
			out.Res = "hit"
		default:
			out.Res = "err"
		}
		return out, "", nil
	}
	if c == nil {
		out.Res = "na"
		return out, "", nil
	}
	out.Tgt, out.M, out.Cap = c.tgt, c.mode, c.cap
	step := func(from string) (bool, error) {
		if c.at != from {
			out.Res = "na"
			return false, nil
		}
		if err := e.sched.resume(c); err != nil {
			return false, err
		}
		if c.at == "returned" && c.panicV != nil {
			out.Res = "panic"
			return false, nil
		}
		return true, nil
	}
	switch a.Op {
	case "DbLookup":
		ok, err := step("db-in")
		if err != nil || !ok {
			return out, "", err
		}
		switch {
		case c.at == "db-out":
			out.Res = "miss"
		case c.at == "returned" && c.err == nil:
			out.Res = "hit"
		default:
			out.Res = "err"
		}
	case "Lock":
		ok, err := step("db-out")
		if err != nil || !ok {
			return out, "", err
		}
		out.Res = "ok"
	case "CacheLookup2":
		// performed by the code right after Lock; nothing can intervene
		switch {
		case c.at == "prep":
			out.Res = "miss"
		case c.at == "returned" && c.err == nil:
			out.Res = "hit"
		case c.at == "returned":
			out.Res = "err"
		default:
			out.Res = "na"
		}
	case "Prepare":
		ok, err := step("prep")
		if err != nil || !ok {
			return out, "", err
		}
		if c.at == "submit" {
			out.Res = "ok"
		} else {
			out.Res = "err"
		}
	case "Submit":
		if c.at != "submit" {
			out.Res = "na"
			return out, "", nil
		}
		// Query returns the error channel; the caller blocks on it.
		e.sched.cur = c
		c.release <- struct{}{}
		c.at = "query"
		out.Lo, out.Hi = e.reqRange(c)
		out.Res = "ok"
		if len(c.reqs) != 1 {
			out.Res = "err"
		}
	case "Resp":
		if c.at != "query" || len(c.reqs) != 1 {
			out.Res = "na"
			return out, "", nil
		}
		out.Lo, out.Hi = e.reqRange(c)
		var msg wire.Message
		msg, variant = e.message(a.K, a.B)
		peer := fmt.Sprintf("10.0.0.%d:18444", 1+e.rng.Intn(3))
		func() {
			defer func() {
				if r := recover(); r != nil {
					out.Res = "panic"
					variant += fmt.Sprintf(" panic: %v", r)
				}
			}()
			out.Res = vqProgress(c.reqs[0].HandleResp(c.reqs[0].Req, msg, peer))
		}()
	case "Verdict":
		if c.at != "query" {
			out.Res = "na"
			return out, "", nil
		}
		out.Lo, out.Hi = e.reqRange(c)
		if a.K == "ok" {
			c.errChan <- nil
		} else {
			c.errChan <- errors.New("verif: dispatcher reports failure")
		}
		e.sched.cur = c
		if err := e.sched.wait(c); err != nil {
			return out, "", err
		}
		out.Res = "ok"
		if c.panicV != nil {
			out.Res = "panic"
		}
	case "Return":
		if c.at != "returned" {
			out.Res = "na"
			return out, "", nil
		}
		switch {
		case c.panicV != nil:
			e.ret[c.id-1] = vqERR
			out.Res = "panic"
			variant = fmt.Sprint(c.panicV)
		case c.err != nil:
			e.ret[c.id-1] = vqERR
			out.Res = "err"
		default:
			e.ret[c.id-1] = e.classify(c.filter, c.tgt)
			out.Res = "ok"
		}
	default:
		out.Res = "na"
	}
	return out, variant, nil
}

func fqRunPath(u *vqUniverse, w *vqWorker, p fqPathIn, seed int64) (out fqPathOut) {
	out.ID = p.ID
	if p.InitObs == nil {
		out.Error = "path without init_obs"
		return
	}
	e, err := newFqEnv(u, w, p.InitObs, seed*1000003+int64(p.ID))
	if err != nil {
		out.Error = "env: " + err.Error()
		out.InitObs = *p.InitObs
		return
	}
	defer e.close()
	if out.InitObs, err = e.observe(); err != nil {
		out.Error = err.Error()
		return
	}
	if p.Free != nil {
		out.Steps, err = e.runFree(p.Free)
		if err != nil {
			out.Error = "free run: " + err.Error()
		}
		return
	}
	for _, s := range p.Steps {
		e.vn, e.lastVn = s.Vn, 0
		a, variant, err := e.exec(s.Act)
		var hang *vqHang
		if errors.As(err, &hang) {
			// the call does not come back: the outcome of this step
			vqHangs.Add(1)
			a.Res, variant, err = "hang", hang.msg, nil
		}
		if err != nil {
			out.Error = fmt.Sprintf("step %d (%s): %v", len(out.Steps)+1, s.Act.Op, err)
			return
		}
		o, err := e.observe()
		if err != nil {
			out.Error = fmt.Sprintf("observe after step %d: %v", len(out.Steps)+1, err)
			return
		}
		out.Steps = append(out.Steps, fqStepOut{Act: a, Obs: o, Var: variant, Vn: e.lastVn})
		if hang != nil {
			return // nothing more can be fed to a call that is stuck
		}
	}
	return
}

func vqNewWorker(dir string) (*vqWorker, error) {
	w := &vqWorker{dir: dir}
	if err := os.MkdirAll(dir, 0o755); err != nil {
		return nil, err
	}
	var err error
	w.fdb, err = walletdb.Create("bdb", filepath.Join(dir, "filters.db"), true, 10*time.Second, false)
	if err != nil {
		return nil, err
	}
	if w.fs, err = filterdb.New(&vqStrictDB{DB: w.fdb}, chaincfg.RegressionNetParams); err != nil {
		return nil, err
	}
	w.fdbDirty = true
	w.bandb, err = walletdb.Create("bdb", filepath.Join(dir, "bans.db"), true, 10*time.Second, false)
	return w, err
}

func (w *vqWorker) close() {
	if w.fdb != nil {
		w.fdb.Close()
	}
	if w.bandb != nil {
		w.bandb.Close()
	}
}

// vqReplay is the common worker pool.
func vqReplay(t *testing.T, run func(u *vqUniverse, w *vqWorker, line []byte, seed int64) ([]byte, error)) {
	pathsFn, outFn := os.Getenv("VERIF_PATHS"), os.Getenv("VERIF_OUT")
	if pathsFn == "" || outFn == "" {
		t.Skip("VERIF_PATHS / VERIF_OUT not set")
	}
	scratch := os.Getenv("VERIF_SCRATCH")
	if scratch == "" {
		scratch = os.TempDir()
	}
	dir, err := os.MkdirTemp(scratch, "vq-")
	if err != nil {
		t.Fatal(err)
	}
	defer os.RemoveAll(dir)
	seed := vqSeed()
	u, err := vqNewUniverse(seed, dir)
	if err != nil {
		t.Fatalf("universe: %v", err)
	}
	defer u.closeStores()

	var lines [][]byte
	if err := vqReadLines(pathsFn, func(l []byte) error {
		lines = append(lines, append([]byte(nil), l...))
		return nil
	}); err != nil {
		t.Fatal(err)
	}
	outF, err := os.Create(outFn)
	if err != nil {
		t.Fatal(err)
	}
	bw := bufio.NewWriterSize(outF, 1<<20)
	var outMu sync.Mutex
	jobs := make(chan []byte, 64)
	var wg sync.WaitGroup
	nw := runtime.NumCPU()
	if nw > len(lines) {
		nw = len(lines)
	}
	if nw < 1 {
		nw = 1
	}
	errs := make(chan error, nw)
	for i := 0; i < nw; i++ {
		w, err := vqNewWorker(filepath.Join(dir, fmt.Sprintf("w%d", i)))
		if err != nil {
			t.Fatalf("worker: %v", err)
		}
		wg.Add(1)
		go func(w *vqWorker) {
			defer wg.Done()
			defer w.close()
			for l := range jobs {
				if vqHangs.Load() >= vqMaxHangs {
					var hd struct {
						ID      int             `json:"id"`
						InitObs json.RawMessage `json:"init_obs"`
					}
					if json.Unmarshal(l, &hd) == nil {
						res, _ := json.Marshal(map[string]interface{}{"id": hd.ID, "init_obs": hd.InitObs,
							"steps": []int{}, "skipped": "too many hung calls in this run"})
						outMu.Lock()
						bw.Write(res)
						bw.WriteByte('\n')
						outMu.Unlock()
					}
					continue
				}
				res, err := run(u, w, l, seed)
				if err != nil {
					select {
					case errs <- err:
					default:
					}
					continue
				}
				outMu.Lock()
				bw.Write(res)
				bw.WriteByte('\n')
				if len(lines) <= 4096 {
					bw.Flush() // small runs (free-running scenarios): keep finished traces if one hangs
				}
				outMu.Unlock()
			}
		}(w)
	}
	for _, l := range lines {
		jobs <- l
	}
	close(jobs)
	wg.Wait()
	if err := bw.Flush(); err != nil {
		t.Fatal(err)
	}
	outF.Close()
	select {
	case err := <-errs:
		t.Fatalf("driver: %v", err)
	default:
	}
}

func TestVerifFilterQueryReplay(t *testing.T) {
	vqReplay(t, func(u *vqUniverse, w *vqWorker, line []byte, seed int64) ([]byte, error) {
		var p fqPathIn
		if err := json.Unmarshal(line, &p); err != nil {
			return nil, err
		}
		return json.Marshal(fqRunPath(u, w, p, seed))
	})
}

// ==========================================================================
// BlockQuery (C06)
// ==========================================================================

type bqAct struct {
	Op  string `json:"op"`
	Tgt int    `json:"tgt"`
	K   string `json:"k"`
	B   int    `json:"b"`
	P   int    `json:"p"`
	Res string `json:"res"`
}

type bqObs struct {
	Ret    int   `json:"ret"`
	Cache  []int `json:"cache"`
	Cx     int   `json:"cx"`
	Fut    []int `json:"fut"`
	Banned []int `json:"banned"`
}

type bqStepIn struct {
	Act bqAct `json:"act"`
	Vn  *int  `json:"vn,omitempty"`
}

type bqPathIn struct {
	ID      int        `json:"id"`
	InitObs *bqObs     `json:"init_obs"`
	Steps   []bqStepIn `json:"steps"`
	Free    *vqFree    `json:"free,omitempty"`
}

type bqStepOut struct {
	Act  bqAct  `json:"act"`
	Obs  bqObs  `json:"obs"`
	Var  string `json:"var,omitempty"`
	Vn   int    `json:"vn"`
	Note string `json:"note,omitempty"`
}

type bqPathOut struct {
	ID      int         `json:"id"`
	InitObs bqObs       `json:"init_obs"`
	Steps   []bqStepOut `json:"steps"`
	Error   string      `json:"error,omitempty"`
}

type bqEnv struct {
	u     *vqUniverse
	st    *vqStores
	w     *vqWorker
	nb    int
	np    int
	sched *vqSched
	cs    *ChainService
	ban   banman.Store
	dirty bool
	bobs  []int
	call  *vqCaller
	ncall int
	ret   int
	last  wire.Message
	rng   *rand.Rand
	done  chan struct{}
	wg    sync.WaitGroup
	quit1 sync.Once
	vn     *int
	lastVn int
	// fut[b-1] = 1: the stored header of block b is future-dated (only the
	// top block of the store can be: its children would have to build on it)
	fut []int
}

// Model block ids -> concrete blocks of THIS path's store: 1..nb are the
// stored blocks (the top one future-dated if the path says so), nb+1 (and
// anything else) is a block the store does not know.
func (e *bqEnv) isFut(b int) bool { return b >= 1 && b <= e.nb && e.fut[b-1] == 1 }

func (e *bqEnv) blockOf(b int) *wire.MsgBlock {
	if e.isFut(b) {
		return e.u.fut[b]
	}
	return e.u.blockOf(b, e.nb)
}

func (e *bqEnv) hashOf(b int) chainhash.Hash {
	if e.isFut(b) {
		return e.u.futHash[b]
	}
	return e.u.hashOf(b, e.nb)
}

func (e *bqEnv) idOf(h chainhash.Hash) int {
	for b := 1; b <= e.nb; b++ {
		if e.hashOf(b) == h {
			return b
		}
	}
	if id := e.u.idOf(h, e.nb); id == 0 {
		return 0
	}
	return -1
}

func (e *bqEnv) sibling(b, f int) wire.BlockHeader {
	if e.isFut(b) {
		return e.u.futSib[b][f]
	}
	return e.u.siblings[b][f]
}

func bqPeer(p int) string { return fmt.Sprintf("10.0.%d.%d:18444", p, p) }

func newBqEnv(u *vqUniverse, w *vqWorker, init *bqObs, seed int64, pathID int) (*bqEnv, error) {
	nb, np := len(init.Cache), len(init.Banned)
	fut := vqFill(nb, 0)
	copy(fut, init.Fut)
	var st *vqStores
	var err error
	for b := 1; b <= nb; b++ {
		if fut[b-1] != 0 && (fut[b-1] != 1 || b != nb) {
			return nil, fmt.Errorf("future-dated block %d of %d: only the top block of the store can be", b, nb)
		}
	}
	if nb >= 1 && fut[nb-1] == 1 {
		st, err = u.storesForFut(nb)
	} else {
		st, err = u.storesFor(nb, nb)
	}
	if err != nil {
		return nil, err
	}
	e := &bqEnv{u: u, st: st, w: w, nb: nb, np: np, sched: &vqSched{ev: make(chan vqEvent, 4)},
		ret: vqRUN, rng: rand.New(rand.NewSource(seed)), done: make(chan struct{}), fut: fut}
	if w.ban == nil {
		if w.ban, err = banman.NewStore(&vqStrictDB{DB: w.bandb}); err != nil {
			return nil, err
		}
		w.banDirty = true
	}
	if w.banDirty {
		for p := 1; p <= 8; p++ {
			ipn, err := banman.ParseIPNet(bqPeer(p), nil)
			if err != nil {
				return nil, err
			}
			if err := w.ban.UnbanIPNet(ipn); err != nil {
				return nil, err
			}
		}
		w.banDirty = false
	}
	// "not banned" has two concrete forms: no record, and a record that has
	// expired but was not looked up (and thereby purged) since.  Every second
	// path starts with expired records for all peers, planted through the
	// real BanIPNet.  Status is then not called before the first ban (it
	// would purge them); the projection is all zeros until then by
	// construction (the store was just reset).
	e.bobs = vqFill(np, 0)
	if pathID%2 == 0 {
		for p := 1; p <= np; p++ {
			ipn, err := banman.ParseIPNet(bqPeer(p), nil)
			if err != nil {
				return nil, err
			}
			if err := w.ban.BanIPNet(ipn, banman.InvalidBlock, -time.Hour); err != nil {
				return nil, err
			}
		}
		w.banDirty = true
	}
	e.ban = &vqBanStore{Store: w.ban, dirty: &e.dirty}
	e.dirty = false
	e.cs = &ChainService{
		BlockHeaders: &vqHeaders{BlockHeaderStore: st.b, s: e.sched},
		FilterCache:  lru.NewCache[FilterCacheKey, *CacheableFilter](DefaultFilterCacheSize),
		BlockCache:   lru.NewCache[wire.InvVect, *CacheableBlock](DefaultBlockCacheSize),
		chainParams:  u.params,
		timeSource:   blockchain.NewMedianTime(),
		workManager:  &vqDispatcher{s: e.sched},
		banStore:     e.ban,
		query:        make(chan interface{}),
		quit:         make(chan struct{}),
	}
	// BanPeer looks the peer up through the peer handler's query channel in a
	// goroutine of its own; answer "no such peer connected".
	go func() {
		for {
			select {
			case m := <-e.cs.query:
				if g, ok := m.(getPeersMsg); ok {
					g.reply <- nil
				}
			case <-e.done:
				return
			}
		}
	}()
	return e, nil
}

func (e *bqEnv) close() {
	e.sched.stopped = true
	if c := e.call; c != nil && c.at != "returned" && c.at != "done" && c.at != "" {
		if c.at == "query" {
			select {
			case c.errChan <- errors.New("verif: path ended"):
			default:
			}
		} else {
			select {
			case c.release <- struct{}{}:
			case <-time.After(time.Second):
			}
		}
	}
	e.quit1.Do(func() { close(e.cs.quit) })
	done := make(chan struct{})
	go func() { e.wg.Wait(); close(done) }()
	select {
	case <-done:
	case <-time.After(10 * time.Second):
	}
	close(e.done)
}

func (e *bqEnv) classify(blk *btcutil.Block) int {
	if blk == nil {
		return vqG
	}
	m := blk.MsgBlock()
	id := e.idOf(m.BlockHash())
	if id < 1 || !vqBlockOK(m, e.hashOf(id)) {
		return vqG
	}
	return id
}

func (e *bqEnv) observe() (bqObs, error) {
	o := bqObs{Ret: e.ret, Cache: vqFill(e.nb, 0), Banned: vqFill(e.np, 0), Fut: append([]int{}, e.fut...)}
	e.cs.BlockCache.Range(func(k wire.InvVect, v *CacheableBlock) bool {
		id := e.idOf(k.Hash)
		if id < 1 || k.Type != wire.InvTypeWitnessBlock {
			o.Cx++
			return true
		}
		if v == nil || v.Block == nil || e.classify(v.Block) != id {
			o.Cache[id-1] = vqG
		} else if o.Cache[id-1] == 0 {
			o.Cache[id-1] = 1
		}
		return true
	})
	if e.dirty {
		// only a BanIPNet call can have changed the store since the last look
		e.bobs = vqFill(e.np, 0)
		for p := 1; p <= e.np; p++ {
			ipn, err := banman.ParseIPNet(bqPeer(p), nil)
			if err != nil {
				return o, err
			}
			st, err := e.w.ban.Status(ipn)
			if err != nil {
				return o, err
			}
			if st.Banned {
				e.bobs[p-1] = 1
				e.w.banDirty = true
			}
		}
		e.dirty = false
	}
	copy(o.Banned, e.bobs)
	return o, nil
}

// message builds the response of class k (about block b) to a request for
// block tgt.
func (e *bqEnv) message(k string, b, tgt int) (wire.Message, string) {
	u := e.u
	v := e.rng.Intn(1 << 20)
	if e.vn != nil {
		v = *e.vn
	}
	e.lastVn = v
	g := &vqGen{r: e.rng}
	base := func() *wire.MsgBlock { return e.blockOf(tgt).Copy() }
	switch k {
	case "intact":
		return base(), "intact"
	case "dup":
		if e.last == nil {
			return wire.NewMsgNotFound(), "dup/nothing-before"
		}
		var buf bytes.Buffer
		if err := e.last.BtcEncode(&buf, wire.ProtocolVersion, wire.WitnessEncoding); err != nil {
			return e.last, "dup/same-object"
		}
		// a duplicate on the wire is a new message object with the same bytes
		cp, ok := reflect.New(reflect.TypeOf(e.last).Elem()).Interface().(wire.Message)
		if !ok {
			return e.last, "dup/same-object"
		}
		if err := cp.BtcDecode(&buf, wire.ProtocolVersion, wire.WitnessEncoding); err != nil {
			return e.last, "dup/same-object"
		}
		return cp, "dup/re-decoded"
	case "other":
		if b == e.nb+1 && v%2 == 0 {
			// the requested transactions under a different (validly mined) header
			m := base()
			m.Header.Timestamp = m.Header.Timestamp.Add(time.Second)
			target := blockchain.CompactToBig(m.Header.Bits)
			for {
				h := m.Header.BlockHash()
				if blockchain.HashToBig(&h).Cmp(target) <= 0 && u.idOf(h, vqChainLen) < 0 && e.idOf(h) < 0 {
					break
				}
				m.Header.Nonce++
			}
			return m, "other/same-txs-other-header"
		}
		return e.blockOf(b).Copy(), fmt.Sprintf("other/block-%d", b)
	case "sibling":
		// the requested block under a header that differs in one field only
		m := base()
		f := v % 6
		if tgt >= 1 && tgt <= e.nb {
			m.Header = e.sibling(tgt, f)
		} else {
			m.Header = vqSibling(m.Header, f, u.params.PowLimit)
		}
		return m, "sibling/" + vqSiblingField[f] + "-only"
	case "mutated":
		m := base()
		switch v % 4 {
		case 0:
			m.Transactions[1+(v/4)%4].TxOut[0].Value++
			return m, "mutated/output-value"
		case 1:
			m.Transactions[2].TxIn[0].SignatureScript[5] ^= 0x40
			return m, "mutated/legacy-sigscript"
		case 2:
			m.Transactions[1], m.Transactions[2] = m.Transactions[2], m.Transactions[1]
			return m, "mutated/tx-order"
		}
		m.Transactions[0].TxOut[0].PkScript = g.p2wpkh()
		return m, "mutated/coinbase-payout"
	case "added":
		m := base()
		switch v % 3 {
		case 0: // CVE-2012-2459: the merkle root is unchanged
			m.Transactions = append(m.Transactions, m.Transactions[len(m.Transactions)-1].Copy())
			return m, "added/duplicate-of-last-tx"
		case 1:
			m.Transactions = append(m.Transactions, g.segwitTx(1))
			return m, "added/new-tx"
		}
		m.Transactions = append(m.Transactions, m.Transactions[0].Copy())
		return m, "added/second-coinbase"
	case "removed":
		m := base()
		switch v % 4 {
		case 0:
			m.Transactions = m.Transactions[:len(m.Transactions)-1]
			return m, "removed/last-tx"
		case 1:
			m.Transactions = m.Transactions[:1]
			return m, "removed/all-but-coinbase"
		case 2:
			m.Transactions = nil
			return m, "removed/all"
		}
		m.Transactions = m.Transactions[1:]
		return m, "removed/coinbase"
	case "stripped":
		m := base()
		switch v % 3 {
		case 0:
			for _, tx := range m.Transactions {
				for _, in := range tx.TxIn {
					in.Witness = nil
				}
			}
			return m, "stripped/all-witnesses"
		case 1:
			for _, tx := range m.Transactions[1:] {
				for _, in := range tx.TxIn {
					in.Witness = nil
				}
			}
			return m, "stripped/all-but-coinbase"
		}
		m.Transactions[0].TxIn[0].Witness = nil
		return m, "stripped/coinbase-only"
	case "forged":
		m := base()
		switch v % 5 {
		case 0:
			m.Transactions[0].TxIn[0].Witness[0][7] ^= 0x01
			return m, "forged/coinbase-nonce"
		case 1:
			m.Transactions[1].TxIn[0].Witness[0][3] ^= 0x01
			return m, "forged/tx-witness"
		case 2:
			o := m.Transactions[0].TxOut[1]
			o.PkScript[len(o.PkScript)-1] ^= 0x01
			return m, "forged/commitment-output"
		case 3:
			m.Transactions[0].TxIn[0].Witness = wire.TxWitness{make([]byte, 31)}
			return m, "forged/coinbase-nonce-length"
		}
		m.Transactions[0].TxIn[0].Witness = wire.TxWitness{make([]byte, 32), make([]byte, 32)}
		return m, "forged/coinbase-two-items"
	case "nonblock":
		switch v % 4 {
		case 0:
			return e.blockOf(tgt).Transactions[1].Copy(), "nonblock/tx"
		case 1:
			h := e.hashOf(tgt)
			return &wire.MsgCFilter{FilterType: wire.GCSFilterRegular, BlockHash: h, Data: u.fbytes[1]}, "nonblock/cfilter"
		case 2:
			mh := wire.NewMsgHeaders()
			_ = mh.AddBlockHeader(&e.blockOf(tgt).Header)
			return mh, "nonblock/headers"
		}
		return wire.NewMsgNotFound(), "nonblock/notfound"
	}
	return wire.NewMsgNotFound(), "unknown-class"
}

func (e *bqEnv) exec(a bqAct) (bqAct, string, error) {
	out := a
	variant := ""
	c := e.call
	switch a.Op {
	case "HeaderLookup":
		if c != nil && c.at != "done" {
			out.Res = "na"
			return out, "", nil
		}
		e.ncall++
		c = &vqCaller{id: e.ncall, release: make(chan struct{}), tgt: a.Tgt}
		e.call = c
		e.ret = vqRUN
		e.last = nil
		hash := e.hashOf(a.Tgt)
		if a.Tgt < 1 {
			hash = e.u.foreignHash
		}
		e.sched.cur = c
		e.wg.Add(1)
		go func() {
			defer e.wg.Done()
			defer func() {
				if r := recover(); r != nil {
					c.panicV = fmt.Sprintf("%v\n%s", r, vqDump())
				}
				e.sched.ev <- vqEvent{c.id, "returned"}
			}()
			c.block, c.err = e.cs.GetBlock(hash)
		}()
		if err := e.sched.wait(c); err != nil {
			return out, "", err
		}
		switch {
		case c.at == "submit":
			out.Res = "ok"
		case c.panicV != nil:
			out.Res = "panic"
		case c.err != nil:
			out.Res = "err"
		default:
			out.Res = "ok" // header known, served from the cache
		}
	case "CacheLookup":
		switch {
		case c == nil:
			out.Res = "na"
		case c.at == "submit":
			out.Res = "miss"
		case c.at == "returned" && c.err == nil && c.panicV == nil:
			out.Res = "hit"
		default:
			out.Res = "na"
		}
	case "Submit":
		if c == nil || c.at != "submit" {
			out.Res = "na"
			return out, "", nil
		}
		e.sched.cur = c
		c.release <- struct{}{}
		c.at = "query"
		out.Res = "ok"
		if len(c.reqs) != 1 {
			out.Res = "err"
		} else if gd, ok := c.reqs[0].Req.(*wire.MsgGetData); !ok || len(gd.InvList) != 1 ||
			gd.InvList[0].Hash != e.hashOf(c.tgt) {
			out.Res = "err"
		}
	case "Resp":
		if c == nil || c.at != "query" || len(c.reqs) != 1 {
			out.Res = "na"
			return out, "", nil
		}
		var msg wire.Message
		msg, variant = e.message(a.K, a.B, c.tgt)
		e.last = msg
		func() {
			defer func() {
				if r := recover(); r != nil {
					out.Res = "panic"
					variant += fmt.Sprintf(" panic: %v", r)
				}
			}()
			out.Res = vqProgress(c.reqs[0].HandleResp(c.reqs[0].Req, msg, bqPeer(a.P)))
		}()
	case "Verdict":
		if c == nil || c.at != "query" {
			out.Res = "na"
			return out, "", nil
		}
		if a.K == "ok" {
			c.errChan <- nil
		} else {
			c.errChan <- errors.New("verif: dispatcher reports failure")
		}
		e.sched.cur = c
		if err := e.sched.wait(c); err != nil {
			return out, "", err
		}
		out.Res = "ok"
		if c.panicV != nil {
			out.Res = "panic"
		}
	case "Return":
		if c == nil || c.at != "returned" {
			out.Res = "na"
			return out, "", nil
		}
		switch {
		case c.panicV != nil:
			e.ret = vqERR
			out.Res = "panic"
			variant = fmt.Sprint(c.panicV)
		case c.err != nil:
			e.ret = vqERR
			out.Res = "err"
		default:
			e.ret = e.classify(c.block)
			out.Res = "ok"
		}
		c.at = "done"
	default:
		out.Res = "na"
	}
	return out, variant, nil
}

func bqRunPath(u *vqUniverse, w *vqWorker, p bqPathIn, seed int64) (out bqPathOut) {
	out.ID = p.ID
	if p.InitObs == nil {
		out.Error = "path without init_obs"
		return
	}
	e, err := newBqEnv(u, w, p.InitObs, seed*1000003+int64(p.ID), p.ID)
	if err != nil {
		out.Error = "env: " + err.Error()
		out.InitObs = *p.InitObs
		return
	}
	defer e.close()
	if out.InitObs, err = e.observe(); err != nil {
		out.Error = err.Error()
		return
	}
	if p.Free != nil {
		out.Steps, err = e.runFree(p.Free)
		if err != nil {
			out.Error = "free run: " + err.Error()
		}
		return
	}
	for _, s := range p.Steps {
		e.vn, e.lastVn = s.Vn, 0
		a, variant, err := e.exec(s.Act)
		var hang *vqHang
		if errors.As(err, &hang) {
			// the call does not come back: the outcome of this step
			vqHangs.Add(1)
			a.Res, variant, err = "hang", hang.msg, nil
		}
		if err != nil {
			out.Error = fmt.Sprintf("step %d (%s): %v", len(out.Steps)+1, s.Act.Op, err)
			return
		}
		o, err := e.observe()
		if err != nil {
			out.Error = fmt.Sprintf("observe after step %d: %v", len(out.Steps)+1, err)
			return
		}
		out.Steps = append(out.Steps, bqStepOut{Act: a, Obs: o, Var: variant, Vn: e.lastVn})
		if hang != nil {
			return // nothing more can be fed to a call that is stuck
		}
	}
	return
}

func TestVerifBlockQueryReplay(t *testing.T) {
	vqReplay(t, func(u *vqUniverse, w *vqWorker, line []byte, seed int64) ([]byte, error) {
		var p bqPathIn
		if err := json.Unmarshal(line, &p); err != nil {
			return nil, err
		}
		return json.Marshal(bqRunPath(u, w, p, seed))
	})
}

// ==========================================================================
// Free-running mode: the REAL query.WorkManager (dispatcher + workers) with
// scripted mock peers.  The order of events is whatever the dispatcher makes
// it; every handler invocation is logged (with the projected state) under one
// mutex, and the recorded trace is judged by the same Props operators and
// checked to be a behaviour of the specification (walk of TLC's state graph).
// ==========================================================================

type vqFreeItem struct {
	K string `json:"k"`
	B int    `json:"b"`
}

type vqFreePeerSpec struct {
	P      int          `json:"p"`
	Script []vqFreeItem `json:"script"`
	// "disconnect": hangs up after the script; "silent": says nothing more;
	// "chatter": keeps sending the unrelated messages of Chatter, one every
	// 400 ms, for as long as it is connected (never the requested item).
	End     string       `json:"end"`
	Chatter []vqFreeItem `json:"chatter,omitempty"`
}

type vqFreeCall struct {
	Tgt     int              `json:"tgt"`
	M       string           `json:"m"`
	Cap     int              `json:"cap"`
	Retries int              `json:"retries"`
	Peers   []vqFreePeerSpec `json:"peers"`
	// BoundS: wall-clock bound of the call in seconds.  The scenarios are
	// built so that the unchanged code returns within milliseconds (all
	// peers answer and hang up) or within the dispatcher's job timeouts
	// (2 s, 4 s, ... per silent / chattering peer); the bound is far above.
	BoundS int `json:"bound_s"`
}

const vqChatterEvery = 400 * time.Millisecond

// vqBounded runs f and reports whether it returned within the bound; if not,
// the goroutine dump taken at expiry is returned.
func vqBounded(bound time.Duration, f func()) (bool, string) {
	done := make(chan struct{})
	go func() {
		defer close(done)
		f()
	}()
	select {
	case <-done:
		return true, ""
	case <-time.After(bound):
		return false, vqDump()
	}
}

// vqLockFor takes mu unless it cannot be had within d (a stuck handler).
func vqLockFor(mu *sync.Mutex, d time.Duration) bool {
	for end := time.Now().Add(d); time.Now().Before(end); time.Sleep(10 * time.Millisecond) {
		if mu.TryLock() {
			return true
		}
	}
	return false
}

type vqFree struct {
	Calls []vqFreeCall `json:"calls"`
}

type vqSent struct {
	k, variant string
	b, vn      int
}

type vqNet struct {
	mu     sync.Mutex // serialises handler invocations and logging
	smu    sync.Mutex
	sent   map[wire.Message]vqSent
	done   chan struct{}
	peerCh chan query.Peer
	peers  map[int]*vqMockPeer
	byAddr map[string]int
	wm     query.WorkManager
	build  func(k string, b int, chatter bool) (wire.Message, string, int)
	addr   func(p int) string
}

type vqMockPeer struct {
	net    *vqNet
	p      int
	addr   string
	quit   chan struct{}
	reqs   chan wire.Message
	mu     sync.Mutex
	subs   []chan wire.Message
	script  []vqFreeItem
	chatter []vqFreeItem
	end     string
	once    sync.Once
}

func (m *vqMockPeer) QueueMessageWithEncoding(msg wire.Message, done chan<- struct{}, _ wire.MessageEncoding) {
	select {
	case m.reqs <- msg:
	case <-m.net.done:
	case <-m.quit:
	}
	if done != nil {
		close(done)
	}
}

func (m *vqMockPeer) SubscribeRecvMsg() (<-chan wire.Message, func()) {
	ch := make(chan wire.Message)
	m.mu.Lock()
	m.subs = append(m.subs, ch)
	m.mu.Unlock()
	return ch, func() {}
}

func (m *vqMockPeer) Addr() string                  { return m.addr }
func (m *vqMockPeer) OnDisconnect() <-chan struct{} { return m.quit }

func (m *vqMockPeer) run() {
	for {
		select {
		case <-m.reqs:
		case <-m.net.done:
			return
		case <-m.quit:
			return
		}
		m.mu.Lock()
		script, end := m.script, m.end
		m.script = nil
		subs := append([]chan wire.Message(nil), m.subs...)
		m.mu.Unlock()
		send := func(it vqFreeItem, chatter bool) bool {
			msg, variant, vn := m.net.build(it.K, it.B, chatter)
			m.net.smu.Lock()
			m.net.sent[msg] = vqSent{k: it.K, b: it.B, variant: variant, vn: vn}
			m.net.smu.Unlock()
			for _, ch := range subs {
				select {
				case ch <- msg:
				case <-m.net.done:
					return false
				case <-m.quit:
					return false
				case <-time.After(10 * time.Second):
				}
			}
			return true
		}
		for _, it := range script {
			if !send(it, false) {
				return
			}
		}
		if end == "disconnect" && script != nil {
			m.disconnect()
			return
		}
		if end == "chatter" && script != nil && len(m.chatter) > 0 {
			for i := 0; ; i++ {
				select {
				case <-time.After(vqChatterEvery):
				case <-m.net.done:
					return
				case <-m.quit:
					return
				}
				if !send(m.chatter[i%len(m.chatter)], true) {
					return
				}
			}
		}
	}
}

func newVqNet(build func(k string, b int, chatter bool) (wire.Message, string, int), addr func(p int) string) *vqNet {
	n := &vqNet{sent: map[wire.Message]vqSent{}, done: make(chan struct{}), peerCh: make(chan query.Peer, 16),
		peers: map[int]*vqMockPeer{}, build: build, addr: addr}
	n.wm = query.NewWorkManager(&query.Config{
		ConnectedPeers: func() (<-chan query.Peer, func(), error) { return n.peerCh, func() {}, nil },
		NewWorker:      query.NewWorker,
		Ranking:        query.NewPeerRanking(),
	})
	return n
}

// arm connects a fresh set of peers for one call, each with its script, and
// disconnects whatever is left of the previous call's peers.  A peer keeps
// its IP address (its identity for the ban store) across calls and takes a
// new port, as a reconnecting peer would.
func (n *vqNet) arm(call int, specs []vqFreePeerSpec) {
	for _, m := range n.peers {
		m.disconnect()
	}
	n.peers = map[int]*vqMockPeer{}
	n.byAddr = map[string]int{}
	for _, sp := range specs {
		host, _, _ := net.SplitHostPort(n.addr(sp.P))
		addr := net.JoinHostPort(host, strconv.Itoa(18444+call))
		m := &vqMockPeer{net: n, p: sp.P, addr: addr, quit: make(chan struct{}),
			reqs: make(chan wire.Message, 4), script: append([]vqFreeItem{}, sp.Script...), end: sp.End,
			chatter: sp.Chatter}
		n.peers[sp.P] = m
		n.byAddr[addr] = sp.P
		go m.run()
		n.peerCh <- m
	}
}

func (m *vqMockPeer) disconnect() { m.once.Do(func() { close(m.quit) }) }

func (n *vqNet) peerIndex(addr string) int { return n.byAddr[addr] }

// tracing work manager: the real one, with every handler call logged
type vqTraceWM struct {
	n        *vqNet
	onSubmit func(reqs []*query.Request)
	onResp   func(info vqSent, known bool, peer string, res string)
	verdict  chan error
}

func (w *vqTraceWM) Start() error { return w.n.wm.Start() }
func (w *vqTraceWM) Stop() error  { return w.n.wm.Stop() }
func (w *vqTraceWM) Query(reqs []*query.Request, opts ...query.QueryOption) chan error {
	w.n.mu.Lock()
	w.onSubmit(reqs)
	w.n.mu.Unlock()
	for _, r := range reqs {
		orig := r.HandleResp
		r.HandleResp = func(req, resp wire.Message, peer string) (p query.Progress) {
			w.n.mu.Lock()
			defer w.n.mu.Unlock()
			res := ""
			func() {
				defer func() {
					if r := recover(); r != nil {
						res = "panic"
					}
				}()
				p = orig(req, resp, peer)
				res = vqProgress(p)
			}()
			w.n.smu.Lock()
			info, known := w.n.sent[resp]
			w.n.smu.Unlock()
			w.onResp(info, known, peer, res)
			return p
		}
	}
	ch := w.n.wm.Query(reqs, opts...)
	out := make(chan error, 1)
	go func() {
		select {
		case err := <-ch:
			w.verdict <- err
			out <- err
		case <-w.n.done:
		}
	}()
	return out
}

// ---- BlockQuery, free-running

func (e *bqEnv) runFree(f *vqFree) ([]bqStepOut, error) {
	var steps []bqStepOut
	var bmu sync.Mutex
	net := newVqNet(nil, bqPeer)
	tgt := 0
	net.build = func(k string, b int, chatter bool) (wire.Message, string, int) {
		bmu.Lock()
		defer bmu.Unlock()
		m, v := e.message(k, b, tgt)
		if !chatter {
			// "dup" repeats the previous scripted message; chatter that
			// reaches an idle worker is never handled and must not count
			e.last = m
		}
		return m, v, e.lastVn
	}
	var obsErr error
	logStep := func(a bqAct, variant string, vn int) {
		o, err := e.observe()
		if err != nil && obsErr == nil {
			obsErr = err
		}
		steps = append(steps, bqStepOut{Act: a, Obs: o, Var: variant, Vn: vn})
	}
	submitted := false
	twm := &vqTraceWM{n: net, verdict: make(chan error, 1)}
	twm.onSubmit = func(reqs []*query.Request) {
		submitted = true
		logStep(bqAct{Op: "HeaderLookup", Tgt: tgt, Res: "ok"}, "", 0)
		logStep(bqAct{Op: "CacheLookup", Tgt: tgt, Res: "miss"}, "", 0)
		logStep(bqAct{Op: "Submit", Tgt: tgt, Res: "ok"}, "", 0)
	}
	twm.onResp = func(info vqSent, known bool, peer string, res string) {
		k := info.k
		if !known {
			k = "?"
		}
		logStep(bqAct{Op: "Resp", Tgt: tgt, K: k, B: info.b, P: net.peerIndex(peer), Res: res}, info.variant, info.vn)
	}
	e.cs.workManager = twm
	if err := twm.Start(); err != nil {
		return nil, err
	}
	defer func() {
		close(net.done)
		vqBounded(10*time.Second, func() { _ = twm.Stop() })
	}()
	for ci, call := range f.Calls {
		bmu.Lock()
		tgt = call.Tgt
		e.last = nil
		bmu.Unlock()
		e.ret = vqRUN
		submitted = false
		net.arm(ci, call.Peers)
		hash := e.hashOf(call.Tgt)
		var blk *btcutil.Block
		var err error
		var pv interface{}
		bound := time.Duration(call.BoundS) * time.Second
		if bound <= 0 {
			bound = vqStepTimeout
		}
		returned, dump := vqBounded(bound, func() {
			defer func() { pv = recover() }()
			blk, err = e.cs.GetBlock(hash, NumRetries(uint8(call.Retries)))
		})
		if !returned {
			// GetBlock neither returned a block nor reported failure
			vqHangs.Add(1)
			locked := vqLockFor(&net.mu, 2*time.Second)
			if !submitted {
				logStep(bqAct{Op: "HeaderLookup", Tgt: tgt, Res: "hang"}, dump, 0)
			} else {
				logStep(bqAct{Op: "Hang", Tgt: tgt, Res: "hang"}, fmt.Sprintf("GetBlock did not return within %v; "+
					"goroutines:\n%s", bound, dump), 0)
			}
			if locked {
				net.mu.Unlock()
			}
			e.quit1.Do(func() { close(e.cs.quit) })
			return steps, obsErr
		}
		net.mu.Lock()
		if submitted {
			v := "ok"
			select {
			case ve := <-twm.verdict:
				if ve != nil {
					v = "err"
				}
			default:
				v = "err" // returned without a verdict (shutdown)
			}
			res := "ok"
			if pv != nil {
				res = "panic"
			}
			logStep(bqAct{Op: "Verdict", Tgt: tgt, K: v, Res: res}, "", 0)
		} else {
			switch {
			case pv != nil:
				logStep(bqAct{Op: "HeaderLookup", Tgt: tgt, Res: "panic"}, "", 0)
			case err != nil:
				logStep(bqAct{Op: "HeaderLookup", Tgt: tgt, Res: "err"}, "", 0)
			default:
				logStep(bqAct{Op: "HeaderLookup", Tgt: tgt, Res: "ok"}, "", 0)
				logStep(bqAct{Op: "CacheLookup", Tgt: tgt, Res: "hit"}, "", 0)
			}
		}
		ra := bqAct{Op: "Return", Tgt: tgt}
		switch {
		case pv != nil:
			e.ret, ra.Res = vqERR, "panic"
		case err != nil:
			e.ret, ra.Res = vqERR, "err"
		default:
			e.ret, ra.Res = e.classify(blk), "ok"
		}
		logStep(ra, "", 0)
		net.mu.Unlock()
	}
	return steps, obsErr
}

// ---- FilterQuery, free-running (sequential calls, callers 1, 2)

func (e *fqEnv) runFree(f *vqFree) ([]fqStepOut, error) {
	var steps []fqStepOut
	var bmu sync.Mutex
	net := newVqNet(nil, func(p int) string { return fmt.Sprintf("10.0.%d.%d:18444", p, p) })
	net.build = func(k string, b int, _ bool) (wire.Message, string, int) {
		bmu.Lock()
		defer bmu.Unlock()
		m, v := e.message(k, b)
		return m, v, e.lastVn
	}
	var obsErr error
	cur := fqAct{}
	lo, hi := vqRUN, vqRUN
	logStep := func(op, k string, b int, res string, variant string, vn int) {
		a := cur
		a.Op, a.K, a.B, a.Res, a.Lo, a.Hi = op, k, b, res, vqRUN, vqRUN
		if op == "Submit" || op == "Resp" || op == "Verdict" {
			a.Lo, a.Hi = lo, hi
		}
		e.ranCode = true
		o, err := e.observe()
		if err != nil && obsErr == nil {
			obsErr = err
		}
		steps = append(steps, fqStepOut{Act: a, Obs: o, Var: variant, Vn: vn})
	}
	gate := ""
	e.sched.free = func(g string) {
		net.mu.Lock()
		defer net.mu.Unlock()
		gate = g
		switch g {
		case "db-in":
			logStep("CacheLookup", "", 0, "miss", "", 0)
		case "db-out":
			logStep("DbLookup", "", 0, "miss", "", 0)
		case "prep":
			logStep("Lock", "", 0, "ok", "", 0)
			logStep("CacheLookup2", "", 0, "miss", "", 0)
		}
	}
	twm := &vqTraceWM{n: net, verdict: make(chan error, 1)}
	caller := &vqCaller{}
	twm.onSubmit = func(reqs []*query.Request) {
		gate = "submit"
		caller.reqs = reqs
		lo, hi = e.reqRange(caller)
		logStep("Prepare", "", 0, "ok", "", 0)
		logStep("Submit", "", 0, "ok", "", 0)
	}
	twm.onResp = func(info vqSent, known bool, peer string, res string) {
		k := info.k
		if !known {
			k = "?"
		}
		logStep("Resp", k, info.b, res, info.variant, info.vn)
	}
	e.cs.workManager = twm
	if err := twm.Start(); err != nil {
		return nil, err
	}
	defer func() {
		close(net.done)
		vqBounded(10*time.Second, func() { _ = twm.Stop() })
	}()
	for i, call := range f.Calls {
		if i >= 2 {
			break
		}
		cur = fqAct{C: i + 1, Tgt: call.Tgt, M: call.M, Cap: call.Cap}
		gate, lo, hi = "", vqRUN, vqRUN
		net.arm(i, call.Peers)
		opts := []QueryOption{NumRetries(uint8(call.Retries))}
		switch call.M {
		case "fwd":
			opts = append(opts, OptimisticBatch())
		case "rev":
			opts = append(opts, OptimisticReverseBatch())
		}
		if call.Cap > 0 {
			opts = append(opts, MaxBatchSize(int64(call.Cap)))
		}
		var flt *gcs.Filter
		var err error
		var pv interface{}
		bound := time.Duration(call.BoundS) * time.Second
		if bound <= 0 {
			bound = vqStepTimeout
		}
		returned, dump := vqBounded(bound, func() {
			defer func() { pv = recover() }()
			flt, err = e.cs.GetCFilter(e.u.hashOf(call.Tgt, e.btip), wire.GCSFilterRegular, opts...)
		})
		if !returned {
			vqHangs.Add(1)
			locked := vqLockFor(&net.mu, 2*time.Second)
			logStep("Hang", "", 0, "hang", fmt.Sprintf("GetCFilter did not return within %v (last gate %q); "+
				"goroutines:\n%s", bound, gate, dump), 0)
			if locked {
				net.mu.Unlock()
			}
			e.quit1.Do(func() { close(e.cs.quit) })
			return steps, obsErr
		}
		net.mu.Lock()
		early := func(ok bool) string {
			switch {
			case pv != nil:
				return "panic"
			case ok:
				return "hit"
			}
			return "err"
		}
		switch gate {
		case "":
			logStep("CacheLookup", "", 0, early(err == nil), "", 0)
		case "db-in":
			logStep("DbLookup", "", 0, early(err == nil), "", 0)
		case "db-out":
			logStep("Lock", "", 0, "ok", "", 0)
			logStep("CacheLookup2", "", 0, early(err == nil), "", 0)
		case "prep":
			res := "err"
			if pv != nil {
				res = "panic"
			}
			logStep("Prepare", "", 0, res, "", 0)
		case "submit":
			v := "ok"
			select {
			case ve := <-twm.verdict:
				if ve != nil {
					v = "err"
				}
			default:
				v = "err"
			}
			res := "ok"
			if pv != nil {
				res = "panic"
			}
			logStep("Verdict", v, 0, res, "", 0)
		}
		switch {
		case pv != nil:
			e.ret[i] = vqERR
			logStep("Return", "", 0, "panic", "", 0)
		case err != nil:
			e.ret[i] = vqERR
			logStep("Return", "", 0, "err", "", 0)
		default:
			e.ret[i] = e.classify(flt, call.Tgt)
			logStep("Return", "", 0, "ok", "", 0)
		}
		net.mu.Unlock()
	}
	return steps, obsErr
}

var _ = big.NewInt
