package neutrino

// Replay driver for the peer-set slice of the BanStore family (C13; coverage
// of the bookkeeping C04 rests on).  Injected into package neutrino at build
// time with `go test -overlay` TOGETHER with zz_verif_banenforce_test.go, whose
// scripted connection (vfeConn), wait helpers (vfeUntil) and stub header store
// it reuses; nothing is copied into /repo.  It executes paths of
// specs/BanStore/PeerSet.tla against the real peer-set bookkeeping of the
// client WITHOUT a network:
//
//   * a ChainService value with a real banman store (real bbolt), a real
//     addrmgr, a real btcd connmgr and the real peerHandler goroutine;
//   * connmgr's Dial and GetNewAddress are GATES: a dial the path asked for
//     (ConnectNode, NewAddr) gets a scripted in-memory connection at once, any
//     other dial (the retry of a permanent request) parks until the path says
//     Redial; every NewConnReq of the client parks in GetNewAddress until the
//     path says NewAddr.  The parked calls are the observables rd / want;
//   * "VerAck" writes the real version and verack messages into the
//     connection: btcd's peer runs its handshake and calls ServerPeer.OnVersion
//     / OnVerAck -> AddPeer -> newPeers arm -> handleAddPeerMsg;
//   * "Drop" closes the remote end: peerDoneHandler -> donePeers arm;
//   * "Misbehave" calls ChainService.BanPeer as the validation sites do;
//   * ConnectNode / RemoveNodeByAddr / RemoveNodeByID / DisconnectNodeByAddr /
//     DisconnectNodeByID / ConnectedPeers / UpdatePeerHeights are the public
//     calls; addr / addrv2 messages are real wire messages;
//   * "ShutBegin" / "ShutEnd" do what Stop() does to the peer handler first
//     (shutdown flag, connManager.Stop()) and last (close(quit));
//   * observation, after EVERY step, through the public API: IsBanned, Peers,
//     ConnectedCount, AddedNodeInfo, OutboundGroupCount, ForAllPeers, the
//     subscription channel, LastBlock / LastAnnouncedBlock of the reported
//     peers, addrmgr.NumAddresses, and whether the client has closed its end
//     of every scripted connection.
//
// MaxPeers is a package variable: it is set once per driver process
// (VERIF_PS_MAXPEERS), all paths of one process use the same value.

import (
	"bufio"
	"encoding/json"
	"fmt"
	"math/rand"
	"net"
	"os"
	"path/filepath"
	"reflect"
	"runtime"
	"strconv"
	"sync"
	"sync/atomic"
	"testing"
	"time"

	"github.com/btcsuite/btcd/addrmgr"
	"github.com/btcsuite/btcd/blockchain"
	"github.com/btcsuite/btcd/chaincfg/v2"
	"github.com/btcsuite/btcd/chainhash/v2"
	"github.com/btcsuite/btcd/connmgr"
	"github.com/btcsuite/btcd/wire/v2"
	"github.com/btcsuite/btcwallet/walletdb"
	"github.com/lightninglabs/neutrino/banman"
	"github.com/lightninglabs/neutrino/query"
)

// time a kept connection to a banned address is given to go away before it
// is recorded (normal: < 5 ms; vfeUntil extends it while the machine is starved)
const vpsSettle = 500 * time.Millisecond

type vpsObs struct {
	Ban  [][]int `json:"ban"`
	Ad   [][]int `json:"ad"`
	Conn []int   `json:"conn"`
	Kept []int   `json:"kept"`
	Pers []int   `json:"pers"`
	Fa   []int   `json:"fa"`
	Bm   []int   `json:"bm"`
	Cc   int     `json:"cc"`
	Grp  []int   `json:"grp"`
	Sub  []int   `json:"sub"`
	Rd   []int   `json:"rd"`
	Want int     `json:"want"`
	Hg   []int   `json:"hg"`
	An   []int   `json:"an"`
	Na   int     `json:"na"`
}

type vpsCfg struct {
	MaxPeers int `json:"maxpeers"`
	TO       int `json:"to"`
	SG       int `json:"sg"`
	Dev      int `json:"dev"`
	NP       int `json:"np"`
	NI       int `json:"ni"`
	NJ       int `json:"nj"`
}

type vpsStepIn struct {
	Act  vfeAct   `json:"act"`
	Obs  vpsObs   `json:"obs"`
	Viol []string `json:"viol"`
}

type vpsPathIn struct {
	ID      int         `json:"id"`
	PSeed   *int64      `json:"pseed,omitempty"`
	Cfg     vpsCfg      `json:"cfg"`
	InitObs vpsObs      `json:"init_obs"`
	Steps   []vpsStepIn `json:"steps"`
}

type vpsStepOut struct {
	Act  vfeAct `json:"act"`
	Obs  vpsObs `json:"obs"`
	Conc string `json:"conc,omitempty"`
	Note string `json:"note,omitempty"`
}

type vpsPathOut struct {
	ID      int          `json:"id"`
	PSeed   int64        `json:"pseed"`
	Cfg     vpsCfg       `json:"cfg"`
	Addrs   []string     `json:"addrs,omitempty"`
	InitObs vpsObs       `json:"init_obs"`
	Steps   []vpsStepOut `json:"steps"`
	Error   string       `json:"error,omitempty"`
}

// a dial of connmgr waiting for its connection
type vpsParkedDial struct {
	addr string
	ch   chan net.Conn // nil => the dial fails
}

type vpsEnv struct {
	cfg   vpsCfg
	s     *ChainService // what the code under test sees
	inner *ChainService // what the real peerHandler runs on (same channels and stores)
	db    walletdb.DB
	net   wire.BitcoinNet
	rng   *rand.Rand
	ips   []net.IP
	ports [][]int
	keys  []string // outbound group key of every IP
	extra []*net.TCPAddr

	foreignGets int64 // getPeersMsg requests answered that did not come from the driver
	connGets    int64 // ... of which made by outboundPeerConnected
	wantBanGets int64 // BanPeer calls whose PeerByAddr look-up must have been answered by now
	fwdDone     chan struct{}
	handlerDone chan struct{}

	mu        sync.Mutex
	slots     []*vfeConn
	expAddr   string // the next dial of this address is served at once, in slot expSlot
	expSlot   int
	expI      int
	expJ      int
	parked    []*vpsParkedDial
	parkedNew []chan net.Addr // nil => GetNewAddress fails
	released  bool            // after ShutBegin / stop: gates fail at once

	// every connection a ServerPeer was made for, by slot, and the done
	// messages (peerDoneHandler -> donePeers) the peer handler has TAKEN, by slot
	peerConns map[int][]*vfeConn
	donesMu   sync.Mutex
	dones     map[int]int

	bmMu   sync.Mutex
	bmHas  map[*ServerPeer]bool // peers the block manager has been told of (NewPeer) and not yet lost (DonePeer)
	bmNews map[int]int          // NewPeer notifications per slot

	sh       int
	subPeers <-chan query.Peer
	subStop  func()
	stepDl   map[int]bool
	pongs    map[int]int
	diverged bool
	waited   string
}

func (e *vpsEnv) addr(i, j int) *net.TCPAddr {
	return &net.TCPAddr{IP: e.ips[i-1], Port: e.ports[i-1][j-1]}
}

// index of an address string, (0,0) when it is not one of the model's
func (e *vpsEnv) index(a string) (int, int) {
	for i := range e.ips {
		for j := range e.ports[i] {
			if e.addr(i+1, j+1).String() == a {
				return i + 1, j + 1
			}
		}
	}
	return 0, 0
}

func (e *vpsEnv) dial(a net.Addr) (net.Conn, error) {
	e.mu.Lock()
	if e.released {
		e.mu.Unlock()
		return nil, fmt.Errorf("verif: connection manager stopped")
	}
	ta, ok := a.(*net.TCPAddr)
	if !ok {
		e.mu.Unlock()
		return nil, fmt.Errorf("verif: unexpected address type %T", a)
	}
	if e.expAddr != "" && e.expAddr == a.String() {
		c := vfeNewConn(e.expSlot, e.expI, e.expJ, ta)
		e.slots[e.expSlot-1] = c
		e.expAddr = ""
		e.mu.Unlock()
		return c, nil
	}
	pd := &vpsParkedDial{addr: a.String(), ch: make(chan net.Conn, 1)}
	e.parked = append(e.parked, pd)
	e.mu.Unlock()
	c := <-pd.ch
	if c == nil {
		return nil, fmt.Errorf("verif: dial of %v abandoned", a)
	}
	return c, nil
}

func (e *vpsEnv) getNewAddress() (net.Addr, error) {
	e.mu.Lock()
	if e.released {
		e.mu.Unlock()
		return nil, fmt.Errorf("verif: connection manager stopped")
	}
	ch := make(chan net.Addr, 1)
	e.parkedNew = append(e.parkedNew, ch)
	e.mu.Unlock()
	a := <-ch
	if a == nil {
		return nil, fmt.Errorf("verif: no address")
	}
	return a, nil
}

// releaseGates lets every parked dial / address request fail (the connection
// manager has been stopped, nothing they return is used any more).
func (e *vpsEnv) releaseGates() {
	e.mu.Lock()
	e.released = true
	for _, pd := range e.parked {
		pd.ch <- nil
	}
	e.parked = nil
	for _, ch := range e.parkedNew {
		ch <- nil
	}
	e.parkedNew = nil
	e.mu.Unlock()
}

func vpsIPs(rng *rand.Rand, ni, sg int) []net.IP {
	// routable addresses (addrmgr ignores the others); sg = 1: one outbound
	// group (same /16 resp. /32), sg = 0: different groups
	var ips []net.IP
	v6 := rng.Intn(2) == 0
	a, b := byte(11+rng.Intn(89)), byte(rng.Intn(256))
	for len(ips) < ni {
		k := len(ips)
		var ip net.IP
		if v6 {
			ip = make(net.IP, 16)
			copy(ip, []byte{0x2a, 0x02, a, b})
			if sg == 0 {
				ip[3] = b + byte(k)
			}
			for x := 4; x < 16; x++ {
				if rng.Intn(2) == 0 {
					ip[x] = byte(rng.Intn(256))
				}
			}
			ip[15] = byte(1 + k)
		} else {
			bb := b
			if sg == 0 {
				bb = b + byte(k)
			}
			ip = net.IPv4(a, bb, byte(rng.Intn(256)), byte(1+k+rng.Intn(200)))
		}
		ips = append(ips, ip)
	}
	return ips
}

func vpsNetAddr(ip net.IP, port int, sv wire.ServiceFlag) *wire.NetAddressV2 {
	b := []byte(ip)
	if ip4 := ip.To4(); ip4 != nil {
		b = ip4
	}
	return wire.NetAddressV2FromBytes(time.Now(), sv, b, uint16(port))
}

func vpsStart(dir string, cfg vpsCfg, rng *rand.Rand) (*vpsEnv, error) {
	db, err := walletdb.Create("bdb", filepath.Join(dir, "neutrino.db"), true, 10*time.Second, false)
	if err != nil {
		return nil, err
	}
	store, err := banman.NewStore(db)
	if err != nil {
		db.Close()
		return nil, err
	}
	e := &vpsEnv{cfg: cfg, db: db, rng: rng, slots: make([]*vfeConn, cfg.NP), stepDl: map[int]bool{},
		pongs: map[int]int{}, fwdDone: make(chan struct{}), handlerDone: make(chan struct{}),
		bmHas: map[*ServerPeer]bool{}, bmNews: map[int]int{}, peerConns: map[int][]*vfeConn{}, dones: map[int]int{}}
	e.ips = vpsIPs(rng, cfg.NI, cfg.SG)
	for range e.ips {
		var ps []int
		for len(ps) < cfg.NJ {
			p := 1024 + rng.Intn(60000)
			dup := false
			for _, q := range ps {
				dup = dup || q == p
			}
			if !dup {
				ps = append(ps, p)
			}
		}
		e.ports = append(e.ports, ps)
	}
	for _, ip := range e.ips {
		e.keys = append(e.keys, addrmgr.GroupKey(vpsNetAddr(ip, 8333, 0)))
	}
	// the addresses advertised in addr / addrv2 messages: routable, not a peer's
	e.extra = []*net.TCPAddr{
		{IP: net.IPv4(101, 2, 3, 4), Port: 8333}, {IP: net.IPv4(102, 3, 4, 5), Port: 8333},
		{IP: net.IPv4(103, 4, 5, 6), Port: 8333}, {IP: net.IPv4(104, 5, 6, 7), Port: 8333},
	}
	params := chaincfg.SimNetParams
	if cfg.Dev == 0 {
		// not a development network: addresses are learnt and advertised
		params.Name = "verifnet"
		params.Net = wire.BitcoinNet(0x76707331)
		params.DNSSeeds = nil
	}
	e.net = params.Net
	resolver := func(host string) ([]net.IP, error) {
		ip := net.ParseIP(host)
		if ip == nil {
			return nil, fmt.Errorf("verif: cannot resolve %q", host)
		}
		return []net.IP{ip}, nil
	}
	// Two ChainService values over the SAME channels, stores and managers,
	// differing only in the query channel (see zz_verif_banenforce_test.go):
	// a forwarder moves every query from s.query to inner.query and counts the
	// getPeersMsg requests of the code under test, so that the driver knows
	// when the look-up of a BanPeer call has been answered.
	shared := ChainService{
		chainParams:       params,
		BlockHeaders:      vfeHeaders{},
		addrManager:       addrmgr.New(dir, resolver),
		newPeers:          make(chan *ServerPeer, MaxPeers),
		donePeers:         make(chan *ServerPeer, MaxPeers),
		peerHeightsUpdate: make(chan updatePeerHeightsMsg),
		quit:              make(chan struct{}),
		timeSource:        blockchain.NewMedianTime(),
		banStore:          store,
		userAgentName:     "verif",
		userAgentVersion:  "0.0.1",
	}
	bm := &blockManager{peerChan: make(chan interface{}, 64), quit: make(chan struct{})}
	mk := func(q chan interface{}, done chan *ServerPeer) *ChainService {
		return &ChainService{
			chainParams: shared.chainParams, BlockHeaders: shared.BlockHeaders,
			addrManager: shared.addrManager, newPeers: shared.newPeers, donePeers: done,
			peerHeightsUpdate: shared.peerHeightsUpdate, quit: shared.quit, timeSource: shared.timeSource,
			services: shared.services, banStore: shared.banStore, userAgentName: shared.userAgentName,
			userAgentVersion: shared.userAgentVersion, blockManager: bm, query: q,
			nameResolver: resolver,
		}
	}
	// ... and in the done channel: peerDoneHandler (a method of s) sends into the buffered channel
	// NewChainService makes; a second forwarder hands every message to the peer handler through an
	// unbuffered one and counts it once the handler has TAKEN it.  That is how the driver knows that
	// the handler has dealt with the end of every connection before the next step begins (a done
	// message still in flight would be handled with the peer lists of a later step).
	s, inner := mk(make(chan interface{}), shared.donePeers), mk(make(chan interface{}), make(chan *ServerPeer))
	go func() {
		for {
			select {
			case sp := <-s.donePeers:
				select {
				case inner.donePeers <- sp:
					e.donesMu.Lock()
					e.dones[vpsSlot(sp)]++
					e.donesMu.Unlock()
				case <-s.quit:
					return
				}
			case <-s.quit:
				return
			}
		}
	}()
	go func() { // stub block manager: notes which peers it has been told of
		for {
			select {
			case m := <-bm.peerChan:
				e.bmMu.Lock()
				switch msg := m.(type) {
				case *newPeerMsg:
					e.bmHas[msg.peer] = true
					e.bmNews[vpsSlot(msg.peer)]++
				case *donePeerMsg:
					delete(e.bmHas, msg.peer)
				}
				e.bmMu.Unlock()
			case <-bm.quit:
				return
			}
		}
	}()
	ccfg := &connmgr.Config{
		RetryDuration:  time.Millisecond,
		TargetOutbound: uint32(cfg.TO),
		OnConnection:   s.outboundPeerConnected,
		Dial:           e.dial,
	}
	if cfg.TO > 0 {
		ccfg.GetNewAddress = e.getNewAddress
	}
	cm, err := connmgr.New(ccfg)
	if err != nil {
		db.Close()
		return nil, err
	}
	s.connManager, inner.connManager = cm, cm
	cm.Start()
	inner.wg.Add(1)
	go inner.peerHandler()
	go func() { inner.wg.Wait(); close(e.handlerDone) }()
	go func() { // query forwarder
		defer close(e.fwdDone)
		for {
			select {
			case m := <-s.query:
				gp, isGet := m.(getPeersMsg)
				if !isGet {
					select {
					case inner.query <- m:
					case <-s.quit:
						return
					}
					continue
				}
				reply := make(chan []*ServerPeer, 1)
				select {
				case inner.query <- getPeersMsg{reply: reply}:
				case <-s.quit:
					return
				}
				var r []*ServerPeer
				select {
				case r = <-reply:
				case <-s.quit:
					return
				}
				select {
				case gp.reply <- r:
				case <-s.quit:
					return
				}
				atomic.AddInt64(&e.foreignGets, 1)
			case <-s.quit:
				return
			}
		}
	}()
	e.inner = inner
	e.s = s
	return e, nil
}

func (e *vpsEnv) stop() {
	if e.sh < 1 {
		atomic.StoreInt32(&e.s.shutdown, 1)
		atomic.StoreInt32(&e.inner.shutdown, 1)
		e.s.connManager.Stop()
		e.releaseGates()
	}
	if e.sh < 2 {
		close(e.s.quit)
	}
	e.sh = 2
	e.mu.Lock()
	for _, c := range e.slots {
		if c != nil {
			c.remoteClose()
		}
	}
	e.mu.Unlock()
	select {
	case <-e.handlerDone:
	case <-time.After(vfeWait):
	}
	close(e.s.blockManager.quit)
	time.Sleep(2 * time.Millisecond) // stragglers (peer goroutines unwinding) may still touch the store
	e.db.Close()
}

func (e *vpsEnv) conn(p int) *vfeConn {
	if p < 1 || p > e.cfg.NP {
		return nil
	}
	e.mu.Lock()
	defer e.mu.Unlock()
	return e.slots[p-1]
}

func vpsSlot(sp *ServerPeer) int {
	if la, ok := sp.LocalAddr().(*net.TCPAddr); ok && la != nil {
		return la.Port - 40000
	}
	return 0
}

// peers reported by Peers(), by slot
func (e *vpsEnv) peersBySlot() map[int]*ServerPeer {
	m := map[int]*ServerPeer{}
	for _, sp := range e.inner.Peers() { // the driver's own query: not counted
		m[vpsSlot(sp)] = sp
	}
	return m
}

func (e *vpsEnv) open(p int) bool {
	c := e.conn(p)
	return c != nil && !c.closedByClient()
}

func (e *vpsEnv) freeSlot() int {
	kept := e.peersBySlot()
	for p := 1; p <= e.cfg.NP; p++ {
		if !e.open(p) && kept[p] == nil {
			return p
		}
	}
	return 0
}

func (e *vpsEnv) parkedCount(a string) int {
	e.mu.Lock()
	defer e.mu.Unlock()
	n := 0
	for _, pd := range e.parked {
		if pd.addr == a {
			n++
		}
	}
	return n
}

func (e *vpsEnv) observe() vpsObs {
	o := vpsObs{}
	np := e.cfg.NP
	for i := range e.ips {
		a := e.addr(i+1, 1).String()
		b, r := 0, 0
		if e.s.IsBanned(a) {
			b = 1
			if n, err := banman.ParseIPNet(a, nil); err == nil {
				if st, err := e.s.banStore.Status(n); err == nil && st.Banned {
					r = int(st.Reason)
				} else {
					r = -3
				}
			}
		}
		o.Ban = append(o.Ban, []int{b, r})
	}
	kept := e.peersBySlot()
	pers := map[int]bool{}
	for _, sp := range e.inner.AddedNodeInfo() {
		pers[vpsSlot(sp)] = true
	}
	var famu sync.Mutex
	fa := map[int]bool{}
	e.inner.ForAllPeers(func(sp *ServerPeer) {
		famu.Lock()
		fa[vpsSlot(sp)] = true
		famu.Unlock()
	})
	o.Cc = int(e.inner.ConnectedCount()) // also: the closure above has run (one handler, in order)
	for _, k := range e.keys {
		o.Grp = append(o.Grp, e.inner.OutboundGroupCount(k))
	}
	if e.subPeers != nil {
	drain:
		for {
			select {
			case qp, ok := <-e.subPeers:
				if !ok {
					break drain
				}
				if sp, ok := qp.(*ServerPeer); ok {
					e.stepDl[vpsSlot(sp)] = true
				}
			default:
				break drain
			}
		}
	}
	b2i := func(b bool) int {
		if b {
			return 1
		}
		return 0
	}
	bmv := map[int]bool{}
	e.bmMu.Lock()
	for sp := range e.bmHas {
		bmv[vpsSlot(sp)] = e.sh < 2 // after quit a finished peer may or may not be reported: not observed
	}
	e.bmMu.Unlock()
	famu.Lock()
	for p := 1; p <= np; p++ {
		c := e.conn(p)
		open := c != nil && !c.closedByClient()
		switch {
		case !open:
			o.Conn = append(o.Conn, 0)
		case c.fedVerAck:
			o.Conn = append(o.Conn, 2)
		default:
			o.Conn = append(o.Conn, 1)
		}
		if c != nil && (open || kept[p] != nil) {
			o.Ad = append(o.Ad, []int{c.i, c.j})
		} else {
			o.Ad = append(o.Ad, []int{0, 0})
		}
		o.Kept = append(o.Kept, b2i(kept[p] != nil))
		o.Pers = append(o.Pers, b2i(pers[p]))
		o.Fa = append(o.Fa, b2i(fa[p]))
		o.Bm = append(o.Bm, b2i(bmv[p]))
		o.Sub = append(o.Sub, b2i(e.stepDl[p]))
		h, an := 0, 0
		if sp := kept[p]; sp != nil {
			h = int(sp.LastBlock())
			an = b2i(sp.LastAnnouncedBlock() != nil)
		}
		o.Hg = append(o.Hg, h)
		o.An = append(o.An, an)
	}
	famu.Unlock()
	for i := range e.ips {
		for j := range e.ports[i] {
			n := e.parkedCount(e.addr(i+1, j+1).String())
			o.Rd = append(o.Rd, n)
		}
	}
	e.mu.Lock()
	o.Want = len(e.parkedNew)
	e.mu.Unlock()
	o.Na = e.s.addrManager.NumAddresses()
	return o
}

func (o vpsObs) keptBanned() string {
	s := ""
	for p := range o.Kept {
		if (o.Kept[p] == 1 || o.Conn[p] == 2) && o.Ad[p][0] >= 1 && o.Ad[p][0] <= len(o.Ban) &&
			o.Ban[o.Ad[p][0]-1][0] == 1 {
			s += strconv.Itoa(p+1) + ","
		}
	}
	return s
}

func (e *vpsEnv) message(msg wire.Message) []byte {
	var buf []byte
	w := &vpsBuf{b: &buf}
	if err := wire.WriteMessage(w, msg, wire.ProtocolVersion, e.net); err != nil {
		panic(err)
	}
	return buf
}

type vpsBuf struct{ b *[]byte }

func (w *vpsBuf) Write(p []byte) (int, error) { *w.b = append(*w.b, p...); return len(p), nil }

func (e *vpsEnv) banLookupsDone() bool {
	return vfeUntil(vfeWait, func() bool {
		return atomic.LoadInt64(&e.foreignGets)-atomic.LoadInt64(&e.connGets) >= atomic.LoadInt64(&e.wantBanGets)
	})
}

func vpsCount(c *vfeConn, cmd string) int {
	c.mu.Lock()
	defer c.mu.Unlock()
	n := 0
	for _, x := range c.cmds {
		if x == cmd {
			n++
		}
	}
	return n
}

// applicable says whether the environment can perform the action at all in
// the state the real system is in (it always can while the code follows the
// model).
func (e *vpsEnv) applicable(a vfeAct) bool {
	c := e.conn(a.P)
	open := c != nil && !c.closedByClient() && !c.remoteClosedNow()
	switch a.Op {
	case "ConnectNode":
		return e.sh < 2
	case "Redial":
		return e.sh == 0 && e.freeSlot() != 0 && e.parkedCount(e.addr(a.I, a.J).String()) > 0
	case "NewAddr":
		e.mu.Lock()
		n := len(e.parkedNew)
		e.mu.Unlock()
		return e.sh == 0 && e.freeSlot() != 0 && n > 0
	case "VerAck":
		return e.sh < 2 && open && c.wrote("version") && !c.fedVersion
	case "Drop":
		return e.sh < 2 && open
	case "AddrMsg", "Announce":
		return e.sh < 2 && open && e.peersBySlot()[a.P] != nil
	case "UpdateHeights":
		return e.sh < 2 && (a.P == 0 || e.peersBySlot()[a.P] != nil)
	case "Subscribe":
		return e.sh < 2 && e.subPeers == nil
	case "Unsubscribe":
		return e.sh < 2 && e.subPeers != nil
	case "ShutBegin":
		return e.sh == 0
	case "ShutEnd":
		return e.sh == 1
	}
	return e.sh < 2
}

// connOutcome waits for the outcome of a connection that has just been handed
// to the client: closed by it, or handshake started.
func (e *vpsEnv) connOutcome(c *vfeConn) string {
	ok := vfeUntil(vfeWait, func() bool { return c.closedByClient() || c.wrote("version") })
	switch {
	case !ok:
		return "hang"
	case c.closedByClient() && !c.wrote("version"):
		return "refused"
	}
	// the client has made a ServerPeer for it: its end will be reported to the peer handler
	e.peerConns[c.slot] = append(e.peerConns[c.slot], c)
	return "accepted"
}

// quiesce waits until the peer handler has taken the done message of every
// connection that has ended, and has finished handling it.
func (e *vpsEnv) quiesce() bool {
	if e.sh >= 2 {
		return true
	}
	ok := vfeUntil(vfeWait, func() bool {
		e.donesMu.Lock()
		defer e.donesMu.Unlock()
		for p, cs := range e.peerConns {
			n := 0
			for _, c := range cs {
				if c.closedByClient() {
					n++
				}
			}
			if e.dones[p] < n {
				return false
			}
		}
		return true
	})
	e.inner.ConnectedCount() // one handler, in order: the arm that took the last message has returned
	return ok
}

var (
	vpsHashH  = chainhash.Hash{0x11, 0x22, 0x33}
	vpsHashH2 = chainhash.Hash{0x44, 0x55, 0x66}
)

func (e *vpsEnv) exec(a vfeAct, want string) (out vfeAct, conc string) {
	out = a
	defer func() {
		if a.Op == "Misbehave" {
			atomic.AddInt64(&e.wantBanGets, 1)
		}
		if e.sh < 2 {
			e.banLookupsDone()
		}
	}()
	errRes := func(err error) string {
		switch {
		case err == nil:
			return "ok"
		case err.Error() == "peer not found":
			return "notfound"
		case err.Error() == "max peers reached":
			return "max"
		case err.Error() == "peer already connected":
			return "dup"
		case err.Error() == "peer exists as a permanent peer":
			return "dupperm"
		}
		return "err:" + err.Error()
	}
	expect := func(i, j int) int {
		p := e.freeSlot()
		e.mu.Lock()
		if p != 0 {
			e.slots[p-1] = nil
			e.expAddr, e.expSlot, e.expI, e.expJ = e.addr(i, j).String(), p, i, j
		} else {
			e.expAddr = ""
		}
		e.mu.Unlock()
		return p
	}
	served := func(p int) *vfeConn {
		var c *vfeConn
		limit := vfeWait
		if want == "stopped" || want == "max" || want == "dup" || want == "dupperm" {
			limit = 5 * time.Millisecond // the model expects no connection: a short look suffices
		}
		vfeUntil(limit, func() bool {
			e.mu.Lock()
			done := e.expAddr == ""
			e.mu.Unlock()
			if done {
				c = e.conn(p)
			}
			return done
		})
		e.mu.Lock()
		e.expAddr = ""
		e.mu.Unlock()
		return c
	}
	idOf := func(p int) int32 {
		if sp := e.peersBySlot()[p]; sp != nil {
			return sp.ID()
		}
		return 1 << 30
	}
	switch a.Op {
	case "ConnectNode":
		addr := e.addr(a.I, a.J).String()
		conc = fmt.Sprintf("%s permanent=%v", addr, a.F == 1)
		p := expect(a.I, a.J)
		g0 := atomic.LoadInt64(&e.foreignGets)
		defer func() { atomic.AddInt64(&e.connGets, atomic.LoadInt64(&e.foreignGets)-g0) }()
		err := e.s.ConnectNode(addr, a.F == 1)
		out.P = 0
		if err != nil {
			e.mu.Lock()
			e.expAddr = ""
			e.mu.Unlock()
			out.Res = errRes(err)
			return
		}
		if e.sh >= 1 {
			// the connection manager has been stopped: Connect returns at once
			out.Res = "stopped"
			if p != 0 {
				if c := served(p); c != nil {
					out.P = p
					out.Res = e.connOutcome(c)
				}
			}
			return
		}
		if p == 0 {
			out.Res = "noslot"
			return
		}
		c := served(p)
		if c == nil {
			if e.sh >= 1 {
				out.Res = "stopped"
			} else {
				out.Res = "nodial"
			}
			return
		}
		out.P = p
		out.Res = e.connOutcome(c)
	case "Redial":
		addr := e.addr(a.I, a.J).String()
		conc = addr
		p := e.freeSlot()
		e.mu.Lock()
		var pd *vpsParkedDial
		for k, x := range e.parked {
			if x.addr == addr {
				pd = x
				e.parked = append(e.parked[:k], e.parked[k+1:]...)
				break
			}
		}
		var c *vfeConn
		if pd != nil && p != 0 {
			c = vfeNewConn(p, a.I, a.J, e.addr(a.I, a.J))
			e.slots[p-1] = c
		}
		e.mu.Unlock()
		if c == nil {
			out.Res = "noparked"
			return
		}
		g0 := atomic.LoadInt64(&e.foreignGets)
		defer func() { atomic.AddInt64(&e.connGets, atomic.LoadInt64(&e.foreignGets)-g0) }()
		pd.ch <- c
		out.P = p
		out.Res = e.connOutcome(c)
	case "NewAddr":
		conc = e.addr(a.I, a.J).String()
		p := expect(a.I, a.J)
		e.mu.Lock()
		var ch chan net.Addr
		if len(e.parkedNew) > 0 && p != 0 {
			ch = e.parkedNew[0]
			e.parkedNew = e.parkedNew[1:]
		}
		e.mu.Unlock()
		if ch == nil {
			out.Res = "noparked"
			return
		}
		g0 := atomic.LoadInt64(&e.foreignGets)
		defer func() { atomic.AddInt64(&e.connGets, atomic.LoadInt64(&e.foreignGets)-g0) }()
		ch <- e.addr(a.I, a.J)
		c := served(p)
		if c == nil {
			out.Res = "nodial"
			return
		}
		out.P = p
		out.Res = e.connOutcome(c)
	case "VerAck":
		c := e.conn(a.P)
		if c == nil {
			out.Res = "noconn"
			return
		}
		sv := wire.SFNodeNetwork | wire.SFNodeWitness | wire.SFNodeCF
		if e.rng.Intn(2) == 0 {
			sv |= wire.SFNodeBloom
		}
		me := wire.NewNetAddressIPPort(c.remote.IP, uint16(c.remote.Port), sv)
		you := wire.NewNetAddressIPPort(c.local.IP, uint16(c.local.Port), 0)
		mv := wire.NewMsgVersion(me, you, e.rng.Uint64()|1<<63, 0)
		mv.Services = sv
		mv.ProtocolVersion = int32(wire.ProtocolVersion)
		c.fedVersion = true
		c.feed(e.message(mv))
		ok := vfeUntil(vfeWait, func() bool { return c.closedByClient() || c.wrote("verack") })
		if !ok {
			out.Res = "hang"
			return
		}
		if c.closedByClient() {
			out.Res = "dropped"
			conc = "closed on the version message"
			return
		}
		news := func() int {
			e.bmMu.Lock()
			defer e.bmMu.Unlock()
			return e.bmNews[a.P]
		}
		n0 := news()
		c.mu.Lock()
		c.fedVerAck = true
		c.mu.Unlock()
		c.feed(e.message(wire.NewMsgVerAck()))
		// handleAddPeerMsg either disconnects the peer or tells the block manager of it
		ok = vfeUntil(vfeWait, func() bool { return c.closedByClient() || news() > n0 })
		switch {
		case !ok:
			out.Res = "hang"
		case c.closedByClient():
			out.Res = "dropped"
		default:
			e.inner.ConnectedCount() // handleAddPeerMsg has returned when this is answered
			if e.peersBySlot()[a.P] != nil {
				out.Res = "active"
			} else {
				out.Res = "unlisted" // taken on, yet not reported by Peers()
			}
		}
	case "Drop":
		c := e.conn(a.P)
		if c == nil {
			out.Res = "noconn"
			return
		}
		c.remoteClose()
		if vfeUntil(vfeWait, c.closedByClient) {
			out.Res = "ok"
		} else {
			out.Res = "hang"
		}
	case "Misbehave":
		addr := e.addr(a.I, a.J).String()
		conc = addr
		if err := e.s.BanPeer(addr, banman.Reason(a.K)); err != nil {
			out.Res = "err"
		} else {
			out.Res = "ok"
		}
	case "Unban":
		n, err := banman.ParseIPNet(e.addr(a.I, 1).String(), nil)
		if err == nil {
			err = e.s.banStore.UnbanIPNet(n)
		}
		out.Res = errRes(err)
	case "RemoveAddr":
		conc = e.addr(a.I, a.J).String()
		out.Res = errRes(e.s.RemoveNodeByAddr(conc))
	case "RemoveID":
		id := idOf(a.P)
		conc = fmt.Sprintf("id=%d", id)
		out.Res = errRes(e.s.RemoveNodeByID(id))
	case "DisconnectAddr":
		conc = e.addr(a.I, a.J).String()
		out.Res = errRes(e.s.DisconnectNodeByAddr(conc))
	case "DisconnectID":
		id := idOf(a.P)
		conc = fmt.Sprintf("id=%d", id)
		out.Res = errRes(e.s.DisconnectNodeByID(id))
	case "Subscribe":
		ch, cancel, err := e.s.ConnectedPeers()
		if err != nil {
			out.Res = "err:" + err.Error()
			return
		}
		e.subPeers, e.subStop = ch, cancel
		out.Res = "ok"
	case "Unsubscribe":
		e.subStop()
		e.subPeers, e.subStop = nil, nil
		out.Res = "ok"
	case "Announce":
		sp := e.peersBySlot()[a.P]
		if sp == nil {
			out.Res = "nopeer"
			return
		}
		h := vpsHashH
		sp.UpdateLastAnnouncedBlock(&h) // what blockManager.handleInvMsg does for an announced block
		out.Res = "ok"
	case "UpdateHeights":
		var origin *ServerPeer
		if a.P != 0 {
			origin = e.peersBySlot()[a.P]
		}
		h := vpsHashH2
		if a.F == 1 {
			h = vpsHashH
		}
		e.s.UpdatePeerHeights(&h, 1, origin)
		e.inner.ConnectedCount() // the handler has finished the update when it answers this
		out.Res = "ok"
	case "AddrMsg":
		c := e.conn(a.P)
		if c == nil {
			out.Res = "noconn"
			return
		}
		good := wire.SFNodeNetwork | wire.SFNodeWitness | wire.SFNodeCF
		far := time.Now().Add(48 * time.Hour)
		var msg wire.Message
		switch a.F {
		case 1:
			msg = wire.NewMsgAddr()
		case 2:
			m := wire.NewMsgAddr()
			m.AddAddress(wire.NewNetAddressTimestamp(time.Now(), wire.SFNodeNetwork, e.extra[2].IP, uint16(e.extra[2].Port)))
			m.AddAddress(wire.NewNetAddressTimestamp(time.Now(), wire.SFNodeNetwork|wire.SFNodeCF, e.extra[3].IP, uint16(e.extra[3].Port)))
			msg = m
		case 3:
			m := wire.NewMsgAddr()
			m.AddAddress(wire.NewNetAddressTimestamp(time.Now(), wire.SFNodeWitness, e.extra[2].IP, uint16(e.extra[2].Port)))
			m.AddAddress(wire.NewNetAddressTimestamp(far, good, e.extra[0].IP, uint16(e.extra[0].Port)))
			msg = m
		case 4:
			msg = wire.NewMsgAddrV2()
		case 5:
			m := wire.NewMsgAddrV2()
			m.AddrList = append(m.AddrList, vpsNetAddr(e.extra[2].IP, e.extra[2].Port, wire.SFNodeNetwork|wire.SFNodeWitness))
			msg = m
		default:
			m := wire.NewMsgAddrV2()
			m.AddrList = append(m.AddrList, vpsNetAddr(e.extra[3].IP, e.extra[3].Port, wire.SFNodeCF))
			na := vpsNetAddr(e.extra[1].IP, e.extra[1].Port, good|wire.SFNodeBloom)
			na.Timestamp = far
			m.AddrList = append(m.AddrList, na)
			msg = m
		}
		conc = msg.Command()
		n0 := vpsCount(c, "pong")
		c.feed(e.message(msg))
		c.feed(e.message(wire.NewMsgPing(e.rng.Uint64()))) // answered after the addr message has been handled
		ok := vfeUntil(vfeWait, func() bool { return c.closedByClient() || vpsCount(c, "pong") > n0 })
		switch {
		case !ok:
			out.Res = "hang"
		case c.closedByClient():
			out.Res = "dropped"
		default:
			out.Res = "ok"
		}
	case "ShutBegin":
		// the first effects of ChainService.Stop() on the peer handler
		atomic.StoreInt32(&e.s.shutdown, 1)
		atomic.StoreInt32(&e.inner.shutdown, 1)
		e.s.connManager.Stop()
		e.releaseGates()
		e.sh = 1
		out.Res = "ok"
	case "ShutEnd":
		// ... and the last one
		close(e.s.quit)
		e.sh = 2
		select {
		case <-e.handlerDone:
			out.Res = "ok"
		case <-time.After(vfeWait):
			out.Res = "hang"
		}
		select {
		case <-e.fwdDone:
		case <-time.After(vfeWait):
			out.Res = "hang"
		}
	default:
		panic("unknown op " + a.Op)
	}
	return
}

func vpsRunPath(p vpsPathIn, scratch string, seed int64) (out vpsPathOut) {
	for try := 0; try < 3; try++ {
		out = vpsRunOnce(p, scratch, seed)
		hung := false
		for _, st := range out.Steps {
			hung = hung || st.Act.Res == "hang"
		}
		if !hung {
			return out
		}
	}
	if out.Error == "" {
		out.Error = "a step did not complete within its bound on 3 attempts (see the goroutine dump in the trace)"
	}
	return out
}

func vpsRunOnce(p vpsPathIn, scratch string, seed int64) (out vpsPathOut) {
	out.ID = p.ID
	out.Cfg = p.Cfg
	pseed := seed*1000003 + int64(p.ID)
	if p.PSeed != nil {
		pseed = *p.PSeed
	}
	out.PSeed = pseed
	if p.Cfg.MaxPeers != MaxPeers {
		out.Error = fmt.Sprintf("path wants MaxPeers=%d, this process runs with %d", p.Cfg.MaxPeers, MaxPeers)
		return
	}
	dir, err := os.MkdirTemp(scratch, "ps")
	if err != nil {
		out.Error = err.Error()
		return
	}
	defer os.RemoveAll(dir)
	rng := rand.New(rand.NewSource(pseed))
	e, err := vpsStart(dir, p.Cfg, rng)
	if err != nil {
		out.Error = "start: " + err.Error()
		return
	}
	defer e.stop()
	defer func() {
		if r := recover(); r != nil {
			buf := make([]byte, 1<<16)
			buf = buf[:runtime.Stack(buf, true)]
			out.Error = fmt.Sprintf("driver panic: %v\n%s", r, buf)
		}
	}()
	for i := range e.ips {
		for j := range e.ports[i] {
			out.Addrs = append(out.Addrs, e.addr(i+1, j+1).String())
		}
	}
	// the NewConnReq calls connmgr makes at start have to arrive first
	vfeUntil(vfeWait, func() bool {
		e.mu.Lock()
		defer e.mu.Unlock()
		return len(e.parkedNew) >= p.Cfg.TO
	})
	out.InitObs = e.observe()
	record := func(a vfeAct, o vpsObs, conc, note string) {
		st := vpsStepOut{Act: a, Obs: o, Conc: conc, Note: note}
		if a.Res == "hang" {
			buf := make([]byte, 1<<16)
			buf = buf[:runtime.Stack(buf, true)]
			st.Conc += " goroutines: " + string(buf)
		}
		out.Steps = append(out.Steps, st)
	}
	settle := func() vpsObs {
		var o vpsObs
		if e.sh < 2 {
			e.banLookupsDone()
		}
		e.quiesce()
		vfeUntil(vfeWait, func() bool {
			o1 := e.observe()
			time.Sleep(12 * time.Millisecond) // > the retry delay of a permanent request (1 ms)
			o = e.observe()
			return reflect.DeepEqual(o1, o)
		})
		return o
	}
	heal := func(o vpsObs) vpsObs {
		// a connection to a banned address that is still kept gets extra
		// time to go away before it is recorded (once per such set)
		if kb := o.keptBanned(); kb != "" && kb != e.waited {
			vfeUntil(vpsSettle, func() bool {
				o = e.observe()
				return o.keptBanned() == ""
			})
			e.waited = o.keptBanned()
		}
		return o
	}
	for _, s := range p.Steps {
		if !e.applicable(s.Act) {
			e.diverged = true
			continue
		}
		e.stepDl = map[int]bool{}
		a, conc := e.exec(s.Act, s.Act.Res)
		if !e.quiesce() && a.Res != "hang" {
			a.Res = "hang"
			conc += " (a done message was not taken by the peer handler)"
		}
		var o vpsObs
		if !e.diverged {
			vfeUntil(vfeWait, func() bool {
				o = e.observe()
				return reflect.DeepEqual(o, s.Obs)
			})
		} else {
			o = settle()
		}
		o = heal(o)
		record(a, o, conc, "")
		if a != s.Act || !reflect.DeepEqual(o, s.Obs) {
			e.diverged = true
		}
	}
	if e.diverged && e.sh < 2 {
		// Quiescence after a divergence: every handshake in progress is
		// completed by the remote, so that the final state is judged.
		for q := 1; q <= e.cfg.NP; q++ {
			c := e.conn(q)
			a := vfeAct{Op: "VerAck", P: q, Res: "?"}
			if c != nil {
				a.I, a.J = c.i, c.j
			}
			if !e.applicable(a) {
				continue
			}
			e.stepDl = map[int]bool{}
			a2, conc := e.exec(a, "?")
			record(a2, heal(settle()), conc, "closure after divergence")
		}
	}
	return
}

func TestVerifPeerSetReplay(t *testing.T) {
	in, outFn := os.Getenv("VERIF_PATHS"), os.Getenv("VERIF_OUT")
	if in == "" || outFn == "" {
		t.Skip("VERIF_PATHS / VERIF_OUT not set")
	}
	scratch := os.Getenv("VERIF_SCRATCH")
	if scratch == "" {
		scratch = t.TempDir()
	}
	seed, _ := strconv.ParseInt(os.Getenv("VERIF_SEED"), 10, 64)
	if v, err := strconv.Atoi(os.Getenv("VERIF_PS_MAXPEERS")); err == nil && v > 0 {
		MaxPeers = v
	}
	nw := 2 * runtime.NumCPU()
	if v, err := strconv.Atoi(os.Getenv("VERIF_PAR")); err == nil && v > 0 {
		nw = v
	}
	f, err := os.Open(in)
	if err != nil {
		t.Fatal(err)
	}
	defer f.Close()
	var paths []vpsPathIn
	sc := bufio.NewScanner(f)
	sc.Buffer(make([]byte, 1<<20), 1<<28)
	for sc.Scan() {
		var p vpsPathIn
		if err := json.Unmarshal(sc.Bytes(), &p); err != nil {
			t.Fatal(err)
		}
		paths = append(paths, p)
	}
	of, err := os.Create(outFn)
	if err != nil {
		t.Fatal(err)
	}
	w := bufio.NewWriter(of)
	enc := json.NewEncoder(w)
	var outMu sync.Mutex
	var encErr error
	var wg sync.WaitGroup
	jobs := make(chan int)
	for k := 0; k < nw; k++ {
		wg.Add(1)
		go func() {
			defer wg.Done()
			for i := range jobs {
				r := vpsRunPath(paths[i], scratch, seed)
				outMu.Lock()
				if err := enc.Encode(&r); err != nil && encErr == nil {
					encErr = err
				}
				outMu.Unlock()
			}
		}()
	}
	for i := range paths {
		jobs <- i
	}
	close(jobs)
	wg.Wait()
	if encErr != nil {
		t.Fatal(encErr)
	}
	w.Flush()
	of.Close()
}
