package neutrino

// Replay driver for the UtxoScan family (C10).  Injected into package neutrino
// at build time with `go test -overlay`; nothing is copied into /repo.
//
// It executes paths of specs/UtxoScan/UtxoScan.tla against the REAL
// UtxoScanner.  The scanner's goroutine (batchManager) is made deterministic
// by gates, not sleeps: the four config callbacks (BestSnapshot, GetBlockHash,
// BlockFilterMatches, GetBlock) block until the path says how the environment
// answers, and the sync.Locker under the scanner's condition variable (the
// code only ever uses s.cv.L) is replaced by a wrapper around a real mutex
// that (a) holds the batch manager when it re-takes the lock after cv.Wait
// (the "Wake" gate), (b) reports when it parks in cv.Wait (idle) and (c)
// tells the two BestSnapshot call sites apart (a loop-top lock precedes the
// first one of a scan).  Blocks, transactions and GCS filters are real btcd
// objects built from the abstract chain of the path; BlockFilterMatches runs
// the repository's own matchBlockFilter on the real filter.
//
// After every step the driver reads what each caller got (Result()) and
// writes the observable projection defined in UtxoScanProps.tla.

import (
	"bufio"
	"bytes"
	"crypto/sha256"
	"encoding/json"
	"errors"
	"fmt"
	"os"
	"runtime"
	"strings"
	"sync"
	"sync/atomic"
	"testing"
	"time"

	"github.com/btcsuite/btcd/blockchain"
	"github.com/btcsuite/btcd/btcutil/v2"
	"github.com/btcsuite/btcd/btcutil/v2/gcs"
	"github.com/btcsuite/btcd/btcutil/v2/gcs/builder"
	"github.com/btcsuite/btcd/chainhash/v2"
	"github.com/btcsuite/btcd/wire/v2"
	"github.com/lightninglabs/neutrino/headerfs"
)

const (
	uxIdle   = 0
	uxWake   = 1
	uxBest0  = 2
	uxHash   = 3
	uxFilter = 4
	uxBlock  = 5
	uxTail   = 6
	uxExit   = 7
	uxPanic  = 8
	uxHung   = 9

	uxKSpend = 1
	uxKUtxo  = 2
	uxKEmpty = 3
	uxKErr   = 4
	uxKShut  = 5
	uxKBad   = 6
)

var errUxInjected = errors.New("verif: injected fetch failure")

// generous bound for "the batch manager / Stop got nowhere": a normal step
// takes microseconds, Stop on an idle scanner 50 ms (its own timer).
var (
	uxHangBound      = 20 * time.Second
	uxHangBoundShort = 6 * time.Second
	uxHangs          int32
)

func uxBound() time.Duration {
	if atomic.LoadInt32(&uxHangs) >= 8 {
		return uxHangBoundShort
	}
	return uxHangBound
}

// ---------------------------------------------------------------------------
// JSON shapes (see UtxoScanProps.tla)

type uxTx struct {
	ID   int     `json:"id"`
	Nout int     `json:"nout"`
	Ins  [][]int `json:"ins"`
	// script id of every output; outputs with the same id pay to the same
	// script (address re-use).  Absent (chain tables saved before the field
	// existed): every output has a script of its own, id*10 + index.
	Scr []int `json:"scr,omitempty"`
	// 1: this transaction is the block's COINBASE (first of block.Transactions,
	// one input with the null outpoint); only the first transaction of a block
	// description may carry it.  Blocks whose description has none get a default
	// coinbase nobody asks for.
	Cb int `json:"cb,omitempty"`
}

// scriptID is the script id of output i of the transaction.
func (t uxTx) scriptID(i int) int {
	if i < len(t.Scr) {
		return t.Scr[i]
	}
	return t.ID*10 + i
}

type uxReqObs struct {
	Tx    int     `json:"tx"`
	Idx   int     `json:"idx"`
	Start int     `json:"start"`
	Ans   [][]int `json:"ans"`
}

type uxObs struct {
	Cid   int        `json:"cid"`
	Best  int        `json:"best"`
	Pc    int        `json:"pc"`
	H     int        `json:"h"`
	Quit  int        `json:"quit"`
	Reqs  []uxReqObs `json:"reqs"`
}

type uxAct struct {
	Op  string `json:"op"`
	A   int    `json:"a"`
	B   int    `json:"b"`
	C   int    `json:"c"`
	Res string `json:"res"`
}

type uxStepIn struct {
	Act uxAct `json:"act"`
}

type uxPathIn struct {
	ID      json.RawMessage `json:"id"`
	InitObs uxObs           `json:"init_obs"`
	Steps   []uxStepIn      `json:"steps"`
}

type uxStepOut struct {
	Act  uxAct  `json:"act"`
	Obs  uxObs  `json:"obs"`
	Note string `json:"note,omitempty"`
	Dump string `json:"dump,omitempty"`
	// 1: a step made after the model path had ended (run-out after Stop, see
	// uxRunPath); the path file has no prediction for it, so it is judged by
	// Props but not compared for drift
	Ext int `json:"ext,omitempty"`
}

type uxPathOut struct {
	ID      json.RawMessage `json:"id"`
	InitObs uxObs           `json:"init_obs"`
	Steps   []uxStepOut     `json:"steps"`
	Error   string          `json:"error,omitempty"`
	// the chain table of the run (what obs.cid indexes), so that a saved
	// trace can be replayed and judged on its own
	Chains [][][]uxTx `json:"chains,omitempty"`
}

// uxTable is the chain table of this run (VERIF_UX_CHAINS, the same
// description UtxoScanChains.tla is generated from).
var uxTable [][][]uxTx

// ---------------------------------------------------------------------------
// concrete chain built from the abstract one

type uxChainData struct {
	desc    [][]uxTx
	h       int
	blocks  []*wire.MsgBlock // index = height, 0 = a base block that is never scanned
	hashes  []chainhash.Hash
	filters []*gcs.Filter
	entries [][][]byte // per height: what the block's basic filter is built from
	height  map[chainhash.Hash]int
	txs     map[int]*wire.MsgTx
	txID    map[chainhash.Hash]int
	abs     map[int]uxTx
	// (pkScript, value) -> (txid, index): several outputs may pay to one
	// script, the value (uxValue) tells them apart
	owner map[string][2]int
}

var uxChains sync.Map // json(desc) -> *uxChainData

func uxScript(t, i int) []byte {
	d := sha256.Sum256([]byte(fmt.Sprintf("verif-utxo-%d-%d", t, i)))
	return append([]byte{0x51, 0x20}, d[:]...)
}

// uxScriptOfID is the script with the given id of the chain description.
func uxScriptOfID(id int) []byte {
	d := sha256.Sum256([]byte(fmt.Sprintf("verif-utxo-script-%d", id)))
	return append([]byte{0x51, 0x20}, d[:]...)
}

// uxValue is the amount of output i of transaction t: unique per outpoint.
func uxValue(t, i int) int64 { return int64(1000*t + i + 1) }

func uxOwnerKey(script []byte, value int64) string {
	return fmt.Sprintf("%x/%d", script, value)
}

// scriptOf is the script outpoint (t, i) pays to: that of the real output
// if a transaction of the chain creates it, else (foreign transaction, index
// out of range) a script of its own that no output of the chain pays to.
func (cd *uxChainData) scriptOf(t, i int) []byte {
	if a, ok := cd.abs[t]; ok && i >= 0 && i < a.Nout {
		return uxScriptOfID(a.scriptID(i))
	}
	return uxScript(t, i)
}

func uxForeignHash(t int) chainhash.Hash {
	return chainhash.Hash(sha256.Sum256([]byte(fmt.Sprintf("verif-foreign-tx-%d", t))))
}

func uxBuildChain(desc [][]uxTx) (*uxChainData, error) {
	key, _ := json.Marshal(desc)
	if v, ok := uxChains.Load(string(key)); ok {
		return v.(*uxChainData), nil
	}
	cd := &uxChainData{desc: desc, h: len(desc), height: map[chainhash.Hash]int{},
		txs: map[int]*wire.MsgTx{}, txID: map[chainhash.Hash]int{}, owner: map[string][2]int{},
		abs: map[int]uxTx{}}
	abs := cd.abs
	for _, blk := range desc {
		for pos, t := range blk {
			if _, dup := abs[t.ID]; dup {
				return nil, fmt.Errorf("tx id %d twice in the chain", t.ID)
			}
			if t.Cb == 1 && (pos != 0 || len(t.Ins) != 0) {
				return nil, fmt.Errorf("tx id %d: a coinbase is the first transaction of its block and has no inputs", t.ID)
			}
			abs[t.ID] = t
		}
	}
	var build func(id int, depth int) (*wire.MsgTx, error)
	build = func(id int, depth int) (*wire.MsgTx, error) {
		if tx, ok := cd.txs[id]; ok {
			return tx, nil
		}
		if depth > 64 {
			return nil, fmt.Errorf("spend cycle at tx %d", id)
		}
		t := abs[id]
		tx := wire.NewMsgTx(2)
		tx.LockTime = uint32(id)
		if t.Cb == 1 {
			tx.AddTxIn(wire.NewTxIn(&wire.OutPoint{Index: 0xffffffff}, []byte{0x02, byte(id), 0x76, 0x66}, nil))
		} else if len(t.Ins) == 0 {
			tx.AddTxIn(wire.NewTxIn(&wire.OutPoint{Hash: uxForeignHash(1000 + id), Index: 0}, nil, nil))
		}
		for _, in := range t.Ins {
			var ph chainhash.Hash
			if _, ok := abs[in[0]]; ok {
				p, err := build(in[0], depth+1)
				if err != nil {
					return nil, err
				}
				ph = p.TxHash()
			} else {
				ph = uxForeignHash(in[0])
			}
			tx.AddTxIn(wire.NewTxIn(&wire.OutPoint{Hash: ph, Index: uint32(in[1])}, nil, nil))
		}
		for i := 0; i < t.Nout; i++ {
			tx.AddTxOut(wire.NewTxOut(uxValue(id, i), cd.scriptOf(id, i)))
			cd.owner[uxOwnerKey(cd.scriptOf(id, i), uxValue(id, i))] = [2]int{id, i}
		}
		cd.txs[id] = tx
		cd.txID[tx.TxHash()] = id
		return tx, nil
	}
	var prev chainhash.Hash
	for h := 0; h <= cd.h; h++ {
		blk := wire.NewMsgBlock(&wire.BlockHeader{Version: 1, PrevBlock: prev,
			Timestamp: time.Unix(1600000000+int64(h)*600, 0), Bits: 0x207fffff})
		cb := wire.NewMsgTx(2)
		cb.AddTxIn(wire.NewTxIn(&wire.OutPoint{Index: 0xffffffff}, []byte{0x01, byte(h), 0x76, 0x66}, nil))
		cb.AddTxOut(wire.NewTxOut(50, uxScript(100000+h, 0)))
		// the description's own coinbase (an output of it may be requested) or the default one
		if h < 1 || len(desc[h-1]) == 0 || desc[h-1][0].Cb != 1 {
			blk.AddTransaction(cb)
		}
		var prevScripts [][]byte
		if h >= 1 {
			for _, t := range desc[h-1] {
				tx, err := build(t.ID, 0)
				if err != nil {
					return nil, err
				}
				blk.AddTransaction(tx)
				if len(t.Ins) == 0 && t.Cb != 1 {
					prevScripts = append(prevScripts, uxScript(-t.ID, 0))
				}
				for _, in := range t.Ins {
					prevScripts = append(prevScripts, cd.scriptOf(in[0], in[1]))
				}
			}
		}
		utx := make([]*btcutil.Tx, 0, len(blk.Transactions))
		for _, tx := range blk.Transactions {
			utx = append(utx, btcutil.NewTx(tx))
		}
		blk.Header.MerkleRoot = blockchain.CalcMerkleRoot(utx, false)
		f, err := builder.BuildBasicFilter(blk, prevScripts)
		if err != nil {
			return nil, err
		}
		hash := blk.BlockHash()
		cd.blocks = append(cd.blocks, blk)
		cd.hashes = append(cd.hashes, hash)
		cd.filters = append(cd.filters, f)
		ent := append([][]byte{}, prevScripts...)
		for _, tx := range blk.Transactions {
			for _, o := range tx.TxOut {
				ent = append(ent, o.PkScript)
			}
		}
		cd.entries = append(cd.entries, ent)
		cd.height[hash] = h
		prev = hash
	}
	v, _ := uxChains.LoadOrStore(string(key), cd)
	return v.(*uxChainData), nil
}

func (cd *uxChainData) input(t, i int) (*InputWithScript, error) {
	tx, ok := cd.txs[t]
	if !ok {
		return nil, fmt.Errorf("request for tx %d which is not in the chain", t)
	}
	return &InputWithScript{OutPoint: wire.OutPoint{Hash: tx.TxHash(), Index: uint32(i)},
		PkScript: cd.scriptOf(t, i)}, nil
}

func (cd *uxChainData) project(rep *SpendReport, err error) []int {
	switch {
	case err == ErrShuttingDown:
		return []int{uxKShut, 0, 0, 0}
	case err != nil:
		return []int{uxKErr, 0, 0, 0}
	case rep == nil:
		return []int{uxKEmpty, 0, 0, 0}
	case rep.SpendingTx != nil:
		id, ok := cd.txID[rep.SpendingTx.TxHash()]
		if !ok {
			id = -2
		}
		return []int{uxKSpend, int(rep.SpendingTxHeight), id, int(rep.SpendingInputIndex)}
	case rep.Output != nil:
		// the output the report names: identified by script AND value
		// (outputs of different outpoints may share the script)
		o, ok := cd.owner[uxOwnerKey(rep.Output.PkScript, rep.Output.Value)]
		if !ok {
			return []int{uxKBad, 0, 0, 0}
		}
		h := int(rep.BlockHeight)
		if rep.BlockHash == nil || h < 0 || h > cd.h || *rep.BlockHash != cd.hashes[h] {
			h = -2
		}
		return []int{uxKUtxo, h, o[0], o[1]}
	}
	return []int{uxKBad, 0, 0, 0}
}

// ---------------------------------------------------------------------------
// gates

type uxEvent struct {
	kind  int
	h     int
	stack string
}

type uxRelease struct {
	fail  bool
	match bool // filter gate: serve a filter with a false positive for what is watched
	stale bool // filter gate: "block reorged out"
}

type uxReqSt struct {
	tx, idx, start int
	req            *GetUtxoRequest
	ans            [][]int
	// a caller goroutine that is still inside Result() (only when Result
	// did not return although quit is closed)
	pending chan []int
}

type uxEnv struct {
	cd      *uxChainData
	cid     int
	s       *UtxoScanner
	best    int32
	ev      chan uxEvent
	rel     chan uxRelease
	drain   int32
	loopTop int32

	pc, h     int
	lastMatch int32 // what BlockFilterMatches last returned: 1 match, 0 no match, -1 error
	quit     bool
	stopDone chan struct{}
	reqs     []*uxReqSt
}

func (e *uxEnv) gate(ev uxEvent) uxRelease {
	if atomic.LoadInt32(&e.drain) == 1 {
		return uxRelease{fail: true}
	}
	e.ev <- ev
	return <-e.rel
}

func (e *uxEnv) post(ev uxEvent) {
	if atomic.LoadInt32(&e.drain) == 1 {
		return
	}
	select {
	case e.ev <- ev:
	default:
	}
}

// uxLocker is the sync.Locker under the scanner's condition variable.
type uxLocker struct {
	mu sync.Mutex
	e  *uxEnv
}

// uxCaller classifies the function that called Lock/Unlock.
func uxCaller() string {
	var pcs [12]uintptr
	n := runtime.Callers(3, pcs[:])
	frames := runtime.CallersFrames(pcs[:n])
	for {
		f, more := frames.Next()
		fn := f.Function
		switch {
		case strings.Contains(fn, "uxLocker"):
		case strings.HasSuffix(fn, "sync.(*Cond).Wait"):
			return "wait"
		case strings.HasSuffix(fn, ".dequeueAtHeight"):
			return "dequeue"
		case strings.HasSuffix(fn, ".batchManager"):
			return "loop"
		case strings.HasPrefix(fn, "runtime."):
		default:
			return "other"
		}
		if !more {
			return "other"
		}
	}
}

func (l *uxLocker) Lock() {
	switch uxCaller() {
	case "wait":
		atomic.StoreInt32(&l.e.loopTop, 1)
		l.e.gate(uxEvent{kind: uxWake})
	case "loop":
		atomic.StoreInt32(&l.e.loopTop, 1)
	}
	l.mu.Lock()
}

func (l *uxLocker) Unlock() {
	c := uxCaller()
	l.mu.Unlock()
	if c == "wait" {
		l.e.post(uxEvent{kind: uxIdle})
	}
}

func (e *uxEnv) bestSnapshot() (*headerfs.BlockStamp, error) {
	kind := uxTail
	if atomic.SwapInt32(&e.loopTop, 0) == 1 {
		kind = uxBest0
	}
	r := e.gate(uxEvent{kind: kind})
	if r.fail {
		return nil, errUxInjected
	}
	b := int(atomic.LoadInt32(&e.best))
	return &headerfs.BlockStamp{Hash: e.cd.hashes[b], Height: int32(b),
		Timestamp: e.cd.blocks[b].Header.Timestamp}, nil
}

func (e *uxEnv) getBlockHash(height int64) (*chainhash.Hash, error) {
	r := e.gate(uxEvent{kind: uxHash, h: int(height)})
	if r.fail {
		return nil, errUxInjected
	}
	if height < 0 || height > int64(atomic.LoadInt32(&e.best)) {
		return nil, fmt.Errorf("verif: no block at height %d", height)
	}
	h := e.cd.hashes[height]
	return &h, nil
}

// uxChainSrc is the ChainSource handed to the repository's blockFilterMatches.
// That helper only calls GetCFilter; its outcome is the gate: the block's real
// BIP158 filter, a real filter that additionally contains everything that is
// being watched (a false positive), ErrFilterFetchFailed, or
// headerfs.ErrHashNotFound ("block reorged out").
type uxChainSrc struct {
	ChainSource
	cd    *uxChainData
	gate  func(h int) uxRelease
	watch func() [][]byte
}

func (c *uxChainSrc) GetCFilter(hash chainhash.Hash, _ wire.FilterType,
	_ ...QueryOption) (*gcs.Filter, error) {

	h, ok := c.cd.height[hash]
	if !ok {
		h = -1
	}
	r := c.gate(h)
	switch {
	case r.fail:
		return nil, ErrFilterFetchFailed
	case r.stale || !ok:
		return nil, headerfs.ErrHashNotFound
	case r.match:
		entries := append(append([][]byte{}, c.cd.entries[h]...), c.watch()...)
		return builder.WithKeyHash(&hash).AddEntries(entries).Build()
	}
	return c.cd.filters[h], nil
}

// filterMatches is UtxoScannerConfig.BlockFilterMatches wired exactly as
// NewChainService does (neutrino.go): the repository's blockFilterMatches over
// a ChainSource.
func (e *uxEnv) filterMatches(ro *rescanOptions, hash *chainhash.Hash) (bool, error) {
	src := &uxChainSrc{cd: e.cd,
		gate: func(h int) uxRelease { return e.gate(uxEvent{kind: uxFilter, h: h}) },
		watch: func() [][]byte {
			var w [][]byte
			for _, r := range e.reqs {
				w = append(w, e.cd.scriptOf(r.tx, r.idx))
			}
			return w
		}}
	matches, _, err := blockFilterMatches(src, ro, hash)
	switch {
	case err != nil:
		atomic.StoreInt32(&e.lastMatch, -1)
	case matches:
		atomic.StoreInt32(&e.lastMatch, 1)
	default:
		atomic.StoreInt32(&e.lastMatch, 0)
	}
	return matches, err
}

func (e *uxEnv) getBlock(hash chainhash.Hash, _ ...QueryOption) (*btcutil.Block, error) {
	h, ok := e.cd.height[hash]
	if !ok {
		h = -1
	}
	r := e.gate(uxEvent{kind: uxBlock, h: h})
	if r.fail || !ok {
		return nil, errUxInjected
	}
	return btcutil.NewBlock(e.cd.blocks[h]), nil
}

func uxDump() string {
	buf := make([]byte, 1<<20)
	n := runtime.Stack(buf, true)
	// keep the goroutines that matter
	var out []string
	for _, g := range strings.Split(string(buf[:n]), "\n\n") {
		if strings.Contains(g, "UtxoScanner") || strings.Contains(g, "GetUtxoRequest") {
			out = append(out, g)
		}
	}
	s := strings.Join(out, "\n\n")
	if len(s) > 6000 {
		s = s[:6000]
	}
	return s
}

// wait blocks until the batch manager is at its next gate, parked, gone or
// dead.  An idle report while quit is closed is followed by Stop's signal.
func (e *uxEnv) wait() string {
	for {
		t := time.NewTimer(uxBound())
		select {
		case ev := <-e.ev:
			t.Stop()
			if ev.kind == uxIdle && e.quit {
				e.pc, e.h = uxIdle, 0
				continue
			}
			e.pc, e.h = ev.kind, ev.h
			if ev.kind == uxExit && e.stopDone != nil {
				t2 := time.NewTimer(uxBound())
				select {
				case <-e.stopDone:
					t2.Stop()
				case <-t2.C:
					atomic.AddInt32(&uxHangs, 1)
					e.pc = uxHung
					return "Stop did not return after the batch manager exited\n" + uxDump()
				}
			}
			if ev.kind == uxPanic {
				return ev.stack
			}
			return ""
		case <-t.C:
			atomic.AddInt32(&uxHangs, 1)
			e.pc, e.h = uxHung, 0
			return "no gate reached\n" + uxDump()
		}
	}
}

func uxNewEnv(cd *uxChainData, best int) (*uxEnv, string) {
	e := &uxEnv{cd: cd, best: int32(best), ev: make(chan uxEvent, 64), rel: make(chan uxRelease)}
	e.s = NewUtxoScanner(&UtxoScannerConfig{
		BestSnapshot:       e.bestSnapshot,
		GetBlockHash:       e.getBlockHash,
		BlockFilterMatches: e.filterMatches,
		GetBlock:           e.getBlock,
	})
	// the scanner only ever locks through s.cv.L
	e.s.cv = sync.NewCond(&uxLocker{e: e})
	// UtxoScanner.Start, with the goroutine wrapped so that a panic of the
	// batch manager is an observation instead of the death of the driver
	atomic.StoreUint32(&e.s.started, 1)
	e.s.wg.Add(1)
	go func() {
		defer func() {
			if r := recover(); r != nil {
				buf := make([]byte, 8192)
				n := runtime.Stack(buf, false)
				e.post(uxEvent{kind: uxPanic, stack: fmt.Sprintf("panic: %v\n%s", r, buf[:n])})
				return
			}
			e.post(uxEvent{kind: uxExit})
		}()
		e.s.batchManager()
	}()
	d := e.wait()
	return e, d
}

func (e *uxEnv) atGate() bool {
	return e.pc >= uxWake && e.pc <= uxTail
}

// cleanup lets everything run out: all gates answer "fail" at once, Stop.
func (e *uxEnv) cleanup() string {
	atomic.StoreInt32(&e.drain, 1)
	if e.atGate() || e.pc == uxHung {
		select {
		case e.rel <- uxRelease{fail: true}:
		case <-time.After(200 * time.Millisecond):
		}
	}
	if e.stopDone == nil {
		e.stopDone = make(chan struct{})
		go func() { e.s.Stop(); close(e.stopDone) }()
	}
	// a batch manager that is just now entering a gate may have seen drain=0
	deadline := time.After(uxBound())
	tick := time.NewTicker(200 * time.Microsecond)
	defer tick.Stop()
	for {
		select {
		case <-e.stopDone:
			return ""
		case <-e.ev:
		case e.rel <- uxRelease{fail: true}:
		case <-tick.C:
			// what Stop does every 50 ms, sooner (not part of any judged step)
			e.s.cv.Signal()
		case <-deadline:
			return "cleanup: Stop did not return\n" + uxDump()
		}
	}
}

func (e *uxEnv) collect() {
	for _, r := range e.reqs {
		if r.req == nil {
			continue
		}
		if r.pending != nil {
			// the caller goroutine owns the channel; give it a moment
			// when something is there for it to take
			var t <-chan time.Time
			if len(r.req.resultChan) > 0 {
				t = time.After(2 * time.Second)
			} else {
				t = time.After(20 * time.Millisecond)
			}
			select {
			case x := <-r.pending:
				r.ans = append(r.ans, x)
				r.pending = nil
			case <-t:
			}
			continue
		}
		for len(r.req.resultChan) > 0 {
			if len(r.ans) == 0 {
				rep, err := r.req.Result(nil)
				r.ans = append(r.ans, e.cd.project(rep, err))
				continue
			}
			if e.quit {
				break // nobody is listening any more
			}
			x := <-r.req.resultChan
			r.ans = append(r.ans, e.cd.project(x.report, x.err))
		}
	}
}

func (e *uxEnv) obs() uxObs {
	o := uxObs{Cid: e.cid, Best: int(atomic.LoadInt32(&e.best)), Pc: e.pc, H: e.h,
		Reqs: make([]uxReqObs, 0, len(e.reqs))}
	if e.pc == uxBest0 || e.pc == uxTail || e.pc == uxWake || e.pc == uxIdle || e.pc >= uxExit {
		o.H = 0
	}
	if e.quit {
		o.Quit = 1
	}
	for _, r := range e.reqs {
		a := make([][]int, len(r.ans))
		copy(a, r.ans)
		o.Reqs = append(o.Reqs, uxReqObs{Tx: r.tx, Idx: r.idx, Start: r.start, Ans: a})
	}
	return o
}

func (e *uxEnv) above() int {
	n := 0
	for _, r := range e.reqs {
		if len(r.ans) == 0 && r.start > int(atomic.LoadInt32(&e.best)) {
			n++
		}
	}
	return n
}

var uxOpPc = map[string]int{"Wake": uxWake, "BatchStart": uxBest0, "GetHash": uxHash,
	"FilterMatch": uxFilter, "GetBlock": uxBlock, "Tail": uxTail}
var uxPcOp = map[int]string{uxWake: "Wake", uxBest0: "BatchStart", uxHash: "GetHash",
	uxFilter: "FilterMatch", uxBlock: "GetBlock", uxTail: "Tail"}

// release answers the gate the batch manager is blocked at the way `want`
// says and waits for the next gate; returns the action as it really happened.
func (e *uxEnv) release(want uxAct) (uxAct, string) {
	a := uxAct{Op: uxPcOp[e.pc]}
	switch e.pc {
	case uxHash, uxFilter, uxBlock:
		a.A = e.h
	case uxBest0:
		a.B = int(atomic.LoadInt32(&e.best))
	case uxTail:
		a.B = int(atomic.LoadInt32(&e.best))
		a.C = e.above()
	}
	from := e.pc
	// filter gate: the block's true filter unless the model step says the
	// environment serves a false positive (act.b = 1); a "match" with b = 0 is
	// the helper's own answer over the reporter's watch list
	r := uxRelease{fail: want.Res == "fail",
		match: want.Res == "match" && want.B == 1 && from == uxFilter,
		stale: want.Res == "stale" && from == uxFilter}
	e.rel <- r
	dump := e.wait()
	switch {
	case r.fail:
		a.Res = "fail"
	case r.stale:
		a.Res = "stale"
	case from == uxFilter:
		if atomic.LoadInt32(&e.lastMatch) == 1 {
			a.Res = "match"
			if r.match {
				a.B = 1
			}
		} else {
			a.Res = "nomatch"
		}
	case from == uxTail:
		if e.pc == uxHash {
			a.Res = "more"
		} else {
			a.Res = "done"
		}
	default:
		a.Res = "ok"
	}
	if e.pc == uxPanic {
		a.Res = "panic"
	}
	return a, dump
}

func uxRunPath(p *uxPathIn) (out uxPathOut) {
	out.ID = p.ID
	if atomic.LoadInt32(&uxHangs) >= 48 {
		out.Error = "not run: too many hangs on earlier paths (see their dumps)"
		return out
	}
	if p.InitObs.Cid < 1 || p.InitObs.Cid > len(uxTable) {
		out.Error = fmt.Sprintf("chain %d is not in VERIF_UX_CHAINS", p.InitObs.Cid)
		return out
	}
	out.Chains = uxTable
	cd, err := uxBuildChain(uxTable[p.InitObs.Cid-1])
	if err != nil {
		out.Error = "chain: " + err.Error()
		return out
	}
	if p.InitObs.Best < 0 || p.InitObs.Best > cd.h {
		out.Error = "bad initial best height"
		return out
	}
	e, d := uxNewEnv(cd, p.InitObs.Best)
	e.cid = p.InitObs.Cid
	defer func() {
		if c := e.cleanup(); c != "" && out.Error == "" {
			out.Error = c
		}
	}()
	out.InitObs = e.obs()
	if d != "" {
		out.Error = "batch manager did not park after start: " + d
		return out
	}
	drifted := false
	for _, st := range p.Steps {
		a := st.Act
		var step uxStepOut
		switch a.Op {
		case "Enqueue":
			in, err := cd.input(a.A, a.B)
			if err != nil {
				out.Error = err.Error()
				return out
			}
			rs := &uxReqSt{tx: a.A, idx: a.B, start: a.C}
			req, err := e.s.Enqueue(in, uint32(a.C), func(uint32) {})
			e.reqs = append(e.reqs, rs)
			if err != nil {
				a.Res = "err"
				rs.ans = append(rs.ans, cd.project(nil, err))
			} else {
				a.Res = "ok"
				rs.req = req
				if e.pc == uxIdle {
					step.Dump = e.wait()
				}
			}
		case "NewBlock":
			if int(atomic.LoadInt32(&e.best)) >= cd.h {
				out.Error = "NewBlock beyond the chain"
				return out
			}
			a.A = int(atomic.AddInt32(&e.best, 1))
			a.Res = "ok"
		case "Stop":
			if e.stopDone != nil {
				out.Error = "Stop twice"
				return out
			}
			e.stopDone = make(chan struct{})
			go func(s *UtxoScanner, done chan struct{}) { s.Stop(); close(done) }(e.s, e.stopDone)
			select {
			case <-e.s.quit:
			case <-time.After(uxBound()):
				out.Error = "Stop did not close quit"
				return out
			}
			e.quit = true
			a.Res = "ok"
			// every caller still waiting in Result() leaves through quit
			for _, r := range e.reqs {
				if r.req != nil && len(r.ans) == 0 {
					ch := make(chan []int, 1)
					go func(q *GetUtxoRequest) {
						rep, err := q.Result(nil)
						ch <- cd.project(rep, err)
					}(r.req)
					select {
					case x := <-ch:
						r.ans = append(r.ans, x)
					case <-time.After(uxBound()):
						atomic.AddInt32(&uxHangs, 1)
						r.pending = ch
						step.Dump += "Result() did not return although quit is closed\n" + uxDump()
					}
				}
			}
			if e.pc == uxIdle {
				step.Dump = e.wait()
			}
		case "Signal":
			// a late cv.Signal (of an Enqueue that already returned)
			if e.pc != uxIdle {
				if !drifted {
					drifted = true
					out.Steps = append(out.Steps, uxStepOut{Act: uxAct{Op: "Skip", Res: a.Op}, Obs: e.obs(),
						Note: fmt.Sprintf("model step Signal but the batch manager is at pc %d", e.pc)})
				}
				continue
			}
			e.s.cv.Signal()
			a.Res = "ok"
			step.Dump = e.wait()
		default:
			want, ok := uxOpPc[a.Op]
			if !ok {
				out.Error = "unknown op " + a.Op
				return out
			}
			if e.pc != want {
				// the code is not where the model is: nothing to answer
				if !drifted {
					drifted = true
					out.Steps = append(out.Steps, uxStepOut{Act: uxAct{Op: "Skip", Res: a.Op}, Obs: e.obs(),
						Note: fmt.Sprintf("model step %s but the batch manager is at pc %d", a.Op, e.pc)})
				}
				continue
			}
			a, step.Dump = e.release(a)
		}
		e.collect()
		step.Act = a
		step.Obs = e.obs()
		if drifted {
			step.Note = "after drift"
		}
		out.Steps = append(out.Steps, step)
		if e.pc == uxHung || e.pc == uxPanic {
			return out
		}
	}
	if !drifted && e.quit {
		// Stop was called and the path ends with the batch manager still at a
		// gate: the environment goes on answering every call successfully (true
		// filters) until the manager has returned, so that the number of calls
		// the scan makes after Stop (C17: StopBoundedWork) is observed in full.
		// The model has at most two such steps; the bound of 64 only ends a
		// scan that walks on over more heights than any chain used here has.
		for i := 0; i < 64 && e.atGate(); i++ {
			a, dump := e.release(uxAct{Res: "ok"})
			e.collect()
			out.Steps = append(out.Steps, uxStepOut{Act: a, Obs: e.obs(), Dump: dump, Ext: 1})
		}
	}
	if drifted {
		// the model no longer says how this ends: let the environment answer
		// every gate successfully and see whether everybody gets an answer
		for i := 0; i < 64 && e.atGate(); i++ {
			a, dump := e.release(uxAct{Res: "ok"})
			e.collect()
			out.Steps = append(out.Steps, uxStepOut{Act: a, Obs: e.obs(), Note: "free run", Dump: dump})
		}
	}
	return out
}

func TestVerifUtxoScanReplay(t *testing.T) {
	pf, of := os.Getenv("VERIF_PATHS"), os.Getenv("VERIF_OUT")
	if pf == "" || of == "" {
		t.Skip("VERIF_PATHS / VERIF_OUT not set")
	}
	if err := json.Unmarshal([]byte(os.Getenv("VERIF_UX_CHAINS")), &uxTable); err != nil {
		t.Fatalf("VERIF_UX_CHAINS: %v", err)
	}
	in, err := os.Open(pf)
	if err != nil {
		t.Fatal(err)
	}
	defer in.Close()
	outf, err := os.Create(of)
	if err != nil {
		t.Fatal(err)
	}
	defer outf.Close()
	w := bufio.NewWriterSize(outf, 1<<20)
	defer w.Flush()

	lines := make(chan []byte, 256)
	results := make(chan []byte, 256)
	var wg sync.WaitGroup
	workers := runtime.NumCPU()
	for i := 0; i < workers; i++ {
		wg.Add(1)
		go func() {
			defer wg.Done()
			for ln := range lines {
				var p uxPathIn
				var o uxPathOut
				if err := json.Unmarshal(ln, &p); err != nil {
					o.Error = "bad path line: " + err.Error()
				} else {
					o = uxRunPath(&p)
				}
				b, err := json.Marshal(&o)
				if err != nil {
					b, _ = json.Marshal(&uxPathOut{ID: p.ID, Error: "marshal: " + err.Error()})
				}
				results <- b
			}
		}()
	}
	done := make(chan struct{})
	go func() {
		for b := range results {
			w.Write(b)
			w.WriteByte('\n')
		}
		close(done)
	}()
	sc := bufio.NewScanner(in)
	sc.Buffer(make([]byte, 1<<20), 1<<26)
	for sc.Scan() {
		ln := bytes.TrimSpace(sc.Bytes())
		if len(ln) == 0 {
			continue
		}
		lines <- append([]byte(nil), ln...)
	}
	close(lines)
	wg.Wait()
	close(results)
	<-done
	if err := sc.Err(); err != nil {
		t.Fatal(err)
	}
}
