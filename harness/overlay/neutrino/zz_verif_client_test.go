package neutrino

// Driver of the Client family (property C04). Injected into package neutrino
// with `go test -overlay` together with zz_verif_netsim_test.go.
//
// TestVerifClientRun (parent) reads VERIF_PATHS - paths of specs/Client/
// Client.tla - and realises every path as ONE SCENARIO in a child process
// (TestVerifClientOne, the same test binary re-executed): a panic in a
// goroutine of the ChainService kills the process, and only a separate
// process lets that be recorded as the outcome of the scenario.
//
// A path is a behaviour assignment (init_obs.kind / lk / long), an order of
// ENVIRONMENT events (Up, Drop, Extend, Reorg, Settle) and, between them,
// CLIENT steps of the model which the driver uses as hints: every mock node
// parks its answers behind gates (headers per peer, filter checkpoints,
// cfheaders, filters/blocks); SyncHdr(p) opens the header gate of p until the
// client's header tip reached p's chain (bounded wait), FltBegin the
// checkpoint gate until a checkpointed getcfheaders batch is parked, FltEnd /
// SyncFlt the filter gates until the filter tip caught up; Deadline opens
// everything for good and waits until the client converged or the deadline
// passed. No answer is parked longer than vncMaxHold.
//
// HsFail(p, stage): the next connection attempt of the client to node p fails at
// that handshake stage (netsim FailNext; the node starts accepting if it was not
// up yet); the step waits until the attempt was made. HsFail steps that directly
// follow a Drop(p) are scripted BEFORE the connection is closed, so they hit the
// redials. Extend(n) with p = q # 0: the chain grows silently, node q alone
// announces and the step waits until q's getheaders is parked (or answered);
// Inv(p): node p announces now; Settle / Deadline deliver what is still pending.
//
// The child samples the public API continuously (every change is one
// "Sample" step) and after every step; VERIF_OUT gets one observed trace per
// scenario, judged afterwards by TLC with specs/Client/ClientProps.tla.

import (
	"bufio"
	"bytes"
	"encoding/json"
	"fmt"
	"math/rand"
	"os"
	"os/exec"
	"path/filepath"
	"runtime"
	"strconv"
	"strings"
	"sync"
	"sync/atomic"
	"testing"
	"time"

	"github.com/btcsuite/btcd/wire/v2"
)

const vncMaxHold = 700 * time.Millisecond

type vncAct struct {
	Op  string `json:"op"`
	Res string `json:"res"`
	P   int    `json:"p"`
	N   int    `json:"n"`
	D   int    `json:"d"`
	Why string `json:"why"`
}

type vncCfg struct {
	Seed     int64 `json:"seed"`
	Unit     int   `json:"unit"`
	Delta    int   `json:"delta"`
	Deadline int   `json:"deadline"` // seconds
	Len      int   `json:"len"`      // initial length of the honest chain in model units
	Free     int   `json:"free"`     // 1 = free running: all gates open, Extend delivers its blocks one by one; 2 = with a shallow reorg every 7th block
	// Ev: real size of the k-th Extend / Reorg step of the path (counted together, from 0): [blocks] for an Extend,
	// [depth, new blocks] for a Reorg; a missing or empty entry = Unit based (Unit*n; Unit*d, Unit*d+Unit).
	Ev [][]int `json:"ev,omitempty"`
	// Gone: peers (1-based) whose Drop step is the shutdown of their node: the connection is closed and every
	// redial is refused (a plain Drop keeps accepting, the client is back within ConnectionRetryInterval).
	Gone []int `json:"gone,omitempty"`
}

type vncObs struct {
	Br   []vnBranch `json:"br"`
	Hb   int        `json:"hb"`
	Long int        `json:"long"`
	Kind []string   `json:"kind"`
	Lk   []int      `json:"lk"`
	Up   []int      `json:"up"`
	Best []int      `json:"best"`
	FH   []int      `json:"fh"`
	HTip []int      `json:"htip"`
	FTip []int      `json:"ftip"`
	ByH  [][]int    `json:"byh"`
	St   int        `json:"st"`
	Cur  int        `json:"cur"`
	Ban  []int      `json:"ban"`
	Conn []int      `json:"conn"`
	Cfg  *vncCfg    `json:"cfg,omitempty"`
}

type vncStepIn struct {
	Act vncAct `json:"act"`
}

type vncPathIn struct {
	ID      int         `json:"id"`
	InitObs vncObs      `json:"init_obs"`
	Steps   []vncStepIn `json:"steps"`
}

type vncStepOut struct {
	Act vncAct `json:"act"`
	Obs vncObs `json:"obs"`
	T   int64  `json:"t"` // ms since the client started (information only)
}

type vncPathOut struct {
	ID      int               `json:"id"`
	InitObs vncObs            `json:"init_obs"`
	Steps   []vncStepOut      `json:"steps"`
	Error   string            `json:"error,omitempty"`
	Dump    string            `json:"dump,omitempty"`
	Info    map[string]string `json:"info,omitempty"`
}

// ---------------------------------------------------------------------------
// One scenario (child process).

type vncGate struct {
	hdr     []int32 // per node: 1 = open
	cp, cfh int32
	flt     int32
	allOpen int32
}

type vncRun struct {
	in    vncPathIn
	cfg   vncCfg
	rng   *rand.Rand
	net   *vnNet
	nodes []*vnNode
	cl    *vnClient
	gate  vncGate
	kinds []string
	lks   []int
	long  int

	mu         sync.Mutex
	w          *bufio.Writer
	f          *os.File
	lastObs    []byte
	prevConn   []int
	prevCaught []bool
	nConnEv    []int
	pendInv    map[int]bool // nodes (0-based) whose announcement of the current tip is still to come
	prePushed  map[int]int  // per node (0-based): HsFail steps already scripted by the preceding Drop
	stopS      chan struct{}
	doneS      chan struct{}
}

func (r *vncRun) real(m int) int { return r.cfg.Delta + r.cfg.Unit*m }

// evSize returns the configured real size of the k-th Extend / Reorg step (nil = unit based).
func (r *vncRun) evSize(k, want int) []int {
	if k < len(r.cfg.Ev) && len(r.cfg.Ev[k]) == want {
		for _, v := range r.cfg.Ev[k] {
			if v < 1 {
				return nil
			}
		}
		return r.cfg.Ev[k]
	}
	return nil
}

func (r *vncRun) isGone(p int) bool {
	for _, g := range r.cfg.Gone {
		if g == p {
			return true
		}
	}
	return false
}

func (r *vncRun) obs() vncObs {
	s := r.cl.Sample()
	o := vncObs{Br: r.net.Branches(), Long: r.long, Kind: r.kinds, Lk: r.lks,
		Best: s.Best, FH: s.FH, HTip: s.HTip, FTip: s.FTip, ByH: s.ByH, St: s.St, Cur: s.Cur,
		Ban: s.Ban, Conn: s.Conn}
	r.net.mu.Lock()
	o.Hb = r.net.hb
	r.net.mu.Unlock()
	o.Up = make([]int, len(r.nodes))
	for i, nd := range r.nodes {
		nd.mu.Lock()
		if nd.everUp {
			o.Up[i] = 1
		}
		nd.mu.Unlock()
	}
	if o.ByH == nil {
		o.ByH = [][]int{}
	}
	return o
}

func (r *vncRun) emit(a vncAct, o vncObs) {
	r.mu.Lock()
	defer r.mu.Unlock()
	r.eventsLocked(o)
	r.emitLocked(a, o)
}

// eventsLocked turns changes of the observation into event steps of their
// own (observations like Sample, with a label): Conn(p) / Disc(p) when the
// client's peer table gains / loses node p, Caught(p) when the client's header
// tip reaches the valid tip of a node that serves an own (static) chain.
func (r *vncRun) eventsLocked(o vncObs) {
	if r.prevConn == nil {
		r.prevConn = make([]int, len(r.nodes))
		r.prevCaught = make([]bool, len(r.nodes))
		r.nConnEv = make([]int, len(r.nodes))
	}
	for i := range r.nodes {
		c := 0
		if i < len(o.Conn) && o.Conn[i] == 1 {
			c = 1
		}
		if c != r.prevConn[i] && (i >= len(o.Conn) || o.Conn[i] >= 0) {
			op := "Conn"
			if c == 0 {
				op = "Disc"
			}
			r.prevConn[i] = c
			// a peer the client keeps kicking reconnects every 150 ms:
			// the first few changes tell the story
			r.nConnEv[i]++
			if r.nConnEv[i] <= 8 {
				r.emitLocked(vncAct{Op: op, Res: "ok", P: i + 1}, o)
			}
		}
		if r.nodes[i].Branch() != 0 {
			want := r.validTip(i)
			caught := len(o.HTip) == 2 && o.HTip[0] == want.O && o.HTip[1] == want.H
			if caught && !r.prevCaught[i] {
				r.emitLocked(vncAct{Op: "Caught", Res: "ok", P: i + 1}, o)
			}
			r.prevCaught[i] = caught
		}
	}
}

func (r *vncRun) emitLocked(a vncAct, o vncObs) {
	b, _ := json.Marshal(o)
	r.lastObs = b
	line, _ := json.Marshal(vncStepOut{Act: a, Obs: o, T: time.Since(r.cl.Start).Milliseconds()})
	r.w.Write(line)
	r.w.WriteByte('\n')
	r.w.Flush()
}

// sampler emits a Sample step whenever the observation changed.
func (r *vncRun) sampler() {
	defer close(r.doneS)
	for {
		select {
		case <-r.stopS:
			return
		case <-time.After(12 * time.Millisecond):
		}
		o := r.obs()
		b, _ := json.Marshal(o)
		r.mu.Lock()
		r.eventsLocked(o)
		if !bytes.Equal(b, r.lastObs) {
			r.emitLocked(vncAct{Op: "Sample", Res: "ok"}, o)
		}
		r.mu.Unlock()
	}
}

func (r *vncRun) pred(i int) func(wire.Message) bool {
	return func(m wire.Message) bool {
		if atomic.LoadInt32(&r.gate.allOpen) != 0 {
			return false
		}
		switch m.(type) {
		case *wire.MsgGetHeaders:
			return atomic.LoadInt32(&r.gate.hdr[i]) == 0
		case *wire.MsgGetCFCheckpt:
			return atomic.LoadInt32(&r.gate.cp) == 0
		case *wire.MsgGetCFHeaders:
			return atomic.LoadInt32(&r.gate.cfh) == 0
		case *wire.MsgGetCFilters, *wire.MsgGetData:
			return atomic.LoadInt32(&r.gate.flt) == 0
		}
		return false
	}
}

func (r *vncRun) flushAll() {
	for _, nd := range r.nodes {
		nd.Flush()
	}
}

func (r *vncRun) waitFor(d time.Duration, cond func() bool) bool {
	t0 := time.Now()
	for {
		if cond() {
			return true
		}
		if time.Since(t0) > d {
			return false
		}
		time.Sleep(4 * time.Millisecond)
	}
}

func (r *vncRun) hintWait() time.Duration {
	if r.long == 1 {
		return 4 * time.Second
	}
	return 500 * time.Millisecond
}

// validTip: the reference of the highest valid block of node i's chain.
func (r *vncRun) validTip(i int) vnRef {
	nd := r.nodes[i]
	c := nd.chain()
	h := c.tip()
	if b := nd.Branch(); b != 0 {
		br := r.net.Branches()[b-1]
		if br.Bad != 0 {
			h = br.Bad - 1
		}
	}
	return c.ref(h)
}

func (r *vncRun) behaviour(i int) vnBehaviour {
	kind, k := r.kinds[i], r.lks[i]
	u := r.cfg.Unit
	b := vnBehaviour{Kind: kind}
	switch kind {
	case "lighter", "lighterq":
		b.K = u * k
		b.Len = u*k - 1
	case "invalid":
		b.Len = u * k
	case "cfhlie", "cplie", "cpprev":
		span := u
		if r.long == 1 {
			span = u - r.cfg.Delta
		}
		if span < 1 {
			span = 1
		}
		// peers with the same option tell the same lie (colluding liars)
		lr := rand.New(rand.NewSource(r.cfg.Seed*131 + int64(k)*17 + int64(len(kind))))
		b.K = r.real(k-1) + 1 + lr.Intn(span)
		if kind == "cfhlie" {
			b.Style = []string{"omit", "mismatch", "none"}[lr.Intn(3)]
		}
		// "whatever its other peers send": every other one of these peers also
		// repeats each cfcheckpt / cfheaders answer (no effect on what the
		// model predicts: a peer's second answer to an all-peers query is
		// dropped by queryAllPeers)
		b.Dup = (r.cfg.Seed+int64(i)+int64(k))%2 == 0
	}
	return b
}

func vncWhy(o *vncObs, tip vnRef) string {
	var p []string
	eq := func(x []int) bool { return len(x) >= 2 && x[0] == tip.O && x[1] == tip.H }
	if eq(o.HTip) {
		p = append(p, "hdr=tip")
	} else {
		p = append(p, "hdr#tip")
	}
	if len(o.FTip) == 3 && len(o.HTip) == 2 && o.FTip[2] == o.HTip[1] {
		p = append(p, "flt=hdr")
	} else {
		p = append(p, "flt<hdr")
	}
	if len(o.FH) == 2 && len(o.Best) == 2 && o.FH[0] == o.Best[0] && o.FH[1] == o.Best[1] {
		p = append(p, "fh=true")
	} else {
		p = append(p, "fh=false")
	}
	for i, k := range o.Kind {
		if k == "honest" && i < len(o.Ban) && o.Ban[i] == 1 {
			p = append(p, "honestbanned")
			break
		}
	}
	var banned []string
	for i := range o.Kind {
		if i < len(o.Ban) && o.Ban[i] == 1 {
			banned = append(banned, fmt.Sprintf("p%d", i+1))
		}
	}
	if len(banned) > 0 {
		p = append(p, "banned="+strings.Join(banned, "+"))
	}
	if len(o.FTip) == 3 && len(o.HTip) == 2 && o.FTip[2] >= 0 && o.HTip[1] > o.FTip[2] {
		// how far the filter headers are behind the block headers
		p = append(p, fmt.Sprintf("gap=%d", o.HTip[1]-o.FTip[2]))
	}
	return strings.Join(p, ",")
}

func vncDumpGoroutines() string {
	buf := make([]byte, 1<<20)
	buf = buf[:runtime.Stack(buf, true)]
	// keep the goroutines of the code under test, drop netsim / runtime noise
	var keep []string
	for _, g := range strings.Split(string(buf), "\n\n") {
		if strings.Contains(g, "lightninglabs/neutrino") || strings.Contains(g, "btcsuite/btcd/peer") ||
			strings.Contains(g, "connmgr") {
			if len(g) > 1500 {
				g = g[:1500] + "\n\t..."
			}
			keep = append(keep, g)
		}
	}
	out := strings.Join(keep, "\n\n")
	if len(out) > 60000 {
		out = out[:60000] + "\n...(truncated)"
	}
	return out
}

func vncRunOne(in vncPathIn, outFn, scratch string) (err error) {
	r := &vncRun{in: in, stopS: make(chan struct{}), doneS: make(chan struct{})}
	io := in.InitObs
	if io.Cfg == nil {
		return fmt.Errorf("path %d carries no cfg", in.ID)
	}
	r.cfg = *io.Cfg
	if r.cfg.Unit < 1 {
		r.cfg.Unit = 1
	}
	if r.cfg.Deadline < 5 {
		r.cfg.Deadline = 60
	}
	r.rng = rand.New(rand.NewSource(r.cfg.Seed))
	r.kinds, r.lks, r.long = io.Kind, io.Lk, io.Long
	if len(io.Br) == 0 || len(r.kinds) == 0 {
		return fmt.Errorf("path %d: empty init_obs", in.ID)
	}
	f, err := os.Create(outFn)
	if err != nil {
		return err
	}
	defer f.Close()
	r.f, r.w = f, bufio.NewWriter(f)

	vnShortenTimeouts()
	if r.cfg.Len <= 0 {
		r.cfg.Len = io.Br[0].Tip
	}
	if r.real(r.cfg.Len) > 5000 {
		return fmt.Errorf("path %d: initial chain of %d blocks is out of range", in.ID, r.real(r.cfg.Len))
	}
	r.net, err = vnStartNetwork(r.cfg.Seed, r.real(r.cfg.Len))
	if err != nil {
		return err
	}
	r.gate.hdr = make([]int32, len(r.kinds))
	for i := range r.kinds {
		nd := r.net.AddNode(r.behaviour(i))
		nd.MaxHold = vncMaxHold
		nd.Hold(r.pred(i))
		r.nodes = append(r.nodes, nd)
	}
	dir, err := os.MkdirTemp(scratch, "cl")
	if err != nil {
		return err
	}
	defer os.RemoveAll(dir)
	r.cl, err = vnStartClient(r.net, dir, r.nodes)
	if err != nil {
		return err
	}
	stopped := false
	defer func() {
		if !stopped {
			r.cl.Stop()
		}
	}()

	if r.cfg.Free >= 1 {
		atomic.StoreInt32(&r.gate.allOpen, 1)
	}
	init := r.obs()
	init.Cfg = &r.cfg
	hdr, _ := json.Marshal(map[string]interface{}{"id": in.ID, "init_obs": init})
	r.w.Write(hdr)
	r.w.WriteByte('\n')
	r.w.Flush()
	b0, _ := json.Marshal(r.obs())
	r.lastObs = b0
	go r.sampler()

	think := func() { time.Sleep(time.Duration(r.rng.Intn(12)) * time.Millisecond) }
	r.pendInv, r.prePushed = map[int]bool{}, map[int]int{}
	flushInv := func() {
		for i := range r.nodes {
			if r.pendInv[i] {
				r.nodes[i].Announce()
				delete(r.pendInv, i)
			}
		}
	}
	sawDeadline := false
	nEv := 0 // Extend / Reorg steps seen so far
	steps := in.Steps
	deadline := func(a vncAct) {
		flushInv()
		atomic.StoreInt32(&r.gate.allOpen, 1)
		r.flushAll()
		t0 := time.Now()
		limit := time.Duration(r.cfg.Deadline) * time.Second
		conv := false
		for time.Since(t0) < limit {
			s := r.cl.Sample()
			if r.cl.Converged(&s) {
				// "keeps doing so": must still hold after the hold time
				time.Sleep(400 * time.Millisecond)
				s = r.cl.Sample()
				if r.cl.Converged(&s) {
					conv = true
					break
				}
			}
			time.Sleep(15 * time.Millisecond)
		}
		o := r.obs()
		a.Res = "converged"
		if !conv {
			a.Res = "timeout"
			dump := vncDumpGoroutines()
			dj, _ := json.Marshal(map[string]string{"dump": dump})
			r.mu.Lock()
			r.w.Write(dj)
			r.w.WriteByte('\n')
			r.mu.Unlock()
		}
		a.Why = vncWhy(&o, r.net.Tip())
		r.emit(a, o)
	}
	for si, st := range steps {
		a := st.Act
		switch a.Op {
		case "Sample", "Init", "Conn", "Disc", "Caught":
			// observations of an earlier run (replay input)
			continue
		}
		a.Res = "ok"
		think()
		switch a.Op {
		case "Up":
			nd := r.nodes[a.P-1]
			nd.SetUp(true)
			w := 3 * time.Second
			switch r.kinds[a.P-1] {
			case "mute", "nocf":
				w = 300 * time.Millisecond
			}
			ok := r.waitFor(w, func() bool {
				if !nd.Connected() {
					return false
				}
				for _, p := range r.cl.Svc.Peers() {
					if p.Addr() == nd.AddrString() {
						return true
					}
				}
				return false
			})
			if !ok {
				a.Res = "noconn"
			}
		case "HsFail":
			nd := r.nodes[a.P-1]
			if a.N < vnHsStageMin || a.N > vnHsStageMax {
				return fmt.Errorf("HsFail: unknown stage %d", a.N)
			}
			if r.prePushed[a.P-1] > 0 {
				r.prePushed[a.P-1]--
			} else {
				nd.FailNext(a.N)
			}
			if !nd.IsUp() && !r.isGone(a.P) {
				nd.SetUp(true)
			}
			before := nd.ScriptLen()
			if !r.waitFor(3*time.Second, func() bool { return nd.ScriptLen() < before || nd.ScriptLen() == 0 }) {
				// no attempt was made (the client is connected, or does not dial): the entry stays for the next attempt
				a.Res = "skip"
			}
		case "Inv":
			if r.pendInv[a.P-1] {
				delete(r.pendInv, a.P-1)
				r.nodes[a.P-1].Announce()
			} else {
				a.Res = "skip"
			}
		case "Drop":
			nd := r.nodes[a.P-1]
			// failed redials that the path puts right after this Drop are scripted first
			for j := si + 1; j < len(steps); j++ {
				n := steps[j].Act
				if n.Op == "Sample" || n.Op == "Conn" || n.Op == "Disc" || n.Op == "Caught" {
					continue
				}
				if n.Op != "HsFail" || n.P != a.P || n.N < vnHsStageMin || n.N > vnHsStageMax || r.isGone(a.P) {
					break
				}
				nd.FailNext(n.N)
				r.prePushed[a.P-1]++
			}
			if r.isGone(a.P) {
				// the node is shut down: connection closed, redials refused
				if !nd.Connected() {
					a.Res = "noconn"
				}
				nd.SetUp(false)
			} else if nd.Drop() == 0 {
				a.Res = "noconn"
			}
		case "Extend":
			sz := r.evSize(nEv, 1)
			nEv++
			for i := range r.pendInv {
				delete(r.pendInv, i) // superseded by the new tip
			}
			if a.P >= 1 && a.P <= len(r.nodes) && r.cfg.Free == 0 {
				// the announcement of node a.P arrives first, the others are delivered by Inv steps
				k := r.cfg.Unit * a.N
				if sz != nil {
					k = sz[0]
				}
				q := r.nodes[a.P-1]
				before := q.Stats()["getheaders"]
				r.net.ExtendSilent(k)
				for i := range r.nodes {
					if i != a.P-1 {
						r.pendInv[i] = true
					}
				}
				q.Announce()
				if !r.waitFor(400*time.Millisecond, func() bool { return q.Stats()["getheaders"] > before }) {
					a.Res = "noask" // information: the client did not ask the announcer
				}
			} else if sz != nil {
				r.net.Extend(sz[0])
			} else if k := r.cfg.Unit * a.N; r.cfg.Free >= 1 && k <= 600 {
				// blocks arrive one by one, a few ms apart
				for i := 1; i <= k; i++ {
					if r.cfg.Free == 2 && i%7 == 0 {
						// storm: frequent shallow reorganisations
						r.net.Reorg(2, 3)
					} else {
						r.net.Extend(1)
					}
					time.Sleep(time.Duration(500+r.rng.Intn(2500)) * time.Microsecond)
				}
			} else {
				r.net.Extend(k)
			}
		case "Reorg":
			sz := r.evSize(nEv, 2)
			nEv++
			for i := range r.pendInv {
				delete(r.pendInv, i)
			}
			if sz != nil && sz[1] > sz[0] {
				r.net.Reorg(sz[0], sz[1])
			} else {
				r.net.Reorg(r.cfg.Unit*a.D, r.cfg.Unit*a.D+r.cfg.Unit)
			}
		case "Settle":
			flushInv()
		case "Reverify":
		case "SyncHdr", "Kick":
			i := a.P - 1
			atomic.StoreInt32(&r.gate.hdr[i], 1)
			r.nodes[i].Flush()
			want := r.validTip(i)
			if !r.waitFor(r.hintWait(), func() bool {
				hd, hh, err := r.cl.Svc.BlockHeaders.ChainTip()
				if err != nil {
					return false
				}
				bh := hd.BlockHash()
				x := r.net.refOfHash(&bh)
				return x.O == want.O && int(hh) == want.H
			}) {
				a.Res = "skip"
			}
			atomic.StoreInt32(&r.gate.hdr[i], 0)
		case "FltBegin":
			atomic.StoreInt32(&r.gate.cp, 1)
			r.flushAll()
			if !r.waitFor(r.hintWait(), func() bool {
				for _, nd := range r.nodes {
					for _, c := range nd.HeldCommands() {
						if c == wire.CmdGetCFHeaders {
							return true
						}
					}
				}
				return false
			}) {
				a.Res = "skip"
			}
			atomic.StoreInt32(&r.gate.cp, 0)
		case "FltEnd", "SyncFlt":
			atomic.StoreInt32(&r.gate.cp, 1)
			atomic.StoreInt32(&r.gate.cfh, 1)
			atomic.StoreInt32(&r.gate.flt, 1)
			r.flushAll()
			if !r.waitFor(r.hintWait(), func() bool {
				_, hh, err := r.cl.Svc.BlockHeaders.ChainTip()
				if err != nil {
					return false
				}
				_, fh, err := r.cl.Svc.RegFilterHeaders.ChainTip()
				return err == nil && fh == hh
			}) {
				a.Res = "skip"
			}
			atomic.StoreInt32(&r.gate.cp, 0)
			atomic.StoreInt32(&r.gate.cfh, 0)
			atomic.StoreInt32(&r.gate.flt, 0)
		case "Reconnect":
			if !r.waitFor(r.hintWait(), r.nodes[a.P-1].Connected) {
				a.Res = "skip"
			}
		case "Ban":
			if !r.waitFor(r.hintWait(), func() bool { return r.cl.Svc.IsBanned(r.nodes[a.P-1].AddrString()) }) {
				a.Res = "skip"
			}
		case "Deadline":
			sawDeadline = true
			deadline(a)
			continue
		default:
			return fmt.Errorf("unknown op %q", a.Op)
		}
		r.emit(a, r.obs())
		if sawDeadline {
			break
		}
	}
	if !sawDeadline {
		// make sure the honest node is reachable, then settle
		if !r.nodes[0].IsUp() {
			r.nodes[0].SetUp(true)
			r.emit(vncAct{Op: "Up", Res: "ok", P: 1}, r.obs())
		}
		r.emit(vncAct{Op: "Settle", Res: "ok"}, r.obs())
		deadline(vncAct{Op: "Deadline"})
	}
	close(r.stopS)
	<-r.doneS
	var stats []string
	for _, nd := range r.nodes {
		stats = append(stats, fmt.Sprintf("p%d:%s%v", nd.Idx, nd.Behaviour().Kind, nd.Stats()))
	}
	d, serr := r.cl.Stop()
	stopped = true
	info := map[string]string{"stop_ms": strconv.FormatInt(d.Milliseconds(), 10), "nodes": strings.Join(stats, " ")}
	if serr != nil {
		info["stop_err"] = serr.Error()
	}
	for i, nd := range r.nodes {
		info[fmt.Sprintf("beh%d", i+1)] = fmt.Sprintf("%+v", nd.Behaviour())
	}
	dj, _ := json.Marshal(map[string]interface{}{"done": true, "info": info})
	r.mu.Lock()
	r.w.Write(dj)
	r.w.WriteByte('\n')
	r.w.Flush()
	r.mu.Unlock()
	return nil
}

func TestVerifClientOne(t *testing.T) {
	pf, of := os.Getenv("VERIF_ONE_PATH"), os.Getenv("VERIF_ONE_OUT")
	if pf == "" || of == "" {
		t.Skip("VERIF_ONE_PATH / VERIF_ONE_OUT not set")
	}
	b, err := os.ReadFile(pf)
	if err != nil {
		t.Fatal(err)
	}
	var p vncPathIn
	if err := json.Unmarshal(b, &p); err != nil {
		t.Fatal(err)
	}
	scratch := os.Getenv("VERIF_SCRATCH")
	if scratch == "" {
		scratch = t.TempDir()
	}
	if err := vncRunOne(p, of, scratch); err != nil {
		t.Fatalf("DRIVER-ERROR: %v", err)
	}
}

// ---------------------------------------------------------------------------
// Parent: one child per path.

func vncParent(p vncPathIn, raw []byte, scratch string, idx int) (out vncPathOut) {
	out.ID = p.ID
	out.InitObs = p.InitObs
	pf := filepath.Join(scratch, fmt.Sprintf("one-%d.json", idx))
	of := filepath.Join(scratch, fmt.Sprintf("one-%d.out", idx))
	if err := os.WriteFile(pf, raw, 0o644); err != nil {
		out.Error = err.Error()
		return
	}
	defer os.Remove(pf)
	defer os.Remove(of)
	dl := 60
	if p.InitObs.Cfg != nil && p.InitObs.Cfg.Deadline > 0 {
		dl = p.InitObs.Cfg.Deadline
	}
	limit := time.Duration(dl+180) * time.Second
	cmd := exec.Command(os.Args[0], "-test.run", "^TestVerifClientOne$", "-test.count=1",
		"-test.timeout", fmt.Sprintf("%ds", dl+170))
	cmd.Env = append(os.Environ(), "VERIF_ONE_PATH="+pf, "VERIF_ONE_OUT="+of, "VERIF_SCRATCH="+scratch)
	var stderr bytes.Buffer
	cmd.Stdout = &stderr
	cmd.Stderr = &stderr
	if err := cmd.Start(); err != nil {
		out.Error = err.Error()
		return
	}
	done := make(chan error, 1)
	go func() { done <- cmd.Wait() }()
	var werr error
	killed := false
	select {
	case werr = <-done:
	case <-time.After(limit):
		cmd.Process.Kill()
		werr = <-done
		killed = true
	}
	// read what the child wrote
	finished := false
	if f, err := os.Open(of); err == nil {
		sc := bufio.NewScanner(f)
		sc.Buffer(make([]byte, 1<<20), 1<<28)
		first := true
		for sc.Scan() {
			line := sc.Bytes()
			if first {
				first = false
				var h struct {
					InitObs vncObs `json:"init_obs"`
				}
				if json.Unmarshal(line, &h) == nil && len(h.InitObs.Kind) > 0 {
					out.InitObs = h.InitObs
				}
				continue
			}
			var probe map[string]json.RawMessage
			if json.Unmarshal(line, &probe) != nil {
				continue // torn last line of a crashed child
			}
			if _, ok := probe["done"]; ok {
				finished = true
				var d struct {
					Info map[string]string `json:"info"`
				}
				json.Unmarshal(line, &d)
				out.Info = d.Info
				continue
			}
			if dmp, ok := probe["dump"]; ok {
				json.Unmarshal(dmp, &out.Dump)
				continue
			}
			var s vncStepOut
			if json.Unmarshal(line, &s) == nil && s.Act.Op != "" {
				out.Steps = append(out.Steps, s)
			}
		}
		f.Close()
	}
	if finished && werr == nil {
		return
	}
	se := stderr.String()
	if killed {
		out.Error = "scenario child exceeded its hard limit and was killed\n" + vncTail(se, 3000)
		return
	}
	if i := strings.Index(se, "panic: "); i >= 0 && !strings.Contains(se, "DRIVER-ERROR") && len(out.Steps) > 0 ||
		strings.Contains(se, "fatal error: ") && len(out.Steps) > 0 {
		// the code under test crashed the process: that is the outcome of the scenario
		j := strings.Index(se, "panic: ")
		if j < 0 {
			j = strings.Index(se, "fatal error: ")
		}
		msg := se[j:]
		first := msg
		if k := strings.Index(first, "\n"); k >= 0 {
			first = first[:k]
		}
		if len(first) > 160 {
			first = first[:160]
		}
		fn := ""
		for _, l := range strings.Split(msg, "\n") {
			if strings.HasPrefix(l, "github.com/lightninglabs/neutrino") {
				fn = l
				if k := strings.LastIndex(fn, "("); k >= 0 {
					fn = fn[:k]
				}
				fn = fn[strings.LastIndex(fn, ".")+1:]
				if strings.HasPrefix(fn, "vn") {
					fn = ""
					continue
				}
				break
			}
		}
		last := out.Steps[len(out.Steps)-1]
		if last.Act.Op == "Deadline" {
			out.Steps = out.Steps[:len(out.Steps)-1]
			last = out.Steps[len(out.Steps)-1]
		}
		out.Steps = append(out.Steps, vncStepOut{
			Act: vncAct{Op: "Deadline", Res: "panic", Why: "in " + fn + ": " + first},
			Obs: last.Obs, T: last.T})
		out.Dump = vncTail(msg, 12000)
		if len(msg) > 12000 {
			out.Dump = msg[:12000]
		}
		return
	}
	out.Error = fmt.Sprintf("scenario child failed (%v):\n%s", werr, vncTail(se, 4000))
	return
}

func vncTail(s string, n int) string {
	if len(s) > n {
		return s[len(s)-n:]
	}
	return s
}

func TestVerifClientRun(t *testing.T) {
	in, outFn := os.Getenv("VERIF_PATHS"), os.Getenv("VERIF_OUT")
	if in == "" || outFn == "" {
		t.Skip("VERIF_PATHS / VERIF_OUT not set")
	}
	scratch := os.Getenv("VERIF_SCRATCH")
	if scratch == "" {
		scratch = t.TempDir()
	}
	f, err := os.Open(in)
	if err != nil {
		t.Fatal(err)
	}
	defer f.Close()
	var paths []vncPathIn
	var raws [][]byte
	sc := bufio.NewScanner(f)
	sc.Buffer(make([]byte, 1<<20), 1<<28)
	for sc.Scan() {
		var p vncPathIn
		if err := json.Unmarshal(sc.Bytes(), &p); err != nil {
			t.Fatal(err)
		}
		paths = append(paths, p)
		raws = append(raws, append([]byte(nil), sc.Bytes()...))
	}
	par := runtime.NumCPU()
	if v, err := strconv.Atoi(os.Getenv("VERIF_PAR")); err == nil && v > 0 {
		par = v
	}
	results := make([]vncPathOut, len(paths))
	var wg sync.WaitGroup
	jobs := make(chan int)
	for w := 0; w < par; w++ {
		wg.Add(1)
		go func() {
			defer wg.Done()
			for i := range jobs {
				results[i] = vncParent(paths[i], raws[i], scratch, i)
			}
		}()
	}
	for i := range paths {
		jobs <- i
	}
	close(jobs)
	wg.Wait()
	of, err := os.Create(outFn)
	if err != nil {
		t.Fatal(err)
	}
	w := bufio.NewWriter(of)
	enc := json.NewEncoder(w)
	for i := range results {
		if results[i].Steps == nil {
			results[i].Steps = []vncStepOut{}
		}
		if err := enc.Encode(&results[i]); err != nil {
			t.Fatal(err)
		}
	}
	w.Flush()
	of.Close()
}
