package neutrino

// Second replay driver of the CFSync family (property C03): the two real
// functions that change the filter-header store, rollBackToHeight (block
// handler goroutine) and writeCFHeadersMsg (cfHandler goroutine), run in two
// goroutines and are scheduled at STORE-CALL granularity along behaviours of
// specs/CFSync/CFRace.tla.  Both store interfaces of blockManagerCfg are
// wrapped: a call made by one of the two goroutines parks in front of the real
// store call until the path releases that goroutine.  A goroutine that is not
// at a gate but waits for blockManager.filterHeaderStoreMtx is recognised from
// a goroutine dump (state sync.Mutex.Lock inside one of the two functions),
// never by sleeping.  The driver is also the only receiver of the unbuffered
// blockNtfnChan: a goroutine blocked sending a block event (recognised from
// the dump too) is released by the step Recv, which takes exactly one event;
// the sequence of delivered events is part of the observation (C19).  After
// every step both stores are read back and projected like in the main driver.
// Uses the types of zz_verif_cfsync_test.go.

import (
	"bufio"
	"bytes"
	"encoding/json"
	"fmt"
	"os"
	"path/filepath"
	"runtime"
	"strings"
	"sync"
	"testing"
	"time"

	"github.com/btcsuite/btcd/blockchain"
	"github.com/btcsuite/btcd/btcutil/v2/gcs/builder"
	"github.com/btcsuite/btcd/chaincfg/v2"
	"github.com/btcsuite/btcd/chainhash/v2"
	"github.com/btcsuite/btcd/wire/v2"
	"github.com/btcsuite/btcwallet/walletdb"
	"github.com/lightninglabs/neutrino/banman"
	"github.com/lightninglabs/neutrino/blockntfns"
	"github.com/lightninglabs/neutrino/headerfs"
)

type vfCFRaceWorld struct {
	params  *chaincfg.Params
	hdr     []*wire.BlockHeader
	hash    []chainhash.Hash
	fhash   []chainhash.Hash
	fhdr    []chainhash.Hash
	scratch string
	mu      sync.Mutex
	tmpl    map[string]string
	// stw: a worker holds it shared while it (or a goroutine it released) is
	// active and gives it up at every step boundary; a goroutine dump is taken
	// holding it exclusively, i.e. while no other worker's goroutines are
	// inside system calls (runtime.Stack(all) of go1.25 can crash otherwise).
	stw sync.RWMutex
}

func vfCFNewRaceWorld(n int, scratch string) (*vfCFRaceWorld, error) {
	w := &vfCFRaceWorld{params: vfCFBaseParams(0xC0F5AA00), scratch: scratch, tmpl: map[string]string{}}
	gen := w.params.GenesisBlock
	gf, err := builder.BuildBasicFilter(gen, nil)
	if err != nil {
		return nil, err
	}
	gfh, err := builder.GetFilterHash(gf)
	if err != nil {
		return nil, err
	}
	ghdr, err := builder.MakeHeaderForFilter(gf, gen.Header.PrevBlock)
	if err != nil {
		return nil, err
	}
	w.hdr = []*wire.BlockHeader{&gen.Header}
	w.hash = []chainhash.Hash{gen.Header.BlockHash()}
	w.fhash = []chainhash.Hash{gfh}
	w.fhdr = []chainhash.Hash{ghdr}
	now := time.Now().Unix()
	for r := 1; r <= n; r++ {
		h := &wire.BlockHeader{Version: 4, PrevBlock: w.hash[r-1],
			MerkleRoot: vfCFSha("race-mr", vfCFU32(r)), Timestamp: time.Unix(now-int64(100-r), 0),
			Bits: 0x207fffff}
		vfCFMine(h)
		bh := h.BlockHash()
		fh := vfCFSha("race-fh", bh[:])
		w.hdr = append(w.hdr, h)
		w.hash = append(w.hash, bh)
		w.fhash = append(w.fhash, fh)
		w.fhdr = append(w.fhdr, vfCFChainHdr(fh, w.fhdr[r-1]))
	}
	return w, nil
}

func (w *vfCFRaceWorld) template(bt, ft int) (string, error) {
	key := fmt.Sprintf("race-%d-%d", bt, ft)
	w.mu.Lock()
	defer w.mu.Unlock()
	if d, ok := w.tmpl[key]; ok {
		return d, nil
	}
	dir := filepath.Join(w.scratch, key)
	os.RemoveAll(dir) // left by an earlier, aborted run of the driver (other chain)
	if err := os.MkdirAll(dir, 0o755); err != nil {
		return "", err
	}
	db, err := walletdb.Create("bdb", filepath.Join(dir, "neutrino.db"), false, 10*time.Second, false)
	if err != nil {
		return "", err
	}
	defer db.Close()
	bstore, err := headerfs.NewBlockHeaderStore(dir, db, w.params)
	if err != nil {
		return "", err
	}
	fstore, err := headerfs.NewFilterHeaderStore(dir, db, headerfs.RegularFilter, w.params, nil)
	if err != nil {
		return "", err
	}
	for r := 1; r <= bt; r++ {
		if err := bstore.WriteHeaders(headerfs.BlockHeader{BlockHeader: w.hdr[r], Height: uint32(r)}); err != nil {
			return "", err
		}
	}
	for r := 1; r <= ft; r++ {
		err := fstore.WriteHeaders(headerfs.FilterHeader{HeaderHash: w.hash[r], FilterHash: w.fhdr[r], Height: uint32(r)})
		if err != nil {
			return "", err
		}
	}
	w.tmpl[key] = dir
	return dir, nil
}

// ---- gates -------------------------------------------------------------------

type vfCFRaceEv struct {
	proc string
	kind string // gate | ret
	name string // gate name, or ok / err
}

type vfCFRaceGates struct {
	mu    sync.Mutex
	procs map[string]string // goroutine id -> R | W
	nfet  int               // FetchHeader calls of R so far
	ev    chan vfCFRaceEv
	rel   map[string]chan struct{}
}

func (g *vfCFRaceGates) who() string {
	g.mu.Lock()
	defer g.mu.Unlock()
	return g.procs[vfCFGid()]
}

// at parks the calling goroutine in front of a store call if it is one of
// the two scheduled goroutines.
func (g *vfCFRaceGates) at(nameR, nameW string) {
	p := g.who()
	if p == "" {
		return
	}
	name := nameR
	if p == "W" {
		name = nameW
	}
	g.ev <- vfCFRaceEv{proc: p, kind: "gate", name: name}
	<-g.rel[p]
}

type vfCFRaceB struct {
	headerfs.BlockHeaderStore
	g *vfCFRaceGates
}

func (s *vfCFRaceB) ChainTip() (*wire.BlockHeader, uint32, error) {
	s.g.at("g_btip", "w_btip")
	return s.BlockHeaderStore.ChainTip()
}

func (s *vfCFRaceB) FetchHeader(h *chainhash.Hash) (*wire.BlockHeader, uint32, error) {
	if s.g.who() == "R" {
		s.g.mu.Lock()
		s.g.nfet++
		n := s.g.nfet
		s.g.mu.Unlock()
		if n%2 == 1 {
			s.g.at("g_fetch", "")
		} else {
			s.g.at("g_fetch2", "")
		}
	} else {
		s.g.at("", "w_fetch")
	}
	return s.BlockHeaderStore.FetchHeader(h)
}

func (s *vfCFRaceB) RollbackLastBlock() (*headerfs.BlockStamp, error) {
	s.g.at("g_brb", "w_brb")
	return s.BlockHeaderStore.RollbackLastBlock()
}

func (s *vfCFRaceB) FetchHeaderAncestors(n uint32, stop *chainhash.Hash) ([]wire.BlockHeader, uint32, error) {
	s.g.at("r_anc", "g_anc")
	return s.BlockHeaderStore.FetchHeaderAncestors(n, stop)
}

type vfCFRaceF struct {
	headerfs.FilterHeaderStore
	g *vfCFRaceGates
}

func (s *vfCFRaceF) ChainTip() (*chainhash.Hash, uint32, error) {
	s.g.at("g_ftip", "g_tip")
	return s.FilterHeaderStore.ChainTip()
}

func (s *vfCFRaceF) RollbackLastBlock(newTip *chainhash.Hash) (*headerfs.BlockStamp, error) {
	s.g.at("g_frb", "w_frb")
	return s.FilterHeaderStore.RollbackLastBlock(newTip)
}

func (s *vfCFRaceF) WriteHeaders(hdrs ...headerfs.FilterHeader) error {
	s.g.at("r_write", "g_write")
	return s.FilterHeaderStore.WriteHeaders(hdrs...)
}

// ---- one path ------------------------------------------------------------------

type vfCFRaceEnv struct {
	w     *vfCFRaceWorld
	g     *vfCFRaceGates
	bm    *blockManager
	braw  headerfs.BlockHeaderStore
	fraw  headerfs.FilterHeaderStore
	rsc   []int
	state map[string]string // init | gate name | blk | send | run | ok | err
	gid   map[string]string
	buf   []byte
	sendq []string // goroutines blocked sending on blockNtfnChan, oldest first
	evs   []int    // delivered events: Connected(b) = b+1, Disconnected(b) = -(b+1)
}

func (e *vfCFRaceEnv) observe() vfCFObs {
	o := vfCFObs{Ban: []int{}, Mem: []int{0, 0, 0, 0}, Asg: []vfCFAsg{}, Cpi: 2, Rsc: e.rsc}
	evs := append([]int{}, e.evs...)
	q := 0
	if vfCFRaceDone(e.state["R"]) && vfCFRaceDone(e.state["W"]) {
		q = 1
	}
	o.Ev, o.Q = &evs, &q
	_, tip, err := e.braw.ChainTip()
	if err != nil {
		o.B = []int{vfCFG}
	} else {
		for h := 0; h <= int(tip); h++ {
			hd, err := e.braw.FetchHeaderByHeight(uint32(h))
			id := vfCFG
			if err == nil && h < len(e.w.hash) && hd.BlockHash() == e.w.hash[h] {
				id = h
			}
			o.B = append(o.B, id)
		}
	}
	for h := 0; ; h++ {
		v, err := e.fraw.FetchHeaderByHeight(uint32(h))
		if err != nil {
			break
		}
		id := vfCFG
		if h < len(e.w.fhdr) && *v == e.w.fhdr[h] {
			id = h * vfCFLS
		}
		o.F = append(o.F, id)
	}
	_, ft, err := e.fraw.ChainTip()
	if err != nil || int(ft) != len(o.F)-1 {
		o.F = append(o.F, vfCFG)
	}
	return o
}

// parkedAs classifies a goroutine that is neither at a gate nor done from a
// goroutine dump: "blk" if it waits for a sync.Mutex directly inside
// rollBackToHeight / writeCFHeadersMsg (state sync.Mutex.Lock, and the frame
// that called sync.(*Mutex).Lock is one of the two functions), "send" if it
// is blocked in the select of onBlockConnected / onBlockDisconnected, ""
// otherwise (still running).  Two consecutive dumps must agree: a goroutine
// blocked like that stays blocked while nothing else is released.
func (e *vfCFRaceEnv) parkedAs(gid string) string {
	a := e.parkedOnce(gid)
	if a == "" || e.parkedOnce(gid) != a {
		return ""
	}
	return a
}

func (e *vfCFRaceEnv) parkedOnce(gid string) string {
	var dump []byte
	e.w.stw.RUnlock()
	e.w.stw.Lock()
	for {
		n := runtime.Stack(e.buf, true)
		if n < len(e.buf) {
			dump = e.buf[:n]
			break
		}
		e.buf = make([]byte, 2*len(e.buf))
	}
	e.w.stw.Unlock()
	e.w.stw.RLock()
	tag := []byte("\ngoroutine " + gid + " [")
	i := bytes.Index(dump, tag)
	if i < 0 {
		return ""
	}
	rest := dump[i+len(tag):]
	if end := bytes.Index(rest, []byte("\n\n")); end >= 0 {
		rest = rest[:end]
	}
	st := rest
	if j := bytes.IndexByte(st, ']'); j >= 0 {
		st = st[:j]
	}
	// function lines only (every second line is file:line)
	var fns []string
	for _, ln := range strings.Split(string(rest), "\n")[1:] {
		if ln != "" && !strings.HasPrefix(ln, "\t") {
			fns = append(fns, ln)
		}
	}
	switch {
	case bytes.HasPrefix(st, []byte("select")):
		if len(fns) > 0 && (strings.Contains(fns[0], "neutrino.(*blockManager).onBlockConnected(") ||
			strings.Contains(fns[0], "neutrino.(*blockManager).onBlockDisconnected(")) {
			return "send"
		}
	case bytes.HasPrefix(st, []byte("sync.Mutex.Lock")):
		for k, fn := range fns {
			if strings.HasPrefix(fn, "sync.(*Mutex).Lock(") {
				if k+1 < len(fns) && (strings.Contains(fns[k+1], "neutrino.(*blockManager).rollBackToHeight(") ||
					strings.Contains(fns[k+1], "neutrino.(*blockManager).writeCFHeadersMsg(")) {
					return "blk"
				}
				return ""
			}
		}
	}
	return ""
}

func (e *vfCFRaceEnv) start(p string) {
	gidc := make(chan string, 1)
	go func() {
		gid := vfCFGid()
		e.g.mu.Lock()
		e.g.procs[gid] = p
		e.g.mu.Unlock()
		gidc <- gid
		var err error
		func() {
			defer func() {
				if r := recover(); r != nil {
					err = fmt.Errorf("panic: %v", r)
				}
			}()
			if p == "R" {
				err = e.bm.rollBackToHeight(uint32(e.rsc[3]))
			} else {
				ft, en := e.rsc[1], e.rsc[2]
				msg := wire.NewMsgCFHeaders()
				msg.FilterType = wire.GCSFilterRegular
				msg.PrevFilterHeader = e.w.fhdr[ft]
				msg.StopHash = e.w.hash[en]
				for r := ft + 1; r <= en; r++ {
					fh := e.w.fhash[r]
					msg.FilterHashes = append(msg.FilterHashes, &fh)
				}
				_, _, err = e.bm.writeCFHeadersMsg(msg, e.bm.cfg.RegFilterHeaders)
			}
		}()
		res := "ok"
		if err != nil {
			res = "err"
			if strings.HasPrefix(err.Error(), "panic:") {
				res = "panic"
			}
		}
		e.g.ev <- vfCFRaceEv{proc: p, kind: "ret", name: res}
	}()
	e.gid[p] = <-gidc
}

func vfCFRaceDone(s string) bool { return s == "ok" || s == "err" || s == "panic" }

// settle waits until every goroutine is at a gate, on the mutex, or done.
func (e *vfCFRaceEnv) settle() error {
	deadline := time.Now().Add(60 * time.Second)
	// A released goroutine normally reaches its next gate (or returns) within
	// microseconds; goroutine dumps (stop the world, and fragile while other
	// threads sit in system calls) are only taken once that has not happened
	// for a while, i.e. when it really is blocked.
	grace := time.Now().Add(400 * time.Microsecond)
	for {
		for drained := false; !drained; {
			select {
			case ev := <-e.g.ev:
				if ev.kind == "gate" {
					e.state[ev.proc] = ev.name
				} else {
					e.state[ev.proc] = ev.name
					// whoever waited for the mutex may run now
					for q, s := range e.state {
						if s == "blk" {
							e.state[q] = "run"
						}
					}
				}
			default:
				drained = true
			}
		}
		busy := false
		if time.Now().Before(grace) {
			for _, p := range []string{"R", "W"} {
				busy = busy || e.state[p] == "run"
			}
			if !busy {
				return nil
			}
			runtime.Gosched()
			continue
		}
		for _, p := range []string{"R", "W"} {
			if e.state[p] == "run" {
				if how := e.parkedAs(e.gid[p]); how != "" {
					// an event may have raced with the dump
					select {
					case ev := <-e.g.ev:
						e.g.ev <- ev
						busy = true
					default:
						e.state[p] = how
						if how == "send" {
							e.sendq = append(e.sendq, p)
						}
					}
				} else {
					busy = true
				}
			}
		}
		if !busy {
			return nil
		}
		if time.Now().After(deadline) {
			buf := make([]byte, 1<<20)
			buf = buf[:runtime.Stack(buf, true)]
			return fmt.Errorf("goroutines did not settle: %v\n%s", e.state, buf)
		}
		runtime.Gosched()
		time.Sleep(20 * time.Microsecond)
	}
}

// step releases goroutine p for one store call.  ok = false: p cannot be
// released (it waits for the mutex or has returned).
func (e *vfCFRaceEnv) step(p string) (string, bool, error) {
	s := e.state[p]
	switch {
	case s == "init":
		e.state[p] = "run"
		e.start(p)
	case s == "blk" || s == "send" || vfCFRaceDone(s):
		return s, false, nil
	default:
		e.state[p] = "run"
		e.g.rel[p] <- struct{}{}
	}
	if err := e.settle(); err != nil {
		return "", false, err
	}
	return e.state[p], true, nil
}

// recv takes one event from blockNtfnChan (the goroutine blocked longest gets
// rid of its event) and lets that goroutine run on.  Returns the event code
// and the sender's new state; ok = false if nobody is blocked sending.
func (e *vfCFRaceEnv) recv() (int, string, bool, error) {
	if len(e.sendq) == 0 {
		return 0, "", false, nil
	}
	var ntfn blockntfns.BlockNtfn
	select {
	case ntfn = <-e.bm.blockNtfnChan:
	case <-time.After(60 * time.Second):
		return 0, "", false, fmt.Errorf("no block event although %v block sending", e.sendq)
	}
	code, who := 1000, ""
	idOf := func(h wire.BlockHeader, height uint32) int {
		if int(height) < len(e.w.hash) && h.BlockHash() == e.w.hash[height] {
			return int(height)
		}
		return -1
	}
	switch n := ntfn.(type) {
	case *blockntfns.Connected:
		who = "W"
		if id := idOf(n.Header(), n.Height()); id >= 0 {
			code = id + 1
		}
	case *blockntfns.Disconnected:
		who = "R"
		if id := idOf(n.Header(), n.Height()); id >= 0 {
			code = -(id + 1)
		}
	}
	e.evs = append(e.evs, code)
	for i, p := range e.sendq {
		if p == who {
			e.sendq = append(e.sendq[:i:i], e.sendq[i+1:]...)
			break
		}
	}
	e.state[who] = "run"
	if err := e.settle(); err != nil {
		return 0, "", false, err
	}
	return code, e.state[who], true, nil
}

// next performs the command op (StepR, StepW, Recv) and returns the act to
// record.
func (e *vfCFRaceEnv) next(op string) (vfCFAct, bool, error) {
	// step boundary: everything of this path is parked, let a dump happen
	e.w.stw.RUnlock()
	e.w.stw.RLock()
	a := vfCFAct{Op: op, Rs: []int{}}
	if op == "Recv" {
		code, res, ok, err := e.recv()
		if err != nil {
			return a, false, err
		}
		if !ok {
			a.Res = "skip:none"
			return a, false, nil
		}
		a.N, a.Res = code, res
		return a, true, nil
	}
	res, ok, err := e.step(strings.TrimPrefix(op, "Step"))
	if err != nil {
		return a, false, err
	}
	if !ok {
		// the goroutine the schedule wants to release waits for the mutex,
		// for the receiver, or has returned: the command does not apply
		a.Res = "skip:" + res
		return a, false, nil
	}
	a.Res = res
	return a, true, nil
}

func vfCFRaceRun(w *vfCFRaceWorld, p vfCFPathIn) (out vfCFPathOut) {
	out.ID = p.ID
	w.stw.RLock()
	defer w.stw.RUnlock()
	defer func() {
		if r := recover(); r != nil {
			buf := make([]byte, 8192)
			buf = buf[:runtime.Stack(buf, false)]
			out.Error = fmt.Sprintf("driver panic: %v\n%s", r, buf)
		}
	}()
	rsc := p.InitObs.Rsc
	if len(rsc) != 4 {
		out.Error = "path without scenario"
		return
	}
	tmpl, err := w.template(rsc[0], rsc[1])
	if err != nil {
		out.Error = "template: " + err.Error()
		return
	}
	dir, err := os.MkdirTemp(w.scratch, "r")
	if err != nil {
		out.Error = err.Error()
		return
	}
	defer os.RemoveAll(dir)
	for _, fn := range vfCFStoreFiles {
		if err := vfCFCopy(filepath.Join(tmpl, fn), filepath.Join(dir, fn)); err != nil {
			out.Error = err.Error()
			return
		}
	}
	db, err := walletdb.Open("bdb", filepath.Join(dir, "neutrino.db"), true, 10*time.Second, false)
	if err != nil {
		out.Error = "db open: " + err.Error()
		return
	}
	defer db.Close()
	braw, err := headerfs.NewBlockHeaderStore(dir, db, w.params)
	if err != nil {
		out.Error = "block store: " + err.Error()
		return
	}
	fraw, err := headerfs.NewFilterHeaderStore(dir, db, headerfs.RegularFilter, w.params, nil)
	if err != nil {
		out.Error = "filter store: " + err.Error()
		return
	}
	g := &vfCFRaceGates{procs: map[string]string{}, ev: make(chan vfCFRaceEv, 8),
		rel: map[string]chan struct{}{"R": make(chan struct{}), "W": make(chan struct{})}}
	bm, err := newBlockManager(&blockManagerCfg{
		ChainParams:      *w.params,
		BlockHeaders:     &vfCFRaceB{BlockHeaderStore: braw, g: g},
		RegFilterHeaders: &vfCFRaceF{FilterHeaderStore: fraw, g: g},
		TimeSource:       blockchain.NewMedianTime(),
		BanPeer:          func(string, banman.Reason) error { return nil },
	})
	if err != nil {
		out.Error = "newBlockManager: " + err.Error()
		return
	}
	e := &vfCFRaceEnv{w: w, g: g, bm: bm, braw: braw, fraw: fraw, rsc: rsc,
		state: map[string]string{"R": "init", "W": "init"}, gid: map[string]string{},
		buf: make([]byte, 1<<18)}
	defer func() {
		// let whatever is still parked run to its end (senders give up on quit)
		close(bm.quit)
		for i := 0; i < 256; i++ {
			moved := false
			for _, q := range []string{"R", "W"} {
				if e.state[q] == "init" {
					continue
				}
				if e.state[q] == "send" {
					e.state[q] = "run"
					e.sendq = nil
					if e.settle() == nil {
						moved = true
					}
					continue
				}
				if _, ok, err := e.step(q); err == nil && ok {
					moved = true
				}
			}
			if !moved {
				break
			}
		}
	}()

	out.InitObs = e.observe()
	if !vfCFObsEq(&out.InitObs, &p.InitObs) {
		out.Stopped = "initial observables differ from the model"
		return
	}
	// A command for a goroutine that waits for the mutex cannot be carried out
	// now; it is not dropped but carried out as soon as that goroutine can be
	// released again, so that a schedule is followed as closely as the code's
	// own locking allows.
	deferred := map[string]int{}
	catchUp := func() error {
		for _, q := range []string{"R", "W"} {
			for deferred[q] > 0 && e.state[q] != "blk" {
				deferred[q]--
				a, ok, err := e.next("Step" + q)
				if err != nil {
					return err
				}
				if !ok {
					deferred[q] = 0
					break
				}
				out.Steps = append(out.Steps, vfCFStepOut{Act: a, Obs: e.observe(),
					Note: "command deferred while the goroutine waited for the mutex"})
			}
		}
		return nil
	}
	for i, s := range p.Steps {
		a, _, err := e.next(s.Act.Op)
		if err != nil {
			out.Error = fmt.Sprintf("step %d: %v", i+1, err)
			return
		}
		out.Steps = append(out.Steps, vfCFStepOut{Act: a, Obs: e.observe()})
		if a.Res == "skip:blk" {
			deferred[strings.TrimPrefix(a.Op, "Step")]++
		}
		if err := catchUp(); err != nil {
			out.Error = fmt.Sprintf("step %d (deferred): %v", i+1, err)
			return
		}
	}
	// run both functions to their end so that what the schedule led to is seen
	for n := 0; n < 128; n++ {
		progressed := false
		for _, op := range []string{"Recv", "StepR", "StepW"} {
			if op != "Recv" && e.state[strings.TrimPrefix(op, "Step")] == "init" {
				continue // never started by this schedule
			}
			a, ok, err := e.next(op)
			if err != nil {
				out.Error = "drain: " + err.Error()
				return
			}
			if ok {
				out.Steps = append(out.Steps, vfCFStepOut{Act: a, Obs: e.observe(),
					Note: "schedule over, goroutines run to their end"})
				progressed = true
				break
			}
		}
		if !progressed {
			break
		}
	}
	return
}

func TestVerifCFRaceReplay(t *testing.T) {
	in, outFn := os.Getenv("VERIF_PATHS"), os.Getenv("VERIF_OUT")
	if in == "" || outFn == "" {
		t.Skip("VERIF_PATHS / VERIF_OUT not set")
	}
	scratch := os.Getenv("VERIF_SCRATCH")
	if scratch == "" {
		scratch = t.TempDir()
	}
	f, err := os.Open(in)
	if err != nil {
		t.Fatal(err)
	}
	defer f.Close()
	var paths []vfCFPathIn
	sc := bufio.NewScanner(f)
	sc.Buffer(make([]byte, 1<<20), 1<<28)
	for sc.Scan() {
		var p vfCFPathIn
		if err := json.Unmarshal(sc.Bytes(), &p); err != nil {
			t.Fatal(err)
		}
		paths = append(paths, p)
	}
	w, err := vfCFNewRaceWorld(8, scratch)
	if err != nil {
		t.Fatal(err)
	}
	results := make([]vfCFPathOut, len(paths))
	var wg sync.WaitGroup
	jobs := make(chan int)
	// goroutine dumps stop the world: a few workers are enough for this slice
	for k := 0; k < 4; k++ {
		wg.Add(1)
		go func() {
			defer wg.Done()
			for i := range jobs {
				results[i] = vfCFRaceRun(w, paths[i])
			}
		}()
	}
	for i := range paths {
		jobs <- i
	}
	close(jobs)
	wg.Wait()
	of, err := os.Create(outFn)
	if err != nil {
		t.Fatal(err)
	}
	bw := bufio.NewWriter(of)
	enc := json.NewEncoder(bw)
	for i := range results {
		if err := enc.Encode(&results[i]); err != nil {
			t.Fatal(err)
		}
	}
	bw.Flush()
	of.Close()
}
