package neutrino

// Replay driver for the CFSync family (property C03).  Injected into package
// neutrino at build time with `go test -overlay` (together with
// harness/overlay/chainsync/zz_verif_cfsync_hook.go); nothing is copied into
// /repo.  It executes paths of specs/CFSync/CFSync.tla against the REAL
// blockManager functions of the filter-header sync (getCheckpts,
// resolveConflict, getCheckpointedCFHeaders, getUncheckpointedCFHeaders,
// writeCFHeadersMsg, rollBackToHeight) on real headerfs stores.
//
// The handler runs in its own goroutine and stops at "gates": the
// blockManagerCfg.queryAllPeers field, the GetBlock callback and the
// QueryDispatcher are scripted implementations that park the call until the
// next step of the path supplies the answers.  The block handler's steps
// (rollBackToHeight, a headers batch) are executed by the driver while the
// handler is parked, exactly where the path places them.
//
// Model height 2j is real height 1000j, 2j+1 is 1000j+e (e from VERIF_SEED).
// A peer lying "at model height k" lies at one real height inside segment k;
// REAL blocks and GCS filters exist at those heights only.

import (
	"bufio"
	"bytes"
	"crypto/sha256"
	"encoding/binary"
	"encoding/json"
	"errors"
	"fmt"
	"io"
	"math/big"
	"os"
	"path/filepath"
	"runtime"
	"strconv"
	"strings"
	"sync"
	"testing"
	"time"

	"github.com/btcsuite/btcd/address/v2"
	"github.com/btcsuite/btcd/blockchain"
	"github.com/btcsuite/btcd/btcutil/v2"
	"github.com/btcsuite/btcd/btcutil/v2/gcs"
	"github.com/btcsuite/btcd/btcutil/v2/gcs/builder"
	"github.com/btcsuite/btcd/chaincfg/v2"
	"github.com/btcsuite/btcd/chainhash/v2"
	"github.com/btcsuite/btcd/peer"
	"github.com/btcsuite/btcd/wire/v2"
	"github.com/btcsuite/btcwallet/walletdb"
	"github.com/lightninglabs/neutrino/banman"
	"github.com/lightninglabs/neutrino/chainsync"
	"github.com/lightninglabs/neutrino/headerfs"
	"github.com/lightninglabs/neutrino/query"
)

const (
	vfCFG  = -2 // a value the projection cannot map
	vfCFLS = 16 // lineage space of a filter-header id
)

type vfCFAct struct {
	Op  string `json:"op"`
	Res string `json:"res"`
	Rs  []int  `json:"rs"`
	P   int    `json:"p"`
	J   int    `json:"j"`
	N   int    `json:"n"`
	Lo  int    `json:"lo"`
	Hi  int    `json:"hi"`
}

type vfCFAsg struct {
	Kind string `json:"kind"`
	K    int    `json:"k"`
}

type vfCFObs struct {
	B    []int     `json:"B"`
	F    []int     `json:"F"`
	Ban  []int     `json:"ban"`
	Mem  []int     `json:"mem"`
	Asg  []vfCFAsg `json:"asg"`
	Hard int       `json:"hard"`
	Cpi  int       `json:"cpi"`
	Rsc  []int     `json:"rsc,omitempty"` // scenario of the CFRace slice
	Ev   *[]int    `json:"ev,omitempty"`  // CFRace: block events delivered so far
	Q    *int      `json:"q,omitempty"`   // CFRace: 1 once both functions returned
}

type vfCFStepIn struct {
	Act vfCFAct `json:"act"`
	Obs vfCFObs `json:"obs"`
}

type vfCFPathIn struct {
	ID      int          `json:"id"`
	InitObs vfCFObs      `json:"init_obs"`
	Steps   []vfCFStepIn `json:"steps"`
}

type vfCFStepOut struct {
	Act  vfCFAct `json:"act"`
	Obs  vfCFObs `json:"obs"`
	Note string  `json:"note,omitempty"`
}

type vfCFPathOut struct {
	ID      int           `json:"id"`
	InitObs vfCFObs       `json:"init_obs"`
	Steps   []vfCFStepOut `json:"steps"`
	Error   string        `json:"error,omitempty"`
	Stopped string        `json:"stopped,omitempty"`
	Tries   int           `json:"tries,omitempty"`
}

func vfCFObsEq(a, b *vfCFObs) bool {
	x, _ := json.Marshal(a)
	y, _ := json.Marshal(b)
	return bytes.Equal(x, y)
}

func vfCFActEq(a, b *vfCFAct) bool {
	x, _ := json.Marshal(a)
	y, _ := json.Marshal(b)
	return bytes.Equal(x, y)
}

// ---------------------------------------------------------------------------
// Chains, blocks, filters.

// vfCFChain is one block chain (full view from genesis).  Slices are indexed
// by real height; a branch shares the prefix values of its parent.
type vfCFChain struct {
	hdr   []*wire.BlockHeader
	hash  []chainhash.Hash
	fhash []chainhash.Hash // true filter hash per height
	fhdr  []chainhash.Hash // true filter header per height
	own   []int            // branch that mined the block
	br    int              // branch this chain object was created for
	blk   map[int]*wire.MsgBlock
	prevs map[int][][]byte // prev-out scripts of the real blocks
}

func (c *vfCFChain) tip() int { return len(c.hdr) - 1 }

type vfCFWorld struct {
	seed    int64
	e       int   // split of an interval: model height 2j+1 is real 1000j+e
	maxH    int   // highest model height
	liePos  []int // real height of a lie at model height k (index k)
	isLie   map[int]bool
	big     map[int]bool             // real heights whose block carries the bulk transaction
	params  map[int]*chaincfg.Params // by hard-coded checkpoint height (0 = none)
	main    *vfCFChain
	mainLoc map[chainhash.Hash]int
	tmplMu  sync.Mutex
	tmpl    map[string]string
	scratch string
	now     int64
}

func (w *vfCFWorld) R(h int) int {
	if h%2 == 0 {
		return (h / 2) * 1000
	}
	return (h/2)*1000 + w.e
}

// modelH returns the model height whose segment ends at real height r, or -1.
func (w *vfCFWorld) modelH(r int) int {
	if r%1000 == 0 {
		return 2 * (r / 1000)
	}
	if r%1000 == w.e {
		return 2*(r/1000) + 1
	}
	return -1
}

func vfCFSha(tag string, parts ...[]byte) chainhash.Hash {
	h := sha256.New()
	h.Write([]byte(tag))
	for _, p := range parts {
		h.Write(p)
	}
	var out chainhash.Hash
	copy(out[:], h.Sum(nil))
	return out
}

func vfCFU32(v int) []byte {
	var b [4]byte
	binary.BigEndian.PutUint32(b[:], uint32(v))
	return b[:]
}

func vfCFChainHdr(fh, prev chainhash.Hash) chainhash.Hash {
	var buf [64]byte
	copy(buf[:32], fh[:])
	copy(buf[32:], prev[:])
	return chainhash.DoubleHashH(buf[:])
}

var vfCFPowLimit = new(big.Int).Sub(new(big.Int).Lsh(big.NewInt(1), 255), big.NewInt(1))

func vfCFMine(h *wire.BlockHeader) {
	target := blockchain.CompactToBig(h.Bits)
	for {
		hash := h.BlockHash()
		if blockchain.HashToBig(&hash).Cmp(target) <= 0 {
			return
		}
		h.Nonce++
	}
}

func vfCFScript(tag string, parts ...[]byte) []byte {
	h := vfCFSha(tag, parts...)
	return append([]byte{0x00, 0x14}, h[:20]...)
}

// ---- input classes of the disputed blocks -----------------------------------
//
// BIP158: the basic filter of a block holds every output script (OP_RETURN
// ones excepted) AND the script of every output its inputs spend.  The world
// creates the spent outputs itself (they live in no block of the chain), so it
// knows their scripts exactly; the TRUE filter is built from them.  An input
// class is (signature script, witness, script of the output it spends).

type vfCFIn struct {
	class   string
	sig     []byte
	witness wire.TxWitness
	prev    []byte // script of the spent output
}

func vfCFPush(d []byte) []byte {
	switch {
	case len(d) <= 75:
		return append([]byte{byte(len(d))}, d...)
	case len(d) <= 255:
		return append([]byte{0x4c, byte(len(d))}, d...)
	}
	return append([]byte{0x4d, byte(len(d)), byte(len(d) >> 8)}, d...)
}

func vfCFBytes(n int, tag string, parts ...[]byte) []byte {
	out := make([]byte, 0, n+32)
	for i := 0; len(out) < n; i++ {
		h := vfCFSha(tag, append(parts, vfCFU32(i))...)
		out = append(out, h[:]...)
	}
	return out[:n]
}

func vfCFCat(parts ...[]byte) []byte {
	var out []byte
	for _, p := range parts {
		out = append(out, p...)
	}
	return out
}

func vfCFSha256(d []byte) []byte { h := sha256.Sum256(d); return h[:] }

func vfCFP2SH(redeem []byte) []byte {
	return vfCFCat([]byte{0xa9, 0x14}, address.Hash160(redeem), []byte{0x87})
}

// vfCFInputClasses returns one input of every class, derived from id.
func vfCFInputClasses(id []byte) []vfCFIn {
	pub := func(t string) []byte { return append([]byte{0x02}, vfCFBytes(32, "pub"+t, id)...) }
	sig := func(t string) []byte { // DER-shaped signature + SIGHASH_ALL, 71 bytes
		return vfCFCat([]byte{0x30, 0x44, 0x02, 0x20}, vfCFBytes(32, "r"+t, id),
			[]byte{0x02, 0x20}, vfCFBytes(32, "s"+t, id), []byte{0x01})
	}
	tr := func(t string) []byte { return append([]byte{0x51, 0x20}, vfCFBytes(32, "tr"+t, id)...) }
	ctrl := func(t string, depth int) []byte {
		return vfCFCat([]byte{0xc0}, vfCFBytes(32, "ik"+t, id), vfCFBytes(32*depth, "path"+t, id))
	}
	annex := append([]byte{0x50}, vfCFBytes(9, "annex", id)...)
	multisig := func(t string) []byte { return vfCFCat([]byte{0x51, 0x21}, pub(t), []byte{0x51, 0xae}) }
	leaf := func(t string) []byte { return vfCFCat([]byte{0x20}, vfCFBytes(32, "xonly"+t, id), []byte{0xac}) }
	// a 33-byte witness script: OP_DROP <31 bytes>
	ws33 := vfCFCat([]byte{0x75, 0x1f}, vfCFBytes(31, "ws33", id))

	wpkh := vfCFCat([]byte{0x00, 0x14}, address.Hash160(pub("d")))
	wsE, wsG := multisig("e"), multisig("g")
	wshE := vfCFCat([]byte{0x00, 0x20}, vfCFSha256(wsE))
	return []vfCFIn{
		{class: "p2pk", sig: vfCFPush(sig("a")), prev: vfCFCat(vfCFPush(pub("a")), []byte{0xac})},
		{class: "p2pkh", sig: vfCFCat(vfCFPush(sig("b")), vfCFPush(pub("b"))),
			prev: vfCFCat([]byte{0x76, 0xa9, 0x14}, address.Hash160(pub("b")), []byte{0x88, 0xac})},
		{class: "p2sh", sig: vfCFCat([]byte{0x00}, vfCFPush(sig("c")), vfCFPush(multisig("c"))),
			prev: vfCFP2SH(multisig("c"))},
		{class: "np2wpkh", sig: vfCFPush(wpkh), witness: wire.TxWitness{sig("d"), pub("d")},
			prev: vfCFP2SH(wpkh)},
		{class: "np2wsh", sig: vfCFPush(wshE), witness: wire.TxWitness{nil, sig("e"), wsE},
			prev: vfCFP2SH(wshE)},
		{class: "p2wpkh", witness: wire.TxWitness{sig("f"), pub("f")},
			prev: vfCFCat([]byte{0x00, 0x14}, address.Hash160(pub("f")))},
		{class: "p2wsh", witness: wire.TxWitness{nil, sig("g"), wsG},
			prev: vfCFCat([]byte{0x00, 0x20}, vfCFSha256(wsG))},
		// a P2WSH spend whose witness has two items, the last 33 bytes long
		{class: "p2wsh33", witness: wire.TxWitness{sig("h"), ws33},
			prev: vfCFCat([]byte{0x00, 0x20}, vfCFSha256(ws33))},
		// taproot key path: one signature of 64 bytes / 65 bytes (explicit
		// sighash type) / followed by an annex
		{class: "p2tr-key64", witness: wire.TxWitness{vfCFBytes(64, "schnorr-i", id)}, prev: tr("i")},
		{class: "p2tr-key65", witness: wire.TxWitness{append(vfCFBytes(64, "schnorr-j", id), 0x83)}, prev: tr("j")},
		{class: "p2tr-key-annex", witness: wire.TxWitness{vfCFBytes(64, "schnorr-k", id), annex}, prev: tr("k")},
		// taproot script path: ... script, control block [, annex]
		{class: "p2tr-script", witness: wire.TxWitness{vfCFBytes(64, "schnorr-l", id), leaf("l"), ctrl("l", 1)}, prev: tr("l")},
		{class: "p2tr-script-depth0", witness: wire.TxWitness{[]byte{0x51}, ctrl("m", 0)}, prev: tr("m")},
		{class: "p2tr-script-annex", witness: wire.TxWitness{vfCFBytes(64, "schnorr-n", id), leaf("n"), ctrl("n", 2), annex}, prev: tr("n")},
		// neither a signature script nor a witness (anyone-can-spend output)
		{class: "bare-empty", prev: []byte{0x51}},
		// an output of a witness version that has no rules yet
		{class: "witness-v2", witness: wire.TxWitness{vfCFBytes(40, "v2", id)},
			prev: append([]byte{0x52, 0x20}, vfCFBytes(32, "v2prog", id)...)},
		// bare multisig, and a non-standard pair whose signature script is not push-only
		{class: "bare-multisig", sig: vfCFCat([]byte{0x00}, vfCFPush(sig("s"))), prev: multisig("s")},
		{class: "nonstd", sig: []byte{0x51, 0x76}, prev: []byte{0x87, byte(id[7])}},
	}
}

// vfCFOmitSpent: index in the list of spent scripts of the one the "OI" liars
// leave out of their filter (tx 1 has one input; class 6 of tx 2 is "p2wsh").
const vfCFOmitSpent = 1 + 6

func vfCFSpend(tx *wire.MsgTx, prevs *[][]byte, tag string, id []byte, n int, in vfCFIn) {
	h := vfCFSha("in-"+tag, id, vfCFU32(n))
	tx.AddTxIn(&wire.TxIn{
		PreviousOutPoint: *wire.NewOutPoint(&h, uint32(n%3)),
		SignatureScript:  in.sig,
		Witness:          in.witness,
		Sequence:         wire.MaxTxInSequenceNum,
	})
	*prevs = append(*prevs, in.prev)
}

// vfCFBigShape says whether the disputed block at a lie of model height k also
// carries the bulk transaction (more than 253 inputs and outputs: the counts
// need the 3-byte varint form; repeated and re-used scripts).
func vfCFBigShape(k int) bool { return k%2 == 1 }

// vfCFRealBlock builds a real block on top of prev: coinbase; tx 1 with one
// input, two ordinary outputs, an unparsable output script and an OP_RETURN
// output (the liars' filters omit output 0 / output 2 of it); tx 2 with one
// input of EVERY input class, outputs of every standard kind, a repeated
// script and a script that is also being spent (address re-use); tx 3 with
// OP_RETURN outputs only; with big: tx 4 with 260 inputs and 300 outputs.
// Returned with it: the scripts of all outputs spent by the block, in input
// order.
func vfCFRealBlock(branch, r int, prev chainhash.Hash, ts int64, big bool) (*wire.MsgBlock, [][]byte) {
	id := append(vfCFU32(branch), vfCFU32(r)...)
	var prevs [][]byte
	cb := wire.NewMsgTx(2)
	cb.AddTxIn(&wire.TxIn{
		PreviousOutPoint: *wire.NewOutPoint(&chainhash.Hash{}, wire.MaxPrevOutIndex),
		SignatureScript:  append([]byte{0x04}, vfCFU32(r)...),
		Witness:          wire.TxWitness{make([]byte, 32)}, // the witness reserved value
		Sequence:         wire.MaxTxInSequenceNum,
	})
	cb.AddTxOut(wire.NewTxOut(50_0000_0000, vfCFScript("cb", id)))
	tx := wire.NewMsgTx(2)
	inHash := vfCFSha("in", id)
	tx.AddTxIn(&wire.TxIn{
		PreviousOutPoint: *wire.NewOutPoint(&inHash, 0),
		SignatureScript:  []byte{0x01, 0x51},
		Sequence:         wire.MaxTxInSequenceNum,
	})
	prevs = append(prevs, vfCFScript("spent", id))
	o1 := vfCFScript("o1", id)
	tx.AddTxOut(wire.NewTxOut(1000, vfCFScript("o0", id)))
	tx.AddTxOut(wire.NewTxOut(2000, o1))
	// a script that does not parse (PUSHDATA1 announcing more bytes than
	// follow): BIP158 filters contain it like any other output script ...
	tx.AddTxOut(wire.NewTxOut(3000, []byte{0x4c, 0x05, byte(r), byte(branch)}))
	// ... and an OP_RETURN output, which they leave out
	tx.AddTxOut(wire.NewTxOut(0, append([]byte{0x6a, 0x08}, id...)))

	tx2 := wire.NewMsgTx(2)
	classes := vfCFInputClasses(id)
	for n, in := range classes {
		vfCFSpend(tx2, &prevs, "cls", id, n, in)
	}
	tx2.AddTxOut(wire.NewTxOut(100, append([]byte{0x51, 0x20}, vfCFBytes(32, "out-tr", id)...)))
	tx2.AddTxOut(wire.NewTxOut(200, vfCFCat([]byte{0x00, 0x20}, vfCFBytes(32, "out-wsh", id))))
	tx2.AddTxOut(wire.NewTxOut(300, vfCFCat([]byte{0x76, 0xa9, 0x14}, vfCFBytes(20, "out-pkh", id), []byte{0x88, 0xac})))
	tx2.AddTxOut(wire.NewTxOut(400, vfCFCat([]byte{0xa9, 0x14}, vfCFBytes(20, "out-sh", id), []byte{0x87})))
	tx2.AddTxOut(wire.NewTxOut(500, o1))              // the same script twice in a block
	tx2.AddTxOut(wire.NewTxOut(600, o1))              // ... and three times
	tx2.AddTxOut(wire.NewTxOut(700, classes[5].prev)) // paid to a script that the block also spends
	tx2.AddTxOut(wire.NewTxOut(800, nil))             // empty script: not part of a filter
	tx2.AddTxOut(wire.NewTxOut(0, []byte{0x6a}))      // OP_RETURN without data

	tx3 := wire.NewMsgTx(2)
	vfCFSpend(tx3, &prevs, "opr", id, 0, classes[8])
	for n := 0; n < 3; n++ {
		tx3.AddTxOut(wire.NewTxOut(0, vfCFCat([]byte{0x6a}, vfCFPush(vfCFBytes(20+30*n, "opret", id, vfCFU32(n))))))
	}

	txs := []*wire.MsgTx{cb, tx, tx2, tx3}
	if big {
		tx4 := wire.NewMsgTx(2)
		for n := 0; n < 260; n++ {
			in := classes[5+n%9] // the witness spends
			if n >= 18 {
				// fresh scripts (the first 18 re-use those of tx 2: the same
				// script spent twice in one block)
				in = vfCFInputClasses(vfCFCat(id, vfCFU32(n)))[5+n%9]
			}
			vfCFSpend(tx4, &prevs, "bulk", id, n, in)
		}
		for n := 0; n < 300; n++ {
			m := n
			if n%10 == 9 {
				m = n - 1 // every tenth output repeats its neighbour's script
			}
			var s []byte
			switch m % 3 {
			case 0:
				s = vfCFScript("bulk", id, vfCFU32(m))
			case 1:
				s = append([]byte{0x51, 0x20}, vfCFBytes(32, "bulk-tr", id, vfCFU32(m))...)
			default:
				s = vfCFCat([]byte{0x00, 0x20}, vfCFBytes(32, "bulk-wsh", id, vfCFU32(m)))
			}
			tx4.AddTxOut(wire.NewTxOut(int64(1000+n), s))
		}
		txs = append(txs, tx4)
	}
	utxs := make([]*btcutil.Tx, len(txs))
	for i, t := range txs {
		utxs[i] = btcutil.NewTx(t)
	}
	blk := &wire.MsgBlock{
		Header: wire.BlockHeader{
			Version:    4,
			PrevBlock:  prev,
			MerkleRoot: blockchain.CalcMerkleRoot(utxs, false),
			Timestamp:  time.Unix(ts, 0),
			Bits:       0x207fffff,
		},
		Transactions: txs,
	}
	vfCFMine(&blk.Header)
	return blk, prevs
}

// extend appends real heights tip+1..to to the chain, mined by branch.
func (w *vfCFWorld) extend(c *vfCFChain, branch, to int) {
	for r := c.tip() + 1; r <= to; r++ {
		prev := c.hash[r-1]
		ts := w.now - int64(4000-r)
		var hdr *wire.BlockHeader
		var fh chainhash.Hash
		if w.isLie[r] {
			blk, prevs := vfCFRealBlock(branch, r, prev, ts, w.big[r])
			hdr = &blk.Header
			c.blk[r] = blk
			c.prevs[r] = prevs
			f, err := builder.BuildBasicFilter(blk, prevs)
			if err != nil {
				panic(err)
			}
			fh, err = builder.GetFilterHash(f)
			if err != nil {
				panic(err)
			}
		} else {
			hdr = &wire.BlockHeader{
				Version:    4,
				PrevBlock:  prev,
				MerkleRoot: vfCFSha("mr", vfCFU32(branch), vfCFU32(r)),
				Timestamp:  time.Unix(ts, 0),
				Bits:       0x207fffff,
			}
			vfCFMine(hdr)
			bh := hdr.BlockHash()
			fh = vfCFSha("fh", bh[:])
		}
		c.hdr = append(c.hdr, hdr)
		c.hash = append(c.hash, hdr.BlockHash())
		c.fhash = append(c.fhash, fh)
		c.fhdr = append(c.fhdr, vfCFChainHdr(fh, c.fhdr[r-1]))
		c.own = append(c.own, branch)
	}
}

// fork returns a new chain sharing heights 0..at with c.
func (c *vfCFChain) fork(at int) *vfCFChain {
	n := &vfCFChain{blk: map[int]*wire.MsgBlock{}, prevs: map[int][][]byte{}}
	n.hdr = append(n.hdr, c.hdr[:at+1]...)
	n.hash = append(n.hash, c.hash[:at+1]...)
	n.fhash = append(n.fhash, c.fhash[:at+1]...)
	n.fhdr = append(n.fhdr, c.fhdr[:at+1]...)
	n.own = append(n.own, c.own[:at+1]...)
	for r, b := range c.blk {
		if r <= at {
			n.blk[r] = b
			n.prevs[r] = c.prevs[r]
		}
	}
	return n
}

func vfCFBaseParams(net uint32) *chaincfg.Params {
	p := chaincfg.RegressionNetParams
	p.Net = wire.BitcoinNet(net)
	p.Checkpoints = nil
	p.PowLimit = vfCFPowLimit
	p.PowLimitBits = 0x207fffff
	return &p
}

func vfCFNewWorld(seed int64, maxH int, scratch string) (*vfCFWorld, error) {
	w := &vfCFWorld{seed: seed, maxH: maxH, isLie: map[int]bool{}, big: map[int]bool{}, scratch: scratch,
		params: map[int]*chaincfg.Params{}, tmpl: map[string]string{},
		mainLoc: map[chainhash.Hash]int{}, now: time.Now().Unix()}
	x := uint64(seed)*6364136223846793005 + 1442695040888963407
	next := func(n int) int {
		x = x*6364136223846793005 + 1442695040888963407
		return int((x >> 33) % uint64(n))
	}
	w.e = 1 + next(999)
	w.liePos = make([]int, maxH+1)
	for k := 1; k <= maxH; k++ {
		if k%2 == 0 {
			w.liePos[k] = w.R(k)
		} else {
			w.liePos[k] = w.R(k-1) + 1 + next(w.e)
		}
		w.isLie[w.liePos[k]] = true
		w.big[w.liePos[k]] = vfCFBigShape(k)
	}
	base := vfCFBaseParams(0xC0F50000)
	gen := base.GenesisBlock
	gf, err := builder.BuildBasicFilter(gen, nil)
	if err != nil {
		return nil, err
	}
	gfh, err := builder.GetFilterHash(gf)
	if err != nil {
		return nil, err
	}
	ghdr, err := builder.MakeHeaderForFilter(gf, gen.Header.PrevBlock)
	if err != nil {
		return nil, err
	}
	c := &vfCFChain{blk: map[int]*wire.MsgBlock{}, prevs: map[int][][]byte{}}
	c.hdr = []*wire.BlockHeader{&gen.Header}
	c.hash = []chainhash.Hash{gen.Header.BlockHash()}
	c.fhash = []chainhash.Hash{gfh}
	c.fhdr = []chainhash.Hash{ghdr}
	c.own = []int{0}
	w.extend(c, 0, w.R(maxH))
	w.main = c
	for r := range c.hash {
		w.mainLoc[c.hash[r]] = r
	}
	// one network per hard-coded checkpoint height (0 = none)
	for h := 0; h <= maxH; h += 2 {
		p := vfCFBaseParams(0xC0F50000 + uint32(h))
		w.params[h] = p
		if h > 0 {
			v := c.fhdr[w.R(h)]
			chainsync.VerifSetFilterHeaderCheckpoints(p.Net,
				map[uint32]*chainhash.Hash{uint32(w.R(h)): &v})
		}
	}
	return w, nil
}

func vfCFCopy(src, dst string) error {
	in, err := os.Open(src)
	if err != nil {
		return err
	}
	defer in.Close()
	out, err := os.Create(dst)
	if err != nil {
		return err
	}
	if _, err := io.Copy(out, in); err != nil {
		out.Close()
		return err
	}
	return out.Close()
}

var vfCFStoreFiles = []string{"neutrino.db", "block_headers.bin", "reg_filter_headers.bin"}

// template returns a directory holding stores with the main chain up to
// model height bt and its true filter headers up to ft.
func (w *vfCFWorld) template(bt, ft, hard int) (string, error) {
	key := fmt.Sprintf("t-%d-%d-%d", bt, ft, hard)
	w.tmplMu.Lock()
	defer w.tmplMu.Unlock()
	if d, ok := w.tmpl[key]; ok {
		return d, nil
	}
	dir := filepath.Join(w.scratch, key)
	os.RemoveAll(dir) // left by an earlier, aborted run of the driver (other chain)
	if err := os.MkdirAll(dir, 0o755); err != nil {
		return "", err
	}
	db, err := walletdb.Create("bdb", filepath.Join(dir, "neutrino.db"), false, 10*time.Second, false)
	if err != nil {
		return "", err
	}
	defer db.Close()
	params := w.params[hard]
	bstore, err := headerfs.NewBlockHeaderStore(dir, db, params)
	if err != nil {
		return "", err
	}
	fstore, err := headerfs.NewFilterHeaderStore(dir, db, headerfs.RegularFilter, params, nil)
	if err != nil {
		return "", err
	}
	c := w.main
	bhs := make([]headerfs.BlockHeader, 0, w.R(bt))
	for r := 1; r <= w.R(bt); r++ {
		bhs = append(bhs, headerfs.BlockHeader{BlockHeader: c.hdr[r], Height: uint32(r)})
	}
	if len(bhs) > 0 {
		if err := bstore.WriteHeaders(bhs...); err != nil {
			return "", err
		}
	}
	fhs := make([]headerfs.FilterHeader, 0, w.R(ft))
	for r := 1; r <= w.R(ft); r++ {
		fhs = append(fhs, headerfs.FilterHeader{HeaderHash: c.hash[r], FilterHash: c.fhdr[r], Height: uint32(r)})
	}
	if len(fhs) > 0 {
		if err := fstore.WriteHeaders(fhs...); err != nil {
			return "", err
		}
	}
	w.tmpl[key] = dir
	return dir, nil
}

// ---------------------------------------------------------------------------
// One replayed path.

type vfCFLoc struct {
	c *vfCFChain
	r int
}

type vfCFEvent struct {
	kind string // gate | ret | panic
	gate string // cp | cfh | flt | blk | query
	msg  wire.Message
	hash chainhash.Hash
	val  []interface{}
	pval string
}

type vfCFResp struct {
	peer int
	msg  wire.Message
}

type vfCFRel struct {
	resps []vfCFResp
	block *btcutil.Block
	err   error
}

type vfCFDisp struct {
	e *vfCFEnv
}

func (d *vfCFDisp) Query(reqs []*query.Request, options ...query.QueryOption) chan error {
	d.e.reqs = reqs
	d.e.fin = map[uint32]bool{}
	d.e.errChan = make(chan error, 1)
	d.e.ev <- vfCFEvent{kind: "gate", gate: "query"}
	return d.e.errChan
}

type vfCFEnv struct {
	w      *vfCFWorld
	dir    string
	db     walletdb.DB
	bm     *blockManager
	asg    []vfCFAsg
	hard   int
	np     int
	sps    []*ServerPeer
	addrIx map[string]int
	banned []int
	banMu  sync.Mutex

	// chains of this path
	cur    *vfCFChain // the chain the block store follows
	curTip int        // real height of the block store tip
	nre    int
	chains []*vfCFChain
	loc    map[chainhash.Hash]vfCFLoc  // blocks of branches (main chain: w.mainLoc)
	fake   map[string]chainhash.Hash   // fake filter hash of peer p for a block
	lin    map[string][]chainhash.Hash // peer p's filter-header chain on a chain

	// handler thread
	ev      chan vfCFEvent
	rel     chan vfCFRel
	done    chan struct{}
	hwg     sync.WaitGroup
	gid     string // goroutine id of the running getCheckpointedCFHeaders
	reqs    []*query.Request
	fin     map[uint32]bool // batched requests already answered
	errChan chan error
	stackBf []byte

	// cfHandler's own variables (the loop's glue is emulated by the driver)
	pc       string
	mode     string
	gate     vfCFEvent
	lastH    uint32
	lastHash chainhash.Hash
	allCP    map[string][]*chainhash.Hash
	cpTipH   uint32 // cfCheckptsTipHeight / cfCheckptsTipHash of cfHandler
	cpTipHsh chainhash.Hash
	good     []*chainhash.Hash
}

func (e *vfCFEnv) peerAddr(p int) string { return fmt.Sprintf("10.0.0.%d:18555", p) }

func (e *vfCFEnv) kind(p int) string { return e.asg[p-1].Kind }

func (e *vfCFEnv) liesCF(p int) bool {
	switch e.kind(p) {
	case "OM", "OU", "OE", "NH", "NS", "EX", "OI", "HC":
		return true
	}
	return false
}

func (e *vfCFEnv) liesCP(p int) bool {
	switch e.kind(p) {
	case "CP", "CX", "PV", "OM", "OU", "OE", "NH", "NS", "EX", "OI":
		return true
	}
	return false
}

func (e *vfCFEnv) liePos(p int) int {
	k := e.asg[p-1].K
	if k <= 0 || k >= len(e.w.liePos) {
		return -1
	}
	return e.w.liePos[k]
}

// locate finds the chain and real height of a block hash.
func (e *vfCFEnv) locate(h chainhash.Hash) (*vfCFChain, int, bool) {
	if r, ok := e.w.mainLoc[h]; ok {
		return e.w.main, r, true
	}
	if l, ok := e.loc[h]; ok {
		return l.c, l.r, true
	}
	return nil, 0, false
}

// filterFor builds the GCS filter of the given kind for a real block.
// kind: "true", "om" (omits an ordinary output script), "ou" (omits the
// output script that does not parse), "ex" (extra element), "oi" (omits the
// script of the P2WSH output that tx 2 spends - a spent script that
// VerifyBasicBlockFilter can derive from the witness), "oe" (the empty filter).
func (e *vfCFEnv) filterFor(c *vfCFChain, r int, kind string, p int) *gcs.Filter {
	blk := c.blk[r]
	if blk == nil {
		return nil
	}
	if kind == "true" {
		f, err := builder.BuildBasicFilter(blk, c.prevs[r])
		if err != nil {
			panic(err)
		}
		return f
	}
	if kind == "oe" {
		// the empty filter as a peer would send it: N = 0, no data
		f, err := gcs.FromNBytes(builder.DefaultP, builder.DefaultM, []byte{0x00})
		if err != nil {
			panic(err)
		}
		return f
	}
	bh := blk.Header.BlockHash()
	b := builder.WithKeyHash(&bh)
	for ti, tx := range blk.Transactions {
		for oi, out := range tx.TxOut {
			if (kind == "om" && ti == 1 && oi == 0) || (kind == "ou" && ti == 1 && oi == 2) {
				continue // the omitted output script
			}
			if len(out.PkScript) == 0 || out.PkScript[0] == 0x6a {
				continue // OP_RETURN outputs are not part of a basic filter
			}
			b.AddEntry(out.PkScript)
		}
	}
	for _, s := range c.prevs[r] {
		if kind == "oi" && bytes.Equal(s, c.prevs[r][vfCFOmitSpent]) {
			continue // the omitted spent script (wherever the block spends it)
		}
		b.AddEntry(s)
	}
	b.AddEntry(vfCFScript("marker", vfCFU32(p)))
	f, err := b.Build()
	if err != nil {
		panic(err)
	}
	return f
}

// fakeHash is the false filter hash peer p advertises for the block at its
// lie height on chain c.
func (e *vfCFEnv) fakeHash(c *vfCFChain, p int) chainhash.Hash {
	r := e.liePos(p)
	key := fmt.Sprintf("%d/%s", p, c.hash[r])
	if h, ok := e.fake[key]; ok {
		return h
	}
	var h chainhash.Hash
	switch e.kind(p) {
	case "OU":
		fh, err := builder.GetFilterHash(e.filterFor(c, r, "ou", p))
		if err != nil {
			panic(err)
		}
		h = fh
	case "OM", "HC", "FO":
		fh, err := builder.GetFilterHash(e.filterFor(c, r, "om", p))
		if err != nil {
			panic(err)
		}
		h = fh
	case "EX":
		fh, err := builder.GetFilterHash(e.filterFor(c, r, "ex", p))
		if err != nil {
			panic(err)
		}
		h = fh
	case "OI":
		fh, err := builder.GetFilterHash(e.filterFor(c, r, "oi", p))
		if err != nil {
			panic(err)
		}
		h = fh
	case "OE":
		fh, err := builder.GetFilterHash(e.filterFor(c, r, "oe", p))
		if err != nil {
			panic(err)
		}
		h = fh
	default:
		h = vfCFSha("fakefh", vfCFU32(p), c.hash[r][:])
	}
	e.fake[key] = h
	return h
}

// lineage returns the filter-header chain of chain c in which the filter
// hash at p's lie height is p's false one (valid for heights <= c.tip()).
func (e *vfCFEnv) lineage(c *vfCFChain, p int) []chainhash.Hash {
	r0 := e.liePos(p)
	if r0 < 0 || r0 > c.tip() {
		return c.fhdr
	}
	key := fmt.Sprintf("%p/%d/%d", c, p, c.tip())
	if l, ok := e.lin[key]; ok {
		return l
	}
	l := make([]chainhash.Hash, c.tip()+1)
	copy(l, c.fhdr[:r0])
	prev := c.fhdr[r0-1]
	for r := r0; r <= c.tip(); r++ {
		fh := c.fhash[r]
		if r == r0 {
			fh = e.fakeHash(c, p)
		}
		prev = vfCFChainHdr(fh, prev)
		l[r] = prev
	}
	e.lin[key] = l
	return l
}

// ---- what the peers answer ------------------------------------------------

func (e *vfCFEnv) respCheckpts(p int, q *wire.MsgGetCFCheckpt) wire.Message {
	c, r, ok := e.locate(q.StopHash)
	if !ok {
		return nil
	}
	hd := c.fhdr
	if e.liesCP(p) {
		hd = e.lineage(c, p)
	}
	m := wire.NewMsgCFCheckpt(q.FilterType, &q.StopHash, r/1000)
	if e.kind(p) == "SH" {
		// a correct but shorter list: only the checkpoints up to model height k
		if lim := e.w.R(e.asg[p-1].K); lim < r {
			r = lim
		}
	}
	for h := 1000; h <= r; h += 1000 {
		v := hd[h]
		_ = m.AddCFHeader(&v)
	}
	return m
}

// respCFHeaders: bcast = the request came through queryAllPeers (the "SF" kind
// answers those with one filter hash too few).
func (e *vfCFEnv) respCFHeaders(p int, q *wire.MsgGetCFHeaders, bcast bool) wire.Message {
	if e.kind(p) == "CX" {
		return nil
	}
	c, r, ok := e.locate(q.StopHash)
	if !ok || int(q.StartHeight) > r {
		return nil
	}
	s := int(q.StartHeight)
	if r-s+1 > wire.MaxCFHeadersPerMsg {
		// no peer answers (or could encode the answer to) a request for more
		// headers than one cfheaders message holds
		return nil
	}
	m := wire.NewMsgCFHeaders()
	m.FilterType = q.FilterType
	m.StopHash = q.StopHash
	hd := c.fhdr
	if e.liesCF(p) {
		hd = e.lineage(c, p)
	}
	switch {
	case s == 0:
		m.PrevFilterHeader = chainhash.Hash{}
	case e.kind(p) == "PV":
		m.PrevFilterHeader = vfCFSha("pvprev", vfCFU32(p), c.hash[s-1][:])
	default:
		m.PrevFilterHeader = hd[s-1]
	}
	lp := -1
	if e.liesCF(p) {
		lp = e.liePos(p)
	}
	for h := s; h <= r; h++ {
		fh := c.fhash[h]
		if h == lp {
			fh = e.fakeHash(c, p)
		}
		m.FilterHashes = append(m.FilterHashes, &fh)
	}
	if bcast && e.kind(p) == "SF" {
		m.FilterHashes = m.FilterHashes[:len(m.FilterHashes)-1]
	}
	return m
}

func (e *vfCFEnv) respFilter(p int, q *wire.MsgGetCFilters) wire.Message {
	c, r, ok := e.locate(q.StopHash)
	if !ok || int(q.StartHeight) != r || c.blk[r] == nil {
		return nil
	}
	kind := "true"
	if r == e.liePos(p) {
		switch e.kind(p) {
		case "OU":
			kind = "ou"
		case "OM", "HC", "FO":
			kind = "om"
		case "EX":
			kind = "ex"
		case "OI":
			kind = "oi"
		case "OE":
			kind = "oe"
		case "NS":
			return nil
		}
	}
	f := e.filterFor(c, r, kind, p)
	data, err := f.NBytes()
	if err != nil {
		panic(err)
	}
	return wire.NewMsgCFilter(q.FilterType, &q.StopHash, data)
}

// ---- gates ----------------------------------------------------------------

func (e *vfCFEnv) queryAllPeers(queryMsg wire.Message,
	checkResponse func(sp *ServerPeer, resp wire.Message, quit chan<- struct{},
		peerQuit chan<- struct{}), options ...QueryOption) {

	g := "?"
	switch queryMsg.(type) {
	case *wire.MsgGetCFCheckpt:
		g = "cp"
	case *wire.MsgGetCFHeaders:
		g = "cfh"
	case *wire.MsgGetCFilters:
		g = "flt"
	}
	e.ev <- vfCFEvent{kind: "gate", gate: g, msg: queryMsg}
	select {
	case rel := <-e.rel:
		// as ChainService.queryAllPeers (query.go) does: one quit channel per
		// peer; once the callback closed it, further messages of that peer
		// are not handed to the callback any more
		quit := make(chan struct{})
		peerQuits := map[int]chan struct{}{}
		for _, r := range rel.resps {
			if r.msg == nil {
				continue
			}
			pq, ok := peerQuits[r.peer]
			if !ok {
				pq = make(chan struct{})
				peerQuits[r.peer] = pq
			}
			select {
			case <-pq:
			default:
				checkResponse(e.sps[r.peer-1], r.msg, quit, pq)
			}
		}
	case <-e.done:
	}
}

func (e *vfCFEnv) getBlock(h chainhash.Hash, _ ...QueryOption) (*btcutil.Block, error) {
	e.ev <- vfCFEvent{kind: "gate", gate: "blk", hash: h}
	select {
	case rel := <-e.rel:
		return rel.block, rel.err
	case <-e.done:
		return nil, errors.New("verif: path over")
	}
}

func (e *vfCFEnv) banPeer(addr string, reason banman.Reason) error {
	if os.Getenv("VERIF_CFS_DEBUG") != "" {
		buf := make([]byte, 2048)
		buf = buf[:runtime.Stack(buf, false)]
		fmt.Fprintf(os.Stderr, "BAN %s reason=%v\n%s\n", addr, reason, buf)
	}
	e.banMu.Lock()
	defer e.banMu.Unlock()
	if i, ok := e.addrIx[addr]; ok {
		e.banned[i-1] = 1
	}
	return nil
}

func vfCFGid() string {
	buf := make([]byte, 64)
	buf = buf[:runtime.Stack(buf, false)]
	f := strings.Fields(string(buf))
	if len(f) >= 2 {
		return f[1]
	}
	return "?"
}

// call runs fn in the handler goroutine.
func (e *vfCFEnv) call(track bool, fn func() []interface{}) {
	e.hwg.Add(1)
	gidc := make(chan string, 1)
	go func() {
		defer e.hwg.Done()
		defer func() {
			if r := recover(); r != nil {
				e.ev <- vfCFEvent{kind: "panic", pval: fmt.Sprint(r)}
			}
		}()
		gidc <- vfCFGid()
		v := fn()
		e.ev <- vfCFEvent{kind: "ret", val: v}
	}()
	gid := <-gidc
	if track {
		e.gid = gid
	}
}

var errVfCFHang = errors.New("verif: handler did not reach a gate")

func (e *vfCFEnv) waitEvent() (vfCFEvent, error) {
	select {
	case ev := <-e.ev:
		return ev, nil
	case <-time.After(120 * time.Second):
		buf := make([]byte, 1<<20)
		buf = buf[:runtime.Stack(buf, true)]
		return vfCFEvent{}, fmt.Errorf("%w\n%s", errVfCFHang, buf)
	}
}

// parked reports whether the goroutine running getCheckpointedCFHeaders is
// blocked in that function's own select (i.e. it consumed everything that was
// delivered and waits for more).
func (e *vfCFEnv) parked() bool {
	for {
		n := runtime.Stack(e.stackBf, true)
		if n < len(e.stackBf) {
			e.stackBf = e.stackBf[:cap(e.stackBf)]
			dump := e.stackBf[:n]
			tag := []byte("goroutine " + e.gid + " [")
			i := bytes.Index(dump, tag)
			for i > 0 && dump[i-1] != '\n' {
				j := bytes.Index(dump[i+1:], tag)
				if j < 0 {
					return false
				}
				i += 1 + j
			}
			if i < 0 {
				return false
			}
			rest := dump[i+len(tag):]
			if !bytes.HasPrefix(rest, []byte("select")) {
				return false
			}
			nl := bytes.IndexByte(rest, '\n')
			if nl < 0 {
				return false
			}
			return bytes.HasPrefix(rest[nl+1:],
				[]byte("github.com/lightninglabs/neutrino.(*blockManager).getCheckpointedCFHeaders("))
		}
		e.stackBf = make([]byte, 2*len(e.stackBf))
	}
}

// waitParked waits until the checkpointed fetch waits for more input, returns
// or panics.
func (e *vfCFEnv) waitParked() (vfCFEvent, error) {
	deadline := time.Now().Add(120 * time.Second)
	for {
		select {
		case ev := <-e.ev:
			if ev.kind == "gate" && ev.gate == "query" {
				continue
			}
			return ev, nil
		default:
		}
		if e.parked() {
			// a return may have raced with the dump
			select {
			case ev := <-e.ev:
				return ev, nil
			default:
			}
			return vfCFEvent{kind: "parked"}, nil
		}
		if time.Now().After(deadline) {
			buf := make([]byte, 1<<20)
			buf = buf[:runtime.Stack(buf, true)]
			return vfCFEvent{}, fmt.Errorf("%w\n%s", errVfCFHang, buf)
		}
		runtime.Gosched()
		time.Sleep(20 * time.Microsecond)
	}
}

// ---- projection -------------------------------------------------------------

func (e *vfCFEnv) blockID(h chainhash.Hash) int {
	c, r, ok := e.locate(h)
	if !ok {
		return vfCFG
	}
	m := e.w.modelH(r)
	if m < 0 {
		return vfCFG
	}
	return c.own[r]*16 + m
}

func (e *vfCFEnv) observe() vfCFObs {
	w := e.w
	o := vfCFObs{Asg: e.asg, Hard: e.hard, Cpi: 2}
	e.banMu.Lock()
	o.Ban = append([]int(nil), e.banned...)
	e.banMu.Unlock()

	// block store
	bstore := e.bm.cfg.BlockHeaders
	tipHdr, tipH, err := bstore.ChainTip()
	if err != nil {
		o.B = []int{vfCFG}
	} else {
		hb := 0
		for hb+1 <= w.maxH+2 && w.R(hb+1) <= int(tipH) {
			hb++
		}
		for h := 0; h <= hb; h++ {
			hd, err := bstore.FetchHeaderByHeight(uint32(w.R(h)))
			if err != nil {
				o.B = append(o.B, vfCFG)
				continue
			}
			o.B = append(o.B, e.blockID(hd.BlockHash()))
		}
		if w.R(hb) != int(tipH) {
			o.B = append(o.B, vfCFG)
		} else if o.B[hb] >= 0 && e.blockID(tipHdr.BlockHash()) != o.B[hb] {
			o.B[hb] = vfCFG
		}
	}

	// filter store
	fstore := e.bm.cfg.RegFilterHeaders
	_, ftH, err := fstore.ChainTip()
	if err != nil {
		o.F = []int{vfCFG}
	} else {
		o.F = e.projectFilters(fstore, int(ftH))
	}

	// in-memory tips
	e.bm.newHeadersMtx.RLock()
	ht, hh := e.bm.headerTip, e.bm.headerTipHash
	e.bm.newHeadersMtx.RUnlock()
	e.bm.newFilterHeadersMtx.RLock()
	ft, fh := e.bm.filterHeaderTip, e.bm.filterHeaderTipHash
	e.bm.newFilterHeadersMtx.RUnlock()
	mh := func(r uint32) int {
		m := w.modelH(int(r))
		if m < 0 {
			return vfCFG
		}
		return m
	}
	o.Mem = []int{mh(ht), e.blockID(hh), mh(ft), e.blockID(fh)}
	return o
}

// projectFilters maps the filter store's content to ids, one per model
// height: id of the last real entry of the segment if every real entry of the
// segment is the hash-chain successor of the entry below it through the true
// filter hash of a known block at that height or a peer's false one.
func (e *vfCFEnv) projectFilters(fstore headerfs.FilterHeaderStore, tip int) []int {
	w := e.w
	vals := make([]chainhash.Hash, tip+1)
	for r := 0; r <= tip; r++ {
		v, err := fstore.FetchHeaderByHeight(uint32(r))
		if err != nil {
			return []int{vfCFG}
		}
		vals[r] = *v
	}
	type ent struct {
		c    *vfCFChain
		mask int
		ok   bool
	}
	var out []int
	prev := ent{c: e.w.main, mask: 0, ok: vals[0] == e.w.main.fhdr[0]}
	if prev.ok {
		out = append(out, 0)
	} else {
		out = append(out, vfCFG)
	}
	segOK := prev.ok
	h := 1
	for r := 1; r <= tip; r++ {
		cur := ent{}
		if prev.ok {
			// fast path: the true header of the same chain
			if prev.mask == 0 && r <= prev.c.tip() && vals[r] == prev.c.fhdr[r] {
				cur = ent{c: prev.c, mask: 0, ok: true}
			} else {
				for _, c := range e.chains {
					if r > c.tip() || c.hash[r-1] != prev.c.hash[r-1] {
						continue
					}
					if vfCFChainHdr(c.fhash[r], vals[r-1]) == vals[r] {
						cur = ent{c: c, mask: prev.mask, ok: true}
						break
					}
					for p := 1; p <= e.np; p++ {
						if e.liePos(p) != r || e.kind(p) == "H" || e.kind(p) == "T" {
							continue
						}
						if vfCFChainHdr(e.fakeHash(c, p), vals[r-1]) == vals[r] {
							cur = ent{c: c, mask: prev.mask | 1<<(p-1), ok: true}
							break
						}
					}
					if cur.ok {
						break
					}
				}
			}
		}
		if !cur.ok {
			segOK = false
		}
		if r == w.R(h) {
			if segOK {
				out = append(out, (cur.c.own[r]*16+h)*vfCFLS+cur.mask)
			} else {
				out = append(out, vfCFG)
			}
			h++
		}
		prev = cur
	}
	if tip != w.R(h-1) {
		out = append(out, vfCFG)
	}
	return out
}

// ---- the steps ----------------------------------------------------------------

func (e *vfCFEnv) responses(rs []int, msg wire.Message) []vfCFResp {
	var out []vfCFResp
	for _, p := range rs {
		var m wire.Message
		switch q := msg.(type) {
		case *wire.MsgGetCFCheckpt:
			m = e.respCheckpts(p, q)
		case *wire.MsgGetCFHeaders:
			m = e.respCFHeaders(p, q, true)
		case *wire.MsgGetCFilters:
			m = e.respFilter(p, q)
		}
		out = append(out, vfCFResp{peer: p, msg: m})
		// An honest peer's answer is followed by a cfilter message of that peer
		// for ANOTHER block (the answer to a concurrent GetCFilter query:
		// queryAllPeers hands every message of a subscribed peer to the
		// callback until the query ends). It must be ignored.
		if q, isF := msg.(*wire.MsgGetCFilters); isF && m != nil && e.kind(p) == "H" {
			if c, r, ok := e.locate(q.StopHash); ok && r > 0 && c.blk[r] != nil {
				if data, err := e.filterFor(c, r, "om", p).NBytes(); err == nil {
					other := c.hash[r-1]
					out = append(out, vfCFResp{peer: p,
						msg: wire.NewMsgCFilter(q.FilterType, &other, data)})
				}
			}
		}
	}
	return out
}

// afterCP is cfHandler :666-684.
func (e *vfCFEnv) afterCP() {
	if !e.bm.BlockHeadersSynced() {
		e.pc = "top"
		return
	}
	e.bm.newHeadersMtx.RLock()
	e.bm.newFilterHeadersMtx.RLock()
	lag := e.bm.filterHeaderTip+wire.CFCheckptInterval <= e.bm.headerTip
	e.bm.newFilterHeadersMtx.RUnlock()
	e.bm.newHeadersMtx.RUnlock()
	if lag {
		e.pc = "top"
	} else {
		e.pc = "tip"
	}
}

// settle turns the event that ended a step of resolveConflict /
// getUncheckpointedCFHeaders into the step's result.
func (e *vfCFEnv) settle(ev vfCFEvent) (string, error) {
	switch ev.kind {
	case "panic":
		e.pc = "dead"
		return "panic", nil
	case "gate":
		e.gate = ev
		switch ev.gate {
		case "cfh":
			e.pc = e.mode + "_cfh"
			return "q_cfh", nil
		case "flt":
			e.pc = e.mode + "_flt"
			return "q_flt", nil
		case "blk":
			e.pc = e.mode + "_blk"
			return "q_blk", nil
		}
		return "", fmt.Errorf("unexpected gate %s", ev.gate)
	case "ret":
		if e.mode == "r" {
			var good []*chainhash.Hash
			if ev.val[0] != nil {
				good = ev.val[0].([]*chainhash.Hash)
			}
			e.good = good
			if len(good) > 0 {
				e.pc = "cp"
				return "good", nil
			}
			e.pc = "loop"
			e.allCP = nil // :698-705 fetch the lists anew next time
			return "err", nil
		}
		e.pc = "tip"
		if ev.val[0] == nil {
			return "ok", nil
		}
		return "err", nil
	}
	return "", fmt.Errorf("unexpected event %s", ev.kind)
}

func (e *vfCFEnv) btModel() int { return e.w.modelH(e.curTip) }

func (e *vfCFEnv) exec(a vfCFAct) (string, error) {
	bm := e.bm
	fType := wire.GCSFilterRegular
	store := bm.cfg.RegFilterHeaders
	want := func(pcs ...string) error {
		for _, p := range pcs {
			if e.pc == p {
				return nil
			}
		}
		return fmt.Errorf("step %s not possible: handler is at %q", a.Op, e.pc)
	}
	switch a.Op {
	case "Begin":
		if err := want("top"); err != nil {
			return "", err
		}
		// the wait loop :538-559
		bm.newHeadersMtx.RLock()
		bm.newFilterHeadersMtx.RLock()
		lag := bm.filterHeaderTip+wire.CFCheckptInterval <= bm.headerTip
		bm.newFilterHeadersMtx.RUnlock()
		bm.newHeadersMtx.RUnlock()
		if !(lag || bm.BlockHeadersSynced()) {
			return "", fmt.Errorf("cfHandler waits for block headers here")
		}
		hdr, h, err := bm.cfg.BlockHeaders.ChainTip()
		if err != nil {
			return "", err
		}
		e.lastH, e.lastHash = h, hdr.BlockHash()
		e.good = nil
		if e.lastH >= wire.CFCheckptInterval {
			e.pc = "loop"
		} else {
			e.pc = "cp"
		}
		return "ok", nil

	case "LoopRestart":
		// head of the checkpoint loop (:602-615)
		if err := want("loop"); err != nil {
			return "", err
		}
		if bm.isOnBlockHeaderChain(&e.lastHash, e.lastH) {
			return "", fmt.Errorf("cfHandler would not start over here")
		}
		e.allCP = nil
		e.pc = "top"
		return "ok", nil

	case "GcSend":
		if err := want("loop"); err != nil {
			return "", err
		}
		if !bm.isOnBlockHeaderChain(&e.lastHash, e.lastH) {
			return "", fmt.Errorf("cfHandler would start over here")
		}
		if len(e.allCP) > 0 && !bm.isOnBlockHeaderChain(&e.cpTipHsh, e.cpTipH) {
			e.allCP = nil
		}
		if !(minCheckpointHeight(e.allCP) < e.lastH) {
			return "", fmt.Errorf("cfHandler would not fetch checkpoints here")
		}
		lh := e.lastHash
		e.call(false, func() []interface{} { return []interface{}{bm.getCheckpts(&lh, fType)} })
		ev, err := e.waitEvent()
		if err != nil {
			return "", err
		}
		if ev.kind != "gate" || ev.gate != "cp" {
			return "", fmt.Errorf("getCheckpts: unexpected event %s/%s", ev.kind, ev.gate)
		}
		e.gate = ev
		e.pc = "q_cp"
		return "q_cp", nil

	case "GetCheckpts":
		if err := want("q_cp"); err != nil {
			return "", err
		}
		resps := e.responses(a.Rs, e.gate.msg)
		if a.P != 0 {
			// the answer of peer a.P is preceded by a cfcheckpt message of that
			// peer that belongs to an older request (the block below the tip)
			q := e.gate.msg.(*wire.MsgGetCFCheckpt)
			if c, r, ok := e.locate(q.StopHash); ok && r > 0 {
				old := *q
				old.StopHash = c.hash[r-1]
				var with []vfCFResp
				for _, x := range resps {
					if x.peer == a.P {
						with = append(with, vfCFResp{peer: a.P, msg: e.respCheckpts(a.P, &old)})
					}
					with = append(with, x)
				}
				resps = with
			}
		}
		e.rel <- vfCFRel{resps: resps}
		ev, err := e.waitEvent()
		if err != nil {
			return "", err
		}
		if ev.kind != "ret" {
			return "", fmt.Errorf("getCheckpts: unexpected event %s", ev.kind)
		}
		e.allCP = ev.val[0].(map[string][]*chainhash.Hash)
		e.cpTipHsh, e.cpTipH = e.lastHash, e.lastH
		// re-org while the query was waiting for the peers (:648-659)
		if !bm.isOnBlockHeaderChain(&e.lastHash, e.lastH) {
			e.allCP = nil
			e.pc = "top"
			return "restart", nil
		}
		if len(e.allCP) == 0 {
			e.pc = "loop"
			return "none", nil // :616 sleep, continue
		}
		e.pc = "resolve"
		return "ok", nil

	case "RStart":
		if err := want("loop", "resolve"); err != nil {
			return "", err
		}
		if e.pc == "loop" {
			if !bm.isOnBlockHeaderChain(&e.lastHash, e.lastH) {
				return "", fmt.Errorf("cfHandler would start over here")
			}
			if len(e.allCP) > 0 && !bm.isOnBlockHeaderChain(&e.cpTipHsh, e.cpTipH) {
				return "", fmt.Errorf("cfHandler would drop its cached checkpoints here")
			}
			if minCheckpointHeight(e.allCP) < e.lastH {
				return "", fmt.Errorf("cfHandler would fetch checkpoints first")
			}
		}
		// :629-641
		checkpoints := make(map[string][]*chainhash.Hash)
		for p, cps := range e.allCP {
			for i, cp := range cps {
				height := uint32(i+1) * wire.CFCheckptInterval
				if height > e.lastH {
					break
				}
				checkpoints[p] = append(checkpoints[p], cp)
			}
		}
		e.mode = "r"
		e.call(false, func() []interface{} {
			g, err := bm.resolveConflict(checkpoints, store, fType)
			return []interface{}{g, err}
		})
		ev, err := e.waitEvent()
		if err != nil {
			return "", err
		}
		return e.settle(ev)

	case "RCfh", "UCfh", "RFlt", "UFlt":
		if err := want(strings.ToLower(a.Op[:1]) + "_" + strings.ToLower(a.Op[1:])); err != nil {
			return "", err
		}
		e.rel <- vfCFRel{resps: e.responses(a.Rs, e.gate.msg)}
		ev, err := e.waitEvent()
		if err != nil {
			return "", err
		}
		return e.settle(ev)

	case "RBlk", "UBlk":
		if err := want(strings.ToLower(a.Op[:1]) + "_blk"); err != nil {
			return "", err
		}
		rel := vfCFRel{err: errors.New("verif: block not served")}
		if a.N == 1 {
			c, r, ok := e.locate(e.gate.hash)
			if ok && c.blk[r] != nil {
				rel = vfCFRel{block: btcutil.NewBlock(c.blk[r])}
			}
		}
		e.rel <- rel
		ev, err := e.waitEvent()
		if err != nil {
			return "", err
		}
		return e.settle(ev)

	case "UStart":
		if err := want("tip"); err != nil {
			return "", err
		}
		bm.newHeadersMtx.RLock()
		bm.newFilterHeadersMtx.RLock()
		same := bm.filterHeaderTipHash == bm.headerTipHash
		bm.newFilterHeadersMtx.RUnlock()
		bm.newHeadersMtx.RUnlock()
		if same {
			return "", fmt.Errorf("cfHandler waits at the tip here")
		}
		e.mode = "u"
		e.call(false, func() []interface{} {
			err := bm.getUncheckpointedCFHeaders(store, fType)
			if err != nil {
				return []interface{}{err}
			}
			return []interface{}{nil}
		})
		ev, err := e.waitEvent()
		if err != nil {
			return "", err
		}
		return e.settle(ev)

	case "CPStart":
		if err := want("cp"); err != nil {
			return "", err
		}
		// :692-703 the checkpoints are only good for the chain they
		// were fetched for
		if len(e.good) > 0 && !bm.isOnBlockHeaderChain(&e.lastHash, e.lastH) {
			e.allCP = nil
			e.good = nil
			e.pc = "top"
			return "restart", nil
		}
		good := e.good
		e.reqs = nil
		e.call(true, func() []interface{} {
			bm.getCheckpointedCFHeaders(good, store, fType)
			return nil
		})
		ev, err := e.waitParked()
		if err != nil {
			return "", err
		}
		switch ev.kind {
		case "panic":
			e.pc = "dead"
			return "panic", nil
		case "ret":
			e.afterCP()
			return "ret", nil
		}
		e.pc = "cp_wait"
		return "wait", nil

	case "CPDeliver":
		if err := want("cp_wait"); err != nil {
			return "", err
		}
		var req *query.Request
		for _, r := range e.reqs {
			q := r.Req.(*wire.MsgGetCFHeaders)
			if int(q.StartHeight) == a.J*1000+1 {
				req = r
			}
		}
		if req == nil {
			return "", fmt.Errorf("no request for interval %d", a.J)
		}
		resp := e.respCFHeaders(a.P, req.Req.(*wire.MsgGetCFHeaders), false)
		if resp == nil {
			return "", fmt.Errorf("peer %d has no answer for interval %d", a.P, a.J)
		}
		prog := req.HandleResp(req.Req, resp, e.peerAddr(a.P))
		if !prog.Finished {
			return "rej", nil
		}
		e.fin[req.Req.(*wire.MsgGetCFHeaders).StartHeight] = true
		ev, err := e.waitParked()
		if err != nil {
			return "", err
		}
		switch ev.kind {
		case "panic":
			e.pc = "dead"
			return "panic", nil
		case "ret":
			e.afterCP()
			_, ft, err := store.ChainTip()
			if err == nil && int(ft) >= len(e.good)*1000 {
				return "done", nil
			}
			return "ret", nil
		}
		return "acc", nil

	case "CPEnd":
		if err := want("cp_wait"); err != nil {
			return "", err
		}
		e.errChan <- errors.New("verif: batch timed out")
		ev, err := e.waitEvent()
		if err != nil {
			return "", err
		}
		if ev.kind == "panic" {
			e.pc = "dead"
			return "panic", nil
		}
		e.afterCP()
		return "ret", nil

	case "Rollback":
		if e.pc == "dead" {
			return "", fmt.Errorf("process is dead")
		}
		to := e.w.R(a.N)
		if err := bm.rollBackToHeight(uint32(to)); err != nil {
			return "err", nil
		}
		e.curTip = to
		e.nre++
		return "ok", nil

	case "Extend":
		if e.pc == "dead" {
			return "", fmt.Errorf("process is dead")
		}
		bt := e.btModel()
		if bt < 0 {
			return "", fmt.Errorf("block tip %d is not a model height", e.curTip)
		}
		to := e.w.R(bt + a.N)
		if e.nre == 0 {
			// no rollback so far: the main chain's own blocks follow
			if to > e.w.main.tip() {
				return "", fmt.Errorf("main chain too short")
			}
		} else {
			if e.cur.br != e.nre {
				// first batch after a rollback: a new branch
				nc := e.cur.fork(e.curTip)
				nc.br = e.nre
				e.cur = nc
				e.chains = append(e.chains, nc)
			}
			from := e.cur.tip() + 1
			e.w.extend(e.cur, e.nre, to)
			for r := from; r <= to; r++ {
				e.loc[e.cur.hash[r]] = vfCFLoc{c: e.cur, r: r}
			}
		}
		batch := make([]headerfs.BlockHeader, 0, to-e.curTip)
		for r := e.curTip + 1; r <= to; r++ {
			batch = append(batch, headerfs.BlockHeader{BlockHeader: e.cur.hdr[r], Height: uint32(r)})
		}
		if err := bm.cfg.BlockHeaders.WriteHeaders(batch...); err != nil {
			return "err", nil
		}
		e.curTip = to
		// handleHeadersMsg :2799 tip publication
		bm.newHeadersMtx.Lock()
		bm.headerTip = uint32(to)
		bm.headerTipHash = e.cur.hash[to]
		bm.newHeadersMtx.Unlock()
		bm.newHeadersSignal.Broadcast()
		return "ok", nil
	}
	return "", fmt.Errorf("unknown op %s", a.Op)
}

// modelCeil returns the smallest model height whose segment reaches real
// height r.
func (w *vfCFWorld) modelCeil(r int) int {
	h := 0
	for w.R(h) < r {
		h++
	}
	return h
}

// lieFloor returns the highest model height whose lie position is at or below
// real height r (the last model height a request ending at r covers).
func (w *vfCFWorld) lieFloor(r int) int {
	h := 0
	for k := 1; k < len(w.liePos); k++ {
		if w.liePos[k] <= r {
			h = k
		}
	}
	return h
}

// mustAnswer lists the unbanned peers that always answer this kind of query.
func (e *vfCFEnv) mustAnswer(q string) []int {
	rs := []int{}
	e.banMu.Lock()
	defer e.banMu.Unlock()
	for p := 1; p <= e.np; p++ {
		if e.banned[p-1] == 1 || e.kind(p) == "T" || (q == "cfh" && e.kind(p) == "CX") {
			continue
		}
		rs = append(rs, p)
	}
	return rs
}

// autoRun is used after the code left the model's prediction: the remaining
// steps of the path no longer apply, so the driver lets the handler run on by
// itself for a few steps (cfHandler's own order of calls; every peer that
// always answers does, blocks are served, batched requests are answered by
// the unbanned peers, liars first) so that what the code does next is still
// observed and judged.
func (e *vfCFEnv) autoRun(out *vfCFPathOut) {
	for n := 0; n < 14; n++ {
		var cands []vfCFAct
		mk := func(op string) vfCFAct { return vfCFAct{Op: op, Rs: []int{}} }
		switch e.pc {
		case "top":
			cands = []vfCFAct{mk("Begin")}
		case "loop":
			g, r := mk("GcSend"), mk("RStart")
			g.Hi = e.w.modelCeil(int(e.lastH))
			r.Hi = g.Hi
			cands = []vfCFAct{mk("LoopRestart"), g, r}
		case "resolve":
			r := mk("RStart")
			r.Hi = e.w.modelCeil(int(e.lastH))
			cands = []vfCFAct{r}
		case "q_cp":
			a := mk("GetCheckpts")
			a.Rs, a.Hi = e.mustAnswer("cp"), e.w.modelCeil(int(e.lastH))
			cands = []vfCFAct{a}
		case "r_cfh", "u_cfh":
			a := mk(strings.ToUpper(e.pc[:1]) + "Cfh")
			a.Rs = e.mustAnswer("cfh")
			if q, ok := e.gate.msg.(*wire.MsgGetCFHeaders); ok {
				a.Lo = e.w.modelCeil(int(q.StartHeight))
				a.Hi = a.Lo
				if _, r, ok := e.locate(q.StopHash); ok {
					a.Hi = e.w.lieFloor(r)
				}
			}
			cands = []vfCFAct{a}
		case "r_flt", "u_flt":
			a := mk(strings.ToUpper(e.pc[:1]) + "Flt")
			a.Rs = e.mustAnswer("flt")
			if q, ok := e.gate.msg.(*wire.MsgGetCFilters); ok {
				a.N = e.w.modelCeil(int(q.StartHeight)) // the disputed height, as in the model's label
			}
			cands = []vfCFAct{a}
		case "r_blk", "u_blk":
			a := mk(strings.ToUpper(e.pc[:1]) + "Blk")
			a.N = 1
			cands = []vfCFAct{a}
		case "cp":
			cands = []vfCFAct{mk("CPStart")}
		case "cp_wait":
			var req *wire.MsgGetCFHeaders
			for _, r := range e.reqs {
				q := r.Req.(*wire.MsgGetCFHeaders)
				if !e.fin[q.StartHeight] && (req == nil || q.StartHeight < req.StartHeight) {
					req = q
				}
			}
			peers := e.mustAnswer("cfh")
			pick := 0
			for _, p := range peers {
				if e.kind(p) != "H" {
					pick = p
					break
				}
			}
			if pick == 0 && len(peers) > 0 {
				pick = peers[0]
			}
			if req == nil || pick == 0 {
				cands = []vfCFAct{mk("CPEnd")}
				break
			}
			a := mk("CPDeliver")
			a.J, a.P = int(req.StartHeight-1)/1000, pick
			a.Lo = e.w.modelCeil(int(req.StartHeight))
			a.Hi = a.Lo
			if _, r, ok := e.locate(req.StopHash); ok {
				a.Hi = e.w.modelCeil(r)
			}
			cands = []vfCFAct{a}
		case "tip":
			cands = []vfCFAct{mk("UStart")}
		default:
			return
		}
		done := false
		for _, a := range cands {
			res, err := e.exec(a)
			if err != nil {
				continue
			}
			a.Res = res
			out.Steps = append(out.Steps, vfCFStepOut{Act: a, Obs: e.observe(),
				Note: "handler left to run on after the deviation"})
			done = true
			break
		}
		if !done {
			return
		}
	}
}

func (e *vfCFEnv) shutdown() {
	close(e.done)
	if e.bm != nil {
		close(e.bm.quit)
	}
	ch := make(chan struct{})
	go func() { e.hwg.Wait(); close(ch) }()
	select {
	case <-ch:
	case <-time.After(30 * time.Second):
	}
	if e.db != nil {
		e.db.Close()
	}
	if e.dir != "" {
		os.RemoveAll(e.dir)
	}
}

func vfCFRunOnce(w *vfCFWorld, p vfCFPathIn) (out vfCFPathOut) {
	out.ID = p.ID
	defer func() {
		if r := recover(); r != nil {
			buf := make([]byte, 8192)
			buf = buf[:runtime.Stack(buf, false)]
			out.Error = fmt.Sprintf("driver panic: %v\n%s", r, buf)
		}
	}()
	io0 := p.InitObs
	bt, ft := len(io0.B)-1, len(io0.F)-1
	tmpl, err := w.template(bt, ft, io0.Hard)
	if err != nil {
		out.Error = "template: " + err.Error()
		return
	}
	dir, err := os.MkdirTemp(w.scratch, "p")
	if err != nil {
		out.Error = err.Error()
		return
	}
	e := &vfCFEnv{w: w, dir: dir, asg: io0.Asg, hard: io0.Hard, np: len(io0.Asg),
		addrIx: map[string]int{}, loc: map[chainhash.Hash]vfCFLoc{},
		fake: map[string]chainhash.Hash{}, lin: map[string][]chainhash.Hash{},
		ev: make(chan vfCFEvent, 8), rel: make(chan vfCFRel), done: make(chan struct{}),
		stackBf: make([]byte, 1<<18), pc: "top", cur: w.main, curTip: w.R(bt),
		chains: []*vfCFChain{w.main}}
	defer e.shutdown()
	for _, fn := range vfCFStoreFiles {
		if err := vfCFCopy(filepath.Join(tmpl, fn), filepath.Join(dir, fn)); err != nil {
			out.Error = err.Error()
			return
		}
	}
	e.banned = make([]int, e.np)
	for i := 1; i <= e.np; i++ {
		pp, err := peer.NewOutboundPeer(&peer.Config{}, e.peerAddr(i))
		if err != nil {
			out.Error = err.Error()
			return
		}
		e.sps = append(e.sps, &ServerPeer{Peer: pp})
		e.addrIx[e.peerAddr(i)] = i
	}
	db, err := walletdb.Open("bdb", filepath.Join(dir, "neutrino.db"), true, 10*time.Second, false)
	if err != nil {
		out.Error = "db open: " + err.Error()
		return
	}
	e.db = db
	params := w.params[io0.Hard]
	bstore, err := headerfs.NewBlockHeaderStore(dir, db, params)
	if err != nil {
		out.Error = "block store: " + err.Error()
		return
	}
	fstore, err := headerfs.NewFilterHeaderStore(dir, db, headerfs.RegularFilter, params, nil)
	if err != nil {
		out.Error = "filter store: " + err.Error()
		return
	}
	bm, err := newBlockManager(&blockManagerCfg{
		ChainParams:      *params,
		BlockHeaders:     bstore,
		RegFilterHeaders: fstore,
		QueryDispatcher:  &vfCFDisp{e: e},
		TimeSource:       blockchain.NewMedianTime(),
		BanPeer:          e.banPeer,
		GetBlock:         e.getBlock,
		queryAllPeers:    e.queryAllPeers,
	})
	if err != nil {
		out.Error = "newBlockManager: " + err.Error()
		return
	}
	e.bm = bm
	// block notifications are sent on an unbuffered channel
	go func() {
		for {
			select {
			case <-bm.blockNtfnChan:
			case <-bm.quit:
				return
			}
		}
	}()

	out.InitObs = e.observe()
	if !vfCFObsEq(&out.InitObs, &p.InitObs) {
		out.Stopped = "initial observables differ from the model"
		return
	}
	for i, s := range p.Steps {
		res, err := e.exec(s.Act)
		a := s.Act
		if a.Rs == nil {
			a.Rs = []int{}
		}
		if err != nil {
			if errors.Is(err, errVfCFHang) {
				out.Error = fmt.Sprintf("step %d %s: %v", i+1, s.Act.Op, err)
				return
			}
			// the real handler would not take this step here: the code
			// left the model's prediction before (or the model is wrong)
			out.Stopped = fmt.Sprintf("step %d: %v", i+1, err)
			return
		}
		a.Res = res
		o := e.observe()
		out.Steps = append(out.Steps, vfCFStepOut{Act: a, Obs: o})
		if !vfCFActEq(&a, &s.Act) || !vfCFObsEq(&o, &s.Obs) {
			// deviation from the model's prediction: the remaining steps
			// of this path presuppose the predicted state, stop here
			out.Stopped = fmt.Sprintf("step %d deviates from the model", i+1)
			e.autoRun(&out)
			return
		}
	}
	return
}

// vfCFRunPath replays one path.  Which of several surviving cfheaders
// messages getUncheckpointedCFHeaders writes depends on Go's map iteration
// order; the model has one edge per choice (act.p), so a path containing such
// a choice is re-run until the code took the choice of the path.
func vfCFRunPath(w *vfCFWorld, p vfCFPathIn) vfCFPathOut {
	choice := false
	for _, s := range p.Steps {
		if s.Act.P != 0 && (strings.HasPrefix(s.Act.Op, "U") || strings.HasPrefix(s.Act.Op, "R")) {
			choice = true
		}
	}
	tries := 1
	if choice {
		tries = 40
	}
	var out vfCFPathOut
	for t := 1; t <= tries; t++ {
		out = vfCFRunOnce(w, p)
		out.Tries = t
		if out.Error != "" || out.Stopped == "" {
			break
		}
	}
	return out
}

func TestVerifCFSyncReplay(t *testing.T) {
	in, outFn := os.Getenv("VERIF_PATHS"), os.Getenv("VERIF_OUT")
	if in == "" || outFn == "" {
		t.Skip("VERIF_PATHS / VERIF_OUT not set")
	}
	scratch := os.Getenv("VERIF_SCRATCH")
	if scratch == "" {
		scratch = t.TempDir()
	}
	seed, _ := strconv.ParseInt(os.Getenv("VERIF_SEED"), 10, 64)
	f, err := os.Open(in)
	if err != nil {
		t.Fatal(err)
	}
	defer f.Close()
	var paths []vfCFPathIn
	sc := bufio.NewScanner(f)
	sc.Buffer(make([]byte, 1<<20), 1<<28)
	maxH := 2
	for sc.Scan() {
		var p vfCFPathIn
		if err := json.Unmarshal(sc.Bytes(), &p); err != nil {
			t.Fatal(err)
		}
		if n := len(p.InitObs.B) - 1; n > maxH {
			maxH = n
		}
		for _, s := range p.Steps {
			if n := len(s.Obs.B) - 1; n > maxH {
				maxH = n
			}
		}
		paths = append(paths, p)
	}
	if v, err := strconv.Atoi(os.Getenv("VERIF_CFS_MAXH")); err == nil && v > maxH {
		maxH = v
	}
	w, err := vfCFNewWorld(seed, maxH, scratch)
	if err != nil {
		t.Fatal(err)
	}
	results := make([]vfCFPathOut, len(paths))
	var wg sync.WaitGroup
	jobs := make(chan int)
	for k := 0; k < runtime.NumCPU(); k++ {
		wg.Add(1)
		go func() {
			defer wg.Done()
			for i := range jobs {
				results[i] = vfCFRunPath(w, paths[i])
			}
		}()
	}
	for i := range paths {
		jobs <- i
	}
	close(jobs)
	wg.Wait()
	of, err := os.Create(outFn)
	if err != nil {
		t.Fatal(err)
	}
	bw := bufio.NewWriter(of)
	enc := json.NewEncoder(bw)
	for i := range results {
		if err := enc.Encode(&results[i]); err != nil {
			t.Fatal(err)
		}
	}
	bw.Flush()
	of.Close()
}
