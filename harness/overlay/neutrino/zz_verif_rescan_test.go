package neutrino

// Replay / trace driver for the Rescan family (C09).  Injected into package
// neutrino at build time with `go test -overlay`; nothing is copied into
// /repo.  It runs the REAL rescan (NewRescan(...).Start()) against
//
//   - a gate-implementing ChainSource: every ChainSource call of the rescan
//     goroutine blocks until the path releases it, so that chain growth,
//     reorganisations, fetch failures and updates can be placed exactly
//     between two calls;
//   - a REAL blockntfns.SubscriptionManager behind Subscribe, fed by the
//     driver's chain (NotificationSource with the block manager's backlog
//     semantics); the subscription handed to the rescan is the manager's,
//     with a pacing stage between the manager's channel and the rescan so
//     that "the rescan receives the next notification" is a step of the path;
//   - real headers, transactions, blocks and GCS filters (btcd builder), so
//     filter matching, filter verification and transaction matching run for
//     real.
//
// Observation = the callbacks (OnFilteredBlockConnected/Disconnected and the
// legacy OnBlockConnected/Disconnected) delivered during each step, plus the
// ChainSource call the goroutine is parked in.  Quiescence in a select is
// detected without sleeping: a notification of a type the rescan ignores is
// offered on the (unbuffered) notification channel; it can only be received
// by a goroutine sitting in the select.
//
// The 100 ms retry timer is real.  If it fires before the path asked for it
// the driver records what happened (step with note "timer-race") and ends
// the path; the observed history is judged all the same.

import (
	"bufio"
	"crypto/sha256"
	"encoding/json"
	"errors"
	"fmt"
	"os"
	"runtime"
	"sync"
	"testing"
	"time"

	"github.com/btcsuite/btcd/address/v2"
	"github.com/btcsuite/btcd/btcutil/v2"
	"github.com/btcsuite/btcd/btcutil/v2/gcs"
	"github.com/btcsuite/btcd/btcutil/v2/gcs/builder"
	"github.com/btcsuite/btcd/chaincfg/v2"
	"github.com/btcsuite/btcd/chainhash/v2"
	"github.com/btcsuite/btcd/rpcclient"
	"github.com/btcsuite/btcd/txscript/v2"
	"github.com/btcsuite/btcd/wire/v2"
	"github.com/lightninglabs/neutrino/blockntfns"
	"github.com/lightninglabs/neutrino/headerfs"
)

// ---------------------------------------------------------------------------
// universe (abstract) and world (concrete)

type vrUpdate struct {
	Add []int `json:"add"`
	Rw  int   `json:"rw"`
}

type vrUniverse struct {
	NB        int        `json:"NB"`
	Parent    []int      `json:"Parent"`
	Height    []int      `json:"Height"`
	NT        int        `json:"NT"`
	TxOuts    [][]int    `json:"TxOuts"`
	TxIns     [][]int    `json:"TxIns"`
	ExtScript []int      `json:"ExtScript"`
	BlockTxs  [][]int    `json:"BlockTxs"`
	StartB    int        `json:"StartB"`
	StartT    int        `json:"StartT"`
	InitWatch []int      `json:"InitWatch"`
	InitChain []int      `json:"InitChain"`
	InitFH    int        `json:"InitFH"`
	Lag       bool       `json:"Lag"`
	Split     bool       `json:"Split"`
	Updates   []vrUpdate `json:"Updates"`
}

type vrWorld struct {
	u       *vrUniverse
	params  chaincfg.Params
	txs     []*wire.MsgTx // index t (0 unused)
	txID    map[chainhash.Hash]int
	hdr     []*wire.BlockHeader
	hash    []chainhash.Hash
	blkID   map[chainhash.Hash]int
	blocks  []*btcutil.Block
	filters []*gcs.Filter
	start   time.Time
}

func vrHash(s string) chainhash.Hash { return chainhash.Hash(sha256.Sum256([]byte(s))) }

func (w *vrWorld) addr(key string) address.Address {
	h := sha256.Sum256([]byte(key))
	a, err := address.NewAddressWitnessPubKeyHash(h[:20], &w.params)
	if err != nil {
		panic(err)
	}
	return a
}

func (w *vrWorld) script(key string) []byte {
	s, err := txscript.PayToAddrScript(w.addr(key))
	if err != nil {
		panic(err)
	}
	return s
}

func (w *vrWorld) watchAddr(a int) address.Address { return w.addr(fmt.Sprintf("addr-%d", a)) }

// Outpoint ids: 10*t+j = output j of transaction t; 1..9 = external outpoints.
// script id (address id) of outpoint o; 0 = a script nobody watches
func (w *vrWorld) outScriptID(o int) int {
	u := w.u
	if o >= 10 {
		t, j := o/10, o%10
		if t <= u.NT && j < len(u.TxOuts[t-1]) {
			return u.TxOuts[t-1][j]
		}
		return 0
	}
	if o >= 1 && o <= len(u.ExtScript) {
		return u.ExtScript[o-1]
	}
	return 0
}

func (w *vrWorld) outPoint(o int) wire.OutPoint {
	if o >= 10 && o/10 <= w.u.NT {
		return wire.OutPoint{Hash: w.txs[o/10].TxHash(), Index: uint32(o % 10)}
	}
	return wire.OutPoint{Hash: vrHash(fmt.Sprintf("ext-%d", o)), Index: 0}
}

func (w *vrWorld) outPkScript(o int) []byte {
	if id := w.outScriptID(o); id != 0 {
		return w.script(fmt.Sprintf("addr-%d", id))
	}
	return w.script(fmt.Sprintf("nobody-out-%d", o))
}

func vrBuildWorld(u *vrUniverse) (*vrWorld, error) {
	w := &vrWorld{u: u, params: chaincfg.SimNetParams, txID: map[chainhash.Hash]int{},
		blkID: map[chainhash.Hash]int{}}
	w.txs = make([]*wire.MsgTx, u.NT+1)
	prevScripts := make([][][]byte, u.NT+1)
	for t := 1; t <= u.NT; t++ {
		tx := wire.NewMsgTx(2)
		for k, sp := range u.TxIns[t-1] {
			if sp != 0 {
				if sp >= 10 && sp/10 >= t {
					return nil, fmt.Errorf("tx %d spends an output of tx %d", t, sp/10)
				}
				op := w.outPoint(sp)
				tx.AddTxIn(wire.NewTxIn(&op, nil, nil))
				prevScripts[t] = append(prevScripts[t], w.outPkScript(sp))
			} else {
				op := wire.OutPoint{Hash: vrHash(fmt.Sprintf("nobody-in-%d-%d", t, k)), Index: 1}
				tx.AddTxIn(wire.NewTxIn(&op, nil, nil))
				prevScripts[t] = append(prevScripts[t], w.script(fmt.Sprintf("nobody-prev-%d-%d", t, k)))
			}
		}
		for k, a := range u.TxOuts[t-1] {
			if a != 0 {
				tx.AddTxOut(wire.NewTxOut(1000, w.script(fmt.Sprintf("addr-%d", a))))
			} else {
				tx.AddTxOut(wire.NewTxOut(1000, w.script(fmt.Sprintf("nobody-pay-%d-%d", t, k))))
			}
		}
		w.txs[t] = tx
		w.txID[tx.TxHash()] = t
	}
	gen := w.params.GenesisBlock
	w.hdr = make([]*wire.BlockHeader, u.NB)
	w.hash = make([]chainhash.Hash, u.NB)
	w.blocks = make([]*btcutil.Block, u.NB)
	w.filters = make([]*gcs.Filter, u.NB)
	for b := 0; b < u.NB; b++ {
		var mb *wire.MsgBlock
		var prevs [][]byte
		if b == 0 {
			if len(u.BlockTxs[0]) != 0 {
				return nil, errors.New("block 0 is the genesis block and has no listed transactions")
			}
			mb = gen
		} else {
			p := u.Parent[b]
			if p < 0 || p >= b {
				return nil, fmt.Errorf("parent of block %d must have a smaller id", b)
			}
			cb := wire.NewMsgTx(1)
			cb.AddTxIn(wire.NewTxIn(&wire.OutPoint{Index: 0xffffffff}, []byte{0x51, byte(b)}, nil))
			cb.AddTxOut(wire.NewTxOut(5000, w.script(fmt.Sprintf("coinbase-%d", b))))
			hdr := wire.BlockHeader{
				Version:   1,
				PrevBlock: w.hash[p],
				Timestamp: gen.Header.Timestamp.Add(time.Duration(u.Height[b]) * 10 * time.Minute),
				Bits:      gen.Header.Bits,
				Nonce:     uint32(b),
			}
			mb = wire.NewMsgBlock(&hdr)
			_ = mb.AddTransaction(cb)
			mr := fmt.Sprintf("mr-%d", b)
			// Every block also carries a transaction nobody watches with
			// one input of every input class (see vrInputClasses): in
			// front of the universe's transactions in odd blocks, behind
			// them in even ones.
			xtx, xprevs := w.classTx(b)
			if b%2 == 1 {
				_ = mb.AddTransaction(xtx)
				prevs = append(prevs, xprevs...)
				mr += "-" + xtx.TxHash().String()
			}
			for _, t := range u.BlockTxs[b] {
				_ = mb.AddTransaction(w.txs[t])
				prevs = append(prevs, prevScripts[t]...)
				mr += "-" + w.txs[t].TxHash().String()
			}
			if b%2 == 0 {
				_ = mb.AddTransaction(xtx)
				prevs = append(prevs, xprevs...)
				mr += "-" + xtx.TxHash().String()
			}
			mb.Header.MerkleRoot = vrHash(mr)
		}
		h := mb.Header
		w.hdr[b] = &h
		w.hash[b] = mb.BlockHash()
		w.blkID[w.hash[b]] = b
		w.blocks[b] = btcutil.NewBlock(mb)
		f, err := builder.BuildBasicFilter(mb, prevs)
		if err != nil {
			return nil, err
		}
		w.filters[b] = f
	}
	// strictly between the timestamps of heights StartT-1 and StartT
	w.start = gen.Header.Timestamp.Add(time.Duration(u.StartT)*10*time.Minute - 5*time.Minute)
	return w, nil
}

// ---- input classes ----------------------------------------------------------
//
// rescan.go extractBlockMatches runs VerifyBasicBlockFilter on every block it
// fetches.  Besides the output scripts that function derives, for every input
// with a witness, the script of the spent output (txscript.ComputePkScript:
// signature script => P2SH of its last push; 2-item witness with a 33-byte
// last item => P2WPKH; EVERY other witness => P2WSH of the last item) and
// looks it up in the filter.  That is the spent script only for nested /
// P2WPKH / P2WSH spends; for taproot and other shapes it is a script that was
// never in a block.  The world creates the spent outputs itself, so it knows
// their scripts; the filter the chain source serves is the TRUE BIP158 filter
// built from them.  (Same classes as the CFSync family's vfCFInputClasses.)

type vrIn struct {
	class   string
	sig     []byte
	witness wire.TxWitness
	prev    []byte // script of the spent output
}

func vrBytes(n int, tag string, id int) []byte {
	out := make([]byte, 0, n+32)
	for i := 0; len(out) < n; i++ {
		h := sha256.Sum256([]byte(fmt.Sprintf("vr-%s-%d-%d", tag, id, i)))
		out = append(out, h[:]...)
	}
	return out[:n]
}

func vrPush(d []byte) []byte {
	if len(d) <= 75 {
		return append([]byte{byte(len(d))}, d...)
	}
	return append([]byte{0x4c, byte(len(d))}, d...)
}

func vrCat(parts ...[]byte) []byte {
	var out []byte
	for _, p := range parts {
		out = append(out, p...)
	}
	return out
}

func vrSha(d []byte) []byte { h := sha256.Sum256(d); return h[:] }

func vrP2SH(redeem []byte) []byte {
	return vrCat([]byte{0xa9, 0x14}, address.Hash160(redeem), []byte{0x87})
}

// vrInputClasses returns one input of every class, derived from id.
func vrInputClasses(id int) []vrIn {
	pub := func(t string) []byte { return append([]byte{0x02}, vrBytes(32, "pub"+t, id)...) }
	sig := func(t string) []byte { // DER-shaped signature + SIGHASH_ALL, 71 bytes
		return vrCat([]byte{0x30, 0x44, 0x02, 0x20}, vrBytes(32, "r"+t, id),
			[]byte{0x02, 0x20}, vrBytes(32, "s"+t, id), []byte{0x01})
	}
	tr := func(t string) []byte { return append([]byte{0x51, 0x20}, vrBytes(32, "tr"+t, id)...) }
	ctrl := func(t string, depth int) []byte {
		return vrCat([]byte{0xc0}, vrBytes(32, "ik"+t, id), vrBytes(32*depth, "path"+t, id))
	}
	annex := append([]byte{0x50}, vrBytes(9, "annex", id)...)
	multisig := func(t string) []byte { return vrCat([]byte{0x51, 0x21}, pub(t), []byte{0x51, 0xae}) }
	leaf := func(t string) []byte { return vrCat([]byte{0x20}, vrBytes(32, "xonly"+t, id), []byte{0xac}) }
	// a 33-byte witness script: OP_DROP <31 bytes>
	ws33 := vrCat([]byte{0x75, 0x1f}, vrBytes(31, "ws33", id))

	wpkh := vrCat([]byte{0x00, 0x14}, address.Hash160(pub("d")))
	wsE, wsG := multisig("e"), multisig("g")
	wshE := vrCat([]byte{0x00, 0x20}, vrSha(wsE))
	return []vrIn{
		{class: "p2pk", sig: vrPush(sig("a")), prev: vrCat(vrPush(pub("a")), []byte{0xac})},
		{class: "p2pkh", sig: vrCat(vrPush(sig("b")), vrPush(pub("b"))),
			prev: vrCat([]byte{0x76, 0xa9, 0x14}, address.Hash160(pub("b")), []byte{0x88, 0xac})},
		{class: "p2sh", sig: vrCat([]byte{0x00}, vrPush(sig("c")), vrPush(multisig("c"))),
			prev: vrP2SH(multisig("c"))},
		{class: "np2wpkh", sig: vrPush(wpkh), witness: wire.TxWitness{sig("d"), pub("d")},
			prev: vrP2SH(wpkh)},
		{class: "np2wsh", sig: vrPush(wshE), witness: wire.TxWitness{nil, sig("e"), wsE},
			prev: vrP2SH(wshE)},
		{class: "p2wpkh", witness: wire.TxWitness{sig("f"), pub("f")},
			prev: vrCat([]byte{0x00, 0x14}, address.Hash160(pub("f")))},
		{class: "p2wsh", witness: wire.TxWitness{nil, sig("g"), wsG},
			prev: vrCat([]byte{0x00, 0x20}, vrSha(wsG))},
		// a P2WSH spend whose witness has two items, the last 33 bytes long
		{class: "p2wsh33", witness: wire.TxWitness{sig("h"), ws33},
			prev: vrCat([]byte{0x00, 0x20}, vrSha(ws33))},
		// taproot key path: one signature of 64 bytes / 65 bytes (explicit
		// sighash type) / followed by an annex
		{class: "p2tr-key64", witness: wire.TxWitness{vrBytes(64, "schnorr-i", id)}, prev: tr("i")},
		{class: "p2tr-key65", witness: wire.TxWitness{append(vrBytes(64, "schnorr-j", id), 0x83)}, prev: tr("j")},
		{class: "p2tr-key-annex", witness: wire.TxWitness{vrBytes(64, "schnorr-k", id), annex}, prev: tr("k")},
		// taproot script path: ... script, control block [, annex]
		{class: "p2tr-script", witness: wire.TxWitness{vrBytes(64, "schnorr-l", id), leaf("l"), ctrl("l", 1)}, prev: tr("l")},
		{class: "p2tr-script-depth0", witness: wire.TxWitness{[]byte{0x51}, ctrl("m", 0)}, prev: tr("m")},
		{class: "p2tr-script-annex", witness: wire.TxWitness{vrBytes(64, "schnorr-n", id), leaf("n"), ctrl("n", 2), annex}, prev: tr("n")},
		// neither a signature script nor a witness (anyone-can-spend output)
		{class: "bare-empty", prev: []byte{0x51}},
		// an output of a witness version that has no rules yet
		{class: "witness-v2", witness: wire.TxWitness{vrBytes(40, "v2", id)},
			prev: append([]byte{0x52, 0x20}, vrBytes(32, "v2prog", id)...)},
		// bare multisig, and a non-standard pair whose signature script is not push-only
		{class: "bare-multisig", sig: vrCat([]byte{0x00}, vrPush(sig("s"))), prev: multisig("s")},
		{class: "nonstd", sig: []byte{0x51, 0x76}, prev: []byte{0x87, byte(id)}},
	}
}

// classTx is the transaction of block b that nobody watches: one input of
// every input class (outpoints that exist in no block of the universe, so no
// watched outpoint), outputs P2TR / P2WSH / P2PKH / OP_RETURN to scripts no
// address id maps to.  Returned with it: the scripts it spends, in input
// order.  It is not in w.txID - were it ever delivered the driver reports it
// as transaction -2.
func (w *vrWorld) classTx(b int) (*wire.MsgTx, [][]byte) {
	tx := wire.NewMsgTx(2)
	var prevs [][]byte
	for n, in := range vrInputClasses(b) {
		h := vrHash(fmt.Sprintf("class-in-%d-%d", b, n))
		tx.AddTxIn(&wire.TxIn{
			PreviousOutPoint: *wire.NewOutPoint(&h, uint32(n%3)),
			SignatureScript:  in.sig,
			Witness:          in.witness,
			Sequence:         wire.MaxTxInSequenceNum,
		})
		prevs = append(prevs, in.prev)
	}
	tx.AddTxOut(wire.NewTxOut(1000, append([]byte{0x51, 0x20}, vrBytes(32, "out-tr", b)...)))
	tx.AddTxOut(wire.NewTxOut(1000, append([]byte{0x00, 0x20}, vrBytes(32, "out-wsh", b)...)))
	tx.AddTxOut(wire.NewTxOut(1000, vrCat([]byte{0x76, 0xa9, 0x14}, vrBytes(20, "out-pkh", b), []byte{0x88, 0xac})))
	tx.AddTxOut(wire.NewTxOut(0, vrCat([]byte{0x6a}, vrPush(vrBytes(20, "out-ret", b)))))
	return tx, prevs
}

func (w *vrWorld) idOf(h chainhash.Hash) int {
	if id, ok := w.blkID[h]; ok {
		return id
	}
	return -2
}

// ---------------------------------------------------------------------------
// JSON shapes

type vrAct struct {
	Op  string `json:"op"`
	Res string `json:"res"`
	B   int    `json:"b"`
	Add []int  `json:"add"`
	Rw  int    `json:"rw"`
}

type vrEv struct {
	K   int   `json:"k"`
	S   int   `json:"s"`
	B   int   `json:"b"`
	H   int   `json:"h"`
	Txs []int `json:"txs"`
}

type vrObs struct {
	Ev  []vrEv `json:"ev"`
	St  int    `json:"st"`
	Upd int    `json:"upd"`
	At  string `json:"at"`
	Arg int    `json:"arg"`
}

type vrStepIn struct {
	Act vrAct `json:"act"`
	Obs vrObs `json:"obs"`
}

type vrPathIn struct {
	ID    int        `json:"id"`
	Steps []vrStepIn `json:"steps"`
}

type vrStepOut struct {
	Act  vrAct  `json:"act"`
	Obs  vrObs  `json:"obs"`
	Note string `json:"note,omitempty"`
}

type vrPathOut struct {
	ID      int         `json:"id"`
	InitObs vrObs       `json:"init_obs"`
	Steps   []vrStepOut `json:"steps"`
	Race    bool        `json:"race,omitempty"`
	Error   string      `json:"error,omitempty"`
}

// ---------------------------------------------------------------------------
// gates

type vrReply struct {
	fail     bool // GetCFilter / GetBlock: injected failure
	ans      bool // IsCurrent
	shutdown bool // teardown: every call fails
}

type vrGate struct {
	at    string
	arg   int
	reply chan vrReply
	// set by the chain-source method before it returns
	res  string
	resB int
}

// a notification type the rescan ignores: used to detect that the goroutine
// sits in a select
type vrProbe struct{}

func (vrProbe) Header() wire.BlockHeader   { return wire.BlockHeader{} }
func (vrProbe) Height() uint32             { return 0 }
func (vrProbe) ChainTip() wire.BlockHeader { return wire.BlockHeader{} }

type vrSub struct {
	real       *blockntfns.Subscription
	out        chan blockntfns.BlockNtfn
	mu         sync.Mutex
	pending    []blockntfns.BlockNtfn
	got, want  int
	cancelled  bool
	registered bool
}

func (s *vrSub) pump() {
	for n := range s.real.Notifications {
		s.mu.Lock()
		s.pending = append(s.pending, n)
		s.got++
		s.mu.Unlock()
	}
}

// waits until every notification the manager owes this subscriber arrived
func (s *vrSub) waitArrived(d time.Duration) bool {
	deadline := time.Now().Add(d)
	grace := 40 // see settle: a deadline missed while the process was starved
	s.mu.Lock()
	defer s.mu.Unlock()
	for s.got < s.want {
		pause := 50 * time.Microsecond
		if time.Now().After(deadline) {
			if grace == 0 {
				return false
			}
			grace--
			pause = 5 * time.Millisecond
		}
		s.mu.Unlock()
		time.Sleep(pause)
		s.mu.Lock()
	}
	return true
}

// vrChain is the chain source of one path.
type vrChain struct {
	w   *vrWorld
	ev  chan *vrGate
	src chan blockntfns.BlockNtfn
	mgr *blockntfns.SubscriptionManager

	mu          sync.Mutex
	chain       []int
	fh          int
	lastBacklog int
	subs        []*vrSub
	held        blockntfns.BlockNtfn // chain event whose notification the manager has not been handed yet
	down        bool
}

var _ ChainSource = (*vrChain)(nil)
var errVr = errors.New("verif: injected failure")
var errVrDown = errors.New("verif: driver shutting down")

func (c *vrChain) gate(at string, arg int) (*vrGate, vrReply) {
	g := &vrGate{at: at, arg: arg, reply: make(chan vrReply, 1), res: "ok", resB: -1}
	c.ev <- g
	return g, <-g.reply
}

func (c *vrChain) onChain(b int) (int, bool) {
	for h, x := range c.chain {
		if x == b {
			return h, true
		}
	}
	return 0, false
}

func (c *vrChain) ChainParams() chaincfg.Params { return c.w.params }

func (c *vrChain) BestBlock() (*headerfs.BlockStamp, error) {
	g, rep := c.gate("Best", -1)
	if rep.shutdown {
		g.res = "err"
		return nil, errVrDown
	}
	c.mu.Lock()
	defer c.mu.Unlock()
	b := c.chain[c.fh]
	g.resB = b
	return &headerfs.BlockStamp{Height: int32(c.fh), Hash: c.w.hash[b],
		Timestamp: c.w.hdr[b].Timestamp}, nil
}

func (c *vrChain) GetBlockHeaderByHeight(h uint32) (*wire.BlockHeader, error) {
	g, rep := c.gate("HdrH", int(h))
	c.mu.Lock()
	defer c.mu.Unlock()
	if rep.shutdown || int(h) >= len(c.chain) {
		g.res = "err"
		return nil, errors.New("verif: no header at that height")
	}
	b := c.chain[h]
	g.resB = b
	hd := *c.w.hdr[b]
	return &hd, nil
}

func (c *vrChain) GetBlockHeader(hash *chainhash.Hash) (*wire.BlockHeader, uint32, error) {
	id := c.w.idOf(*hash)
	g, rep := c.gate("Hdr", id)
	c.mu.Lock()
	defer c.mu.Unlock()
	h, ok := c.onChain(id)
	if rep.shutdown || id < 0 || !ok {
		g.res = "err"
		return nil, 0, errors.New("verif: header not found")
	}
	g.resB = id
	hd := *c.w.hdr[id]
	return &hd, uint32(h), nil
}

func (c *vrChain) GetBlock(hash chainhash.Hash, _ ...QueryOption) (*btcutil.Block, error) {
	id := c.w.idOf(hash)
	g, rep := c.gate("Blk", id)
	c.mu.Lock()
	defer c.mu.Unlock()
	_, ok := c.onChain(id)
	if rep.shutdown || rep.fail || id < 0 || !ok {
		// ChainService.GetBlock needs the header of the block
		g.res = "fail"
		return nil, fmt.Errorf("verif: couldn't get block %v", hash)
	}
	g.resB = id
	return c.w.blocks[id], nil
}

func (c *vrChain) GetFilterHeaderByHeight(h uint32) (*chainhash.Hash, error) {
	g, rep := c.gate("FHH", int(h))
	c.mu.Lock()
	defer c.mu.Unlock()
	if rep.shutdown || int(h) > c.fh {
		g.res = "err"
		return nil, errors.New("verif: filter header not found")
	}
	fhh := vrHash(fmt.Sprintf("fh-%d", c.chain[h]))
	return &fhh, nil
}

func (c *vrChain) GetCFilter(hash chainhash.Hash, _ wire.FilterType,
	_ ...QueryOption) (*gcs.Filter, error) {

	id := c.w.idOf(hash)
	g, rep := c.gate("CF", id)
	if rep.shutdown || rep.fail || id < 0 {
		g.res = "fail"
		// A block of the current chain whose filter no peer delivered: the
		// error value ChainService.GetCFilter returns then (query.go).
		if rep.fail && !rep.shutdown && id >= 0 {
			c.mu.Lock()
			_, on := c.onChain(id)
			c.mu.Unlock()
			if on {
				return nil, ErrFilterFetchFailed
			}
		}
		// like ChainService.GetCFilter, never the bare headerfs sentinel
		return nil, fmt.Errorf("verif: unable to get filter for %v: %v", hash, errVr)
	}
	g.resB = id
	return c.w.filters[id], nil
}

func (c *vrChain) IsCurrent() bool {
	g, rep := c.gate("IsCur", -1)
	if rep.ans {
		g.res = "true"
	} else {
		g.res = "false"
	}
	return rep.ans
}

func (c *vrChain) Subscribe(h uint32) (*blockntfns.Subscription, error) {
	// The channel the rescan will listen on exists before the call is
	// released, so the driver can offer its probe on it without racing
	// with the registration.
	s := &vrSub{out: make(chan blockntfns.BlockNtfn)}
	c.mu.Lock()
	c.subs = append(c.subs, s)
	c.mu.Unlock()
	fail := func() {
		s.mu.Lock()
		s.cancelled = true
		s.mu.Unlock()
	}
	g, rep := c.gate("Sub", int(h))
	if rep.shutdown {
		g.res = "err"
		fail()
		return nil, errVrDown
	}
	real, err := c.mgr.NewSubscription(h)
	if err != nil {
		g.res = "err"
		fail()
		return nil, err
	}
	c.mu.Lock()
	s.mu.Lock()
	s.real = real
	s.want = c.lastBacklog
	s.registered = true
	s.mu.Unlock()
	c.mu.Unlock()
	go s.pump()
	return &blockntfns.Subscription{
		Notifications: s.out,
		Cancel: func() {
			s.mu.Lock()
			was := s.cancelled
			s.cancelled = true
			s.mu.Unlock()
			if !was {
				real.Cancel()
			}
		},
	}, nil
}

// blockntfns.NotificationSource, with blockManager.NotificationsSinceHeight's
// semantics
func (c *vrChain) Notifications() <-chan blockntfns.BlockNtfn { return c.src }

func (c *vrChain) NotificationsSinceHeight(h uint32) ([]blockntfns.BlockNtfn, uint32, error) {
	c.mu.Lock()
	defer c.mu.Unlock()
	best := uint32(c.fh)
	c.lastBacklog = 0
	if h == 0 || best == h {
		return nil, best, nil
	}
	if h > best {
		return nil, 0, fmt.Errorf("request with height %d is greater than best height known %d", h, best)
	}
	var out []blockntfns.BlockNtfn
	for i := h + 1; i <= best; i++ {
		out = append(out, blockntfns.NewBlockConnected(*c.w.hdr[c.chain[i]], i))
	}
	c.lastBacklog = len(out)
	return out, best, nil
}

func (c *vrChain) liveSub() *vrSub {
	c.mu.Lock()
	defer c.mu.Unlock()
	for i := len(c.subs) - 1; i >= 0; i-- {
		s := c.subs[i]
		s.mu.Lock()
		dead := s.cancelled
		s.mu.Unlock()
		if !dead {
			return s
		}
	}
	return nil
}

// emit hands one notification to the manager and waits until it sits in the
// pacing stage of every live subscription
func (c *vrChain) emit(n blockntfns.BlockNtfn) error {
	c.mu.Lock()
	var live []*vrSub
	for _, s := range c.subs {
		s.mu.Lock()
		if !s.cancelled && s.registered {
			s.want++
			live = append(live, s)
		}
		s.mu.Unlock()
	}
	c.mu.Unlock()
	select {
	case c.src <- n:
	case <-time.After(20 * time.Second):
		return errors.New("subscription manager does not take notifications")
	}
	for _, s := range live {
		if !s.waitArrived(20 * time.Second) {
			s.mu.Lock()
			dead := s.cancelled
			s.mu.Unlock()
			if !dead {
				return errors.New("notification did not reach a live subscription")
			}
		}
	}
	return nil
}

// ---------------------------------------------------------------------------
// one path

type vrRun struct {
	w      *vrWorld
	c      *vrChain
	r      *Rescan
	quit   chan struct{}
	quitCl bool
	errCh  <-chan error

	cbMu sync.Mutex
	cbs  []vrEv
	seen int

	gate   *vrGate // the call the rescan is parked in, nil otherwise
	atSel  bool
	updOut bool // an update was sent and is not known to have been taken
	st     int
}

func (x *vrRun) record(e vrEv) {
	if e.Txs == nil {
		e.Txs = []int{}
	}
	x.cbMu.Lock()
	x.cbs = append(x.cbs, e)
	x.cbMu.Unlock()
}

func (x *vrRun) handlers() rpcclient.NotificationHandlers {
	return rpcclient.NotificationHandlers{
		OnFilteredBlockConnected: func(height int32, header *wire.BlockHeader, txs []*btcutil.Tx) {
			e := vrEv{K: 1, S: 1, B: x.w.idOf(header.BlockHash()), H: int(height), Txs: []int{}}
			for _, tx := range txs {
				if id, ok := x.w.txID[*tx.Hash()]; ok {
					e.Txs = append(e.Txs, id)
				} else {
					e.Txs = append(e.Txs, -2)
				}
			}
			x.record(e)
		},
		OnBlockConnected: func(hash *chainhash.Hash, height int32, _ time.Time) {
			x.record(vrEv{K: 1, S: 2, B: x.w.idOf(*hash), H: int(height)})
		},
		OnFilteredBlockDisconnected: func(height int32, header *wire.BlockHeader) {
			x.record(vrEv{K: 2, S: 1, B: x.w.idOf(header.BlockHash()), H: int(height)})
		},
		OnBlockDisconnected: func(hash *chainhash.Hash, height int32, _ time.Time) {
			x.record(vrEv{K: 2, S: 2, B: x.w.idOf(*hash), H: int(height)})
		},
	}
}

func (x *vrRun) obs() vrObs {
	x.cbMu.Lock()
	ev := append([]vrEv{}, x.cbs[x.seen:]...)
	x.seen = len(x.cbs)
	x.cbMu.Unlock()
	o := vrObs{Ev: ev, St: x.st, At: "idle", Arg: -1}
	if x.r != nil {
		o.Upd = len(x.r.updateChan)
	}
	switch {
	case x.st != 0:
		o.At = "done"
	case x.gate != nil:
		o.At, o.Arg = x.gate.at, x.gate.arg
	case x.atSel:
		o.At = "sel"
	}
	return o
}

func (x *vrRun) finished(err error) {
	if err == ErrRescanExit {
		x.st = 1
	} else {
		x.st = 2
	}
	x.gate, x.atSel = nil, false
}

var errVrHang = errors.New("hang")

// settle runs until the rescan goroutine is parked: in a chain-source call,
// in a select, or gone.  probe=false is used while waiting for the retry
// timer: nothing is offered to the select then.
func (x *vrRun) settle(probe bool, d time.Duration) error {
	if x.gate != nil || x.st != 0 {
		return nil
	}
	wasSel := x.atSel
	deadline := time.After(d)
	// A deadline that expires while the whole process was starved (machine
	// under load) says nothing about the rescan: the deadline and the
	// rescan's own timer become due together.  A long wait is therefore
	// only given up after the process has demonstrably been scheduled a
	// number of further times without anything arriving.
	grace := 0
	if d >= time.Second {
		grace = 40
	}
	for {
		x.atSel = false
		var out chan blockntfns.BlockNtfn
		if probe {
			if s := x.c.liveSub(); s != nil {
				out = s.out
			}
		}
		select {
		case g := <-x.c.ev:
			x.gate = g
		case err := <-x.errCh:
			x.finished(err)
		case out <- vrProbe{}:
			x.atSel = true
		case <-deadline:
			if grace > 0 {
				grace--
				deadline = time.After(5 * time.Millisecond)
				runtime.Gosched()
				continue
			}
			x.atSel = wasSel
			return errVrHang
		}
		// The select may have preferred the probe to an update that is
		// waiting in the channel; it takes the update next, and may be
		// busy with it right now.  Only a probe received while no update
		// is outstanding shows that the goroutine is parked.
		if x.atSel && x.updOut {
			if len(x.r.updateChan) == 0 {
				x.updOut = false
			}
			continue
		}
		return nil
	}
}

func (x *vrRun) release(rep vrReply) *vrGate {
	g := x.gate
	x.gate = nil
	g.reply <- rep
	return g
}

func vrDump() string {
	buf := make([]byte, 1<<20)
	return string(buf[:runtime.Stack(buf, true)])
}

func (x *vrRun) start() error {
	w, u := x.w, x.w.u
	x.c = &vrChain{w: w, ev: make(chan *vrGate), src: make(chan blockntfns.BlockNtfn),
		chain: append([]int{}, u.InitChain...), fh: u.InitFH}
	x.c.mgr = blockntfns.NewSubscriptionManager(x.c)
	x.c.mgr.Start()
	x.quit = make(chan struct{})
	opts := []RescanOption{
		NotificationHandlers(x.handlers()),
		QuitChan(x.quit),
		StartBlock(&headerfs.BlockStamp{Hash: w.hash[u.StartB], Height: int32(u.Height[u.StartB])}),
		StartTime(w.start),
	}
	for _, it := range u.InitWatch {
		if it < 100 {
			opts = append(opts, WatchAddrs(w.watchAddr(it)))
		} else {
			opts = append(opts, WatchInputs(InputWithScript{
				OutPoint: w.outPoint(it - 100), PkScript: w.outPkScript(it - 100)}))
		}
	}
	x.r = NewRescan(x.c, opts...)
	// One slot, so that an update sent while the goroutine is between two
	// chain-source calls is found by the non-blocking drain of the catch-up
	// loop exactly as a caller blocked in Update() would be.
	x.r.updateChan = make(chan *updateOptions, 1)
	x.errCh = x.r.Start()
	// newRescanState looks the start block up by hash
	if err := x.settle(false, 30*time.Second); err != nil {
		return err
	}
	if x.gate == nil || x.gate.at != "Hdr" {
		return fmt.Errorf("unexpected first call of the rescan: %+v", x.gate)
	}
	x.release(vrReply{})
	return x.settle(true, 30*time.Second)
}

func (x *vrRun) sendUpdate(a vrAct) error {
	var opts []UpdateOption
	for _, it := range a.Add {
		if it < 100 {
			opts = append(opts, AddAddrs(x.w.watchAddr(it)))
		} else {
			opts = append(opts, AddInputs(InputWithScript{
				OutPoint: x.w.outPoint(it - 100), PkScript: x.w.outPkScript(it - 100)}))
		}
	}
	if a.Rw > 0 {
		opts = append(opts, Rewind(uint32(a.Rw)))
	}
	return x.r.Update(opts...)
}

func (x *vrRun) teardown() {
	if x.r == nil {
		return
	}
	if !x.quitCl {
		close(x.quit)
		x.quitCl = true
	}
	deadline := time.Now().Add(30 * time.Second)
	for x.st == 0 && time.Now().Before(deadline) {
		if x.gate != nil {
			x.release(vrReply{shutdown: true, fail: true, ans: true})
		}
		x.atSel = false
		select {
		case g := <-x.c.ev:
			x.gate = g
		case err := <-x.errCh:
			x.finished(err)
		case <-time.After(time.Second):
		}
	}
	x.c.mgr.Stop()
}

// envAct performs one step of the chain (growth by one header, one filter
// header, loss of the tip) and hands the notification to the manager.
func (x *vrRun) envAct(a *vrAct) error {
	c, w := x.c, x.w
	var n blockntfns.BlockNtfn
	c.mu.Lock()
	if c.held != nil {
		c.mu.Unlock()
		return fmt.Errorf("%s while a notification is outstanding", a.Op)
	}
	tip := c.chain[len(c.chain)-1]
	switch a.Op {
	case "Extend":
		if a.B <= 0 || a.B >= w.u.NB || w.u.Parent[a.B] != tip {
			c.mu.Unlock()
			return fmt.Errorf("Extend(%d) on tip %d", a.B, tip)
		}
		c.chain = append(c.chain, a.B)
		if !w.u.Lag {
			c.fh++
			n = blockntfns.NewBlockConnected(*w.hdr[a.B], uint32(len(c.chain)-1))
		}
	case "AddFH":
		if c.fh >= len(c.chain)-1 {
			c.mu.Unlock()
			return errors.New("AddFH with no header ahead")
		}
		c.fh++
		b := c.chain[c.fh]
		a.B = b
		n = blockntfns.NewBlockConnected(*w.hdr[b], uint32(c.fh))
	case "Rollback":
		if len(c.chain) < 2 {
			c.mu.Unlock()
			return errors.New("Rollback of genesis")
		}
		h := len(c.chain) - 1
		if c.fh == h {
			c.fh--
		}
		c.chain = c.chain[:h]
		a.B = tip
		n = blockntfns.NewBlockDisconnected(*w.hdr[tip], uint32(h), *w.hdr[c.chain[h-1]])
	}
	if n != nil && w.u.Split {
		// the stores have changed, the block manager is still blocked in
		// its send to the subscription manager (step Emit)
		c.held, n = n, nil
	}
	c.mu.Unlock()
	if n != nil {
		if err := c.emit(n); err != nil {
			return fmt.Errorf("%s: %v\n%s", a.Op, err, vrDump())
		}
	}
	return nil
}

// emitHeld: the subscription manager takes the outstanding notification.
func (x *vrRun) emitHeld(a *vrAct) error {
	c := x.c
	c.mu.Lock()
	n := c.held
	c.held = nil
	c.mu.Unlock()
	if n == nil {
		return errors.New("Emit with no notification outstanding")
	}
	hd := n.Header()
	a.B = x.w.idOf(hd.BlockHash())
	a.Res = "conn"
	if _, ok := n.(*blockntfns.Disconnected); ok {
		a.Res = "disc"
	}
	if err := c.emit(n); err != nil {
		return fmt.Errorf("Emit: %v\n%s", err, vrDump())
	}
	return nil
}

var vrGateOps = map[string]bool{"Best": true, "Sub": true, "HdrH": true, "Hdr": true,
	"FHH": true, "CF": true, "Blk": true, "IsCur": true}

// vrSameObs: does the real rescan stand where the model predicted?
func vrSameObs(a, b vrObs) bool {
	if a.St != b.St || a.Upd != b.Upd || a.At != b.At || a.Arg != b.Arg || len(a.Ev) != len(b.Ev) {
		return false
	}
	for i := range a.Ev {
		x, y := a.Ev[i], b.Ev[i]
		if x.K != y.K || x.S != y.S || x.B != y.B || x.H != y.H || len(x.Txs) != len(y.Txs) {
			return false
		}
		for j := range x.Txs {
			if x.Txs[j] != y.Txs[j] {
				return false
			}
		}
	}
	return true
}

func vrRunPath(w *vrWorld, p vrPathIn) (out vrPathOut) {
	out.ID = p.ID
	out.Steps = []vrStepOut{}
	x := &vrRun{w: w}
	defer func() {
		if r := recover(); r != nil {
			out.Error = fmt.Sprintf("driver panic: %v\n%s", r, vrDump())
		}
		x.teardown()
	}()
	out.InitObs = x.obs()
	diverged := vrFollow(x, p, &out)
	// Where the code left the model's prediction the path no longer says
	// what comes next (the model's rescan may even have ended): let the real
	// rescan run on against the chain as it stands, so that the consequences
	// of the deviation reach the callbacks and are judged.
	if diverged && out.Error == "" && !out.Race && x.r != nil && x.st == 0 {
		vrRunOn(x, &out)
	}
	return
}

// vrRunOn: every chain-source call succeeds, every queued notification is
// delivered, the retry timer is given time to fire; ends when the rescan is
// idle in its select, has ended, or after a bounded number of steps.
func vrRunOn(x *vrRun, out *vrPathOut) {
	const tmo = 10 * time.Second
	const note = "run-on after the code left the model's prediction"
	retry := vrAct{Op: "Retry", Res: "ok", B: -1, Add: []int{}}
	for n := 0; n < 40 && x.st == 0; n++ {
		if x.gate != nil {
			g := x.release(vrReply{ans: true})
			if err := x.settle(true, tmo); err != nil {
				out.Error = "run-on after " + g.at + ": hang\n" + vrDump()
				return
			}
			a := vrAct{Op: g.at, Res: g.res, B: g.arg, Add: []int{}}
			switch g.at {
			case "Best", "HdrH":
				a.B = g.resB
			case "IsCur":
				a.B = -1
			}
			out.Steps = append(out.Steps, vrStepOut{Act: a, Obs: x.obs(), Note: note})
			continue
		}
		sub := x.c.liveSub()
		var nt blockntfns.BlockNtfn
		if sub != nil {
			sub.waitArrived(2 * time.Second)
			sub.mu.Lock()
			if len(sub.pending) > 0 {
				nt = sub.pending[0]
			}
			sub.mu.Unlock()
		}
		if nt == nil {
			// nothing to deliver: is a retry pending?
			if err := x.settle(false, 150*time.Millisecond); err != nil || x.gate == nil {
				// Quiescent: the rescan is running, sits in a select,
				// every notification has been handed to it, no chain
				// event is held back and no retry is pending. The
				// announced chain (genesis .. filter-header tip) goes
				// into the trace so that Props can tell whether a
				// relevant transaction will never be delivered.
				x.c.mu.Lock()
				held := x.c.held != nil
				n := x.c.fh + 1
				if n > len(x.c.chain) {
					n = len(x.c.chain)
				}
				ch := append([]int{}, x.c.chain[:n]...)
				x.c.mu.Unlock()
				if x.gate == nil && !held && x.st == 0 && sub != nil {
					out.Steps = append(out.Steps, vrStepOut{
						Act: vrAct{Op: "Idle", Res: "ok", B: -1, Add: ch},
						Obs: x.obs(), Note: note})
				}
				return
			}
			out.Steps = append(out.Steps, vrStepOut{Act: retry, Obs: x.obs(), Note: note})
			continue
		}
		hd := nt.Header()
		a := vrAct{Op: "Ntfn", Res: "conn", B: x.w.idOf(hd.BlockHash()), Add: []int{}}
		if _, ok := nt.(*blockntfns.Disconnected); ok {
			a.Res = "disc"
		}
		select {
		case sub.out <- nt:
			sub.mu.Lock()
			sub.pending = sub.pending[1:]
			sub.mu.Unlock()
		case g := <-x.c.ev:
			x.gate = g
			out.Steps = append(out.Steps, vrStepOut{Act: retry, Obs: x.obs(), Note: note})
			continue
		case <-time.After(tmo):
			out.Error = "run-on: notification not taken\n" + vrDump()
			return
		}
		if err := x.settle(true, tmo); err != nil {
			out.Error = "run-on after Ntfn: hang\n" + vrDump()
			return
		}
		out.Steps = append(out.Steps, vrStepOut{Act: a, Obs: x.obs(), Note: note})
	}
}

// vrFollow executes the path; reports whether the code left the model's
// prediction (the path's expected observations) without a driver error.
func vrFollow(x *vrRun, p vrPathIn, out *vrPathOut) bool {
	w := x.w
	div := false
	// normal steps take well under a millisecond, the retry timer 100 ms
	const tmo = 10 * time.Second
	for _, s := range p.Steps {
		// How long to wait for the 100 ms retry timer / a queued
		// notification the path expects.  Once the code has left the
		// model's prediction the rest of the path is fed as far as it
		// applies, without long waits for things that may never come.
		retryTmo := 2 * time.Second
		if div {
			retryTmo = 300 * time.Millisecond
		}
		a := s.Act
		if a.Add == nil {
			a.Add = []int{}
		}
		note := ""
		if a.Op != "Start" && x.r == nil {
			out.Error = "path does not begin with Start"
			return false
		}
		// did the retry timer move the goroutine on its own?
		if x.r != nil && x.gate == nil && x.st == 0 && a.Op != "Retry" {
			select {
			case g := <-x.c.ev:
				x.gate = g
				out.Steps = append(out.Steps, vrStepOut{
					Act:  vrAct{Op: "Retry", Res: "ok", B: -1, Add: []int{}},
					Obs:  x.obs(),
					Note: "timer-race: the retry timer fired before the path asked for it"})
				out.Race = true
				return false
			default:
			}
		}
		switch {
		case a.Op == "Start":
			if err := x.start(); err != nil {
				out.Error = "start: " + err.Error() + "\n" + vrDump()
				return false
			}
			a.B = w.u.StartB

		case vrGateOps[a.Op]:
			if x.gate == nil {
				out.Steps = append(out.Steps, vrStepOut{Act: a, Obs: x.obs(),
					Note: "the rescan is not parked in a chain-source call"})
				return true
			}
			g := x.release(vrReply{fail: a.Res == "fail", ans: a.Res == "true"})
			if err := x.settle(true, tmo); err != nil {
				out.Error = "after " + g.at + ": hang\n" + vrDump()
				return false
			}
			if g.at != a.Op {
				note = "parked in " + g.at + ", path expected " + a.Op
			}
			a.Op, a.Res = g.at, g.res
			switch g.at {
			case "Best", "HdrH":
				a.B = g.resB
			case "IsCur":
				a.B = -1
			default:
				a.B = g.arg
			}

		case a.Op == "Ntfn":
			sub := x.c.liveSub()
			if sub == nil || x.gate != nil || x.st != 0 {
				out.Steps = append(out.Steps, vrStepOut{Act: a, Obs: x.obs(),
					Note: "no select to deliver a notification to"})
				return true
			}
			sub.waitArrived(retryTmo)
			sub.mu.Lock()
			var n blockntfns.BlockNtfn
			if len(sub.pending) > 0 {
				n = sub.pending[0]
				sub.pending = sub.pending[1:]
			}
			sub.mu.Unlock()
			if n == nil {
				out.Steps = append(out.Steps, vrStepOut{Act: a, Obs: x.obs(),
					Note: "the subscription has no notification queued"})
				return true
			}
			hd := n.Header()
			a.B = w.idOf(hd.BlockHash())
			a.Res = "conn"
			if _, ok := n.(*blockntfns.Disconnected); ok {
				a.Res = "disc"
			}
			select {
			case sub.out <- n:
			case g := <-x.c.ev:
				x.gate = g
				out.Steps = append(out.Steps, vrStepOut{
					Act:  vrAct{Op: "Retry", Res: "ok", B: -1, Add: []int{}},
					Obs:  x.obs(),
					Note: "timer-race: the retry timer fired before the notification was taken"})
				out.Race = true
				return false
			case <-time.After(tmo):
				out.Error = "notification not taken\n" + vrDump()
				return false
			}
			if err := x.settle(true, tmo); err != nil {
				out.Error = "after Ntfn: hang\n" + vrDump()
				return false
			}

		case a.Op == "Retry":
			if x.gate == nil && x.st == 0 {
				if err := x.settle(false, retryTmo); err != nil {
					out.Steps = append(out.Steps, vrStepOut{Act: a, Obs: x.obs(),
						Note: "the retry timer did not fire"})
					return true
				}
			}

		case a.Op == "SendUpd":
			if err := x.sendUpdate(a); err != nil {
				note = "Update: " + err.Error()
			} else {
				x.updOut = true
			}
			if err := x.settle(true, tmo); err != nil {
				out.Error = "after SendUpd: hang\n" + vrDump()
				return false
			}

		case a.Op == "Quit":
			if !x.quitCl {
				close(x.quit)
				x.quitCl = true
			}
			if x.gate == nil {
				if err := x.settle(false, tmo); err != nil {
					out.Error = "after Quit: hang\n" + vrDump()
					return false
				}
			}

		case a.Op == "Extend" || a.Op == "AddFH" || a.Op == "Rollback":
			if err := x.envAct(&a); err != nil {
				out.Error = err.Error()
				return false
			}

		case a.Op == "Emit":
			if err := x.emitHeld(&a); err != nil {
				out.Error = err.Error()
				return false
			}

		default:
			out.Error = "unknown op " + a.Op
			return false
		}
		o := x.obs()
		out.Steps = append(out.Steps, vrStepOut{Act: a, Obs: o, Note: note})
		if note != "" || !vrSameObs(o, s.Obs) || a.Op != s.Act.Op || a.Res != s.Act.Res {
			div = true
		}
		if x.st != 0 {
			break
		}
	}
	return div
}

func TestVerifRescanReplay(t *testing.T) {
	in, outFn := os.Getenv("VERIF_PATHS"), os.Getenv("VERIF_OUT")
	if in == "" || outFn == "" {
		t.Skip("VERIF_PATHS / VERIF_OUT not set")
	}
	ub, err := os.ReadFile(os.Getenv("VERIF_UNIVERSE"))
	if err != nil {
		t.Fatal(err)
	}
	var u vrUniverse
	if err := json.Unmarshal(ub, &u); err != nil {
		t.Fatal(err)
	}
	w, err := vrBuildWorld(&u)
	if err != nil {
		t.Fatal(err)
	}
	f, err := os.Open(in)
	if err != nil {
		t.Fatal(err)
	}
	defer f.Close()
	var paths []vrPathIn
	sc := bufio.NewScanner(f)
	sc.Buffer(make([]byte, 1<<20), 1<<28)
	for sc.Scan() {
		var p vrPathIn
		if err := json.Unmarshal(sc.Bytes(), &p); err != nil {
			t.Fatal(err)
		}
		paths = append(paths, p)
	}
	results := make([]vrPathOut, len(paths))
	var wg sync.WaitGroup
	jobs := make(chan int)
	nw := runtime.NumCPU()
	if s := os.Getenv("VERIF_WORKERS"); s != "" {
		fmt.Sscanf(s, "%d", &nw)
	}
	for k := 0; k < nw; k++ {
		wg.Add(1)
		go func() {
			defer wg.Done()
			for i := range jobs {
				results[i] = vrRunPath(w, paths[i])
			}
		}()
	}
	for i := range paths {
		jobs <- i
	}
	close(jobs)
	wg.Wait()
	of, err := os.Create(outFn)
	if err != nil {
		t.Fatal(err)
	}
	bw := bufio.NewWriter(of)
	enc := json.NewEncoder(bw)
	for i := range results {
		if err := enc.Encode(&results[i]); err != nil {
			t.Fatal(err)
		}
	}
	bw.Flush()
	of.Close()
}
