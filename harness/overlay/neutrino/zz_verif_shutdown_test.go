package neutrino

// Shutdown family (property C17): scenario driver for the REAL ChainService.
//
// Injected into package neutrino with `go test -overlay` together with the
// in-process network simulator zz_verif_netsim_test.go (identifiers vn*, not
// edited here).  All identifiers of this file are prefixed vsd.
//
// TestVerifShutdownReplay (parent) reads VERIF_PATHS (one scenario per line,
// derived from the states of specs/Shutdown/Shutdown.tla in which the model
// calls Stop) and runs every scenario in its OWN CHILD PROCESS
// (TestVerifShutdownOne): one ChainService per process, so that a goroutine
// dump shows exactly the goroutines of that client, a hung Stop leaks nothing
// into other scenarios, and a panic of a ChainService goroutine is an outcome
// of the scenario and not the death of the driver.
//
// A scenario is: peer pool at the moment of Stop {empty, silent, responsive},
// the activities in flight (Begin steps: GetBlock, GetCFilter, GetUtxo, rescan,
// SendTransaction, block subscription, mid-sync, Rescan.Update on a busy
// rescan) started through the public
// API, the moment of Stop (m = 0: immediately after the calls were issued,
// m = 1: after every activity has parked at its blocking point, m = 2: parked
// plus a seeded delay), and activities begun after Stop was called / returned.
// The child records the VISIBLE events in the order in which they happen
// (Begin, Stop, Ret = a caller came back with the class of what it got,
// StopRet, Hang = the bound expired, with a goroutine dump, Reopen = the data
// directory opened again and the store tips compared), each with the
// observable projection of ShutdownProps.tla after it.

import (
	"bufio"
	"bytes"
	"context"
	"encoding/json"
	"fmt"
	"math/rand"
	"os"
	"os/exec"
	"path/filepath"
	"runtime"
	"strconv"
	"strings"
	"sync"
	"testing"
	"time"

	"github.com/btcsuite/btcd/address/v2"
	"github.com/btcsuite/btcd/btcutil/v2"
	"github.com/btcsuite/btcd/chainhash/v2"
	"github.com/btcsuite/btcd/rpcclient"
	"github.com/btcsuite/btcd/wire/v2"
	"github.com/btcsuite/btcwallet/walletdb"
	"github.com/lightninglabs/neutrino/headerfs"
)

// ---------------------------------------------------------------------------
// Encoding shared with specs/Shutdown/ShutdownProps.tla

const (
	vsdPEmpty  = 0
	vsdPSilent = 1
	vsdPResp   = 2

	vsdKGetBlock = 1
	vsdKGetCF    = 2
	vsdKGetUtxo  = 3
	vsdKRescan   = 4
	vsdKSendTx   = 5
	vsdKSub      = 6
	vsdKSync     = 7
	vsdKUpdate   = 8 // Rescan.Update blocked on its busy rescan goroutine

	vsdCPending = 0
	vsdCShut    = 1
	vsdCCancel  = 2
	vsdCLegit   = 3
	vsdCBad     = 4
	vsdCHung    = 5
	vsdCNone    = 6

	vsdSNot  = 0
	vsdSRun  = 1
	vsdSDone = 2
	vsdSHung = 3

	vsdRNot     = 0
	vsdROK      = 1
	vsdROpenErr = 2
	vsdRIncons  = 3
)

// steps of ChainService.Stop after which the driver can hold it (Stop act, field k)
var vsdStopSteps = []string{"connmgr", "bcast", "wm", "utxo", "sub", "bm", "addr", "bw", "quit"}

type vsdAt struct {
	Stop string `json:"stop"`
	Bm   string `json:"bm"`
	Disp string `json:"disp"`
	Bch  string `json:"bch"`
	Subh string `json:"subh"`
	Blkh string `json:"blkh"`
	Cfh  string `json:"cfh"`
	Rs   string `json:"rs"`
}

type vsdAct struct {
	Op  string `json:"op"`
	K   int    `json:"k"`
	M   int    `json:"m"`
	Cls int    `json:"cls"`
	Res string `json:"res"`
	At  vsdAt  `json:"at"`
}

type vsdCall struct {
	K  int `json:"k"`
	M  int `json:"m"`
	St int `json:"st"`
}

type vsdObs struct {
	Pool   int       `json:"pool"`
	Dial   int       `json:"dial"`
	Never  int       `json:"never"`
	Stop   int       `json:"stop"`
	Calls  []vsdCall `json:"calls"`
	Reopen int       `json:"reopen"`
}

type vsdStepIn struct {
	Act vsdAct `json:"act"`
}

type vsdPathIn struct {
	ID      int         `json:"id"`
	InitObs vsdObs      `json:"init_obs"`
	Steps   []vsdStepIn `json:"steps"`
}

type vsdStepOut struct {
	Act  vsdAct `json:"act"`
	Obs  vsdObs `json:"obs"`
	T    int64  `json:"t_ms"`           // since the scenario's Stop call (or start)
	Err  string `json:"err,omitempty"`  // text of the error the caller got
	Dump string `json:"dump,omitempty"` // goroutine dump (Hang)
}

type vsdPathOut struct {
	ID      int               `json:"id"`
	InitObs vsdObs            `json:"init_obs"`
	Steps   []vsdStepOut      `json:"steps"`
	Error   string            `json:"error,omitempty"`
	Info    map[string]string `json:"info,omitempty"`
}

// ---------------------------------------------------------------------------
// Classification of what a caller got back.

func vsdClassify(k int, err error, nilValue bool) int {
	if err == nil {
		if nilValue && (k == vsdKGetBlock || k == vsdKGetCF) {
			return vsdCBad // nil result with nil error
		}
		return vsdCLegit
	}
	s := strings.ToLower(err.Error())
	switch {
	case strings.Contains(s, "shutting down"), strings.Contains(s, "stopped"):
		return vsdCShut
	case strings.Contains(s, "cancel"), strings.Contains(s, "rescan exited"):
		return vsdCCancel
	}
	return vsdCLegit // an ordinary failure of the operation (timeout, not found, ...)
}

// ---------------------------------------------------------------------------
// Where are the goroutines: a projection of runtime.Stack to the model's
// program counters.

func vsdDump() string {
	buf := make([]byte, 8<<20)
	n := runtime.Stack(buf, true)
	return string(buf[:n])
}

func vsdHas(b string, subs ...string) bool {
	for _, s := range subs {
		if !strings.Contains(b, s) {
			return false
		}
	}
	return true
}

func vsdWhere(dump string) vsdAt {
	at := vsdAt{Stop: "", Bm: "exited", Disp: "exited", Bch: "exited", Subh: "exited", Blkh: "exited",
		Cfh: "exited"}
	for _, b := range strings.Split(dump, "\n\n") {
		switch {
		case vsdHas(b, "neutrino.(*ChainService).Stop("):
			switch {
			case vsdHas(b, "(*Broadcaster).Stop"):
				at.Stop = "bcast_wait"
			case vsdHas(b, "(*UtxoScanner).Stop"):
				at.Stop = "utxo_wait"
			case vsdHas(b, "(*peerWorkManager).Stop"):
				at.Stop = "wm_wait"
			case vsdHas(b, "(*SubscriptionManager).Stop"):
				at.Stop = "sub_wait"
			case vsdHas(b, "(*blockManager).Stop"):
				at.Stop = "bm_wait"
			case vsdHas(b, "BatchWriter"):
				at.Stop = "bw_wait"
			case vsdHas(b, "(*AddrManager).Stop"):
				at.Stop = "addr"
			case vsdHas(b, "(*ConnManager).Stop"):
				at.Stop = "connmgr"
			case vsdHas(b, "sync.(*WaitGroup).Wait"):
				at.Stop = "wg_wait"
			default:
				at.Stop = "running"
			}
		case vsdHas(b, "(*UtxoScanner).batchManager"):
			switch {
			case vsdHas(b, "(*ChainService).GetBlock"):
				at.Bm = "getblk"
			case vsdHas(b, "(*ChainService).GetCFilter", "sync.(*Mutex).Lock"):
				at.Bm = "cflock"
			case vsdHas(b, "(*ChainService).GetCFilter"):
				at.Bm = "getcf"
			case vsdHas(b, "sync.(*Cond).Wait"):
				at.Bm = "cond"
			default:
				at.Bm = "running"
			}
		case vsdHas(b, "(*peerWorkManager).workDispatcher"):
			at.Disp = "run"
		case vsdHas(b, "(*Broadcaster).rebroadcast"):
			// the rebroadcast goroutine (a closure of broadcastHandler): not
			// the handler itself
		case vsdHas(b, "(*Broadcaster).broadcastHandler"):
			switch {
			case vsdHas(b, "sendTransaction"):
				at.Bch = "bcast"
			case vsdHas(b, "cancelSubscription"):
				at.Bch = "cancelsub"
			default:
				at.Bch = "sel"
			}
		case vsdHas(b, "(*SubscriptionManager).subscriptionHandler"):
			if vsdHas(b, "NotificationsSinceHeight") {
				at.Subh = "nsh"
			} else {
				at.Subh = "sel"
			}
		case vsdHas(b, "(*blockManager).blockHandler"):
			switch {
			case vsdHas(b, "onBlockDisconnected"):
				at.Blkh = "ntfn"
			case vsdHas(b, "handleHeadersMsg"), vsdHas(b, "handleInvMsg"), vsdHas(b, "handleNewPeerMsg"),
				vsdHas(b, "handleDonePeerMsg"):
				at.Blkh = "running"
			default:
				at.Blkh = "sel"
			}
		case vsdHas(b, "(*blockManager).cfHandler"):
			switch {
			case vsdHas(b, "sync.(*Cond).Wait"):
				at.Cfh = "cond"
			case vsdHas(b, "onBlockConnected"):
				at.Cfh = "ntfn"
			case vsdHas(b, "queryAllPeers"):
				at.Cfh = "qall"
			case vsdHas(b, "(*ChainService).GetBlock"):
				at.Cfh = "getblk"
			case vsdHas(b, "getCheckpointedCFHeaders"):
				at.Cfh = "cpq"
			case vsdHas(b, "[select"):
				at.Cfh = "retry"
			default:
				at.Cfh = "running"
			}
		case vsdHas(b, "(*blockManager).Start.func1"):
			at.Cfh = "first"
		case vsdHas(b, "(*rescanState).rescan"):
			switch {
			case vsdHas(b, "MarkAsConfirmed"):
				at.Rs = "mark"
			case vsdHas(b, "(*ChainService).GetCFilter", "sync.(*Mutex).Lock"):
				at.Rs = "flock"
			case vsdHas(b, "(*ChainService).GetCFilter"):
				at.Rs = "filter"
			case vsdHas(b, "(*ChainService).GetBlock"):
				at.Rs = "block"
			case vsdHas(b, "[select"), vsdHas(b, "[chan receive"):
				at.Rs = "cur"
			default:
				at.Rs = "running"
			}
		}
	}
	return at
}

// vsdRelevant keeps the goroutines of the dump that belong to the client (not
// the test runner, the simulator's nodes or the runtime).
func vsdRelevant(dump string) string {
	var out []string
	for _, b := range strings.Split(dump, "\n\n") {
		if strings.Contains(b, "lightninglabs/neutrino") && !strings.Contains(b, "neutrino.(*vnNodeConn)") &&
			!strings.Contains(b, "neutrino.vsdDump") {
			out = append(out, b)
		}
	}
	s := strings.Join(out, "\n\n")
	if len(s) > 60000 {
		s = s[:60000] + "\n...[truncated]"
	}
	return s
}

// ---------------------------------------------------------------------------
// One scenario (child process)

type vsdRun struct {
	mu     sync.Mutex
	obs    vsdObs
	steps  []vsdStepOut
	t0     time.Time
	rng    *rand.Rand
	net    *vnNet
	nd     *vnNode
	svc    *ChainService
	db     walletdb.DB
	dir    string
	cfg    Config
	chain  *vnChain
	tip    int
	known  int // height of the chain the CLIENT has (0: it never had a peer)
	done   map[int]chan struct{} // per kind: caller returned
	stopCh chan struct{}
	info   map[string]string
	quitRs chan struct{}
	stream *os.File // every step is appended here at once (survives a crash of the process)
}

func (r *vsdRun) log(a vsdAct, err error, dump string) {
	r.mu.Lock()
	defer r.mu.Unlock()
	switch a.Op {
	case "Begin":
		st := vsdCPending
		if a.K == vsdKSync {
			st = vsdCNone
		}
		r.obs.Calls = append(r.obs.Calls, vsdCall{K: a.K, M: a.M, St: st})
		if a.K == vsdKUpdate {
			// the activity has two callers: the Update call and the reader
			// of its rescan's error channel
			r.obs.Calls = append(r.obs.Calls, vsdCall{K: vsdKRescan, M: 1, St: vsdCPending})
		}
	case "Ret":
		for i := range r.obs.Calls {
			if r.obs.Calls[i].K == a.K {
				r.obs.Calls[i].St = a.Cls
			}
		}
	case "Stop":
		r.obs.Stop = vsdSRun
	case "StopRet":
		r.obs.Stop = vsdSDone
	case "Hang":
		if r.obs.Stop == vsdSRun {
			r.obs.Stop = vsdSHung
		}
		for i := range r.obs.Calls {
			if r.obs.Calls[i].St == vsdCPending {
				r.obs.Calls[i].St = vsdCHung
			}
		}
	}
	if a.Res == "" {
		a.Res = "ok"
	}
	o := r.obs
	o.Calls = append(make([]vsdCall, 0, len(r.obs.Calls)), r.obs.Calls...)
	s := vsdStepOut{Act: a, Obs: o, T: time.Since(r.t0).Milliseconds(), Dump: dump}
	if err != nil {
		s.Err = err.Error()
	}
	r.steps = append(r.steps, s)
	if r.stream != nil {
		if j, e := json.Marshal(s); e == nil {
			r.stream.Write(append(j, '\n'))
		}
	}
}

func (r *vsdRun) ret(k int, err error, nilValue bool) {
	cls := vsdClassify(k, err, nilValue)
	r.log(vsdAct{Op: "Ret", K: k, Cls: cls}, err, "")
	close(r.done[k])
}

// guard runs a caller and turns a panic of the call into the class "bad".
func (r *vsdRun) guard(k int, f func()) {
	go func() {
		defer func() {
			if x := recover(); x != nil {
				r.log(vsdAct{Op: "Ret", K: k, Cls: vsdCBad, Res: "panic"}, fmt.Errorf("panic: %v", x), "")
				close(r.done[k])
			}
		}()
		f()
	}()
}

func vsdStartClient(n *vnNet, dir string, nodes []*vnNode, persist bool) (*ChainService, walletdb.DB, Config, error) {
	vnShortenTimeouts()
	if err := os.MkdirAll(dir, 0o755); err != nil {
		return nil, nil, Config{}, err
	}
	db, err := walletdb.Create("bdb", filepath.Join(dir, "neutrino.db"), true, 10*time.Second, false)
	if err != nil {
		return nil, nil, Config{}, err
	}
	var peers []string
	for _, nd := range nodes {
		peers = append(peers, nd.AddrString())
	}
	cfg := Config{
		DataDir:          dir,
		Database:         db,
		ChainParams:      *n.Params,
		ConnectPeers:     peers,
		Dialer:           n.Dial,
		NameResolver:     n.Resolve,
		BroadcastTimeout: 2 * time.Second,
		PersistToDisk:    persist,
	}
	svc, err := NewChainService(cfg)
	if err != nil {
		db.Close()
		return nil, nil, cfg, err
	}
	if err := svc.Start(context.Background()); err != nil {
		db.Close()
		return nil, nil, cfg, err
	}
	return svc, db, cfg, nil
}

func vsdWaitFor(d time.Duration, f func() bool) bool {
	dl := time.Now().Add(d)
	for {
		if f() {
			return true
		}
		if time.Now().After(dl) {
			return false
		}
		time.Sleep(3 * time.Millisecond)
	}
}

func vsdIsCF(m wire.Message) bool {
	switch m.(type) {
	case *wire.MsgGetCFCheckpt, *wire.MsgGetCFHeaders:
		return true
	}
	return false
}

func vsdIsData(m wire.Message) bool {
	switch m.(type) {
	case *wire.MsgGetData, *wire.MsgGetCFilters:
		return true
	}
	return false
}

func (r *vsdRun) hashAt(h int) chainhash.Hash {
	if h > r.known {
		h = r.known
	}
	if h < 0 {
		h = 0
	}
	return r.chain.hash[h]
}

func (r *vsdRun) addrOf(h int) (address.Address, []byte, error) {
	script := r.chain.blk[h].Transactions[1].TxOut[0].PkScript
	a, err := address.NewAddressWitnessPubKeyHash(script[2:22], r.net.Params)
	return a, script, err
}

// newRescan builds (does not start) a rescan: m = 0 from the client's tip
// (nothing to walk), m = 1 from height 5 (walks, fetching filters and blocks).
// Returns the height of the watched address's block as well.
func (r *vsdRun) newRescan(m int) (*Rescan, int, error) {
	sh := r.known
	if m == 1 {
		sh = 5
		if sh > r.known {
			sh = r.known
		}
	}
	wh := sh + 1
	if wh > r.tip {
		wh = r.tip
	}
	addr, _, err := r.addrOf(wh)
	if err != nil {
		return nil, 0, err
	}
	start := &headerfs.BlockStamp{Hash: r.chain.hash[sh], Height: int32(sh)}
	r.quitRs = make(chan struct{})
	rs := NewRescan(&RescanChainSource{r.svc},
		StartBlock(start), WatchAddrs(addr), QuitChan(r.quitRs),
		NotificationHandlers(rpcclient.NotificationHandlers{
			OnFilteredBlockConnected: func(int32, *wire.BlockHeader, []*btcutil.Tx) {},
		}))
	return rs, wh, nil
}

// readRescan is the caller blocked on the error channel of Rescan.Start.
func (r *vsdRun) readRescan(errChan <-chan error) {
	k := vsdKRescan
	err := <-errChan
	if err == nil {
		err = fmt.Errorf("rescan returned nil")
		r.log(vsdAct{Op: "Ret", K: k, Cls: vsdCLegit}, err, "")
		close(r.done[k])
		return
	}
	r.ret(k, err, false)
}

// begin starts one activity through the public API.
func (r *vsdRun) begin(a vsdAct) error {
	k, m := a.K, a.M
	r.done[k] = make(chan struct{})
	r.log(vsdAct{Op: "Begin", K: k, M: m}, nil, "")
	svc := r.svc
	switch k {
	case vsdKGetBlock:
		h := r.hashAt(r.tip - 3)
		r.guard(k, func() {
			b, err := svc.GetBlock(h)
			r.ret(k, err, b == nil)
		})
	case vsdKGetCF:
		h := r.hashAt(r.tip - 5)
		r.guard(k, func() {
			f, err := svc.GetCFilter(h, wire.GCSFilterRegular)
			r.ret(k, err, f == nil)
		})
	case vsdKGetUtxo:
		sh := 10
		if sh > r.known {
			sh = r.known
		}
		blk := r.chain.blk[sh]
		last := len(blk.Transactions) - 1
		if m == 1 {
			// the start block is already cached: the scan's first fetch is
			// the FILTER of the next height
			inv := wire.NewInvVect(wire.InvTypeWitnessBlock, &r.chain.hash[sh])
			ub := btcutil.NewBlock(blk)
			ub.SetHeight(int32(sh))
			if _, err := svc.BlockCache.Put(*inv, &CacheableBlock{Block: ub}); err != nil {
				return err
			}
		}
		txh := blk.Transactions[last].TxHash()
		in := InputWithScript{
			OutPoint: wire.OutPoint{Hash: txh, Index: 0},
			PkScript: blk.Transactions[last].TxOut[0].PkScript,
		}
		start := &headerfs.BlockStamp{Hash: r.chain.hash[sh], Height: int32(sh)}
		r.guard(k, func() {
			_, err := svc.GetUtxo(WatchInputs(in), StartBlock(start))
			r.ret(k, err, false)
		})
	case vsdKRescan:
		rs, _, err := r.newRescan(m)
		if err != nil {
			return err
		}
		r.guard(k, func() {
			r.readRescan(rs.Start())
		})
	case vsdKUpdate:
		// a rescan that walks the chain (as rescan variant 1: its first
		// filter fetch is parked / unanswered / has no peer), and an Update
		// call from a second goroutine while the rescan goroutine is busy.
		// The caller's own quit channel (r.quitRs) stays open for ever: only
		// the client can release the call.
		rs, wh, err := r.newRescan(1)
		if err != nil {
			return err
		}
		if wh < r.tip {
			wh++
		}
		addr2, _, err := r.addrOf(wh)
		if err != nil {
			return err
		}
		r.done[vsdKRescan] = make(chan struct{})
		errChan := rs.Start()
		r.guard(vsdKRescan, func() {
			r.readRescan(errChan)
		})
		// (bounded wait, so that the call really finds the goroutine busy
		// and is not taken by the poll at the top of its first iteration)
		vsdWaitFor(400*time.Millisecond, func() bool {
			select {
			case <-r.done[vsdKRescan]:
				return true
			default:
			}
			switch vsdWhere(vsdDump()).Rs {
			case "flock", "filter", "block":
				return true
			}
			return false
		})
		r.guard(k, func() {
			err := rs.Update(AddAddrs(addr2))
			cls := vsdCLegit // nil: the rescan goroutine took the update
			if err != nil {
				if strings.Contains(err.Error(), "already done") {
					// r.running closed: the rescan has ended (the text
					// may or may not quote the rescan's own error)
					cls = vsdCCancel
				} else {
					cls = vsdClassify(k, err, false)
				}
			}
			r.log(vsdAct{Op: "Ret", K: k, Cls: cls}, err, "")
			close(r.done[k])
		})
	case vsdKSendTx:
		tx := wire.NewMsgTx(2)
		hh := chainhash.HashH([]byte(fmt.Sprintf("vsd-tx-%d", r.rng.Int63())))
		tx.AddTxIn(wire.NewTxIn(wire.NewOutPoint(&hh, 0), nil, nil))
		tx.AddTxOut(wire.NewTxOut(1000, []byte{0x51}))
		r.guard(k, func() {
			err := svc.SendTransaction(tx)
			r.ret(k, err, false)
		})
	case vsdKSub:
		r.guard(k, func() {
			sub, err := (&RescanChainSource{svc}).Subscribe(0)
			if err != nil {
				r.ret(k, err, false)
				return
			}
			// a slow reader: one notification every 40 ms, until the
			// channel is closed
			for range sub.Notifications {
				time.Sleep(40 * time.Millisecond)
			}
			r.ret(k, fmt.Errorf("subscription channel closed (canceled)"), false)
		})
	case vsdKSync:
		// staged by the set-up; headers keep arriving from a background
		// goroutine in runOne
		close(r.done[k])
	default:
		return fmt.Errorf("unknown activity %d", k)
	}
	return nil
}

func vsdRunOne(p vsdPathIn, scratch string) (out vsdPathOut, rerr error) {
	out.ID = p.ID
	seed, _ := strconv.ParseInt(os.Getenv("VERIF_SEED"), 10, 64)
	bound := 90 * time.Second
	if v, err := strconv.Atoi(os.Getenv("VSD_BOUND_S")); err == nil && v > 0 {
		bound = time.Duration(v) * time.Second
	}
	r := &vsdRun{t0: time.Now(), rng: rand.New(rand.NewSource(seed*7919 + int64(p.ID))),
		done: map[int]chan struct{}{}, stopCh: make(chan struct{}), info: map[string]string{}}
	if sf := os.Getenv("VSD_ONE_STREAM"); sf != "" {
		if f, err := os.OpenFile(sf, os.O_CREATE|os.O_WRONLY|os.O_APPEND, 0o644); err == nil {
			r.stream = f
		}
	}
	pool := p.InitObs.Pool
	r.obs = vsdObs{Pool: pool, Dial: p.InitObs.Dial, Never: p.InitObs.Never, Stop: vsdSNot, Calls: []vsdCall{}, Reopen: vsdRNot}
	out.InitObs = r.obs

	// split the scenario
	var pre, post []vsdAct
	var stop *vsdAct
	postAfterRet := false
	for _, s := range p.Steps {
		a := s.Act
		switch a.Op {
		case "Begin":
			if stop == nil {
				pre = append(pre, a)
			} else {
				post = append(post, a)
			}
		case "Stop":
			aa := a
			stop = &aa
		case "StopRet":
			if len(post) == 0 {
				postAfterRet = true
			}
		}
	}
	syncM := -1
	for _, a := range append(append([]vsdAct{}, pre...), post...) {
		if a.K == vsdKSync {
			syncM = a.M
		}
	}

	// ----- network and client
	chainLen := 40
	if syncM == 1 {
		chainLen = 2100 // two filter-header checkpoints: the checkpointed path runs
	}
	n, err := vnStartNetwork(seed+int64(p.ID), chainLen)
	if err != nil {
		return out, err
	}
	r.net = n
	nd := n.AddNode(vnBehaviour{Kind: "honest"})
	r.nd = nd
	stalled := syncM == 0 && pool == vsdPSilent
	if stalled {
		// initial sync against a peer that never answers getheaders
		nd.SetBehaviour(vnBehaviour{Kind: "silent"})
	}
	if syncM == 1 {
		nd.Hold(vsdIsCF)
	}
	nd.SetUp(true)
	never := p.InitObs.Never == 1
	if never {
		// the only configured peer refuses every connection: the client is
		// started and no peer ever completes a handshake
		nd.SetUp(false)
	}
	r.dir = filepath.Join(scratch, fmt.Sprintf("sd-%d-%d", os.Getpid(), p.ID))
	defer os.RemoveAll(r.dir)
	persist := r.rng.Intn(2) == 0
	r.info["persist"] = fmt.Sprint(persist)
	nodes := []*vnNode{nd}
	if p.InitObs.Dial == 1 {
		// an unreachable permanent peer: the dial blocks (black hole) for
		// dialWait, inside a goroutine ChainService.Stop waits for
		n.dialWait = 3 * time.Second
		nodes = append(nodes, n.AddNode(vnBehaviour{Kind: "honest"}))
	}
	svc, db, cfg, err := vsdStartClient(n, r.dir, nodes, persist)
	if err != nil {
		return out, err
	}
	r.svc, r.db, r.cfg = svc, db, cfg
	r.chain = n.Honest()
	r.tip = r.chain.tip()
	r.known = r.tip
	switch {
	case never:
		r.known = 0
		time.Sleep(20 * time.Millisecond)
		if svc.ConnectedCount() != 0 {
			return out, fmt.Errorf("set-up: a peer connected in a never-connected scenario")
		}
	case stalled:
		r.known = 0
		if !vsdWaitFor(10*time.Second, func() bool { return svc.ConnectedCount() == 1 }) {
			return out, fmt.Errorf("set-up: the silent peer did not connect")
		}
	case syncM == 1:
		if !vsdWaitFor(20*time.Second, func() bool {
			_, h, err := svc.BlockHeaders.ChainTip()
			return err == nil && int(h) == chainLen && nd.HeldCount() > 0
		}) {
			return out, fmt.Errorf("set-up: header sync with parked cfheaders requests did not get there (held %v)",
				nd.HeldCommands())
		}
	default:
		if !vsdWaitFor(20*time.Second, func() bool {
			bs, err := svc.BestBlock()
			return err == nil && int(bs.Height) == chainLen
		}) {
			return out, fmt.Errorf("set-up: initial sync of %d blocks did not complete", chainLen)
		}
	}

	// ----- peer pool at the moment of Stop
	switch pool {
	case vsdPEmpty:
		if never {
			break
		}
		nd.SetUp(false)
		if !vsdWaitFor(10*time.Second, func() bool { return svc.ConnectedCount() == 0 }) {
			return out, fmt.Errorf("set-up: peer did not go away")
		}
	case vsdPSilent:
		if !stalled && syncM != 1 {
			nd.SetBehaviour(vnBehaviour{Kind: "silent"})
		}
	case vsdPResp:
		if syncM != 1 {
			// park the answers the activities wait for, so that they are
			// in flight when Stop is called; released around Stop
			nd.Hold(vsdIsData)
		}
	}
	settle := stop == nil || stop.M >= 1

	// ----- activities before Stop
	released := false
	for i, a := range pre {
		if syncM == 1 && pool == vsdPResp && !released && i > 0 && pre[i-1].K == vsdKSync && r.rng.Intn(2) == 0 {
			// the cfHandler's parked cfheaders answers arrive NOW: the next
			// activity begins while the cfHandler writes the filter headers
			// and announces the blocks (the filter header tip is published
			// right before the notifications are sent)
			released = true
			r.info["release"] = "before the next activity"
			nd.Release()
			vsdWaitFor(3*time.Second, func() bool {
				_, h, err := svc.RegFilterHeaders.ChainTip()
				return err == nil && h >= 1000
			})
		}
		if err := r.begin(a); err != nil {
			return out, err
		}
	}
	stopSync := make(chan struct{})
	var syncWG sync.WaitGroup
	reorgAtStop := 0
	if syncM == 0 && pool == vsdPResp {
		// headers keep arriving; in two of three scenarios one
		// reorganisation (2 deep, or nearly the whole chain) is fired at the
		// moment of Stop: mid-reorganisation
		switch r.rng.Intn(3) {
		case 1:
			reorgAtStop = 2
		case 2:
			reorgAtStop = r.tip - 5
		}
		r.info["reorg_at_stop"] = fmt.Sprint(reorgAtStop)
		syncWG.Add(1)
		go func() {
			defer syncWG.Done()
			// (bounded: the stream ends when Stop has returned, and after
			// 4000 blocks at the latest - a hung scenario must not keep
			// mining for the whole bound)
			for i := 0; i < 4000; i++ {
				select {
				case <-stopSync:
					return
				case <-r.stopCh:
					return
				case <-time.After(time.Duration(1+r.rng.Intn(3)) * time.Millisecond):
				}
				n.Extend(1)
			}
		}()
	}
	defer func() { close(stopSync); syncWG.Wait() }()

	if settle {
		// wait until nothing moves any more: two equal samples 30 ms apart
		var last vsdAt
		vsdWaitFor(3*time.Second, func() bool {
			time.Sleep(30 * time.Millisecond)
			cur := vsdWhere(vsdDump())
			same := cur == last
			last = cur
			return same
		})
		if stop != nil && stop.M == 2 {
			time.Sleep(time.Duration(r.rng.Intn(3500)) * time.Millisecond)
		}
	}

	if stop == nil {
		return out, fmt.Errorf("scenario without Stop")
	}

	// ----- Stop
	at := vsdAt{}
	if settle {
		at = vsdWhere(vsdDump())
		at.Stop = ""
	}
	reorgInHook := syncM == 0 && pool == vsdPResp && stop.K == 5
	if reorgInHook {
		// mid-reorganisation, placed by the model's state "subscription
		// manager stopped, block manager not yet": the re-org (2 or 3 deep,
		// or nearly the whole chain) is announced while Stop is held after
		// that step, so the block handler's rollback parks in its first
		// disconnected notification, which nobody reads any more
		if reorgAtStop < 2 {
			reorgAtStop = 2 + r.rng.Intn(2)
		}
		r.info["reorg_at_stop"] = fmt.Sprintf("%d (in the hold after the subscription manager's stop)", reorgAtStop)
	}
	if reorgAtStop > 0 && !reorgInHook {
		d := time.Duration(r.rng.Intn(60)) * time.Millisecond
		r.info["reorg_delay_ms"] = fmt.Sprint(d.Milliseconds())
		go func() {
			time.Sleep(d)
			n.Reorg(reorgAtStop, reorgAtStop+1)
		}()
	}
	if stop.K > 0 && stop.K <= len(vsdStopSteps) {
		// hold Stop after one of its steps (hook, build tag verif) while
		// the rest of the client keeps running
		step := vsdStopSteps[stop.K-1]
		d := time.Duration(20+r.rng.Intn(70)) * time.Millisecond
		if reorgInHook {
			d = time.Duration(70+r.rng.Intn(40)) * time.Millisecond
		}
		r.info["pause"] = fmt.Sprintf("%s %dms", step, d.Milliseconds())
		verifStopHook = func(s string) {
			if s == step {
				if reorgInHook {
					n.Reorg(reorgAtStop, reorgAtStop+1)
				}
				time.Sleep(d)
			}
		}
	}
	r.t0 = time.Now()
	r.log(vsdAct{Op: "Stop", K: stop.K, M: stop.M, At: at}, nil, "")
	go func() {
		defer func() {
			if x := recover(); x != nil {
				r.log(vsdAct{Op: "StopRet", Res: "panic"}, fmt.Errorf("panic: %v", x), "")
				close(r.stopCh)
			}
		}()
		svc.Stop()
		r.log(vsdAct{Op: "StopRet"}, nil, "")
		close(r.stopCh)
	}()
	if pool == vsdPResp && !released {
		// the parked answers arrive around the moment of Stop
		// (Stop reaches the subscription manager and the block manager
		// about 50 ms after the call: UtxoScanner.Stop's 50 ms signal loop)
		d := time.Duration(r.rng.Intn(40)) * time.Millisecond
		switch r.rng.Intn(3) {
		case 0:
			d = 0
		case 1:
			d = time.Duration(44+r.rng.Intn(14)) * time.Millisecond
		}
		if syncM == 1 {
			// the released cfheaders make the cfHandler write and announce
			// some 2000 blocks: let that burst overlap with the
			// subscription manager / block manager steps of Stop
			d = time.Duration(38+r.rng.Intn(16)) * time.Millisecond
		}
		r.info["release_ms"] = fmt.Sprint(d.Milliseconds())
		go func() { time.Sleep(d); nd.Release() }()
	}
	if len(post) > 0 {
		if postAfterRet {
			select {
			case <-r.stopCh:
			case <-time.After(bound):
			}
		}
		for _, a := range post {
			if err := r.begin(a); err != nil {
				return out, err
			}
		}
	}

	// ----- wait for Stop and for every caller
	deadline := time.After(bound)
	hung := false
	waitAll := func() bool {
		select {
		case <-r.stopCh:
		case <-deadline:
			return false
		}
		for _, ch := range r.done {
			select {
			case <-ch:
			case <-deadline:
				return false
			}
		}
		return true
	}
	if !waitAll() {
		hung = true
		d := vsdDump()
		r.log(vsdAct{Op: "Hang", At: vsdWhere(d)}, nil, vsdRelevant(d))
	}
	out.Info = r.info
	if hung {
		r.mu.Lock()
		out.Steps = r.steps
		r.mu.Unlock()
		return out, nil
	}

	// ----- reopen the data directory
	close(stopSync)
	syncWG.Wait()
	stopSync = make(chan struct{})
	n.Close()
	ro, why := vsdReopen(r)
	r.info["reopen"] = why
	r.mu.Lock()
	r.obs.Reopen = ro
	r.mu.Unlock()
	r.log(vsdAct{Op: "Reopen", Res: why}, nil, "")
	r.mu.Lock()
	out.Steps = r.steps
	r.mu.Unlock()
	return out, nil
}

// vsdReopen closes the database, opens the data directory again the way a
// restarting client does and compares the tips of the two header stores.
func vsdReopen(r *vsdRun) (int, string) {
	if err := r.db.Close(); err != nil {
		return vsdROpenErr, "close: " + err.Error()
	}
	db, err := walletdb.Open("bdb", filepath.Join(r.dir, "neutrino.db"), true, 10*time.Second, false)
	if err != nil {
		return vsdROpenErr, "open db: " + err.Error()
	}
	defer db.Close()
	params := r.net.Params
	bs, err := headerfs.NewBlockHeaderStore(r.dir, db, params)
	if err != nil {
		return vsdROpenErr, "block header store: " + err.Error()
	}
	fs, err := headerfs.NewFilterHeaderStore(r.dir, db, headerfs.RegularFilter, params, nil)
	if err != nil {
		return vsdROpenErr, "filter header store: " + err.Error()
	}
	bh, bHeight, err := bs.ChainTip()
	if err != nil {
		return vsdRIncons, "block tip unreadable: " + err.Error()
	}
	_, fHeight, err := fs.ChainTip()
	if err != nil {
		return vsdRIncons, "filter tip unreadable: " + err.Error()
	}
	if fHeight > bHeight {
		return vsdRIncons, fmt.Sprintf("filter tip %d above block tip %d", fHeight, bHeight)
	}
	hh, err := bs.FetchHeaderByHeight(bHeight)
	if err != nil || hh.BlockHash() != bh.BlockHash() {
		return vsdRIncons, fmt.Sprintf("block tip %d does not read back: %v", bHeight, err)
	}
	if _, err := bs.FetchHeaderByHeight(fHeight); err != nil {
		return vsdRIncons, fmt.Sprintf("block header at filter tip %d unreadable: %v", fHeight, err)
	}
	if _, err := fs.FetchHeaderByHeight(fHeight); err != nil {
		return vsdRIncons, fmt.Sprintf("filter header at filter tip %d unreadable: %v", fHeight, err)
	}
	// every stored block header up to the tip links to its predecessor
	prev := bh
	for h := int64(bHeight) - 1; h >= 0 && h >= int64(bHeight)-50; h-- {
		ph, err := bs.FetchHeaderByHeight(uint32(h))
		if err != nil {
			return vsdRIncons, fmt.Sprintf("block header %d unreadable: %v", h, err)
		}
		if prev.PrevBlock != ph.BlockHash() {
			return vsdRIncons, fmt.Sprintf("block header %d does not link", h+1)
		}
		prev = ph
	}
	// and a client can be constructed on it again
	cfg := r.cfg
	cfg.Database = db
	cfg.ConnectPeers = nil
	if _, err := NewChainService(cfg); err != nil {
		return vsdROpenErr, "NewChainService: " + err.Error()
	}
	return vsdROK, fmt.Sprintf("ok block tip %d filter tip %d", bHeight, fHeight)
}

func TestVerifShutdownOne(t *testing.T) {
	pf, of := os.Getenv("VSD_ONE_PATH"), os.Getenv("VSD_ONE_OUT")
	if pf == "" || of == "" {
		t.Skip("VSD_ONE_PATH / VSD_ONE_OUT not set")
	}
	b, err := os.ReadFile(pf)
	if err != nil {
		t.Fatal(err)
	}
	var p vsdPathIn
	if err := json.Unmarshal(b, &p); err != nil {
		t.Fatal(err)
	}
	scratch := os.Getenv("VERIF_SCRATCH")
	if scratch == "" {
		scratch = t.TempDir()
	}
	out, err := vsdRunOne(p, scratch)
	if err != nil {
		t.Fatalf("DRIVER-ERROR: %v", err)
	}
	j, _ := json.Marshal(out)
	if err := os.WriteFile(of, j, 0o644); err != nil {
		t.Fatal(err)
	}
	// a hung Stop leaves goroutines behind: leave without waiting for them
	os.Exit(0)
}

// ---------------------------------------------------------------------------
// Parent: one child per scenario.

func vsdTail(s string, n int) string {
	if len(s) > n {
		return s[len(s)-n:]
	}
	return s
}

func vsdParent(p vsdPathIn, raw []byte, scratch string, idx int, boundS int) (out vsdPathOut) {
	out.ID = p.ID
	out.InitObs = p.InitObs
	if out.InitObs.Calls == nil {
		out.InitObs.Calls = []vsdCall{}
	}
	pf := filepath.Join(scratch, fmt.Sprintf("sd-one-%d.json", idx))
	of := filepath.Join(scratch, fmt.Sprintf("sd-one-%d.out", idx))
	sf := filepath.Join(scratch, fmt.Sprintf("sd-one-%d.steps", idx))
	defer os.Remove(sf)
	if err := os.WriteFile(pf, raw, 0o644); err != nil {
		out.Error = err.Error()
		return
	}
	defer os.Remove(pf)
	defer os.Remove(of)
	limit := time.Duration(2*boundS+120) * time.Second
	cmd := exec.Command(os.Args[0], "-test.run", "^TestVerifShutdownOne$", "-test.count=1",
		"-test.timeout", fmt.Sprintf("%ds", 2*boundS+110))
	cmd.Env = append(os.Environ(), "VSD_ONE_PATH="+pf, "VSD_ONE_OUT="+of, "VSD_ONE_STREAM="+sf, "VERIF_SCRATCH="+scratch,
		fmt.Sprintf("VSD_BOUND_S=%d", boundS))
	var stderr bytes.Buffer
	cmd.Stdout = &stderr
	cmd.Stderr = &stderr
	if err := cmd.Start(); err != nil {
		out.Error = err.Error()
		return
	}
	done := make(chan error, 1)
	go func() { done <- cmd.Wait() }()
	var werr error
	killed := false
	select {
	case werr = <-done:
	case <-time.After(limit):
		cmd.Process.Kill()
		werr = <-done
		killed = true
	}
	if b, err := os.ReadFile(of); err == nil && werr == nil {
		var o vsdPathOut
		if json.Unmarshal(b, &o) == nil {
			o.ID = p.ID
			return o
		}
	}
	se := stderr.String()
	if killed {
		out.Error = "scenario child exceeded its hard limit and was killed\n" + vsdTail(se, 3000)
		return
	}
	if (strings.Contains(se, "panic: ") || strings.Contains(se, "fatal error: ")) &&
		!strings.Contains(se, "DRIVER-ERROR") && !strings.Contains(se, "neutrino.vsd") {
		// the code under test crashed the process: that is the outcome
		j := strings.Index(se, "panic: ")
		if j < 0 {
			j = strings.Index(se, "fatal error: ")
		}
		// what the child had recorded before it died
		obs := p.InitObs
		if obs.Calls == nil {
			obs.Calls = []vsdCall{}
		}
		if b, err := os.ReadFile(sf); err == nil {
			for _, line := range bytes.Split(b, []byte("\n")) {
				var st vsdStepOut
				if len(line) > 0 && json.Unmarshal(line, &st) == nil && st.Act.Op != "" {
					out.Steps = append(out.Steps, st)
					obs = st.Obs
				}
			}
		}
		stopped := obs.Stop != vsdSNot
		if obs.Stop == vsdSRun {
			obs.Stop = vsdSHung
		}
		calls := append(make([]vsdCall, 0, 4), obs.Calls...)
		for i := range calls {
			if calls[i].St == vsdCPending {
				calls[i].St = vsdCHung
			}
		}
		obs.Calls = calls
		res := "panic"
		if !stopped {
			res = "panic-before-stop"
		} else {
			// the first line of the panic message, as one word
			first := se[j:]
			if k := strings.Index(first, "\n"); k >= 0 {
				first = first[:k]
			}
			if len(first) > 90 {
				first = first[:90]
			}
			res = "panic(" + strings.ReplaceAll(strings.TrimPrefix(first, "panic: "), " ", "_") + ")"
		}
		out.Steps = append(out.Steps, vsdStepOut{Act: vsdAct{Op: "Hang", Res: res}, Obs: obs,
			Dump: vsdTail(se[j:], 20000)})
		return
	}
	out.Error = fmt.Sprintf("scenario child failed (%v):\n%s", werr, vsdTail(se, 4000))
	return
}

func TestVerifShutdownReplay(t *testing.T) {
	in, outFn := os.Getenv("VERIF_PATHS"), os.Getenv("VERIF_OUT")
	if in == "" || outFn == "" {
		t.Skip("VERIF_PATHS / VERIF_OUT not set")
	}
	scratch := os.Getenv("VERIF_SCRATCH")
	if scratch == "" {
		scratch = t.TempDir()
	}
	boundS := 90
	if v, err := strconv.Atoi(os.Getenv("VSD_BOUND_S")); err == nil && v > 0 {
		boundS = v
	}
	f, err := os.Open(in)
	if err != nil {
		t.Fatal(err)
	}
	defer f.Close()
	type job struct {
		idx int
		raw []byte
		p   vsdPathIn
	}
	var jobs []job
	sc := bufio.NewScanner(f)
	sc.Buffer(make([]byte, 1<<20), 1<<28)
	for sc.Scan() {
		raw := append([]byte(nil), sc.Bytes()...)
		if len(bytes.TrimSpace(raw)) == 0 {
			continue
		}
		var p vsdPathIn
		if err := json.Unmarshal(raw, &p); err != nil {
			t.Fatalf("bad path line: %v", err)
		}
		jobs = append(jobs, job{idx: len(jobs), raw: raw, p: p})
	}
	res := make([]vsdPathOut, len(jobs))
	workers := runtime.NumCPU()
	if v, err := strconv.Atoi(os.Getenv("VSD_WORKERS")); err == nil && v > 0 {
		workers = v
	}
	ch := make(chan job)
	var wg sync.WaitGroup
	for w := 0; w < workers; w++ {
		wg.Add(1)
		go func() {
			defer wg.Done()
			for j := range ch {
				res[j.idx] = vsdParent(j.p, j.raw, scratch, j.idx, boundS)
			}
		}()
	}
	for _, j := range jobs {
		ch <- j
	}
	close(ch)
	wg.Wait()
	of, err := os.Create(outFn)
	if err != nil {
		t.Fatal(err)
	}
	w := bufio.NewWriter(of)
	for _, o := range res {
		if o.Steps == nil {
			o.Steps = []vsdStepOut{}
		}
		b, _ := json.Marshal(o)
		w.Write(b)
		w.WriteByte('\n')
	}
	w.Flush()
	of.Close()
}
