package neutrino

// Free-running slice of the CFSync family (property C03), code -> specification
// direction.  The REAL, unmodified blockManager.cfHandler goroutine runs inside
// a testing/synctest bubble: its retryTimeout sleeps (3 s per failed round)
// cost nothing, and synctest.Wait() tells exactly when the handler is blocked
// (at one of the scripted callbacks, in a retry sleep, on one of its condition
// variables, in the select of the batched fetch).  Nothing of the loop is
// re-implemented: which function is called next, lastHeight/lastHash, the
// cached checkpoint lists, the snapshot re-checks and the gotos are the code's.
//
// Environment (chains, blocks, filters, stores, the behaviours of the peers)
// is that of the replay driver (zz_verif_cfsync_test.go, same package): the
// callbacks queryAllPeers / GetBlock / QueryDispatcher / BanPeer answer
// according to the behaviour assigned to each peer (honest H, truthful-may-miss
// T, liars CP/CX/PV/OM/OU/OE/NH/NS/EX/OI/HC/FO/SH/SF at a height k) with seeded
// choices (which T peers answer, in which order, which batched request is
// answered next by which unbanned peer, a block not served, a stale cfcheckpt
// message in front of an answer).  A seeded controller injects the block
// handler's steps (rollBackToHeight + a new headers batch written to the real
// store + tip publication; a plain headers batch) and a late connecting peer
// whenever the handler is blocked.
//
// What is recorded: one step per gate of specs/CFSync/CFSync.tla, with the
// labels of that specification (GcSend, GetCheckpts(rs), RStart, RCfh(rs), ...,
// CPStart, CPDeliver(j,p), CPEnd, UStart, UCfh(rs), ..., Rollback(h),
// Extend(n)) and, after every step, the projection of the two real stores, the
// ban calls and the in-memory tips computed by the replay driver's observe().
// The boundaries between steps are observed, not assumed: every scripted
// callback and every ChainTip call of the two stores (thin wrappers) looks at
// its own call stack (function NAMES only, no line numbers) and thereby sees
// which of resolveConflict / getCheckpointedCFHeaders /
// getUncheckpointedCFHeaders is running; a step ends when the handler arrives
// at the next callback, when the function it belongs to is no longer on the
// stack, or when synctest.Wait() finds the handler blocked outside any
// callback.  The traces are judged by TLC with the clauses of CFSyncProps.tla,
// exactly like the replayed paths, and checked to be behaviours of CFSync.tla
// (specs/CFSync/CFTrace.tla).

import (
	"bufio"
	"encoding/json"
	"errors"
	"fmt"
	"math/rand"
	"os"
	"path/filepath"
	"runtime"
	"sort"
	"strconv"
	"strings"
	"sync"
	"sync/atomic"
	"testing"
	"testing/synctest"
	"time"

	"github.com/btcsuite/btcd/blockchain"
	"github.com/btcsuite/btcd/btcutil/v2"
	"github.com/btcsuite/btcd/chainhash/v2"
	"github.com/btcsuite/btcd/peer"
	"github.com/btcsuite/btcd/wire/v2"
	"github.com/btcsuite/btcwallet/walletdb"
	"github.com/lightninglabs/neutrino/banman"
	"github.com/lightninglabs/neutrino/headerfs"
	"github.com/lightninglabs/neutrino/query"
)

// vfFRScen is one free-running execution.
type vfFRScen struct {
	ID       int       `json:"id"`
	Asg      []vfCFAsg `json:"asg"`
	Bt       int       `json:"bt"`
	Ft       int       `json:"ft"`
	Hard     int       `json:"hard"`
	Seed     int64     `json:"seed"`
	Reorgs   int       `json:"reorgs"`    // rollbacks (each followed by a headers batch)
	Extends  int       `json:"extends"`   // plain headers batches
	Late     int       `json:"late"`      // peer (kind T) that connects late, 0 = none
	LateAt   int       `json:"late_at"`   // ... at the n-th moment the handler is blocked
	PEvent   float64   `json:"p_event"`   // chance of an environment event per blocked moment
	EvGate   string    `json:"ev_gate"`   // the first reorganisation falls where the handler is blocked at this gate ("" = anywhere)
	EvDepth  int       `json:"ev_depth"`  // ... with this depth
	EvN      int       `json:"ev_n"`      // ... and this many new headers
	MaxSteps int       `json:"max_steps"` // recorded steps per execution
}

type vfFROut struct {
	ID      int                    `json:"id"`
	InitObs vfCFObs                `json:"init_obs"`
	Steps   []vfCFStepOut          `json:"steps"`
	Error   string                 `json:"error,omitempty"`
	Free    *vfFRScen              `json:"free,omitempty"`
	Info    map[string]interface{} `json:"info,omitempty"`
}

const (
	vfFRResolve = "resolveConflict"
	vfFRCP      = "getCheckpointedCFHeaders"
	vfFRU       = "getUncheckpointedCFHeaders"
	vfFRLoop    = "cfHandler"

	vfFRProbeLimit = 40000
)

var errVfFRSpin = errors.New("verif: cfHandler does not come to rest")

type vfFRPend struct {
	act vfCFAct
	fn  string
}

type vfFRGate struct {
	kind string // cp | cfh | flt | blk
	mode string // r | u | ""
	msg  wire.Message
	hash chainhash.Hash
	rel  chan vfCFRel
}

type vfFREnv struct {
	*vfCFEnv
	sc   *vfFRScen
	rawB headerfs.BlockHeaderStore
	rawF headerfs.FilterHeaderStore

	quiet atomic.Int32 // > 0: store calls of the driver itself

	mu      sync.Mutex
	steps   []vfCFStepOut
	pend    *vfFRPend
	gate    *vfFRGate
	fpc     string // where the loop is, for the labels of its own (unobservable) branches only
	lastH   uint32 // the height cfHandler read at the top of its round
	callLo  int
	callHi  int
	callN   int
	uReread bool
	inQuery bool
	dead    bool
	exited  bool
	spin    bool
	nprobe  int
	notes   []string

	qreqs   []*query.Request
	qfin    map[uint32]bool
	qerr    chan error
	qtarget uint32

	connected bool
	aimed     bool
	eventsAt  []string
	nblocked  int
	nsleeps   int
	nreorg    int
	nextend   int
}

// ---- the stores: ChainTip calls are observation points ----------------------

type vfFRBStore struct {
	headerfs.BlockHeaderStore
	e *vfFREnv
}

func (s *vfFRBStore) ChainTip() (*wire.BlockHeader, uint32, error) {
	h, ht, err := s.BlockHeaderStore.ChainTip()
	s.e.probe("B", ht)
	return h, ht, err
}

type vfFRFStore struct {
	headerfs.FilterHeaderStore
	e *vfFREnv
}

func (s *vfFRFStore) ChainTip() (*chainhash.Hash, uint32, error) {
	h, ht, err := s.FilterHeaderStore.ChainTip()
	s.e.probe("F", ht)
	return h, ht, err
}

const vfFRPkg = "github.com/lightninglabs/neutrino."

// vfFRWhere looks at the call stack: fn is the function of the filter-header
// sync that is running ("" if the caller is not the cfHandler goroutine's own
// code), direct the function of the package that made the call.
func vfFRWhere() (fn, direct string) {
	var pcs [32]uintptr
	n := runtime.Callers(2, pcs[:])
	frames := runtime.CallersFrames(pcs[:n])
	inHandler := false
	for {
		f, more := frames.Next()
		name := f.Function
		if strings.HasPrefix(name, vfFRPkg) {
			name = strings.TrimPrefix(name[len(vfFRPkg):], "(*blockManager).")
			name = strings.TrimPrefix(name, "(*checkpointedCFHeadersQuery).")
			if i := strings.IndexByte(name, '.'); i >= 0 {
				name = name[:i] // closures
			}
			mine := strings.HasPrefix(name, "vfFR") || strings.HasPrefix(name, "vfCF") ||
				strings.HasPrefix(name, "(*vfFR") || strings.HasPrefix(name, "(*vfCF")
			if !mine {
				if direct == "" {
					direct = name
				}
				switch name {
				case vfFRResolve, vfFRCP, vfFRU:
					if fn == "" {
						fn = name
					}
				case vfFRLoop:
					inHandler = true
				}
			}
		}
		if !more {
			break
		}
	}
	if !inHandler {
		return "", ""
	}
	if fn == "" {
		fn = vfFRLoop
	}
	return fn, direct
}

// obsNow is the replay driver's observe() (same projection), reading the
// unwrapped stores.  It may run inside the handler goroutine while cfHandler
// holds the locks of the in-memory tips (its wait loops call
// BlockHeadersSynced with both held): a lock that cannot be taken is then
// held by the caller itself - the controller only runs while the handler is
// blocked outside them.
func (e *vfFREnv) obsNow() vfCFObs {
	w := e.w
	o := vfCFObs{Asg: e.asg, Hard: e.hard, Cpi: 2}
	e.banMu.Lock()
	o.Ban = append([]int(nil), e.banned...)
	e.banMu.Unlock()

	bstore := e.rawB
	tipHdr, tipH, err := bstore.ChainTip()
	if err != nil {
		o.B = []int{vfCFG}
	} else {
		hb := 0
		for hb+1 <= w.maxH+2 && w.R(hb+1) <= int(tipH) {
			hb++
		}
		for h := 0; h <= hb; h++ {
			hd, err := bstore.FetchHeaderByHeight(uint32(w.R(h)))
			if err != nil {
				o.B = append(o.B, vfCFG)
				continue
			}
			o.B = append(o.B, e.blockID(hd.BlockHash()))
		}
		if w.R(hb) != int(tipH) {
			o.B = append(o.B, vfCFG)
		} else if o.B[hb] >= 0 && e.blockID(tipHdr.BlockHash()) != o.B[hb] {
			o.B[hb] = vfCFG
		}
	}
	_, ftH, err := e.rawF.ChainTip()
	if err != nil {
		o.F = []int{vfCFG}
	} else {
		o.F = e.projectFilters(e.rawF, int(ftH))
	}
	lh := e.bm.newHeadersMtx.TryRLock()
	ht, hh := e.bm.headerTip, e.bm.headerTipHash
	if lh {
		e.bm.newHeadersMtx.RUnlock()
	}
	lf := e.bm.newFilterHeadersMtx.TryRLock()
	ft, fh := e.bm.filterHeaderTip, e.bm.filterHeaderTipHash
	if lf {
		e.bm.newFilterHeadersMtx.RUnlock()
	}
	mh := func(r uint32) int {
		m := w.modelH(int(r))
		if m < 0 {
			return vfCFG
		}
		return m
	}
	o.Mem = []int{mh(ht), e.blockID(hh), mh(ft), e.blockID(fh)}
	return o
}

func (e *vfFREnv) add(a vfCFAct, o vfCFObs) {
	if a.Rs == nil {
		a.Rs = []int{}
	}
	e.steps = append(e.steps, vfCFStepOut{Act: a, Obs: o})
}

func (e *vfFREnv) lastObsF() []int {
	if n := len(e.steps); n > 0 {
		return e.steps[n-1].Obs.F
	}
	return nil
}

// closeWith ends the running step with the given result.
func (e *vfFREnv) closeWith(res string, o vfCFObs) {
	if e.pend == nil {
		return
	}
	a := e.pend.act
	a.Res = res
	e.pend = nil
	e.add(a, o)
}

// closeReturned: the function the running step belongs to is no longer on the
// handler's stack and the handler did not sleep: it returned.
func (e *vfFREnv) closeReturned(o vfCFObs) {
	if e.pend == nil {
		return
	}
	switch e.pend.fn {
	case vfFRResolve:
		// an error is followed by the retry sleep; no sleep: checkpoints
		e.closeWith("good", o)
		e.fpc = "cp"
	case vfFRCP:
		res := "ret"
		if e.pend.act.Op == "CPDeliver" && e.pend.act.Res != "rej" {
			e.quiet.Add(1)
			_, ft, err := e.rawF.ChainTip()
			e.quiet.Add(-1)
			if err == nil && e.qtarget > 0 && ft >= e.qtarget {
				res = "done"
			}
		}
		e.closeWith(res, o)
		e.inQuery = false
		e.fpc = "aftercp"
	case vfFRU:
		e.closeWith("ok", o)
		e.fpc = "tip"
	default:
		e.closeWith("?", o)
	}
}

// probe is called (in the calling goroutine) by every ChainTip of the two
// stores.
func (e *vfFREnv) probe(kind string, ht uint32) {
	if e.quiet.Load() != 0 {
		return
	}
	fn, direct := vfFRWhere()
	if fn == "" {
		return
	}
	e.mu.Lock()
	defer e.mu.Unlock()
	e.tick()
	var o *vfCFObs
	obs := func() vfCFObs {
		if o == nil {
			x := e.obsNow()
			o = &x
		}
		return *o
	}
	if e.pend != nil && e.pend.fn != fn {
		e.closeReturned(obs())
	}
	switch {
	case kind == "B" && direct == vfFRLoop:
		// cfHandler reads the tip it will sync to
		e.begin(ht, obs())
	case kind == "F" && fn == vfFRResolve && e.pend == nil:
		e.startResolve()
	case kind == "F" && direct == vfFRCP && e.pend == nil:
		e.pend = &vfFRPend{act: vfCFAct{Op: "CPStart"}, fn: vfFRCP}
		e.fpc = "cp"
	case kind == "F" && direct == vfFRU:
		if e.pend != nil {
			if e.pend.act.Op == "UCfh" && !e.uReread {
				// the second look at the filter tip, after the broadcast
				e.uReread = true
				return
			}
			// a new call: the one before returned nil
			e.closeWith("ok", obs())
		}
		e.pend = &vfFRPend{act: vfCFAct{Op: "UStart"}, fn: vfFRU}
		e.fpc = "u"
	}
}

func (e *vfFREnv) tick() {
	e.nprobe++
	if e.nprobe > vfFRProbeLimit {
		e.spin = true
		panic(errVfFRSpin)
	}
}

func (e *vfFREnv) startResolve() {
	e.pend = &vfFRPend{act: vfCFAct{Op: "RStart", Hi: e.w.modelCeil(int(e.lastH))}, fn: vfFRResolve}
	e.fpc = "r"
}

// begin: cfHandler passed its wait loop and read the block tip (label Begin).
// The branches of the loop that led here (start over because the tip it worked
// off is gone) have no observable of their own; they are named from where the
// loop was.
func (e *vfFREnv) begin(ht uint32, o vfCFObs) {
	hiOld := e.w.modelCeil(int(e.lastH))
	switch e.fpc {
	case "resolve":
		// the lists just fetched were dropped
		if n := len(e.steps); n > 0 && e.steps[n-1].Act.Op == "GetCheckpts" {
			e.steps[n-1].Act.Res = "restart"
		}
	case "loop", "retry":
		e.add(vfCFAct{Op: "LoopRestart", Res: "ok", Hi: hiOld}, o)
	case "cp":
		e.add(vfCFAct{Op: "CPStart", Res: "restart"}, o)
	}
	m := e.w.modelH(int(ht))
	if m < 0 {
		e.notes = append(e.notes, fmt.Sprintf("block tip %d is not a model height", ht))
		m = e.w.modelCeil(int(ht))
	}
	e.add(vfCFAct{Op: "Begin", Res: "ok", Hi: m}, o)
	e.lastH = ht
	if ht >= wire.CFCheckptInterval {
		e.fpc = "loop"
	} else {
		e.fpc = "cp"
	}
}

// ---- the scripted callbacks ---------------------------------------------------

func (e *vfFREnv) window(q *wire.MsgGetCFHeaders) (int, int) {
	lo := e.w.modelCeil(int(q.StartHeight))
	hi := lo
	if _, r, ok := e.locate(q.StopHash); ok {
		hi = e.w.lieFloor(r)
	}
	return lo, hi
}

func (e *vfFREnv) queryAllPeers(queryMsg wire.Message,
	checkResponse func(sp *ServerPeer, resp wire.Message, quit chan<- struct{},
		peerQuit chan<- struct{}), options ...QueryOption) {

	fn, _ := vfFRWhere()
	g := &vfFRGate{msg: queryMsg, rel: make(chan vfCFRel, 1)}
	switch fn {
	case vfFRResolve:
		g.mode = "r"
	case vfFRU:
		g.mode = "u"
	}
	up := strings.ToUpper(g.mode)
	e.mu.Lock()
	e.tick()
	o := e.obsNow()
	if e.pend != nil && e.pend.fn != fn {
		e.closeReturned(o)
	}
	switch q := queryMsg.(type) {
	case *wire.MsgGetCFCheckpt:
		g.kind = "cp"
		if _, r, ok := e.locate(q.StopHash); !ok || uint32(r) != e.lastH {
			e.notes = append(e.notes, "getcfcheckpt for a block other than the tip read at the top")
		}
		e.add(vfCFAct{Op: "GcSend", Res: "q_cp", Hi: e.w.modelCeil(int(e.lastH))}, o)
		e.fpc = "q_cp"
	case *wire.MsgGetCFHeaders:
		g.kind = "cfh"
		lo, hi := e.window(q)
		if e.pend == nil && g.mode == "r" {
			e.startResolve()
		}
		if e.pend != nil {
			switch e.pend.act.Op {
			case "RStart":
				e.pend.act.Lo = lo
			case "UStart":
				e.pend.act.Lo, e.pend.act.Hi = lo, hi
			}
		}
		e.closeWith("q_cfh", o)
		e.callLo, e.callHi = lo, hi
		e.fpc = g.mode + "_cfh"
	case *wire.MsgGetCFilters:
		g.kind = "flt"
		e.callN = e.w.modelCeil(int(q.StartHeight))
		e.closeWith("q_flt", o)
		e.fpc = g.mode + "_flt"
	default:
		e.notes = append(e.notes, fmt.Sprintf("unexpected broadcast %T", queryMsg))
	}
	e.gate = g
	e.mu.Unlock()

	var rel vfCFRel
	select {
	case rel = <-g.rel:
	case <-e.done:
		return
	}
	// as ChainService.queryAllPeers does: one quit channel per peer; once the
	// callback closed it, further messages of that peer are dropped
	quit := make(chan struct{})
	peerQuits := map[int]chan struct{}{}
	seen := map[int]bool{}
	for _, r := range rel.resps {
		// rs of the label: the peers that answer in time, also those whose
		// answer is empty (filter not served, unknown stop hash)
		seen[r.peer] = true
		if r.msg == nil {
			continue
		}
		pq, ok := peerQuits[r.peer]
		if !ok {
			pq = make(chan struct{})
			peerQuits[r.peer] = pq
		}
		select {
		case <-pq:
		default:
			checkResponse(e.sps[r.peer-1], r.msg, quit, pq)
		}
	}
	rs := []int{}
	for p := range seen {
		rs = append(rs, p)
	}
	sort.Ints(rs)

	e.mu.Lock()
	e.gate = nil
	switch g.kind {
	case "cp":
		res := "ok"
		if len(rs) == 0 {
			res = "none"
		}
		stale := 0
		if rel.err != nil {
			stale, _ = strconv.Atoi(rel.err.Error())
		}
		e.add(vfCFAct{Op: "GetCheckpts", Res: res, Rs: rs, P: stale, Hi: e.w.modelCeil(int(e.lastH))}, e.obsNow())
		e.fpc = "resolve"
	case "cfh":
		e.pend = &vfFRPend{act: vfCFAct{Op: up + "Cfh", Rs: rs, Lo: e.callLo, Hi: e.callHi}, fn: fn}
		e.uReread = false
	case "flt":
		e.pend = &vfFRPend{act: vfCFAct{Op: up + "Flt", Rs: rs, N: e.callN, Lo: e.callLo, Hi: e.callHi}, fn: fn}
	}
	e.mu.Unlock()
}

func (e *vfFREnv) getBlock(h chainhash.Hash, _ ...QueryOption) (*btcutil.Block, error) {
	fn, _ := vfFRWhere()
	g := &vfFRGate{kind: "blk", hash: h, rel: make(chan vfCFRel, 1)}
	switch fn {
	case vfFRResolve:
		g.mode = "r"
	case vfFRU:
		g.mode = "u"
	}
	e.mu.Lock()
	e.tick()
	o := e.obsNow()
	if e.pend != nil && e.pend.fn != fn {
		e.closeReturned(o)
	}
	e.closeWith("q_blk", o)
	e.fpc = g.mode + "_blk"
	e.gate = g
	e.mu.Unlock()
	var rel vfCFRel
	select {
	case rel = <-g.rel:
	case <-e.done:
		return nil, errors.New("verif: execution over")
	}
	n := 0
	if rel.block != nil {
		n = 1
	}
	e.mu.Lock()
	e.gate = nil
	e.pend = &vfFRPend{act: vfCFAct{Op: strings.ToUpper(g.mode) + "Blk", N: n, Lo: e.callLo, Hi: e.callHi}, fn: fn}
	e.mu.Unlock()
	return rel.block, rel.err
}

func (e *vfFREnv) banPeerFree(addr string, reason banman.Reason) error {
	if e.quiet.Load() == 0 {
		if fn, _ := vfFRWhere(); fn != "" {
			e.mu.Lock()
			e.tick()
			if e.pend != nil && e.pend.fn != fn {
				e.closeReturned(e.obsNow())
			}
			if fn == vfFRResolve && e.pend == nil {
				e.startResolve()
			}
			e.mu.Unlock()
		}
	}
	return e.vfCFEnv.banPeer(addr, reason)
}

type vfFRDisp struct{ e *vfFREnv }

func (d *vfFRDisp) Query(reqs []*query.Request, options ...query.QueryOption) chan error {
	e := d.e
	fn, _ := vfFRWhere()
	e.mu.Lock()
	defer e.mu.Unlock()
	e.tick()
	o := e.obsNow()
	if e.pend != nil && e.pend.fn != fn {
		e.closeReturned(o)
	}
	if e.pend == nil {
		e.pend = &vfFRPend{act: vfCFAct{Op: "CPStart"}, fn: vfFRCP}
	}
	e.pend.act.N = len(reqs)
	e.closeWith("wait", o)
	e.qreqs = reqs
	e.qfin = map[uint32]bool{}
	e.qerr = make(chan error, 1)
	e.qtarget = 0
	for _, r := range reqs {
		if _, ht, ok := e.locate(r.Req.(*wire.MsgGetCFHeaders).StopHash); ok && uint32(ht) > e.qtarget {
			e.qtarget = uint32(ht)
		}
	}
	e.inQuery = true
	e.fpc = "cp_wait"
	return e.qerr
}

// ---- the controller -------------------------------------------------------------

func (e *vfFREnv) answering(q string, rng *rand.Rand) []int {
	rs := e.mustAnswer(q)
	e.banMu.Lock()
	for p := 1; p <= e.np; p++ {
		if e.kind(p) != "T" || e.banned[p-1] == 1 {
			continue
		}
		if p == e.sc.Late && !e.connected {
			continue
		}
		if rng.Float64() < 0.65 {
			rs = append(rs, p)
		}
	}
	e.banMu.Unlock()
	rng.Shuffle(len(rs), func(i, j int) { rs[i], rs[j] = rs[j], rs[i] })
	return rs
}

// release answers the broadcast / block request the handler waits in.
func (e *vfFREnv) release(g *vfFRGate, rng *rand.Rand) {
	switch g.kind {
	case "cp":
		rs := e.answering("cp", rng)
		resps := e.responses(rs, g.msg)
		rel := vfCFRel{}
		if rng.Float64() < 0.2 {
			// the answer of the lowest-numbered honest peer is preceded by a
			// cfcheckpt message of that peer that belongs to an older request
			sp := 0
			for _, p := range rs {
				if e.kind(p) == "H" && (sp == 0 || p < sp) {
					sp = p
				}
			}
			q := g.msg.(*wire.MsgGetCFCheckpt)
			if c, r, ok := e.locate(q.StopHash); ok && r > 0 && sp != 0 {
				old := *q
				old.StopHash = c.hash[r-1]
				var with []vfCFResp
				for _, x := range resps {
					if x.peer == sp {
						with = append(with, vfCFResp{peer: sp, msg: e.respCheckpts(sp, &old)})
					}
					with = append(with, x)
				}
				resps = with
				rel.err = errors.New(strconv.Itoa(sp)) // carries the label field p
			}
		}
		rel.resps = resps
		g.rel <- rel
	case "cfh":
		g.rel <- vfCFRel{resps: e.responses(e.answering("cfh", rng), g.msg)}
	case "flt":
		g.rel <- vfCFRel{resps: e.responses(e.answering("flt", rng), g.msg)}
	case "blk":
		rel := vfCFRel{err: errors.New("verif: block not served")}
		if rng.Float64() < 0.9 {
			if c, r, ok := e.locate(g.hash); ok && c.blk[r] != nil {
				rel = vfCFRel{block: btcutil.NewBlock(c.blk[r])}
			}
		}
		g.rel <- rel
	}
}

// deliver hands one answer of the batched fetch to the request's handler, or
// lets the dispatcher report failure.
func (e *vfFREnv) deliver(rng *rand.Rand) {
	type cand struct {
		req *query.Request
		p   int
		msg wire.Message
	}
	var cands []cand
	e.banMu.Lock()
	banned := append([]int(nil), e.banned...)
	e.banMu.Unlock()
	for _, r := range e.qreqs {
		q := r.Req.(*wire.MsgGetCFHeaders)
		if e.qfin[q.StartHeight] {
			continue
		}
		for p := 1; p <= e.np; p++ {
			if banned[p-1] == 1 || e.kind(p) == "CX" || (p == e.sc.Late && !e.connected) {
				continue
			}
			if m := e.respCFHeaders(p, q, false); m != nil {
				cands = append(cands, cand{req: r, p: p, msg: m})
			}
		}
	}
	if len(cands) == 0 || rng.Float64() < 0.04 {
		e.mu.Lock()
		e.pend = &vfFRPend{act: vfCFAct{Op: "CPEnd"}, fn: vfFRCP}
		e.mu.Unlock()
		e.qerr <- errors.New("verif: batch timed out")
		return
	}
	c := cands[rng.Intn(len(cands))]
	q := c.req.Req.(*wire.MsgGetCFHeaders)
	lo := e.w.modelCeil(int(q.StartHeight))
	hi := lo
	if _, r, ok := e.locate(q.StopHash); ok {
		hi = e.w.modelCeil(r)
	}
	e.mu.Lock()
	e.pend = &vfFRPend{act: vfCFAct{Op: "CPDeliver", Res: "acc", P: c.p, J: int(q.StartHeight-1) / 1000, Lo: lo, Hi: hi}, fn: vfFRCP}
	e.mu.Unlock()
	prog := c.req.HandleResp(c.req.Req, c.msg, e.peerAddr(c.p))
	e.mu.Lock()
	if prog.Finished {
		e.qfin[q.StartHeight] = true
	} else if e.pend != nil && e.pend.act.Op == "CPDeliver" {
		e.pend.act.Res = "rej"
	}
	e.mu.Unlock()
}

// settle is called when synctest.Wait() returned: the handler is blocked.  A
// step that is still running ends here: outside a callback the handler can
// only be in a retry sleep, on a condition variable or in the select of the
// batched fetch.
func (e *vfFREnv) settle() {
	if e.pend == nil && e.gate == nil && !e.inQuery {
		switch e.fpc {
		case "aftercp":
			e.fpc = "tip" // on a condition variable (top of the round or at the tip)
		case "resolve":
			// blocked right after the lists arrived: the retry sleep (no list
			// at all, or resolveConflict gave up without a single call)
			e.fpc = "retry"
		}
	}
	if e.pend == nil || e.gate != nil || e.dead {
		return
	}
	o := e.obsNow()
	switch e.pend.fn {
	case vfFRResolve:
		e.closeWith("err", o)
		e.fpc = "retry"
	case vfFRCP:
		// still in the select: the answer was refused or taken
		e.closeWith(e.pend.act.Res, o)
	case vfFRU:
		// nil is followed by the wait for a new tip (or the next call), an
		// error by the retry sleep
		res := "err"
		if f0 := e.lastObsF(); len(o.F) > len(f0) && len(f0) > 0 {
			res = "ok"
		} else if len(o.Mem) == 4 && o.Mem[1] == o.Mem[3] {
			res = "ok"
		}
		e.closeWith(res, o)
		if res == "ok" {
			e.fpc = "tip"
		} else {
			e.fpc = "tipz"
		}
	}
}

// extend: a headers batch (handleHeadersMsg's tail): written to the real
// store, the tip published, the waiters woken.
func (e *vfFREnv) extend(n int) error {
	bt := e.btModel()
	if bt < 0 {
		return fmt.Errorf("block tip %d is not a model height", e.curTip)
	}
	to := e.w.R(bt + n)
	if e.nre == 0 {
		if to > e.w.main.tip() {
			return fmt.Errorf("main chain too short")
		}
	} else {
		if e.cur.br != e.nre {
			nc := e.cur.fork(e.curTip)
			nc.br = e.nre
			e.cur = nc
			e.chains = append(e.chains, nc)
		}
		from := e.cur.tip() + 1
		e.w.extend(e.cur, e.nre, to)
		for r := from; r <= to; r++ {
			e.loc[e.cur.hash[r]] = vfCFLoc{c: e.cur, r: r}
		}
	}
	batch := make([]headerfs.BlockHeader, 0, to-e.curTip)
	for r := e.curTip + 1; r <= to; r++ {
		batch = append(batch, headerfs.BlockHeader{BlockHeader: e.cur.hdr[r], Height: uint32(r)})
	}
	res := "ok"
	if err := e.rawB.WriteHeaders(batch...); err != nil {
		res = "err"
	} else {
		e.curTip = to
		e.bm.newHeadersMtx.Lock()
		e.bm.headerTip = uint32(to)
		e.bm.headerTipHash = e.cur.hash[to]
		e.bm.newHeadersMtx.Unlock()
	}
	e.mu.Lock()
	e.add(vfCFAct{Op: "Extend", Res: res, N: n}, e.obsNow())
	e.mu.Unlock()
	e.nextend++
	// from here on the handler may run
	e.bm.newHeadersSignal.Broadcast()
	return nil
}

func (e *vfFREnv) rollback(h int) error {
	e.quiet.Add(1)
	res, err := e.vfCFEnv.exec(vfCFAct{Op: "Rollback", N: h})
	e.quiet.Add(-1)
	if err != nil {
		return err
	}
	e.mu.Lock()
	e.add(vfCFAct{Op: "Rollback", Res: res, N: h}, e.obsNow())
	e.eventsAt = append(e.eventsAt, "reorg@"+e.fpc)
	e.mu.Unlock()
	e.nreorg++
	return nil
}

// reorg: rollBackToHeight(bt-d) and, in the same breath as in
// handleHeadersMsg, the first n headers of the new branch.
func (e *vfFREnv) reorg(bt, d, n int) (bool, error) {
	floor := e.hard
	if floor < 1 {
		floor = 1
	}
	if bt-d < floor {
		d = bt - floor
	}
	if d < 1 {
		return false, nil
	}
	h := bt - d
	if h+n > e.w.maxH {
		n = e.w.maxH - h
	}
	if n < 1 {
		n = 1
	}
	if err := e.rollback(h); err != nil {
		return false, err
	}
	return true, e.extend(n)
}

// event performs one step of the block handler, if one is left: a
// reorganisation (rollBackToHeight and, in the same breath as in
// handleHeadersMsg, the first batch of the new branch) or a plain batch.
func (e *vfFREnv) event(rng *rand.Rand) (bool, error) {
	bt := e.btModel()
	if bt < 0 {
		return false, nil
	}
	floor := e.hard
	if floor < 1 {
		floor = 1
	}
	canReorg := e.nreorg < e.sc.Reorgs && bt-1 >= floor
	canExt := e.nextend-e.nreorg < e.sc.Extends && bt+1 <= e.w.maxH
	if canReorg && (!canExt || rng.Float64() < 0.6) {
		return e.reorg(bt, 1+rng.Intn(3), 1+rng.Intn(2))
	}
	if canExt {
		n := 1 + rng.Intn(2)
		if bt+n > e.w.maxH {
			n = 1
		}
		e.mu.Lock()
		e.eventsAt = append(e.eventsAt, "batch@"+e.fpc)
		e.mu.Unlock()
		return true, e.extend(n)
	}
	return false, nil
}

// aim: the reorganisation the scenario places at a particular gate.
func (e *vfFREnv) aim() (bool, error) {
	if e.aimed || e.sc.EvGate == "" || e.nreorg >= e.sc.Reorgs {
		return false, nil
	}
	e.mu.Lock()
	at := e.fpc
	e.mu.Unlock()
	if at != e.sc.EvGate {
		return false, nil
	}
	bt := e.btModel()
	if bt < 0 {
		return false, nil
	}
	e.aimed = true
	return e.reorg(bt, e.sc.EvDepth, e.sc.EvN)
}

func (e *vfFREnv) run(rng *rand.Rand) (string, error) {
	go func() {
		defer func() {
			r := recover()
			e.mu.Lock()
			defer e.mu.Unlock()
			if r != nil {
				if err, ok := r.(error); ok && errors.Is(err, errVfFRSpin) {
					e.pend = nil
				} else {
					e.notes = append(e.notes, fmt.Sprintf("cfHandler panicked: %v", r))
					if e.pend == nil {
						e.pend = &vfFRPend{act: vfCFAct{Op: "Begin"}, fn: vfFRLoop}
					}
					e.closeWith("panic", e.obsNow())
				}
				e.dead = true
				e.vfCFEnv.pc = "dead"
			}
			e.exited = true
		}()
		e.bm.cfHandler()
	}()
	idle := 0
	for it := 0; it < 6000; it++ {
		synctest.Wait()
		e.mu.Lock()
		e.settle()
		dead, exited, n, g, inq, np := e.dead, e.exited, len(e.steps), e.gate, e.inQuery, e.nprobe
		e.mu.Unlock()
		if e.spin {
			return "spin", nil
		}
		if dead || exited {
			return "dead", nil
		}
		if n >= e.sc.MaxSteps {
			return "steps", nil
		}
		e.nblocked++
		if e.sc.Late != 0 && !e.connected && e.nblocked >= e.sc.LateAt {
			e.connected = true
		}
		acted, err := e.aim()
		if err != nil {
			return "", err
		}
		if !acted && rng.Float64() < e.sc.PEvent {
			if acted, err = e.event(rng); err != nil {
				return "", err
			}
		}
		switch {
		case g != nil:
			e.release(g, rng)
			idle = 0
		case inq:
			e.deliver(rng)
			idle = 0
		case acted:
			idle = 0
		default:
			// a retry sleep or a condition variable: let (virtual) time pass
			time.Sleep(retryTimeout + time.Millisecond)
			synctest.Wait()
			e.mu.Lock()
			moved := e.nprobe != np || e.gate != nil
			e.mu.Unlock()
			if moved {
				e.nsleeps++
				idle = 0
				continue
			}
			// only the block handler can wake it
			ok, err := e.event(rng)
			if err != nil {
				return "", err
			}
			if !ok {
				idle++
				if idle >= 2 {
					return "quiescent", nil
				}
			}
		}
	}
	return "iterations", nil
}

func (e *vfFREnv) shutdownFree() {
	close(e.done)
	if e.bm != nil {
		close(e.bm.quit)
		for i := 0; i < 50; i++ {
			e.bm.newHeadersSignal.Broadcast()
			e.bm.newFilterHeadersSignal.Broadcast()
			synctest.Wait()
			e.mu.Lock()
			x := e.exited
			e.mu.Unlock()
			if x {
				break
			}
			time.Sleep(time.Second)
		}
	}
	if e.db != nil {
		e.db.Close()
	}
	if e.dir != "" {
		os.RemoveAll(e.dir)
	}
}

func vfFRBody(w *vfCFWorld, sc vfFRScen) (out vfFROut) {
	out.ID = sc.ID
	out.Free = &sc
	out.Steps = []vfCFStepOut{}
	tmpl, err := w.template(sc.Bt, sc.Ft, sc.Hard)
	if err != nil {
		out.Error = "template: " + err.Error()
		return
	}
	dir, err := os.MkdirTemp(w.scratch, "f")
	if err != nil {
		out.Error = err.Error()
		return
	}
	base := &vfCFEnv{w: w, dir: dir, asg: sc.Asg, hard: sc.Hard, np: len(sc.Asg),
		addrIx: map[string]int{}, loc: map[chainhash.Hash]vfCFLoc{},
		fake: map[string]chainhash.Hash{}, lin: map[string][]chainhash.Hash{},
		done: make(chan struct{}), pc: "top", cur: w.main, curTip: w.R(sc.Bt),
		chains: []*vfCFChain{w.main}}
	e := &vfFREnv{vfCFEnv: base, sc: &sc, fpc: "top"}
	defer func() {
		if r := recover(); r != nil {
			buf := make([]byte, 8192)
			buf = buf[:runtime.Stack(buf, false)]
			out.Error = fmt.Sprintf("driver panic: %v\n%s", r, buf)
		}
		e.shutdownFree()
	}()
	for _, fn := range vfCFStoreFiles {
		if err := vfCFCopy(filepath.Join(tmpl, fn), filepath.Join(dir, fn)); err != nil {
			out.Error = err.Error()
			return
		}
	}
	e.banned = make([]int, e.np)
	for i := 1; i <= e.np; i++ {
		pp, err := peer.NewOutboundPeer(&peer.Config{}, e.peerAddr(i))
		if err != nil {
			out.Error = err.Error()
			return
		}
		e.sps = append(e.sps, &ServerPeer{Peer: pp})
		e.addrIx[e.peerAddr(i)] = i
	}
	db, err := walletdb.Open("bdb", filepath.Join(dir, "neutrino.db"), true, 10*time.Second, false)
	if err != nil {
		out.Error = "db open: " + err.Error()
		return
	}
	e.db = db
	params := w.params[sc.Hard]
	bstore, err := headerfs.NewBlockHeaderStore(dir, db, params)
	if err != nil {
		out.Error = "block store: " + err.Error()
		return
	}
	fstore, err := headerfs.NewFilterHeaderStore(dir, db, headerfs.RegularFilter, params, nil)
	if err != nil {
		out.Error = "filter store: " + err.Error()
		return
	}
	e.rawB, e.rawF = bstore, fstore
	e.quiet.Add(1)
	bm, err := newBlockManager(&blockManagerCfg{
		ChainParams:      *params,
		BlockHeaders:     &vfFRBStore{BlockHeaderStore: bstore, e: e},
		RegFilterHeaders: &vfFRFStore{FilterHeaderStore: fstore, e: e},
		QueryDispatcher:  &vfFRDisp{e: e},
		TimeSource:       blockchain.NewMedianTime(),
		BanPeer:          e.banPeerFree,
		GetBlock:         e.getBlock,
		queryAllPeers:    e.queryAllPeers,
	})
	e.quiet.Add(-1)
	if err != nil {
		out.Error = "newBlockManager: " + err.Error()
		return
	}
	e.bm = bm
	// block notifications are sent on an unbuffered channel
	go func() {
		for {
			select {
			case <-bm.blockNtfnChan:
			case <-bm.quit:
				return
			}
		}
	}()
	out.InitObs = e.obsNow()
	rng := rand.New(rand.NewSource(sc.Seed))
	t0 := time.Now()
	end, err := e.run(rng)
	if err != nil {
		out.Error = "controller: " + err.Error()
	}
	e.mu.Lock()
	out.Steps = append(out.Steps, e.steps...)
	out.Info = map[string]interface{}{
		"end": end, "probes": e.nprobe, "virtual_s": int(time.Since(t0) / time.Second),
		"retry_sleeps": e.nsleeps, "reorgs": e.nreorg, "batches": e.nextend,
		"blocked_moments": e.nblocked, "late_connected": e.connected,
		"events_at": e.eventsAt,
	}
	if len(e.notes) > 0 {
		out.Info["notes"] = e.notes
	}
	e.mu.Unlock()
	return
}

func vfFRRun(t *testing.T, w *vfCFWorld, sc vfFRScen) (out vfFROut) {
	defer func() {
		if r := recover(); r != nil {
			// the bubble could not end (a goroutine of the code under test is
			// blocked for good); the trace has been taken by then
			if out.Info == nil {
				out.Info = map[string]interface{}{}
			}
			out.Info["bubble"] = fmt.Sprint(r)
			if out.Free == nil {
				out.ID, out.Free = sc.ID, &sc
				out.Error = "bubble: " + fmt.Sprint(r)
			}
		}
	}()
	synctest.Test(t, func(*testing.T) { out = vfFRBody(w, sc) })
	return
}

func TestVerifCFSyncFree(t *testing.T) {
	in, outFn := os.Getenv("VERIF_PATHS"), os.Getenv("VERIF_OUT")
	if in == "" || outFn == "" {
		t.Skip("VERIF_PATHS / VERIF_OUT not set")
	}
	scratch := os.Getenv("VERIF_SCRATCH")
	if scratch == "" {
		scratch = t.TempDir()
	}
	seed, _ := strconv.ParseInt(os.Getenv("VERIF_SEED"), 10, 64)
	f, err := os.Open(in)
	if err != nil {
		t.Fatal(err)
	}
	defer f.Close()
	var scens []vfFRScen
	sc := bufio.NewScanner(f)
	sc.Buffer(make([]byte, 1<<20), 1<<26)
	maxH := 2
	for sc.Scan() {
		var s vfFRScen
		if err := json.Unmarshal(sc.Bytes(), &s); err != nil {
			t.Fatal(err)
		}
		if s.Bt > maxH {
			maxH = s.Bt
		}
		scens = append(scens, s)
	}
	if v, err := strconv.Atoi(os.Getenv("VERIF_CFS_MAXH")); err == nil && v > maxH {
		maxH = v
	}
	w, err := vfCFNewWorld(seed, maxH, scratch)
	if err != nil {
		t.Fatal(err)
	}
	// the stores the executions start from are built outside the bubbles
	for _, s := range scens {
		if _, err := w.template(s.Bt, s.Ft, s.Hard); err != nil {
			t.Fatal(err)
		}
	}
	workers := 4
	if v, err := strconv.Atoi(os.Getenv("VERIF_FR_WORKERS")); err == nil && v > 0 {
		workers = v
	}
	results := make([]vfFROut, len(scens))
	var wg sync.WaitGroup
	jobs := make(chan int)
	for k := 0; k < workers; k++ {
		wg.Add(1)
		go func() {
			defer wg.Done()
			for i := range jobs {
				results[i] = vfFRRun(t, w, scens[i])
			}
		}()
	}
	for i := range scens {
		jobs <- i
	}
	close(jobs)
	wg.Wait()
	of, err := os.Create(outFn)
	if err != nil {
		t.Fatal(err)
	}
	bw := bufio.NewWriter(of)
	enc := json.NewEncoder(bw)
	for i := range results {
		if err := enc.Encode(&results[i]); err != nil {
			t.Fatal(err)
		}
	}
	bw.Flush()
	of.Close()
}
