//go:build verif

// Adapter of the ConcQueue driver (harness/overlay/chanutils/zz_verif_concqueue_test.go,
// compiled into this package with its package clause rewritten) for
// lnd/queue.ConcurrentQueue, the pinned dependency that blockntfns uses as the
// unbounded queue of every block subscription (manager.go: ntfnQueue).  The
// queue's fields are unexported in another package: they are read through
// reflect / unsafe, for observation and clean-up only.
package blockntfns

import (
	"container/list"
	"reflect"
	"unsafe"

	"github.com/lightningnetwork/lnd/queue"
)

const vcqImpl = "lnd/queue.ConcurrentQueue"

func vcqNew(buf int) vcqQ { return queue.NewConcurrentQueue(buf) }

func vcqField(q vcqQ, name string) reflect.Value {
	f := reflect.ValueOf(q.(*queue.ConcurrentQueue)).Elem().FieldByName(name)
	return reflect.NewAt(f.Type(), unsafe.Pointer(f.UnsafeAddr())).Elem()
}

func vcqOverflow(q vcqQ) []int {
	out := []int{}
	l := vcqField(q, "overflow").Interface().(*list.List)
	for e := l.Front(); e != nil; e = e.Next() {
		out = append(out, e.Value.(int))
	}
	return out
}

func vcqChans(q vcqQ) (chan any, chan any) {
	return vcqField(q, "chanIn").Interface().(chan interface{}), vcqField(q, "chanOut").Interface().(chan interface{})
}
