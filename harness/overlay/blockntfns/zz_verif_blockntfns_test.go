package blockntfns

// Driver for the BlockNtfns family (property C11).  Injected into package
// blockntfns at build time with `go test -overlay`; nothing is copied into
// /repo.  It runs the REAL SubscriptionManager against a scripted
// NotificationSource that the driver owns (the notifications channel and the
// backlog function) and records what the clients of the manager observe.
//
//   TestVerifBlockNtfnsReplay  strict replay of paths of specs/BlockNtfns
//                              (Eager graph): one driver goroutine per path
//                              steps the handler by what it feeds it and
//                              waits on observable effects (the handler calls
//                              Notifications() at the top of every loop
//                              iteration; channel lengths).
//   TestVerifBlockNtfnsFree    free-running executions: emitter, subscribers
//                              with randomised consumers, cancels and Stop
//                              run concurrently; one log under one mutex
//                              gives the linearised trace judged by TLC.
//
// Events are numbered 1,2,3,...; the number travels in the notification's
// height (and in the header nonce, checked on receipt).

import (
	"bufio"
	"bytes"
	"encoding/json"
	"errors"
	"fmt"
	"io"
	"math/rand"
	"os"
	"os/exec"
	"path/filepath"
	"runtime"
	"strconv"
	"strings"
	"sync"
	"sync/atomic"
	"testing"
	"time"

	"github.com/btcsuite/btcd/wire/v2"
)

const (
	bnBlockT  = 10 * time.Second // a call / hand-over that takes longer is "blocked" (normal: microseconds)
	bnSettleT = 2 * time.Second  // bounded polling for the forwarders to settle
	bnShortT  = 20 * time.Millisecond
	bnLateT   = 500 * time.Millisecond
)

// bnTimeouts counts the long waits that ran out.  On code that behaves the
// count stays 0.  Once a few have expired the run has its verdict already,
// and the remaining paths use bnLateT (still > 10000x the normal latency) so
// that a broken tree does not take hours to report.
var bnTimeouts int32

func bnLong() time.Duration {
	if atomic.LoadInt32(&bnTimeouts) >= 4 {
		return bnLateT
	}
	return bnBlockT
}

func bnExpired() { atomic.AddInt32(&bnTimeouts, 1) }

// bnOffPaths counts replayed paths on which the code left the model's
// prediction (0 on the unchanged tree).  The first bnOffKeep of them are
// still fed their remaining steps (judged by Props alone); after that a
// path is abandoned at its first deviating step and waits are cut (to 1 s,
// still >10000x normal), and after 4*bnOffKeep deviating paths the remaining
// paths are not executed at all (they are written with no steps), so that a
// tree that deviates everywhere still reports within minutes.
var bnOffPaths int32

// per process; the work is spread over one child process per CPU
var bnOffKeep = int32(max(3, 48/max(1, runtime.NumCPU())))

// bnInts is a JSON array that is never null.
type bnInts []int

func (b bnInts) MarshalJSON() ([]byte, error) {
	if b == nil {
		return []byte("[]"), nil
	}
	return json.Marshal([]int(b))
}

type bnAct struct {
	Op  string `json:"op"`
	S   int    `json:"s"`
	H   int    `json:"h"`
	Bl  bnInts `json:"bl"`
	S2  int    `json:"s2"`
	H2  int    `json:"h2"`
	Bl2 bnInts `json:"bl2"`
	K   int    `json:"k"`
	Res string `json:"res"`
}

type bnObs struct {
	Emitted int     `json:"emitted"`
	Stopped int     `json:"stopped"`
	Sub     []int   `json:"sub"`
	Recv    [][]int `json:"recv"`
	Closed  []int   `json:"closed"`
	Len     []int   `json:"len"`
}

type bnStepIn struct {
	Act bnAct  `json:"act"`
	Obs *bnObs `json:"obs"`
}

type bnPathIn struct {
	ID      int        `json:"id"`
	InitObs *bnObs     `json:"init_obs"`
	Steps   []bnStepIn `json:"steps"`
}

type bnStepOut struct {
	Act  bnAct  `json:"act"`
	Obs  bnObs  `json:"obs"`
	Diag string `json:"diag,omitempty"`
}

type bnPathOut struct {
	ID      int         `json:"id"`
	InitObs bnObs       `json:"init_obs"`
	Steps   []bnStepOut `json:"steps"`
	Mode    string      `json:"mode,omitempty"`
	Info    string      `json:"info,omitempty"`
	Error   string      `json:"error,omitempty"`
}

func bnHeader(k int) wire.BlockHeader {
	return wire.BlockHeader{Version: 1, Nonce: uint32(k), Timestamp: time.Unix(1600000000+int64(k)*600, 0)}
}

// bnEv is one event of the scripted source: the Connected notification of a
// new block at the given height, or the Disconnected notification of the tip.
// Its id (position in emission order) travels in the header nonce.
type bnEv struct {
	kind   byte // 'C' or 'D'
	height int
}

func bnDump() string {
	buf := make([]byte, 1<<20)
	return string(buf[:runtime.Stack(buf, true)])
}

// ---------------------------------------------------------------------------
// Scripted NotificationSource.  Events are handed over through a channel
// with ONE buffer slot: the driver puts event k there (so the handler's
// select sees it ready whenever it looks), and "the handler has taken k" is
// the observable fact len(cur) == 0.  Only the handler goroutine receives
// from cur and NotificationsSinceHeight runs in the handler goroutine, so
// inside the backlog function the number of accepted events is exact.
type bnSource struct {
	mu       sync.Mutex
	cur      chan BlockNtfn
	inflight int
	accepted int
	loops    int
	tick     chan struct{}
	evs      []bnEv // evs[id]; evs[0] is unused
	chainOff []int  // the chain after every OFFERED event: ids of the Connected events by height-1
	chainAcc []int  // the chain after the events the handler has TAKEN
	lastTip  int    // events taken at the most recent backlog call (-1: none)
	lastBl   []int  // what that call answered (event ids)
	byH      map[int]bnAnswer // the most recent answer per requested height
	onAccept func(k int)      // called under mu when the take of event k is noticed

	// strict replay: the next backlog call signals gateHit and waits for gate
	// (holds the handler inside handleNewSubscription)
	gate, gateHit chan struct{}
}

type bnAnswer struct {
	k  int
	bl []int
}

func bnNewSource(slots int) *bnSource {
	return &bnSource{cur: make(chan BlockNtfn, slots), tick: make(chan struct{}), lastTip: -1,
		evs: make([]bnEv, 1), byH: map[int]bnAnswer{}}
}

// offerLocked creates the next event (a Connected one extending the offered
// chain, or the Disconnected one of its tip) and puts it into the source
// channel, which must have a free slot.
func (s *bnSource) offerLocked(kind byte) int {
	id := len(s.evs)
	var n BlockNtfn
	if kind == 'D' && len(s.chainOff) > 0 {
		h := len(s.chainOff)
		s.chainOff = s.chainOff[:h-1]
		var tip wire.BlockHeader
		if h > 1 {
			tip = bnHeader(s.chainOff[h-2])
		}
		s.evs = append(s.evs, bnEv{'D', h})
		n = NewBlockDisconnected(bnHeader(id), uint32(h), tip)
	} else {
		s.chainOff = append(s.chainOff, id)
		s.evs = append(s.evs, bnEv{'C', len(s.chainOff)})
		n = NewBlockConnected(bnHeader(id), uint32(len(s.chainOff)))
	}
	s.cur <- n
	s.inflight = id
	return id
}

// decodeLocked maps a received notification to its event id (-2: not an
// event of this source, or altered).
func (s *bnSource) decode(n BlockNtfn) int {
	if n == nil {
		return -2
	}
	id := int(n.Header().Nonce)
	if id <= 0 || id >= len(s.evs) || int(n.Height()) != s.evs[id].height {
		return -2
	}
	switch n.(type) {
	case *Connected:
		if s.evs[id].kind != 'C' {
			return -2
		}
	case *Disconnected:
		if s.evs[id].kind != 'D' {
			return -2
		}
	default:
		return -2
	}
	return id
}

// syncLocked notices which of the offered events the handler has taken:
// inflight events were put into cur (in order), len(cur) are still there.
func (s *bnSource) syncLocked() {
	for taken := s.inflight - len(s.cur); s.accepted < taken; {
		s.accepted++
		if s.evs[s.accepted].kind == 'C' {
			s.chainAcc = append(s.chainAcc, s.accepted)
		} else {
			s.chainAcc = s.chainAcc[:len(s.chainAcc)-1]
		}
		if s.onAccept != nil {
			s.onAccept(s.accepted)
		}
	}
}

func (s *bnSource) bcastLocked() {
	close(s.tick)
	s.tick = make(chan struct{})
}

// Notifications is evaluated by the handler every time it enters its select:
// everything the previous arm did is complete when this is called.
func (s *bnSource) Notifications() <-chan BlockNtfn {
	s.mu.Lock()
	s.syncLocked()
	s.loops++
	s.bcastLocked()
	s.mu.Unlock()
	return s.cur
}

func (s *bnSource) NotificationsSinceHeight(height uint32) ([]BlockNtfn, uint32, error) {
	s.mu.Lock()
	s.syncLocked()
	tip := len(s.chainAcc)
	h := int(height)
	bl := []int{}
	if h != 0 && h < tip {
		bl = append(bl, s.chainAcc[h:tip]...)
	}
	s.lastTip, s.lastBl = s.accepted, bl
	s.byH[h] = bnAnswer{s.accepted, bl}
	gate, hit := s.gate, s.gateHit
	s.gate, s.gateHit = nil, nil
	s.mu.Unlock()
	if gate != nil {
		close(hit)
		<-gate // the handler goroutine is held here: no event can be taken meanwhile
	}
	if h == 0 || h == tip {
		return nil, uint32(tip), nil
	}
	if h > tip {
		return nil, 0, fmt.Errorf("request with height %d is greater than best height known %d", h, tip)
	}
	blocks := make([]BlockNtfn, 0, len(bl))
	for i, id := range bl {
		blocks = append(blocks, NewBlockConnected(bnHeader(id), uint32(h+1+i)))
	}
	return blocks, uint32(tip), nil
}

// waitFor waits (woken by the handler's loop ticks, bounded) until cond holds
// under mu.
func (s *bnSource) waitFor(limit time.Duration, cond func() bool) bool {
	if limit == bnBlockT {
		limit = bnLong()
	}
	deadline := time.Now().Add(limit)
	for {
		s.mu.Lock()
		s.syncLocked()
		ok := cond()
		t := s.tick
		s.mu.Unlock()
		if ok {
			return true
		}
		left := time.Until(deadline)
		if left <= 0 {
			bnExpired()
			return false
		}
		if left > 5*time.Millisecond {
			left = 5 * time.Millisecond
		}
		select {
		case <-t:
		case <-time.After(left):
		}
	}
}

func bnCall(limit time.Duration, fn func()) bool {
	done := make(chan struct{})
	go func() {
		defer close(done)
		fn()
	}()
	if limit == bnBlockT {
		limit = bnLong()
	}
	select {
	case <-done:
		return true
	case <-time.After(limit):
		bnExpired()
		return false
	}
}

// bnExpLen: how many notifications a subscriber is owed (backlog of nbl
// entries taken when k events had been emitted; emitted events by now).
func bnExpLen(nbl, k, emitted int) int {
	if emitted > k {
		return nbl + emitted - k
	}
	return nbl
}

// ---------------------------------------------------------------------------
// Strict replay.
type bnEnv struct {
	m       *SubscriptionManager
	src     *bnSource
	n       int
	subs    []*Subscription
	cst     []int
	regN    []int
	regK    []int
	ended   []bool
	recv    [][]int
	closed  []int
	emitted int
	stopped bool
	off     bool // the code left the path's prediction: keep waits short
}

func (e *bnEnv) observe() bnObs {
	o := bnObs{Emitted: e.emitted, Sub: append([]int(nil), e.cst...), Closed: append([]int(nil), e.closed...),
		Recv: make([][]int, e.n), Len: make([]int, e.n)}
	if e.stopped {
		o.Stopped = 1
	}
	for s := 0; s < e.n; s++ {
		o.Recv[s] = append([]int{}, e.recv[s]...)
		if e.cst[s] == 1 || e.cst[s] == 2 {
			o.Len[s] = len(e.subs[s].Notifications)
		}
	}
	return o
}

// readOne reads one item: 1 got an item, 0 closed, -1 nothing within limit.
func (e *bnEnv) readOne(s int, limit time.Duration) int {
	var tm <-chan time.Time
	if limit > 0 {
		t := time.NewTimer(limit)
		defer t.Stop()
		tm = t.C
	} else {
		select {
		case x, ok := <-e.subs[s].Notifications:
			return e.took(s, x, ok)
		default:
			return -1
		}
	}
	select {
	case x, ok := <-e.subs[s].Notifications:
		return e.took(s, x, ok)
	case <-tm:
		if limit >= bnLateT {
			bnExpired()
		}
		return -1
	}
}

func (e *bnEnv) took(s int, x BlockNtfn, ok bool) int {
	if !ok {
		e.closed[s] = 1
		return 0
	}
	e.recv[s] = append(e.recv[s], e.src.decode(x))
	return 1
}

func (e *bnEnv) waitLoop(c0 int) bool {
	return e.src.waitFor(bnBlockT, func() bool { return e.src.loops > c0 })
}

func (e *bnEnv) loops() int {
	e.src.mu.Lock()
	defer e.src.mu.Unlock()
	return e.src.loops
}

func (e *bnEnv) settle(pred *bnObs) {
	if pred == nil || len(pred.Len) != e.n {
		return
	}
	limit := bnSettleT
	if e.off {
		limit = bnShortT
	} else if atomic.LoadInt32(&bnOffPaths) >= bnOffKeep {
		limit = 100 * time.Millisecond
	}
	deadline := time.Now().Add(limit)
	for i := 0; ; i++ {
		ok := true
		for s := 0; s < e.n; s++ {
			if e.cst[s] == 1 || e.cst[s] == 2 {
				if len(e.subs[s].Notifications) != pred.Len[s] {
					ok = false
				}
			}
		}
		if ok {
			return
		}
		if time.Now().After(deadline) {
			e.off = true
			return
		}
		if i < 200 {
			runtime.Gosched()
		} else {
			time.Sleep(50 * time.Microsecond)
		}
	}
}

func (e *bnEnv) exec(in bnStepIn) bnStepOut {
	a := in.Act
	out := bnStepOut{Act: a}
	long := bnLong()
	if e.off {
		long = 200 * time.Millisecond
	} else if atomic.LoadInt32(&bnOffPaths) >= bnOffKeep {
		long = time.Second
	}
	switch a.Op {
	case "Subscribe":
		s := a.S - 1
		c0 := e.loops()
		e.src.mu.Lock()
		e.src.lastTip, e.src.lastBl = -1, nil
		e.src.mu.Unlock()
		var sub *Subscription
		var err error
		if !bnCall(bnBlockT, func() { sub, err = e.m.NewSubscription(uint32(a.H)) }) {
			out.Act.Res, out.Diag = "blocked", bnDump()
			e.cst[s] = 3
			break
		}
		e.src.mu.Lock()
		out.Act.K, out.Act.Bl = e.src.lastTip, nil
		bl := e.src.lastBl
		e.src.mu.Unlock()
		switch {
		case err == nil:
			out.Act.Res, out.Act.Bl = "ok", bl
			e.subs[s], e.cst[s], e.regN[s], e.regK[s] = sub, 1, len(bl), out.Act.K
			if e.stopped {
				e.ended[s] = true
			} else {
				e.waitLoop(c0)
			}
		case errors.Is(err, ErrSubscriptionManagerStopped):
			out.Act.Res = "stopped"
			e.cst[s] = 3
		default:
			out.Act.Res = "err"
			e.cst[s] = 3
		}
	case "Subscribe2":
		// Two calls in flight: the handler is held inside the registration
		// of the first while the second call is made and gets past its id
		// assignment (observed on the id counter, bounded), then released.
		s1, s2 := a.S-1, a.S2-1
		c0 := e.loops()
		gate, hit := make(chan struct{}), make(chan struct{})
		e.src.mu.Lock()
		e.src.lastTip = -1
		e.src.gate, e.src.gateHit = gate, hit
		e.src.mu.Unlock()
		cnt0 := atomic.LoadUint64(&e.m.subscriberCounter)
		type res struct {
			sub *Subscription
			err error
		}
		r1, r2 := make(chan res, 1), make(chan res, 1)
		go func() {
			sub, err := e.m.NewSubscription(uint32(a.H))
			r1 <- res{sub, err}
		}()
		held := true
		select {
		case <-hit:
		case <-time.After(bnLong()):
			held = false
			bnExpired()
		}
		go func() {
			sub, err := e.m.NewSubscription(uint32(a.H2))
			r2 <- res{sub, err}
		}()
		for i := 0; held && atomic.LoadUint64(&e.m.subscriberCounter) < cnt0+2 && i < 400; i++ {
			if i < 100 {
				runtime.Gosched()
			} else {
				time.Sleep(50 * time.Microsecond)
			}
		}
		close(gate)
		e.src.mu.Lock()
		e.src.gate, e.src.gateHit = nil, nil
		e.src.mu.Unlock()
		out.Act.Res, out.Act.Bl, out.Act.Bl2 = "ok", nil, nil
		for i, rc := range []chan res{r1, r2} {
			s := []int{s1, s2}[i]
			h := []int{a.H, a.H2}[i]
			select {
			case r := <-rc:
				if r.err != nil {
					e.cst[s] = 3
					if errors.Is(r.err, ErrSubscriptionManagerStopped) {
						out.Act.Res = "stopped"
					} else {
						out.Act.Res = "err"
					}
					continue
				}
				e.src.mu.Lock()
				ans := e.src.byH[h]
				e.src.mu.Unlock()
				e.subs[s], e.cst[s], e.regN[s], e.regK[s] = r.sub, 1, len(ans.bl), ans.k
				if i == 0 {
					out.Act.Bl = ans.bl
				} else {
					out.Act.Bl2 = ans.bl
				}
			case <-time.After(bnLong()):
				bnExpired()
				e.cst[s] = 3
				out.Act.Res, out.Diag = "blocked", bnDump()
			}
		}
		e.src.mu.Lock()
		out.Act.K = e.src.lastTip
		e.src.mu.Unlock()
		if out.Act.Res == "ok" {
			e.src.waitFor(bnBlockT, func() bool { return e.src.loops > c0+1 })
		}
	case "Emit", "EmitD":
		out.Act.Res = "ok"
		kind := byte('C')
		if a.Op == "EmitD" {
			kind = 'D'
		}
		for k := e.emitted + 1; k <= a.K; k++ {
			e.src.mu.Lock()
			c0 := e.src.loops
			if len(e.src.cur) != 0 {
				e.src.mu.Unlock()
				out.Act.Res, out.Diag = "blocked", "previous event never taken\n"+bnDump()
				break
			}
			if id := e.src.offerLocked(kind); id != k {
				e.src.mu.Unlock()
				panic(fmt.Sprintf("event numbering out of step: %d vs %d", id, k))
			}
			e.src.mu.Unlock()
			e.emitted = k
			if !e.src.waitFor(bnBlockT, func() bool { return e.src.accepted >= k && e.src.loops > c0 }) {
				out.Act.Res, out.Diag = "blocked", bnDump()
				break
			}
		}
	case "Read":
		s := a.S - 1
		out.Act.Res, out.Act.K = "ok", 0
		for i := 0; i < a.H; i++ {
			r := e.readOne(s, long)
			if r == 1 {
				out.Act.K = e.recv[s][len(e.recv[s])-1]
				continue
			}
			if i == 0 {
				if r == 0 {
					out.Act.Res = "closed"
				} else {
					out.Act.Res = "empty"
					e.off = true
				}
			}
			break
		}
	case "Cancel":
		s := a.S - 1
		c0 := e.loops()
		if !bnCall(bnBlockT, func() { e.subs[s].Cancel() }) {
			out.Act.Res, out.Diag = "blocked", bnDump()
			break
		}
		out.Act.Res = "ok"
		e.cst[s] = 2
		e.ended[s] = true
		if !e.stopped {
			e.waitLoop(c0)
		}
	case "Stop":
		if !bnCall(bnBlockT, func() { e.m.Stop() }) {
			out.Act.Res, out.Diag = "blocked", bnDump()
			break
		}
		out.Act.Res = "ok"
		e.stopped = true
		for s := range e.ended {
			e.ended[s] = true
		}
	case "Quiesce":
		out.Act.Res = "ok"
		for s := 0; s < e.n; s++ {
			if (a.S>>uint(s))&1 == 1 || (e.cst[s] != 1 && e.cst[s] != 2) || e.closed[s] == 1 {
				continue
			}
			if e.ended[s] {
				r := 1
				for r == 1 {
					r = e.readOne(s, long)
				}
				if r == -1 {
					e.off = true
				}
				continue
			}
			want := bnExpLen(e.regN[s], e.regK[s], e.emitted)
			for len(e.recv[s]) < want {
				if e.readOne(s, long) != 1 {
					e.off = true
					break
				}
			}
			// anything beyond what is owed (a duplicate at the tail)?
			for i := 0; i < 50 && len(e.subs[s].Notifications) == 0; i++ {
				runtime.Gosched()
			}
			for e.readOne(s, 0) == 1 {
			}
		}
	case "StopCall", "Note":
		// labels of free-running traces that have no counterpart when a
		// saved trace is re-executed sequentially
	default:
		panic("unknown op " + a.Op)
	}
	if a.Op != "Quiesce" {
		e.settle(in.Obs)
	}
	out.Obs = e.observe()
	if in.Act.Res != "" && out.Act.Res != in.Act.Res {
		e.off = true
	}
	return out
}

func bnRunPath(p bnPathIn) (out bnPathOut) {
	out.ID = p.ID
	out.Steps = []bnStepOut{}
	if atomic.LoadInt32(&bnOffPaths) >= 4*bnOffKeep {
		out.Info = "not executed: too many deviating paths before this one"
		return
	}
	n := 2
	if p.InitObs != nil && len(p.InitObs.Sub) > 0 {
		n = len(p.InitObs.Sub)
	}
	for _, st := range p.Steps {
		if st.Act.Op != "Quiesce" && st.Act.S > n {
			n = st.Act.S
		}
		if st.Act.S2 > n {
			n = st.Act.S2
		}
	}
	src := bnNewSource(1)
	e := &bnEnv{m: NewSubscriptionManager(src), src: src, n: n, subs: make([]*Subscription, n),
		cst: make([]int, n), regN: make([]int, n), regK: make([]int, n), ended: make([]bool, n),
		recv: make([][]int, n), closed: make([]int, n)}
	defer func() {
		if r := recover(); r != nil {
			out.Error = fmt.Sprintf("driver panic: %v\n%s", r, bnDump())
		}
	}()
	e.m.Start()
	defer func() {
		// release the goroutines of this path whatever state it ended in
		go e.m.Stop()
	}()
	if !e.waitLoop(0) {
		out.Error = "handler did not start"
		return
	}
	out.InitObs = e.observe()
	bnJBegin(out.ID, out.InitObs)
	for _, st := range p.Steps {
		op := st.Act.Op
		s := st.Act.S - 1
		// A step the real objects cannot take (the path assumed another
		// outcome of an earlier step) ends the replay of this path.
		if (op == "Read" || op == "Cancel") && (s < 0 || s >= n || (e.cst[s] != 1 && e.cst[s] != 2)) {
			break
		}
		if op == "Read" && e.closed[s] == 1 {
			break
		}
		if op == "Subscribe" && (s < 0 || s >= n || e.cst[s] != 0) {
			break
		}
		if op == "Subscribe2" && (s < 0 || s >= n || e.cst[s] != 0 || st.Act.S2 < 1 || st.Act.S2 > n ||
			e.cst[st.Act.S2-1] != 0 || e.stopped) {
			break
		}
		if (op == "Emit" || op == "EmitD") && e.stopped {
			break
		}
		was := e.off
		so := e.exec(st)
		out.Steps = append(out.Steps, so)
		bnJStep(so)
		if so.Act.Res == "blocked" {
			break
		}
		if e.off && !was && atomic.AddInt32(&bnOffPaths, 1) > bnOffKeep {
			break
		}
	}
	return
}

// ---------------------------------------------------------------------------
// Child processes.  A panic in a goroutine of the code under test cannot be
// recovered by the driver and kills the process.  All work therefore runs in
// child processes of this test binary (one per CPU, each executing its share
// of the items ONE AT A TIME and journalling the item in progress).  When a
// child dies with a Go panic whose stack is in the code under test, the item
// in progress becomes a trace ending in the step Crash=panic (with the panic
// text), which Props judge like any other outcome, and the child is restarted
// behind that item.  A child that dies for any other reason is a driver error.
type bnJournalHdr struct {
	ID      int   `json:"id"`
	InitObs bnObs `json:"init_obs"`
}

var bnJournal *os.File // only in children

func bnJBegin(id int, o bnObs) {
	if bnJournal == nil {
		return
	}
	b, _ := json.Marshal(bnJournalHdr{ID: id, InitObs: o})
	bnJournal.Truncate(0)
	bnJournal.Seek(0, 0)
	bnJournal.Write(append(b, '\n'))
}

func bnJStep(st bnStepOut) {
	if bnJournal == nil {
		return
	}
	st.Diag = ""
	b, _ := json.Marshal(st)
	bnJournal.Write(append(b, '\n'))
}

// bnCrashText extracts the panic message and the panicking goroutine's stack
// and says whether the first frame outside the runtime is in the code under
// test (blockntfns sources other than this driver, or lnd's queue).
func bnCrashText(stderr string) (text string, inCUT bool, sendOnClosed bool) {
	i := strings.Index(stderr, "panic: ")
	if k := strings.Index(stderr, "fatal error: "); k >= 0 && (i < 0 || k < i) {
		i = k
	}
	if i < 0 {
		return "", false, false
	}
	text = stderr[i:]
	if k := strings.Index(text, "\n\ngoroutine "); k >= 0 {
		if e := strings.Index(text[k+2:], "\n\n"); e >= 0 {
			text = text[:k+2+e]
		}
	}
	if len(text) > 6000 {
		text = text[:6000]
	}
	sendOnClosed = strings.Contains(text[:min(len(text), 200)], "send on closed channel")
	for _, ln := range strings.Split(text, "\n") {
		if !strings.HasPrefix(ln, "\t") {
			continue
		}
		switch {
		case strings.Contains(ln, "/runtime/") || strings.Contains(ln, "/src/testing/") || strings.Contains(ln, "/src/sync/"):
			continue
		case strings.Contains(ln, "zz_verif_"):
			return text, false, sendOnClosed
		case strings.Contains(ln, "/blockntfns/") || strings.Contains(ln, "/lnd/queue"):
			return text, true, sendOnClosed
		default:
			return text, false, sendOnClosed
		}
	}
	return text, false, sendOnClosed
}

func bnReadResults(fn string) ([]bnPathOut, error) {
	f, err := os.Open(fn)
	if err != nil {
		if os.IsNotExist(err) {
			return nil, nil
		}
		return nil, err
	}
	defer f.Close()
	var res []bnPathOut
	sc := bufio.NewScanner(f)
	sc.Buffer(make([]byte, 1<<20), 1<<28)
	for sc.Scan() {
		var r bnPathOut
		if err := json.Unmarshal(sc.Bytes(), &r); err != nil {
			return nil, err
		}
		res = append(res, r)
	}
	return res, sc.Err()
}

// bnChildren runs items 0..n-1 of the given mode in child processes; child w
// executes the items i with i % nw == w, in increasing order.
func bnChildren(t *testing.T, mode string, n int, scratch string, outFile string) {
	final, err := os.Create(outFile)
	if err != nil {
		t.Fatal(err)
	}
	defer final.Close()
	nw := runtime.NumCPU()
	if v, err := strconv.Atoi(os.Getenv("VERIF_WORKERS")); err == nil && v > 0 {
		nw = v
	}
	if nw > n {
		nw = n
	}
	var mu sync.Mutex
	var crashes int32
	var wg sync.WaitGroup
	for w := 0; w < nw; w++ {
		wg.Add(1)
		go func(w int) {
			defer wg.Done()
			outFn := filepath.Join(scratch, fmt.Sprintf("child-%s-%d.out", mode, w))
			jFn := filepath.Join(scratch, fmt.Sprintf("child-%s-%d.journal", mode, w))
			os.Remove(outFn)
			defer os.Remove(outFn)
			defer os.Remove(jFn)
			var extra []bnPathOut
			start := 0
			for start < n {
				os.Remove(jFn)
				cmd := exec.Command(os.Args[0], "-test.run", "^TestVerifBlockNtfnsChild$", "-test.count=1",
					"-test.timeout", "7200s")
				cmd.Env = append(os.Environ(), "VERIF_CHILD="+mode, "VERIF_CHILD_W="+strconv.Itoa(w),
					"VERIF_CHILD_NW="+strconv.Itoa(nw), "VERIF_CHILD_N="+strconv.Itoa(n),
					"VERIF_CHILD_START="+strconv.Itoa(start), "VERIF_CHILD_OUT="+outFn, "VERIF_CHILD_JOURNAL="+jFn)
				var buf bytes.Buffer
				cmd.Stdout, cmd.Stderr = &buf, &buf
				err := cmd.Run()
				if err == nil {
					break
				}
				// the child died: which item was in progress?
				cur := bnPathOut{ID: -1, Steps: []bnStepOut{}}
				idx := -1
				if jb, e := os.ReadFile(jFn); e == nil {
					lines := strings.Split(strings.TrimRight(string(jb), "\n"), "\n")
					var hdr struct {
						bnJournalHdr
						Idx int `json:"idx"`
					}
					if len(lines) > 0 && json.Unmarshal([]byte(lines[0]), &hdr) == nil && hdr.InitObs.Sub != nil {
						cur.ID, cur.InitObs = hdr.ID, hdr.InitObs
						for _, ln := range lines[1:] {
							var st bnStepOut
							if json.Unmarshal([]byte(ln), &st) != nil {
								break // a torn last line
							}
							cur.Steps = append(cur.Steps, st)
						}
					}
				}
				if ib, e := os.ReadFile(jFn + ".idx"); e == nil {
					idx, _ = strconv.Atoi(strings.TrimSpace(string(ib)))
				}
				text, inCUT, soc := bnCrashText(buf.String())
				if cur.ID < 0 && idx >= 0 && inCUT {
					// died between two items (goroutines of the previous one)
					cur.ID = 1000000000 + idx
					cur.InitObs = bnObs{Sub: []int{}, Recv: [][]int{}, Closed: []int{}, Len: []int{}}
				}
				if cur.ID >= 0 && idx >= 0 && inCUT {
					last := cur.InitObs
					if len(cur.Steps) > 0 {
						last = cur.Steps[len(cur.Steps)-1].Obs
					}
					k := 0
					if soc {
						k = 1
					}
					cur.Steps = append(cur.Steps, bnStepOut{Act: bnAct{Op: "Crash", K: k, Res: "panic"}, Obs: last, Diag: text})
					cur.Mode = mode
					cur.Info = "the process died with a panic in the code under test while this item was executed"
				} else {
					out := buf.String()
					if len(out) > 4000 {
						out = out[len(out)-4000:]
					}
					cur.Error = fmt.Sprintf("child %s/%d died (%v) at item %d, not with a panic of the code under test:\n%s",
						mode, w, err, idx, out)
					if cur.InitObs.Sub == nil {
						cur.InitObs = bnObs{Sub: []int{}, Recv: [][]int{}, Closed: []int{}, Len: []int{}}
					}
				}
				extra = append(extra, cur)
				if idx < 0 || atomic.AddInt32(&crashes, 1) > 40 {
					break // cannot resume / the verdict is in
				}
				start = idx + 1
			}
			// results are passed on as they are (the child wrote one JSON line per item)
			mu.Lock()
			defer mu.Unlock()
			if cf, err := os.Open(outFn); err == nil {
				_, err = io.Copy(final, cf)
				cf.Close()
				if err != nil {
					extra = append(extra, bnPathOut{ID: -1, Steps: []bnStepOut{}, Error: "copying child results: " + err.Error(),
						InitObs: bnObs{Sub: []int{}, Recv: [][]int{}, Closed: []int{}, Len: []int{}}})
				}
			}
			for i := range extra {
				b, _ := json.Marshal(&extra[i])
				final.Write(append(b, '\n'))
			}
		}(w)
	}
	wg.Wait()
}

type bnFreeCfg struct {
	seed         int64
	minEv, maxEv int
	profile      string
	screen       int
}

func bnFreeCfgFromEnv() bnFreeCfg {
	c := bnFreeCfg{profile: os.Getenv("VERIF_FREE_PROFILE")}
	c.seed, _ = strconv.ParseInt(os.Getenv("VERIF_SEED"), 10, 64)
	c.minEv, _ = strconv.Atoi(os.Getenv("VERIF_FREE_MIN_EVENTS"))
	c.maxEv, _ = strconv.Atoi(os.Getenv("VERIF_FREE_MAX_EVENTS"))
	c.screen, _ = strconv.Atoi(os.Getenv("VERIF_FREE_SCREEN"))
	if c.minEv <= 0 {
		c.minEv = 5
	}
	if c.maxEv < c.minEv {
		c.maxEv = c.minEv
	}
	return c
}

// bnFreeKeep: in a screened batch only runs whose outcome is not the plain
// one (a receive sequence that is not consecutive, a blocked call, a run that
// did not reach quiescence, a driver error) and every n-th run are written
// out for judging.  The others are counted.
func bnFreeKeep(i int, r *bnPathOut, screen int) bool {
	if screen <= 0 || i%screen == 0 || r.Error != "" || len(r.Steps) == 0 ||
		r.Steps[len(r.Steps)-1].Act.Op != "Quiesce" {
		return true
	}
	for _, rv := range r.Steps[len(r.Steps)-1].Obs.Recv {
		for j := 1; j < len(rv); j++ {
			if rv[j] != rv[j-1]+1 {
				return true
			}
		}
	}
	for _, st := range r.Steps {
		if st.Act.Res == "blocked" {
			return true
		}
	}
	return false
}

func TestVerifBlockNtfnsChild(t *testing.T) {
	mode := os.Getenv("VERIF_CHILD")
	if mode == "" {
		t.Skip("not a child")
	}
	w, _ := strconv.Atoi(os.Getenv("VERIF_CHILD_W"))
	nw, _ := strconv.Atoi(os.Getenv("VERIF_CHILD_NW"))
	n, _ := strconv.Atoi(os.Getenv("VERIF_CHILD_N"))
	start, _ := strconv.Atoi(os.Getenv("VERIF_CHILD_START"))
	of, err := os.OpenFile(os.Getenv("VERIF_CHILD_OUT"), os.O_CREATE|os.O_WRONLY|os.O_APPEND, 0o644)
	if err != nil {
		t.Fatal(err)
	}
	defer of.Close()
	jFn := os.Getenv("VERIF_CHILD_JOURNAL")
	bnJournal, err = os.Create(jFn)
	if err != nil {
		t.Fatal(err)
	}
	emit := func(r *bnPathOut) {
		b, err := json.Marshal(r)
		if err != nil {
			t.Fatal(err)
		}
		of.Write(append(b, '\n'))
	}
	mark := func(i int) {
		// which item is in progress (read by the parent if we die)
		os.WriteFile(jFn+".idx", []byte(strconv.Itoa(i)), 0o644)
		bnJournal.Truncate(0)
		bnJournal.Seek(0, 0)
	}
	defer os.Remove(jFn + ".idx")
	guard := func(i int, r *bnPathOut) {
		if x := recover(); x != nil {
			r.ID, r.Steps = i, []bnStepOut{}
			r.InitObs = bnObs{Sub: []int{}, Recv: [][]int{}, Closed: []int{}, Len: []int{}}
			r.Error = fmt.Sprintf("driver panic: %v\n%s", x, bnDump())
		}
	}
	switch mode {
	case "replay":
		f, err := os.Open(os.Getenv("VERIF_PATHS"))
		if err != nil {
			t.Fatal(err)
		}
		defer f.Close()
		sc := bufio.NewScanner(f)
		sc.Buffer(make([]byte, 1<<20), 1<<28)
		for i := 0; sc.Scan(); i++ {
			if i%nw != w || i < start {
				continue
			}
			var p bnPathIn
			if err := json.Unmarshal(sc.Bytes(), &p); err != nil {
				t.Fatal(err)
			}
			mark(i)
			var r bnPathOut
			func() {
				defer guard(p.ID, &r)
				r = bnRunPath(p)
			}()
			emit(&r)
		}
	case "free":
		c := bnFreeCfgFromEnv()
		for i := w; i < n; i += nw {
			if i < start {
				continue
			}
			mark(i)
			var r bnPathOut
			func() {
				defer guard(i, &r)
				r = bnFreeRun(i, c.seed*1000003+int64(i)*7919+1, c.minEv, c.maxEv, c.profile)
			}()
			if bnFreeKeep(i, &r, c.screen) {
				emit(&r)
			}
		}
	default:
		t.Fatal("unknown child mode " + mode)
	}
}

func bnWrite(t *testing.T, fn string, results []bnPathOut) {
	of, err := os.Create(fn)
	if err != nil {
		t.Fatal(err)
	}
	w := bufio.NewWriterSize(of, 1<<20)
	enc := json.NewEncoder(w)
	for i := range results {
		if err := enc.Encode(&results[i]); err != nil {
			t.Fatal(err)
		}
	}
	w.Flush()
	of.Close()
}

func bnScratch(t *testing.T) string {
	sc := os.Getenv("VERIF_SCRATCH")
	if sc == "" {
		sc = t.TempDir()
	}
	return sc
}

func bnCountLines(fn string) (int, error) {
	f, err := os.Open(fn)
	if err != nil {
		return 0, err
	}
	defer f.Close()
	sc := bufio.NewScanner(f)
	sc.Buffer(make([]byte, 1<<20), 1<<28)
	n := 0
	for sc.Scan() {
		n++
	}
	return n, sc.Err()
}

func TestVerifBlockNtfnsReplay(t *testing.T) {
	in, outFn := os.Getenv("VERIF_PATHS"), os.Getenv("VERIF_OUT")
	if in == "" || outFn == "" || os.Getenv("VERIF_CHILD") != "" {
		t.Skip("VERIF_PATHS / VERIF_OUT not set")
	}
	n, err := bnCountLines(in)
	if err != nil {
		t.Fatal(err)
	}
	bnChildren(t, "replay", n, bnScratch(t), outFn)
}

// ---------------------------------------------------------------------------
// Free-running executions.
type bnFree struct {
	src      *bnSource // src.mu is the log mutex
	m        *SubscriptionManager
	n        int
	steps    []bnStepOut
	cst      []int
	recv     [][]int
	closed   []int
	subs     []*Subscription
	regN     []int
	regK     []int
	ended    []bool
	stopRet  bool
	failed   bool // something blocked: the run is being abandoned
}

func (f *bnFree) obsLocked() bnObs {
	o := bnObs{Emitted: f.src.accepted, Sub: append([]int(nil), f.cst...), Closed: append([]int(nil), f.closed...),
		Recv: make([][]int, f.n), Len: make([]int, f.n)}
	if f.stopRet {
		o.Stopped = 1
	}
	for s := 0; s < f.n; s++ {
		o.Recv[s] = append([]int{}, f.recv[s]...)
	}
	return o
}

func (f *bnFree) logLocked(a bnAct, diag string) {
	f.steps = append(f.steps, bnStepOut{Act: a, Obs: f.obsLocked(), Diag: diag})
	bnJStep(f.steps[len(f.steps)-1])
}

// log appends one step at its linearisation point; mk runs under the log
// mutex, may update the driver's bookkeeping and returns the label.
func (f *bnFree) log(diag string, mk func() bnAct) {
	f.src.mu.Lock()
	f.src.syncLocked()
	a := mk()
	f.logLocked(a, diag)
	f.src.bcastLocked()
	f.src.mu.Unlock()
}

// got records what consumer s read; returns false when the channel is closed.
func (f *bnFree) got(s int, x BlockNtfn, ok bool) bool {
	f.src.mu.Lock()
	f.src.syncLocked()
	if ok {
		f.recv[s] = append(f.recv[s], f.src.decode(x))
	} else {
		f.closed[s] = 1
	}
	f.src.mu.Unlock()
	return ok
}

type bnSubPlan struct {
	StartAfter  int    // subscribe once this many events have been accepted
	HMode       int    // 0: height 0, 1: random height <= tip, 2: the tip, 3: above the tip
	Mode        string // fast | slow | stall | never
	CancelAt    int    // cancel once this many events have been accepted (-1: never)
	CancelAside bool   // Cancel() from another goroutine than the consumer
	Seed        int64
}

// profile "stop": every run calls Stop() while a saturating emitter and fast
// consumers are at work (shutdown under load).
func bnFreeRun(id int, seed int64, minEv, maxEv int, profile string) (out bnPathOut) {
	out.ID, out.Mode = id, "free"
	out.Steps = []bnStepOut{}
	rng := rand.New(rand.NewSource(seed))
	n := 2 + rng.Intn(3)
	nev := minEv + rng.Intn(maxEv-minEv+1)
	slots := 1
	if profile == "stop" || rng.Intn(4) == 0 {
		slots = 2 + rng.Intn(4) // several events ready at once (a source that runs ahead)
	}
	src := bnNewSource(slots)
	f := &bnFree{src: src, n: n, cst: make([]int, n), recv: make([][]int, n), closed: make([]int, n),
		subs: make([]*Subscription, n), regN: make([]int, n), regK: make([]int, n), ended: make([]bool, n)}
	src.onAccept = func(k int) {
		op := "Emit"
		if src.evs[k].kind == 'D' {
			op = "EmitD"
		}
		f.logLocked(bnAct{Op: op, K: k, Res: "ok"}, "")
	}
	f.m = NewSubscriptionManager(src)
	f.m.Start()
	src.waitFor(bnBlockT, func() bool { return src.loops > 0 })
	src.mu.Lock()
	out.InitObs = f.obsLocked()
	src.mu.Unlock()
	bnJBegin(id, out.InitObs)

	modes := []string{"fast", "fast", "slow", "stall", "never"}
	stopAt := -1
	if rng.Intn(3) == 0 {
		stopAt = rng.Intn(nev + 1)
	}
	burst := rng.Intn(3) == 0 // emitter without think times
	reorgs := rng.Intn(2) == 0 // the source also disconnects blocks (re-organisations)
	early := rng.Intn(4) == 0 // emitter starts before anybody has subscribed
	if profile == "stop" {
		stopAt, burst, early = 1+rng.Intn(nev), true, false
		reorgs = false // the screen of this batch looks for non-consecutive receive sequences
		modes = []string{"fast", "fast", "fast", "slow"}
	}
	plans := make([]bnSubPlan, n)
	neverMask := 0
	for s := range plans {
		p := bnSubPlan{StartAfter: rng.Intn(nev/2 + 1), HMode: rng.Intn(3), Mode: modes[rng.Intn(len(modes))],
			CancelAt: -1, CancelAside: rng.Intn(2) == 0, Seed: rng.Int63()}
		if rng.Intn(6) == 0 {
			p.HMode = 3
		}
		if rng.Intn(3) == 0 {
			p.CancelAt = rng.Intn(nev + 1)
		}
		if s == 0 {
			p.StartAfter = 0 // at least one early subscriber
		}
		if p.Mode == "never" {
			neverMask |= 1 << uint(s)
		}
		plans[s] = p
	}
	// In half of the runs several subscribers register AT THE SAME MOMENT
	// (released by the same event), with distinct heights: their
	// NewSubscription calls are in flight together.
	if rng.Intn(2) == 0 && nev >= 8 {
		at := n + rng.Intn(nev/2)
		first := rng.Intn(2) // with or without the early subscriber
		if first == 0 {
			early = true // nobody subscribes before the events are out
		}
		for s := first; s < n; s++ {
			plans[s].StartAfter, plans[s].HMode = at, 4
		}
	}
	out.Info = fmt.Sprintf("seed=%d subs=%d events=%d stopAt=%d burst=%v early=%v reorgs=%v slots=%d plans=%+v", seed, n, nev, stopAt, burst, early, reorgs, slots, plans)

	phaseDone := make(chan struct{})
	// NewSubscription calls overlap freely, except that two calls with the
	// SAME height are made one after the other, so that the tip the source
	// reported (which the backlog function learns only by height) can be
	// attributed to its caller.
	var hMuMu sync.Mutex
	hMus := map[int]*sync.Mutex{}
	heightMu := func(h int) *sync.Mutex {
		hMuMu.Lock()
		defer hMuMu.Unlock()
		if hMus[h] == nil {
			hMus[h] = &sync.Mutex{}
		}
		return hMus[h]
	}
	var wgRun, wgCancel sync.WaitGroup
	const deadline = 120 * time.Second

	fail := func(a bnAct) {
		f.log(bnDump(), func() bnAct { f.failed = true; return a })
	}
	// woken also when the manager is gone or the run is being abandoned
	accepted := func(k int) func() bool {
		return func() bool { return src.accepted >= k || f.stopRet || f.failed }
	}

	emitDone := make(chan struct{})
	go func() {
		defer close(emitDone)
		erng := rand.New(rand.NewSource(seed ^ 0x5eed))
		pendingD := 0
		if !early {
			src.waitFor(deadline, func() bool { return f.cst[0] != 0 || f.stopRet || f.failed })
		}
		for k := 1; k <= nev; {
			if !burst && erng.Intn(3) == 0 {
				time.Sleep(time.Duration(erng.Intn(150)) * time.Microsecond)
			}
			src.mu.Lock()
			src.syncLocked()
			if f.stopRet || f.failed {
				src.mu.Unlock()
				return
			}
			// offer as many events as the source channel has free slots
			for k <= nev && len(src.cur) < cap(src.cur) {
				kind := byte('C')
				if pendingD > 0 && len(src.chainOff) > 0 {
					kind = 'D'
					pendingD--
				} else if pendingD = 0; reorgs && len(src.chainOff) > 0 && erng.Intn(8) == 0 {
					// a re-organisation: 1..4 blocks go, replacements follow
					kind = 'D'
					pendingD = erng.Intn(min(4, len(src.chainOff)))
				}
				src.offerLocked(kind)
				k++
			}
			want := src.accepted + 1
			src.mu.Unlock()
			if !src.waitFor(bnBlockT, accepted(want)) {
				fail(bnAct{Op: "Emit", K: want, Res: "blocked"})
				return
			}
		}
		// wait until everything offered has been taken (or the manager is gone)
		if !src.waitFor(bnBlockT, accepted(nev)) {
			fail(bnAct{Op: "Emit", K: nev, Res: "blocked"})
		}
	}()

	doCancel := func(s int) {
		if !bnCall(bnBlockT, func() { f.subs[s].Cancel() }) {
			fail(bnAct{Op: "Cancel", S: s + 1, Res: "blocked"})
			return
		}
		f.log("", func() bnAct {
			f.cst[s] = 2
			f.ended[s] = true
			return bnAct{Op: "Cancel", S: s + 1, Res: "ok"}
		})
	}

	for s := 0; s < n; s++ {
		wgRun.Add(1)
		go func(s int) {
			defer wgRun.Done()
			p := plans[s]
			srng := rand.New(rand.NewSource(p.Seed))
			src.waitFor(deadline, accepted(p.StartAfter))

			src.mu.Lock()
			src.syncLocked()
			tip := len(src.chainAcc)
			src.mu.Unlock()
			h := 0
			switch p.HMode {
			case 1:
				h = srng.Intn(tip + 1)
			case 2:
				h = tip
			case 3:
				h = tip + 1 + srng.Intn(3)
			case 4:
				h = max(1, tip-s)
			}
			subMu := heightMu(h)
			subMu.Lock()
			src.mu.Lock()
			delete(src.byH, h)
			src.mu.Unlock()
			answer := func() bnAnswer {
				if a, ok := src.byH[h]; ok {
					return a
				}
				return bnAnswer{k: -1}
			}
			var sub *Subscription
			var err error
			if !bnCall(bnBlockT, func() { sub, err = f.m.NewSubscription(uint32(h)) }) {
				subMu.Unlock()
				fail(bnAct{Op: "Subscribe", S: s + 1, H: h, K: -1, Res: "blocked"})
				return
			}
			res := "ok"
			if errors.Is(err, ErrSubscriptionManagerStopped) {
				res = "stopped"
			} else if err != nil {
				res = "err"
			}
			f.log("", func() bnAct {
				if res == "ok" {
					f.cst[s], f.subs[s], f.regN[s], f.regK[s] = 1, sub, len(answer().bl), answer().k
					if f.stopRet {
						f.ended[s] = true
					}
				} else {
					f.cst[s] = 3
				}
				a := bnAct{Op: "Subscribe", S: s + 1, H: h, K: answer().k, Res: res}
				if res == "ok" {
					a.Bl = answer().bl
				}
				return a
			})
			subMu.Unlock()
			if res != "ok" {
				return
			}

			reads := p.Mode == "fast" || p.Mode == "slow"
			if p.CancelAt >= 0 && (!reads || p.CancelAside) {
				wgCancel.Add(1)
				go func() {
					defer wgCancel.Done()
					src.waitFor(deadline, accepted(p.CancelAt))
					doCancel(s)
				}()
			}
			if !reads {
				return
			}
			cancelled := p.CancelAt < 0 || p.CancelAside
			for {
				if !cancelled {
					src.mu.Lock()
					src.syncLocked()
					due := src.accepted >= p.CancelAt
					src.mu.Unlock()
					if due {
						cancelled = true
						doCancel(s)
					}
				}
				select {
				case x, ok := <-sub.Notifications:
					if !f.got(s, x, ok) {
						return
					}
					if p.Mode == "slow" && srng.Intn(2) == 0 {
						time.Sleep(time.Duration(srng.Intn(300)) * time.Microsecond)
					}
				case <-phaseDone:
					return
				case <-time.After(200 * time.Microsecond):
				}
			}
		}(s)
	}

	if stopAt >= 0 {
		src.waitFor(deadline, accepted(stopAt))
		f.log("", func() bnAct { return bnAct{Op: "StopCall", Res: "ok"} })
		if !bnCall(bnBlockT, func() { f.m.Stop() }) {
			fail(bnAct{Op: "Stop", Res: "blocked"})
		} else {
			f.log("", func() bnAct {
				f.stopRet = true
				for s := range f.ended {
					f.ended[s] = true
				}
				return bnAct{Op: "Stop", Res: "ok"}
			})
		}
	}
	<-emitDone
	// all events are out (or the manager is gone): every waiter's moment has come
	src.mu.Lock()
	src.syncLocked()
	if src.accepted < nev && !f.stopRet {
		f.failed = true // the emitter gave up: wake everybody who waits for an event number
	}
	src.bcastLocked()
	src.mu.Unlock()
	close(phaseDone)
	wgRun.Wait()
	wgCancel.Wait()

	// Quiescence: everybody outside the mask reads until nothing more is owed.
	src.mu.Lock()
	src.syncLocked()
	blocked := false
	for _, st := range f.steps {
		if st.Act.Res == "blocked" {
			blocked = true
		}
	}
	emitted := src.accepted
	src.mu.Unlock()
	if !blocked {
		var wgD sync.WaitGroup
		for s := 0; s < n; s++ {
			if (neverMask>>uint(s))&1 == 1 || f.subs[s] == nil {
				continue
			}
			wgD.Add(1)
			go func(s int) {
				defer wgD.Done()
				src.mu.Lock()
				closed, ended := f.closed[s] == 1, f.ended[s]
				want := bnExpLen(f.regN[s], f.regK[s], emitted)
				src.mu.Unlock()
				if closed {
					return
				}
				ch := f.subs[s].Notifications
				read := func(limit time.Duration) int {
					select {
					case x, ok := <-ch:
						if f.got(s, x, ok) {
							return 1
						}
						return 0
					case <-time.After(limit):
						if limit >= bnLateT {
							bnExpired()
						}
						return -1
					}
				}
				if ended {
					for read(bnLong()) == 1 {
					}
					return
				}
				for {
					src.mu.Lock()
					have := len(f.recv[s])
					src.mu.Unlock()
					if have >= want || read(bnLong()) != 1 {
						break
					}
				}
				for read(time.Millisecond) == 1 {
				}
			}(s)
		}
		wgD.Wait()
		f.log("", func() bnAct { return bnAct{Op: "Quiesce", S: neverMask, Res: "ok"} })
	}
	if stopAt < 0 {
		bnCall(bnBlockT, func() { f.m.Stop() })
	}
	src.mu.Lock()
	out.Steps = f.steps
	src.mu.Unlock()
	return
}

func TestVerifBlockNtfnsFree(t *testing.T) {
	outFn := os.Getenv("VERIF_OUT")
	runs, _ := strconv.Atoi(os.Getenv("VERIF_FREE_RUNS"))
	if outFn == "" || runs <= 0 || os.Getenv("VERIF_CHILD") != "" {
		t.Skip("VERIF_OUT / VERIF_FREE_RUNS not set")
	}
	bnChildren(t, "free", runs, bnScratch(t), outFn)
}
