"""Generic replay-style check: model -> paths -> real code -> TLC judge."""
import json, os, random, shutil, subprocess, sys, time
from . import core


def build_overlay_test(pkg_dir, overlay_files, out_bin, tags="verif", extra_overlay=None, race=False):
    """Compiles the test binary of the package at pkg_dir (inside /repo or one
    of its modules) with extra *_test.go files injected by -overlay."""
    repl = {}
    for src in overlay_files:
        repl[os.path.join(pkg_dir, os.path.basename(src))] = src
    if extra_overlay:
        repl.update(extra_overlay)
    ov = out_bin + ".overlay.json"
    json.dump({"Replace": repl}, open(ov, "w"))
    cmd = ["go", "test", "-c", "-vet=off", "-overlay", ov, "-tags", tags, "-o", out_bin]
    if race:
        cmd.append("-race")
    cover_dir = os.environ.get("VERIF_COVER_DIR")
    if cover_dir:
        # coverage mode (bin/cover_report): which statements of the repository
        # do the conformance drivers execute at all?
        cmd += ["-cover", "-covermode=atomic", "-coverpkg",
                "github.com/lightninglabs/neutrino/...,github.com/lightninglabs/neutrino/cache/..."]
    cmd.append(".")
    p = subprocess.run(cmd, cwd=pkg_dir, env=core.go_env(), stdout=subprocess.PIPE,
                       stderr=subprocess.STDOUT, text=True)
    if p.returncode != 0:
        raise core.MachineryError("driver build failed (this is a build failure of the harness or of "
                                  "the working tree):\n" + p.stdout[-4000:])
    if cover_dir:
        os.makedirs(cover_dir, exist_ok=True)
        os.replace(out_bin, out_bin + ".real")
        with open(out_bin, "w") as f:
            f.write('#!/bin/bash\nexec -a "%s" "%s.real" "$@" -test.gocoverdir="%s"\n' % (out_bin, out_bin, cover_dir))
        os.chmod(out_bin, 0o755)
    return out_bin


def run_driver(binary, test_name, paths_file, out_file, scratch, timeout=3600, env_extra=None, cwd=None):
    env = core.go_env()
    env.update({"VERIF_PATHS": paths_file, "VERIF_OUT": out_file, "VERIF_SCRATCH": scratch})
    if env_extra:
        env.update(env_extra)
    p = subprocess.run([binary, "-test.run", "^" + test_name + "$", "-test.count=1",
                        "-test.timeout", "%ds" % timeout], cwd=cwd or scratch, env=env,
                       stdout=subprocess.PIPE, stderr=subprocess.STDOUT, text=True)
    if os.environ.get("VERIF_DRIVER_LOG"):
        open(os.environ["VERIF_DRIVER_LOG"], "a").write(p.stdout)
    if p.returncode != 0 or not os.path.exists(out_file):
        raise core.MachineryError("driver failed rc=%d:\n%s" % (p.returncode, p.stdout[-6000:]))
    res = []
    for line in open(out_file):
        res.append(json.loads(line))
    return res, p.stdout


def judge(spec_dirs, props_module, prop_names, prop_id, observed, label=core.default_label,
          known=None, max_report=5):
    """Runs ObsCheck on the observed traces and classifies the violations of
    the properties in prop_names (those belonging to prop_id).
    Returns dict(violations=[...], known=[...], n_lines, wall)."""
    known = core.load_known() if known is None else known
    viol, n_lines, wall = core.obs_check(spec_dirs, props_module, observed)
    by_trace = {}
    for (t, i, name) in viol:
        by_trace.setdefault(t, []).append((i, name))
    obs_by_id = {t["id"]: t for t in observed}
    new, seen_known = [], {}
    for t, lst in sorted(by_trace.items()):
        lst.sort()
        first_i = lst[0][0]
        # only the first violating step of a trace is judged: later ones are
        # consequences of an already broken store/state
        names = [n for (i, n) in lst if i == first_i]
        mine = [n for n in names if n in prop_names]
        if not mine:
            continue
        tr = obs_by_id[t]
        labels = [label(s["act"]) for s in tr["steps"][:first_i]]
        unmatched = []
        for n in mine:
            k = core.match_known(known, prop_id, n, labels)
            if k:
                seen_known.setdefault(k["id"], {"entry": k, "count": 0, "example": labels})
                seen_known[k["id"]]["count"] += 1
            else:
                unmatched.append(n)
        if unmatched:
            new.append({"trace": t, "step": first_i, "props": unmatched, "labels": labels,
                        "observed": tr})
    return {"violations": new, "known": seen_known, "n_lines": n_lines, "wall": wall,
            "raw": len(viol)}


def drift(paths_in, observed, label=core.default_label):
    """Compares what the code did with what the model predicted, step by step
    (up to the first model-violating step)."""
    exp = {}
    for line in open(paths_in):
        d = json.loads(line)
        exp[d["id"]] = d
    n_steps = n_drift = 0
    samples = []
    for t in observed:
        e = exp[t["id"]]
        if t.get("error"):
            continue
        if e.get("init_obs") is not None and t.get("init_obs") != e["init_obs"]:
            n_drift += 1
            if len(samples) < 5:
                samples.append({"trace": t["id"], "step": 0, "what": "initial observables differ",
                                "model": e["init_obs"], "code": t.get("init_obs")})
            continue
        j = 0
        for i, s in enumerate(t["steps"]):
            if s.get("note"):
                # an inserted step that is not part of the model path
                n_drift += 1
                if len(samples) < 5:
                    samples.append({"trace": t["id"], "step": i + 1, "what": s["note"]})
                break
            if j >= len(e["steps"]):
                break
            m = e["steps"][j]
            j += 1
            n_steps += 1
            if s["act"] != m["act"] or s["obs"] != m["obs"]:
                n_drift += 1
                if len(samples) < 5:
                    samples.append({"trace": t["id"], "step": i + 1,
                                    "labels": [label(x["act"]) for x in t["steps"][:i + 1]],
                                    "model_act": m["act"], "code_act": s["act"],
                                    "model_obs": m["obs"], "code_obs": s["obs"]})
                break
    return n_steps, n_drift, samples


def finish(prop_id, tier, seed, t0, tlc, graph, paths, observed, verdict, drift_info, extra_cov,
           assumptions, label=core.default_label, exhaustive=True):
    """Prints KNOWN-FINDING / VIOLATION lines, writes evidence, returns exit code."""
    rc = 0
    for kid, k in sorted(verdict["known"].items()):
        print("KNOWN-FINDING: property=%s %s [%s; seen on %d replayed traces, e.g. %s]" % (
            prop_id, k["entry"]["what_fails"], kid, k["count"], " ".join(k["example"])))
    for v in verdict["violations"][:10]:
        fn = core.save_replay(prop_id, {"property": prop_id, "props": v["props"], "step": v["step"],
                                        "labels": v["labels"], "trace": v["observed"]})
        print("VIOLATION property=%s replay=%s" % (prop_id, fn))
        print("  violated: %s at step %d of: %s" % (",".join(v["props"]), v["step"], " ".join(v["labels"])))
        rc = 1
    errs = [t for t in observed if t.get("error")]
    if errs:
        print("MACHINERY: %d paths ended in a driver error, e.g. %s" % (len(errs), errs[0]["error"][:500]),
              file=sys.stderr)
        if rc == 0:
            rc = 2
    n_steps, n_drift, dsamples = drift_info
    if n_drift:
        print("drift: %d of %d replayed paths left the model's prediction (not a verdict)" % (
            n_drift, len(observed)), file=sys.stderr)
    samples = []
    for t in observed[:3]:
        samples.append({"path": [label(s["act"]) for s in t["steps"]],
                        "last_obs": t["steps"][-1]["obs"] if t["steps"] else t.get("init_obs")})
    cov = {
        "states": max(1, tlc.distinct), "transitions": max(1, len(graph.edges) if graph else tlc.generated),
        "traces_validated_against_impl": len(observed),
        "samples": samples,
        "exhaustive": bool(exhaustive),
        "tlc_states_generated": tlc.generated, "tlc_depth": tlc.depth, "tlc_wall_s": round(tlc.wall, 1),
        "model_edges": len(graph.edges) if graph else 0,
        "model_violating_edges": sum(1 for e in graph.edges if e[4]) if graph else 0,
        "replayed_paths": len(paths), "replayed_steps": sum(len(t["steps"]) for t in observed),
        "judged_lines_by_tlc": verdict["n_lines"],
        "drift": {"paths": n_drift, "steps_compared": n_steps, "samples": dsamples},
        "known_findings_seen": {k: v["count"] for k, v in verdict["known"].items()},
        "new_violations": len(verdict["violations"]),
    }
    cov.update(extra_cov or {})
    core.write_evidence(prop_id, tier, seed, "model_checking", cov, assumptions,
                        time.time() - t0, len(verdict["violations"]))
    return rc


def paths_from_replay(replay_file, pf):
    """Turns a saved replay (an observed trace) back into a one-path input
    for the driver, so that it is re-executed against the working tree."""
    d = json.load(open(replay_file))
    tr = d["trace"]
    steps = [{"act": s["act"], "obs": s["obs"], "viol": []} for s in tr["steps"] if not s.get("note")]
    with open(pf, "w") as f:
        f.write(json.dumps({"id": 0, "init_obs": tr.get("init_obs"), "steps": steps}) + "\n")
    return 1


class _NoTLC:
    generated = distinct = depth = 0
    wall = 0.0
