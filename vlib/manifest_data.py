"""Single source for MANIFEST.json."""

ALL = ["C%02d" % i for i in range(1, 20)]

CHECKS = {
    "C07": dict(
        engine="HeaderStore",
        text="Exhaustive TLC exploration of specs/HeaderStore (two flat files at half-entry granularity, shared "
             "index bucket, OS descriptor offset) over every history of appends (0..k headers), rollbacks (incl. "
             "to and past genesis), reopen points and one (quick) or two (thorough) injected write/index errors at "
             "every durable step; EVERY transition of that graph is replayed against the real headerfs stores "
             "(real files, real bbolt, faults injected through the File/walletdb.DB interfaces) and the list-refinement, "
             "reopen and failed-append operators of HeaderStoreProps.tla are evaluated by TLC on the observed traces.",
        note="Bounded: <=5 ids, <=5 operations, <=2 faults. Trusts TLC, the Go projection of the read API to ids, and "
             "that I/O errors arrive only through the File / walletdb.DB interfaces. Errors injected into rollbacks are "
             "not judged (the property only speaks about failed appends).",
        design="4 C07", technique="TLA+ spec + TLC exhaustive + spec-to-code replay of every transition + TLC-judged observed traces"),
    "C08": dict(
        engine="HeaderStore",
        text="Same specification with a crash allowed at every point between and inside the durable steps of every "
             "store call (file write torn after every half-entry count, after the file write, between the two steps "
             "of a rollback, while idle), followed by recovery; every crash transition is replayed on the real stores "
             "(the fault wrapper performs the torn write on the real file, then kills the call; descriptors are dropped "
             "and the directory reopened) and RecoverOpens / RecoveredContentLegal / NoTornEntry / FilterNotAhead / "
             "PostCrashRefinement are evaluated by TLC on what the reopened stores answer.",
        note="Crash = process death with completed syscalls durable (no power-loss reordering); bbolt commits atomic. "
             "Multi-store crash points (reorganisation, filter-header batch, import) are covered by the BlockManager / "
             "Import families where claimed, not by this store-level check.",
        design="4 C08", technique="TLA+ spec with crash actions + TLC exhaustive + crash-point replay on real files + TLC-judged observed traces"),
}

NOT_YET = "check not built yet in this round (specification planned in DESIGN.md section 4); not claimed"
NOT_APPLICABLE = {
    "C18": "data-race freedom is a happens-before property of Go memory accesses; a TLA+ specification of atomic "
           "actions over abstract state cannot express or decide it (DESIGN.md section 7). Only the Go race detector "
           "decides it, which is a different technique.",
}


def manifest():
    checks = []
    for pid in ALL:
        if pid not in CHECKS:
            continue
        c = CHECKS[pid]
        checks.append({
            "property_id": pid,
            "quick_cmd": "bin/vcheck %s --tier quick" % pid,
            "thorough_cmd": "bin/vcheck %s --tier thorough" % pid,
            "evidence_file": "/verif/evidence/%s.json" % pid,
            "replay_cmd_template": "bin/vcheck %s --replay {path}" % pid,
            "engine": c["engine"],
            "level_claimed": {"category": "model_checking", "text": c["text"], "design_ref": c["design"]},
            "level_note": c["note"],
            "technique": c["technique"],
        })
    na = []
    for pid in ALL:
        if pid in CHECKS:
            continue
        na.append({"property_id": pid, "reason": NOT_APPLICABLE.get(pid, NOT_YET)})
    engines = {}
    for pid, c in CHECKS.items():
        engines.setdefault(c["engine"], []).append(pid)
    return {
        "version": 1,
        "setup_cmd": "bin/setup",
        "hooks": {
            "guard": "verif",
            "enable": "go test -tags verif (drivers are injected with -overlay from /verif/harness/overlay; "
                      "hook files in /repo are //go:build verif)",
            "baseline_off_cmd": "cd /repo && GOFLAGS=-mod=mod go test -vet=off -count=1 -timeout 25m ./... && "
                                "cd cache && GOFLAGS=-mod=mod go test -vet=off -count=1 -timeout 25m ./...",
            "source_commits": HOOK_COMMITS,
            "add_only": True,
        },
        "engines": [{"name": k, "path": "specs/%s" % k, "serves_properties": sorted(v),
                     "kind_free_text": "TLA+ specification checked with TLC, bound to the code by replay/trace validation"}
                    for k, v in sorted(engines.items())],
        "checks": checks,
        "not_applicable": na,
        "notes": "Every verdict is drawn from the behaviour of the real code built from /repo's working tree; the TLA+ "
                 "Props operators are evaluated by TLC on the observed traces. exit 2 = machinery error (never a verdict).",
    }


HOOK_COMMITS = []
