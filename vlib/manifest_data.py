import os
"""Single source for MANIFEST.json."""

ALL = ["C%02d" % i for i in range(1, 20)]

import importlib, pkgutil


def _collect():
    import vlib.families
    out = {}
    for m in sorted(pkgutil.iter_modules(vlib.families.__path__), key=lambda m: m.name):
        try:
            mod = importlib.import_module("vlib.families." + m.name)
        except Exception:
            continue
        if not getattr(mod, "READY", False):
            continue
        out.update(getattr(mod, "MANIFEST", {}))
    return out


CHECKS = _collect()

NOT_YET = "check not built yet in this round (specification planned in DESIGN.md section 4); not claimed"
NOT_APPLICABLE = {
    "C18": "data-race freedom is a happens-before property of Go memory accesses; a TLA+ specification of atomic "
           "actions over abstract state cannot express or decide it (DESIGN.md section 7). Only the Go race detector "
           "decides it, which is a different technique.",
}


def manifest():
    checks = []
    for pid in ALL:
        if pid not in CHECKS:
            continue
        c = CHECKS[pid]
        checks.append({
            "property_id": pid,
            "quick_cmd": "bin/vcheck %s --tier quick" % pid,
            "thorough_cmd": "bin/vcheck %s --tier thorough" % pid,
            "evidence_file": "/verif/evidence/%s.json" % pid,
            "replay_cmd_template": "bin/vcheck %s --replay {path}" % pid,
            "engine": c["engine"],
            "level_claimed": {"category": "model_checking", "text": c["text"], "design_ref": c["design"]},
            "level_note": c["note"],
            "technique": c["technique"],
        })
    na = []
    for pid in ALL:
        if pid in CHECKS:
            continue
        na.append({"property_id": pid, "reason": NOT_APPLICABLE.get(pid, NOT_YET)})
    engines = {}
    for pid, c in CHECKS.items():
        engines.setdefault(c["engine"], []).append(pid)
    # specifications of building blocks that run as slices of the checks named here
    for name, pids in (("HeaderList", ["C02"]), ("ConcQueue", ["C11", "C17"]), ("BatchWriter", ["C17"])):
        if os.path.isdir(os.path.join(os.path.dirname(os.path.dirname(os.path.abspath(__file__))), "specs", name)):
            engines.setdefault(name, []).extend(p for p in pids if p in CHECKS)
    return {
        "version": 1,
        "setup_cmd": "bin/setup",
        "hooks": {
            "guard": "verif",
            "enable": "go test -tags verif (drivers are injected with -overlay from /verif/harness/overlay; "
                      "hook files in /repo are //go:build verif)",
            "baseline_off_cmd": "cd /repo && GOFLAGS=-mod=mod go test -vet=off -count=1 -timeout 25m ./... && "
                                "cd cache && GOFLAGS=-mod=mod go test -vet=off -count=1 -timeout 25m ./...",
            "source_commits": HOOK_COMMITS,
            "add_only": True,
        },
        "engines": [{"name": k, "path": "specs/%s" % k, "serves_properties": sorted(v),
                     "kind_free_text": "TLA+ specification checked with TLC, bound to the code by replay/trace validation"}
                    for k, v in sorted(engines.items())],
        "checks": checks,
        "not_applicable": na,
        "notes": "Every verdict is drawn from the behaviour of the real code built from /repo's working tree; the TLA+ "
                 "Props operators are evaluated by TLC on the observed traces. exit 2 = machinery error (never a verdict).",
    }


def _hook_commits():
    import subprocess
    try:
        out = subprocess.run(["git", "-C", "/repo", "log", "--format=%h %s"], capture_output=True, text=True).stdout
        return [l.split()[0] for l in out.splitlines() if l.split(" ", 1)[1].startswith("verif:")]
    except Exception:
        return []


HOOK_COMMITS = _hook_commits()
