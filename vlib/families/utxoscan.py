"""UtxoScan family: C10 (GetUtxo reports the true fate of an outpoint, exactly once).

Model: specs/UtxoScan/UtxoScan.tla (batch manager at gate granularity, callers,
Stop, growing chain).  Binding: every transition of the bounded graph is
replayed on the real UtxoScanner whose four config callbacks and condition
variable lock are gates (harness/overlay/neutrino/zz_verif_utxoscan_test.go);
TLC evaluates UtxoScanProps on what the callers of the real scanner got.
"""
import json, os, random, shutil, sys, time
from .. import core, family

SPEC = os.path.join(core.VERIF, "specs", "UtxoScan")
DRIVER = os.path.join(core.VERIF, "harness", "overlay", "neutrino", "zz_verif_utxoscan_test.go")
DRIVER_FREE = os.path.join(core.VERIF, "harness", "overlay", "neutrino", "zz_verif_utxoscan_free_test.go")
PKG = core.REPO

READY = True
PROPERTIES = ["C10"]

MANIFEST = {
    "C10": dict(
        engine="UtxoScan",
        text="Exhaustive TLC exploration of specs/UtxoScan (pq, nextBatch, the running batch with the reporter's "
             "requests / initialTxns, chains with creations, spends, later and same-block double spends, "
             "create-and-spend in one block, several requested outputs - of one transaction and of different ones - "
             "paying to ONE script (address re-use: the watch list holds the same script for several outpoints and "
             "blocks match that only create / spend another output with that script; watch-list turnover: a block "
             "that resolves one request and starts another with a different script, the later spend in a block that "
             "is fetched only if its true filter matches the current watch list; requested outputs of the block's "
             "coinbase / a middle / the last transaction at first / last index), best height growing during "
             "the scan, per-request answer bags) over every "
             "interleaving of Enqueue (same outpoint twice, two outputs of one tx, out-of-range index, start below / "
             "at / above the running scan and above the tip), block arrival, a failing answer at every environment "
             "call and Stop relative to the running batch. EVERY transition is replayed on the real UtxoScanner (the "
             "four config callbacks and the lock under its condition variable are gates; real btcd blocks and GCS "
             "filters, the repository's blockFilterMatches over the block's true filter unless the step injects a "
             "false positive) and, in the other direction, thousands of free-running executions of the real scanner are "
             "recorded at its critical sections, linearised and checked to be paths of the TLC state graph. "
             "AnswerIsFate / AnsweredAtMostOnce / NoCallerLeftWaiting(+AboveTip) of UtxoScanProps.tla are evaluated "
             "by TLC on what the callers of the real scanner got, after every step.",
        note="Bounded: 2-6 heights, <=3 requests, <=2 failing environment answers per history, chains from a fixed "
             "catalogue plus one seeded random chain. One model action = one environment answer plus the code up to "
             "the next environment call (equivalence argued in notes/utxoscan.md and checked by the free-running "
             "executions). Callers are read through Result() after every step; caller-side cancel channels, reorgs "
             "during a scan and filter false negatives are not modelled. Open finding KF-UX-3 (start height above "
             "the tip: busy loop, caller waits) is reported as KNOWN-FINDING.",
        design="4 C10", technique="TLA+ spec + TLC exhaustive + gated spec-to-code replay of every transition + "
                                  "free-running code-to-spec trace validation + TLC-judged observed traces"),
}

PROPS = {"C10": ["AnswerIsFate", "AnsweredAtMostOnce", "NoCallerLeftWaiting", "NoCallerLeftWaitingAboveTip"],
         # slice of C17 (run_slice_c17, called by the Shutdown family's check): Stop with a scan in flight
         "C17": ["StopBoundedWork", "StopReturnsDuringScan"]}

ENV_OPS = ("BatchStart", "GetHash", "FilterMatch", "GetBlock", "Tail")

C17_ASSUMPTIONS = [
    "UTXO-scan slice: 'bounded time' for Stop with a scan in flight is measured in the gated UtxoScan driver as the "
    "number of environment calls (BestSnapshot, GetBlockHash, filter fetch + match, GetBlock) the real batch manager "
    "still makes after Stop was called until it has returned - exact and independent of machine load; bounded = at "
    "most the call in flight plus one per-height round of calls (4), whatever the number of heights left (chains "
    "with up to 7 heights left: a scan that walks on makes >= 2 calls per height)",
    "UTXO-scan slice: after Stop the environment keeps answering every call successfully and at once (filters "
    "served from the cache / filter DB, the case in which nothing else ends the scan)",
]

CODE_VERSION = json.load(open(os.path.join(SPEC, "code_version.json")))

ASSUMPTIONS = [
    "the batch manager interacts with other goroutines only at its environment calls, the mutex and the quit "
    "channel, so an Enqueue/Stop/new block between two of its environment calls is equivalent to one issued "
    "while it is blocked in the neighbouring call (gate granularity)",
    "a caller is blocked in Result(): it is answered by the first delivered value or by ErrShuttingDown when quit "
    "closes; values delivered after quit closed are not judged",
    "BlockFilterMatches is truthful up to false positives (real GCS filters of the real blocks); false negatives "
    "of the filter are outside the property",
    "the chain does not reorganise during a scan; blocks only arrive on top",
    "hang bound 30 s per step (normal step: microseconds; Stop while idle: 50 ms)",
]


# --------------------------------------------------------------------------
# chains and request catalogues (single source of truth: TLC constant, driver input, Props observable)
# --------------------------------------------------------------------------
def tx(i, nout, *ins, scr=None, cb=False):
    """scr: script id of every output (default: a script of its own per output, id*10 + index); outputs
    with the same id pay to the same script (address re-use).  cb: the transaction is the COINBASE of its
    block (first of block.Transactions, null-outpoint input; first of the block description, no ins)."""
    scr = list(scr) if scr is not None else [i * 10 + k for k in range(nout)]
    assert len(scr) == nout and all(x > 0 for x in scr)
    d = {"id": i, "nout": nout, "ins": [list(x) for x in ins], "scr": scr}
    if cb:
        assert not ins
        d["cb"] = 1
    return d


# tx ids: 1 = A (two outputs), 2 = B, >= 3 spenders; 9 = a transaction that is not in the chain
CH3 = [  # 3 heights
    [tx(1, 2)],                                   # h1 creates A:0, A:1
    [tx(2, 1), tx(3, 1, (2, 0), (1, 0))],         # h2 creates B:0 and spends it in the same block (input 0); A:0 spent by input 1
    [tx(4, 1, (1, 0)),                            # h3 spends A:0 again (later spend of the same outpoint) ...
     tx(5, 1, (9, 0), (1, 0), (1, 1))],           # ... and once more in the same block; first spend of A:1 (input 2)
]
CAT3 = [(1, 0, 1), (1, 0, 3), (1, 1, 1), (1, 1, 2), (1, 2, 1), (2, 0, 2), (1, 0, 4), (1, 1, 3)]

CH4 = [  # 4 heights
    [tx(5, 1, (9, 0))],                           # h1 unrelated
    [tx(1, 2)],                                   # h2 creates A
    [tx(2, 1), tx(3, 1, (2, 0))],                 # h3 creates and spends B
    [tx(4, 1, (9, 1), (1, 1)), tx(6, 1, (1, 1))], # h4 spends A:1 twice in one block (input 1 of tx 4, input 0 of tx 6)
]
CAT4 = [(1, 0, 2), (1, 0, 3), (1, 1, 2), (1, 1, 1), (1, 1, 4), (1, 2, 2), (2, 0, 3), (2, 0, 1), (1, 1, 5), (1, 0, 1)]

CH5 = [  # 5 heights
    [tx(1, 2)],                                   # h1 creates A
    [],                                           # h2 empty
    [tx(3, 1, (1, 0))],                           # h3 spends A:0
    [tx(2, 1), tx(4, 2, (1, 1), (2, 0))],         # h4 creates B, spends A:1 (input 0) and B:0 (input 1)
    [tx(6, 1, (1, 0)), tx(7, 1, (1, 1))],         # h5 later spends of both
]
CAT5 = [(1, 0, 1), (1, 0, 2), (1, 0, 4), (1, 1, 1), (1, 1, 5), (1, 2, 1), (2, 0, 4), (2, 0, 3), (1, 0, 6), (1, 1, 3)]


CH2S = [  # 2 heights: one start block creating two multi-output transactions
    [tx(1, 2), tx(2, 2)],                         # h1 creates A:0, A:1 and, later in the same block, B:0, B:1
    [tx(3, 1, (1, 0)), tx(4, 1, (9, 0), (2, 1))], # h2 spends A:0 (input 0) and B:1 (input 1); A:1 and B:0 stay unspent
]
CAT2S = [(1, 0, 1), (1, 1, 1), (2, 0, 1), (2, 1, 1), (2, 0, 2), (1, 2, 1)]


# address re-use: S is one script several outputs pay to
S = 900
CHR = [  # 4 heights: three outputs (two of one transaction, one of another) pay to the same script
    [tx(1, 2, scr=[S, S]), tx(2, 1, scr=[S])],    # h1 creates A:0, A:1 and B:0, all paying to S
    [tx(3, 1, (1, 0))],                           # h2 spends A:0 (the earlier spend)
    [tx(4, 1, (9, 0), scr=[S])],                  # h3 only creates one more output paying to S (nobody asks for it)
    [tx(5, 1, (9, 1), (2, 0))],                   # h4 spends B:0 (input 1), nothing else; A:1 is never spent
]
CATR = [(1, 0, 1), (1, 1, 1), (2, 0, 1), (2, 0, 3), (1, 1, 2), (1, 0, 3), (2, 0, 5)]

CHR2 = [  # 4 heights: the shared script across transactions of different blocks, create + spend of it in one block
    [tx(1, 2, scr=[S, 11])],                      # h1 creates A:0 (S) and A:1 (own script)
    [tx(2, 2, scr=[S, S]), tx(3, 1, (1, 0))],     # h2 creates B:0, B:1 (both S) and spends A:0 (S)
    [tx(4, 1, (9, 0), (2, 1))],                   # h3 spends B:1 (input 1)
    [tx(5, 1, (1, 1), scr=[S])],                  # h4 spends A:1 (own script) and creates another S output; B:0 never spent
]
CATR2 = [(1, 0, 1), (1, 1, 1), (2, 0, 2), (2, 1, 2), (2, 1, 1), (2, 1, 3), (2, 0, 1)]


# watch-list turnover: requests RESOLVE (spend found) and START in the same block / in adjacent blocks, every
# output with a script of its own, so the watch list after the turnover shares no script with the one before
# it; the spends that follow lie in blocks in which no request starts, so those blocks are fetched only if the
# block's TRUE filter matches the watch list the scanner hands to BlockFilterMatches at that height
CHT = [  # 5 heights
    [tx(1, 2)],                                   # h1 creates A:0, A:1
    [tx(5, 1, (9, 0))],                           # h2 nothing that is watched (filter queried with A's scripts)
    [tx(2, 2), tx(3, 1, (1, 0))],                 # h3 creates B:0, B:1 AND spends A:0 (one leaves, others start)
    [tx(4, 1, (9, 1), (2, 0))],                   # h4 spends B:0 (input 1), nothing else, nobody's start block
    [tx(6, 1, (1, 1))],                           # h5 spends A:1, nothing else; B:1 is never spent
]
# A:0@1 / A:1@1 watched from h1; B:0@3, B:1@3 start in the block that resolves A:0; B:0@4 starts in the block
# AFTER the one that resolves A:0 (its own spending block); A:0@2 starts in a block that does not create it
CATT = [(1, 0, 1), (2, 0, 3), (1, 1, 1), (2, 1, 3), (2, 0, 4), (1, 0, 2), (2, 1, 4)]
# the same with THREE generations (A resolves where B starts, B resolves where C starts, C spent after that)
# and a block between the turnovers in which nothing happens
CHT3 = [  # 6 heights
    [tx(1, 1)],                                   # h1 creates A:0
    [tx(7, 1, (9, 0))],                           # h2 nothing watched
    [tx(2, 1), tx(4, 1, (1, 0))],                 # h3 creates B:0, spends A:0
    [tx(3, 2), tx(5, 1, (9, 1), (2, 0))],         # h4 creates C:0, C:1, spends B:0 (input 1)
    [tx(8, 1, (9, 2))],                           # h5 nothing watched
    [tx(6, 1, (3, 1))],                           # h6 spends C:1; C:0 is never spent
]
CATT3 = [(1, 0, 1), (2, 0, 3), (3, 1, 4), (3, 0, 4), (2, 0, 1), (3, 1, 5)]


# position classes of the requested output: (transaction FIRST in its block = the coinbase / in the middle /
# last) x (output index 0 / middle / last); for every class one output that is never spent (the answer is
# the output found in the start block) and, for the coinbase, also outputs spent later
CHP = [  # 3 heights
    [tx(1, 2, cb=True), tx(2, 3), tx(3, 2)],      # h1: coinbase A (2 outputs), B (3 outputs), C (2 outputs)
    [tx(4, 2, cb=True), tx(5, 1, (1, 1), (2, 1))],  # h2: coinbase D (2 outputs); spends A:1 (input 0), B:1 (input 1)
    [tx(6, 1, (9, 0), (4, 0))],                   # h3: spends D:0 (input 1); A:0, B:0, B:2, C:0, C:1, D:1 never spent
]
CATP = [(1, 0, 1), (1, 1, 1), (2, 0, 1), (2, 2, 1), (3, 0, 1), (3, 1, 1), (4, 1, 2), (4, 0, 2), (2, 1, 1), (1, 2, 1)]


# Stop with a scan in flight (slice of C17): long stretches of heights whose filters do not match what is
# watched (the normal case of a spend check), a matching height in the middle, the output spent / not spent
CHL = [  # 8 heights
    [tx(1, 2)],                                   # h1 creates A:0, A:1
    [tx(3, 1, (9, 0))],                           # h2..h4 nothing that is watched
    [tx(4, 1, (9, 1))],
    [tx(5, 1, (9, 2))],
    [tx(6, 1, (1, 0))],                           # h5 spends A:0
    [tx(7, 1, (9, 3))],                           # h6..h8 nothing that is watched; A:1 is never spent
    [],
    [tx(8, 1, (9, 4))],
]
CATL = [(1, 0, 1), (1, 1, 1), (1, 1, 3), (1, 0, 6)]
# a stretch of MATCHING heights (every block of the stretch creates another output paying to the watched
# script, so each is fetched: the checks around GetBlock), then non-matching ones
CHM = [  # 7 heights
    [tx(1, 2, scr=[S, S])],                       # h1 creates A:0, A:1, both paying to S
    [tx(3, 1, (9, 0), scr=[S])],                  # h2, h3 match by script alone
    [tx(4, 1, (9, 1), scr=[S])],
    [tx(5, 1, (1, 0))],                           # h4 spends A:0
    [tx(6, 1, (9, 2), scr=[S])],                  # h5 matches (while A:1 is watched)
    [tx(7, 1, (9, 3))],                           # h6, h7 do not
    [tx(8, 1, (9, 4))],
]
CATM = [(1, 0, 1), (1, 1, 1), (1, 1, 2)]


def tla_chain(ch):
    def t(x):
        ins = ", ".join("<<%d, %d>>" % (a, b) for a, b in x["ins"])
        scr = x.get("scr") or [x["id"] * 10 + k for k in range(x["nout"])]
        return "[id |-> %d, nout |-> %d, ins |-> <<%s>>, scr |-> <<%s>>, cb |-> %d]" % (
            x["id"], x["nout"], ins, ", ".join(str(v) for v in scr), 1 if x.get("cb") else 0)
    return "<<" + ", ".join("<<" + ", ".join(t(x) for x in blk) + ">>" for blk in ch) + ">>"


def tla_cat(cat):
    return "<<" + ", ".join("<<%d, %d, %d>>" % c for c in cat) + ">>"


def random_chain(rng, H):
    """A random chain over the same vocabulary: A (2 outputs) and B created somewhere, 0-2 spends of each
    outpoint at or after its creation (same block allowed)."""
    ch = [[] for _ in range(H)]
    ha = rng.randrange(H)
    hb = rng.randrange(H)
    # address re-use in two of three random chains: B:0 pays to the script of A:1, or both outputs of A
    # and B:0 pay to one script
    reuse = rng.choice([0, 1, 2])
    ch[ha].append(tx(1, 2, scr=[S, S] if reuse == 2 else None))
    ch[hb].append(tx(2, 1, scr=[11] if reuse == 1 else [S] if reuse == 2 else None))
    nid = 3
    spends = []
    for op, hc in (((1, 0), ha), ((1, 1), ha), ((2, 0), hb)):
        for _ in range(rng.choice([0, 1, 1, 2])):
            spends.append((rng.randrange(hc, H), op))
    rng.shuffle(spends)
    while spends:
        hh, op = spends.pop()
        ins = [op]
        # sometimes a second watched input in the same transaction, sometimes a foreign first input
        same = [s for s in spends if s[0] == hh and s[1] != op]
        if same and rng.random() < 0.5:
            s = same[0]
            spends.remove(s)
            ins.append(s[1])
        if rng.random() < 0.4:
            ins.insert(0, (9, nid))
        ch[hh].append(tx(nid, 1, *ins))
        nid += 1
    cat = set()
    for op in ((1, 0), (1, 1), (2, 0), (1, 2)):
        for _ in range(3):
            cat.add((op[0], op[1], rng.randrange(1, H + 2)))
    cat.add((1, 0, ha + 1))
    cat.add((2, 0, hb + 1))
    return ch, sorted(cat)


def config(tier, seed):
    rng = random.Random(seed * 7919 + 17)
    if tier in ("c17", "c17thorough"):
        # slice of C17: Stop at every gate of a scan over long stretches of non-matching / matching heights,
        # the tip growing during the scan, filter false positives; thorough: two requests (sl), a failing / stale
        # answer and false positives (sm), 500 random walks each
        big = tier == "c17thorough"
        return [dict(name="sl", chains=[CHL], cat=CATL, best0s="{6, 8}", MaxReq=2 if big else 1,
                     MaxFail=0, AllowStop=True, FalsePos=True, free=0),
                dict(name="sm", chains=[CHM], cat=CATM, best0s="{5, 7}", MaxReq=1,
                     MaxFail=1 if big else 0, AllowStop=True, FalsePos=big, free=0)]
    if tier == "quick":
        return [dict(name="q3", chains=[CH3], cat=CAT3, best0s="{2, 3}", MaxReq=2, MaxFail=1,
                     AllowStop=True, FalsePos=True, free=1500),
                # three requests (one running, one deferred, one queued behind): small catalogue, no faults
                dict(name="q3b", chains=[CH3], cat=[(1, 0, 1), (1, 1, 2), (1, 0, 3), (2, 0, 2)], best0s="{2}",
                     MaxReq=3, MaxFail=0, AllowStop=False, FalsePos=False, free=1500),
                # three requests sharing one start block that creates two requested transactions
                # (several outputs of the first plus one of the second, duplicates, ...)
                dict(name="q2s", chains=[CH2S], cat=CAT2S[:5], best0s="{2}",
                     MaxReq=3, MaxFail=0, AllowStop=False, FalsePos=False, free=1000),
                # the tip grows by two (CH3 from height 1) and by three (CH5 from height 2) blocks, in every
                # split over the passes of a scan; the first of the new blocks spends, later ones spend again
                dict(name="q3g", chains=[CH3], cat=[(1, 0, 1), (1, 1, 1), (1, 1, 2), (2, 0, 2), (1, 0, 3)],
                     best0s="{1}", MaxReq=2, MaxFail=0, AllowStop=False, FalsePos=False, free=500),
                dict(name="q5g", chains=[CH5], cat=[(1, 0, 1), (1, 1, 1), (1, 1, 5), (2, 0, 4)],
                     best0s="{2}", MaxReq=2, MaxFail=0, AllowStop=False, FalsePos=False, free=500),
                # address re-use: three requested outputs (two of one transaction, one of another) pay
                # to ONE script; one is spent early (in a block that is nobody's start block), one late
                # (in a block that spends nothing else), one never; a block in between matches the watch
                # list only because it creates one more output with that script
                dict(name="qr", chains=[CHR], cat=CATR[:5], best0s="{3, 4}", MaxReq=2, MaxFail=0,
                     AllowStop=False, FalsePos=False, free=500),
                # watch-list turnover: one request resolves in the block in which another starts (or in the
                # block before it), all scripts different; the later spend lies in a block that is fetched
                # only if its true filter matches the CURRENT watch list
                # (qt: best0 = 3 - the turnover block is the last of the first pass, the blocks with the later
                # spends arrive during the scan; qt3: three generations A -> B -> C in one batch of three)
                dict(name="qt", chains=[CHT], cat=CATT, best0s="{3, 5}", MaxReq=2, MaxFail=0,
                     AllowStop=False, FalsePos=False, free=500),
                dict(name="qt3", chains=[CHT3], cat=CATT3[:5], best0s="{6}", MaxReq=3, MaxFail=0,
                     AllowStop=False, FalsePos=False, free=500),
                # position classes: outputs of the block's coinbase / a middle / the last transaction, first /
                # last output index, never spent and spent later
                # (also the spent middle output and an out-of-range index of the coinbase; block 3 may arrive
                # during the scan)
                dict(name="qp", chains=[CHP], cat=CATP, best0s="{2, 3}", MaxReq=2, MaxFail=0,
                     AllowStop=False, FalsePos=False, free=500)]
    rc, rcat = random_chain(rng, 4)
    return [
        dict(name="t3", chains=[CH3], cat=CAT3[:7], best0s="{2, 3}", MaxReq=3, MaxFail=1,
             AllowStop=False, FalsePos=False, free=8000),
        dict(name="t2s", chains=[CH2S], cat=CAT2S, best0s="{1, 2}", MaxReq=3, MaxFail=1,
             AllowStop=False, FalsePos=False, free=4000),
        dict(name="t3s", chains=[CH3], cat=CAT3, best0s="{1, 2, 3}", MaxReq=2, MaxFail=2,
             AllowStop=True, FalsePos=True, free=4000),
        dict(name="t4", chains=[CH4], cat=CAT4, best0s="{3, 4}", MaxReq=2, MaxFail=1,
             AllowStop=True, FalsePos=True, free=4000),
        dict(name="t5", chains=[CH5], cat=CAT5, best0s="{4, 5}", MaxReq=2, MaxFail=1,
             AllowStop=True, FalsePos=False, free=4000),
        dict(name="t5g", chains=[CH5], cat=CAT5, best0s="{1, 2}", MaxReq=2, MaxFail=0,
             AllowStop=False, FalsePos=False, free=3000),
        dict(name="rnd", chains=[rc], cat=rcat, best0s="{3, 4}", MaxReq=2, MaxFail=1,
             AllowStop=True, FalsePos=False, free=3000),
        # address re-use (see qr): three requests incl. an out-of-range index of the re-using transaction
        # (its script stays watched to the end); the second chain with a failing / stale answer, Stop, false
        # positives and the tip growing by up to two blocks
        dict(name="tr", chains=[CHR], cat=CATR[:4] + [(1, 2, 1)], best0s="{3, 4}", MaxReq=3, MaxFail=0,
             AllowStop=False, FalsePos=False, free=3000),
        dict(name="tr2", chains=[CHR2], cat=CATR2, best0s="{2, 3, 4}", MaxReq=2, MaxFail=1,
             AllowStop=True, FalsePos=True, free=3000),
        # watch-list turnover (see qt / qt3): with a failing / stale answer and false positives, the tip growing
        # by up to two blocks; three generations with the full catalogue
        dict(name="tt", chains=[CHT], cat=CATT, best0s="{3, 4, 5}", MaxReq=2, MaxFail=1,
             AllowStop=False, FalsePos=True, free=2000),
        dict(name="tt3", chains=[CHT3], cat=CATT3, best0s="{6}", MaxReq=3, MaxFail=0,
             AllowStop=False, FalsePos=False, free=2000),
        # position classes (see qp) with three requests sharing start blocks (the reverse index / early exit
        # of findInitialTransactions with the coinbase among the requested transactions)
        dict(name="tp3", chains=[CHP], cat=CATP[:8], best0s="{3}", MaxReq=3, MaxFail=0,
             AllowStop=False, FalsePos=False, free=2000),
    ]


def label(act):
    op = act.get("op", "?")
    a, b, c = act.get("a", 0), act.get("b", 0), act.get("c", 0)
    if op == "Enqueue":
        s = "Enqueue(%d:%d@%d)" % (a, b, c)
    elif op in ("GetHash", "FilterMatch", "GetBlock", "NewBlock"):
        s = "%s(%d)" % (op, a)
    elif op == "BatchStart":
        s = "BatchStart(best=%d)" % b
    elif op == "Tail":
        s = "Tail(best=%d)[above=%d]" % (b, c)
    else:
        s = op
    return s + "=" + str(act.get("res"))


def chains_module(chains, d):
    """Generates UtxoScanChains.tla (the chain table obs.cid indexes) into directory d."""
    os.makedirs(d, exist_ok=True)
    with open(os.path.join(d, "UtxoScanChains.tla"), "w") as f:
        f.write("---- MODULE UtxoScanChains ----\nChainTable == <<%s>>\n====\n" %
                ", ".join(tla_chain(c) for c in chains))
    return d


def run_tlc(cfg, sc, export=True):
    consts = dict(MaxReq=cfg["MaxReq"], MaxFail=cfg["MaxFail"], AllowStop=cfg["AllowStop"],
                  FalsePos=cfg["FalsePos"], Best0s=cfg["best0s"])
    consts.update(CODE_VERSION)
    gen = chains_module(cfg["chains"], os.path.join(sc, "gen-" + cfg["name"]))
    defs = "CatDef == %s\n" % tla_cat(cfg["cat"])
    tlc = core.run_tlc([SPEC, gen], "UtxoScan", consts, workers=1, invariants=["TypeOK", "Disjoint"],
                       workdir=os.path.join(sc, "tlc-" + cfg["name"]), timeout=3000, extra_defs=defs,
                       cfg_extra="CONSTANT Cat <- CatDef\n")
    if not tlc.ok:
        raise core.MachineryError("TLC on UtxoScan (%s) failed: %s\n%s" % (cfg["name"], tlc.error,
                                                                         tlc.stdout_tail[-3000:]))
    return tlc, gen


def run_driver(binary, pf, of, sc, chains):
    """Like family.run_driver, but leaves the observed traces in the file `of`."""
    import subprocess
    env = core.go_env()
    env.update({"VERIF_PATHS": pf, "VERIF_OUT": of, "VERIF_SCRATCH": sc,
                "VERIF_UX_CHAINS": json.dumps(chains)})
    p = subprocess.run([binary, "-test.run", "^TestVerifUtxoScanReplay$", "-test.count=1",
                        "-test.timeout", "7200s"], cwd=sc, env=env,
                       stdout=subprocess.PIPE, stderr=subprocess.STDOUT, text=True)
    if p.returncode != 0 or not os.path.exists(of):
        raise core.MachineryError("driver failed rc=%d:\n%s" % (p.returncode, p.stdout[-6000:]))


class _Acc:
    """Accumulates verdicts, drift and light-weight trace summaries over chunks and configurations
    (the observed traces themselves are streamed: a thorough run has millions of steps)."""

    def __init__(self):
        self.verdict = {"violations": [], "known": {}, "n_lines": 0, "wall": 0.0, "raw": 0}
        self.light = []          # what family.finish needs of every trace
        self.drift_steps = self.drift_n = 0
        self.drift_samples = []
        self.hung = self.panics = 0
        # Stop with a scan in flight: per number of heights the scan had left when Stop was called, the
        # largest number of environment calls the real batch manager made afterwards
        self.stop_traces = 0
        self.post_by_left = {}

    def merge(self, o):
        self.stop_traces += o.stop_traces
        for k, v in o.post_by_left.items():
            self.post_by_left[k] = max(self.post_by_left.get(k, 0), v)
        self.verdict["violations"] += o.verdict["violations"]
        for k in ("n_lines", "wall", "raw"):
            self.verdict[k] += o.verdict[k]
        for k, x in o.verdict["known"].items():
            if k in self.verdict["known"]:
                self.verdict["known"][k]["count"] += x["count"]
            else:
                self.verdict["known"][k] = x
        full = [t for t in self.light if t["steps"] and t["steps"][0] is not None]
        for t in o.light:
            if len(full) >= 3 and not t.get("error") and t["steps"] and t["steps"][0] is not None:
                t = {"id": t["id"], "steps": [None] * len(t["steps"])}
            self.light.append(t)
        self.drift_steps += o.drift_steps
        self.drift_n += o.drift_n
        self.drift_samples += o.drift_samples[:3]
        self.hung += o.hung
        self.panics += o.panics

    def chunk(self, prop_id, gen, chains, tag, pf, index, chunk, sc):
        v = family.judge([SPEC, gen], "UtxoScanProps", PROPS[prop_id], prop_id, chunk, label=label)
        tmp = os.path.join(sc, "exp-chunk-%s.ndjson" % tag)
        with open(pf, "rb") as f, open(tmp, "wb") as o:
            for t in chunk:
                f.seek(index[t["id"]])
                o.write(f.readline())
        ds, dn, dsm = family.drift(tmp, chunk, label=label)
        os.remove(tmp)
        for x in v["violations"]:
            x["trace"] = "%s/%s" % (tag, x["trace"])
            x["observed"]["chains"] = chains      # makes the saved replay self-contained
        for x in dsm:
            x["trace"] = "%s/%s" % (tag, x["trace"])
        self.verdict["violations"] += v["violations"]
        for k in ("n_lines", "wall", "raw"):
            self.verdict[k] += v[k]
        for k, x in v["known"].items():
            if k in self.verdict["known"]:
                self.verdict["known"][k]["count"] += x["count"]
            else:
                self.verdict["known"][k] = x
        self.drift_steps += ds
        self.drift_n += dn
        self.drift_samples += dsm[:2]
        for t in chunk:
            left, n = None, 0
            for s in t["steps"]:
                if s["act"]["op"] == "Stop":
                    o = s["obs"]
                    left = max(0, o["best"] - o["h"]) if o.get("h") else 0
                elif left is not None and s["act"]["op"] in ENV_OPS:
                    n += 1
            if left is not None:
                self.stop_traces += 1
                self.post_by_left[left] = max(self.post_by_left.get(left, 0), n)
            self.hung += sum(1 for s in t["steps"] if s["obs"].get("pc") == 9)
            self.panics += sum(1 for s in t["steps"] if s["obs"].get("pc") == 8)
            if len(self.light) < 3 or t.get("error"):
                self.light.append(t)
            else:
                self.light.append({"id": t["id"], "steps": [None] * len(t["steps"])})
        return dn


def replay_and_judge(prop_id, acc, binary, gen, chains, tag, pf, sc, max_lines=150000):
    of = os.path.join(sc, "obs-%s.ndjson" % tag)
    run_driver(binary, pf, of, sc, chains)
    index = {}
    with open(pf, "rb") as f:
        while True:
            off = f.tell()
            line = f.readline()
            if not line:
                break
            m = line[:40].split(b'"id":', 1)[1]
            index[int(m.split(b",", 1)[0])] = off
    chunk, n, dn = [], 0, 0
    for line in open(of):
        t = json.loads(line)
        t.pop("chains", None)
        chunk.append(t)
        n += len(t["steps"]) + 1
        if n >= max_lines:
            dn += acc.chunk(prop_id, gen, chains, tag, pf, index, chunk, sc)
            chunk, n = [], 0
    if chunk:
        dn += acc.chunk(prop_id, gen, chains, tag, pf, index, chunk, sc)
    os.remove(of)
    return dn


def free_run(prop_id, acc, binary, gen, cfg, g, seed, sc):
    """Implementation -> specification: n free-running executions of the real scanner (real goroutine
    scheduling, seeded think times / failures), linearised by the driver at the code's critical
    sections.  Each must be a path of the TLC state graph g with equal observables (else drift), and
    TLC judges UtxoScanProps on it (verdict)."""
    import re, subprocess
    n = cfg.get("free", 0)
    if not n:
        return dict(executions=0)
    of = os.path.join(sc, "free-%s.ndjson" % cfg["name"])
    fc = dict(n=n, seed=seed, cid=1, cat=[list(c) for c in cfg["cat"]],
              best0s=[int(x) for x in re.findall(r"\d+", cfg["best0s"])], max_req=cfg["MaxReq"],
              max_fail=cfg["MaxFail"], false_pos=cfg["FalsePos"], max_gates=60)
    env = core.go_env()
    env.update({"VERIF_OUT": of, "VERIF_UX_FREE": json.dumps(fc), "VERIF_UX_CHAINS": json.dumps(cfg["chains"])})
    p = subprocess.run([binary, "-test.run", "^TestVerifUtxoScanFree$", "-test.count=1", "-test.timeout", "3600s"],
                       cwd=sc, env=env, stdout=subprocess.PIPE, stderr=subprocess.STDOUT, text=True)
    if p.returncode != 0 or not os.path.exists(of):
        raise core.MachineryError("free-running driver failed rc=%d:\n%s" % (p.returncode, p.stdout[-6000:]))
    traces = [json.loads(l) for l in open(of)]
    os.remove(of)
    idx = {}
    for ei, (f, a, t, o, v) in enumerate(g.edges):
        idx[(f, json.dumps(a, sort_keys=True))] = ei
    inits = {json.dumps(o, sort_keys=True): nn for nn, o in g.inits}
    n_drift = n_steps = 0
    seqs = set()
    for tr in traces:
        tr["id"] = "free-%s" % tr["id"]
        if tr.get("error"):
            continue
        # a busy loop (same two actions with the same observables again and again, see KF-UX-3)
        # is kept for two rounds only
        st = tr["steps"]
        for i in range(3, len(st)):
            if st[i] == st[i - 2] and st[i - 1] == st[i - 3]:
                del st[i:]
                break
        seqs.add(hash(json.dumps([s["act"] for s in tr["steps"]])))
        node = inits.get(json.dumps(tr["init_obs"], sort_keys=True))
        what = None
        if node is None:
            what, i = "initial observables are not an initial state of the model", -1
        else:
            for i, s_ in enumerate(tr["steps"]):
                ei = idx.get((node, json.dumps(s_["act"], sort_keys=True)))
                if ei is None:
                    what = "the model has no such transition here"
                    break
                if g.edges[ei][3] != s_["obs"]:
                    what = "observables differ: model %s" % json.dumps(g.edges[ei][3])
                    break
                node = g.edges[ei][2]
                n_steps += 1
        if what:
            n_drift += 1
            if len(acc.drift_samples) < 8:
                acc.drift_samples.append({"trace": "%s/%s" % (cfg["name"], tr["id"]), "step": i + 1, "what": what,
                                          "labels": [label(x["act"]) for x in tr["steps"][:i + 1]],
                                          "code_obs": tr["steps"][i]["obs"] if i >= 0 else tr["init_obs"]})
    chains = cfg["chains"]
    good = [t for t in traces if not t.get("error")]
    for t in good:
        t.pop("chains", None)
    v = family.judge([SPEC, gen], "UtxoScanProps", PROPS[prop_id], prop_id, good, label=label)
    for x in v["violations"]:
        x["trace"] = "%s/%s" % (cfg["name"], x["trace"])
        x["observed"]["chains"] = chains
    acc.verdict["violations"] += v["violations"]
    for k in ("n_lines", "wall", "raw"):
        acc.verdict[k] += v[k]
    for k, x in v["known"].items():
        if k in acc.verdict["known"]:
            acc.verdict["known"][k]["count"] += x["count"]
        else:
            acc.verdict["known"][k] = x
    acc.drift_steps += n_steps
    acc.drift_n += n_drift
    for t in traces:
        if t.get("error"):
            acc.light.append({"id": t["id"], "steps": [], "error": "free run: " + t["error"]})
        elif len(acc.light) < 3:
            acc.light.append(t)
        else:
            acc.light.append({"id": t["id"], "steps": [None] * len(t["steps"])})
    return dict(executions=len(traces), distinct_action_sequences=len(seqs), steps_matched_in_model_graph=n_steps,
                drift=n_drift, errors=sum(1 for t in traces if t.get("error")))


class _G:
    pass


def run(prop_id, tier, seed, replay=None):
    t0 = time.time()
    rng = random.Random(seed)
    sc = core.scratch("ux")
    try:
        binary = family.build_overlay_test(PKG, [DRIVER, DRIVER_FREE], os.path.join(sc, "neutrino.test"))
        acc = _Acc()
        tot = _G()
        tot.generated = tot.distinct = tot.depth = 0
        tot.wall = 0.0
        if replay:
            d = json.load(open(replay))
            chains = d["trace"].get("chains")
            if not chains:
                raise core.MachineryError("replay file carries no chain table")
            gen = chains_module([[[dict(id=t["id"], nout=t["nout"], ins=[tuple(i) for i in t["ins"]],
                                        scr=t.get("scr"), cb=t.get("cb", 0))
                                   for t in blk] for blk in ch] for ch in chains], os.path.join(sc, "gen-replay"))
            pf = os.path.join(sc, "paths.ndjson")
            family.paths_from_replay(replay, pf)
            replay_and_judge(prop_id, acc, binary, gen, chains, "replay", pf, sc)
            return family.finish(prop_id, tier, seed, t0, family._NoTLC(), None, [0], acc.light, acc.verdict,
                                 (acc.drift_steps, acc.drift_n, acc.drift_samples),
                                 {"replay_of": replay}, ASSUMPTIONS, label=label)
        def do_cfg(cfg):
            """model -> paths -> free-running validation -> replay -> judge for one configuration"""
            a = _Acc()
            crng = random.Random("%d/%s" % (seed, cfg["name"]))
            tlc, gen = run_tlc(cfg, sc)
            g = core.Graph.load(tlc)
            shutil.rmtree(tlc.workdir, ignore_errors=True)
            paths, unreach = core.edge_cover(g, crng)
            if tier in ("thorough", "c17thorough"):
                paths += core.random_walks(g, 500, 40, crng)
            pf = os.path.join(sc, "paths-%s.ndjson" % cfg["name"])
            core.write_paths(g, paths, pf)
            ne, nv = len(g.edges), sum(1 for e in g.edges if e[4])
            t_rep = time.time()
            fr = free_run(prop_id, a, binary, gen, cfg, g, seed, sc)
            t_free = time.time() - t_rep
            del g
            t_rep = time.time()
            dn = replay_and_judge(prop_id, a, binary, gen, cfg["chains"], cfg["name"], pf, sc)
            os.remove(pf)
            print("[%s] tlc %.0fs states %d edges %d paths %d replay+judge %.0fs free-running %d in %.0fs" % (
                cfg["name"], tlc.wall, tlc.distinct, ne, len(paths), time.time() - t_rep,
                fr["executions"], t_free), file=sys.stderr)
            st = {"name": cfg["name"],
                  "constants": {k: cfg[k] for k in ("MaxReq", "MaxFail", "AllowStop", "FalsePos", "best0s")},
                  "chains": cfg["chains"], "catalogue": [list(c) for c in cfg["cat"]],
                  "states": tlc.distinct, "edges": ne, "tlc_wall_s": round(tlc.wall, 1),
                  "paths": len(paths), "drift_paths": dn, "hung_steps": a.hung,
                  "panic_steps": a.panics, "model_violating_edges": nv, "free_running": fr}
            if cfg["AllowStop"]:
                st["paths_with_stop"] = a.stop_traces
                st["env_calls_after_stop_max_by_heights_left"] = {str(k): v for k, v in sorted(a.post_by_left.items())}
            return a, st, tlc, [len(p) for p in paths], unreach

        cfgs = config(tier, seed)
        if tier in ("quick", "c17"):
            # small graphs: the configurations run side by side (each is mostly one TLC / driver process)
            from concurrent.futures import ThreadPoolExecutor
            with ThreadPoolExecutor(max_workers=3) as ex:
                results = list(ex.map(do_cfg, cfgs))
        else:
            results = [do_cfg(c) for c in cfgs]       # one graph in memory at a time
        all_paths, per_cfg = [], []
        n_edges = n_viol_edges = unreach_tot = 0
        for a, st, tlc, plens, unreach in results:
            acc.merge(a)
            tot.generated += tlc.generated
            tot.distinct += tlc.distinct
            tot.depth = max(tot.depth, tlc.depth)
            tot.wall += tlc.wall
            n_edges += st["edges"]
            n_viol_edges += st["model_violating_edges"]
            unreach_tot += unreach
            all_paths += plens
            per_cfg.append(st)
        g = _G()
        g.edges = [(0, 0, 0, 0, i < n_viol_edges) for i in range(n_edges)]   # counts only, for family.finish
        return family.finish(prop_id, tier, seed, t0, tot, g, all_paths, acc.light, acc.verdict,
                             (acc.drift_steps, acc.drift_n, acc.drift_samples),
                             {"configs": per_cfg, "code_version": CODE_VERSION,
                              "edges_only_reachable_through_model_violation": unreach_tot,
                              "env_calls_after_stop_max_by_heights_left":
                                  {str(k): v for k, v in sorted(acc.post_by_left.items())}},
                             ASSUMPTIONS + (C17_ASSUMPTIONS if prop_id == "C17" else []), label=label)
    finally:
        shutil.rmtree(sc, ignore_errors=True)


# --------------------------------------------------------------------------
# slice of C17 (Stop with a UTXO scan in flight), called by the Shutdown family's check
# --------------------------------------------------------------------------
def is_my_replay(replay_file):
    """a saved trace of this family (it carries its chain table)"""
    try:
        return bool(json.load(open(replay_file))["trace"].get("chains"))
    except Exception:
        return False


def run_slice_c17(tier, seed, replay=None):
    """The UtxoScan model over chains with long stretches of non-matching / matching heights, Stop enabled at
    every gate of the scan; every transition replayed on the real UtxoScanner, each path that contains Stop
    run on until the batch manager has returned; judged for PROPS["C17"] (StopBoundedWork: the number of
    environment calls after Stop is bounded independently of the heights left; StopReturnsDuringScan).
    Prints KNOWN-FINDING / VIOLATION lines for C17, writes its evidence into a scratch directory and returns
    (exit code, coverage dict)."""
    evdir = core.scratch("c17ux")
    old = os.environ.get("VERIF_EVIDENCE_DIR")
    os.environ["VERIF_EVIDENCE_DIR"] = evdir
    try:
        rc = run("C17", "c17thorough" if tier == "thorough" else "c17", seed, replay=replay)
        cov = json.load(open(os.path.join(evdir, "C17.json")))["coverage"]
    finally:
        if old is None:
            os.environ.pop("VERIF_EVIDENCE_DIR", None)
        else:
            os.environ["VERIF_EVIDENCE_DIR"] = old
        shutil.rmtree(evdir, ignore_errors=True)
    return rc, cov


def merge_slice_c17(tier, seed, rc=0):
    """Call after the C17 check has written evidence/C17.json: runs run_slice_c17 and adds its measured
    coverage to that evidence file; returns max(rc, exit code of the slice)."""
    t0 = time.time()
    rc2, cov = run_slice_c17(tier, seed)
    fn = os.path.join(os.environ.get("VERIF_EVIDENCE_DIR", os.path.join(core.VERIF, "evidence")), "C17.json")
    ev = json.load(open(fn))
    c = ev["coverage"]
    c["utxo_scan_in_flight_slice_utxoscan"] = {k: v for k, v in cov.items() if k != "samples"}
    for k in ("states", "transitions", "traces_validated_against_impl"):
        c[k] = int(c.get(k, 0) or 0) + int(cov.get(k, 0) or 0)
    c["samples"] = list(c.get("samples", [])) + cov.get("samples", [])[:1]
    ev["assumptions"] = list(ev.get("assumptions", [])) + [a for a in C17_ASSUMPTIONS
                                                           if a not in ev.get("assumptions", [])]
    ev["violations"] = ev.get("violations", 0) + int(cov.get("new_violations", 0) or 0)
    ev["wall_s"] = round(ev.get("wall_s", 0) + time.time() - t0, 2)
    json.dump(ev, open(fn + ".tmp", "w"), indent=1)
    os.replace(fn + ".tmp", fn)
    return max(rc, rc2)


if __name__ == "__main__":
    # python3 -m vlib.families.utxoscan [quick|thorough] [seed]   - the C17 slice alone
    tier = sys.argv[1] if len(sys.argv) > 1 else "quick"
    seed = int(sys.argv[2]) if len(sys.argv) > 2 else 1
    try:
        rc, cov = run_slice_c17(tier, seed)
    except core.MachineryError as e:
        print("MACHINERY ERROR:", e, file=sys.stderr)
        sys.exit(2)
    json.dump({k: v for k, v in cov.items() if k != "samples"}, sys.stdout, indent=1)
    print()
    sys.exit(rc)
