"""HeaderStore family: C07 (append/rollback log, reopen, failed append) and
C08 store-level crash points."""
import json, os, random, shutil, time
from .. import core, family

SPEC = os.path.join(core.VERIF, "specs", "HeaderStore")
DRIVER = os.path.join(core.VERIF, "harness", "overlay", "headerfs", "zz_verif_headerstore_test.go")
PKG = os.path.join(core.REPO, "headerfs")

READY = True
PROPERTIES = ["C07", "C08"]

MANIFEST = {
    "C07": dict(
        engine="HeaderStore",
        text="Exhaustive TLC exploration of specs/HeaderStore (two flat files at half-entry granularity, shared "
             "index bucket, OS descriptor offset) over every history of appends (0..k headers), rollbacks (incl. "
             "to and past genesis), reopen points and one (quick) or two (thorough) injected write/index errors at "
             "every durable step; EVERY transition of that graph is replayed against the real headerfs stores "
             "(real files, real bbolt, faults injected through the File/walletdb.DB interfaces) and the list-refinement, "
             "reopen and failed-append operators of HeaderStoreProps.tla are evaluated by TLC on the observed traces.",
        note="Thorough additionally replays 6000 walks over 2500 TLC-simulated behaviours of the same spec with 8 ids, "
             "30 operations, 4 faults (long histories). Bounded: <=5 ids, <=5 operations, <=2 faults in the exhaustive part. Trusts TLC, the Go projection of the read API to ids, and "
             "that I/O errors arrive only through the File / walletdb.DB interfaces. Errors injected into rollbacks are "
             "not judged (the property only speaks about failed appends).",
        design="4 C07", technique="TLA+ spec + TLC exhaustive + spec-to-code replay of every transition + TLC-judged observed traces"),
    "C08": dict(
        engine="HeaderStore",
        text="Same specification with a crash allowed at every point between and inside the durable steps of every "
             "store call (file write torn after every half-entry count, after the file write, between the two steps "
             "of a rollback, while idle), followed by recovery; every crash transition is replayed on the real stores "
             "(the fault wrapper performs the torn write on the real file, then kills the call; descriptors are dropped "
             "and the directory reopened) and RecoverOpens / RecoveredContentLegal / NoTornEntry / FilterNotAhead / "
             "PostCrashRefinement are evaluated by TLC on what the reopened stores answer.",
        note="Crash = process death with completed syscalls durable (no power-loss reordering); bbolt commits atomic. "
             "Multi-store crash points (reorganisation, filter-header batch, import) are covered by the BlockManager / "
             "Import families where claimed, not by this store-level check.",
        design="4 C08", technique="TLA+ spec with crash actions + TLC exhaustive + crash-point replay on real files + TLC-judged observed traces"),
}

PROPS = {
    "C07": ["ListRefinement", "ReopenPreserves", "FailedAppendLeavesStore"],
    "C08": ["RecoverOpens", "RecoveredContentLegal", "NoTornEntry", "FilterNotAhead",
            "PostCrashRefinement"],
}

# Which behaviour of the code the model describes (spec follows the code).
CODE_VERSION = json.load(open(os.path.join(SPEC, "code_version.json")))

CONFIGS = {
    ("C07", "quick"): dict(N=5, MaxLen=5, MaxBatch=3, MaxOps=5, MaxFaults=1, MaxCrashes=0, MaxLegacy=1),
    ("C07", "thorough"): dict(N=5, MaxLen=5, MaxBatch=3, MaxOps=6, MaxFaults=2, MaxCrashes=0, MaxLegacy=1),
    ("C08", "quick"): dict(N=4, MaxLen=4, MaxBatch=2, MaxOps=4, MaxFaults=0, MaxCrashes=2, MaxLegacy=0),
    ("C08", "thorough"): dict(N=5, MaxLen=5, MaxBatch=3, MaxOps=5, MaxFaults=1, MaxCrashes=2, MaxLegacy=1),
}

# Long histories (thorough tier): `tlc -simulate` on the same specification with larger constants;
# the behaviours are replayed and judged like the exhaustive graph's paths.
LONG = {
    "C07": dict(N=8, MaxLen=8, MaxBatch=3, MaxOps=30, MaxFaults=4, MaxCrashes=0, MaxLegacy=1),
    "C08": dict(N=8, MaxLen=8, MaxBatch=3, MaxOps=30, MaxFaults=2, MaxCrashes=5, MaxLegacy=1),
}
LONG_SIM = dict(num=2500, depth=32, walks=6000)

ASSUMPTIONS = [
    "a crash is process death: every completed write/truncate/bbolt commit is durable, an interrupted "
    "file write leaves a prefix of its bytes (torn at half-entry granularity in the model, the same "
    "byte counts on the real file)",
    "bbolt transactions are atomic (the index update is one durable step)",
    "I/O errors are injected through the headerfs.File and walletdb.DB interfaces the stores use; "
    "errors inside bbolt itself are not modelled",
    "header ids are interchangeable, so appends always take the smallest unused ids",
]


def label(act):
    s = act.get("op", "?")
    if s.startswith("Append"):
        s += "(%d)" % len(act.get("batch", []))
    elif s == "RollbackB":
        s += "(%d)" % act.get("n", 0)
    elif s in ("Reopen", "Recover") and act.get("n") in (1, 2, 3):
        s += {1: "(asserted)", 2: "(mismatching assertion)", 3: "(assertion above tip)"}[act.get("n")]
    stop = act.get("stop", "none")
    if stop != "none":
        s += "[%s%s]" % (stop, act.get("sn", ""))
    return s + "=" + str(act.get("res"))


def multi_store(tier, seed, t0):
    """C08 also speaks about multi-store operations (reorganisation, rollback): crash points BETWEEN
    the store calls of a headers message are explored on the BlockManager model and replayed on the
    real block manager; its coverage is merged into this check's evidence."""
    from . import blockmanager
    evdir = core.scratch("c08bm")
    old = os.environ.get("VERIF_EVIDENCE_DIR")
    os.environ["VERIF_EVIDENCE_DIR"] = evdir
    try:
        rc = blockmanager.run("C08", "crash3" if tier == "thorough" else "crash", seed)
        sub = json.load(open(os.path.join(evdir, "C08.json")))
    finally:
        if old is None:
            os.environ.pop("VERIF_EVIDENCE_DIR", None)
        else:
            os.environ["VERIF_EVIDENCE_DIR"] = old
        shutil.rmtree(evdir, ignore_errors=True)
    fn = os.path.join(os.environ.get("VERIF_EVIDENCE_DIR", os.path.join(core.VERIF, "evidence")), "C08.json")
    ev = json.load(open(fn))
    c, sc_ = ev["coverage"], sub["coverage"]
    c["multi_store_blockmanager"] = {k: sc_[k] for k in sc_ if k not in ("samples",)}
    c["states"] += sc_["states"]
    c["transitions"] += sc_["transitions"]
    c["traces_validated_against_impl"] += sc_["traces_validated_against_impl"]
    c["samples"] += sc_["samples"][:2]
    ev["violations"] = ev.get("violations", 0) + sub.get("violations", 0)
    ev["wall_s"] = round(time.time() - t0, 2)
    json.dump(ev, open(fn + ".tmp", "w"), indent=1)
    os.replace(fn + ".tmp", fn)
    return rc


def long_histories(prop_id, seed, rng, binary, sc):
    consts = dict(LONG[prop_id])
    consts.update(CODE_VERSION)
    tlc = core.run_tlc([SPEC], "HeaderStore", consts, workers=1, workdir=os.path.join(sc, "tlcsim"), timeout=3000,
                       simulate="num=%d" % LONG_SIM["num"],
                       cfg_extra="", invariants=["TypeOK"], view=None,
                       extra_java=["-depth", str(LONG_SIM["depth"]), "-seed", str(seed)])
    if not tlc.ok:
        raise core.MachineryError("TLC -simulate on HeaderStore failed: %s\n%s" % (tlc.error, tlc.stdout_tail[-3000:]))
    g = core.Graph.load(tlc)
    paths = core.sim_walks(g, LONG_SIM["walks"], LONG_SIM["depth"], rng)
    pf = os.path.join(sc, "paths_long.ndjson")
    core.write_paths(g, paths, pf)
    observed, log = family.run_driver(binary, "TestVerifHeaderStoreReplay", pf, os.path.join(sc, "obs_long.ndjson"), sc)
    verdict = family.judge([SPEC], "HeaderStoreProps", PROPS[prop_id], prop_id, observed, label=label)
    dr = family.drift(pf, observed, label=label)
    rc = 0
    for v in verdict["violations"][:5]:
        fn = core.save_replay(prop_id, {"property": prop_id, "props": v["props"], "step": v["step"],
                                        "labels": v["labels"], "trace": v["observed"], "config": consts})
        print("VIOLATION property=%s replay=%s" % (prop_id, fn))
        print("  violated: %s at step %d of (long history): %s" % (",".join(v["props"]), v["step"], " ".join(v["labels"])))
        rc = 1
    if dr[1]:
        import sys
        print("drift: %d of %d long-history paths left the model's prediction (not a verdict)" % (dr[1], len(observed)),
              file=sys.stderr)
    fn = os.path.join(os.environ.get("VERIF_EVIDENCE_DIR", os.path.join(core.VERIF, "evidence")), prop_id + ".json")
    ev = json.load(open(fn))
    c = ev["coverage"]
    steps = sum(len(t["steps"]) for t in observed)
    c["long_histories_tlc_simulate"] = {
        "config": consts, "behaviours_simulated": LONG_SIM["num"], "depth": LONG_SIM["depth"],
        "states": len(g.out), "transitions": len(g.edges), "walks_replayed": len(observed), "replayed_steps": steps,
        "longest_walk": max([len(t["steps"]) for t in observed] + [0]),
        "judged_lines_by_tlc": verdict["n_lines"], "drift_paths": dr[1], "new_violations": len(verdict["violations"]),
        "known_findings_seen": {k: v["count"] for k, v in verdict["known"].items()}}
    c["traces_validated_against_impl"] += len(observed)
    ev["violations"] = ev.get("violations", 0) + len(verdict["violations"])
    json.dump(ev, open(fn + ".tmp", "w"), indent=1)
    os.replace(fn + ".tmp", fn)
    return rc


def run(prop_id, tier, seed, replay=None):
    t0 = time.time()
    rng = random.Random(seed)
    consts = dict(CONFIGS[(prop_id, tier)])
    consts.update(CODE_VERSION)
    sc = core.scratch("hs")
    try:
        pf = os.path.join(sc, "paths.ndjson")
        if replay:
            family.paths_from_replay(replay, pf)
            tlc, g, paths, unreach = family._NoTLC(), None, [0], 0
        else:
            tlc = core.run_tlc([SPEC], "HeaderStore", consts, workers=1, invariants=["TypeOK", "AbsBounded"],
                               workdir=os.path.join(sc, "tlc"), timeout=3000)
            if not tlc.ok:
                raise core.MachineryError("TLC on HeaderStore failed: %s\n%s" % (tlc.error, tlc.stdout_tail[-3000:]))
            g = core.Graph.load(tlc)
            paths, unreach = core.edge_cover(g, rng)
            if tier == "thorough":
                paths += core.random_walks(g, 2000, 12, rng)
            core.write_paths(g, paths, pf)
        binary = family.build_overlay_test(PKG, [DRIVER], os.path.join(sc, "headerfs.test"))
        observed, log = family.run_driver(binary, "TestVerifHeaderStoreReplay", pf,
                                          os.path.join(sc, "obs.ndjson"), sc)
        verdict = family.judge([SPEC], "HeaderStoreProps", PROPS[prop_id], prop_id, observed, label=label)
        dr = family.drift(pf, observed, label=label)
        rc = family.finish(prop_id, tier, seed, t0, tlc, g, paths, observed, verdict, dr,
                           {"config": consts, "edges_only_reachable_through_model_violation": unreach},
                           ASSUMPTIONS, label=label)
        if tier == "thorough" and not replay:
            rc = max(rc, long_histories(prop_id, seed, rng, binary, sc))
        if prop_id == "C08" and not replay:
            rc = max(rc, multi_store(tier, seed, t0))
        if prop_id == "C07" and not replay:
            # concurrent readers against a writer (reader/writer slice, HSRace.tla)
            from . import hsrace
            rc2, cov2 = hsrace.run_race("C07", tier, seed)
            hsrace.merge_evidence("C07", cov2)
            rc = max(rc, rc2)
        return rc
    finally:
        shutil.rmtree(sc, ignore_errors=True)
