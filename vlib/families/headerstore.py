"""HeaderStore family: C07 (append/rollback log, reopen, failed append) and
C08 store-level crash points."""
import json, os, random, shutil, time
from .. import core, family

SPEC = os.path.join(core.VERIF, "specs", "HeaderStore")
DRIVER = os.path.join(core.VERIF, "harness", "overlay", "headerfs", "zz_verif_headerstore_test.go")
PKG = os.path.join(core.REPO, "headerfs")

READY = True
PROPERTIES = ["C07", "C08"]

MANIFEST = {
    "C07": dict(
        engine="HeaderStore",
        text="Exhaustive TLC exploration of specs/HeaderStore (two flat files at half-entry granularity, shared "
             "index bucket, OS descriptor offset) over every history of appends (0..k headers), rollbacks (incl. "
             "to and past genesis), reopen points and one (quick) or two (thorough) injected write/index errors at "
             "every durable step; EVERY transition of that graph is replayed against the real headerfs stores "
             "(real files, real bbolt, faults injected through the File/walletdb.DB interfaces) and the list-refinement, "
             "reopen and failed-append operators of HeaderStoreProps.tla are evaluated by TLC on the observed traces. "
             "A second exhaustive graph of the same spec with Scale=2251 (one header id = a run of 2251 real headers, so "
             "one WriteHeaders call carries 2251 / 4502 headers, more than wire.MaxBlockHeadersPerMsg) is replayed the "
             "same way; reads of every real height and hash of a run are projected back to the id.",
        note="Thorough additionally replays 6000 walks over 2500 TLC-simulated behaviours of the same spec with 8 ids, "
             "30 operations, 4 faults (long histories). Bounded: <=5 ids, <=5 operations, <=2 faults in the exhaustive part. Trusts TLC, the Go projection of the read API to ids, and "
             "that I/O errors arrive only through the File / walletdb.DB interfaces. Errors injected into rollbacks are "
             "not judged (the property only speaks about failed appends).",
        design="4 C07", technique="TLA+ spec + TLC exhaustive + spec-to-code replay of every transition + TLC-judged observed traces"),
    "C08": dict(
        engine="HeaderStore",
        text="Same specification with a crash allowed at every point between and inside the durable steps of every "
             "store call (file write torn after every half-entry count, after the file write, between the two steps "
             "of a rollback, while idle), followed by recovery; every crash transition is replayed on the real stores "
             "(the fault wrapper performs the torn write on the real file, then kills the call; descriptors are dropped "
             "and the directory reopened) and RecoverOpens / RecoveredContentLegal / NoTornEntry / FilterNotAhead / "
             "PostCrashRefinement are evaluated by TLC on what the reopened stores answer. Also a crash right after "
             "every database commit of a call: the walletdb.DB proxy counts the commits of each call (label field nc, "
             "compared with the model's one-per-call as drift) and every commit observed beyond the model's gets its own "
             "crash-and-recover replay; and a batch-size class Scale=2251 (one header id = a run of 2251 real headers "
             "written by ONE call, hash lookups of every real hash of a run projected to the id) so that behaviour "
             "that depends on batches above wire.MaxBlockHeadersPerMsg = 2000 entries is inside the explored graph.",
        note="Crash = process death with completed syscalls durable (no power-loss reordering); bbolt commits atomic. "
             "Multi-store crash points (reorganisation, filter-header batch, import) are covered by the BlockManager / "
             "Import families where claimed, not by this store-level check.",
        design="4 C08", technique="TLA+ spec with crash actions + TLC exhaustive + crash-point replay on real files + TLC-judged observed traces"),
}

PROPS = {
    "C07": ["ListRefinement", "ReopenPreserves", "FailedAppendLeavesStore"],
    "C08": ["RecoverOpens", "RecoveredContentLegal", "NoTornEntry", "FilterNotAhead",
            "PostCrashRefinement"],
}

# Which behaviour of the code the model describes (spec follows the code).
CODE_VERSION = json.load(open(os.path.join(SPEC, "code_version.json")))

CONFIGS = {
    ("C07", "quick"): dict(N=5, MaxLen=5, MaxBatch=3, MaxOps=5, MaxFaults=1, MaxCrashes=0, MaxLegacy=1, Scale=1),
    ("C07", "thorough"): dict(N=5, MaxLen=5, MaxBatch=3, MaxOps=6, MaxFaults=2, MaxCrashes=0, MaxLegacy=1, Scale=1),
    ("C08", "quick"): dict(N=4, MaxLen=4, MaxBatch=2, MaxOps=4, MaxFaults=0, MaxCrashes=2, MaxLegacy=0, Scale=1),
    ("C08", "thorough"): dict(N=5, MaxLen=5, MaxBatch=3, MaxOps=5, MaxFaults=1, MaxCrashes=2, MaxLegacy=1, Scale=1),
}

# Long histories (thorough tier): `tlc -simulate` on the same specification with larger constants;
# the behaviours are replayed and judged like the exhaustive graph's paths.
LONG = {
    "C07": dict(N=8, MaxLen=8, MaxBatch=3, MaxOps=30, MaxFaults=4, MaxCrashes=0, MaxLegacy=1, Scale=1),
    "C08": dict(N=8, MaxLen=8, MaxBatch=3, MaxOps=30, MaxFaults=2, MaxCrashes=5, MaxLegacy=1, Scale=1),
}
LONG_SIM = dict(num=2500, depth=32, walks=6000)

# Batch-size classes: the same specification with Scale > 1 - every header id stands for a run of Scale
# real headers, so one append is ONE WriteHeaders call with Scale..MaxBatch*Scale headers (2251: more than
# wire.MaxBlockHeadersPerMsg = 2000 per id, the size class of header import batches; 2000: exactly a
# full headers message per id).  Exhaustive graph, every transition replayed.
BIG = {
    ("C07", "quick"): [dict(N=3, MaxLen=3, MaxBatch=2, MaxOps=2, MaxFaults=1, MaxCrashes=0, MaxLegacy=0, Scale=2251)],
    ("C07", "thorough"): [dict(N=4, MaxLen=4, MaxBatch=3, MaxOps=3, MaxFaults=1, MaxCrashes=0, MaxLegacy=1, Scale=2251),
                          dict(N=3, MaxLen=3, MaxBatch=2, MaxOps=3, MaxFaults=1, MaxCrashes=0, MaxLegacy=0, Scale=2000)],
    ("C08", "quick"): [dict(N=3, MaxLen=3, MaxBatch=2, MaxOps=2, MaxFaults=0, MaxCrashes=1, MaxLegacy=0, Scale=2251)],
    ("C08", "thorough"): [dict(N=4, MaxLen=4, MaxBatch=3, MaxOps=3, MaxFaults=0, MaxCrashes=2, MaxLegacy=1, Scale=2251),
                          dict(N=3, MaxLen=3, MaxBatch=2, MaxOps=3, MaxFaults=0, MaxCrashes=1, MaxLegacy=0, Scale=2000)],
}
STORE_CALLS = ("AppendB", "AppendF", "RollbackB", "RollbackF")
ADAPTIVE_MAX = 96

ASSUMPTIONS = [
    "a crash is process death: every completed write/truncate/bbolt commit is durable, an interrupted "
    "file write leaves a prefix of its bytes (torn at half-entry granularity in the model, the same "
    "byte counts on the real file)",
    "bbolt transactions are atomic (the index update is one durable step)",
    "I/O errors are injected through the headerfs.File and walletdb.DB interfaces the stores use; "
    "errors inside bbolt itself are not modelled",
    "header ids are interchangeable, so appends always take the smallest unused ids",
    "batch-size classes: in the Scale > 1 configurations a header id stands for a run of Scale real headers "
    "written by one call; reads of every real height / hash of a run are projected to the id (G when the "
    "members of a run answer differently); block locators are read for the first, last, 2000th and 2001st "
    "member of a run only",
    "crash points inside a call exist after every file write prefix, between the durable steps and after "
    "every database commit the call is observed to make (counted by the walletdb.DB proxy)",
]


def label(act):
    s = act.get("op", "?")
    if s.startswith("Append"):
        s += "(%d)" % len(act.get("batch", []))
    elif s == "RollbackB":
        s += "(%d)" % act.get("n", 0)
    elif s in ("Reopen", "Recover") and act.get("n") in (1, 2, 3):
        s += {1: "(asserted)", 2: "(mismatching assertion)", 3: "(assertion above tip)"}[act.get("n")]
    stop = act.get("stop", "none")
    if stop != "none":
        s += "[%s%s]" % (stop, act.get("sn", ""))
    return s + "=" + str(act.get("res"))


def multi_store(tier, seed, t0):
    """C08 also speaks about multi-store operations (reorganisation, rollback): crash points BETWEEN
    the store calls of a headers message are explored on the BlockManager model and replayed on the
    real block manager; its coverage is merged into this check's evidence."""
    from . import blockmanager
    evdir = core.scratch("c08bm")
    old = os.environ.get("VERIF_EVIDENCE_DIR")
    os.environ["VERIF_EVIDENCE_DIR"] = evdir
    try:
        rc = blockmanager.run("C08", "crash3" if tier == "thorough" else "crash", seed)
        sub = json.load(open(os.path.join(evdir, "C08.json")))
    finally:
        if old is None:
            os.environ.pop("VERIF_EVIDENCE_DIR", None)
        else:
            os.environ["VERIF_EVIDENCE_DIR"] = old
        shutil.rmtree(evdir, ignore_errors=True)
    fn = os.path.join(os.environ.get("VERIF_EVIDENCE_DIR", os.path.join(core.VERIF, "evidence")), "C08.json")
    ev = json.load(open(fn))
    c, sc_ = ev["coverage"], sub["coverage"]
    c["multi_store_blockmanager"] = {k: sc_[k] for k in sc_ if k not in ("samples",)}
    c["states"] += sc_["states"]
    c["transitions"] += sc_["transitions"]
    c["traces_validated_against_impl"] += sc_["traces_validated_against_impl"]
    c["samples"] += sc_["samples"][:2]
    ev["violations"] = ev.get("violations", 0) + sub.get("violations", 0)
    ev["wall_s"] = round(time.time() - t0, 2)
    json.dump(ev, open(fn + ".tmp", "w"), indent=1)
    os.replace(fn + ".tmp", fn)
    return rc


def _merge(prop_id, key, cov, observed, n_new):
    fn = os.path.join(os.environ.get("VERIF_EVIDENCE_DIR", os.path.join(core.VERIF, "evidence")), prop_id + ".json")
    ev = json.load(open(fn))
    c = ev["coverage"]
    c.setdefault(key, []).append(cov)
    c["states"] += cov.get("states", 0)
    c["transitions"] += cov.get("transitions", 0)
    c["traces_validated_against_impl"] += len(observed)
    ev["violations"] = ev.get("violations", 0) + n_new
    json.dump(ev, open(fn + ".tmp", "w"), indent=1)
    os.replace(fn + ".tmp", fn)


def _report(prop_id, verdict, what, consts):
    rc = 0
    for kid, k in sorted(verdict["known"].items()):
        print("KNOWN-FINDING: property=%s %s [%s; seen on %d replayed traces, e.g. %s]" % (
            prop_id, k["entry"]["what_fails"], kid, k["count"], " ".join(k["example"])))
    for v in verdict["violations"][:5]:
        fn = core.save_replay(prop_id, {"property": prop_id, "props": v["props"], "step": v["step"],
                                        "labels": v["labels"], "trace": v["observed"], "config": consts})
        print("VIOLATION property=%s replay=%s" % (prop_id, fn))
        print("  violated: %s at step %d of (%s): %s" % (",".join(v["props"]), v["step"], what, " ".join(v["labels"])))
        rc = 1
    return rc


def big_batches(prop_id, tier, seed, rng, binary, sc):
    """Batch-size classes (Scale > 1): exhaustive graph of the same specification, every transition replayed
    with runs of Scale real headers per id.  Returns (rc, observed traces of all classes)."""
    import sys
    rc, all_obs = 0, []
    for n, cfg in enumerate(BIG.get((prop_id, tier), [])):
        consts = dict(cfg)
        consts.update(CODE_VERSION)
        t1 = time.time()
        tlc = core.run_tlc([SPEC], "HeaderStore", consts, workers=1, invariants=["TypeOK", "AbsBounded"],
                           workdir=os.path.join(sc, "tlcbig%d" % n), timeout=3000)
        if not tlc.ok:
            raise core.MachineryError("TLC on HeaderStore (Scale=%d) failed: %s\n%s" % (
                cfg["Scale"], tlc.error, tlc.stdout_tail[-3000:]))
        g = core.Graph.load(tlc)
        paths, unreach = core.edge_cover(g, rng)
        pf = os.path.join(sc, "paths_big%d.ndjson" % n)
        core.write_paths(g, paths, pf)
        observed, log = family.run_driver(binary, "TestVerifHeaderStoreReplay", pf,
                                          os.path.join(sc, "obs_big%d.ndjson" % n), sc)
        errs = [t for t in observed if t.get("error")]
        if errs:
            raise core.MachineryError("driver error on a Scale=%d path: %s" % (cfg["Scale"], errs[0]["error"][:2000]))
        verdict = family.judge([SPEC], "HeaderStoreProps", PROPS[prop_id], prop_id, observed, label=label)
        dr = family.drift(pf, observed, label=label)
        rc = max(rc, _report(prop_id, verdict, "Scale=%d: one id = %d real headers" % (cfg["Scale"], cfg["Scale"]), consts))
        if dr[1]:
            print("drift: %d of %d Scale=%d paths left the model's prediction (not a verdict)" % (
                dr[1], len(observed), cfg["Scale"]), file=sys.stderr)
        sizes = sorted({len(s["act"].get("batch", [])) * cfg["Scale"] for t in observed for s in t["steps"]
                        if s["act"]["op"].startswith("Append")})
        _merge(prop_id, "batch_size_classes", {
            "config": consts, "states": max(1, tlc.distinct), "transitions": len(g.edges),
            "replayed_paths": len(observed), "replayed_steps": sum(len(t["steps"]) for t in observed),
            "real_headers_per_write_call": sizes,
            "max_db_commits_per_call": max([s["act"].get("nc", 0) for t in observed for s in t["steps"]] + [0]),
            "judged_lines_by_tlc": verdict["n_lines"], "drift_paths": dr[1], "drift_samples": dr[2][:2],
            "new_violations": len(verdict["violations"]), "wall_s": round(time.time() - t1, 1)},
            observed, len(verdict["violations"]))
        all_obs += observed
    return rc, all_obs


def adaptive_crashes(prop_id, seed, rng, binary, sc, observed):
    """Crash points after EVERY database commit a call was observed to make.  The model says at most one
    commit per call (act.nc, compared as drift); wherever the code made more (nc >= 2), the same history is
    replayed with the process dying after the j-th commit, j = 1..nc-1, followed by Recover, and the recovered
    stores are judged by the C08 clauses like any other crash.  Nothing to do on code that commits once."""
    cand, seen = [], set()
    for t in observed:
        if t.get("error"):
            continue
        steps = [s for s in t["steps"] if not s.get("note")]
        for i, s in enumerate(steps):
            a = s["act"]
            if a["op"] in STORE_CALLS and a.get("nc", 0) >= 2 and a["res"] != "crash":
                for j in range(1, a["nc"]):
                    key = (tuple(label(x["act"]) for x in steps[:i + 1]), j, a.get("sc", 1))
                    if key in seen:
                        continue
                    seen.add(key)
                    crash = dict(a, stop="cdb", sn=j, res="crash", nc=j)
                    rec = dict(op="Recover", batch=[], n=0, stop="none", sn=0, res="ok", nc=0, sc=a.get("sc", 1))
                    cand.append({"init_obs": t.get("init_obs"),
                                 "steps": [{"act": x["act"]} for x in steps[:i]] + [{"act": crash}, {"act": rec}]})
    total = len(cand)
    if not cand:
        _merge(prop_id, "crash_after_each_observed_db_commit", {"calls_with_more_commits_than_modelled": 0,
                                                                "replayed_paths": 0}, [], 0)
        return 0
    # shortest histories first, then a seeded sample
    cand.sort(key=lambda c: len(c["steps"]))
    head, rest = cand[:ADAPTIVE_MAX // 2], cand[ADAPTIVE_MAX // 2:]
    rng.shuffle(rest)
    cand = head + rest[:ADAPTIVE_MAX - len(head)]
    pf = os.path.join(sc, "paths_adaptive.ndjson")
    with open(pf, "w") as f:
        for i, c in enumerate(cand):
            c["id"] = i
            f.write(json.dumps(c) + "\n")
    obs2, log = family.run_driver(binary, "TestVerifHeaderStoreReplay", pf, os.path.join(sc, "obs_adaptive.ndjson"), sc)
    errs = [t for t in obs2 if t.get("error")]
    if errs:
        raise core.MachineryError("driver error on an adaptive crash path: %s" % errs[0]["error"][:2000])
    verdict = family.judge([SPEC], "HeaderStoreProps", PROPS[prop_id], prop_id, obs2, label=label)
    rc = _report(prop_id, verdict, "crash after a database commit the model does not have", None)
    _merge(prop_id, "crash_after_each_observed_db_commit", {
        "calls_with_more_commits_than_modelled": total, "replayed_paths": len(obs2),
        "judged_lines_by_tlc": verdict["n_lines"], "new_violations": len(verdict["violations"])},
        obs2, len(verdict["violations"]))
    return rc


def long_histories(prop_id, seed, rng, binary, sc):
    consts = dict(LONG[prop_id])
    consts.update(CODE_VERSION)
    tlc = core.run_tlc([SPEC], "HeaderStore", consts, workers=1, workdir=os.path.join(sc, "tlcsim"), timeout=3000,
                       simulate="num=%d" % LONG_SIM["num"],
                       cfg_extra="", invariants=["TypeOK"], view=None,
                       extra_java=["-depth", str(LONG_SIM["depth"]), "-seed", str(seed)])
    if not tlc.ok:
        raise core.MachineryError("TLC -simulate on HeaderStore failed: %s\n%s" % (tlc.error, tlc.stdout_tail[-3000:]))
    g = core.Graph.load(tlc)
    paths = core.sim_walks(g, LONG_SIM["walks"], LONG_SIM["depth"], rng)
    pf = os.path.join(sc, "paths_long.ndjson")
    core.write_paths(g, paths, pf)
    observed, log = family.run_driver(binary, "TestVerifHeaderStoreReplay", pf, os.path.join(sc, "obs_long.ndjson"), sc)
    verdict = family.judge([SPEC], "HeaderStoreProps", PROPS[prop_id], prop_id, observed, label=label)
    dr = family.drift(pf, observed, label=label)
    rc = 0
    for v in verdict["violations"][:5]:
        fn = core.save_replay(prop_id, {"property": prop_id, "props": v["props"], "step": v["step"],
                                        "labels": v["labels"], "trace": v["observed"], "config": consts})
        print("VIOLATION property=%s replay=%s" % (prop_id, fn))
        print("  violated: %s at step %d of (long history): %s" % (",".join(v["props"]), v["step"], " ".join(v["labels"])))
        rc = 1
    if dr[1]:
        import sys
        print("drift: %d of %d long-history paths left the model's prediction (not a verdict)" % (dr[1], len(observed)),
              file=sys.stderr)
    fn = os.path.join(os.environ.get("VERIF_EVIDENCE_DIR", os.path.join(core.VERIF, "evidence")), prop_id + ".json")
    ev = json.load(open(fn))
    c = ev["coverage"]
    steps = sum(len(t["steps"]) for t in observed)
    c["long_histories_tlc_simulate"] = {
        "config": consts, "behaviours_simulated": LONG_SIM["num"], "depth": LONG_SIM["depth"],
        "states": len(g.out), "transitions": len(g.edges), "walks_replayed": len(observed), "replayed_steps": steps,
        "longest_walk": max([len(t["steps"]) for t in observed] + [0]),
        "judged_lines_by_tlc": verdict["n_lines"], "drift_paths": dr[1], "new_violations": len(verdict["violations"]),
        "known_findings_seen": {k: v["count"] for k, v in verdict["known"].items()}}
    c["traces_validated_against_impl"] += len(observed)
    ev["violations"] = ev.get("violations", 0) + len(verdict["violations"])
    json.dump(ev, open(fn + ".tmp", "w"), indent=1)
    os.replace(fn + ".tmp", fn)
    return rc


def run(prop_id, tier, seed, replay=None):
    t0 = time.time()
    rng = random.Random(seed)
    consts = dict(CONFIGS[(prop_id, tier)])
    consts.update(CODE_VERSION)
    sc = core.scratch("hs")
    try:
        pf = os.path.join(sc, "paths.ndjson")
        if replay:
            family.paths_from_replay(replay, pf)
            tlc, g, paths, unreach = family._NoTLC(), None, [0], 0
        else:
            tlc = core.run_tlc([SPEC], "HeaderStore", consts, workers=1, invariants=["TypeOK", "AbsBounded"],
                               workdir=os.path.join(sc, "tlc"), timeout=3000)
            if not tlc.ok:
                raise core.MachineryError("TLC on HeaderStore failed: %s\n%s" % (tlc.error, tlc.stdout_tail[-3000:]))
            g = core.Graph.load(tlc)
            paths, unreach = core.edge_cover(g, rng)
            if tier == "thorough":
                paths += core.random_walks(g, 2000, 12, rng)
            core.write_paths(g, paths, pf)
        binary = family.build_overlay_test(PKG, [DRIVER], os.path.join(sc, "headerfs.test"))
        observed, log = family.run_driver(binary, "TestVerifHeaderStoreReplay", pf,
                                          os.path.join(sc, "obs.ndjson"), sc)
        verdict = family.judge([SPEC], "HeaderStoreProps", PROPS[prop_id], prop_id, observed, label=label)
        dr = family.drift(pf, observed, label=label)
        rc = family.finish(prop_id, tier, seed, t0, tlc, g, paths, observed, verdict, dr,
                           {"config": consts, "edges_only_reachable_through_model_violation": unreach},
                           ASSUMPTIONS, label=label)
        if not replay:
            rc2, big_obs = big_batches(prop_id, tier, seed, rng, binary, sc)
            rc = max(rc, rc2)
            if prop_id == "C08":
                rc = max(rc, adaptive_crashes(prop_id, seed, rng, binary, sc, observed + big_obs))
        if tier == "thorough" and not replay:
            rc = max(rc, long_histories(prop_id, seed, rng, binary, sc))
        if prop_id == "C08" and not replay:
            rc = max(rc, multi_store(tier, seed, t0))
        if prop_id == "C07" and not replay:
            # concurrent readers against a writer (reader/writer slice, HSRace.tla)
            from . import hsrace
            rc2, cov2 = hsrace.run_race("C07", tier, seed)
            hsrace.merge_evidence("C07", cov2)
            rc = max(rc, rc2)
        return rc
    finally:
        shutil.rmtree(sc, ignore_errors=True)
