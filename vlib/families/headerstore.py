"""HeaderStore family: C07 (append/rollback log, reopen, failed append) and
C08 store-level crash points."""
import json, os, random, shutil, time
from .. import core, family

SPEC = os.path.join(core.VERIF, "specs", "HeaderStore")
DRIVER = os.path.join(core.VERIF, "harness", "overlay", "headerfs", "zz_verif_headerstore_test.go")
PKG = os.path.join(core.REPO, "headerfs")

PROPS = {
    "C07": ["ListRefinement", "ReopenPreserves", "FailedAppendLeavesStore"],
    "C08": ["RecoverOpens", "RecoveredContentLegal", "NoTornEntry", "FilterNotAhead",
            "PostCrashRefinement"],
}

# Which behaviour of the code the model describes (spec follows the code).
CODE_VERSION = json.load(open(os.path.join(SPEC, "code_version.json")))

CONFIGS = {
    ("C07", "quick"): dict(N=4, MaxLen=4, MaxBatch=2, MaxOps=4, MaxFaults=1, MaxCrashes=0),
    ("C07", "thorough"): dict(N=5, MaxLen=5, MaxBatch=3, MaxOps=5, MaxFaults=2, MaxCrashes=0),
    ("C08", "quick"): dict(N=4, MaxLen=4, MaxBatch=2, MaxOps=3, MaxFaults=0, MaxCrashes=1),
    ("C08", "thorough"): dict(N=5, MaxLen=5, MaxBatch=3, MaxOps=5, MaxFaults=1, MaxCrashes=2),
}

ASSUMPTIONS = [
    "a crash is process death: every completed write/truncate/bbolt commit is durable, an interrupted "
    "file write leaves a prefix of its bytes (torn at half-entry granularity in the model, the same "
    "byte counts on the real file)",
    "bbolt transactions are atomic (the index update is one durable step)",
    "I/O errors are injected through the headerfs.File and walletdb.DB interfaces the stores use; "
    "errors inside bbolt itself are not modelled",
    "header ids are interchangeable, so appends always take the smallest unused ids",
]


def label(act):
    s = act.get("op", "?")
    if s.startswith("Append"):
        s += "(%d)" % len(act.get("batch", []))
    elif s == "RollbackB":
        s += "(%d)" % act.get("n", 0)
    stop = act.get("stop", "none")
    if stop != "none":
        s += "[%s%s]" % (stop, act.get("sn", ""))
    return s + "=" + str(act.get("res"))


def run(prop_id, tier, seed, replay=None):
    t0 = time.time()
    rng = random.Random(seed)
    consts = dict(CONFIGS[(prop_id, tier)])
    consts.update(CODE_VERSION)
    sc = core.scratch("hs")
    try:
        tlc = core.run_tlc([SPEC], "HeaderStore", consts, workers=1, invariants=["TypeOK", "AbsBounded"],
                           workdir=os.path.join(sc, "tlc"), timeout=3000)
        if not tlc.ok:
            raise core.MachineryError("TLC on HeaderStore failed: %s\n%s" % (tlc.error, tlc.stdout_tail[-3000:]))
        g = core.Graph.load(tlc)
        paths, unreach = core.edge_cover(g, rng)
        if tier == "thorough":
            paths += core.random_walks(g, 2000, 12, rng)
        pf = os.path.join(sc, "paths.ndjson")
        core.write_paths(g, paths, pf)
        binary = family.build_overlay_test(PKG, [DRIVER], os.path.join(sc, "headerfs.test"))
        observed, log = family.run_driver(binary, "TestVerifHeaderStoreReplay", pf,
                                          os.path.join(sc, "obs.ndjson"), sc)
        verdict = family.judge([SPEC], "HeaderStoreProps", PROPS[prop_id], prop_id, observed, label=label)
        dr = family.drift(pf, observed, label=label)
        return family.finish(prop_id, tier, seed, t0, tlc, g, paths, observed, verdict, dr,
                             {"config": consts, "edges_only_reachable_through_model_violation": unreach},
                             ASSUMPTIONS, label=label)
    finally:
        shutil.rmtree(sc, ignore_errors=True)
